// Probe types for correspondence B. The semantics of `Leaf` must match
// `probeOps` in /verif/lean/DW/Probe.lean: value 99 is NaN-like.
#![allow(dead_code, unused, non_camel_case_types, non_snake_case)]
pub use core::marker::PhantomData;
use core::cmp::Ordering;
use core::fmt;
use core::hash::{Hash, Hasher};
use std::cell::RefCell;

thread_local! { pub static LOG: RefCell<Vec<String>> = RefCell::new(Vec::new()); }
pub fn emit(s: String) { use std::io::Write; let o = std::io::stdout(); let mut l = o.lock(); let _ = writeln!(l, "{}", s); let _ = l.flush(); }
pub fn log(s: String) { LOG.with(|l| l.borrow_mut().push(s)); }
pub fn take_log() -> String { LOG.with(|l| l.borrow_mut().drain(..).collect::<Vec<_>>().join(",")) }

#[cfg(feature = "z")]
pub mod krate { pub use ::zeroize; }

pub struct Leaf(pub u8);
impl PartialEq for Leaf { fn eq(&self, o: &Self) -> bool { self.0 == o.0 && self.0 != 99 } }
impl Eq for Leaf {}
impl PartialOrd for Leaf {
    fn partial_cmp(&self, o: &Self) -> Option<Ordering> {
        if self.0 == 99 || o.0 == 99 { None } else { Some(self.0.cmp(&o.0)) }
    }
}
impl Ord for Leaf { fn cmp(&self, o: &Self) -> Ordering { self.0.cmp(&o.0) } }
impl Hash for Leaf { fn hash<H: Hasher>(&self, s: &mut H) { s.write_u8(self.0) } }
impl Clone for Leaf { fn clone(&self) -> Self { log(format!("CF{}", self.0)); Leaf(self.0) } }
impl Copy for Leaf {}
impl fmt::Debug for Leaf { fn fmt(&self, f: &mut fmt::Formatter<'_>) -> fmt::Result { write!(f, "L{}", self.0) } }
impl Default for Leaf { fn default() -> Self { Leaf(7) } }
#[cfg(feature = "z")]
impl zeroize::Zeroize for Leaf { fn zeroize(&mut self) { log(format!("Z{}", self.0)); self.0 = 0; } }

/// A type with an inherent `zeroize` that is NOT the trait's.
pub struct Inh(pub u8);
impl Inh { pub fn zeroize(&mut self) { log(format!("I{}", self.0)); } }
#[cfg(feature = "z")]
impl zeroize::Zeroize for Inh { fn zeroize(&mut self) { log(format!("Z{}", self.0)); self.0 = 0; } }


// Leaf-like probe types that LACK some traits: usable only for fields that are skipped for those traits
// ("the type of a skipped field need not implement the traits it is skipped for", C06/C17).
// Everything they do implement behaves exactly like `Leaf` (same log entries, same rendering).
macro_rules! leaf_like {
    ($name:ident; $($tr:ident),*) => {
        pub struct $name(pub u8);
        $(leaf_like!(@impl $name $tr);)*
    };
    (@impl $n:ident Cmp) => {
        impl PartialEq for $n { fn eq(&self, o: &Self) -> bool { self.0 == o.0 && self.0 != 99 } }
        impl Eq for $n {}
        impl PartialOrd for $n { fn partial_cmp(&self, o: &Self) -> Option<Ordering> { if self.0 == 99 || o.0 == 99 { None } else { Some(self.0.cmp(&o.0)) } } }
        impl Ord for $n { fn cmp(&self, o: &Self) -> Ordering { self.0.cmp(&o.0) } }
    };
    (@impl $n:ident PartialOnly) => {
        impl PartialEq for $n { fn eq(&self, o: &Self) -> bool { self.0 == o.0 && self.0 != 99 } }
        impl PartialOrd for $n { fn partial_cmp(&self, o: &Self) -> Option<Ordering> { if self.0 == 99 || o.0 == 99 { None } else { Some(self.0.cmp(&o.0)) } } }
    };
    (@impl $n:ident Hash) => { impl Hash for $n { fn hash<H: Hasher>(&self, s: &mut H) { s.write_u8(self.0) } } };
    (@impl $n:ident Clone) => {
        impl Clone for $n { fn clone(&self) -> Self { log(format!("CF{}", self.0)); $n(self.0) } }
        impl Copy for $n {}
    };
    (@impl $n:ident Debug) => { impl fmt::Debug for $n { fn fmt(&self, f: &mut fmt::Formatter<'_>) -> fmt::Result { write!(f, "L{}", self.0) } } };
    (@impl $n:ident Default) => { impl Default for $n { fn default() -> Self { $n(7) } } };
    (@impl $n:ident Zeroize) => {
        #[cfg(feature = "z")]
        impl zeroize::Zeroize for $n { fn zeroize(&mut self) { log(format!("Z{}", self.0)); self.0 = 0; } }
    };
}
leaf_like!(NoCmp; Clone, Debug, Default, Zeroize);                 // no PartialEq/Eq/PartialOrd/Ord/Hash: needs skip or skip(EqHashOrd)
leaf_like!(NoHash; Cmp, Clone, Debug, Default, Zeroize);           // no Hash: needs skip, skip(Hash) or skip(EqHashOrd)
leaf_like!(NoDbg; Cmp, Hash, Clone, Default, Zeroize);             // no Debug: needs skip or skip(Debug)
leaf_like!(NoZ; Cmp, Hash, Clone, Debug, Default);                 // no Zeroize: needs skip or skip(Zeroize)
leaf_like!(NoEq; PartialOnly, Hash, Clone, Debug, Default, Zeroize); // PartialEq/PartialOrd but not Eq/Ord (like f32)

/// Generic wrapper with std-derived impls: `Wr<u8>` is `Eq`, `Wr<NoEq>` is not (same head name, different arguments).
#[derive(Clone, Copy, Debug, Default, PartialEq, Eq, PartialOrd, Ord, Hash)]
pub struct Wr<X>(pub X);

/// Implements nothing.
pub struct Nothing(pub u8);

#[cfg(not(feature = "z"))]
pub trait All: Clone + Copy + fmt::Debug + Default + Eq + Ord + Hash {}
#[cfg(feature = "z")]
pub trait All: Clone + Copy + fmt::Debug + Default + Eq + Ord + Hash + zeroize::Zeroize {}
impl All for Leaf {}

pub trait Super {}
impl Super for Leaf {}
/// User traits that are *named like* derived ones: a bound on them must never stand in for the derived trait's bound.
pub mod my { pub trait Clone {} pub trait Debug {} pub trait Hash {} pub trait PartialEq {} pub trait Default {} }
impl my::Clone for Leaf {} impl my::Debug for Leaf {} impl my::Hash for Leaf {} impl my::PartialEq for Leaf {} impl my::Default for Leaf {}
pub trait Tr { type Assoc; type Out; }
impl Tr for Leaf { type Assoc = Leaf; type Out = Leaf; }
impl<'x> Tr for &'x Leaf { type Assoc = Leaf; type Out = Leaf; }

pub struct Rec(pub Vec<String>);
impl Hasher for Rec {
    fn finish(&self) -> u64 { 0 }
    fn write(&mut self, b: &[u8]) { self.0.push(format!("bytes:{:?}", b)) }
    fn write_u8(&mut self, v: u8) { self.0.push(format!("u8:{}", v)) }
    fn write_u16(&mut self, v: u16) { self.0.push(format!("u16:{}", v)) }
    fn write_u32(&mut self, v: u32) { self.0.push(format!("u32:{}", v)) }
    fn write_u64(&mut self, v: u64) { self.0.push(format!("u64:{}", v)) }
    fn write_u128(&mut self, v: u128) { self.0.push(format!("u128:{}", v)) }
    fn write_usize(&mut self, v: usize) { self.0.push(format!("usize:{}", v)) }
    fn write_i8(&mut self, v: i8) { self.0.push(format!("i8:{}", v)) }
    fn write_i16(&mut self, v: i16) { self.0.push(format!("i16:{}", v)) }
    fn write_i32(&mut self, v: i32) { self.0.push(format!("i32:{}", v)) }
    fn write_i64(&mut self, v: i64) { self.0.push(format!("i64:{}", v)) }
    fn write_i128(&mut self, v: i128) { self.0.push(format!("i128:{}", v)) }
    fn write_isize(&mut self, v: isize) { self.0.push(format!("isize:{}", v)) }
}
pub fn hash_of<T: Hash>(v: &T) -> String { let mut r = Rec(Vec::new()); v.hash(&mut r); r.0.join(",") }

/// `IsTrait::<T>::IMPL` style probe: inherent const shadows the trait const.
pub struct Probe<T: ?Sized>(pub PhantomData<T>);
pub trait Fallback { const YES: bool = false; }
impl<T: ?Sized> Fallback for Probe<T> {}
