"""Correspondence B: run derived code through rustc (real macro, real compiler)
and compare every observation with the Lean specification (`specq` of the
driver), plus the evaluation of the model's own generated code.

Items must be *compilable by construction*: field types from a small set of
probe types (see exec/prelude.rs)."""
import hashlib
import itertools
import json
import os
import re
import shutil
import subprocess

import runner
from items import Ident

VERIF = runner.VERIF
EXEC = os.path.join(VERIF, 'exec')

FEATURES = {'default': [], 'safe': ['safe'], 'nightly': ['nightly'], 'zeroize': ['zeroize'],
            'zod': ['zeroize-on-drop'], 'safe-zod': ['safe', 'zeroize-on-drop']}

PH_RE = re.compile(r'^(::core::marker::)?PhantomData<.*>$')


LEAFLIKE = ('NoCmp', 'NoHash', 'NoDbg', 'NoZ', 'NoEq')


def field_kind(ty, tparams):
    ty = ty.strip()
    if ty in tparams or ty == 'Leaf' or ty in LEAFLIKE or ty in ('Wr<u8>', 'Wr<NoEq>'):   # Wr<..>: negative probes only
        return 'leaf'
    if ty == 'u8':
        return 'u8'
    if ty == 'Inh':
        return 'inh'
    if PH_RE.match(ty):
        return 'ph'
    return None


def b_transform(item):
    """Every type parameter gets the inline bound `All` (all probe traits), so that
    fields of parameter type support every derivable trait without being listed
    in a bound list (the user's side of `field types support the requested traits`)."""
    import copy
    it = copy.deepcopy(item)
    for p in it.params:
        if p.kind == 'ty':
            p.bounds = (p.bounds + ' + All') if p.bounds.strip() else 'All'
    return it


def compatible(item, strict=True):
    tps = [p.name for p in item.params if p.kind == 'ty']
    for p in item.params:
        if p.kind == 'ty' and p.bounds.strip() not in ('', 'Super', 'Clone', "'static", 'All', 'Super + All', 'Clone + All', "'static + All"):
            return False
        if p.kind == 'lt' and p.bounds.strip() not in ('', "'static"):
            return False
    if item.kind == 'union':
        return False
    if item.ident.rust() in ('bool', 'isize', 'usize', 'u8', 'u16', 'u32', 'u64', 'u128', 'i8', 'i16', 'i32', 'i64', 'i128'):
        return False          # known findings KF-isize, KF-bool: the expansion names integer types and `bool` by bare tokens
    for pr in item.preds:
        if not re.fullmatch(r"[A-Z]: (Super|'static|my::\w+)", pr.strip()):
            return False
    for a in item.attrs:
        if a.kind == 'repr' and a.repr_[0] != 'idents':
            return False
        if a.kind == 'dwq':
            return False
    for v in item.variants:
        for f in v.fields:
            if field_kind(f.ty, tps) is None:
                return False
    if not strict:
        used = ' '.join(f.ty for v in item.variants for f in v.fields)
        return all(re.search(r'\b%s\b' % re.escape(t), used) for t in tps)
    # well-posedness that is the user's business, not the macro's
    tr = set(derived_traits(item))
    need = {'Ord': {'Eq', 'PartialOrd', 'PartialEq'}, 'PartialOrd': {'PartialEq'}, 'Eq': {'PartialEq'}, 'Copy': {'Clone'}}
    for t, sup in need.items():
        if t in tr and not sup <= tr:
            return False
    for a in item.attrs:
        if a.kind == 'dw' and a.body.notlist is None and a.body.gens:
            if re.search(r'Assoc|Vec<|Out\b', a.body.rust_inner()):
                return False
    # known finding KF-E0367: `ZeroizeOnDrop` with a bound list puts a where-clause on `impl Drop`
    for a in item.attrs:
        if a.kind == 'dw' and a.body.notlist is None and a.body.gens:
            if any(not isinstance(e, str) and e.path.rust() == 'ZeroizeOnDrop' for e in a.body.elems):
                return False
    used = ' '.join(f.ty for v in item.variants for f in v.fields)
    for t in tps:
        if not re.search(r'\b%s\b' % re.escape(t), used):
            return False      # E0392
    if len(set(v.ident.rust() for v in item.variants)) != len(item.variants):
        return False
    # a supertrait derived under stricter bounds than the subtrait is the user's E0277
    per_attr = []
    for a in item.attrs:
        if a.kind == 'dw' and a.body.notlist is None:
            names = [e.path.rust() for e in a.body.elems if not isinstance(e, str)]
            per_attr.append((names, a.body.rust_inner().split(';', 1)[1].strip() if ';' in a.body.rust_inner() else ''))
    for names, gens in per_attr:
        for t in names:
            for sup in need.get(t, ()):
                for names2, gens2 in per_attr:
                    if sup in names2 and gens2 not in ('', gens):
                        return False
    src = item.rust()
    # an item-level `crate = ..` option: B's dependency on derive-where is not renamed, so the option either is an error
    # (stage 1) or names nothing; correspondence C compiles these items against the renamed crate
    for a in item.attrs:
        if a.kind == 'dw' and a.body.notlist is None and \
                any(not isinstance(e, str) and e.path.rust() == 'crate' for e in a.body.elems):
            return False
    # a zeroize crate path that names nothing in the harness crate (E0432/E0433 are not the macro's)
    if re.search(r'Zeroize(OnDrop)?\s*\(\s*crate\s*=\s*"?(?![\s"])(?!(::)?zeroize_?\b|krate::zeroize\b)', src):
        return False
    trl = derived_traits(item)
    if len(trl) != len(set(trl)):
        return False          # same trait in two attributes: E0119 is the user's
    if 'Copy' in trl and 'ZeroizeOnDrop' in trl:
        return False          # E0184 (Copy type with a destructor) is the user's
    ids = [i.rust() for a in item.attrs if a.kind == 'repr' and a.repr_[0] == 'idents' for i in a.repr_[1]]
    if 'C' in ids and len(ids) > 1 and all(v.shape == 'unit' for v in item.variants):
        return False  # E0566 on unit-only enums
    if len([i for i in ids if i != 'C']) > 1:
        return False  # conflicting representation hints
    return True


def compatible_cfg(item, cfg):
    """Well-posedness that depends on the feature configuration."""
    tr = derived_traits(item)
    if cfg == 'zeroize' and 'ZeroizeOnDrop' in tr and 'Zeroize' not in tr:
        return False          # without `zeroize-on-drop` the Drop impl calls Zeroize::zeroize(self): needs the user's Zeroize impl
    if cfg in ('zeroize', 'zod', 'safe-zod') and kf_dropcast(item):
        return False          # known finding KF-dropcast (one probe of it is compiled on every run by gen/kfprobe.py)
    return True


def kf_dropcast(item):
    """Known finding KF-dropcast: a field-less enum that derives `ZeroizeOnDrop` (hence implements `Drop`) and compares
    discriminants through the `Clone` shortcut `Clone::clone(self) as isize`, which rustc refuses for `Drop` types."""
    tr = derived_traits(item)
    return item.kind == 'enum' and all(not v.fields for v in item.variants) and 'ZeroizeOnDrop' in tr and \
        'Clone' in tr and bool({'PartialOrd', 'Ord'} & set(tr))


def type_args(item):
    args = []
    for p in item.params:
        args.append({'lt': "'static", 'ty': 'Leaf', 'const': '2'}[p.kind])
    return ('<' + ', '.join(args) + '>') if args else ''


DOMAIN = {'leaf': [0, 1, 99], 'u8': [0, 1], 'ph': [0], 'inh': [3, 4]}


def kinds_of(item):
    tps = [p.name for p in item.params if p.kind == 'ty']
    return [[field_kind(f.ty, tps) for f in v.fields] for v in item.variants]


def values_of(item, cap=9):
    """[(k, [vals])]"""
    out = []
    dom = dict(DOMAIN)
    if 'Ord' in derived_traits(item):
        dom['leaf'] = [0, 1, 2]     # `Ord` field types must have consistent `PartialOrd`: no NaN-like value
    for k, ks in enumerate(kinds_of(item)):
        combos = list(itertools.product(*[dom[x] for x in ks]))
        if len(combos) > 4:
            combos = combos[:2] + [combos[len(combos) // 2]] + combos[-1:]
        for c in combos:
            out.append((k, list(c)))
    if len(out) > cap:
        step = len(out) / cap
        out = [out[int(i * step)] for i in range(cap)]
    return out


def val_expr(item, k, vals, targs):
    v = item.variants[k]
    ks = kinds_of(item)[k]

    def fe(kind, x, ty):
        ctor = ty.strip() if ty.strip() in LEAFLIKE else 'Leaf'
        return {'leaf': '%s(%d)' % (ctor, x), 'u8': '%du8' % x, 'ph': '::core::marker::PhantomData', 'inh': 'Inh(%d)' % x}[kind]
    path = item.ident.rust() + ('::' + targs if targs else '')
    if item.kind == 'enum':
        path += '::' + v.ident.rust()
    if v.shape == 'unit':
        return path
    if v.shape == 'tuple':
        return '%s(%s)' % (path, ', '.join(fe(kd, x, f.ty) for f, kd, x in zip(v.fields, ks, vals)))
    return '%s { %s }' % (path, ', '.join('%s: %s' % (f.member.rust(), fe(kd, x, f.ty)) for f, kd, x in zip(v.fields, ks, vals)))


def view_fn(item, targs):
    arms = []
    for k, v in enumerate(item.variants):
        ks = kinds_of(item)[k]
        path = item.ident.rust() + ('::' + v.ident.rust() if item.kind == 'enum' else '')
        binds = ['f%d' % i for i in range(len(ks))]
        parts = []
        for b, kd in zip(binds, ks):
            parts.append({'leaf': '%s.0' % b, 'u8': '*%s' % b, 'ph': '0', 'inh': '%s.0' % b}[kd])
        fmt = 'V%d(%s)' % (k, ','.join('{}' for _ in parts))
        if v.shape == 'unit':
            pat = path
        elif v.shape == 'tuple':
            pat = '%s(%s)' % (path, ', '.join(binds))
        else:
            pat = '%s { %s }' % (path, ', '.join('%s: %s' % (f.member.rust(), b) for f, b in zip(v.fields, binds)))
        arms.append('%s => format!("%s"%s),' % (pat, fmt, ''.join(', ' + p for p in parts)))
    ty = item.ident.rust() + targs
    return 'pub fn view(v: &%s) -> String { match v { %s } }' % (ty, ' '.join(arms))


def derived_traits(item):
    out = []
    for a in item.attrs:
        if a.kind == 'dw' and a.body.notlist is None:
            for e in a.body.elems:
                if not isinstance(e, str):
                    p = e.path.rust()
                    if p in ('Clone', 'Copy', 'Debug', 'Default', 'Eq', 'Hash', 'Ord', 'PartialEq', 'PartialOrd', 'Zeroize', 'ZeroizeOnDrop'):
                        out.append(p)
    return out


def enc(v):
    return '%d:%s' % (v[0], ','.join(str(x) for x in v[1]))


def queries_for(item, cfg):
    tr = derived_traits(item)
    vals = values_of(item)
    pairs = [(a, b) for a in vals for b in vals]
    if len(pairs) > 36:
        step = len(pairs) / 36
        pairs = [pairs[int(i * step)] for i in range(36)] + [(v, v) for v in vals]
    qs = []
    if 'PartialEq' in tr:
        qs += [('eq', a, b) for a, b in pairs]
    if 'PartialOrd' in tr:
        qs += [('pcmp', a, b) for a, b in pairs]
    if 'Ord' in tr:
        qs += [('cmp', a, b) for a, b in pairs if 99 not in a[1] and 99 not in b[1] or True]
    for op, t in (('hash', 'Hash'), ('clone', 'Clone'), ('debug', 'Debug')):
        if t in tr:
            qs += [(op, a, None) for a in vals]
    if 'Default' in tr:
        qs.append(('default', None, None))
    zcfg = cfg in ('zeroize', 'zod', 'safe-zod')
    if zcfg and 'Zeroize' in tr:
        qs += [('zeroize', distinct(item, a), None) for a in vals]
    if zcfg and 'ZeroizeOnDrop' in tr and ('Zeroize' in tr or cfg != 'zeroize'):
        qs += [('drop', distinct(item, a), None) for a in vals]
    return qs


def distinct(item, a):
    """give every field a distinct value so that log entries identify positions"""
    k, vals = a
    return (k, [10 + i for i in range(len(vals))])


def qstr(q):
    op, a, b = q
    return ';'.join([op] + [enc(x) for x in (a, b) if x is not None])


HOSTILE = '''
        // everything the expansion mentions, redefined
        pub mod core {} pub mod std {} pub mod zeroize {}
        pub struct Option; pub struct Some; pub struct None; pub struct Ordering; pub struct Result; pub struct Ok;
        pub struct PhantomData; pub struct Formatter; pub struct DebugStruct; pub struct DebugTuple; pub struct Sized;
        pub trait Debug {} pub trait Default {} pub trait Hash {}
        pub trait PartialEq {} pub trait PartialOrd {} pub trait Hasher {} pub trait Drop {} pub trait Zeroize {}
        pub trait ZeroizeOnDrop {} pub trait AssertZeroize {} pub trait AssertZeroizeOnDrop {}
        pub fn discriminant() {} pub fn unreachable_unchecked() {} pub fn drop() {}
        macro_rules! matches { ($($t:tt)*) => { compile_error!("local matches! used") } }
        macro_rules! unreachable { ($($t:tt)*) => { compile_error!("local unreachable! used") } }
        macro_rules! compile_error2 { () => {} }
        // a blanket trait whose methods win over inherent `&mut self` methods and over nothing else
        pub trait Hijack {
            fn finish(&self) -> ::core::fmt::Result { ::core::result::Result::Err(::core::fmt::Error) }
            fn finish_non_exhaustive(&self) -> ::core::fmt::Result { ::core::result::Result::Err(::core::fmt::Error) }
            fn field(&self) {} fn write_str(&self) {} fn debug_struct(&self) {} fn debug_tuple(&self) {}
            fn eq(&self) {} fn ne(&self) {} fn partial_cmp(&self) {} fn cmp(&self) {} fn hash(&self) {}
            fn clone(&self) {} fn fmt(&self) {} fn cast(&self) {}
        }
        impl<T: ?::core::marker::Sized> Hijack for T {}
'''


def rust_probe(idx, item, cfg, qs, hostile=False):
    targs = type_args(item)
    lines = []
    ty = item.ident.rust() + targs
    for qi, (op, a, b) in enumerate(qs):
        tag = '%d|%d' % (idx, qi)
        if op in ('eq', 'pcmp', 'cmp'):
            ea, eb = val_expr(item, a[0], a[1], targs), val_expr(item, b[0], b[1], targs)
            if op == 'eq':
                lines.append('{ let a: %s = %s; let b: %s = %s; emit(format!("%s|{}|{}", a == b, a != b)); }' % (ty, ea, ty, eb, tag))
            elif op == 'pcmp':
                lines.append('{ let a: %s = %s; let b: %s = %s; emit(format!("%s|{:?}|{}{}{}{}", ::core::cmp::PartialOrd::partial_cmp(&a, &b), '
                             '(a < b) as u8, (a <= b) as u8, (a > b) as u8, (a >= b) as u8)); }' % (ty, ea, ty, eb, tag))
            else:
                lines.append('{ let a: %s = %s; let b: %s = %s; emit(format!("%s|{:?}", ::core::cmp::Ord::cmp(&a, &b))); }' % (ty, ea, ty, eb, tag))
        elif op == 'hash':
            lines.append('{ let a: %s = %s; emit(format!("%s|{}", hash_of(&a))); }' % (ty, val_expr(item, a[0], a[1], targs), tag))
        elif op == 'clone':
            lines.append('{ let a: %s = %s; take_log(); let c = ::core::clone::Clone::clone(&a); let l = take_log(); '
                         'emit(format!("%s|{}|{}", view(&c), l)); }' % (ty, val_expr(item, a[0], a[1], targs), tag))
        elif op == 'debug':
            lines.append('{ let a: %s = %s; emit(format!("%s|{:?}|{}", a, format!("{:#?}", a).replace("\\n", "\\\\n"))); }'
                         % (ty, val_expr(item, a[0], a[1], targs), tag))
        elif op == 'default':
            lines.append('{ let a: %s = ::core::default::Default::default(); take_log(); emit(format!("%s|{}", view(&a))); }' % (ty, tag))
        elif op == 'zeroize':
            lines.append('{ let mut a: %s = %s; take_log(); ::zeroize::Zeroize::zeroize(&mut a); let l = take_log(); '
                         'emit(format!("%s|{}|{}", view(&a), l)); }' % (ty, val_expr(item, a[0], a[1], targs), tag))
        elif op == 'drop':
            lines.append('{ let a: %s = %s; take_log(); let nd = ::core::mem::needs_drop::<%s>(); ::core::mem::drop(a); let l = take_log(); '
                         'emit(format!("%s|{}|{}", nd, l)); }' % (ty, val_expr(item, a[0], a[1], targs), ty, tag))
    body = '\n        '.join(lines)
    if hostile == 'nip' and not getattr(item, 'expect_error', None):
        # the whole module is WITHOUT the implicit prelude; the probe code itself only uses absolute paths and explicit imports
        txt = ('#[no_implicit_prelude]\npub mod m%d {\n    use super::prelude::*;\n    use ::derive_where::derive_where;\n'
               '    use ::core::clone::Clone; use ::core::marker::Copy;\n    %s\n    %s\n'
               '    pub fn run() {\n        emit(format!("BEGIN|%d"));\n        %s\n    }\n}\n'
               % (idx, item.rust(), view_fn(item, targs), idx, body))
        return txt.replace('format!(', '::std::format!(').replace('-> String', '-> ::std::string::String')
    src = mrules_item(idx, item) if hostile == 'mrules' else item.rust()
    if getattr(item, 'expect_error', None):
        return ('pub mod m%d {\n    use super::prelude::*;\n    use derive_where::derive_where;\n%s    %s\n    pub fn run() {}\n}\n'
                % (idx, HOSTILE if hostile is True else '', src))
    return ('pub mod m%d {\n    use super::prelude::*;\n    use derive_where::derive_where;\n%s    %s\n    %s\n'
            '    pub fn run() {\n        emit(format!("BEGIN|%d"));\n        %s\n    }\n}\n'
            % (idx, HOSTILE if hostile is True else '', src, view_fn(item, targs), idx, body))


def mrules_item(idx, item):
    """The item written by a `macro_rules!` whose arguments are the field types: the attribute and the item's names come
    from the macro's body, the types from its call site. `macro_rules!` hygiene applies to local variables: a temporary
    of the expansion that takes its span from a field type instead of the call site is then unresolved (round 9)."""
    import copy
    it = copy.deepcopy(item)
    args = []
    for v in it.variants:
        for f in v.fields:
            args.append(f.ty)
            f.ty = '$f%d' % (len(args) - 1)
    params = ', '.join('$f%d:ty' % i for i in range(len(args)))
    return 'macro_rules! dw_m%d { (%s) => { %s } }\n    dw_m%d!(%s);' % (idx, params, it.rust(), idx, ', '.join(args))


CARGO = '''[package]
name = "dwexec"
version = "0.0.0"
edition = "2021"

[dependencies]
derive-where = { path = "%s", features = [%s] }
%s

[features]
z = []

[workspace]
'''


def write_crate(cfg, mods, active):
    d = os.path.join(runner.WORK, 'exec-' + cfg)
    os.makedirs(os.path.join(d, 'src'), exist_ok=True)
    feats = ', '.join('"%s"' % f for f in FEATURES[cfg])
    z = cfg in ('zeroize', 'zod', 'safe-zod')
    with open(os.path.join(d, 'Cargo.toml'), 'w') as f:
        f.write(CARGO % (runner.REPO, feats, 'zeroize = "1"' if z else ''))
    shutil.copy(runner.REPO + '/Cargo.lock', os.path.join(d, 'Cargo.lock'))
    shutil.copy(os.path.join(EXEC, 'prelude.rs'), os.path.join(d, 'src', 'prelude.rs'))
    src = ['#![allow(warnings)]', 'mod prelude;', '#[cfg(feature = "z")] extern crate zeroize as zeroize_;']
    offsets = {}
    line = 4
    for i, m in enumerate(mods):
        if i in active:
            offsets[i] = (line, line + m.count('\n'))
            src.append(m.rstrip('\n'))
            line += m.count('\n')
    src.append('fn main() {\n    std::panic::set_hook(Box::new(|i| { eprintln!("PANICMSG {}", i.to_string().replace("\\n", " ")); }));')
    for i in sorted(active):
        src.append('    if let Err(e) = std::panic::catch_unwind(|| m%d::run()) { prelude::emit(format!("PANIC|%d|{}", '
                   'e.downcast_ref::<String>().cloned().or_else(|| e.downcast_ref::<&str>().map(|s| s.to_string())).unwrap_or_default().replace("\\n", " "))); }' % (i, i))
    src.append('}')
    with open(os.path.join(d, 'src', 'main.rs'), 'w') as f:
        f.write('\n'.join(src) + '\n')
    return d, offsets


def cargo(cfg, d, cmd):
    env = dict(os.environ)
    env.update(CARGO_TARGET_DIR=os.path.join(runner.TARGET, 'exec-' + cfg), CARGO_NET_OFFLINE='true')
    args = ['cargo'] + (['+nightly'] if cfg == 'nightly' else []) + cmd + ['--offline'] + \
        (['--features', 'z'] if cfg in ('zeroize', 'zod', 'safe-zod') else [])
    return subprocess.run(args, cwd=d, env=env, stdout=subprocess.PIPE, stderr=subprocess.PIPE, text=True)


def build_run(cfg, mods):
    """Returns (compile_errors: {idx: [messages]}, output: {(idx, qi): fields})."""
    active = set(range(len(mods)))
    errors = {}
    for _ in range(4):
        d, offsets = write_crate(cfg, mods, active)
        p = cargo(cfg, d, ['build', '--message-format=json', '-q'])
        bad = {}
        other = []
        for line in p.stdout.split('\n'):
            if not line.startswith('{'):
                continue
            try:
                m = json.loads(line)
            except ValueError:
                continue
            if m.get('reason') != 'compiler-message' or m['message'].get('level') != 'error':
                continue
            spans = m['message'].get('spans') or []
            ln = None
            for s in spans:
                if s.get('is_primary') and s.get('file_name', '').endswith('main.rs'):
                    ln = s['line_start']
            hit = None
            if ln is not None:
                for i, (a, b) in offsets.items():
                    if a <= ln < b:
                        hit = i
            code = (m['message'].get('code') or {}).get('code') or ''
            text = '%s %s' % (code, m['message']['message'])
            if hit is None:
                other.append(text)
            else:
                bad.setdefault(hit, []).append(text)
        if p.returncode == 0:
            break
        if not bad:
            raise RuntimeError('B crate does not build and errors cannot be attributed: %s %s' % (other[:3], p.stderr[-1500:]))
        for i, msgs in bad.items():
            errors[i] = msgs
            active.discard(i)
    else:
        raise RuntimeError('B crate still failing after removing erroneous items')
    out = {}
    crashes = {}
    for _ in range(6):
        r = cargo(cfg, d, ['run', '-q'])
        last = None
        for line in r.stdout.split('\n'):
            parts = line.split('|')
            if parts[0] == 'BEGIN':
                last = (int(parts[1]), -1)
            elif parts[0] == 'PANIC':
                if last is not None and last[0] == int(parts[1]):
                    crashes[last[0]] = (last[1] + 1, 'panicked: ' + '|'.join(parts[2:]))
            elif len(parts) >= 3:
                out[(int(parts[0]), int(parts[1]))] = parts[2:]
                last = (int(parts[0]), int(parts[1]))
        if r.returncode == 0:
            break
        if last is None:
            return errors, None, r.stderr[-2000:], crashes
        # the process died while running query last[1] + 1 of item last[0]
        err = r.stderr
        cut = max(err.rfind('unsafe precondition'), err.rfind('PANICMSG'))
        crashes[last[0]] = (last[1] + 1, ('exit status %s: ' % r.returncode) + (err[cut:cut + 400] if cut >= 0 else err[-400:]))
        active.discard(last[0])
        for k in [k for k in out if k[0] == last[0]]:
            del out[k]
        d, offsets = write_crate(cfg, mods, active)
        p = cargo(cfg, d, ['build', '-q'])
        if p.returncode != 0:
            return errors, None, p.stderr[-2000:], crashes
    return errors, out, '', crashes


def miri(cfg, named_items, hostile=False):
    """Run the probe crate of `named_items` under Miri (nightly toolchain): an execution of undefined behaviour in the
    expansion (a reached `unreachable_unchecked`, a tag read of the wrong width or alignment through the pointer
    cast, ..) stops the interpreter with a diagnostic. Returns a report dict with `failures`."""
    mods, qss = [], []
    for idx, (name, it) in enumerate(named_items):
        qs = [] if getattr(it, 'expect_error', None) else queries_for(it, cfg)
        qss.append(qs)
        mods.append(rust_probe(idx, it, cfg, qs, hostile))
    errors, out, runerr, crashes = build_run(cfg, mods)       # native run first: removes items that do not build
    d = os.path.join(runner.WORK, 'exec-' + cfg)
    env = dict(os.environ)
    env.update(CARGO_TARGET_DIR=os.path.join(runner.TARGET, 'miri-' + cfg), CARGO_NET_OFFLINE='true',
               MIRIFLAGS='-Zmiri-disable-isolation')
    args = ['cargo', '+nightly', 'miri', 'run', '--offline', '-q'] + (['--features', 'z'] if cfg in ('zeroize', 'zod', 'safe-zod') else [])
    r = subprocess.run(args, cwd=d, env=env, stdout=subprocess.PIPE, stderr=subprocess.PIPE, text=True)
    rep = dict(config=cfg, items=len(named_items), queries=sum(len(q) for q in qss), failures=[], miri_exit=r.returncode)
    last, mout = None, {}
    for line in r.stdout.split('\n'):
        parts = line.split('|')
        if parts[0] == 'BEGIN':
            last = (int(parts[1]), -1)
        elif len(parts) >= 3 and parts[0].isdigit():
            mout[(int(parts[0]), int(parts[1]))] = parts[2:]
            last = (int(parts[0]), int(parts[1]))
    rep['observations'] = len(mout)
    if r.returncode != 0:
        ub = 'Undefined Behavior' in r.stderr
        idx = last[0] if last else None
        name, it = named_items[idx] if idx is not None else ('?', None)
        q = qss[idx][last[1] + 1] if idx is not None and last[1] + 1 < len(qss[idx]) else ('?', None, None)
        rep['failures'].append(dict(name=name, source=it.rust() if it else '', config=cfg, operation=q[0],
                                    operands=[enc(x) for x in q[1:] if x is not None],
                                    expected=['no undefined behaviour (Miri)'],
                                    observed=[('Miri: Undefined Behavior: ' if ub else 'Miri stopped: ') + r.stderr[-600:].replace('\n', ' ')],
                                    spec='defined'))
    elif out is not None:
        diff = [k for k in out if k in mout and out[k] != mout[k]]
        for k in diff[:3]:
            name, it = named_items[k[0]]
            rep['failures'].append(dict(name=name, source=it.rust(), config=cfg, operation=qss[k[0]][k[1]][0], operands=[],
                                        expected=['the native result ' + str(out[k])], observed=['under Miri ' + str(mout[k])], spec='same'))
    return rep


# ------------------------------------------------------------------ expectations

def rust_discrs(item):
    vals, nxt = [], 0
    for v in item.variants:
        cur = v.discr[1] if v.discr else nxt
        vals.append(cur)
        nxt = cur + 1
    return vals


def repr_name(item):
    name = 'isize'
    for a in item.attrs:
        if a.kind == 'repr' and a.repr_[0] == 'idents':
            for i in a.repr_[1]:
                if i.rust() in ('u8', 'u16', 'u32', 'u64', 'u128', 'usize', 'i8', 'i16', 'i32', 'i64', 'i128', 'isize'):
                    name = i.rust()
                    break
    return name


def ph_name(ty, tparams):
    inner = ty.strip()
    inner = inner[inner.index('<') + 1:inner.rindex('>')]
    def sub(m):
        return 'dwexec::prelude::Leaf' if m.group(0) in tparams else m.group(0)
    return 'PhantomData<%s>' % re.sub(r'[A-Za-z_]\w*', sub, inner)


def leaf_dbg(kind, x, ty=None, tparams=()):
    if kind == 'ph':
        return ph_name(ty, tparams)
    return {'leaf': 'L%d' % x, 'u8': str(x), 'inh': '?'}[kind]


def parse_answer(ans):
    ans = ans.split(' text=', 1)[0]
    ans = re.sub(r' (ops=[01]{4}|ne=(true|false)|writes=\S*)$', '', ans)
    m = re.match(r'spec=(.*) eval=(.*)$', ans)
    return (m.group(1), m.group(2)) if m else (None, None)


def parse_text(ans):
    """`text=<spec compact>\\x1f<spec pretty>\\x1e<eval compact>\\x1f<eval pretty>` of a `debug` answer: the text the Lean
    model of core::fmt's builders (DW/Fmt.lean) renders, with `@pos@` where a field value's own text goes."""
    if ' text=' not in ans:
        return None, None
    t = ans.split(' text=', 1)[1]
    if '\x1e' not in t:
        return None, None
    a, b = t.split('\x1e', 1)
    return a, b


def fill_text(text, kinds, vals, tys, tparams):
    def sub(m):
        i = int(m.group(1))
        return leaf_dbg(kinds[i], vals[i], tys[i], tparams)
    return [re.sub(r'@(\d+)@', sub, x) for x in text.split('\x1f')]


def split_val_log(s):
    m = re.match(r'(.*) \[(.*)\]$', s)
    if not m:
        return s, None
    return m.group(1), [e for e in m.group(2).split(',') if e]


def expected_observation(item, cfg, q, spec, all_answers):
    """What the Rust probe must print for query q, given the spec answer."""
    op, a, b = q
    kinds = kinds_of(item)
    if op == 'eq':
        # `!=`: core's provided `ne` over the derived `eq`, computed by the Lean specification (`neOf`)
        return [spec, all_answers.get(('ne', enc(a), enc(b)))]
    if op == 'pcmp':
        # `<`, `<=`, `>`, `>=`: core's provided methods over the derived `partial_cmp` (`ltOf` .. `geOf` in DW/Spec.lean)
        return [spec, all_answers.get(('ops', enc(a), enc(b)))]
    if op == 'cmp':
        return [spec]
    k, vals = a if a else (None, None)
    if op == 'hash':
        # the discriminant write (type and value) comes from the Lean specification (`writes=`); only the fields' own
        # writes are filled in here (`Leaf` and `u8` write one `u8`, `PhantomData` nothing)
        w = all_answers.get(('writes', enc(a)))
        if w is None:
            return None
        out = []
        for e in [x for x in w.split(',') if x]:
            m = re.fullmatch(r'@(\d+)@', e)
            if not m:
                out.append(e)
            elif kinds[k][int(m.group(1))] != 'ph':
                out.append('u8:%d' % vals[int(m.group(1))])
        return [','.join(out)]
    if op == 'clone':
        v, log = split_val_log(spec)
        cf = ['CF%d' % vals[int(e[2:])] for e in log if kinds[k][int(e[2:])] == 'leaf']
        return [v, ','.join(cf)]
    if op == 'debug':
        tys = [f.ty for f in item.variants[k].fields]
        tps = [p.name for p in item.params if p.kind == 'ty']
        text = all_answers.get(('debugtext', enc(a)))
        if text and text != 'none':
            # the Lean model of core::fmt's builders (DW/Fmt.lean) renders the text; only the leaves' own text is filled in
            return fill_text(text, kinds[k], vals, tys, tps)
        return None          # no text from the driver: reported as a model failure by the caller
    if op == 'default':
        v, _ = split_val_log(spec)
        m = re.match(r'V(\d+)\((.*)\)$', v)
        kk = int(m.group(1))
        dv = [{'leaf': 7, 'u8': 0, 'ph': 0, 'inh': 0}[x] for x in kinds[kk]]
        return ['V%d(%s)' % (kk, ','.join(str(x) for x in dv))]
    if op in ('zeroize', 'drop'):
        state = list(vals)
        log = []

        def apply(events):
            for e in events:
                if e.startswith('Z'):
                    pos, via = e[1:].split(':')
                    i = int(pos)
                    kd = kinds[k][i]
                    if kd == 'leaf':
                        log.append('Z%d' % state[i]); state[i] = 0
                    elif kd == 'u8':
                        state[i] = 0
                    elif kd == 'inh':
                        if via == 'method':
                            log.append('I%d' % state[i])
                        else:
                            log.append('Z%d' % state[i]); state[i] = 0
        if op == 'zeroize':
            apply([x for x in spec.split(',') if x])
            return ['V%d(%s)' % (k, ','.join(str(0 if kinds[k][i] == 'ph' else state[i]) for i in range(len(state)))), ','.join(log)]
        ev = [x for x in spec.split(',') if x]
        if ev and ev[0].startswith('SC:'):
            zspec = all_answers.get(('zeroize', enc(a)))
            if zspec is None:
                return None
            for _ in ev:
                apply([x for x in zspec.split(',') if x])
        else:
            apply(ev)
        return ['true', ','.join(log)]
    return None


def attach(report, named_items, harness, render=lambda it: it.rust()):
    """Remember, for every failure, the item object and the harness that observed it (executable replays)."""
    by_src = {}
    for _, it in named_items:
        by_src.setdefault(render(it), it)
    fl = list(report.get('failures', []))
    ce = report.get('compile_errors')
    if isinstance(ce, dict):
        fl += list(ce.values())
    for f in fl:
        it = by_src.get(f.get('source'))
        if it is not None:
            f['_item'], f['_harness'] = it, harness
    return report


def run_b(cfg, named_items, hostile=False):
    """named_items: [(name, Item)] all `compatible`. Returns a report dict."""
    return attach(run_b_(cfg, named_items, hostile), named_items,
                  'B-nip' if hostile == 'nip' else 'B-mrules' if hostile == 'mrules' else 'B-hostile' if hostile else 'B')


def run_b_(cfg, named_items, hostile=False):
    mods, qss = [], []
    for idx, (name, it) in enumerate(named_items):
        qs = [] if getattr(it, 'expect_error', None) else queries_for(it, cfg)
        qss.append(qs)
        mods.append(rust_probe(idx, it, cfg, qs, hostile))
    errors, out, runerr, crashes = build_run(cfg, mods)
    _, bits = runner.CONFIGS[cfg]
    lines = ['specq %s %s%s' % (bits, it.sexp(), ''.join(' ## ' + qstr(q) for q in qs))
             for (_, it), qs in zip(named_items, qss)]
    p = subprocess.run([runner.DRIVER], input='\n'.join(lines) + '\n', stdout=subprocess.PIPE, text=True)
    answers = p.stdout.split('\n')
    report = dict(config=cfg, items=len(named_items), queries=0, compile_errors={}, failures=[], model_failures=[],
                  rejected=0, rejected_ok=0, run_error=runerr)
    for idx, ((name, it), qs) in enumerate(zip(named_items, qss)):
        ans = answers[idx] if idx < len(answers) else ''
        if idx in crashes:
            qi, msg = crashes[idx]
            q = qs[qi] if qi < len(qs) else ('?', None, None)
            report['failures'].append(dict(name=name, source=it.rust(), config=cfg, operation=q[0],
                                           operands=[enc(x) for x in q[1:] if x is not None],
                                           expected=['the operation returns (no abort, no panic)'],
                                           observed=['process died: ' + msg.replace('\n', ' ')[:400]], spec='terminates'))
            continue
        want = getattr(it, 'expect_error', None)
        if want:
            # negative probe: the expansion must NOT type-check (e.g. Eq with a non-Eq field that is not skipped)
            report['negative'] = report.get('negative', 0) + 1
            if idx in errors and any(e.split(' ')[0] in want for e in errors[idx]):
                continue
            report['failures'].append(dict(name=name, source=it.rust(), config=cfg, operation='compile', operands=[],
                                           expected=['rustc rejects the impl: %s' % '/'.join(want)],
                                           observed=errors.get(idx, ['compiles'])[:3], spec='must not compile'))
            continue
        if idx in errors:
            if ans == 'rejected':
                report['rejected_ok'] += 1      # the model predicts the rejection
            else:
                report['compile_errors'][idx] = dict(name=name, source=it.rust(), errors=errors[idx][:3], model=ans[:40])
            continue
        if ans == 'rejected':
            report['rejected'] += 1
            report['failures'].append(dict(name=name, source=it.rust(), config=cfg, operation='compile',
                                           operands=[], expected=['rejected by the macro'], observed=['compiles'], spec='rejected'))
            continue
        parts = ans.split(' ## ') if qs else []
        specs = {}
        for q, a in zip(qs, parts):
            s, e = parse_answer(a)
            specs[(q[0], enc(q[1]) if q[1] else None)] = s
            if q[0] == 'eq':
                m = re.search(r' ne=(true|false)$', a)
                specs[('ne', enc(q[1]), enc(q[2]))] = m.group(1) if m else None
            if q[0] == 'pcmp':
                m = re.search(r' ops=([01]{4})$', a)
                specs[('ops', enc(q[1]), enc(q[2]))] = m.group(1) if m else None
            if q[0] == 'hash':
                m = re.search(r' writes=(\S*)$', a)
                specs[('writes', enc(q[1]))] = m.group(1) if m else None
                if not m:
                    report['model_failures'].append(dict(name=name, source=it.rust(), query=qstr(q), answer=a[:200]))
            if q[0] == 'debug':
                st, et = parse_text(a)
                specs[('debugtext', enc(q[1]))] = st
                report['debug_texts'] = report.get('debug_texts', 0) + (st not in (None, 'none'))
                if st != et or st in (None, 'none'):
                    # the closed form of the specification and the builders' state machine run on the generated code's
                    # formatter calls must print the same text
                    report['model_failures'].append(dict(name=name, source=it.rust(), query=qstr(q), spec=st, eval=et))
        for qi, (q, a) in enumerate(zip(qs, parts)):
            report['queries'] += 1
            spec, ev = parse_answer(a)
            if spec is None:
                report['model_failures'].append(dict(name=name, source=it.rust(), query=qstr(q), answer=a[:200]))
                continue
            # model's generated code vs specification
            evv, evl = split_val_log(ev)
            ok = True
            if q[0] in ('eq', 'cmp', 'pcmp'):
                ok = evv == spec
            elif q[0] in ('hash', 'debug', 'zeroize', 'drop'):
                ok = evl is not None and ','.join(evl) == spec
            elif q[0] in ('clone', 'default'):
                ok = ev == spec
            if not ok:
                report['model_failures'].append(dict(name=name, source=it.rust(), query=qstr(q), spec=spec, eval=ev))
            if out is None:
                continue
            exp = expected_observation(it, cfg, q, spec, {k: v for k, v in specs.items()})
            obs = out.get((idx, qi))
            if obs is None:
                continue        # no observation (an earlier query of a crashing run); never a failure by itself
            if exp is not None and obs != exp:
                report['failures'].append(dict(name=name, source=it.rust(), config=cfg, operation=q[0],
                                               operands=[enc(x) for x in q[1:] if x is not None],
                                               expected=exp, observed=obs, spec=spec))
    return report
