import sys, json, time
sys.path.insert(0, '/verif/gen')
import bharness, enumerate_items, corpus
cfg = sys.argv[1] if len(sys.argv) > 1 else 'default'
names = sys.argv[2].split(',') if len(sys.argv) > 2 and sys.argv[2] else None
limit = int(sys.argv[3]) if len(sys.argv) > 3 else 150
items = [(n, bharness.b_transform(it)) for n, it in corpus.items() if bharness.compatible(it)]
allit = [(n, bharness.b_transform(it)) for n, it in enumerate_items.all_items(names) if bharness.compatible(it)]
step = max(1, len(allit) // limit)
items += allit[::step]
print('items', len(items), 'of', len(allit))
t0 = time.time()
rep = bharness.run_b(cfg, items)
print('time', round(time.time() - t0, 1), {k: (v if not isinstance(v, (list, dict)) else len(v)) for k, v in rep.items()})
for k, v in list(rep['compile_errors'].items())[:4]:
    print('CE', v['name'], v['source'][:200], v['errors'][:2], v['model'])
for f in rep['failures'][:4]:
    print('FAIL', json.dumps(f)[:600])
for f in rep['model_failures'][:8]:
    print('MODEL', json.dumps(f)[:600])
if rep['run_error']: print(rep['run_error'])
