import sys, collections
sys.path.insert(0, '/verif/gen')
from enumerate_items import all_items
from runner import run_hook, run_model
from try_a import agree, split_impls
cfgs = sys.argv[1].split(',') if len(sys.argv) > 1 else ['default']
items = all_items()
for cfg in cfgs:
    hook, log = run_hook(cfg, ['2 ' + it.rust() for _, it in items], tag='-enum')
    if hook is None:
        print(log[-3000:]); sys.exit(2)
    model = run_model('expand', cfg, [it.sexp() for _, it in items])
    assert len(hook) == len(model) == len(items), (len(hook), len(model), len(items))
    bad = 0
    okc = collections.Counter()
    for (n, it), h, m in zip(items, hook, model):
        okc[(n, h.split(' ')[0])] += 1
        if not agree(h, m):
            bad += 1
            if bad <= 5:
                print('--- DISAGREE', cfg, n); print(it.rust()); print(' hook :', h[:400]); print(' model:', m[:400])
    print(cfg, 'items', len(items), 'disagree', bad, dict(okc))
