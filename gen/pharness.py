"""Impl-presence probes (C01, C09, C17): for which instantiations of the type
parameters does the item implement each derived trait?

Items have fields that support every trait whatever the parameters are
(`PhantomData<..>`, `u8`), parameters WITHOUT blanket bounds, and one to three
`#[derive_where(..)]` attributes with different bound lists (parameters,
`Type: Bound` entries, non-path plain types, duplicates, permutations).  For
every derived trait and every instantiation of the parameters by marker types
(`Leaf`: everything, `JustClone`: Clone + Copy, `JustSuper`: only the user trait
`Super`, `Nothing`) the probe `impls!(A<..>: Trait)` is evaluated by rustc and
compared with the documented rule (DW/Props/C01.lean `PredEnv.entryOK`, proved
equivalent to the model's where-clause by `C01_applies_iff`):

    A<args>: Trait  <=>  every entry of the bound list of the attribute that
                         requested Trait holds:  `X` -> X: Trait (and X: Copy
                         for Clone on a union), `X: B` -> as written.

Instantiations that violate the item's own bounds are not probed (the type
does not exist)."""
import itertools
import json
import os
import random
import re
import shutil
import subprocess

import bharness
import runner
from items import Attr, Field, Gen, I, Item, MPathM, Param, Variant, metas_body, traits_body

VERIF = runner.VERIF
EXEC = os.path.join(VERIF, 'exec')
STD = ['Clone', 'Copy', 'Debug', 'Default', 'Eq', 'Hash', 'Ord', 'PartialEq', 'PartialOrd']
SUPER = {'Ord': ['Eq', 'PartialOrd', 'PartialEq'], 'PartialOrd': ['PartialEq'], 'Eq': ['PartialEq'], 'Copy': ['Clone']}
MARKERS = {'Leaf': set(STD) | {'Super', 'my::Clone', 'my::Debug'}, 'JustClone': {'Clone', 'Copy'},
           'JustSuper': {'Super', 'my::Clone', 'my::Debug'}, 'Nothing': set()}
PATH = {'Clone': '::core::clone::Clone', 'Copy': '::core::marker::Copy', 'Debug': '::core::fmt::Debug', 'Default': '::core::default::Default',
        'Eq': '::core::cmp::Eq', 'Hash': '::core::hash::Hash', 'Ord': '::core::cmp::Ord', 'PartialEq': '::core::cmp::PartialEq',
        'PartialOrd': '::core::cmp::PartialOrd'}


def entry(rng, tps):
    t = rng.choice(tps)
    q = rng.random()
    if q < 0.45:
        return Gen('param', t, I(t))
    if q < 0.75:
        return Gen('custom', rng.choice(['%s: Super' % t, '%s: Clone' % t, "%s: 'static" % t, '%s:' % t, '%s: Super + Clone' % t]))
    return Gen('nobound', rng.choice(['(%s, u8)' % t, '[%s; 2]' % t, '(%s,)' % t]))


def gen(rng):
    kind = rng.choice(['struct', 'struct', 'enum', 'enum', 'union'])
    tps = rng.choice([['T'], ['T', 'U'], ['T', 'U'], ['T', 'U', 'V']])
    params = [Param('ty', t, rng.choice(['', '', '', 'Super'])) for t in tps]
    params[-1].comma = False
    preds = ['%s: Super' % rng.choice(tps)] if rng.random() < 0.15 else []
    # trait groups: each attribute is closed under supertraits, different attributes use independent traits
    indep = ['Clone', 'Debug', 'Default', 'Hash', 'PartialEq']
    if kind == 'union':
        indep = ['Clone']
    rng.shuffle(indep)
    nattr = rng.choice([1, 2, 2, 3]) if kind != 'union' else 1
    groups = [[t] for t in indep[:nattr]]
    for g in groups:
        if g == ['Clone'] and (kind == 'union' or rng.random() < 0.5):
            g.append('Copy')
        if g == ['PartialEq']:
            g += rng.choice([[], ['Eq'], ['PartialOrd'], ['Eq', 'PartialOrd', 'Ord']])
        rng.shuffle(g)
    if kind != 'union' and rng.random() < 0.3 and len(groups) > 1:
        # a trait moved next to another one: same bound list for both
        groups[0] += groups.pop()
    attrs = []
    lists = []
    trails = []
    for g in groups:
        r = rng.random()
        if r < 0.12:
            gens = None
        elif r < 0.3 and lists and lists[-1] is not None:
            # related to the previous list: a permutation, a duplicate-padded version, a sub- or superset
            prev = list(lists[-1])
            mode = rng.choice(['perm', 'dup', 'sub', 'super', 'same'])
            if mode == 'perm':
                rng.shuffle(prev)
            elif mode == 'dup' and prev:
                prev = [prev[0]] * len(prev)
            elif mode == 'sub' and len(prev) > 1:
                prev = prev[:-1]
            elif mode == 'super':
                prev = prev + [entry(rng, tps)]
            gens = prev
        else:
            gens = [entry(rng, tps) for _ in range(rng.randint(1, 3))]
        lists.append(gens)
        trails.append(rng.random() < 0.1)
    # user traits that are *named like* derived ones (`my::Clone`, `my::Debug`) as custom bounds and where-predicates: a
    # bound on another trait of the same name must not stand in for the derived trait's bound (round 9). Decided by a
    # generator state of its own, so that the items above stay what they were.
    import zlib
    r2 = random.Random(zlib.crc32(repr((kind, tps, groups, [[e.rust() for e in (l or [])] for l in lists])).encode()))
    if r2.random() < 0.3:
        cand = [i for i, l in enumerate(lists) if l is not None]
        if cand:
            i = r2.choice(cand)
            lists[i] = list(lists[i])
            lists[i].insert(r2.randrange(len(lists[i]) + 1), Gen('custom', '%s: my::%s' % (r2.choice(tps), r2.choice(['Clone', 'Debug']))))
    if r2.random() < 0.12:
        preds.append('%s: my::%s' % (r2.choice(tps), r2.choice(['Clone', 'Debug'])))
    for g, gens, tr in zip(groups, lists, trails):
        attrs.append(Attr('dw', traits_body([MPathM(t) for t in g], gens, False, tr)))
    ph = '::core::marker::PhantomData<(%s)>' % ', '.join(tps + ['']) if len(tps) > 1 else '::core::marker::PhantomData<T>'
    if kind == 'enum':
        vs = [Variant(I('X'), 'tuple', [Field(0, ph, []), Field(1, 'u8', [])]), Variant(I('Y'), 'unit', [])]
        if any('Default' in g for g in groups):
            vs[1].bodies = [metas_body([MPathM('default')])]
    elif kind == 'union':
        vs = [Variant(I('A'), 'named', [Field(I('a'), ph, []), Field(I('b'), 'u8', [])])]
    else:
        shape = rng.choice(['tuple', 'named'])
        fs = [Field(I('a') if shape == 'named' else 0, ph, []), Field(I('b') if shape == 'named' else 1, 'u8', [])]
        vs = [Variant(I('A'), shape, fs)]
    it = Item(kind, I('A'), params, preds, False, attrs, vs)
    it.p_groups = list(zip(groups, lists))
    return it


def holds(pred, inst):
    """`X: B1 + B2` / `X:` / `X: 'static` for a parameter X under the instantiation."""
    m = re.fullmatch(r"(\w+)\s*:\s*(.*)", pred.strip())
    x, bs = m.group(1), [b.strip() for b in m.group(2).split('+') if b.strip()]
    return all(b == "'static" or b in MARKERS[inst[x]] for b in bs)


def entry_ok(e, trait, union_clone, inst):
    if e.kind == 'custom':
        return holds(e.src, inst)
    x = re.search(r'[A-Z]\b', e.src).group(0)            # the one parameter inside `X`, `(X, u8)`, `[X; 2]`, `(X,)`
    ok = trait in MARKERS[inst[x]]
    if union_clone:
        ok = ok and 'Copy' in MARKERS[inst[x]]
    return ok


def expected(it, trait, gens, inst):
    if gens is None:
        return True
    return all(entry_ok(e, trait, it.kind == 'union' and trait == 'Clone', inst) for e in gens)


def well_formed(it, inst):
    for p in it.params:
        if p.bounds.strip() and not holds('%s: %s' % (p.name, p.bounds), inst):
            return False
    return all(holds(pr, inst) for pr in it.preds)


def queries(it):
    tps = [p.name for p in it.params]
    qs = []
    for vals in itertools.product(list(MARKERS), repeat=len(tps)):
        inst = dict(zip(tps, vals))
        if not well_formed(it, inst):
            continue
        for g, gens in it.p_groups:
            for t in g:
                qs.append((t, inst, expected(it, t, gens, inst)))
    if len(qs) > 60:
        step = len(qs) / 60
        qs = [qs[int(i * step)] for i in range(60)]
    return qs


CARGO = '''[package]
name = "dwprobe"
version = "0.0.0"
edition = "2021"

[dependencies]
derive-where = { path = "%s", features = [%s] }

[workspace]
'''

PRELUDE = '''
#![allow(dead_code, unused)]
pub use core::marker::PhantomData;
pub fn emit(s: String) { println!("{}", s); }
#[derive(Clone, Copy, Debug, Default, PartialEq, Eq, PartialOrd, Ord, Hash)] pub struct Leaf(pub u8);
#[derive(Clone, Copy)] pub struct JustClone(pub u8);
pub struct JustSuper(pub u8);
pub struct Nothing(pub u8);
pub trait Super {}
impl Super for Leaf {}
impl Super for JustSuper {}
pub mod my { pub trait Clone {} pub trait Debug {} }
impl my::Clone for Leaf {} impl my::Clone for JustSuper {} impl my::Debug for Leaf {} impl my::Debug for JustSuper {}
#[macro_export]
macro_rules! impls {
    ($ty:ty : $($tr:tt)+) => {{
        struct P<T: ?Sized>(::core::marker::PhantomData<T>);
        trait No { const V: bool = false; }
        impl<T: ?Sized> No for P<T> {}
        impl<T: ?Sized + $($tr)+> P<T> { const V: bool = true; }
        <P<$ty>>::V
    }};
}
'''


def run(cfg, named):
    """named: [(name, item)] (items from gen()). Returns a report like bharness.run_b."""
    return bharness.attach(run_(cfg, named), named, 'P')


def run_(cfg, named):
    d = os.path.join(runner.WORK, 'probe-' + cfg)
    os.makedirs(os.path.join(d, 'src'), exist_ok=True)
    with open(os.path.join(d, 'Cargo.toml'), 'w') as f:
        f.write(CARGO % (runner.REPO, ', '.join('"%s"' % x for x in bharness.FEATURES[cfg])))
    shutil.copy(runner.REPO + '/Cargo.lock', os.path.join(d, 'Cargo.lock'))
    with open(os.path.join(d, 'src', 'prelude.rs'), 'w') as f:
        f.write(PRELUDE)
    qss = [queries(it) for _, it in named]
    active = set(range(len(named)))
    errors = {}
    out = {}
    env = dict(os.environ)
    env.update(CARGO_TARGET_DIR=os.path.join(runner.TARGET, 'exec-' + cfg), CARGO_NET_OFFLINE='true')
    tool = ['cargo'] + (['+nightly'] if cfg == 'nightly' else [])
    for _ in range(4):
        src = ['#![allow(warnings)]', '#[macro_use] mod prelude;']
        ranges = {}
        line = 3
        for i, (_, it) in enumerate(named):
            if i not in active:
                continue
            body = []
            for qi, (t, inst, _) in enumerate(qss[i]):
                ty = 'A<%s>' % ', '.join(inst[p.name] for p in it.params)
                body.append('emit(format!("%d|%d|{}", impls!(%s: %s)));' % (i, qi, ty, PATH[t]))
            m = ('pub mod p%d {\n    use super::prelude::*;\n    use derive_where::derive_where;\n    %s\n    pub fn run() {\n        %s\n    }\n}\n'
                 % (i, it.rust(), '\n        '.join(body)))
            ranges[i] = (line, line + m.count('\n'))
            src.append(m.rstrip('\n'))
            line += m.count('\n')
        src.append('fn main() {\n' + ''.join('    p%d::run();\n' % i for i in sorted(active)) + '}')
        with open(os.path.join(d, 'src', 'main.rs'), 'w') as f:
            f.write('\n'.join(src) + '\n')
        p = subprocess.run(tool + ['build', '--offline', '--message-format=json', '-q'], cwd=d, env=env,
                           stdout=subprocess.PIPE, stderr=subprocess.PIPE, text=True)
        bad = {}
        for l in p.stdout.split('\n'):
            if not l.startswith('{'):
                continue
            try:
                m = json.loads(l)
            except ValueError:
                continue
            if m.get('reason') != 'compiler-message' or m['message'].get('level') != 'error':
                continue
            ln = None
            for s in m['message'].get('spans') or []:
                if s.get('is_primary') and s.get('file_name', '').endswith('main.rs'):
                    ln = s['line_start']
            for i, (a, b) in ranges.items():
                if ln is not None and a <= ln < b:
                    code = (m['message'].get('code') or {}).get('code') or ''
                    bad.setdefault(i, []).append((code + ' ' + m['message']['message']).strip())
        if p.returncode == 0:
            break
        if not bad:
            raise RuntimeError('probe crate does not build: ' + p.stderr[-800:])
        for i, msgs in bad.items():
            errors[i] = msgs
            active.discard(i)
    else:
        raise RuntimeError('probe crate still failing after removing erroneous items')
    r = subprocess.run(tool + ['run', '--offline', '-q'], cwd=d, env=env, stdout=subprocess.PIPE, stderr=subprocess.PIPE, text=True)
    for l in r.stdout.split('\n'):
        parts = l.split('|')
        if len(parts) == 3:
            out[(int(parts[0]), int(parts[1]))] = parts[2]
    rep = dict(config=cfg, items=len(named), queries=0, failures=[], compile_errors=len(errors))
    for i, (name, it) in enumerate(named):
        if i in errors:
            rep['failures'].append(dict(name=name, source=it.rust(), config=cfg, operation='compile', operands=[],
                                        expected=['compiles (fields are PhantomData/u8: every trait is supported)'], observed=errors[i][:3], spec='accepted'))
            continue
        for qi, (t, inst, exp) in enumerate(qss[i]):
            obs = out.get((i, qi))
            if obs is None:
                continue
            rep['queries'] += 1
            if obs != ('true' if exp else 'false'):
                ty = 'A<%s>' % ', '.join(inst[p.name] for p in it.params)
                rep['failures'].append(dict(name=name, source=it.rust(), config=cfg, operation='impls!(%s: %s)' % (ty, t), operands=[ty],
                                            expected=[str(exp).lower() + ' (the documented where-clause under this instantiation)'],
                                            observed=[obs], spec=str(exp).lower()))
    return rep


def items(cfg, n, seed, tag='-probe'):
    """n probe items accepted by the macro."""
    import bsearch
    rng = random.Random(seed + 7)
    its = [gen(rng) for _ in range(3 * n)]
    return [('probe', it) for it in bsearch.accepted(cfg, its, tag)[:n]]
