"""The check engine: proof obligations + correspondence A (+ B when available)
for one property.  See DESIGN.md §5, §6."""
import collections
import concurrent.futures
import hashlib
import json
import os
import random
import re
import subprocess
import sys
import time

HERE = os.path.dirname(os.path.abspath(__file__))
VERIF = os.path.dirname(HERE)
sys.path.insert(0, HERE)

import enumerate_items  # noqa: E402
import generate  # noqa: E402
import runner  # noqa: E402
import corpus  # noqa: E402

LEAN = os.path.join(VERIF, 'lean')
ALL_CONFIGS = ['default', 'safe', 'nightly', 'zeroize', 'zod', 'safe-zod']
STD = ['Clone', 'Copy', 'Debug', 'Default', 'Eq', 'Hash', 'Ord', 'PartialEq', 'PartialOrd']
ALLOWED_AXIOMS = {'propext', 'Classical.choice', 'Quot.sound'}


def has_skip(item):
    for a in item.attrs:
        if a.kind == 'dw' and 'skip' in a.body.rust_inner():
            return True
    for v in item.variants:
        for b in v.bodies:
            if 'skip' in b.rust_inner():
                return True
        for f in v.fields:
            for b in f.bodies:
                if 'skip' in b.rust_inner():
                    return True
    return False


# property -> how correspondence A is restricted and which theorems are audited
PROPS = {
    'C01': dict(traits=None, part='header', theorems=['DW.C01_applies_iff', 'DW.C01_unlisted_unconstrained', 'DW.C01_no_leak', 'DW.C01_merge_sound', 'DW.dedupGo_generics'],
                enums=['bounds'], configs_quick=['default', 'safe', 'zod'], design='7/C01'),
    'C02': dict(traits=None, part='all', count=True, theorems=['DW.C02_impl_list', 'DW.C02_delegation_same_bounds', 'DW.implPreds_shortcut', 'DW.C18_effect', 'DW.C09_fieldwise', 'DW.C06_skipped_never_mentioned', 'DW.C02_obligations', 'DW.C02_well_typed', 'DW.typeable_of_validated', 'DW.C02_type_checks', 'DW.C02_obligations_sub', 'DW.C02_preservation', 'DW.C02_never_stuck', 'DW.eval_progress', 'DW.eval_preserves', 'DW.NonVacuous.cxTotal', 'DW.matchPat_preserves', 'DW.applyFn_preserves', 'DW.NonVacuous.accepted', 'DW.NonVacuous.rawOK', 'DW.NonVacuous.implsOK'],
                enums=None, configs_quick=['default', 'safe', 'zod', 'nightly'], diagnostics=True, design='7/C02'),
    'C03': dict(traits=['PartialEq'], theorems=['DW.C03_validated', 'DW.C03_eq'], enums=['incomparable', 'skip', 'fieldopts', 'foreign', 'lacking'], configs_quick=['default', 'safe', 'zod', 'nightly'], design='7/C03'),
    'C04': dict(tables=True, traits=['PartialOrd', 'Ord'], theorems=['DW.C04_validated', 'DW.buildDiscriminants_spec', 'DW.C04_ord_refines', 'DW.C04_delegation', 'DW.C04_agree', 'DW.NonVacuous.tiOK', 'DW.NonVacuous.vals'],
                enums=['discriminants', 'incomparable', 'skip', 'fieldopts', 'foreign'], configs_quick=['default', 'safe', 'nightly', 'zod'], design='7/C04'),
    'C05': dict(tables=True, traits=['PartialEq', 'Eq', 'PartialOrd', 'Ord', 'Hash'],
                theorems=['DW.C05_skip_uniform', 'DW.C05_skip_hash_superset', 'DW.C05_eq_iff_pcmp', 'DW.C05_eq_symm', 'DW.C05_eq_trans',
                          'DW.C05_lt_gt', 'DW.C05_lt_trans', 'DW.C05_eq_hash', 'DW.C04_agree'],
                enums=['skip', 'incomparable', 'invalid', 'fieldopts', 'lacking'], configs_quick=['default', 'safe', 'zod', 'nightly'], design='7/C05'),
    'C06': dict(tables=True, traits=None, part='all', item_filter='skip', theorems=['DW.Skip.traitSkipped_eq_covers', 'DW.C06_invisible_eq', 'DW.C06_invisible_pcmp', 'DW.C06_invisible_hash',
                                                                         'DW.C06_invisible_debug', 'DW.C06_invisible_zeroize', 'DW.C06_visible_eq',
                                                                         'DW.relevantIdx_unskippable', 'DW.C06_unskippable_clone',
                                                                         'DW.C06_unskippable_default', 'DW.C06_no_demand_eq', 'DW.C06_skipped_never_mentioned', 'DW.C09_skip_blind', 'DW.C11_skip_blind'],
                enums=['skip', 'debug', 'zeroize', 'fieldopts', 'lacking'], configs_quick=['default', 'safe', 'zod'], design='7/C06'),
    'C07': dict(traits=['PartialEq', 'PartialOrd'], theorems=['DW.C07_marked_eq', 'DW.C07_marked_pcmp', 'DW.C07_self_compare', 'DW.C07_eq_eval', 'DW.C07_pcmp_eval',
                                                               'DW.C07_unaffected_eq', 'DW.C07_unaffected_pcmp', 'DW.C07_operators', 'DW.operators_of_partial_cmp'],
                enums=['incomparable'], configs_quick=['default', 'safe', 'nightly', 'zod'], design='7/C07'),
    'C08': dict(traits=['Hash'], theorems=['DW.C08_validated', 'DW.C08_transcript', 'DW.C08_iff'], enums=['skip', 'fieldopts', 'foreign', 'lacking'], configs_quick=['default', 'safe', 'zod'], design='7/C08'),
    'C09': dict(tables=True, traits=['Clone', 'Copy'], theorems=['DW.C09_validated', 'DW.C09_fieldwise', 'DW.C09_shortcut', 'DW.C09_union', 'DW.C09_copy_marker', 'DW.C09_skip_blind'],
                enums=['bounds', 'skip', 'foreign'], configs_quick=['default', 'safe', 'zod'], design='7/C09'),
    'C10': dict(traits=['Debug'], theorems=['DW.C10_validated', 'DW.C10_transcript', 'DW.C10_names', 'DW.C10_text', 'DW.Fmt.render_struct', 'DW.Fmt.render_tuple'], enums=['debug', 'skip', 'fieldopts', 'foreign', 'lacking'], configs_quick=['default', 'safe', 'zod'], design='7/C10'),
    'C11': dict(traits=['Default'], theorems=['DW.C11_body', 'DW.C11_validated', 'DW.C11_skip_blind'], enums=['default', 'foreign'], configs_quick=['default', 'safe', 'zod'], design='7/C11'),
    'C12': dict(tables=True, traits=['PartialEq', 'PartialOrd', 'Ord'], theorems=['DW.C12_validated', 'DW.C12_no_ub_eq', 'DW.C12_no_ub_ord', 'DW.C12_safe_no_unsafe'],
                enums=['incomparable', 'discriminants'], configs_quick=['default', 'safe', 'nightly', 'zod'], unsafe_scan=True, design='7/C12'),
    'C13': dict(tables=True, traits=STD, theorems=['DW.C13_eq_cfg_independent', 'DW.C13_ord_cfg_independent', 'DW.C13_untouched_traits',
                                      'DW.C13_zeroize_inert', 'DW.C13_forgetDiscr'],
                enums=['discriminants', 'incomparable', 'foreign'], configs_quick=ALL_CONFIGS, cross_config=True, design='7/C13'),
    'C14': dict(tables=True, traits=None, part='all', theorems=['DW.C14_no_method_calls', 'DW.C14_core_paths_rooted', 'DW.C14_trait_path', 'DW.C14_crate_option', 'DW.C14_fn_paths_rooted',
                                                'DW.C14_simple_distinct', 'DW.C14_field_vs_simple', 'DW.C14_self_vs_other', 'DW.C14_binders_fresh', 'DW.C14_crate_anywhere', 'DW.C14_vocabulary', 'DW.C14_vocabulary_rejects', 'DW.C14_scope_words', 'DW.C14_scope_dependence_witness'],
                enums=['debug', 'zeroize', 'names'], configs_quick=['default', 'zod', 'safe'], stage1=True, diagnostics=True, design='7/C14'),
    'C15': dict(tables=True, traits=[], outcome='message', theorems=['DW.C15_incomparable_total', 'DW.C15_incomparable_needs_partial', 'DW.C15_incomparable_not_both',
                                                        'DW.C15_default_unique', 'DW.C15_default_needs_derive', 'DW.C15_union_traits',
                                                        'DW.C15_skip_group_derived', 'DW.C15_no_duplicate_trait', 'DW.C15_item_attr_shape',
                                                        'DW.C15_skip_repeated', 'DW.C15_field_attr_shape', 'DW.C15_skip_redundant', 'DW.C15_skip_redundant_bare',
                                                        'DW.C15_skip_inner_no_fields', 'DW.C15_lifetime_bound', 'DW.C15_bad_trait', 'DW.C15_bad_trait_instances',
                                                        'DW.C15_empty_struct', 'DW.C15_use_case', 'DW.C15_fqs_repeated', 'DW.C15_variant_option_repeated'],
                enums=['invalid', 'skip', 'default'], configs_quick=['default', 'zeroize', 'zod', 'nightly'], diagnostics=True, design='7/C15'),
    'C16': dict(tables=True, traits=[], outcome='message', theorems=['DW.C16_no_panic_stage2', 'DW.Input.fromInput_np', 'DW.genPanic_none', 'DW.C16_stage1_item_kept', 'DW.C16_stage1_forward', 'DW.C16_pipeline', 'DW.C16_crate_args_rejected', 'DW.C16_second_visit'],
                enums=['invalid', 'names'], stage1=True, malformed=0.6, configs_quick=['default', 'zeroize', 'zod', 'nightly'], diagnostics=True, design='7/C16'),
    'C17': dict(tables=True, traits=['Eq', 'Clone'], theorems=['DW.C17_eq_obligations', 'DW.C17_union', 'DW.C06_skipped_never_mentioned', 'DW.C02_obligations', 'DW.C02_well_typed'], enums=['skip', 'bounds', 'fieldopts', 'lacking'], configs_quick=['default', 'safe', 'zod'], design='7/C17'),
    'C18': dict(traits=['Zeroize'], theorems=['DW.C18_validated', 'DW.C18_effect'], enums=['zeroize', 'skip', 'fieldopts'], configs_quick=['zeroize', 'zod'],
                configs_thorough=['zeroize', 'zod', 'safe-zod'], design='7/C18'),
    'C19': dict(traits=['ZeroizeOnDrop'], theorems=['DW.C19_validated', 'DW.C19_effect_zod', 'DW.C19_effect_delegating', 'DW.C19_impls'],
                enums=['zeroize', 'skip', 'fieldopts'], configs_quick=['zeroize', 'zod'], configs_thorough=['zeroize', 'zod', 'safe-zod'], design='7/C19'),
}


# --------------------------------------------------------------------------- proofs

def sh(cmd, cwd=None, timeout=3600):
    p = subprocess.run(cmd, cwd=cwd, stdout=subprocess.PIPE, stderr=subprocess.STDOUT, text=True, timeout=timeout)
    return p.returncode, p.stdout


FORBIDDEN = re.compile(r'\bsorry\b|\badmit\b|^axiom |native_decide|bv_decide|implemented_by|\bunsafe |maxHeartbeats 0')


def strip_comments(src):
    src = re.sub(r'/-.*?-/', '', src, flags=re.S)
    return '\n'.join(l.split('--')[0] for l in src.split('\n'))


def proof_obligations(prop, thorough):
    """Build the property's theorems, audit their axioms, scan the sources."""
    spec = PROPS[prop]
    module = 'DW.Props.' + prop
    t0 = time.time()
    rc, out = sh(['lake', 'build', 'DW', 'dwdriver', module], cwd=LEAN)
    res = dict(module=module, build_ok=rc == 0, build_s=round(time.time() - t0, 1), problems=[])
    if rc != 0:
        res['problems'].append('lake build failed: ' + out[-1500:])
        return res
    os.makedirs(runner.WORK, exist_ok=True)
    audit = os.path.join(runner.WORK, 'Audit_%s.lean' % prop)
    with open(audit, 'w') as f:
        f.write('import %s\nimport DW.Props.NonVacuous\nimport DW.Props.EndToEnd\n' % module + ''.join('#print axioms %s\n' % t for t in spec['theorems']))
    rc, out = sh(['lake', 'env', 'lean', audit], cwd=LEAN)
    axioms, discharged = {}, 0
    for t in spec['theorems']:
        m = re.search(r"'%s' depends on axioms: \[([^\]]*)\]" % re.escape(t), out)
        if m:
            ax = [a.strip() for a in m.group(1).split(',') if a.strip()]
        elif re.search(r"'%s' does not depend on any axioms" % re.escape(t), out):
            ax = []
        else:
            res['problems'].append('theorem %s not found by the audit: %s' % (t, out[-400:]))
            continue
        axioms[t] = ax
        bad = [a for a in ax if a not in ALLOWED_AXIOMS]
        if bad:
            res['problems'].append('theorem %s depends on %s' % (t, bad))
        else:
            discharged += 1
    res.update(obligations=len(spec['theorems']), discharged=discharged, axioms=axioms)
    # source scan
    hits = []
    for root, _, files in os.walk(os.path.join(LEAN, 'DW')):
        for fn in files:
            if fn.endswith('.lean'):
                p = os.path.join(root, fn)
                for i, line in enumerate(strip_comments(open(p).read()).split('\n')):
                    if FORBIDDEN.search(line):
                        hits.append('%s:%d: %s' % (os.path.relpath(p, VERIF), i + 1, line.strip()[:80]))
    if hits:
        res['problems'].append('forbidden constructs: ' + '; '.join(hits[:5]))
    # finite tables: extracted from the current source, equality with the model checked by the kernel
    if spec.get('tables'):
        import tables
        probs, n = tables.check(prop)
        if probs is None:
            res['tables'] = dict(extractable=False, reason=n, note='tables not in the recognised shape: tied by correspondence A only')
        else:
            res['problems'] += probs
            res['obligations'] = res.get('obligations', 0) + len(tables.LAST_NAMES)
            res['discharged'] = res.get('discharged', 0) + n
            res['tables'] = dict(extractable=True, theorems=len(tables.LAST_NAMES), discharged=n,
                                 source=['src/attr/skip.rs', 'src/trait_.rs', 'src/item.rs', 'src/attr/item.rs', 'src/trait_/*.rs'])
    # lemma count in the closure (informational)
    res['theorems_in_model'] = count_theorems()
    if thorough:
        rc, out = sh(['lake', 'env', 'leanchecker', module], cwd=LEAN)
        res['leanchecker_ok'] = rc == 0
        if rc != 0:
            res['problems'].append('leanchecker: ' + out[-400:])
    res['checker_cmd'] = 'cd lean && lake build DW dwdriver %s && lake env lean ../work/Audit_%s.lean' % (module, prop) + \
        (' && lake env leanchecker %s' % module if thorough else '') + \
        (' && lake env lean ../work/Tables_%s.lean' % prop if spec.get('tables') else '')
    return res


def count_theorems():
    n = 0
    for root, _, files in os.walk(os.path.join(LEAN, 'DW')):
        for fn in files:
            if fn.endswith('.lean'):
                n += len(re.findall(r'^theorem ', open(os.path.join(root, fn)).read(), flags=re.M))
    return n


# --------------------------------------------------------------------------- items

def build_items(prop, tier, seed):
    spec = PROPS[prop]
    items = []
    for name, it in corpus.items():
        items.append(('corpus:' + name, it))
    for name, it in enumerate_items.all_items(spec.get('enums')):
        items.append(('enum:' + name, it))
    rng = random.Random(seed * 7919 + 13)       # its own stream: a longer enumerator must not shift the random items below
    # re-spelled / re-grouped copies of enumerator items: the same options in another order, split over several attributes
    # or merged into one, with trailing commas (what the documentation calls equivalent; the model decides)
    import copy as _copy
    import items as _items
    base = [x for x in items if x[0].startswith('enum:')]
    for name, it in rng.sample(base, min(len(base), 500 if tier == 'quick' else 2500)):
        c = _copy.deepcopy(it)
        items.append(('respelled:' + name[5:], _items.respell(rng, _items.regroup(rng, c), p=0.3)))
    rng = random.Random(seed)
    n = 2500 if tier == 'quick' else 12000
    pm = spec.get('malformed', 0.2)
    for _ in range(n):
        if rng.random() < pm:
            items.append(('malformed', generate.gen_malformed(rng)))
        else:
            items.append(('valid', generate.gen_item(rng)))
    return items


# --------------------------------------------------------------------------- comparison

def split_impls(line):
    parts = line.split(' @@ ')[1:]
    out = []
    for p in parts:
        name, _, toks = p.partition(' ')
        out.append((name, toks.strip()))
    return out


def outcome(line):
    return line.split(' ', 1)[0] if line else 'none'


MESSAGE_DIFFS = []


def err_agree(h, m):
    hm, mm = h[4:], m[4:]
    if mm.endswith('*'):
        return hm.startswith(mm[:-1])
    return hm == mm


def header(toks):
    return toks.split(' { ', 1)[0]


def relevant_impls(prop, item, impls):
    spec = PROPS[prop]
    tr = spec['traits']
    if prop == 'C06':
        if has_skip(item):
            return impls
        return [(n, t) for n, t in impls if n in ('Clone', 'Copy', 'Default')]
    if tr is None:
        return impls
    return [(n, t) for n, t in impls if n in tr]


ALPHA = re.compile(r'^__\w*$')


def alpha(toks, keep=()):
    """Rename every `__`-prefixed identifier token that the item does not itself contain to `__v<n>` in order of first
    occurrence."""
    names = {}
    out = []
    for t in toks.split(' '):
        if ALPHA.match(t) and t not in keep:
            t = names.setdefault(t, '__v%d' % len(names))
        out.append(t)
    return ' '.join(out)


def compare(prop, item, h, m):
    """Returns None or a dict describing the disagreement relevant to `prop`."""
    spec = PROPS[prop]
    ho, mo = outcome(h), outcome(m)
    if ho == 'ok' and mo == 'ok':
        hi, mi = split_impls(h), split_impls(m)
        if spec.get('count') and [n for n, _ in hi] != [n for n, _ in mi]:
            return dict(kind='impl-list', hook=[n for n, _ in hi], model=[n for n, _ in mi])
        hr, mr = relevant_impls(prop, item, hi), relevant_impls(prop, item, mi)
        if len(hr) != len(mr):
            return dict(kind='impl-list', hook=[n for n, _ in hr], model=[n for n, _ in mr])
        for (hn, ht), (mn, mt) in zip(hr, mr):
            if spec.get('part') == 'header':
                ht, mt = header(ht), header(mt)
            if prop != 'C14' and ht != mt:
                # the names of the macro's temporaries (`__field_a`, `__other`, `__AssertEq`, ..) are only the subject of
                # C14: elsewhere the comparison is up to a consistent renaming of `__`-prefixed identifiers, so that a
                # harmless renaming of a temporary in the source does not break the correspondence
                keep = set(re.findall(r'__\w*', item.rust()))
                ht, mt = alpha(ht, keep), alpha(mt, keep)
            if hn != mn or ht != mt:
                hs, ms = ht.split(' '), mt.split(' ')
                i = next((i for i, (a, b) in enumerate(zip(hs, ms)) if a != b), min(len(hs), len(ms)))
                return dict(kind='tokens', trait=hn, at=i, hook=' '.join(hs[max(0, i - 10):i + 14]),
                            model=' '.join(ms[max(0, i - 10):i + 14]))
        return None
    if ho == 'panic' or mo == 'panic':
        if ho == mo and m[6:] in h:
            return None
        if prop == 'C16' or ho != mo:
            return dict(kind='panic', hook=h[:200], model=m[:200])
        return None
    if ho == 'err' and mo == 'err':
        if spec.get('outcome') == 'message' and not err_agree(h, m):
            # both reject, with different wording / a different first error: the properties are about rejection, not
            # about the text -> recorded, not a disagreement
            MESSAGE_DIFFS.append(dict(hook=h[:160], model=m[:160], source=item.rust()[:200]))
        return None
    # outcome classes differ (ok vs err, synitem, lex ...)
    if spec.get('outcome') == 'message':
        return dict(kind='outcome', hook=h[:200], model=m[:200])
    impls = split_impls(h) if ho == 'ok' else split_impls(m) if mo == 'ok' else []
    if relevant_impls(prop, item, impls) or not impls:
        return dict(kind='outcome', hook=h[:200], model=m[:200])
    return None


def signature(item, h):
    shapes = tuple((v.shape, len(v.fields), bool(v.bodies), bool(v.discr)) for v in item.variants)
    o = outcome(h)
    if o == 'ok':
        tail = tuple(n for n, _ in split_impls(h))
    else:
        tail = h[:40]
    return hashlib.sha1(repr((item.kind, shapes, len(item.params), len(item.attrs), o, tail)).encode()).hexdigest()


# --------------------------------------------------------------------------- stage 1 (attribute macro)

def stage1_items(items, seed):
    import copy
    from items import Attr, Body, MList, MNameValue, MPathM, P, metas_body
    rng = random.Random(seed + 17)
    out = []

    def crate_attr():
        r = rng.random()
        if r < 0.5:
            return Attr('dw', metas_body([MNameValue('crate', rng.choice(['path', 'str']),
                                                    P(rng.choice(['dw', '::dw::x', 'derive_where', '::derive_where', 'a::b'])))]))
        if r < 0.6:
            return Attr('dw', metas_body([MNameValue('crate', 'strbad')]))
        if r < 0.7:
            return Attr('dw', metas_body([MNameValue('crate', 'other')]))
        if r < 0.8:
            return Attr('dw', metas_body([MPathM('crate')]))
        if r < 0.9:
            return Attr('dw', metas_body([MList('crate', [MPathM('x')])]))
        return Attr('bare', path=P(rng.choice(['::derive_where::derive_where_visited', 'derive_where::derive_where_visited',
                                               'dw::derive_where_visited', 'foo'])))
    for stream, it in items[::3]:
        it = copy.deepcopy(it)
        for _ in range(rng.choice([0, 1, 1, 2])):
            it.attrs.insert(rng.randrange(len(it.attrs) + 1), crate_attr())
        if rng.random() < 0.2:
            for v in it.variants:
                if rng.random() < 0.3:
                    v.bodies.append(Body(notlist=rng.choice(['', ' = "x"'])))
                for f in v.fields:
                    if rng.random() < 0.3:
                        f.bodies.append(Body(notlist=rng.choice(['', ' = "x"'])))
        out.append((stream, it))
    return out


def run_stage1(prop, cfg, items, seed, out):
    its = stage1_items(items, seed)
    hook, log = runner.run_hook(cfg, ['1 ' + it.rust1() for _, it in its], tag='-%s-s1' % prop)
    if hook is None:
        out['harness_errors'].append('stage-1 hook run failed: ' + log[-500:])
        return []
    _, bits = runner.CONFIGS[cfg]
    data = ''.join('stage1 %s %s ## %s\n' % (bits, it.sexp(), it.segs_sexp()) for _, it in its)
    p = subprocess.run([runner.DRIVER], input=data, stdout=subprocess.PIPE, text=True)
    model = p.stdout.split('\n')
    dis = []
    oc = collections.Counter()
    for (stream, it), h, m in zip(its, hook, model):
        oc[h.split(' ')[0]] += 1
        ok = h == m
        if not ok and h.startswith('err') and m.startswith('err') and ' @@ ' in h and ' @@ ' in m:
            # the re-emitted item must be identical; the wording of the error is not part of the property
            ok = h.split(' @@ ')[1] == m.split(' @@ ')[1]
            if ok and not (('*' in m) and h.startswith(m.split('*')[0])):
                MESSAGE_DIFFS.append(dict(hook=h.split(' @@ ')[0][:160], model=m.split(' @@ ')[0][:160], source='stage 1'))
        if not ok:
            hs, ms = h.split(' '), m.split(' ')
            i = next((i for i, (a, b) in enumerate(zip(hs, ms)) if a != b), min(len(hs), len(ms)))
            dis.append(dict(kind='stage1', config=cfg, stream=stream, source=it.rust1(), sexp=it.sexp(),
                            hook=' '.join(hs[max(0, i - 10):i + 14]), model=' '.join(ms[max(0, i - 10):i + 14])))
    out['stage1'] = dict(items=len(its), outcomes=dict(oc))
    return dis


# --------------------------------------------------------------------------- driver of a check

def run_a(prop, tier, seed, items):
    del MESSAGE_DIFFS[:]
    spec = PROPS[prop]
    cfgs = spec.get('configs_' + tier) or spec.get('configs_quick') or ['default', 'safe']
    if tier == 'thorough' and 'configs_thorough' not in spec:
        cfgs = ALL_CONFIGS if spec['traits'] != ['Zeroize'] else cfgs
    sources = ['2 ' + it.rust() for _, it in items]
    sexps = [it.sexp() for _, it in items]

    def one(cfg):
        t0 = time.time()
        hook, log = runner.run_hook(cfg, sources, tag='-%s' % prop)
        if hook is None:
            return cfg, None, None, log, 0
        model = runner.run_model('expand', cfg, sexps)
        return cfg, hook, model, log, time.time() - t0
    with concurrent.futures.ThreadPoolExecutor(max_workers=len(cfgs)) as ex:
        results = list(ex.map(one, cfgs))
    out = dict(configs=cfgs, per_config={}, disagreements=[], harness_errors=[])
    sigs, relevant_sigs = set(), set()
    outcomes = collections.Counter()
    streams = collections.Counter()
    accepted = collections.defaultdict(lambda: [0, 0])       # stream (enumerator) -> [accepted by the macro, items]
    by_cfg = {}
    for cfg, hook, model, log, dt in results:
        if hook is None:
            out['harness_errors'].append('hook build/run failed in %s: %s' % (cfg, log[-800:]))
            continue
        if len(hook) != len(items) or len(model) != len(items):
            out['harness_errors'].append('line count mismatch in %s: %d hook, %d model, %d items' % (cfg, len(hook), len(model), len(items)))
            continue
        by_cfg[cfg] = hook
        nrel = 0
        for (stream, it), h, m in zip(items, hook, model):
            if cfg == cfgs[0]:
                streams[stream.split(':')[0]] += 1
            o = outcome(h)
            outcomes[cfg + ':' + o] += 1
            key = ':'.join(stream.split(':')[:2]) if stream.startswith('enum:') else stream.split(':')[0]
            accepted[(cfg, key)][1] += 1
            accepted[(cfg, key)][0] += o == 'ok'
            if m.startswith('bad-'):
                out['harness_errors'].append('driver rejected an item: %s %s' % (m, it.sexp()[:200]))
                continue
            impls = split_impls(h) if o == 'ok' else []
            rel = bool(relevant_impls(prop, it, impls)) or spec.get('outcome') == 'message'
            if rel:
                nrel += 1
                relevant_sigs.add(signature(it, h))
            d = compare(prop, it, h, m)
            if d is not None:
                d.update(config=cfg, stream=stream, source=it.rust(), sexp=it.sexp(), item=it)
                out['disagreements'].append(d)
        out['per_config'][cfg] = dict(items=len(items), relevant=nrel, seconds=round(dt, 1))
    if spec.get('cross_config') and len(by_cfg) > 1:
        # std-trait impls other than PartialEq/PartialOrd/Ord must be token-identical across configurations
        base_cfg = cfgs[0]
        for cfg, hook in by_cfg.items():
            if cfg == base_cfg:
                continue
            for (stream, it), h0, h1 in zip(items, by_cfg[base_cfg], hook):
                if outcome(h0) == 'ok' and outcome(h1) == 'ok':
                    a = [(n, t) for n, t in split_impls(h0) if n in ('Clone', 'Copy', 'Debug', 'Default', 'Eq', 'Hash')]
                    b = [(n, t) for n, t in split_impls(h1) if n in ('Clone', 'Copy', 'Debug', 'Default', 'Eq', 'Hash')]
                    if a != b:
                        out['disagreements'].append(dict(kind='cross-config', config=base_cfg + ' vs ' + cfg, stream=stream,
                                                          source=it.rust(), sexp=it.sexp(), hook=str(a)[:300], model=str(b)[:300]))
    if spec.get('stage1'):
        out['disagreements'] += run_stage1(prop, cfgs[0], items, seed, out)
    if spec.get('unsafe_scan'):
        hook = by_cfg.get('safe')
        if hook:
            for (stream, it), h in zip(items, hook):
                if outcome(h) == 'ok' and ' unsafe ' in h:
                    out['disagreements'].append(dict(kind='unsafe-in-safe', config='safe', stream=stream, source=it.rust(),
                                                      sexp=it.sexp(), hook=h[:300], model=''))
    out['outcomes'] = dict(outcomes)
    out['message_only_differences'] = dict(count=len(MESSAGE_DIFFS), samples=MESSAGE_DIFFS[:3])
    out['streams'] = dict(streams)
    # generator quality: how many items of each stream the macro accepts (in the configuration that accepts most) -- an
    # enumerator whose items are all rejected exercises only the error path (round 7: `fieldopts` was such a one)
    best = {}
    for (cfg, k), (a, n) in accepted.items():
        if k not in best or a > best[k][0]:
            best[k] = (a, n, cfg)
    out['accepted_by_stream'] = {k: '%d/%d' % (a, n) for k, (a, n, _) in sorted(best.items())}
    out['distinct_relevant'] = len(relevant_sigs)
    return out
