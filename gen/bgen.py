"""Random generator of items that are *compilable by construction* for
correspondence B (field types from the probe set, every type parameter used,
supertraits derived alongside) but otherwise as varied as the valid stream of
generate.py: trait subsets and attribute splits, bound-list forms (none, empty,
parameters, custom, non-path plain types), skip / skip_inner / incomparable /
default in every order and list split, reprs, discriminant patterns (negative,
sparse, descending, expressions), odd names, zeroize options.

Used by the failing-input search: when correspondence A breaks, thousands of
these items are expanded by hook and model (cheap, in-process); those on which
the two differ are exactly the compile-ready inputs on which the code no longer
does what the model does, and B runs them through rustc against the
specification."""
import random

import bharness
from generate import (FIELD_NAMES, INT_REPRS, ODD_FIELD_NAMES, ODD_VARIANT_NAMES, SKIPPABLE, STD_TRAITS, VARIANT_NAMES,
                      ZTRAITS, chance, gen_discriminants, pick)
from items import respell, regroup, Attr, Field, Gen, I, Ident, Item, MList, MNameValue, MPathM, P, Param, Variant, metas_body, traits_body

SUPER = {'Ord': ['Eq', 'PartialOrd', 'PartialEq'], 'PartialOrd': ['PartialEq'], 'Eq': ['PartialEq'], 'Copy': ['Clone']}


def close(traits):
    out = list(traits)
    for t in traits:
        for s in SUPER.get(t, []):
            if s not in out:
                out.append(s)
    return out


def ftype(rng, tps, zero):
    opts = ['u8', 'u8']
    for t in tps:
        opts += [t, t, t, '::core::marker::PhantomData<%s>' % t]
    if len(tps) == 2:
        opts += ['::core::marker::PhantomData<(T, U)>']
    if zero:
        opts += ['Inh']
    return pick(rng, opts)


def bounds(rng, tps):
    """gens or None; only forms that hold for the probe instantiation under `T: All`."""
    r = rng.random()
    if r < 0.3 or not tps:
        if not tps and r < 0.15:
            return [Gen('custom', 'u8: Copy')]
        return None
    if r < 0.35:
        return []
    if r < 0.6:
        ps = list(tps)
        rng.shuffle(ps)
        return [Gen('param', t, I(t)) for t in ps]
    out = []
    for _ in range(rng.randint(1, 3)):
        t = pick(rng, tps)
        q = rng.random()
        if q < 0.4:
            out.append(Gen('param', t, I(t)))
        elif q < 0.7:
            out.append(Gen('custom', pick(rng, ['%s: Super' % t, '%s: Clone' % t, "%s: 'static" % t, '%s:' % t])))
        else:
            out.append(Gen('nobound', pick(rng, ['(%s, u8)' % t, '[%s; 2]' % t, '(%s,)' % t])))
    return out


def gen(rng, zero=False, focus=None, negative=False):
    """One item (not yet b_transformed). `focus`: trait names that must be derived."""
    kind = pick(rng, ['enum'] * 7 + ['struct'] * 3)
    ident = I(pick(rng, ['A', 'A', 'A', 'A', 'Foo', 'r#type']))
    tps = pick(rng, [[], ['T'], ['T'], ['T'], ['T'], ['T', 'U'], ['T', 'U']])
    pool = list(STD_TRAITS) + (ZTRAITS * 2 if zero else [])
    traits = rng.sample(pool, min(len(pool), pick(rng, [1, 1, 2, 2, 3, 3, 4, 5])))
    for f in focus or []:
        if f not in traits and chance(rng, 0.9):
            traits.append(f)
    inc = chance(rng, 0.3)
    if inc:
        traits = [t for t in traits if t not in ('Eq', 'Ord')]
        if not any(t in traits for t in ('PartialEq', 'PartialOrd')):
            traits.append(pick(rng, ['PartialEq', 'PartialOrd']))
    traits = close(traits)
    if inc:
        traits = [t for t in traits if t not in ('Eq', 'Ord')]
    rng.shuffle(traits)
    derived = set(traits)
    # attribute split: supertraits must not get stricter bounds than subtraits -> same bound list unless single attribute
    nattr = min(len(traits), pick(rng, [1, 1, 1, 2, 2, 3]))
    groups = [[] for _ in range(nattr)]
    for i, t in enumerate(traits):
        groups[i % nattr].append(t)
    groups = [g for g in groups if g]
    shared = bounds(rng, tps)
    # adjacent attributes with the same list are merged by the macro: sometimes make the lists differ harmlessly
    attrs = []
    for gi, g in enumerate(groups):
        metas = []
        for t in g:
            if t in ZTRAITS and chance(rng, 0.2):
                metas.append(MList(t, [MNameValue('crate', pick(rng, ['path', 'str']), P(pick(rng, ['::zeroize', 'krate::zeroize'])))]))
            else:
                metas.append(MPathM(t))
        gens = shared
        if gens is not None and len(groups) > 1 and chance(rng, 0.3):
            gens = list(gens)
            rng.shuffle(gens)
            if chance(rng, 0.3) and gens:
                gens = gens + [gens[0]]
        attrs.append(Attr('dw', traits_body(metas, gens, chance(rng, 0.1), chance(rng, 0.15))))
    params = [Param('ty', t, pick(rng, ['', '', 'Super', 'Clone', "'static"])) for t in tps]
    if params:
        params[-1].comma = chance(rng, 0.15)
    preds = []
    if tps and chance(rng, 0.25):
        preds = [pick(rng, ['%s: Super' % t, "%s: 'static" % t]) for t in rng.sample(tps, 1)]
    # repr
    repr_int, repr_c = None, False
    nvar = 1 if kind != 'enum' else pick(rng, [1, 2, 2, 3, 3, 3, 4, 5])
    if kind == 'enum':
        r = rng.random()
        if r < 0.3:
            repr_int = pick(rng, INT_REPRS)
        elif r < 0.38:
            repr_c = True
        elif r < 0.5:
            repr_int, repr_c = pick(rng, INT_REPRS), True
    names = rng.sample(VARIANT_NAMES, nvar)
    groups_ok = [g for g, ts in SKIPPABLE.items() if derived & set(ts) and (g != 'Zeroize' or zero)]
    item_inc = kind != 'enum' and inc and chance(rng, 0.6)
    default_at = rng.randrange(nvar)
    variants = []
    for k in range(nvar):
        if kind == 'struct':
            shape = pick(rng, ['named', 'tuple'])
        else:
            shape = pick(rng, ['named', 'tuple', 'tuple', 'unit', 'unit'])
        nf = 0 if shape == 'unit' else pick(rng, [0, 1, 1, 2, 2, 3])
        if kind == 'struct' and item_inc and not tps and chance(rng, 0.85):
            # a field-less struct (`struct A;`, `struct A();`, `struct A {}`) is accepted when the item is `incomparable`
            shape, nf = pick(rng, ['unit', 'tuple', 'named']), 0
        elif kind == 'struct' and nf == 0:
            nf = 1
        fnames = rng.sample(FIELD_NAMES, nf)
        fields = []
        for i in range(nf):
            name = fnames[i]
            if chance(rng, 0.08):
                cand = pick(rng, ODD_FIELD_NAMES)
                if cand not in [f.member.rust() for f in fields if isinstance(f.member, Ident)]:
                    name = cand
            bodies = []
            if groups_ok and chance(rng, 0.3):
                if chance(rng, 0.35):
                    bodies.append(metas_body([MPathM('skip')]))
                else:
                    gs = rng.sample(groups_ok, rng.randint(1, len(groups_ok)))
                    if len(gs) > 1 and chance(rng, 0.5):
                        # several separate lists, in one attribute or in several
                        ms = [MList('skip', [MPathM(g)]) for g in gs]
                        bodies += [metas_body(ms)] if chance(rng, 0.5) else [metas_body([m]) for m in ms]
                    else:
                        bodies.append(metas_body([MList('skip', [MPathM(g) for g in gs], trailing=chance(rng, 0.1))]))
            if 'Zeroize' in derived and zero and chance(rng, 0.3):
                bodies.append(metas_body([MList('Zeroize', [MPathM('fqs')])]))
            rng.shuffle(bodies)
            if len(bodies) >= 2 and chance(rng, 0.4):
                ms = [m for b in bodies for m in b.elems if not isinstance(m, str)]
                bodies = [metas_body(ms)]            # all options of the field in one attribute, in this order
            fields.append(Field(I(name) if shape == 'named' else i, ftype(rng, tps, zero and derived <= set(ZTRAITS)), bodies))
        vmetas = []
        if kind == 'enum':
            if groups_ok and nf > 0 and chance(rng, 0.2):
                if chance(rng, 0.5):
                    vmetas.append(MPathM('skip_inner'))
                else:
                    gs = rng.sample(groups_ok, rng.randint(1, len(groups_ok)))
                    if len(gs) > 1 and chance(rng, 0.4):
                        vmetas += [MList('skip_inner', [MPathM(g)]) for g in gs]
                    else:
                        vmetas.append(MList('skip_inner', [MPathM(g) for g in gs]))
            if 'Default' in derived and k == default_at:
                vmetas.append(MPathM('default'))
            if inc and chance(rng, 0.4):
                vmetas.append(MPathM('incomparable'))
            rng.shuffle(vmetas)
        vbodies = []
        if vmetas:
            vbodies = [metas_body([m]) for m in vmetas] if chance(rng, 0.5) else [metas_body(vmetas, chance(rng, 0.1))]
        name = names[k]
        if chance(rng, 0.06):
            cand = pick(rng, ['r#fn', 'r#type', 'Self_', '__field_0', 'r#Box'])
            if cand not in [v.ident.rust() for v in variants]:
                name = cand
        variants.append(Variant(I(name) if kind == 'enum' else ident, shape, fields, vbodies))
    if kind == 'enum':
        data = any(v.shape != 'unit' for v in variants)
        if data and repr_int is None:
            discrs = [None] * nvar          # explicit discriminants on data enums need a primitive representation
        else:
            discrs = gen_discriminants(rng, nvar, repr_int)
            for d in discrs:
                if d and 'CONST_' in d[0]:
                    discrs = [None] * nvar
                    break
        for v, d in zip(variants, discrs):
            v.discr = d
        vals, nxt = [], 0
        for v in variants:
            cur = v.discr[1] if v.discr else nxt
            vals.append(cur)
            nxt = cur + 1
        if len(set(vals)) != len(vals):
            return None                 # E0081
        if nvar == 1 and not repr_c and repr_int is None and chance(rng, 0.5) and \
                sum(1 for f in variants[0].fields if 'PhantomData' not in f.ty) == 1:
            attrs.insert(rng.randrange(len(attrs) + 1), Attr('repr', repr_=('idents', [I('transparent')])))
        ids = ([I('C')] if repr_c else []) + ([I(repr_int)] if repr_int else [])
        rng.shuffle(ids)
        if len(ids) == 2 and chance(rng, 0.35):
            for i in ids:        # two separate `#[repr]` attributes, in either order
                attrs.insert(rng.randrange(len(attrs) + 1), Attr('repr', repr_=('idents', [i])))
        elif ids:
            attrs.insert(rng.randrange(len(attrs) + 1), Attr('repr', repr_=('idents', ids)))
    else:
        if groups_ok and chance(rng, 0.12):
            m = MPathM('skip_inner') if chance(rng, 0.5) else \
                MList('skip_inner', [MPathM(g) for g in rng.sample(groups_ok, rng.randint(1, len(groups_ok)))])
            attrs.insert(rng.randrange(len(attrs) + 1), Attr('dw', metas_body([m])))
    if item_inc or (kind == 'enum' and inc and chance(rng, 0.1)):
        attrs.insert(rng.randrange(len(attrs) + 1), Attr('dw', metas_body([MPathM('incomparable')])))
    # a where-predicate on a user trait that is named like a derived one (`T: my::Hash`): decided by a generator state of
    # its own so that the items stay what they were (round 9: a "don't repeat the bound" change matched trait names)
    import zlib
    r2 = random.Random(zlib.crc32(repr((kind, tps, sorted(derived), len(variants))).encode()))
    same = [t for t in ('Clone', 'Debug', 'Hash', 'PartialEq', 'Default') if t in derived]
    if tps and same and r2.random() < 0.12:
        preds = preds + ['%s: my::%s' % (r2.choice(tps), r2.choice(same))]
    it0 = Item(kind, ident, params, preds, False, attrs, variants, '')
    lacking(rng, it0, derived, negative)
    # every type parameter must be used (E0392): give unused ones a PhantomData field where a field list exists
    used = ' '.join(f.ty for v in variants for f in v.fields)
    for t in tps:
        if t not in used.replace('::core::marker::PhantomData', ''):
            hosts = [v for v in variants if v.shape != 'unit']
            if not hosts:
                return None
            v = pick(rng, hosts)
            idx = len(v.fields)
            v.fields.append(Field(I('ph%d' % idx) if v.shape == 'named' else idx, '::core::marker::PhantomData<%s>' % t, []))
            used += ' ' + t
    it0.vis = pick(rng, ['', 'pub '])
    if negative and not getattr(it0, 'expect_error', None):
        return None
    if chance(rng, 0.3):
        it0 = regroup(rng, it0)
    return respell(rng, it0)


def groups_of(bodies, key):
    """'all' or the set of group names selected by `skip` / `skip_inner` options in these attribute bodies."""
    out = set()
    for b in bodies:
        for m in b.elems:
            if isinstance(m, str) or m.path.rust() != key:
                continue
            if isinstance(m, MPathM):
                return 'all'
            if isinstance(m, MList):
                out |= {x.path.rust() for x in m.inner}
    return out


def lacking(rng, item, derived, negative):
    """Give some `u8` fields a leaf-like type that lacks exactly traits the field is skipped for (C06: the type of a
    skipped field need not implement them). With `negative`, give one NON-skipped field the type `NoEq` while `Eq` is
    derived: rustc must then reject the impl (C17)."""
    parent_item = groups_of([a.body for a in item.attrs if a.kind == 'dw' and a.body.notlist is None], 'skip_inner')
    cands = []
    for v in item.variants:
        pv = parent_item if item.kind != 'enum' else groups_of(v.bodies, 'skip_inner')
        for f in v.fields:
            if f.ty != 'u8':
                continue
            fg = groups_of(f.bodies, 'skip')
            cov = 'all' if 'all' in (pv, fg) else (pv | fg)
            cands.append((f, cov))
    if negative:
        if 'Eq' not in derived:
            return
        open_ = [f for f, cov in cands if cov != 'all' and 'EqHashOrd' not in cov]
        if open_:
            f = pick(rng, open_)
            f.ty = 'NoEq'
            if chance(rng, 0.5):
                # the same head name twice with different arguments: an `Eq` one first, then the one that is not `Eq`
                for v in item.variants:
                    if f in v.fields:
                        k = v.fields.index(f)
                        earlier = [g for g in v.fields[:k] if g.ty == 'u8' and g in open_]
                        if earlier:
                            pick(rng, earlier).ty = 'Wr<u8>'
                            f.ty = 'Wr<NoEq>'
            item.expect_error = ['E0277']
        return
    for f, cov in cands:
        if not chance(rng, 0.5):
            continue
        has = (lambda g: cov == 'all' or g in cov)
        opts = []
        if has('EqHashOrd'):
            opts += ['NoCmp', 'NoCmp', 'NoHash', 'NoEq']
        if has('Hash'):
            opts += ['NoHash']
        if has('Debug'):
            opts += ['NoDbg']
        if has('Zeroize'):
            opts += ['NoZ']
        if not derived & {'Eq', 'Ord'}:
            opts += ['NoEq']
        # `Inh` (an inherent `zeroize` that is not the trait's; implements `Zeroize` only): usable when the field is
        # zeroized and skipped for every other derived trait -- `Zeroize(fqs)` must then reach the trait function
        # whatever else is written on the field, in whatever attribute order (round 7)
        groups = {'Debug': ['Debug'], 'PartialEq': ['EqHashOrd'], 'Eq': ['EqHashOrd'], 'PartialOrd': ['EqHashOrd'],
                  'Ord': ['EqHashOrd'], 'Hash': ['EqHashOrd', 'Hash']}
        others = derived - {'Zeroize', 'ZeroizeOnDrop'}
        if 'Zeroize' in derived and cov != 'all' and 'Zeroize' not in cov and others and \
                all(t in groups and any(g in cov for g in groups[t]) for t in others):
            opts = ['Inh'] * 3 + opts
        if opts:
            f.ty = pick(rng, opts)


def negatives(rng, n, tries=200):
    """n items on which rustc must reject the derived `Eq` (non-skipped field of a type that is not `Eq`)."""
    out = []
    for _ in range(n * tries):
        if len(out) >= n:
            break
        it = gen(rng, False, ['Eq', 'PartialEq'], negative=True)
        if it is not None and bharness.compatible(it):
            out.append(it)
    return out


def items(rng, n, zero=False, focus=None, tries=40):
    """n compile-ready items (already `compatible`), not transformed."""
    out = []
    for _ in range(n * tries):
        if len(out) >= n:
            break
        it = gen(rng, zero, focus)
        if it is not None and bharness.compatible(it):
            out.append(it)
    return out
