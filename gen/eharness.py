"""Correspondence C (diagnostics): the real proc-macro *entry points*
(`derive_where`, `derive_where_actual` in lib.rs — code that the in-process hook
cannot call, because the `proc_macro` API only exists inside a compiler) run
through rustc on valid, invalid and malformed attribute contents, and rustc's
diagnostics are compared with what the Lean model predicts for the whole
pipeline (stage 1 `stage1`, then stage 2 `deriveWhere`):

  model: stage-1 error e    -> exactly the macro's own error with e's message, the item is still defined
  model: stage-2 error e    -> the macro's own error with e's message, the item is still defined
  model: accepted           -> no error at all
  never                     -> `proc-macro derive panicked` / `custom attribute panicked`, unresolved-name errors
                               for uses of the item, `expected non-macro attribute` (helper attributes left behind)

Items are compile-ready once their derive_where attributes are removed
(gen/bgen.py shapes, field types from the probe set) and the dependency on
derive-where is RENAMED to `dw` in the harness crate, every item carrying
`#[derive_where(crate = dw)]` at a random position among its attributes: the
`crate` option is then the only thing that makes the paths resolve (C14)."""
import copy
import re
import json
import os
import random
import shutil
import subprocess

import bgen
import bharness
import enumerate_items
import generate
import runner
from items import Attr, Body, MList, MNameValue, MPathM, P, PA, metas_body

VERIF = runner.VERIF
EXEC = os.path.join(VERIF, 'exec')

CARGO = '''[package]
name = "dwdiag"
version = "0.0.0"
edition = "2021"

[dependencies]
dw = { package = "derive-where", path = "%s", features = [%s] }
%s

[features]
z = []

[workspace]
'''


EXTRA_TYPES = ('[T; N]', "&'a T", "&'a [T; N]")
EXTRA_TRAITS = {'Clone', 'Debug', 'PartialEq', 'Hash'}


def compile_ready(it):
    """Valid Rust once the derive_where attributes are removed, with Leaf as every type argument."""
    tps = [p.name for p in it.params if p.kind == 'ty']
    if not it.variants:
        return False
    if it.kind == 'union' and any(bharness.field_kind(f.ty, tps) not in ('u8', 'ph') for v in it.variants for f in v.fields):
        return False          # union fields must be Copy whatever the parameters are
    if it.ident.rust() in ('isize', 'Option', 'String', 'Vec', 'Box') or it.ident.raw:
        pass
    for p in it.params:
        if p.kind == 'lt' and not p.bounds.strip():
            continue              # a lifetime parameter (used by a field of one of the EXTRA_TYPES)
        if p.kind == 'const' and p.bounds.strip() == 'usize' and p.default is None:
            continue              # a const parameter
        if p.kind != 'ty' or p.bounds.strip() not in ('', 'Super', 'Clone', "'static") or p.default is not None:
            return False
        if not p.name.isalpha():
            return False
    for pr in it.preds:
        if pr.strip() not in ['%s: Super' % t for t in tps] + ["%s: 'static" % t for t in tps] and \
                not re.fullmatch(r'(%s): my::\w+' % '|'.join(tps or ['-']), pr.strip()):
            return False
    for a in it.attrs:
        if a.kind == 'repr' and a.repr_[0] != 'idents':
            return False
        if a.kind == 'repr' and any(i.rust() not in generate.INT_REPRS + ['C'] for i in a.repr_[1]):
            return False
        if a.kind in ('dwq', 'bare'):
            return False
    used = ' '.join(f.ty for v in it.variants for f in v.fields)
    for t in tps:
        if t not in used.replace('PhantomData', ''):
            return False
    for v in it.variants:
        for f in v.fields:
            if bharness.field_kind(f.ty, tps) is None:
                # arrays over a const parameter and references with a lifetime parameter: they implement the traits of
                # EXTRA_TRAITS for every `T: All`, `'a`, `N` (not `Default`, `Copy`-independent `Clone` is fine)
                if f.ty in EXTRA_TYPES and set(bharness.derived_traits(it)) <= EXTRA_TRAITS:
                    continue
                return False
    if any(p.kind == 'lt' for p in it.params) and not any("'" in f.ty for v in it.variants for f in v.fields):
        return False
    names = [v.ident.rust() for v in it.variants]
    if len(set(names)) != len(names):
        return False
    if it.kind == 'enum':
        data = any(v.shape != 'unit' for v in it.variants)
        has_int = any(a.kind == 'repr' and any(i.rust() in generate.INT_REPRS for i in a.repr_[1]) for a in it.attrs)
        if any(v.discr for v in it.variants):
            if data and not has_int:
                return False
            if any(v.discr and 'CONST_' in v.discr[0] for v in it.variants):
                return False
            vals = bharness.rust_discrs(it)
            if len(set(vals)) != len(vals):
                return False
        ids = [i.rust() for a in it.attrs if a.kind == 'repr' for i in a.repr_[1]]
        if 'C' in ids and len(ids) > 1 and not data:
            return False
        ints = [i for i in ids if i != 'C']
        if len(ints) > 1 or ids.count('C') > 1 and ints:
            return False      # conflicting representation hints are rustc's error
    elif any(a.kind == 'repr' for a in it.attrs):
        return False
    src = it.rust()
    if any(x in src for x in ('crate = "a::b', 'crate = a', 'crate = b', 'zeroize_', 'crate = foo', 'crate = zeroize',
                              'crate = "foo', 'crate = "::derive_where::<')) or \
            re.search(r'Zeroize(OnDrop)?\s*\(\s*crate = "?[:\w]*::<u8>', src):
        # paths that do not resolve in the harness crate: rustc's E0433 is not the macro's; a zeroize crate path with
        # generic arguments is accepted and then names nothing (`use a::<u8>::Zeroize;` is rustc's to refuse)
        return False
    for v in it.variants:
        fn = [f.member.rust() for f in v.fields if not isinstance(f.member, int)]
        if len(set(fn)) != len(fn):
            return False
    return True


def crate_attr(kind='path', trailing=False):
    return Attr('dw', metas_body([MNameValue('crate', kind, P('dw'))], trailing=trailing))


RUSTC_OWN = re.compile(r'expected non-macro attribute|cannot find attribute|cannot find derive macro|cannot find macro `|'
                       r'produced unparsable tokens|cannot determine resolution for the')

STAGE1_KINDS = {'dup': 0.03, 'badval': 0.08, 'unnecessary': 0.12, 'args': 0.14, 'forms': 0.15, 'marker': 0.17, 'dwq': 0.20}


def decorate(rng, it, kind=None):
    """Insert the (required) `crate = dw` option at a random position; sometimes damage stage 1 (`kind`: force one of
    STAGE1_KINDS)."""
    it = copy.deepcopy(it)
    # sometimes `#[derive_where(crate = dw,)]`: a trailing comma after the only option
    it.attrs.insert(rng.randrange(len(it.attrs) + 1), crate_attr(rng.choice(['path', 'path', 'str']), trailing=rng.random() < 0.25))
    r = rng.random()
    if kind is not None:
        r = STAGE1_KINDS[kind]
    if r < 0.06:
        it.attrs.insert(rng.randrange(len(it.attrs) + 1), crate_attr())                      # duplicate crate option
    elif r < 0.10:
        it.attrs.insert(rng.randrange(len(it.attrs) + 1), Attr('dw', metas_body([MNameValue('crate', rng.choice(['strbad', 'other']))])))
    elif r < 0.13:
        it.attrs.insert(rng.randrange(len(it.attrs) + 1), Attr('dw', metas_body([MNameValue('crate', 'path', P('::derive_where'))])))
    elif r < 0.145:
        # generic arguments in the crate path (second crate option, or instead of the valid one)
        bad = Attr('dw', metas_body([MNameValue('crate', rng.choice(['path', 'str']), PA(rng.choice(['dw', 'dw::inner']), 1, rng.choice(['u8', ''])))]))
        if rng.random() < 0.5:
            it.attrs = [a for a in it.attrs if not (a.kind == 'dw' and a.body.notlist is None and 'crate = ' in a.body.rust_inner())]
        it.attrs.insert(rng.randrange(len(it.attrs) + 1), bad)
    elif r < 0.16:
        it.attrs.insert(rng.randrange(len(it.attrs) + 1), Attr('dw', metas_body([rng.choice([MPathM('crate'), MList('crate', [MPathM('x')])])])))
    elif r < 0.19:
        # the marker of an earlier visit; attributes in front of the first `derive_where` are expanded before it (the
        # marker is an attribute macro that removes itself), so only a later position reaches `derive_where`
        first = min(i for i, a in enumerate(it.attrs) if a.kind == 'dw')
        it.attrs.insert(rng.randrange(first + 1, len(it.attrs) + 1), Attr('bare', path=P('dw::derive_where_visited')))
    elif r < 0.22:
        # a later attribute written with a qualified path: rustc invokes the attribute macro a second time, which finds
        # the marker of the first visit behind the item's attributes (the documented "already applied" error).  The
        # second invocation is outside the Lean model (one `RawItem` = one invocation); the expectation is the
        # documented behaviour.
        dws = [i for i, a in enumerate(it.attrs) if a.kind == 'dw']
        later = [i for i in dws[1:] if it.attrs[i].body.notlist is None and 'crate =' not in it.attrs[i].body.rust_inner()]
        if later:
            i = rng.choice(later)
            it.attrs[i] = Attr('dwq', body=it.attrs[i].body, path=P('dw::derive_where'))
            it.expect_visited = True
    return normalize_first(it)


def normalize_first(it):
    """rustc hands the first `#[derive_where ..]` attribute to the attribute macro, which re-creates it as
    `#[derive_where(<tokens>)]`: a bare `#[derive_where]` becomes the empty list `#[derive_where()]`; a name-value
    form `#[derive_where = ..]` never reaches the macro (rustc rejects it) -> None."""
    for a in it.attrs:
        if a.kind == 'dw':
            if a.body.notlist is not None:
                if a.body.notlist.strip():
                    return None
                it.model_view = copy.deepcopy(it)
                for b in it.model_view.attrs:
                    if b.kind == 'dw':
                        b.body = Body([])
                        break
            break
    return it


def semantic(rng, it, zero):
    """Meaning-level damage to a compile-ready item (in place): the documented-invalid combinations of C15."""
    from items import Gen, I, traits_body
    dws = [a for a in it.attrs if a.kind == 'dw' and a.body.notlist is None and a.body.elems
           and not isinstance(a.body.elems[0], str) and isinstance(a.body.elems[0], (MPathM, MList))
           and a.body.elems[0].path.rust() not in ('skip_inner', 'incomparable', 'crate')]
    r = rng.randrange(8)
    if r == 0:                      # Default without a default variant
        for v in it.variants:
            v.bodies = [b for b in v.bodies if 'default' not in b.rust_inner()]
    elif r == 1 and it.variants:    # a second default variant
        rng.choice(it.variants).bodies.append(metas_body([MPathM('default')]))
    elif r == 2 and dws:            # a lifetime predicate in a bound list
        a = rng.choice(dws)
        g = Gen('lifetime', "'static: 'static")
        a.body.gens = (a.body.gens or []) + ([COMMA_, g] if a.body.gens else [g])
    elif r == 3:                    # item-level incomparable at a random position
        it.attrs.insert(rng.randrange(len(it.attrs) + 1), Attr('dw', metas_body([MPathM('incomparable')])))
    elif r == 4 and dws:            # one more attribute with a different bound list
        tps = [p.name for p in it.params if p.kind == 'ty']
        extra = rng.choice(['Debug', 'Hash', 'Clone', 'PartialEq', 'Eq', 'Default'])
        gens = rng.choice([None, [], [Gen('param', tps[0], I(tps[0]))] if tps else [Gen('custom', 'u8: Copy')]])
        it.attrs.insert(rng.randrange(len(it.attrs) + 1), Attr('dw', traits_body([MPathM(extra)], gens)))
    elif r == 5 and dws:            # an unknown / qualified / raw / parametrised trait
        a = rng.choice(dws)
        a.body.elems += [COMMA_, rng.choice([MPathM('Foo'), MPathM('a::Clone'), MPathM('r#Clone'), MList('Debug', [MPathM('x')]),
                                             MNameValue('Debug', 'other')])]
    elif r == 6 and it.variants:    # skip_inner on a variant, whatever its fields are
        rng.choice(it.variants).bodies.append(metas_body([MPathM('skip_inner')]))
    else:                           # shuffle the item's attributes
        rng.shuffle(it.attrs)


COMMA_ = 'comma'


def unions(rng, n, zero):
    """Unions with Copy fields and arbitrary trait lists (only Clone and Copy are supported)."""
    from items import Field, Gen, I, Item, Param, Variant, traits_body
    out = []
    pool = ['Clone', 'Copy', 'Clone', 'Copy', 'Debug', 'PartialEq', 'Default', 'Hash'] + (['Zeroize', 'ZeroizeOnDrop'] if zero else [])
    for _ in range(n):
        traits = rng.sample(pool, rng.randint(1, 3))
        metas = []
        for t in dict.fromkeys(traits):
            if t in ('Zeroize', 'ZeroizeOnDrop') and rng.random() < 0.6:
                metas.append(MList(t, [MNameValue('crate', 'path', P('krate::zeroize'))]))
            else:
                metas.append(MPathM(t))
        gens = rng.choice([None, [Gen('param', 'T', I('T'))], [Gen('custom', 'T: Clone')]])
        out.append(Item('union', I('A'), [Param('ty', 'T', comma=False)], [], False, [Attr('dw', traits_body(metas, gens))],
                        [Variant(I('A'), 'named', [Field(I('a'), '::core::marker::PhantomData<T>', []), Field(I('b'), 'u8', [])])]))
    return out


def items_for(prop, seed, n, zero):
    rng = random.Random(seed + 101)
    out = []
    for it in unions(rng, max(6, n // 12), zero):
        out.append(('union', decorate(rng, bharness.b_transform(it))))
    # documented-invalid classes with their controls
    for name, it in enumerate_items.all_items(['invalid']):
        if compile_ready(it):
            out.append(('invalid', decorate(rng, bharness.b_transform(it))))
    # names (raw identifiers in every identifier-forming site) -- the panic sites of C16
    for k, (name, it) in enumerate(enumerate_items.all_items(['names'])):
        if k % 9 == 0 and compile_ready(it):
            out.append(('names', decorate(rng, bharness.b_transform(it))))
    # every kind of stage-1 damage on items that carry helper attributes on variants and fields (the error path has to
    # strip them all): a fixed number per kind, not left to chance
    per = max(3, n // 40)
    for kind in STAGE1_KINDS:
        got, tries1 = 0, 0
        while got < per and tries1 < 400:
            tries1 += 1
            it = bgen.gen(rng, zero)
            if it is None or not compile_ready(it):
                continue
            if not any(v.bodies or any(f.bodies for f in v.fields) for v in it.variants):
                continue
            d = decorate(rng, bharness.b_transform(it), kind)
            if d is not None:
                out.append(('stage1-' + kind, d))
                got += 1
    # compile-ready random items: valid, and with token-level damage to attribute bodies
    tries = 0
    while len([1 for s, _ in out if s in ('valid', 'malformed', 'semantic')]) < n and tries < 60 * n:
        tries += 1
        it = bgen.gen(rng, zero)
        if it is None or not compile_ready(it):
            continue
        r0 = rng.random()
        if r0 < 0.25:
            for v in it.variants:
                for f in v.fields:
                    if f.ty in bharness.LEAFLIKE:
                        f.ty = 'u8'
            semantic(rng, it, zero)
            out.append(('semantic', decorate(rng, bharness.b_transform(it))))
        elif r0 < 0.75:
            for v in it.variants:            # damaged skip lists must not leave a field type without the traits it needs
                for f in v.fields:
                    if f.ty in bharness.LEAFLIKE:
                        f.ty = 'u8'
            bodies = generate.all_bodies(it)
            for _ in range(rng.choice([1, 1, 2])):
                if bodies:
                    generate.mutate_body(rng, rng.choice(bodies))
            out.append(('malformed', decorate(rng, bharness.b_transform(it))))
        else:
            out.append(('valid', decorate(rng, bharness.b_transform(it))))
    return [(s, it) for s, it in out if it is not None]


def undecorated(it):
    c = copy.copy(it)
    c.attrs = [a for a in it.attrs if not (a.kind == 'dw' and a.body.notlist is None and 'crate =' in a.body.rust_inner()
                                            and ';' not in a.body.rust_inner() and 'Zeroize' not in a.body.rust_inner())
               and a.kind != 'bare']
    return c


# Items that are no struct / enum / union: `syn::parse2::<DeriveInput>` fails inside `derive_where`; the macro must
# report its (syn's) error and still emit the item, which the rest of the module uses.  Outside the Lean model (RawItem
# is a DeriveInput); the expectation is C16's wording itself.
RAW = [
    '#[derive_where(Clone)] pub fn f() -> u8 { 1 } pub fn user() -> u8 { f() }',
    '#[derive_where(Clone)] pub trait Tr { fn m(&self) -> u8 { 2 } } pub struct S; impl Tr for S {}',
    '#[derive_where(Clone)] pub type Alias = u8; pub const X: Alias = 1;',
    '#[derive_where(Clone)] pub const C: u8 = 1; pub const D: u8 = C;',
    '#[derive_where(Clone; T)] pub static ST: u8 = 1; pub fn user() -> u8 { ST }',
    '#[derive_where(Clone)] pub mod inner { pub struct S; } pub type U = inner::S;',
]


def module(idx, it):
    targs = bharness.type_args(it)
    return ('pub mod e%d {\n    use super::prelude::*;\n    use dw::derive_where;\n    %s\n    pub type Use = %s%s;\n}\n'
            % (idx, it.rust1(), it.ident.rust(), targs))


def predict(cfg, named):
    """Per item: ('ok', None) | ('err', message) | ('panic', message), from the model's stage 1 then stage 2."""
    _, bits = runner.CONFIGS[cfg]
    mv = [getattr(it, 'model_view', it) for _, it in named]
    data = ''.join('stage1 %s %s ## %s\n' % (bits, it.sexp(), it.segs_sexp()) for it in mv)
    s1 = subprocess.run([runner.DRIVER], input=data, stdout=subprocess.PIPE, text=True).stdout.split('\n')
    s2 = runner.run_model('expand', cfg, [it.sexp() for it in mv])
    out = []
    for (_, item), a, b in zip(named, s1, s2):
        if getattr(item, 'expect_visited', False) and a.startswith('ok'):
            out.append(('err', '`#[derive_where(..)` was already applied to this item before*', 1))
        elif a.startswith('err '):
            out.append(('err', a[4:].split(' @@ ')[0], 1))
        elif b.startswith('err '):
            out.append(('err', b[4:], 2))
        elif b.startswith('panic '):
            out.append(('panic', b[6:], 2))
        elif a.startswith('ok') and b.startswith('ok'):
            out.append(('ok', None, 2))
        else:
            out.append(('bad', a[:60] + ' / ' + b[:60], 0))
    return out


def msg_match(model_msg, text):
    if model_msg.endswith('*'):
        return text.startswith(model_msg[:-1])
    return text == model_msg


def directed(prop, cfg, n=5000, cap=80):
    """Compile-ready items (valid, invalid and malformed) on which hook and model disagree about the outcome or the
    message: the inputs on which the code no longer validates like the model."""
    import engine
    zero = cfg in ('zeroize', 'zod', 'safe-zod')
    cands = items_for(prop, 424242, n, zero)
    view = [getattr(it, 'model_view', it) for _, it in cands]
    hook, log = runner.run_hook(cfg, ['2 ' + it.rust() for it in view], tag='-%s-cdirected' % prop)
    if hook is None:
        return []
    model = runner.run_model('expand', cfg, [it.sexp() for it in view])
    out = []
    for (stream, it), h, m in zip(cands, hook, model):
        ho, mo = engine.outcome(h), engine.outcome(m)
        if ho != mo or (ho == 'ok' and h != m):
            out.append(('directed-' + stream, it))
    # stage 1 as well (the attribute macro: crate option, visited marker, the re-emitted item on an error)
    try:
        hook1, _ = runner.run_hook(cfg, ['1 ' + it.rust1() for it in view], tag='-%s-cdirected1' % prop)
        _, bits = runner.CONFIGS[cfg]
        data = ''.join('stage1 %s %s ## %s\n' % (bits, it.sexp(), it.segs_sexp()) for it in view)
        model1 = subprocess.run([runner.DRIVER], input=data, stdout=subprocess.PIPE, text=True).stdout.split('\n')
        seen = {id(it) for _, it in out}
        for (stream, it), h, m in zip(cands, hook1 or [], model1):
            if id(it) in seen:
                continue
            same = h == m
            if not same and h.startswith('err') and m.startswith('err') and ' @@ ' in h and ' @@ ' in m:
                same = h.split(' @@ ')[1] == m.split(' @@ ')[1]     # the re-emitted item; wording is not compared
            if not same:
                out.append(('directed1-' + stream, it))
    except Exception:
        pass
    out.sort(key=lambda x: len(x[1].rust1()))
    return out[:cap]


def run(prop, cfg, seed, n=150, named=None):
    rep = run_(prop, cfg, seed, n, named)
    return bharness.attach(rep, rep.pop('_named'), 'C', render=lambda it: it.rust1())


def run_(prop, cfg, seed, n=150, named=None):
    zero = cfg in ('zeroize', 'zod', 'safe-zod')
    named = named if named is not None else items_for(prop, seed, n, zero)
    pred = predict(cfg, named)
    d = os.path.join(runner.WORK, 'diag-%s-%s' % (prop, cfg))
    os.makedirs(os.path.join(d, 'src'), exist_ok=True)
    feats = ', '.join('"%s"' % f for f in bharness.FEATURES[cfg])
    with open(os.path.join(d, 'Cargo.toml'), 'w') as f:
        f.write(CARGO % (runner.REPO, feats, 'zeroize = "1"' if zero else ''))
    shutil.copy(runner.REPO + '/Cargo.lock', os.path.join(d, 'Cargo.lock'))
    shutil.copy(os.path.join(EXEC, 'prelude.rs'), os.path.join(d, 'src', 'prelude.rs'))
    src = ['#![allow(warnings)]', 'mod prelude;']
    ranges = []
    line = 3
    for i, (_, it) in enumerate(named):
        m = module(i, it)
        ranges.append((line, line + m.count('\n')))
        src.append(m.rstrip('\n'))
        line += m.count('\n')
    raw_ranges = []
    for i, r in enumerate(RAW):
        m = 'pub mod raw%d {\n    use dw::derive_where;\n    %s\n}\n' % (i, r)
        raw_ranges.append((line, line + m.count('\n')))
        src.append(m.rstrip('\n'))
        line += m.count('\n')
    src.append('fn main() {}')
    with open(os.path.join(d, 'src', 'main.rs'), 'w') as f:
        f.write('\n'.join(src) + '\n')
    env = dict(os.environ)
    env.update(CARGO_TARGET_DIR=os.path.join(runner.TARGET, 'exec-' + cfg), CARGO_NET_OFFLINE='true')
    args = ['cargo'] + (['+nightly'] if cfg == 'nightly' else []) + ['build', '--offline', '--message-format=json', '-q'] + \
        (['--features', 'z'] if zero else [])
    p = subprocess.run(args, cwd=d, env=env, stdout=subprocess.PIPE, stderr=subprocess.PIPE, text=True)
    per = {i: [] for i in range(len(named))}
    loose = []
    raw_errs = {}
    for l in p.stdout.split('\n'):
        if not l.startswith('{'):
            continue
        try:
            m = json.loads(l)
        except ValueError:
            continue
        if m.get('reason') != 'compiler-message' or m['message'].get('level') != 'error':
            continue
        code = (m['message'].get('code') or {}).get('code') or ''
        text = m['message']['message']
        if text.startswith('aborting due to'):
            continue
        ln = None
        for s in m['message'].get('spans') or []:
            if s.get('is_primary') and s.get('file_name', '').endswith('main.rs'):
                ln = s['line_start']
        hit = None
        if ln is not None:
            for i, (a, b) in enumerate(ranges):
                if a <= ln < b:
                    hit = i
            for i, (a, b) in enumerate(raw_ranges):
                if a <= ln < b:
                    hit = -1 - i
        if hit is not None and hit < 0:
            raw_errs.setdefault(-1 - hit, []).append((code, text))
        elif hit is None:
            loose.append((code, text))
        else:
            per[hit].append((code, text))
    if loose:
        raise RuntimeError('diagnostics harness: errors outside any item module: %r %s' % (loose[:3], p.stderr[-600:]))
    rep = dict(config=cfg, items=len(named), predicted=dict(ok=0, err=0, panic=0, bad=0), stage1_errors=0, failures=[],
               streams={}, _named=named)
    rep['non_derive_items'] = len(RAW)
    for i, r in enumerate(RAW):
        errs = raw_errs.get(i, [])
        bad = None
        if any('panicked' in t for _, t in errs):
            bad = 'proc-macro panic'
        elif not [1 for c, t in errs if not c]:
            bad = 'no error of the macro is reported (the attribute is silently ignored)'
        elif [1 for c, t in errs if c]:
            bad = 'the item is no longer defined or other errors appear'
        if bad:
            rep['failures'].append(dict(name='non-derive-item', source=r, config=cfg, operation='compile (crate dependency renamed to `dw`)',
                                        operands=[], expected=['one error of the macro (syn: not a struct, enum or union) and the item still defined'],
                                        observed=[bad] + errs[:3], spec='err'))
    for i, ((stream, it), (kind, msg, stage)) in enumerate(zip(named, pred)):
        rep['predicted'][kind] += 1
        rep['streams'][stream] = rep['streams'].get(stream, 0) + 1
        if kind == 'err' and stage == 1:
            rep['stage1_errors'] += 1
        errs = per[i]
        bad = None
        if kind == 'bad':
            bad = ('the driver answers', msg)
        elif any('panicked' in t for _, t in errs):
            bad = ('no proc-macro panic', [t for _, t in errs if 'panicked' in t][0])
        elif kind == 'panic':
            bad = ('the model predicts a panic of the generator (%s); rustc reports' % msg, errs[:2])
        elif kind == 'ok' and errs:
            if not (bharness.compatible(undecorated(it)) and bharness.compatible_cfg(it, cfg)):
                rep['ill_posed'] = rep.get('ill_posed', 0) + 1     # e.g. PartialOrd without PartialEq: the user's error
            else:
                bad = ('accepted: no error', errs[:3])
        elif kind == 'err':
            # errors without a code are the macro's `compile_error!`s -- except the code-less errors of rustc's own
            # resolver / expander, which mean that the re-emitted item is damaged (helper attributes left behind, ..)
            own = [t for c, t in errs if not c and not RUSTC_OWN.search(t)]
            other = [(c or 'rustc', t) for c, t in errs if c or RUSTC_OWN.search(t)]
            if own and not any(msg_match(msg, t) for t in own):
                rep['message_differences'] = rep.get('message_differences', 0) + 1
            if not errs:
                bad = ('rejected with: ' + msg, 'compiles without error')
            elif not own:
                bad = ('rejected with: ' + msg, errs[:3])
            elif other and getattr(it, 'expect_visited', False) and \
                    not (bharness.compatible(undecorated(it)) and bharness.compatible_cfg(it, cfg)):
                # the first visit's impls are generated as well: an ill-posed item (e.g. PartialOrd without PartialEq)
                # has its own rustc errors, which are the user's
                rep['ill_posed'] = rep.get('ill_posed', 0) + 1
            elif other:
                bad = ('only the macro\'s own error (%s); the item stays defined and helper attributes are removed' % msg, other[:3])
        if bad:
            rep['failures'].append(dict(name=stream, source=it.rust1(), config=cfg, operation='compile (crate dependency renamed to `dw`)',
                                        operands=[], expected=[bad[0]], observed=bad[1] if isinstance(bad[1], list) else [bad[1]],
                                        spec=kind))
    return rep
