"""Item descriptions shared by the generators, the hook (Rust source) and the
Lean driver (s-expressions).

An item is a plain Python structure; `rust(item)` prints the source line the
hook parses and `sexp(item)` the line the Lean driver decodes.  The two
printers are the only place where the correspondence between the two views is
established, so they are kept dumb and parallel.
"""
import re

TOKEN_RE = re.compile(r'r#[A-Za-z_]\w*|[A-Za-z_]\w*|\d\w*|"(?:[^"\\]|\\.)*"|\S')


def tokenize(src):
    """Flat leaf tokens the way proc_macro2 prints them (every punctuation
    character separately, lifetimes as `'` + identifier)."""
    return TOKEN_RE.findall(src)


def q(s):
    return '"' + s.replace('\\', '\\\\').replace('"', '\\"') + '"'


def toks(src):
    return '(t ' + ' '.join(q(t) for t in tokenize(src)) + ')' if src.strip() else '(t)'


class Ident:
    def __init__(self, name, raw=False):
        self.name, self.raw = name, raw

    def rust(self):
        return ('r#' if self.raw else '') + self.name

    def sexp(self):
        return '(id %s %d)' % (q(self.name), self.raw)

    def __repr__(self):
        return self.rust()


def I(s):
    return Ident(s[2:], True) if s.startswith('r#') else Ident(s)


class Path:
    """args = n: the n-th segment (1-based) carries generic arguments `::<u8>` or, with argty = '', the empty list
    `::<>` (only writable as the value of a `crate = ..` option)."""

    def __init__(self, segs, leading=False, args=None, argty='u8'):
        self.segs = [I(s) if isinstance(s, str) else s for s in segs]
        self.leading = leading
        self.args = args
        self.argty = argty

    def rust(self):
        a = '::<%s>' % getattr(self, 'argty', 'u8')
        parts = [s.rust() + (a if self.args == i + 1 else '') for i, s in enumerate(self.segs)]
        return ('::' if self.leading else '') + '::'.join(parts)

    def sexp(self):
        if self.args is not None:
            ty = getattr(self, 'argty', 'u8')
            return '(pa %d %d (t : : < %s>) %s)' % (self.leading, self.args, ty + ' ' if ty else '',
                                                    ' '.join(s.sexp() for s in self.segs))
        return '(p %d %s)' % (self.leading, ' '.join(s.sexp() for s in self.segs))


def P(s):
    lead = s.startswith('::')
    return Path([x for x in s.lstrip(':').split('::')], lead)


def PA(s, n=None, ty='u8'):
    """A path one of whose segments (default: the last) has generic arguments: `foo::<u8>`, or `foo::<>` with ty=''."""
    p = P(s)
    p.args = n or len(p.segs)
    p.argty = ty
    return p


# ---------------------------------------------------------------- metas

class MPathM:
    def __init__(self, path):
        self.path = P(path) if isinstance(path, str) else path

    def rust(self):
        return self.path.rust()

    def sexp(self):
        return '(path %s)' % self.path.sexp()


class MList:
    def __init__(self, path, inner, parsable=True, trailing=False):
        self.path = P(path) if isinstance(path, str) else path
        self.inner, self.parsable, self.trailing = inner, parsable, trailing

    def rust(self):
        if not self.parsable:
            return '%s(%s # #)' % (self.path.rust(), ' '.join(m.rust() for m in self.inner))
        body = ', '.join(m.rust() for m in self.inner)
        if self.trailing and self.inner:
            body += ','
        return '%s(%s)' % (self.path.rust(), body)

    def sexp(self):
        return '(mlist %s %d (%s))' % (self.path.sexp(), self.parsable,
                                       ' '.join(m.sexp() for m in self.inner))


class MNameValue:
    """kind: 'path' (value is a Path), 'str' (string literal holding a path),
    'strbad' (string literal that is no path), 'other' (another expression)."""

    def __init__(self, path, kind, value=None):
        self.path = P(path) if isinstance(path, str) else path
        self.kind, self.value = kind, value

    def rust(self):
        v = {'path': lambda: self.value.rust(), 'str': lambda: q(self.value.rust()),
             'strbad': lambda: '"1 2"', 'other': lambda: '5'}[self.kind]()
        return '%s = %s' % (self.path.rust(), v)

    def sexp(self):
        v = {'path': lambda: '(path %s)' % self.value.sexp(),
             'str': lambda: '(str %s)' % self.value.sexp(),
             'strbad': lambda: 'strbad', 'other': lambda: 'other'}[self.kind]()
        return '(nv %s %s)' % (self.path.sexp(), v)


class Gen:
    """One entry after the `;`. kind: custom | lifetime | nobound | param | bad."""

    def __init__(self, kind, src, ident=None):
        self.kind, self.src, self.ident = kind, src, ident

    def rust(self):
        return self.src

    def sexp(self):
        if self.kind == 'nobound' and re.fullmatch(r'(r#)?[A-Za-z_]\w*', self.src.strip()):
            return '(param %s %s)' % (toks(self.src), I(self.src.strip()).sexp())
        if self.kind == 'param':
            return '(param %s %s)' % (toks(self.src), self.ident.sexp())
        return '(%s %s)' % (self.kind, toks(self.src))


COMMA, JUNK = 'comma', 'junk'


class Body:
    """Contents of one #[derive_where ..] attribute: `elems` before the first
    `;` (metas, COMMA, JUNK) and `gens` after it (None when there is no `;`)."""

    def __init__(self, elems=None, gens=None, notlist=None):
        self.elems, self.gens, self.notlist = elems or [], gens, notlist

    def rust_inner(self):
        def e(x):
            return ',' if x == COMMA else '#' if x == JUNK else x.rust()
        s = ' '.join(e(x) for x in self.elems)
        if self.gens is not None:
            s += ' ; ' + ' '.join(e(x) for x in self.gens)
        return s

    def rust(self, path='derive_where'):
        if self.notlist is not None:
            return '#[%s%s]' % (path, self.notlist)
        return '#[%s(%s)]' % (path, self.rust_inner())

    def sexp(self):
        if self.notlist is not None:
            return '(notlist)'

        def e(x):
            return x if isinstance(x, str) else '(m %s)' % x.sexp()

        def g(x):
            return x if isinstance(x, str) else x.sexp()
        s = '(list (%s)' % ' '.join(e(x) for x in self.elems)
        if self.gens is not None:
            s += ' (%s)' % ' '.join(g(x) for x in self.gens)
        return s + ')'


def metas_body(metas, trailing=False):
    """`#[derive_where(m, m, m)]`."""
    elems = []
    for i, m in enumerate(metas):
        if i:
            elems.append(COMMA)
        elems.append(m)
    if trailing and metas:
        elems.append(COMMA)
    return Body(elems)


def respell(rng, item, p=0.12):
    """Re-spell the options of an item without changing what the macro parses: a trailing comma after the last entry
    of any list (`skip(Debug,)`, `Zeroize(crate = a,)`, `#[derive_where(skip, default,)]`), `crate = a::b` written as a
    string and vice versa.  The Lean model sees the same input except for the commas of the attribute body itself."""
    def meta(m):
        if isinstance(m, MList):
            if m.parsable and m.inner and rng.random() < p:
                m.trailing = True
            for x in m.inner:
                meta(x)
        elif isinstance(m, MNameValue):
            if m.kind in ('path', 'str') and rng.random() < p:
                m.kind = 'str' if m.kind == 'path' else 'path'

    def body(b):
        if b is None or b.notlist is not None:
            return
        for x in b.elems:
            if not isinstance(x, str):
                meta(x)
        if b.elems and not isinstance(b.elems[-1], str) and b.gens is None and rng.random() < p:
            b.elems.append(COMMA)
    for a in item.attrs:
        if a.kind in ('dw', 'dwq'):
            body(a.body)
    for v in item.variants:
        for b in v.bodies:
            body(b)
        for f in v.fields:
            for b in f.bodies:
                body(b)
    return item


def regroup(rng, item):
    """Re-group the options of every variant and field: all option metas of the owner are shuffled and re-partitioned
    into one or several `#[derive_where(..)]` attributes; the item's own attributes are shuffled too.  What the
    documentation promises (options are independent of order and grouping) is the model's behaviour; the real
    parser is compared with it on the result."""
    def owner(bodies):
        if not bodies or any(b.notlist is not None or b.gens is not None or
                             any(x == JUNK for x in b.elems) for b in bodies):
            return bodies
        metas = [x for b in bodies for x in b.elems if not isinstance(x, str)]
        if len(metas) < 2:
            return bodies
        rng.shuffle(metas)
        out, cur = [], []
        for m in metas:
            cur.append(m)
            if rng.random() < 0.5:
                out.append(metas_body(cur, trailing=rng.random() < 0.15))
                cur = []
        if cur:
            out.append(metas_body(cur, trailing=rng.random() < 0.15))
        return out
    for v in item.variants:
        v.bodies = owner(v.bodies)
        for f in v.fields:
            f.bodies = owner(f.bodies)
    if rng.random() < 0.5:
        rng.shuffle(item.attrs)
    return item


def traits_body(traits, gens=None, comma_before_semi=False, gen_trailing=False):
    """`#[derive_where(T1, T2; G1, G2)]`."""
    b = metas_body(traits, comma_before_semi and gens is not None)
    if gens is not None:
        gl = []
        for i, g in enumerate(gens):
            if i:
                gl.append(COMMA)
            gl.append(g)
        if gen_trailing and gens:
            gl.append(COMMA)
        b.gens = gl
    return b


class Attr:
    """kind: dw | dwq | repr | other."""

    def __init__(self, kind, body=None, path=None, repr_=None, src=None):
        self.kind, self.body, self.path, self.repr_, self.src = kind, body, path, repr_, src

    def rust(self):
        if self.kind == 'dw':
            return self.body.rust()
        if self.kind == 'dwq':
            return self.body.rust(self.path.rust())
        if self.kind == 'repr':
            k, v = self.repr_
            if k == 'idents':
                return '#[repr(%s)]' % ', '.join(i.rust() for i in v)
            return '#[repr(align(8))]' if k == 'unparsable' else '#[repr]'
        if self.kind == 'bare':
            return '#[%s]' % self.path.rust()
        return self.src

    def sexp(self):
        if self.kind == 'dw':
            return '(dw %s)' % self.body.sexp()
        if self.kind == 'dwq':
            return '(dwq %s %s)' % (self.path.sexp(), self.body.sexp())
        if self.kind == 'repr':
            k, v = self.repr_
            if k == 'idents':
                return '(repr idents %s)' % ' '.join(i.sexp() for i in v)
            return '(repr %s)' % k
        if self.kind == 'bare':
            return '(bare %s)' % self.path.sexp()
        return '(other)'


class Field:
    def __init__(self, member, ty, bodies=None, extra_attrs=''):
        self.member, self.ty, self.bodies = member, ty, bodies or []
        self.extra_attrs = extra_attrs

    def rust(self):
        a = ''.join(b.rust() + ' ' for b in self.bodies) + self.extra_attrs
        if isinstance(self.member, Ident):
            return '%s%s: %s' % (a, self.member.rust(), self.ty)
        return '%s%s' % (a, self.ty)

    def segments(self):
        segs = [('attr', True, b.rust()) for b in self.bodies]
        if self.extra_attrs.strip():
            segs.append(('attr', False, self.extra_attrs.strip()))
        if isinstance(self.member, Ident):
            segs.append(('toks', None, '%s: %s' % (self.member.rust(), self.ty)))
        else:
            segs.append(('toks', None, self.ty))
        return segs

    def sexp(self):
        m = '(named %s)' % self.member.sexp() if isinstance(self.member, Ident) \
            else '(idx %d)' % self.member
        return '(f %s %s (%s))' % (m, toks(self.ty), ' '.join(b.sexp() for b in self.bodies))


class Variant:
    def __init__(self, ident, shape, fields=None, bodies=None, discr=None, extra_attrs=''):
        self.ident, self.shape, self.fields = ident, shape, fields or []
        self.bodies, self.discr = bodies or [], discr   # discr: (src, value)
        self.extra_attrs = extra_attrs

    def fields_rust(self):
        if self.shape == 'unit':
            return ''
        inner = ', '.join(f.rust() for f in self.fields)
        return ' { %s }' % inner if self.shape == 'named' else '(%s)' % inner

    def rust(self):
        a = ''.join(b.rust() + ' ' for b in self.bodies) + self.extra_attrs
        d = ' = %s' % self.discr[0] if self.discr else ''
        return '%s%s%s%s' % (a, self.ident.rust(), self.fields_rust(), d)

    def field_segments(self):
        if self.shape == 'unit':
            return []
        o, c = ('{', '}') if self.shape == 'named' else ('(', ')')
        segs = [('toks', None, o)]
        for i, f in enumerate(self.fields):
            if i:
                segs.append(('toks', None, ','))
            segs += f.segments()
        segs.append(('toks', None, c))
        return segs

    def segments(self):
        segs = [('attr', True, b.rust()) for b in self.bodies]
        if self.extra_attrs.strip():
            segs.append(('attr', False, self.extra_attrs.strip()))
        segs.append(('toks', None, self.ident.rust()))
        segs += self.field_segments()
        if self.discr:
            segs.append(('toks', None, '= ' + self.discr[0]))
        return segs

    def sexp(self):
        d = '(d %s %d)' % (toks(self.discr[0]), self.discr[1]) if self.discr else 'none'
        return '(v %s %s (%s) (%s) %s)' % (
            self.ident.sexp(), self.shape, ' '.join(b.sexp() for b in self.bodies),
            ' '.join(f.sexp() for f in self.fields), d)


class Param:
    """kind: lt | ty | const. `name` source text; `bounds` source text after the
    colon ('' = none; the type for const); `default` source text or None."""

    def __init__(self, kind, name, bounds='', default=None, comma=True):
        self.kind, self.name, self.bounds, self.default, self.comma = kind, name, bounds, default, comma

    def rust(self):
        s = ('const ' if self.kind == 'const' else '') + self.name
        if self.bounds:
            s += ': ' + self.bounds
        if self.default is not None:
            s += ' = ' + self.default
        return s + (',' if self.comma else '')

    def sexp(self):
        n = toks(self.name) if self.kind == 'lt' else I(self.name).sexp()
        return '(%s %s %s %d)' % (self.kind, n, toks(self.bounds), self.comma)


class Item:
    def __init__(self, kind, ident, params=None, preds=None, preds_trailing=False,
                 attrs=None, variants=None, vis=''):
        self.kind, self.ident = kind, ident
        self.params, self.preds, self.preds_trailing = params or [], preds or [], preds_trailing
        self.attrs, self.variants, self.vis = attrs or [], variants or [], vis

    def generics_rust(self):
        if not self.params:
            return ''
        ps = list(self.params)
        return '<' + ' '.join(p.rust() for p in ps) + '>'

    def where_rust(self):
        if not self.preds:
            return ''
        return ' where ' + ', '.join(self.preds) + (',' if self.preds_trailing else '')

    def rust(self, with_attrs=True):
        a = ''.join(x.rust() + ' ' for x in self.attrs) if with_attrs else ''
        head = '%s%s%s %s%s' % (a, self.vis, self.kind, self.ident.rust(), self.generics_rust())
        if self.kind == 'enum':
            return '%s%s { %s }' % (head, self.where_rust(), ', '.join(v.rust() for v in self.variants))
        v = self.variants[0]
        if v.shape == 'named' or self.kind == 'union':
            return '%s%s%s' % (head, self.where_rust(), v.fields_rust())
        if v.shape == 'tuple':
            return '%s%s%s;' % (head, v.fields_rust(), self.where_rust())
        return '%s%s;' % (head, self.where_rust())

    def segments(self):
        """The item as (kind, is_derive_where, source) segments in source order;
        the first len(self.attrs) segments are the item's own attributes."""
        segs = [('attr', x.kind == 'dw', x.rust()) for x in self.attrs]
        head = '%s%s %s%s' % (self.vis, self.kind, self.ident.rust(), self.generics_rust())
        if self.kind == 'enum':
            segs.append(('toks', None, head + self.where_rust() + ' {'))
            for i, v in enumerate(self.variants):
                if i:
                    segs.append(('toks', None, ','))
                segs += v.segments()
            segs.append(('toks', None, '}'))
            return segs
        v = self.variants[0]
        if v.shape == 'named' or self.kind == 'union':
            segs.append(('toks', None, head + self.where_rust()))
            fs = v.field_segments() if v.shape != 'unit' else [('toks', None, '{'), ('toks', None, '}')]
            return segs + fs
        if v.shape == 'tuple':
            segs.append(('toks', None, head))
            segs += v.field_segments()
            segs.append(('toks', None, self.where_rust() + ';'))
            return segs
        segs.append(('toks', None, head + self.where_rust() + ';'))
        return segs

    def segs_sexp(self):
        out = []
        for kind, isdw, src in self.segments():
            if kind == 'attr':
                out.append('(a %d %s)' % (bool(isdw), toks(src)))
            else:
                out.append('(s %s)' % toks(src))
        return '(' + ' '.join(out) + ')'

    def rust1(self):
        return ' '.join(src for _, _, src in self.segments())

    def sexp(self):
        g = '(g (%s) (%s) %d)' % (' '.join(p.sexp() for p in self.params),
                                   ' '.join(toks(p) for p in self.preds), self.preds_trailing)
        return '(item %s %s %s (%s) (%s))' % (
            self.kind, self.ident.sexp(), g, ' '.join(a.sexp() for a in self.attrs),
            ' '.join(v.sexp() for v in self.variants))
