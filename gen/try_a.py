import random, sys, collections
sys.path.insert(0, '/verif/gen')
from generate import gen_item, gen_malformed
from runner import run_hook, run_model

def split_impls(line):
    if not line.startswith('ok'):
        return None
    parts = line.split(' @@ ')[1:]
    return [(p.split(' ', 1)[0], p.split(' ', 1)[1].strip() if ' ' in p else '') for p in parts]

def agree(h, m):
    if h == m:
        return True
    if m.startswith('err ') and h.startswith('err '):
        mm = m[4:]
        if mm.endswith('*'):
            return h[4:].startswith(mm[:-1])
    if m.startswith('panic') and h.startswith('panic'):
        return m[6:] in h
    return False

def main():
    seed = int(sys.argv[1]) if len(sys.argv) > 1 else 1
    n = int(sys.argv[2]) if len(sys.argv) > 2 else 2000
    cfgs = sys.argv[3].split(',') if len(sys.argv) > 3 else ['default']
    rng = random.Random(seed)
    items = [gen_item(rng) if rng.random() < 0.8 else gen_malformed(rng) for _ in range(n)]
    for cfg in cfgs:
        hook, log = run_hook(cfg, ['2 ' + it.rust() for it in items])
        if hook is None:
            print(log[-3000:]); sys.exit(2)
        model = run_model('expand', cfg, [it.sexp() for it in items])
        assert len(hook) == len(model) == len(items), (len(hook), len(model), len(items))
        bad = 0
        kinds = collections.Counter()
        for it, h, m in zip(items, hook, model):
            kinds[h.split(' ')[0] + (' ' + h[4:40] if h.startswith('err') else '')] += 1
            if not agree(h, m):
                bad += 1
                if bad <= 6:
                    print('--- DISAGREE', cfg); print(it.rust()); print(it.sexp())
                    hi, mi = split_impls(h), split_impls(m)
                    if hi and mi and len(hi) == len(mi):
                        for (a, x), (b, y) in zip(hi, mi):
                            if x != y:
                                xs, ys = x.split(' '), y.split(' ')
                                i = next((i for i, (p, q) in enumerate(zip(xs, ys)) if p != q), min(len(xs), len(ys)))
                                print(' trait', a, b, 'first diff at', i)
                                print('  hook :', ' '.join(xs[max(0, i-12):i+12]))
                                print('  model:', ' '.join(ys[max(0, i-12):i+12]))
                                break
                    else:
                        print(' hook :', h[:300]); print(' model:', m[:300])
        print(cfg, 'items', len(items), 'disagree', bad)
        for k, v in kinds.most_common(60):
            print('   %5d %s' % (v, k))
    

if __name__ == '__main__':
    main()
