"""Small-scope exhaustive enumerators for the tables the properties hinge on.
Deterministic (no randomness); every tier runs them completely."""
import itertools

from items import (Attr, Body, COMMA, Field, Gen, I, Item, MList, MNameValue, MPathM, P, PA, Param,
                   Variant, metas_body, traits_body)

PH = '::core::marker::PhantomData<T>'
GROUPS = ['Debug', 'EqHashOrd', 'Hash', 'Zeroize']


def dw(traits, gens=None, **kw):
    metas = [MPathM(t) if isinstance(t, str) else t for t in traits]
    return Attr('dw', traits_body(metas, gens, **kw))


def opt(*metas):
    return metas_body([MPathM(m) if isinstance(m, str) else m for m in metas])


def skip_meta(groups, name='skip'):
    return MPathM(name) if groups is None else MList(name, [MPathM(g) for g in groups])


def tparam(n='T'):
    return [Param('ty', n, comma=False)]


def gen_T():
    return [Gen('param', 'T', I('T'))]


def unit_enum(name, names, attrs, discrs=None, vattrs=None):
    vs = []
    for i, n in enumerate(names):
        vs.append(Variant(I(n), 'unit', [], (vattrs or {}).get(i, []), (discrs or {}).get(i)))
    return Item('enum', I(name), [], [], False, attrs, vs)


# ------------------------------------------------------------------ E1: skip tables (C05 C06 C08 C03 C04)

def e_skip():
    """field skip (none / bare / each group / two lists) x parent skip_inner
    (none / bare / each group) x derived trait sets, struct and enum variant."""
    field_opts = [('none', []), ('bare', [opt('skip')])]
    for g in GROUPS:
        field_opts.append((g, [opt(skip_meta([g]))]))
    field_opts += [
        ('Debug+EqHashOrd/two-attrs', [opt(skip_meta(['Debug'])), opt(skip_meta(['EqHashOrd']))]),
        ('Hash,Debug/one-attr', [metas_body([skip_meta(['Hash']), skip_meta(['Debug'])])]),
        ('Debug,EqHashOrd/one-list', [opt(skip_meta(['Debug', 'EqHashOrd']))]),
        ('EqHashOrd+Zeroize/two-attrs', [opt(skip_meta(['EqHashOrd'])), opt(skip_meta(['Zeroize']))]),
    ]
    parent_opts = [('none', [])]
    parent_opts.append(('bare', [opt('skip_inner')]))
    for g in GROUPS:
        parent_opts.append((g, [opt(skip_meta([g], 'skip_inner'))]))
    parent_opts.append(('Debug+Hash/two-attrs', [opt(skip_meta(['Debug'], 'skip_inner')), opt(skip_meta(['Hash'], 'skip_inner'))]))
    trait_sets = [
        ['Clone', 'Debug', 'Default', 'Eq', 'Hash', 'Ord', 'PartialEq', 'PartialOrd'],
        ['PartialEq', 'PartialOrd'],
        ['Debug', 'Hash'],
        ['Clone', 'Debug', 'Eq', 'Hash', 'Ord', 'PartialEq', 'PartialOrd', 'Zeroize', 'ZeroizeOnDrop'],
    ]
    for (fn, fb), (pn, pb), traits in itertools.product(field_opts, parent_opts, trait_sets):
        for bounds in (gen_T(), None):
            fields = [Field(I('a'), 'u8', []), Field(I('b'), 'T', list(fb)), Field(I('c'), PH, [])]
            # struct with item-level skip_inner
            attrs = [dw(traits, bounds)] + [Attr('dw', b) for b in pb]
            yield Item('struct', I('A'), tparam(), [], False, attrs, [Variant(I('A'), 'named', fields)])
            # enum: variant-level skip_inner, second variant plain, default on the first
            vb = list(pb) + ([opt('default')] if 'Default' in traits else [])
            v0 = Variant(I('X'), 'tuple', [Field(0, 'u8', []), Field(1, 'T', list(fb)), Field(2, PH, [])], vb)
            v1 = Variant(I('Y'), 'named', [Field(I('a'), 'T', [])])
            v2 = Variant(I('Z'), 'unit', [])
            yield Item('enum', I('A'), tparam(), [], False, [dw(traits, bounds)], [v0, v1, v2])


# ------------------------------------------------------------------ E2: incomparable x empty (C03 C07 C12)

def e_incomparable():
    """1-4 variants, each: full / empty(unit) / empty(skipped) / incomparable-full /
    incomparable-unit; item-level incomparable; PartialEq and PartialOrd."""
    kinds = ['full', 'unit', 'skipped', 'incfull', 'incunit', 'empty()']

    def variant(i, kind):
        name = I('V%d' % i)
        if kind == 'full':
            return Variant(name, 'tuple', [Field(0, 'T', [])])
        if kind == 'unit':
            return Variant(name, 'unit', [])
        if kind == 'empty()':
            return Variant(name, 'tuple', [])
        if kind == 'skipped':
            return Variant(name, 'named', [Field(I('a'), 'T', [opt('skip')])])
        if kind == 'incfull':
            return Variant(name, 'tuple', [Field(0, 'T', [])], [opt('incomparable')])
        return Variant(name, 'unit', [], [opt('incomparable')])
    for n in range(1, 5):
        for combo in itertools.product(kinds, repeat=n):
            if n == 4 and combo[0] not in ('full', 'incunit'):
                continue
            for traits in (['PartialEq'], ['PartialOrd', 'PartialEq'], ['PartialOrd', 'PartialEq', 'Clone']):
                yield Item('enum', I('A'), tparam(), [], False, [dw(traits)],
                           [variant(i, k) for i, k in enumerate(combo)])
    for shape in ('named', 'tuple', 'unit'):
        fields = [] if shape == 'unit' else [Field(I('a') if shape == 'named' else 0, 'T', [])]
        for traits in (['PartialEq'], ['PartialEq', 'PartialOrd'], ['PartialEq', 'Eq'], ['Debug']):
            yield Item('struct', I('A'), tparam(), [], False, [dw(traits), Attr('dw', opt('incomparable'))],
                       [Variant(I('A'), shape, fields)])
    yield Item('enum', I('A'), tparam(), [], False, [dw(['PartialEq', 'PartialOrd']), Attr('dw', opt('incomparable'))],
               [Variant(I('X'), 'tuple', [Field(0, 'T', [])]), Variant(I('Y'), 'unit', [])])
    yield Item('enum', I('A'), tparam(), [], False, [dw(['PartialEq', 'PartialOrd']), Attr('dw', opt('incomparable'))],
               [Variant(I('X'), 'tuple', [Field(0, 'T', [])], [opt('incomparable')]), Variant(I('Y'), 'unit', [])])
    # item-level `incomparable` on enums with 0..3 variants of every kind (the flag lives on the item, not on its variants:
    # round 7, a seeded change lost it for single-variant enums)
    for n in range(0, 4):
        for combo in itertools.product(['full', 'unit', 'skipped', 'empty()'], repeat=n):
            for traits in (['PartialEq'], ['PartialOrd', 'PartialEq']):
                yield Item('enum', I('A'), tparam(), [], False, [dw(traits), Attr('dw', opt('incomparable'))],
                           [variant(i, k) for i, k in enumerate(combo)])
    # field-less enums with an integer `repr`, explicit discriminants and incomparable variants, with and without
    # Clone/Copy next to PartialOrd (four code paths per configuration; round 6 seed C05-6b lost the incomparable
    # check on one of them under `safe`)
    for rp in ('u8', 'i16'):
        for inc in ((0,), (1,), (2,), (0, 2)):
            for traits in (['PartialEq', 'PartialOrd'], ['PartialEq', 'PartialOrd', 'Clone'],
                           ['PartialEq', 'PartialOrd', 'Clone', 'Copy']):
                for discrs in (None, {0: ('3', 3), 2: ('1', 1)}):
                    vs = [Variant(I('V%d' % i), 'unit', [], [opt('incomparable')] if i in inc else [],
                                  (discrs or {}).get(i)) for i in range(4)]
                    yield Item('enum', I('A'), [], [], False,
                               [Attr('repr', repr_=('idents', [I(rp)])), dw(traits)], vs)
    # option order inside one variant attribute
    for order in itertools.permutations(['skip_inner', 'incomparable', 'default']):
        yield Item('enum', I('A'), tparam(), [], False, [dw(['PartialEq', 'PartialOrd', 'Default', 'Debug'])],
                   [Variant(I('X'), 'tuple', [Field(0, 'T', [])], [opt(*order)]), Variant(I('Y'), 'tuple', [Field(0, 'T', [])])])
    for order in itertools.permutations([skip_meta(['Debug'], 'skip_inner'), MPathM('incomparable')]):
        yield Item('enum', I('A'), tparam(), [], False, [dw(['PartialEq', 'Debug'])],
                   [Variant(I('X'), 'tuple', [Field(0, 'T', [])], [opt(*order)]), Variant(I('Y'), 'unit', [])])


# ------------------------------------------------------------------ E3/E5: reprs, discriminant patterns (C04 C12 C13)

INT_REPRS = ['u8', 'u16', 'u32', 'u64', 'u128', 'usize', 'i8', 'i16', 'i32', 'i64', 'i128', 'isize']


def e_discriminants():
    """all explicit/implicit patterns over 2-5 unit variants with small values,
    x {neither, Clone, Copy}; data enums with int repr; every repr."""
    for n in range(2, 6):
        for mask in itertools.product([False, True], repeat=n):
            vals, cur = {}, 0
            # explicit values chosen so that implicit successors never collide: 10*k descending or ascending
            for style in ('asc', 'desc'):
                d = {}
                for i, ex in enumerate(mask):
                    if ex:
                        v = 10 * (i + 1) if style == 'asc' else 10 * (n - i)
                        d[i] = (str(v), v)
                if style == 'desc' and not any(mask):
                    continue
                for extra in ([], ['Clone'], ['Clone', 'Copy']):
                    names = ['V%d' % i for i in range(n)]
                    it = unit_enum('A', names, [dw(['PartialOrd', 'PartialEq', 'Default'] + extra, [Gen('custom', 'u8: Copy')])], d,
                                   {0: [opt('default')]})
                    yield it
                if n <= 4:
                    it = unit_enum('A', ['V%d' % i for i in range(n)],
                                   [dw(['PartialOrd', 'PartialEq', 'Ord', 'Eq', 'Default'], [Gen('custom', 'u8: Copy')])], d,
                                   {n - 1: [opt('default')]})
                    yield it
    for r in INT_REPRS:
        for withc in (False, True):
            ids = [I('C'), I(r)] if withc else [I(r)]
            for extra in ([], ['Clone'], ['Clone', 'Copy']):
                # unit enum with repr
                yield unit_enum('A', ['X', 'Y', 'Z'], [Attr('repr', repr_=('idents', ids)),
                                                     dw(['PartialOrd', 'PartialEq', 'Default'] + extra, [Gen('custom', 'u8: Copy')])],
                                {1: ('5', 5)}, {2: [opt('default')]})
                yield unit_enum('A', ['X', 'Y', 'Z'], [Attr('repr', repr_=('idents', ids)),
                                                     dw(['PartialOrd', 'PartialEq'] + extra)],
                                {1: ('5', 5)}, {2: [opt('incomparable')]})
            # data enum with repr and explicit discriminants
            vs = [Variant(I('X'), 'tuple', [Field(0, 'T', [])], [], ('3', 3)),
                  Variant(I('Y'), 'named', [Field(I('a'), 'T', [])]),
                  Variant(I('Z'), 'unit', [], [], ('1', 1)), Variant(I('W'), 'unit', [])]
            yield Item('enum', I('A'), tparam(), [], False,
                       [Attr('repr', repr_=('idents', ids)), dw(['PartialOrd', 'PartialEq', 'Ord', 'Eq'], gen_T())], vs)
    # the representation spread over two `#[repr]` attributes, in either order, next to other attributes
    for r in ('u8', 'i32', 'isize'):
        for first, second in (([I(r)], [I('C')]), ([I('C')], [I(r)]), ([I('C')], [I('C')])):
            if first == second and r != 'u8':
                continue
            vs = [Variant(I('X'), 'tuple', [Field(0, 'T', [])], [], ('3', 3) if first != second else None),
                  Variant(I('Y'), 'named', [Field(I('a'), 'T', [])]),
                  Variant(I('Z'), 'unit', [], [], ('1', 1) if first != second else None)]
            for traits in (['PartialOrd', 'PartialEq'], ['PartialOrd', 'PartialEq', 'Ord', 'Eq', 'Hash', 'Clone']):
                yield Item('enum', I('A'), tparam(), [], False,
                           [Attr('repr', repr_=('idents', first)), Attr('repr', repr_=('idents', second)), dw(traits, gen_T())], vs)
                yield Item('enum', I('A'), tparam(), [], False,
                           [Attr('repr', repr_=('idents', first)), dw(traits, gen_T()), Attr('repr', repr_=('idents', second))], vs)
    # discriminants that only fit the declared representation (a narrower read or cast mis-orders them)
    big = {'u64': [('1 << 40', 1 << 40), ('u64::MAX', (1 << 64) - 1), ('5', 5)],
           'i64': [('i64::MIN', -(1 << 63)), ('-1', -1), ('1 << 40', 1 << 40)],
           'u128': [('5', 5), ('1 << 64', 1 << 64), ('(1 << 64) + 3', (1 << 64) + 3)],
           'i128': [('-(1 << 64)', -(1 << 64)), ('-1', -1), ('1 << 100', 1 << 100)],
           'isize': [('-5', -5), ('isize::MIN', -(1 << 63)), ('3', 3)],
           'usize': [('usize::MAX', (1 << 64) - 1), ('2', 2), ('1 << 33', 1 << 33)],
           'u32': [('u32::MAX', (1 << 32) - 1), ('0', 0), ('1 << 31', 1 << 31)],
           'i32': [('i32::MIN', -(1 << 31)), ('-2', -2), ('i32::MAX', (1 << 31) - 1)],
           'u16': [('u16::MAX', 65535), ('256', 256), ('1', 1)], 'i16': [('i16::MIN', -32768), ('255', 255), ('-1', -1)],
           'u8': [('255', 255), ('128', 128), ('0', 0)], 'i8': [('-128', -128), ('127', 127), ('-1', -1)]}
    for r, ds in big.items():
        for withc in (False, True):
            ids = [I('C'), I(r)] if withc else [I(r)]
            for extra in ([], ['Clone'], ['Clone', 'Copy']):
                yield unit_enum('A', ['X', 'Y', 'Z'], [Attr('repr', repr_=('idents', ids)),
                                                     dw(['PartialOrd', 'PartialEq', 'Default'] + extra, [Gen('custom', 'u8: Copy')])],
                                {0: ds[0], 1: ds[1], 2: ds[2]}, {2: [opt('default')]})
            vs = [Variant(I('X'), 'tuple', [Field(0, 'T', [])], [], ds[0]),
                  Variant(I('Y'), 'named', [Field(I('a'), 'T', [])], [], ds[1]),
                  Variant(I('Z'), 'unit', [], [], ds[2])]
            yield Item('enum', I('A'), tparam(), [], False,
                       [Attr('repr', repr_=('idents', ids)), dw(['PartialOrd', 'PartialEq', 'Ord', 'Eq', 'Hash'], gen_T())], vs)
    # data enum without repr, where-clause on the item, lifetimes and consts in the generics
    PHU = '::core::marker::PhantomData<U>'
    vs = [Variant(I('X'), 'tuple', [Field(0, 'T', [])]), Variant(I('Y'), 'unit', []), Variant(I('Z'), 'named', [Field(I('a'), PHU, [])])]
    for params, preds in (([Param('ty', 'T'), Param('ty', 'U', comma=False)], ['T: Super']),
                          ([Param('ty', 'T'), Param('ty', 'U', comma=False)], ['U: Super', "T: 'static"]),
                          ([Param('lt', "'a"), Param('ty', 'T', 'Super'), Param('ty', 'U'), Param('const', 'N', 'usize', comma=False)], ["T: 'a", 'Vec<T>: Clone']),
                          ([Param('ty', 'T'), Param('ty', 'U', '', 'Leaf', comma=False)], [])):
        for traits in (['PartialOrd', 'PartialEq'], ['Ord', 'PartialOrd', 'PartialEq', 'Eq'], ['PartialOrd', 'PartialEq', 'Clone']):
            for trailing in (False, True):
                yield Item('enum', I('A'), params, preds, bool(preds) and trailing, [dw(traits, gen_T())], vs)
            ids = [I('u8')]
            yield Item('enum', I('A'), params, preds, False, [Attr('repr', repr_=('idents', ids)), dw(traits, gen_T())], vs)


# ------------------------------------------------------------------ E4: default (C11)

def e_default():
    shapes = [('unit', []), ('tuple', []), ('named', []),
              ('tuple', [Field(0, 'T', []), Field(1, 'u8', [opt('skip')])]),
              ('named', [Field(I('a'), 'T', [opt(skip_meta(['Debug']))]), Field(I('r#type'), 'u8', [])])]
    for n in range(1, 5):
        for pos in range(n):
            for shape, fields in shapes:
                vs = []
                for i in range(n):
                    if i == pos:
                        vs.append(Variant(I('D'), shape, fields, [opt('default')]))
                    else:
                        vs.append(Variant(I('V%d' % i), 'tuple', [Field(0, 'T', [])]))
                for traits in (['Default'], ['Default', 'Debug', 'Clone']):
                    yield Item('enum', I('A'), tparam(), [], False, [dw(traits, gen_T())], vs)
    for shape, fields in shapes[3:]:
        yield Item('struct', I('A'), tparam(), [], False, [dw(['Default', 'Debug'])], [Variant(I('A'), shape, fields)])
    # field-less structs: accepted only with an item-level `incomparable`; `default()` is `A` / `A()` / `A {}`
    for shape, fields in shapes[:3]:
        for traits in (['Default', 'PartialEq'], ['PartialOrd', 'Default', 'PartialEq', 'Clone']):
            for inc_first in (False, True):
                attrs = [dw(traits), Attr('dw', opt('incomparable'))]
                yield Item('struct', I('A'), [], [], False, attrs[::-1] if inc_first else attrs, [Variant(I('A'), shape, fields)])
    # zero or two defaults
    vs = [Variant(I('X'), 'unit', []), Variant(I('Y'), 'unit', [])]
    yield Item('enum', I('A'), tparam(), [], False, [dw(['Default'])], vs)
    vs = [Variant(I('X'), 'unit', [], [opt('default')]), Variant(I('Y'), 'unit', [], [opt('default')])]
    yield Item('enum', I('A'), tparam(), [], False, [dw(['Default'])], vs)


# ------------------------------------------------------------------ E6: bound lists and attribute splits (C01 C02 C09)

def e_bounds():
    entries = {
        'T': Gen('param', 'T', I('T')), 'U': Gen('param', 'U', I('U')),
        'T:Super': Gen('custom', 'T: Super'), 'U:Clone': Gen('custom', 'U: Clone'),
        'Vec<T>': Gen('nobound', 'Vec<T>'), 'T::Assoc': Gen('nobound', 'T::Assoc'),
        "for<'x>": Gen('custom', "for<'x> &'x T: Tr"),
    }
    lists = [None, [], ['T'], ['U'], ['T', 'U'], ['U', 'T'], ['T', 'T'], ['T', 'U', 'T'], ['T:Super'], ['T:Super', 'U'],
             ['T', 'U:Clone'], ['T:Super', 'U:Clone'], ['Vec<T>'], ['T::Assoc', 'U'], ["for<'x>", 'T'], ['T', 'T:Super']]
    params = [Param('ty', 'T'), Param('ty', 'U', 'Super'), Param('ty', 'V', comma=False)]
    fields = [Field(0, '::core::marker::PhantomData<(T, U, V)>', [])]

    def mk(l):
        return None if l is None else [entries[x] for x in l]
    pairs = [(['Clone'], ['Copy']), (['Clone', 'Copy'], ['Debug']), (['PartialOrd'], ['Ord', 'Eq', 'PartialEq']),
             (['PartialOrd', 'Ord'], ['PartialEq', 'Eq']), (['Debug'], ['Clone']), (['Clone'], ['Clone'])]
    for l1, l2 in itertools.product(lists, repeat=2):
        for t1, t2 in pairs:
            yield Item('struct', I('A'), params, ['V: Super'], False, [dw(t1, mk(l1)), dw(t2, mk(l2))],
                       [Variant(I('A'), 'tuple', fields)])
    for l in lists:
        for traits in (['Clone', 'Copy'], ['PartialOrd', 'Ord', 'PartialEq', 'Eq'], ['Clone'], ['Hash', 'Debug', 'Default']):
            yield Item('struct', I('A'), params, [], False, [dw(traits, mk(l), gen_trailing=bool(l))],
                       [Variant(I('A'), 'tuple', fields)])
            yield Item('union', I('A'), params, [], False, [dw([t for t in traits if t in ('Clone', 'Copy')] or ['Clone'], mk(l))],
                       [Variant(I('A'), 'named', [Field(I('a'), PH, []), Field(I('b'), 'u8', [])])])
    # three attributes, merge of the outer two must not happen through the middle one
    for l1, l2, l3 in itertools.product([None, ['T'], ['T', 'U']], repeat=3):
        yield Item('struct', I('A'), params, [], False, [dw(['Clone'], mk(l1)), dw(['Debug'], mk(l2)), dw(['Hash'], mk(l3))],
                   [Variant(I('A'), 'tuple', fields)])


# ------------------------------------------------------------------ E7: zeroize (C18 C19)

def e_zeroize():
    FQS = MList('Zeroize', [MPathM('fqs')])
    fopts = [('plain', []), ('fqs', [opt(FQS)]), ('skipZ', [opt(skip_meta(['Zeroize']))]),
             ('skip', [opt('skip')]), ('skipDebug', [opt(skip_meta(['Debug']))]),
             # both options of a field in one attribute, in either order, and in two attributes
             ('fqs,skipDebug', [opt(FQS, skip_meta(['Debug']))]), ('skipDebug,fqs', [opt(skip_meta(['Debug']), FQS)]),
             ('fqs+skipDebug', [opt(FQS), opt(skip_meta(['Debug']))])]
    crate_opts = [None, P('::zeroize_'), P('krate::zeroize')]
    for (n0, b0), (n1, b1), (n2, b2) in itertools.product(fopts, repeat=3):
        for traits in (['Zeroize'], ['Zeroize', 'ZeroizeOnDrop'], ['ZeroizeOnDrop', 'Debug']):
            if 'Zeroize' not in traits and any('fqs' in n for n in (n0, n1, n2)):
                continue
            if sum(',' in n or '+' in n for n in (n0, n1, n2)) > 1:
                continue
            tr = list(traits)
            for shape in ('tuple', 'named'):
                names = [I('a'), I('b'), I('c')]
                fs = [Field(names[i] if shape == 'named' else i, ty, list(b))
                      for i, (ty, b) in enumerate((('T', b0), ('u8', b1), (PH, b2)))]
                yield Item('struct', I('A'), tparam(), [], False, [dw(tr, gen_T())], [Variant(I('A'), shape, fs)])
            fs = [Field(0, 'T', list(b0)), Field(1, 'u8', list(b1)), Field(2, PH, list(b2))]
            vs = [Variant(I('X'), 'tuple', fs), Variant(I('Y'), 'unit', []), Variant(I('W'), 'tuple', []),
                  Variant(I('V'), 'named', [Field(I('a'), 'T', [])], [opt('skip_inner')])]
            yield Item('enum', I('A'), tparam(), [], False, [dw(tr, gen_T())], vs)
    for c in crate_opts:
        for tr in (['Zeroize'], ['ZeroizeOnDrop'], ['Zeroize', 'ZeroizeOnDrop']):
            metas = [MList(t, [MNameValue('crate', 'path', c)]) if c else MPathM(t) for t in tr]
            yield Item('struct', I('A'), tparam(), [], False, [dw(metas, gen_T())],
                       [Variant(I('A'), 'tuple', [Field(0, 'T', []), Field(1, 'u8', [opt(MList('Zeroize', [MPathM('fqs')]))] if 'Zeroize' in tr else [])])])


# ------------------------------------------------------------------ E8: debug (C10 C14)

def e_debug():
    names = ['a', 'r#type', '__f', '__builder']
    for shape in ('named', 'tuple'):
        for skips in itertools.product([None, 'bare', 'Debug', 'Hash'], repeat=3):
            fs = []
            for i, s in enumerate(skips):
                b = [] if s is None else [opt('skip')] if s == 'bare' else [opt(skip_meta([s]))]
                fs.append(Field(I(names[i]) if shape == 'named' else i, ['T', 'u8', PH][i], b))
            for traits in (['Debug', 'Hash'],):
                yield Item('struct', I('r#type'), tparam(), [], False, [dw(traits, gen_T())], [Variant(I('r#type'), shape, fs)])
                yield Item('enum', I('A'), tparam(), [], False, [dw(traits, gen_T())],
                           [Variant(I('r#fn'), shape, fs), Variant(I('Unit'), 'unit', []), Variant(I('r#match'), 'tuple', [])])


# ------------------------------------------------------------------ E9: documented-invalid classes with controls (C15)

def e_invalid():
    T = tparam()
    f = [Field(0, 'T', [])]

    def st(attrs, fields=None, kind='struct', shape='tuple'):
        return Item(kind, I('A'), T, [], False, attrs, [Variant(I('A'), shape, fields if fields is not None else f)])

    def en(attrs, variants):
        return Item('enum', I('A'), T, [], False, attrs, variants)
    X = lambda b=None, fs=None: Variant(I('X'), 'tuple', fs if fs is not None else [Field(0, 'T', [])], b or [])
    Y = lambda b=None: Variant(I('Y'), 'unit', [], b or [])
    inc = Attr('dw', opt('incomparable'))
    # incomparable with Eq / Ord, in the same, an earlier and a later attribute; without PartialEq/PartialOrd; twice
    for extra in (['Eq'], ['Ord'], ['Eq', 'Ord']):
        yield st([dw(['PartialEq', 'PartialOrd'] + extra), inc])
        yield st([dw(extra, gen_T()), dw(['PartialEq'], None), inc])
        yield st([dw(['PartialEq'], gen_T()), dw(extra, [Gen('custom', 'T: Eq')]), inc])
        yield st([dw(['PartialEq', 'PartialOrd'], gen_T()), dw(['Debug'], None), dw(extra, [Gen('custom', 'T: Ord')]), inc])
        yield en([dw(['PartialEq'], gen_T()), dw(extra, [Gen('custom', 'T: Eq')])], [X([opt('incomparable')]), Y()])
    yield st([dw(['PartialEq']), inc])                    # control: accepted
    yield st([dw(['Debug', 'Clone']), inc])
    yield st([dw(['PartialEq']), inc, inc])
    yield en([dw(['PartialEq']), inc], [X([opt('incomparable')]), Y()])
    yield en([dw(['PartialEq'])], [X([opt('incomparable', 'incomparable')]), Y()])
    yield en([dw(['PartialEq'])], [X([opt(MList('incomparable', [MPathM('x')]))]), Y()])
    # skip groups
    for g in GROUPS:
        for traits in (['Clone'], ['Debug'], ['Hash'], ['PartialEq'], ['Clone', 'Default']):
            yield st([dw(traits)], [Field(0, 'T', [opt(skip_meta([g]))])])
            yield st([dw(traits), Attr('dw', opt(skip_meta([g], 'skip_inner')))])
    for traits in (['Clone'], ['Clone', 'Copy', 'Default'], ['Debug']):
        yield st([dw(traits)], [Field(0, 'T', [opt('skip')])])
        yield st([dw(traits), Attr('dw', opt('skip_inner'))])
    yield st([dw(['Debug'])], [Field(0, 'T', [opt('skip', 'skip')])])
    yield st([dw(['Debug'])], [Field(0, 'T', [opt('skip'), opt('skip')])])
    yield st([dw(['Debug'])], [Field(0, 'T', [opt('skip', skip_meta(['Debug']))])])
    yield st([dw(['Debug'])], [Field(0, 'T', [opt(skip_meta(['Debug']), 'skip')])])
    yield st([dw(['Debug'])], [Field(0, 'T', [opt(skip_meta(['Debug', 'Debug']))])])
    yield st([dw(['Debug'])], [Field(0, 'T', [opt(skip_meta(['Debug'])), opt(skip_meta(['Debug']))])])
    yield st([dw(['Debug'])], [Field(0, 'T', [opt(skip_meta(['Foo']))])])
    yield st([dw(['Debug'])], [Field(0, 'T', [opt(skip_meta(['a::Debug']))])])          # a path that is no identifier
    yield st([dw(['Debug'])], [Field(0, 'T', [opt(skip_meta(['r#Debug']))])])
    yield st([dw(['Zeroize'])], [Field(0, 'T', [opt(skip_meta(['Zeroize', 'Zeroize']))])])
    yield st([dw(['Zeroize', 'Debug'])], [Field(0, 'T', [opt(skip_meta(['Zeroize'])), opt(skip_meta(['Debug', 'Zeroize']))])])
    yield st([dw(['Debug'])], [Field(0, 'T', [opt(MList('skip', []))])])
    for pg, fg in itertools.product([None, ['Debug'], ['Hash'], ['Debug', 'Hash']], repeat=2):
        yield st([dw(['Debug', 'Hash']), Attr('dw', opt(skip_meta(pg, 'skip_inner')))], [Field(0, 'T', [opt(skip_meta(fg))])])
        yield en([dw(['Debug', 'Hash'])], [X([opt(skip_meta(pg, 'skip_inner'))], [Field(0, 'T', [opt(skip_meta(fg))])]), Y()])
    yield en([dw(['Debug']), Attr('dw', opt('skip_inner'))], [X(), Y()])
    yield en([dw(['Debug'])], [X(), Y([opt('skip_inner')])])
    yield en([dw(['Debug'])], [X(), Variant(I('W'), 'tuple', [], [opt('skip_inner')])])
    yield en([dw(['Debug'])], [X(), Variant(I('W'), 'named', [], [opt('skip_inner')])])
    # default
    yield en([dw(['Default'])], [X(), Y()])
    yield en([dw(['Default'])], [X([opt('default')]), Y([opt('default')])])
    yield en([dw(['Default'])], [X([opt('default', 'default')]), Y()])
    yield en([dw(['Clone'])], [X([opt('default')]), Y()])
    yield en([dw(['Default'])], [X([opt('default')]), Y()])    # control
    yield st([dw(['Default'], gen_T())], [Field(0, 'T', [opt('default')])])
    # unions
    for traits in (['Clone'], ['Clone', 'Copy'], ['Debug'], ['Clone', 'PartialEq'], ['Default']):
        yield st([dw(traits)], [Field(I('a'), 'T', [])], 'union', 'named')
    # traits and options
    yield st([dw(['Foo'])])
    yield st([dw(['Clone', 'Clone'])])
    yield st([dw(['Clone'], gen_T()), dw(['Clone'], gen_T())])
    yield st([dw(['Clone'], gen_T()), dw(['Debug'], None), dw(['Clone'], gen_T())])   # accepted by the macro (not adjacent)
    yield st([dw([MList('Clone', [MPathM('x')])])])
    yield st([dw([MList('Clone', [])])])
    yield st([dw([MNameValue('Clone', 'other')])])
    yield st([dw(['a::Clone'])])
    yield st([dw(['r#Clone'])])
    yield st([dw(['crate'])])
    yield st([dw(['Clone', MNameValue('crate', 'path', P('foo'))])])
    # `Default` in one attribute of several, no default variant
    yield en([dw(['Clone'], gen_T()), dw(['Default'])], [X(), Y()])
    yield en([dw(['Default']), dw(['Debug'], gen_T())], [X(), Y()])
    yield en([dw(['Clone'], gen_T()), dw(['Default']), dw(['Debug'])], [X(), Y()])
    for z in ('Zeroize', 'ZeroizeOnDrop'):
        yield st([dw([MList(z, [])])])                       # `Zeroize()`: an empty option list
        yield st([dw(['Clone', MList(z, [])], gen_T())])
        yield st([dw([z])])
        yield st([dw([MList(z, [MPathM('drop')])])])
        yield st([dw([MList(z, [MPathM('foo')])])])
        yield st([dw([MList(z, [MNameValue('crate', 'path', P('::zeroize'))])])])
        yield st([dw([MList(z, [MNameValue('crate', 'path', P('zeroize'))])])])
        yield st([dw([MList(z, [MNameValue('crate', 'str', P('a::b'))])])])
        yield st([dw([MList(z, [MNameValue('crate', 'path', PA('a::b', 1))])])])
        yield st([dw([MList(z, [MNameValue('crate', 'str', PA('a::b'))])])])
        yield st([dw([MList(z, [MNameValue('crate', 'strbad')])])])
        yield st([dw([MList(z, [MNameValue('crate', 'other')])])])
        yield st([dw([MList(z, [MNameValue('crate', 'path', P('a')), MNameValue('crate', 'path', P('b'))])])])
        yield st([dw([MList(z, [MNameValue('foo', 'path', P('a'))])])])
        yield st([dw([MList(z, [MList('crate', [])])])])
    yield st([dw(['Zeroize'])], [Field(0, 'T', [opt(MList('Zeroize', [MPathM('fqs'), MPathM('fqs')]))])])
    # an option repeated in another list entry or in another attribute of the same field / variant / item
    fq = MList('Zeroize', [MPathM('fqs')])
    yield st([dw(['Zeroize'])], [Field(0, 'T', [opt(fq, fq)])])
    yield st([dw(['Zeroize'])], [Field(0, 'T', [opt(fq), opt(fq)])])
    yield st([dw(['Zeroize', 'Debug'])], [Field(0, 'T', [opt(fq), opt(skip_meta(['Debug'])), opt(fq)])])
    yield st([dw(['Zeroize', 'Debug'])], [Field(0, 'T', [opt(fq, skip_meta(['Debug']), fq)])])
    yield st([dw(['Zeroize', 'Debug'])], [Field(0, 'T', [opt(fq), opt(skip_meta(['Debug']))])])       # control: accepted
    yield en([dw(['Default'])], [X([opt('default'), opt('default')]), Y()])
    yield en([dw(['PartialEq'])], [X([opt('incomparable'), opt('incomparable')]), Y()])
    yield en([dw(['Debug'])], [X([opt('skip_inner'), opt('skip_inner')]), Y()])
    yield en([dw(['Debug'])], [X([opt('skip_inner', 'skip_inner')]), Y()])
    yield en([dw(['Debug', 'Hash'])], [X([opt(skip_meta(['Debug'], 'skip_inner')), opt(skip_meta(['Hash'], 'skip_inner'))]), Y()])
    yield st([dw(['Debug']), Attr('dw', opt('skip_inner')), Attr('dw', opt('skip_inner'))])
    yield st([dw(['Zeroize'])], [Field(0, 'T', [opt(MList('Zeroize', [MPathM('foo')]))])])
    yield st([dw(['Zeroize'])], [Field(0, 'T', [opt('Zeroize')])])
    yield st([dw(['Zeroize'])], [Field(0, 'T', [opt(MNameValue('Zeroize', 'other'))])])
    yield st([dw(['Clone'])], [Field(0, 'T', [opt(MList('Zeroize', [MPathM('fqs')]))])])
    yield st([dw(['Clone'])], [Field(0, 'T', [opt('foo')])])
    yield en([dw(['Clone'])], [X([opt('foo')]), Y()])
    # nothing a plain derive could not do (`Error::use_case`), per trait, with the escapes (skip, incomparable, fqs, crate, default)
    for t in ['Clone', 'Copy', 'Debug', 'Default', 'Eq', 'Hash', 'Ord', 'PartialEq', 'PartialOrd', 'Zeroize', 'ZeroizeOnDrop']:
        yield st([dw([t], gen_T())])
        yield en([dw([t], gen_T())], [X(), Y()])
        yield en([dw([t], gen_T())], [X(), Variant(I('W'), 'tuple', []), Variant(I('V'), 'named', [])])
        yield en([dw([t], gen_T())], [X(None, [Field(0, 'T', [opt('skip')])]), Y()])
        yield en([dw([t], gen_T())], [X([opt('incomparable')]), Y()])
        yield en([dw([t], gen_T())], [X([opt('default')]), Y()])
        yield en([dw([t], gen_T())], [X(None, [Field(0, 'T', [opt(MList('Zeroize', [MPathM('fqs')]))])]), Y()])
        yield en([dw([t, 'Zeroize'], gen_T())], [X(None, [Field(0, 'T', [opt(MList('Zeroize', [MPathM('fqs')]))])]), Y()])
        yield en([dw([MList(t, [MNameValue('crate', 'path', P('krate::zeroize'))])], gen_T())], [X(), Y()])
        yield en([dw([t], [Gen('param', 'T', I('T')), Gen('param', 'T', I('T'))])], [X(), Y()])
        yield en([dw([t], [Gen('custom', 'T: Clone')])], [X(), Y()])
    # the use-case check counts *type* parameters only: lifetime and const parameters next to `T` change nothing
    # (round 4 seed G02-4a counted const parameters; found again by the regression run of round 7)
    for t in ['Clone', 'Debug', 'PartialEq', 'Hash']:
        yield Item('struct', I('A'), [Param('ty', 'T'), Param('const', 'N', 'usize', comma=False)], [], False,
                   [dw([t], gen_T())], [Variant(I('A'), 'tuple', [Field(0, '[T; N]', [])])])
        yield Item('struct', I('A'), [Param('lt', "'a"), Param('ty', 'T', comma=False)], [], False,
                   [dw([t], gen_T())], [Variant(I('A'), 'tuple', [Field(0, "&'a T", [])])])
        yield Item('enum', I('A'), [Param('lt', "'a"), Param('ty', 'T'), Param('const', 'N', 'usize', comma=False)], [], False,
                   [dw([t], gen_T())], [Variant(I('X'), 'tuple', [Field(0, "&'a [T; N]", [])]), Variant(I('Y'), 'unit', [])])
        # control: accepted (the bound list names a type that is no parameter)
        yield Item('struct', I('A'), [Param('ty', 'T'), Param('const', 'N', 'usize', comma=False)], [], False,
                   [dw([t], [Gen('nobound', '[T; N]')])], [Variant(I('A'), 'tuple', [Field(0, '[T; N]', [])])])
    # empty attributes, empty items, no traits
    yield st([Attr('dw', Body([]))])
    yield st([dw(['Clone']), Attr('dw', Body([]))])
    yield st([dw(['Clone'])], [Field(0, 'T', [Body([])])])
    yield en([dw(['Clone'])], [X([Body([])]), Y()])
    yield st([Attr('dw', Body(notlist=''))])
    yield st([dw(['Clone']), Attr('dw', Body(notlist=' = "x"'))])
    yield st([dw(['Clone'])], [Field(0, 'T', [Body(notlist='')])])
    yield en([dw(['Clone'])], [X([Body(notlist='')]), Y()])
    yield st([Attr('dw', opt('skip_inner'))])
    yield st([Attr('dw', opt(MNameValue('crate', 'path', P('foo'))))])
    # a trailing comma after the single crate option (still the crate option, in both stages)
    yield st([Attr('dw', metas_body([MNameValue('crate', 'path', P('foo'))], trailing=True)), dw(['Clone'])])
    yield st([dw(['Clone']), Attr('dw', metas_body([MNameValue('crate', 'str', P('foo::bar'))], trailing=True))])
    yield st([dw(['Clone']), Attr('dw', metas_body([MNameValue('crate', 'path', P('::derive_where'))], trailing=True))])
    yield st([dw(['Clone']), Attr('dw', metas_body([MNameValue('crate', 'other')], trailing=True))])
    # a crate path with generic arguments cannot head the attribute path of the visited marker
    for kindv in ('path', 'str'):
        yield st([dw(['Clone']), Attr('dw', opt(MNameValue('crate', kindv, PA('foo'))))])
        yield st([Attr('dw', opt(MNameValue('crate', kindv, PA('foo::bar', 1)))), dw(['Clone'])])
        yield st([dw(['Clone']), Attr('dw', opt(MNameValue('crate', kindv, PA('::derive_where'))))])
        yield st([dw(['Clone']), Attr('dw', opt(MNameValue('crate', kindv, PA('foo', ty=''))))])       # `foo::<>`
        yield st([Attr('dw', opt(MNameValue('crate', kindv, PA('foo::bar', 1, ty='')))), dw(['Clone'])])
    yield st([dw(['Clone'])], [], 'struct', 'tuple')
    yield st([dw(['Clone'])], [], 'struct', 'named')
    yield st([dw(['Clone'])], [], 'struct', 'unit')
    yield en([dw(['Clone'])], [Y(), Variant(I('W'), 'tuple', [])])
    yield en([dw(['Clone'])], [])
    yield st([dw(['Clone'])], [], 'union', 'named')
    # generics
    yield st([dw(['Clone'], [Gen('lifetime', "'a: 'static")])])
    yield st([dw(['Clone'], [Gen('bad', '5')])])
    yield st([dw(['Clone'], [Gen('param', 'T', I('T')), JUNK_G])])
    yield st([dw(['Clone'], gen_T())])                     # use-case
    yield st([dw(['Clone'], [Gen('param', 'T', I('T')), Gen('param', 'T', I('T'))])])
    yield st([dw(['Clone'], [Gen('custom', 'T: Clone')])])
    # delimiters
    yield st([Attr('dw', Body([MPathM('Clone'), MPathM('Debug')]))])
    yield st([Attr('dw', Body([MPathM('Clone'), COMMA, COMMA, MPathM('Debug')]))])
    yield st([Attr('dw', Body([COMMA, MPathM('Clone')]))])
    yield st([Attr('dw', Body([], []))])
    yield st([Attr('dw', Body([], gen_T()))])
    yield st([Attr('dw', Body([MPathM('Clone'), COMMA], gen_T() + [COMMA]))])
    yield st([Attr('dw', Body([MPathM('Clone')], [COMMA]))])
    # repr
    for ids in (['transparent'], ['packed'], ['C', 'foo'], ['r#u8']):
        yield en([Attr('repr', repr_=('idents', [I(x) for x in ids])), dw(['PartialOrd'])], [X(), Y()])
    yield en([Attr('repr', repr_=('unparsable', None)), dw(['PartialOrd'])], [X(), Y()])
    yield en([dw(['PartialOrd'])], [Variant(I('X'), 'tuple', [Field(0, 'T', [])], [], ('3', 3)), Y()])
    yield en([dw(['Clone'])], [Variant(I('X'), 'tuple', [Field(0, 'T', [])], [], ('3', 3)), Y()])


JUNK_G = 'junk'


# ------------------------------------------------------------------ E10: names (C14 C10 C16)

def rename(item, vnames, fnames, iname=None):
    """Copy of `item` with variant i named vnames[i % ..], named fields renamed position-wise."""
    import copy
    it = copy.deepcopy(item)
    if iname is not None:
        it.ident = I(iname)
    for i, v in enumerate(it.variants):
        if it.kind == 'enum':
            v.ident = I(vnames[i % len(vnames)])
        else:
            v.ident = it.ident
        for j, f in enumerate(v.fields):
            if not isinstance(f.member, int):
                f.member = I(fnames[j % len(fnames)])
    return it


def e_names():
    """Every identifier-forming site of the generator (`__field_<name>`, `__other_field_<name>`,
    `__VALIDATE_ISIZE_<Variant>`, Debug names, patterns and constructors) with raw identifiers, names equal to the
    macro's own temporaries and names of std items, over a cross-section of all body strategies."""
    base = []
    for k, it in enumerate(e_discriminants()):
        if k % 9 == 0:
            base.append(it)
    for k, it in enumerate(e_incomparable()):
        if k % 23 == 0:
            base.append(it)
    for k, it in enumerate(e_skip()):
        if k % 31 == 0:
            base.append(it)
    for k, it in enumerate(e_zeroize()):
        if k % 7 == 0:
            base.append(it)
    for k, it in enumerate(e_default()):
        if k % 3 == 0:
            base.append(it)
    schemes = [
        (['r#fn', 'r#type', 'r#loop', 'r#match', 'r#Box', 'r#enum'], ['r#type', 'r#fn', 'r#match', 'r#as'], 'r#struct'),
        (['__field_0', 'Self_', 'None', 'Some', 'Equal', 'Ok'], ['__other', '__state', '__f', '__cmp', '__builder', '__this'], 'Vec'),
        (['A', 'r#B', 'C', 'r#D', 'E', 'r#F'], ['__self_disc', '__field_0', '__other_field_0', 'other', 'state', 'f'], 'Box'),
    ]
    for it in base:
        for vn, fn, iname in schemes:
            yield rename(it, vn, fn, iname)


# ------------------------------------------------------------------ E11: order and grouping of field options

def e_fieldopts():
    """`Zeroize(fqs)` together with a skip option on one field, in either order, in one attribute or in two; the same
    for several skip lists.  (Only the zeroize configurations accept `Zeroize(fqs)`: an option written *after* it must
    still be honoured there, for every trait of the skip group.)"""
    traits = ['Zeroize', 'Debug', 'PartialEq', 'PartialOrd', 'Hash', 'Clone']
    # two type parameters, one of them bound: the attribute is not "what a plain derive could do" (`Error::use_case`), so
    # the items are accepted (round 7: with `<T>` and `; T` every item of this enumerator was rejected for `Clone`)
    T2 = [Param('ty', 'T', comma=True), Param('ty', 'U', comma=False)]
    PHU = '::core::marker::PhantomData<U>'
    fqs = MList('Zeroize', [MPathM('fqs')])
    for g in (None, ['Debug'], ['EqHashOrd'], ['Hash'], ['Zeroize'], ['Debug', 'EqHashOrd'], ['Hash', 'Debug']):
        sk = skip_meta(g)
        for order in ([fqs, sk], [sk, fqs]):
            for split in (False, True):
                bodies = [opt(m) for m in order] if split else [opt(*order)]
                fs = [Field(0, 'T', []), Field(1, 'T', bodies), Field(2, 'u8', []), Field(3, PHU, [])]
                yield Item('struct', I('A'), T2, [], False, [dw(traits, gen_T())], [Variant(I('A'), 'tuple', fs)])
                nfs = [Field(I('a'), 'T', []), Field(I('b'), 'T', bodies), Field(I('c'), PHU, [])]
                yield Item('enum', I('A'), T2, [], False, [dw(traits, gen_T())],
                           [Variant(I('X'), 'named', nfs), Variant(I('Y'), 'unit', [])])
    # several skip lists on one field: every list counts, whichever comes last
    for gs in itertools.permutations(['Debug', 'EqHashOrd', 'Zeroize'], 2):
        for split in (False, True):
            ms = [skip_meta([g]) for g in gs]
            bodies = [opt(m) for m in ms] if split else [opt(*ms)]
            fs = [Field(0, 'T', []), Field(1, 'T', bodies), Field(2, PHU, [])]
            yield Item('struct', I('A'), T2, [], False, [dw(traits, gen_T())], [Variant(I('A'), 'tuple', fs)])
            yield Item('struct', I('A'), T2, [], False, [dw(traits[1:], gen_T())], [Variant(I('A'), 'tuple', fs)]) \
                if 'Zeroize' not in gs else Item('struct', I('A'), T2, [], False, [dw(traits, gen_T())],
                                                 [Variant(I('A'), 'named', [Field(I('a'), 'T', bodies), Field(I('b'), 'u8', []), Field(I('c'), PHU, [])])])


def e_foreign():
    """Attributes that are not the macro's own (`#[non_exhaustive]`, `#[must_use]`, doc, lints, `cfg_attr`) on the item, in
    front of and behind the `derive_where` attribute, and on variants: the expansion must not depend on them (std's
    derives ignore them; round 7: a seeded change made Debug print `..` for `#[non_exhaustive]` shapes)."""
    T2 = [Param('ty', 'T', comma=True), Param('ty', 'U', comma=False)]
    PHU = '::core::marker::PhantomData<U>'
    traits = ['Clone', 'Debug', 'Default', 'Eq', 'Hash', 'Ord', 'PartialEq', 'PartialOrd']

    def fields(shape):
        if shape == 'unit':
            return []
        return [Field(I('a') if shape == 'named' else 0, 'T', []), Field(I('b') if shape == 'named' else 1, PHU, [])]
    for fa in ('#[non_exhaustive]', '#[must_use]', '#[doc = "x"]', '#[allow(dead_code)]', '#[cfg_attr(all(), non_exhaustive)]'):
        for pos in (0, 1):
            for shape in ('named', 'tuple'):
                attrs = [dw(traits, gen_T())]
                attrs.insert(pos, Attr('other', src=fa))
                yield Item('struct', I('A'), T2, [], False, attrs, [Variant(I('A'), shape, fields(shape))])
                yield Item('enum', I('A'), T2, [], False, attrs,
                           [Variant(I('X'), shape, fields(shape), [opt('default')]), Variant(I('Y'), 'unit', [])])
        if 'must_use' in fa:
            continue
        for shape in ('named', 'tuple', 'unit'):
            yield Item('enum', I('A'), T2, [], False, [dw(traits, gen_T())],
                       [Variant(I('X'), shape, fields(shape), [opt('default')], None, fa + ' '),
                        Variant(I('Y'), 'tuple', fields('tuple'), [], None, fa + ' ')])


def e_lacking():
    """A field whose type lacks exactly the traits it is skipped for (C06/C17: "the type of a skipped field need not
    implement the traits it is skipped for"), for every way of skipping: on the field (a group list, bare, several lists,
    several attributes), on its struct or variant (`skip_inner`), and both at once for different groups -- the union of
    the two counts, whichever is written where.  The probe types `NoDbg`, `NoCmp`, `NoEq`, `NoHash` exist in
    exec/prelude.rs, so these items are also run by B and C."""
    T2 = [Param('ty', 'T', comma=True), Param('ty', 'U', comma=False)]
    PHU = '::core::marker::PhantomData<U>'
    cases = [('Debug', 'NoDbg', ['Debug', 'PartialEq', 'Hash'], ['EqHashOrd', 'Hash']),
             ('EqHashOrd', 'NoCmp', ['PartialEq', 'Eq', 'PartialOrd', 'Ord', 'Hash', 'Debug'], ['Debug']),
             ('EqHashOrd', 'NoEq', ['PartialEq', 'Eq', 'Debug', 'Hash'], ['Debug']),
             ('Hash', 'NoHash', ['Hash', 'PartialEq', 'Debug'], ['Debug']),
             ('EqHashOrd', 'NoHash', ['Hash', 'PartialEq', 'Eq', 'Debug'], ['Debug'])]
    for g, ty, traits, others in cases:
        ways = [([opt(skip_meta([g]))], None), ([opt('skip')], None), ([], skip_meta([g], 'skip_inner')),
                ([], MPathM('skip_inner'))]
        for h in others:
            ways += [([opt(skip_meta([h]))], skip_meta([g], 'skip_inner')),          # parent covers g, the field adds h
                     ([opt(skip_meta([g]))], skip_meta([h], 'skip_inner')),          # the field covers g, the parent adds h
                     ([opt(skip_meta([g]), skip_meta([h]))], None), ([opt(skip_meta([h]), skip_meta([g]))], None),
                     ([opt(skip_meta([h])), opt(skip_meta([g]))], None), ([opt(skip_meta([h, g]))], None)]
        for fbodies, parent in ways:
            for shape in ('tuple', 'named'):
                def fields():
                    nm = (lambda i, n: I(n) if shape == 'named' else i)
                    return [Field(nm(0, 'a'), 'T', []), Field(nm(1, 'b'), ty, list(fbodies)), Field(nm(2, 'c'), PHU, [])]
                attrs = [dw(traits, gen_T())] + ([Attr('dw', opt(parent))] if parent is not None else [])
                yield Item('struct', I('A'), T2, [], False, attrs, [Variant(I('A'), shape, fields())])
                yield Item('enum', I('A'), T2, [], False, [dw(traits, gen_T())],
                           [Variant(I('X'), shape, fields(), [opt(parent)] if parent is not None else []),
                            Variant(I('Y'), 'tuple', [Field(0, 'T', [])])])


def e_traitsets():
    """Every subset of the eleven traits on three fixed shapes (a field-less enum, a generic struct, a generic enum with
    data): which combinations are accepted and what each impl looks like next to the others -- the `Clone`/`Copy`
    shortcuts of `PartialOrd`, `Clone` next to `Copy`, `PartialOrd` next to `Ord`, `ZeroizeOnDrop` next to anything
    (round 9: `Clone` + `PartialOrd` + `ZeroizeOnDrop` on a field-less enum is KF-dropcast)."""
    T2 = [Param('ty', 'T', comma=True), Param('ty', 'U', comma=False)]
    PHU = '::core::marker::PhantomData<U>'
    alltr = ['Clone', 'Copy', 'Debug', 'Default', 'Eq', 'Hash', 'Ord', 'PartialEq', 'PartialOrd', 'Zeroize', 'ZeroizeOnDrop']
    for n in range(1, 2 ** len(alltr)):
        traits = [t for i, t in enumerate(alltr) if n >> i & 1]
        dflt = [opt('default')] if 'Default' in traits else []
        yield Item('enum', I('A'), [], [], False, [dw(traits, [Gen('custom', 'u8: Copy')])],
                   [Variant(I('X'), 'unit', [], dflt), Variant(I('Y'), 'unit', []), Variant(I('Z'), 'unit', [])])
        yield Item('struct', I('A'), T2, [], False, [dw(traits, gen_T())],
                   [Variant(I('A'), 'tuple', [Field(0, 'T', []), Field(1, PHU, [])])])
        yield Item('enum', I('A'), T2, [], False, [dw(traits, gen_T())],
                   [Variant(I('X'), 'tuple', [Field(0, 'T', []), Field(1, PHU, [])], dflt), Variant(I('Y'), 'unit', [])])


ENUMERATORS = {
    'skip': e_skip, 'incomparable': e_incomparable, 'discriminants': e_discriminants, 'default': e_default,
    'bounds': e_bounds, 'zeroize': e_zeroize, 'debug': e_debug, 'invalid': e_invalid, 'names': e_names,
    'fieldopts': e_fieldopts, 'foreign': e_foreign, 'lacking': e_lacking, 'traitsets': e_traitsets,
}


def all_items(names=None):
    out = []
    for n, f in ENUMERATORS.items():
        if names is None or n in names:
            out += [(n, it) for it in f()]
    return out


if __name__ == '__main__':
    import collections
    c = collections.Counter(n for n, _ in all_items())
    print(c, sum(c.values()))
