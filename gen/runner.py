"""Run the hook (real code, in-process, inside /repo's test build) and the Lean
driver (model) on the same items."""
import os
import subprocess
import sys
import tempfile
import time

VERIF = os.path.dirname(os.path.dirname(os.path.abspath(__file__)))
# development only: VERIF_REPO / VERIF_TAG let tools/seedtest.py run a check against a scratch worktree with its own
# work and target directories; the registered commands never set them (they check /repo itself).
REPO = os.environ.get('VERIF_REPO', '/repo')
TAG = os.environ.get('VERIF_TAG', '')
DRIVER = os.path.join(VERIF, 'lean', '.lake', 'build', 'bin', 'dwdriver')
WORK = os.path.join(VERIF, 'work' + TAG)
TARGET = os.path.join(VERIF, 'target' + TAG)

# name -> (cargo args, model cfg bits safe/nightly/zeroize/zod)
CONFIGS = {
    'default': ([], '0000'),
    'safe': (['--features', 'safe'], '1000'),
    'nightly': (['--features', 'nightly'], '0100'),
    'zeroize': (['--features', 'zeroize'], '0010'),
    'zod': (['--features', 'zeroize-on-drop'], '0011'),
    'safe-zod': (['--features', 'safe,zeroize-on-drop'], '1011'),
}


def run_hook(cfg, lines, tag=''):
    """lines: list of '<stage> <source>'. Returns list of result lines."""
    os.makedirs(WORK, exist_ok=True)
    fin = os.path.join(WORK, 'hook-%s%s.in' % (cfg, tag))
    fout = os.path.join(WORK, 'hook-%s%s.out' % (cfg, tag))
    with open(fin, 'w') as f:
        f.write('\n'.join(lines) + '\n')
    if os.path.exists(fout):
        os.remove(fout)
    args, _ = CONFIGS[cfg]
    env = dict(os.environ)
    env.update(CARGO_TARGET_DIR=os.path.join(TARGET, 'hook-' + cfg),
               DW_VERIF_IN=fin, DW_VERIF_OUT=fout, CARGO_NET_OFFLINE='true',
               RUSTFLAGS='--cfg derive_where_verif')
    cmd = ['cargo'] + (['+nightly'] if cfg == 'nightly' else []) + \
          ['test', '--offline', '--lib', '-q'] + args + ['verif_hook']
    p = subprocess.run(cmd, cwd=REPO, env=env, stdout=subprocess.PIPE, stderr=subprocess.STDOUT, text=True)
    if p.returncode != 0 or not os.path.exists(fout):
        return None, p.stdout
    with open(fout) as f:
        out = f.read().split('\n')
    if out and out[-1] == '':
        out.pop()
    return out, p.stdout


def run_model(cmd, cfg, sexps):
    _, bits = CONFIGS[cfg]
    data = ''.join('%s %s %s\n' % (cmd, bits, s) for s in sexps)
    p = subprocess.run([DRIVER], input=data, stdout=subprocess.PIPE, text=True)
    out = p.stdout.split('\n')
    if out and out[-1] == '':
        out.pop()
    return out
