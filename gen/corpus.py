"""Hand-written corpus run first in every check: shapes taken from the
repository's own tests and README, from past findings and from the seeded
changes of /verif/seeded (minimised)."""
from items import (Attr, Body, COMMA, Field, Gen, I, Item, MList, MNameValue, MPathM, P, Param,
                   Variant, metas_body, traits_body)
from enumerate_items import dw, opt, skip_meta, tparam, gen_T, unit_enum, PH


def items():
    T = tparam()
    out = []

    def add(name, it):
        out.append((name, it))
    # README-like
    add('readme-struct', Item('struct', I('Example'), T, [], False, [dw(['Clone', 'Debug'])],
                              [Variant(I('Example'), 'tuple', [Field(0, PH, [])])]))
    add('readme-bound', Item('struct', I('Example'), [Param('ty', 'T'), Param('ty', 'U', comma=False)], [], False,
                             [dw(['Clone', 'Debug'], gen_T())],
                             [Variant(I('Example'), 'tuple', [Field(0, 'T', []), Field(1, '::core::marker::PhantomData<U>', [])])]))
    add('readme-enum-default', Item('enum', I('Example'), T, [], False, [dw(['Default'])],
                                    [Variant(I('A'), 'unit', [], [opt('default')]), Variant(I('B'), 'tuple', [Field(0, PH, [])])]))
    # fixed findings (must stay fixed)
    add('fixed-mixed-bounds-clone', Item('struct', I('A'), [Param('ty', 'T'), Param('ty', 'U', comma=False)], [], False,
                                         [dw(['Clone', 'Copy'], [Gen('custom', 'T: Super'), Gen('param', 'U', I('U'))])],
                                         [Variant(I('A'), 'tuple', [Field(0, PH, []), Field(1, 'U', [])])]))
    add('fixed-mixed-bounds-ord', Item('struct', I('A'), [Param('ty', 'T'), Param('ty', 'U', comma=False)], [], False,
                                       [dw(['PartialEq', 'Eq', 'PartialOrd', 'Ord'], [Gen('custom', 'T: Super'), Gen('param', 'U', I('U'))])],
                                       [Variant(I('A'), 'tuple', [Field(0, PH, []), Field(1, 'U', [])])]))
    add('fixed-zeroize-unit-variant', Item('enum', I('A'), T, [], False, [dw(['Zeroize', 'ZeroizeOnDrop'])],
                                           [Variant(I('X'), 'tuple', [Field(0, PH, []), Field(1, 'u8', [])]), Variant(I('Y'), 'unit', [])]))
    add('fixed-debug-raw', Item('struct', I('r#type'), T, [], False, [dw(['Debug'])],
                                [Variant(I('r#type'), 'tuple', [Field(0, PH, [])])]))
    # seeds (minimised triggers)
    add('seed-C03-C07', Item('enum', I('A'), T, [], False, [dw(['PartialEq', 'PartialOrd'])],
                             [Variant(I('X'), 'tuple', [Field(0, 'T', [])], [opt('skip_inner', 'incomparable')]), Variant(I('Y'), 'unit', [])]))
    add('seed-C04-C13', unit_enum('A', ['A', 'B', 'C', 'D', 'E', 'F'], [dw(['PartialOrd', 'PartialEq', 'Default'], [Gen('custom', 'u8: Copy')])],
                                  {0: ('10', 10), 3: ('1', 1), 5: ('3', 3)}, {0: [opt('default')]}))
    add('seed-C05', Item('struct', I('A'), [Param('ty', 'T'), Param('ty', 'U', comma=False)], [], False,
                         [dw(['Debug', 'Eq', 'Hash', 'Ord', 'PartialEq', 'PartialOrd'], gen_T())],
                         [Variant(I('A'), 'named', [Field(I('a'), 'T', []), Field(I('cache'), 'u8', [opt(skip_meta(['EqHashOrd']))]),
                                                    Field(I('m'), '::core::marker::PhantomData<U>', [])])]))
    add('seed-C06', Item('struct', I('A'), T, [], False, [dw(['Debug', 'PartialEq', 'Hash'])],
                         [Variant(I('A'), 'named', [Field(I('a'), 'T', []), Field(I('b'), 'u32', [opt(skip_meta(['Debug'])), opt(skip_meta(['EqHashOrd']))])])]))
    add('seed-C08', Item('enum', I('A'), T, [], False, [dw(['Hash'])],
                         [Variant(I('X'), 'tuple', [Field(0, 'T', [])], [opt(skip_meta(['Hash'], 'skip_inner'))]),
                          Variant(I('Y'), 'named', [Field(I('a'), 'T', [opt('skip')])]), Variant(I('Z'), 'tuple', [Field(0, 'T', [])])]))
    add('seed-C12', Item('enum', I('A'), T, [], False, [dw(['PartialEq'])],
                         [Variant(I('X'), 'tuple', [Field(0, 'T', [])], [opt('skip_inner')]), Variant(I('Y'), 'tuple', [Field(0, 'T', [])])]))
    add('seed-C01', Item('struct', I('A'), [Param('ty', 'T'), Param('ty', 'U'), Param('ty', 'V', comma=False)], [], False,
                         [dw(['Debug'], [Gen('param', 'T', I('T')), Gen('param', 'U', I('U'))]),
                          dw(['Clone'], [Gen('param', 'T', I('T')), Gen('param', 'T', I('T'))])],
                         [Variant(I('A'), 'tuple', [Field(0, '::core::marker::PhantomData<(T, U, V)>', [])])]))
    add('seed-C02', Item('enum', I('A'), [Param('ty', 'B', comma=False)], ['B: Backend'], False,
                         [dw(['Eq', 'Ord', 'PartialEq', 'PartialOrd'], [Gen('nobound', 'B::Handle')])],
                         [Variant(I('Buffer'), 'tuple', [Field(0, 'B::Handle', [])]), Variant(I('Null'), 'unit', [])]))
    add('seed-C09', Item('struct', I('A'), T, [], False, [dw(['Clone']), dw(['Copy'], [Gen('custom', 'T: Copy')])],
                         [Variant(I('A'), 'named', [Field(I('id'), 'Id', []), Field(I('m'), PH, [])])]))
    add('seed-C10', Item('struct', I('A'), T, [], False, [dw(['Debug'])],
                         [Variant(I('A'), 'named', [Field(I('id'), 'u8', []), Field(I('token'), 'u8', [opt('skip')]),
                                                    Field(I('r#type'), 'u8', []), Field(I('m'), PH, [])])]))
    add('seed-C11', Item('enum', I('A'), T, [], False, [dw(['Default'], gen_T())],
                         [Variant(I('X'), 'tuple', [Field(0, 'T', [])]), Variant(I('B'), 'tuple', [], [opt('default')]), Variant(I('C'), 'named', [])]))
    add('seed-C15', Item('struct', I('A'), T, [], False,
                         [dw(['PartialEq'], gen_T()), dw(['Eq'], [Gen('custom', 'T: Eq')]), Attr('dw', opt('incomparable'))],
                         [Variant(I('A'), 'tuple', [Field(0, 'T', [])])]))
    add('seed-C17', Item('struct', I('A'), T, [], False, [dw(['PartialEq', 'Eq'])],
                         [Variant(I('A'), 'named', [Field(I('a'), PH, []), Field(I('b'), 'f32', [opt('skip')])])]))
    add('seed-C18-C19', Item('struct', I('A'), T, [], False, [dw(['Zeroize', 'ZeroizeOnDrop'], gen_T())],
                             [Variant(I('A'), 'tuple', [Field(0, 'T', [opt(skip_meta(['Zeroize']))]),
                                                        Field(1, 'T', [opt(MList('Zeroize', [MPathM('fqs')]))])])]))
    add('seed-C14', Item('struct', I('A'), T, [], False, [dw(['Debug'])],
                         [Variant(I('A'), 'named', [Field(I('a'), 'u8', [opt('skip')]), Field(I('b'), PH, [])])]))
    return out
