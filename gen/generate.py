"""Random generator of mostly-valid derive_where items (the *valid stream*),
plus token-level mutations (the *malformed stream*).  Every choice comes from
the `random.Random` passed in."""
import random

from items import (COMMA, JUNK, PA, respell, regroup, Attr, Body, Field, Gen, I, Ident, Item, MList, MNameValue,
                   MPathM, P, Param, Variant, metas_body, traits_body)

STD_TRAITS = ['Clone', 'Copy', 'Debug', 'Default', 'Eq', 'Hash', 'Ord', 'PartialEq', 'PartialOrd']
ZTRAITS = ['Zeroize', 'ZeroizeOnDrop']
INT_REPRS = ['u8', 'u16', 'u32', 'u64', 'u128', 'usize', 'i8', 'i16', 'i32', 'i64', 'i128', 'isize']
SKIPPABLE = {'Debug': ['Debug'], 'EqHashOrd': ['Eq', 'Hash', 'Ord', 'PartialEq', 'PartialOrd'],
             'Hash': ['Hash'], 'Zeroize': ['Zeroize', 'ZeroizeOnDrop']}

VARIANT_NAMES = ['A', 'B', 'C', 'D', 'E', 'F']
ODD_VARIANT_NAMES = ['r#fn', 'r#type', 'Self_', '__field_0', 'None', 'Some', 'Equal', 'r#Box']
FIELD_NAMES = ['a', 'b', 'c', 'd']
ODD_FIELD_NAMES = ['r#type', 'r#fn', '__other', '__state', '__f', '__cmp', '__builder', '__this',
                   'state', 'other', '__self_disc', '__field_0', 'r#match']


def pick(rng, xs):
    return xs[rng.randrange(len(xs))]


def chance(rng, p):
    return rng.random() < p


def field_type(rng, tparams, lts, consts):
    opts = ['u8', 'i32', 'String', '::core::marker::PhantomData<()>', '(u8, u8)', '[u8; 4]']
    for t in tparams:
        opts += [t, t, '::core::marker::PhantomData<%s>' % t, 'Vec<%s>' % t, 'Option<%s>' % t,
                 '::core::marker::PhantomData<fn() -> %s>' % t, '%s::Assoc' % t,
                 '<%s as Tr>::Out' % t, '(%s, u8)' % t, 'Box<[%s]>' % t]
        for l in lts:
            opts += ["&%s %s" % (l, t), "::core::marker::PhantomData<&%s %s>" % (l, t)]
        for c in consts:
            opts += ['[%s; %s]' % (t, c)]
    for c in consts:
        opts += ['[u8; %s]' % c, 'Arr<%s>' % c, 'Arr<{ %s + 1 }>' % c]
    for l in lts:
        opts += ["&%s str" % l, "&%s mut u8" % l]
    return pick(rng, opts)


def bound_entry(rng, tparams, lts):
    """One entry after the `;`."""
    r = rng.random()
    t = pick(rng, tparams) if tparams else 'u8'
    if r < 0.5 and tparams:
        return Gen('param', t, I(t))
    if r < 0.65:
        ty = pick(rng, ['Vec<%s>' % t, '%s::Assoc' % t, '<%s as Tr>::Out' % t, '[%s; 2]' % t,
                        '(%s, u8)' % t, '&\'static %s' % t, 'fn(%s) -> u8' % t, 'Box<dyn Fn(%s)>' % t,
                        '::std::vec::Vec<%s>' % t, 'u8', 'self::X<%s>' % t])
        return Gen('nobound', ty)
    if r < 0.95:
        pred = pick(rng, ['%s: Clone' % t, '%s: Super' % t, '%s: ::core::fmt::Debug + Copy' % t,
                          'for<\'x> &\'x %s: Tr' % t, '%s::Assoc: Clone' % t, 'Vec<%s>: Default' % t,
                          '%s: ?Sized' % t, '%s: \'static' % t, '%s: Tr<Out = u8>' % t,
                          '<%s as Tr>::Out: Eq + Ord' % t, '%s:' % t, '[%s; 2]: Copy' % t])
        return Gen('custom', pred)
    if r < 0.98:
        l = pick(rng, lts) if lts else "'a"
        return Gen('lifetime', "%s: 'static" % l)
    return Gen('bad', pick(rng, ['5', '"x"', '=']))


def bound_list(rng, tparams, lts):
    """gens or None."""
    r = rng.random()
    if r < 0.25:
        return None
    if r < 0.3:
        return []
    if r < 0.5 and tparams:
        # exactly the type parameters, possibly permuted (use-case check)
        ps = list(tparams)
        rng.shuffle(ps)
        return [Gen('param', t, I(t)) for t in ps]
    n = rng.randint(1, 3)
    return [bound_entry(rng, tparams, lts) for _ in range(n)]


def gen_discriminants(rng, n, repr_int):
    """None or list of (src, value) / None per variant."""
    if chance(rng, 0.55):
        return [None] * n
    signed = repr_int is None or repr_int.startswith('i')
    out, cur = [], 0
    lo = -100 if signed else 0
    mode = pick(rng, ['sparse', 'all', 'first', 'desc', 'expr', 'extreme'])
    vals = rng.sample(range(lo, 120), n)
    if mode == 'desc':
        vals.sort(reverse=True)
    for k in range(n):
        explicit = {'sparse': chance(rng, 0.4), 'all': True, 'first': k == 0, 'desc': True,
                    'expr': chance(rng, 0.6), 'extreme': k == 0}[mode]
        if not explicit:
            out.append(None)
            continue
        v = vals[k]
        if mode == 'expr':
            form = rng.randrange(4)
            if form == 0 and v >= 0:
                src = '%d + %d' % (v // 2, v - v // 2)
            elif form == 1 and v >= 0:
                src = '1 << %d' % (v % 6)
                v = 1 << (v % 6)
            elif form == 2:
                src = '(%d)' % v if v >= 0 else '(-%d)' % -v
            else:
                src = 'CONST_%d' % (v % 3)
                v = [7, 40, 90][v % 3]
        elif mode == 'extreme':
            bits = {'u8': (0, 255), 'i8': (-128, 127), 'u16': (0, 65535), 'i16': (-32768, 32767)}
            if repr_int in bits:
                v = bits[repr_int][0]
                src = '%s::MIN' % repr_int
            else:
                v = -(2 ** 31) if signed else 0
                src = str(v) if v >= 0 else '-%d' % -v
        else:
            src = str(v) if v >= 0 else '-%d' % -v
        out.append((src, v))
    return out


def gen_item(rng, zeroize_ok=True):
    kind = pick(rng, ['enum'] * 11 + ['struct'] * 7 + ['union'] * 2)
    ident = I(pick(rng, ['A', 'A', 'A', 'Foo', 'r#type', 'r#fn', 'Option', 'isize', '__H']))
    # generics
    tparams = rng.sample(['T', 'U', 'V'], pick(rng, [0, 1, 1, 1, 2, 2, 3]))
    if chance(rng, 0.04) and tparams:
        tparams[0] = pick(rng, ['r#gen', '__T', '__H', 'Self_'])
    lts = ["'a"] if chance(rng, 0.2) else []
    if lts and chance(rng, 0.3):
        lts.append("'b")
    consts = ['N'] if chance(rng, 0.15) else []
    params = []
    for l in lts:
        params.append(Param('lt', l, "'static" if chance(rng, 0.2) else ''))
    seq = [('ty', t) for t in tparams] + [('const', c) for c in consts]
    rng.shuffle(seq)
    for k, n in seq:
        if k == 'ty':
            b = pick(rng, ['', '', '', 'Super', 'Tr + ?Sized', "'static", 'Clone'])
            params.append(Param('ty', n, b, pick(rng, [None, None, None, 'u8'])))
        else:
            params.append(Param('const', n, 'usize', pick(rng, [None, None, '3'])))
    if params:
        params[-1].comma = chance(rng, 0.15)
    preds = []
    if tparams and chance(rng, 0.3):
        for _ in range(rng.randint(1, 2)):
            t = pick(rng, tparams)
            preds.append(pick(rng, ['%s: Super' % t, '%s::Assoc: Copy' % t, 'Vec<%s>: Clone' % t,
                                    'for<\'x> &\'x %s: Tr' % t, '%s: \'static' % t]))
    preds_trailing = bool(preds) and chance(rng, 0.3)

    # traits
    pool = list(STD_TRAITS)
    if zeroize_ok and chance(rng, 0.25):
        pool += ZTRAITS * 3
    if kind == 'union' and chance(rng, 0.85):
        pool = ['Clone', 'Copy']
    ntr = min(len(pool), pick(rng, [1, 1, 2, 2, 3, 3, 4, 5, 6]))
    traits = rng.sample(pool, ntr)
    incomparable_wanted = chance(rng, 0.3)
    if incomparable_wanted and chance(rng, 0.9):
        traits = [t for t in traits if t not in ('Eq', 'Ord')]
        if not any(t in traits for t in ('PartialEq', 'PartialOrd')):
            traits.append(pick(rng, ['PartialEq', 'PartialOrd']))
    derived = set(traits)

    # split traits over attributes
    nattr = min(len(traits), pick(rng, [1, 1, 1, 2, 2, 3]))
    groups = [[] for _ in range(nattr)]
    for i, t in enumerate(traits):
        groups[i % nattr if chance(rng, 0.8) else rng.randrange(nattr)].append(t)
    groups = [g for g in groups if g]
    if chance(rng, 0.03):
        groups.append([pick(rng, traits)])      # duplicate across attributes
    shared_bounds = bound_list(rng, tparams, lts) if chance(rng, 0.3) else 'fresh'
    attrs = []
    for g in groups:
        metas = []
        for t in g:
            if t in ZTRAITS and chance(rng, 0.25):
                root = pick(rng, ['zeroize_', '::zeroize_', 'krate::zeroize', '::zeroize'])
                kindv = pick(rng, ['path', 'path', 'str'])
                metas.append(MList(t, [MNameValue('crate', kindv, PA(root, 1, pick(rng, ['u8', ''])) if chance(rng, 0.08) else P(root))]))
            elif chance(rng, 0.01):
                metas.append(MList(t, [MPathM('foo')]))
            else:
                metas.append(MPathM(t))
        gens = bound_list(rng, tparams, lts) if shared_bounds == 'fresh' else shared_bounds
        attrs.append(Attr('dw', traits_body(metas, gens, chance(rng, 0.1), chance(rng, 0.15))))
    if chance(rng, 0.05):
        attrs.insert(rng.randrange(len(attrs) + 1),
                     Attr('dw', metas_body([MNameValue('crate', pick(rng, ['path', 'str']),
                                                       (lambda r: PA(r, 1, pick(rng, ['u8', ''])) if chance(rng, 0.2) else P(r))(
                                                           pick(rng, ['dw', '::dw::inner', 'derive_where', '::derive_where'])))],
                                           trailing=chance(rng, 0.3))))
    # repr
    repr_int = None
    if kind == 'enum':
        r = rng.random()
        if r < 0.25:
            repr_int = pick(rng, INT_REPRS)
            attrs.insert(rng.randrange(len(attrs) + 1), Attr('repr', repr_=('idents', [I(repr_int)])))
        elif r < 0.32:
            attrs.insert(rng.randrange(len(attrs) + 1), Attr('repr', repr_=('idents', [I('C')])))
        elif r < 0.42:
            repr_int = pick(rng, INT_REPRS)
            ids = [I('C'), I(repr_int)]
            rng.shuffle(ids)
            if chance(rng, 0.35):
                # the same representation spread over two `#[repr]` attributes, in either order
                for i in ids:
                    attrs.insert(rng.randrange(len(attrs) + 1), Attr('repr', repr_=('idents', [i])))
            else:
                attrs.insert(rng.randrange(len(attrs) + 1), Attr('repr', repr_=('idents', ids)))
        elif r < 0.44:
            attrs.insert(0, Attr('repr', repr_=('unparsable', None)))
        elif r < 0.46:
            attrs.insert(0, Attr('repr', repr_=('idents', [I(pick(rng, ['transparent', 'packed', 'r#u8', 'Rust']))])))
    elif chance(rng, 0.1):
        attrs.insert(0, Attr('repr', repr_=('idents', [I(pick(rng, ['C', 'transparent', 'packed']))])))
    if chance(rng, 0.1):
        attrs.insert(rng.randrange(len(attrs) + 1), Attr('other', src=pick(rng, ['#[doc = "x"]', '#[allow(dead_code)]', '#[cfg(all())]'])))

    # variants
    nvar = 1 if kind != 'enum' else pick(rng, [1, 2, 2, 3, 3, 3, 4, 5])
    if kind == 'enum' and chance(rng, 0.02):
        nvar = 0
    vnames = rng.sample(VARIANT_NAMES, nvar)
    discrs = gen_discriminants(rng, nvar, repr_int) if kind == 'enum' else [None]
    skip_groups = [g for g, ts in SKIPPABLE.items() if derived & set(ts)]
    any_skippable = bool(skip_groups)
    variants = []
    default_at = rng.randrange(nvar) if nvar else 0
    item_inc = kind != 'enum' and incomparable_wanted and chance(rng, 0.5)
    for k in range(nvar):
        if kind == 'union':
            shape = 'named'
        elif kind == 'struct':
            shape = pick(rng, ['named', 'named', 'tuple', 'tuple', 'unit'] if item_inc else ['named', 'tuple'])
        else:
            shape = pick(rng, ['named', 'tuple', 'tuple', 'unit', 'unit'])
        nf = 0 if shape == 'unit' else pick(rng, [0, 1, 1, 2, 2, 3])
        if kind != 'enum' and not item_inc and nf == 0 and chance(rng, 0.9):
            nf = 1
        fnames = rng.sample(FIELD_NAMES, nf)
        fields = []
        for i in range(nf):
            name = fnames[i]
            if chance(rng, 0.08):
                name = pick(rng, ODD_FIELD_NAMES)
                if name in [f.member.rust() for f in fields if isinstance(f.member, Ident)]:
                    name = fnames[i]
            member = I(name) if shape == 'named' else i
            bodies = []
            if any_skippable and chance(rng, 0.3):
                if chance(rng, 0.4):
                    bodies.append(metas_body([MPathM('skip')]))
                else:
                    gs = rng.sample(skip_groups, rng.randint(1, len(skip_groups))) if chance(rng, 0.92) \
                        else [pick(rng, list(SKIPPABLE))]
                    bodies.append(metas_body([MList('skip', [MPathM(g) for g in gs], trailing=chance(rng, 0.1))]))
            elif chance(rng, 0.02):
                bodies.append(metas_body([MPathM('skip')]))
            if 'Zeroize' in derived and chance(rng, 0.3):
                bodies.append(metas_body([MList('Zeroize', [MPathM('fqs')])]))
            elif chance(rng, 0.01):
                bodies.append(metas_body([MList('Zeroize', [MPathM('fqs')])]))
            if len(bodies) == 2 and chance(rng, 0.5):
                ms = [bodies[0].elems[0], bodies[1].elems[0]]
                rng.shuffle(ms)             # `skip(..), Zeroize(fqs)` and `Zeroize(fqs), skip(..)` in one attribute
                bodies = [metas_body(ms)]
            elif len(bodies) == 2:
                rng.shuffle(bodies)
            extra = pick(rng, ['', '', '', '', '#[doc = "f"] ', '#[cfg(all())] '])
            fields.append(Field(member, field_type(rng, tparams, lts, consts), bodies, extra))
        vbodies = []
        vmetas = []
        if kind == 'enum':
            if any_skippable and nf > 0 and chance(rng, 0.12):
                if chance(rng, 0.5):
                    vmetas.append(MPathM('skip_inner'))
                else:
                    vmetas.append(MList('skip_inner', [MPathM(g) for g in rng.sample(skip_groups, rng.randint(1, len(skip_groups)))]))
            elif chance(rng, 0.01):
                vmetas.append(MPathM('skip_inner'))
            if 'Default' in derived and (k == default_at if chance(rng, 0.97) else chance(rng, 0.5)):
                vmetas.append(MPathM('default'))
            elif chance(rng, 0.005):
                vmetas.append(MPathM('default'))
            if incomparable_wanted and chance(rng, 0.4):
                vmetas.append(MPathM('incomparable'))
            rng.shuffle(vmetas)
            if vmetas and chance(rng, 0.5):
                vbodies = [metas_body([m]) for m in vmetas]
            elif vmetas:
                vbodies = [metas_body(vmetas, chance(rng, 0.1))]
        name = vnames[k]
        if chance(rng, 0.06):
            name = pick(rng, ODD_VARIANT_NAMES)
            if name in [v.ident.rust() for v in variants]:
                name = vnames[k]
        vid = I(name) if kind == 'enum' else ident
        variants.append(Variant(vid, shape, fields, vbodies, discrs[k],
                                pick(rng, ['', '', '', '#[doc = "v"] '])))
    # item-level options
    if kind != 'enum':
        if any_skippable and chance(rng, 0.1):
            m = MPathM('skip_inner') if chance(rng, 0.5) else \
                MList('skip_inner', [MPathM(g) for g in rng.sample(skip_groups, rng.randint(1, len(skip_groups)))])
            attrs.insert(rng.randrange(len(attrs) + 1), Attr('dw', metas_body([m])))
    elif chance(rng, 0.01):
        attrs.append(Attr('dw', metas_body([MPathM('skip_inner')])))
    if item_inc or (kind == 'enum' and incomparable_wanted and chance(rng, 0.15)):
        attrs.insert(rng.randrange(len(attrs) + 1), Attr('dw', metas_body([MPathM('incomparable')])))
    it = Item(kind, ident, params, preds, preds_trailing, attrs, variants,
                pick(rng, ['', '', 'pub ', 'pub(crate) ']))
    if chance(rng, 0.3):
        it = regroup(rng, it)
    return respell(rng, it)


# ---------------------------------------------------------------- malformed stream

def all_bodies(item):
    """(owner, index, body) for every derive_where attribute body of the item."""
    out = []
    for a in item.attrs:
        if a.kind == 'dw':
            out.append(a.body)
    for v in item.variants:
        out += v.bodies
        for f in v.fields:
            out += f.bodies
    return out


def mutate_body(rng, b):
    """Token-level damage to one attribute body (in place)."""
    if b.notlist is not None:
        return
    r = rng.randrange(10)
    es = b.elems
    if r == 0:
        b.notlist = pick(rng, ['', ' = "x"', ' = 5'])
    elif r == 1 and es:
        es.pop(rng.randrange(len(es)))            # drop a meta or a comma
    elif r == 2:
        es.insert(rng.randrange(len(es) + 1), COMMA)   # doubled / leading comma
    elif r == 3:
        es.insert(rng.randrange(len(es) + 1), JUNK)
    elif r == 4:
        b.elems = []                              # empty list (or `; gens`)
    elif r == 5 and b.gens is not None:
        b.gens.insert(rng.randrange(len(b.gens) + 1), pick(rng, [COMMA, JUNK]))
    elif r == 6 and b.gens is None:
        b.gens = []                               # stray `;`
    elif r == 7 and es:
        i = rng.randrange(len(es))
        if not isinstance(es[i], str):            # path <-> list <-> name-value
            m = es[i]
            p = m.path
            es[i] = pick(rng, [MPathM(p), MList(p, []), MList(p, [MPathM('x')]), MList(p, [], parsable=False),
                               MNameValue(p, 'other'), MNameValue(p, 'strbad'), MNameValue(p, 'path', P('a::b'))])
    elif r == 8 and es:
        i = rng.randrange(len(es))
        if not isinstance(es[i], str):
            m = es[i]
            names = ['skip', 'skip_inner', 'incomparable', 'default', 'crate', 'Zeroize', 'fqs', 'drop',
                     'r#Clone', 'Clone', 'Debug', 'EqHashOrd', 'a::Clone', '::Clone', 'Foo']
            m.path = P(pick(rng, names))
    else:
        if es and not isinstance(es[-1], str) and isinstance(es[-1], MList) and es[-1].inner:
            inner = es[-1].inner
            inner.insert(rng.randrange(len(inner) + 1), pick(rng, [MPathM('Foo'), MNameValue('crate', 'other'),
                                                                    MList('x', []), inner[0]]))


def gen_malformed(rng):
    it = gen_item(rng)
    bodies = all_bodies(it)
    for _ in range(pick(rng, [1, 1, 2])):
        if bodies:
            mutate_body(rng, pick(rng, bodies))
    return it
