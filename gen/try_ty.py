"""Development: run the model's type checker (driver command typeq) on the enumerator pool + random items."""
import sys, collections
sys.path.insert(0, '/verif/gen')
from enumerate_items import all_items
import generate, random
from runner import run_model
cfgs = sys.argv[1].split(',') if len(sys.argv) > 1 else ['default']
items = all_items()
rng = random.Random(7)
try:
    items += [('rand', generate.gen_item(rng)) for _ in range(4000)]
except Exception as e:
    print('no random items:', e)
for cfg in cfgs:
    out = run_model('typeq', cfg, [it.sexp() for _, it in items])
    c = collections.Counter(); shown = 0
    for (n, it), o in zip(items, out):
        if o.startswith('ok'):
            for seg in o.split(' @@ ')[1:]:
                t, v = seg.strip().split(' ')
                c[(t, v)] += 1
                if v != 'well-typed' and shown < 8:
                    shown += 1; print('ILL', cfg, n, t, it.rust()[:300])
        else:
            c[o.split(' ')[0]] += 1
    print(cfg, len(items), sorted(c.items(), key=str))
