"""Failing-input search and B-smoke: run B-compatible items through rustc with
the real macro and compare with the Lean specification."""
import copy

import bharness
import corpus
import engine
import enumerate_items

OPS_OF = {'PartialEq': ['eq'], 'PartialOrd': ['pcmp'], 'Ord': ['cmp'], 'Hash': ['hash'], 'Clone': ['clone'],
          'Debug': ['debug'], 'Default': ['default'], 'Zeroize': ['zeroize'], 'ZeroizeOnDrop': ['drop'], 'Eq': [], 'Copy': ['clone']}


def relevant_ops(prop):
    tr = engine.PROPS[prop]['traits']
    if not tr:
        return None
    ops = set()
    for t in tr:
        ops.update(OPS_OF.get(t, []))
    return ops


def pool(prop, limit, cfg='default'):
    spec = engine.PROPS[prop]
    items = [(n, bharness.b_transform(it)) for n, it in corpus.items() if bharness.compatible(it)]
    allit = [(n, bharness.b_transform(it)) for n, it in enumerate_items.all_items(spec.get('enums')) if bharness.compatible(it)]
    tr = spec['traits']
    if tr:
        allit = [(n, it) for n, it in allit if set(bharness.derived_traits(it)) & set(tr)]
    step = max(1, len(allit) // limit)
    return [(n, it) for n, it in items + allit[::step] if bharness.compatible_cfg(it, cfg)]


def b_config(prop, cfg):
    if cfg in bharness.FEATURES:
        return cfg
    return 'default'


def filter_failures(prop, rep):
    ops = relevant_ops(prop)
    out = []
    for f in rep['failures']:
        if ops is None or f['operation'] in ops or f['operation'] == 'compile':
            out.append(f)
    for idx, ce in rep['compile_errors'].items():
        out.append(dict(name=ce['name'], source=ce['source'], config=rep['config'], operation='compile',
                        operands=[], expected=['compiles (the macro accepts the item and the field types support the traits)'],
                        observed=ce['errors'], spec='accepted', _item=ce.get('_item'), _harness=ce.get('_harness')))
    return out


def accepted(cfg, its, tag):
    """Keep the items the real macro accepts in this configuration."""
    import runner
    if not its:
        return []
    hook, log = runner.run_hook(cfg, ['2 ' + it.rust() for it in its], tag=tag)
    if hook is None:
        raise RuntimeError('hook run failed: ' + log[-300:])
    return [it for it, h in zip(its, hook) if h.startswith('ok')]


def ready_items(prop, cfg, n, seed):
    """n random compile-ready items (gen/bgen.py) accepted by the macro; for C06/C17 also negative probes
    (a non-skipped non-`Eq` field under a derived `Eq`: rustc must reject)."""
    import random
    import bgen
    rng = random.Random(seed)
    zero = cfg in ('zeroize', 'zod', 'safe-zod')
    tr = engine.PROPS[prop]['traits']
    its = [it for it in bgen.items(rng, 2 * n, zero=zero, focus=(tr or None)) if bharness.compatible_cfg(it, cfg)]
    if tr:
        its = [it for it in its if set(bharness.derived_traits(it)) & set(tr)]
    out = [('ready', bharness.b_transform(it)) for it in accepted(cfg, its, '-%s-ready' % prop)[:n]]
    if prop in ('C06', 'C17'):
        neg = accepted(cfg, bgen.negatives(rng, 24), '-%s-neg' % prop)[:8]
        out += [('negative', bharness.b_transform(it)) for it in neg]
    return out


PROBE_PROPS = ('C01', 'C02', 'C09', 'C17')


def probe_smoke(prop, cfg, n, seed):
    """Impl-presence probes (gen/pharness.py) on n random probe items."""
    import pharness
    return pharness.run(cfg, pharness.items(cfg, n, seed, '-%s-probe' % prop))


def probe_directed(prop, cfg, notes, n=3000, cap=60):
    """Probe items on which hook and model expand differently for this property."""
    import random
    import pharness
    import runner
    rng = random.Random(20260930)
    its = [pharness.gen(rng) for _ in range(n)]
    hook, log = runner.run_hook(cfg, ['2 ' + it.rust() for it in its], tag='-%s-pdirected' % prop)
    if hook is None:
        return None
    model = runner.run_model('expand', cfg, [it.sexp() for it in its])
    dis = [it for it, h, m in zip(its, hook, model) if h.startswith('ok') and engine.compare(prop, it, h, m) is not None]
    notes.append('directed probe search: %d of %d probe items expand differently in %s' % (len(dis), len(its), cfg))
    if not dis:
        return None
    dis.sort(key=lambda it: len(it.rust()))
    return pharness.run(cfg, [('probe-directed', it) for it in dis[:cap]])


def miri_smoke(prop, cfg, n, seed):
    """Thorough tier of C12: a sample of the pool and of the compile-ready random items under Miri."""
    cfg = b_config(prop, cfg)
    items = pool(prop, n, cfg)[:n] + ready_items(prop, cfg, n, seed)
    items = [(nm, it) for nm, it in items if not getattr(it, 'expect_error', None)]
    return bharness.miri(cfg, items)


def kf_from(it):
    """Known finding KF-from: `<*const _>::from(self)` (tag read of repr(int) enums) needs `From` from the prelude."""
    tr = set(bharness.derived_traits(it))
    ids = [i.rust() for a in it.attrs if a.kind == 'repr' and a.repr_[0] == 'idents' for i in a.repr_[1]]
    return bool(tr & {'PartialOrd', 'Ord'}) and any(i != 'C' for i in ids)


def nip_run(cfg, items):
    """The same items inside a `#[no_implicit_prelude]` module (second hostile scope of C14)."""
    its = [(n, it) for n, it in items if not kf_from(it) and not getattr(it, 'expect_error', None)]
    rep = bharness.run_b(cfg, its, hostile='nip')
    for f in rep['failures']:
        f['scope'] = '#[no_implicit_prelude] module'
    for ce in rep['compile_errors'].values():
        ce['source'] = '#[no_implicit_prelude] mod { ' + ce['source'] + ' }'
    return rep


def smoke(prop, cfg, limit=60, seed=20260929):
    """B on a sample of the property's pool plus random compile-ready items. Returns (report, relevant failures)."""
    items = pool(prop, limit, b_config(prop, cfg)) + ready_items(prop, b_config(prop, cfg), max(20, limit // 2), seed)
    rep = bharness.run_b(b_config(prop, cfg), items, hostile=(prop == 'C14'))
    fails = filter_failures(prop, rep)
    if prop == 'C14':
        rep2 = nip_run(b_config(prop, cfg), items)
        rep['queries'] += rep2['queries']
        rep['no_implicit_prelude'] = dict(items=rep2['items'], queries=rep2['queries'])
        fails += filter_failures(prop, rep2)
    if prop in ('C02', 'C14'):
        # the same items written by a `macro_rules!` with the field types as its arguments (macro hygiene of locals)
        its = [(n, it) for n, it in items if not getattr(it, 'expect_error', None)]
        rep3 = bharness.run_b(b_config(prop, cfg), its, hostile='mrules')
        for f in rep3['failures']:
            f['scope'] = 'item written by a macro_rules! whose arguments are the field types'
        for ce in rep3['compile_errors'].values():
            ce['source'] = 'macro_rules! m { ($f0:ty, ..) => { ' + ce['source'] + ' } }  // field types passed as arguments'
        rep['queries'] += rep3['queries']
        rep['macro_rules'] = dict(items=rep3['items'], queries=rep3['queries'])
        fails += filter_failures(prop, rep3)
    return rep, fails, rep['model_failures']


def directed(prop, cfg, notes, n=6000, cap=150):
    """Directed search: expand thousands of compile-ready random items (gen/bgen.py) with the real macro (hook) and the
    model; the ones on which the two differ for this property are compile-ready inputs on which the code no longer does
    what the model does. Returns [(name, transformed item)]."""
    import random
    import bgen
    import runner
    rng = random.Random(20260929)
    zero = cfg in ('zeroize', 'zod', 'safe-zod')
    tr = engine.PROPS[prop]['traits']
    its = bgen.items(rng, n, zero=zero, focus=(tr or None))
    its = [it for it in its if bharness.compatible_cfg(it, cfg)]
    if prop in ('C06', 'C17'):
        its += bgen.negatives(rng, 400)
    hook, log = runner.run_hook(cfg, ['2 ' + it.rust() for it in its], tag='-%s-directed' % prop)
    if hook is None:
        notes.append('directed search: hook run failed')
        return []
    model = runner.run_model('expand', cfg, [it.sexp() for it in its])
    out = []
    for it, h, m in zip(its, hook, model):
        if engine.compare(prop, it, h, m) is not None and (h.startswith('ok') or not getattr(it, 'expect_error', None)):
            out.append(it)
    notes.append('directed search: %d of %d compile-ready random items expand differently in %s' % (len(out), len(its), cfg))
    out.sort(key=lambda it: len(it.rust()))
    # smallest first, but keep some spread
    neg = [it for it in out if getattr(it, 'expect_error', None)]
    neg.sort(key=lambda it: ('Wr<' not in it.rust(), len(it.rust())))
    out = [it for it in out if not getattr(it, 'expect_error', None)]
    inh = [it for it in out if 'Inh' in it.rust()][:30]     # inherent-method field types: where fqs vs method call is observable
    pickd = neg[:24] + inh + out[:cap // 2] + out[cap // 2::max(1, (len(out) - cap // 2) // (cap // 2) or 1)][:cap // 2]
    return [('directed', bharness.b_transform(it)) for it in pickd]


def search(prop, disagreements, notes):
    """Given A-disagreements (dicts with 'item' objects), look for an input on
    which the real expansion behaves differently from the specification."""
    cfg = b_config(prop, disagreements[0]['config'].split(' ')[0])
    items, seen = [], set()
    loose = set()
    for d in disagreements:
        it = d.get('item')
        if it is None or it.rust() in seen or len(items) >= 80:
            continue
        if bharness.compatible(it):
            seen.add(it.rust())
            items.append(('disagreeing:' + d['stream'], bharness.b_transform(it)))
        elif bharness.compatible(it, strict=False):
            # possibly ill-posed on the user's side: a compile error proves nothing, other observations do
            seen.add(it.rust())
            loose.add(len(items))
            items.append(('disagreeing-loose:' + d['stream'], bharness.b_transform(it)))
    try:
        items += directed(prop, cfg, notes)
    except Exception as e:
        notes.append('directed search error: %r' % (e,))
    if engine.PROPS[prop]['traits'] != []:
        items += pool(prop, 150, cfg)
    fails = []
    if not items:
        notes.append('failing-input search: no disagreeing item is executable by correspondence B')
    else:
        rep = bharness.run_b(cfg, items, hostile=(prop == 'C14'))
        for idx in list(rep['compile_errors']):
            if idx in loose:
                del rep['compile_errors'][idx]
        fails = filter_failures(prop, rep)
        if prop == 'C14' and not fails:
            fails = filter_failures(prop, nip_run(cfg, items))
        notes.append('failing-input search: %d items, %d queries in %s, %d relevant failures' %
                     (rep['items'], rep['queries'], cfg, len(fails)))
    if not fails and engine.PROPS[prop].get('diagnostics'):
        try:
            import eharness
            named = eharness.directed(prop, cfg)
            notes.append('directed diagnostics search: %d compile-ready items validate differently in %s' % (len(named), cfg))
            if named:
                crep = eharness.run(prop, cfg, 0, named=named)
                fails = crep['failures']
        except Exception as e:
            notes.append('directed diagnostics search error: %r' % (e,))
    if not fails and prop in PROBE_PROPS:
        try:
            prep = probe_directed(prop, cfg, notes)
            if prep:
                fails = prep['failures']
                notes.append('directed probe search: %d probes, %d failures' % (prep['queries'], len(fails)))
        except Exception as e:
            notes.append('directed probe search error: %r' % (e,))
    if not fails:
        return None
    fails.sort(key=lambda f: len(f['source']))
    f = fails[0]
    return dict(item_source=f['source'], config=f['config'], operation=f['operation'], operands=f['operands'],
                expected_by_specification=f['expected'], observed_with_real_macro=f['observed'],
                scope=('hostile module: local `core`/`std` modules, local Option/Some/None/Ordering/Result/.. types, local '
                       'matches!/unreachable! macros and a blanket trait with `&self` methods finish/finish_non_exhaustive/'
                       'field/eq/partial_cmp/cmp/hash/clone/fmt (gen/bharness.py: HOSTILE)') if prop == 'C14' else 'plain module',
                how_to_replay='put the item into a crate depending on /repo with the listed features and run the operation on the operands '
                              '(operand encoding variant:field values; 99 is the NaN-like probe value)',
                other_failures=len(fails) - 1, _item=f.get('_item'), _harness=f.get('_harness'))
