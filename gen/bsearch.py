"""Failing-input search and B-smoke: run B-compatible items through rustc with
the real macro and compare with the Lean specification."""
import copy

import bharness
import corpus
import engine
import enumerate_items

OPS_OF = {'PartialEq': ['eq'], 'PartialOrd': ['pcmp'], 'Ord': ['cmp'], 'Hash': ['hash'], 'Clone': ['clone'],
          'Debug': ['debug'], 'Default': ['default'], 'Zeroize': ['zeroize'], 'ZeroizeOnDrop': ['drop'], 'Eq': [], 'Copy': ['clone']}


def relevant_ops(prop):
    tr = engine.PROPS[prop]['traits']
    if not tr:
        return None
    ops = set()
    for t in tr:
        ops.update(OPS_OF.get(t, []))
    return ops


def pool(prop, limit):
    spec = engine.PROPS[prop]
    items = [(n, bharness.b_transform(it)) for n, it in corpus.items() if bharness.compatible(it)]
    allit = [(n, bharness.b_transform(it)) for n, it in enumerate_items.all_items(spec.get('enums')) if bharness.compatible(it)]
    tr = spec['traits']
    if tr:
        allit = [(n, it) for n, it in allit if set(bharness.derived_traits(it)) & set(tr)]
    step = max(1, len(allit) // limit)
    return items + allit[::step]


def b_config(prop, cfg):
    if cfg in bharness.FEATURES:
        return cfg
    return 'default'


def filter_failures(prop, rep):
    ops = relevant_ops(prop)
    out = []
    for f in rep['failures']:
        if ops is None or f['operation'] in ops or f['operation'] == 'compile':
            out.append(f)
    for idx, ce in rep['compile_errors'].items():
        out.append(dict(name=ce['name'], source=ce['source'], config=rep['config'], operation='compile',
                        operands=[], expected=['compiles (the macro accepts the item and the field types support the traits)'],
                        observed=ce['errors'], spec='accepted'))
    return out


def smoke(prop, cfg, limit=60):
    """B on a sample of the property's pool. Returns (report, relevant failures)."""
    items = pool(prop, limit)
    rep = bharness.run_b(b_config(prop, cfg), items, hostile=(prop == 'C14'))
    return rep, filter_failures(prop, rep), rep['model_failures']


def search(prop, disagreements, notes):
    """Given A-disagreements (dicts with 'item' objects), look for an input on
    which the real expansion behaves differently from the specification."""
    cfg = b_config(prop, disagreements[0]['config'].split(' ')[0])
    items, seen = [], set()
    loose = set()
    for d in disagreements:
        it = d.get('item')
        if it is None or it.rust() in seen or len(items) >= 80:
            continue
        if bharness.compatible(it):
            seen.add(it.rust())
            items.append(('disagreeing:' + d['stream'], bharness.b_transform(it)))
        elif bharness.compatible(it, strict=False):
            # possibly ill-posed on the user's side: a compile error proves nothing, other observations do
            seen.add(it.rust())
            loose.add(len(items))
            items.append(('disagreeing-loose:' + d['stream'], bharness.b_transform(it)))
    if engine.PROPS[prop]['traits'] != []:
        items += pool(prop, 300)
    if not items:
        notes.append('failing-input search: no disagreeing item is executable by correspondence B')
        return None
    rep = bharness.run_b(cfg, items, hostile=(prop == 'C14'))
    for idx in list(rep['compile_errors']):
        if idx in loose:
            del rep['compile_errors'][idx]
    fails = filter_failures(prop, rep)
    notes.append('failing-input search: %d items, %d queries in %s, %d relevant failures' %
                 (rep['items'], rep['queries'], cfg, len(fails)))
    if not fails:
        return None
    fails.sort(key=lambda f: len(f['source']))
    f = fails[0]
    return dict(item_source=f['source'], config=f['config'], operation=f['operation'], operands=f['operands'],
                expected_by_specification=f['expected'], observed_with_real_macro=f['observed'],
                scope=('hostile module: local `core`/`std` modules, local Option/Some/None/Ordering/Result/.. types, local '
                       'matches!/unreachable! macros and a blanket trait with `&self` methods finish/finish_non_exhaustive/'
                       'field/eq/partial_cmp/cmp/hash/clone/fmt (gen/bharness.py: HOSTILE)') if prop == 'C14' else 'plain module',
                how_to_replay='put the item into a crate depending on /repo with the listed features and run the operation on the operands '
                              '(operand encoding variant:field values; 99 is the NaN-like probe value)',
                other_failures=len(fails) - 1)
