"""Known-findings probe.

/verif/known_findings.json lists genuine defects of the unchanged tree that are
recorded rather than repaired.  Each `known` entry names ONE specific input
(`probe`: item source, module scope, feature configuration) and the rustc
error code(s) that constitute the failure.  This module compiles those inputs
with the real macro from /repo's working tree and classifies each:

  reproduced   the expected error code is reported for the probe's module
               -> the check prints `KNOWN-FINDING: property=<id> ...` (exit 0)
  gone         the probe compiles -> nothing is printed (the entry suppresses nothing)
  different    the probe fails with other error codes only -> a violation that the
               file does not list (reported with the probe as replay)

The file is never written at run time."""
import json
import os
import shutil
import subprocess

import runner

VERIF = runner.VERIF

CARGO = '''[package]
name = "kfprobe"
version = "0.0.0"
edition = "2021"

[dependencies]
derive-where = { path = "%s", features = [%s] }
%s

[workspace]
'''

FEATURES = {'default': [], 'safe': ['safe'], 'nightly': ['nightly'], 'zeroize': ['zeroize'],
            'zod': ['zeroize-on-drop'], 'safe-zod': ['safe', 'zeroize-on-drop']}


def load():
    p = os.path.join(VERIF, 'known_findings.json')
    if not os.path.exists(p):
        return []
    return json.load(open(p)).get('findings', [])


def for_property(prop):
    return [k for k in load() if k.get('status') == 'known' and (k.get('property') == prop or prop in k.get('also', []))]


def module_src(i, probe):
    return '%s mod kf%d {\n%s\n%s\n}\n' % (probe.get('module_attr', ''), i, probe.get('prelude', ''), probe['item'])


def run(prop):
    """Returns a list of dicts (finding, config, status, errors)."""
    kfs = [k for k in for_property(prop) if k.get('probe')]
    results = []
    by_cfg = {}
    for k in kfs:
        for cfg in k['probe'].get('configs', ['default']):
            by_cfg.setdefault(cfg, []).append(k)
    for cfg, ks in by_cfg.items():
        d = os.path.join(runner.WORK, 'kfprobe-%s-%s' % (prop, cfg))
        os.makedirs(os.path.join(d, 'src'), exist_ok=True)
        z = cfg in ('zeroize', 'zod', 'safe-zod')
        with open(os.path.join(d, 'Cargo.toml'), 'w') as f:
            f.write(CARGO % (runner.REPO, ', '.join('"%s"' % x for x in FEATURES[cfg]), 'zeroize = "1"' if z else ''))
        shutil.copy(runner.REPO + '/Cargo.lock', os.path.join(d, 'Cargo.lock'))
        src = ['#![allow(warnings)]']
        ranges = []
        line = 2
        for i, k in enumerate(ks):
            m = module_src(i, k['probe'])
            ranges.append((line, line + m.count('\n')))
            src.append(m.rstrip('\n'))
            line += m.count('\n')
        src.append('fn main() {}')
        with open(os.path.join(d, 'src', 'main.rs'), 'w') as f:
            f.write('\n'.join(src) + '\n')
        env = dict(os.environ)
        env.update(CARGO_TARGET_DIR=os.path.join(runner.TARGET, 'exec-' + cfg), CARGO_NET_OFFLINE='true')
        args = ['cargo'] + (['+nightly'] if cfg == 'nightly' else []) + ['build', '--offline', '--message-format=json', '-q']
        p = subprocess.run(args, cwd=d, env=env, stdout=subprocess.PIPE, stderr=subprocess.PIPE, text=True)
        per = {i: [] for i in range(len(ks))}
        unattributed = []
        for l in p.stdout.split('\n'):
            if not l.startswith('{'):
                continue
            try:
                m = json.loads(l)
            except ValueError:
                continue
            if m.get('reason') != 'compiler-message' or m['message'].get('level') != 'error':
                continue
            code = (m['message'].get('code') or {}).get('code') or ''
            text = (code + ' ' + m['message']['message']).strip()
            ln = None
            for s in m['message'].get('spans') or []:
                if s.get('is_primary') and s.get('file_name', '').endswith('main.rs'):
                    ln = s['line_start']
            hit = None
            if ln is not None:
                for i, (a, b) in enumerate(ranges):
                    if a <= ln < b:
                        hit = i
            if hit is None:
                if not text.startswith('aborting due to'):
                    unattributed.append(text)
            else:
                per[hit].append(text)
        if p.returncode != 0 and not any(per.values()):
            raise RuntimeError('known-findings probe crate failed without attributable errors in %s: %s %s'
                               % (cfg, unattributed[:3], p.stderr[-800:]))
        for i, k in enumerate(ks):
            errs = per[i]
            want = k['probe'].get('expect_codes', [])
            want_text = k['probe'].get('expect_text', [])       # for errors that carry no code
            if not errs:
                status = 'gone'
            elif any(e.split(' ')[0] in want for e in errs) or any(t in e for t in want_text for e in errs):
                status = 'reproduced'
            else:
                status = 'different'
            results.append(dict(finding=k, config=cfg, status=status, errors=errs[:4], source=module_src(i, k['probe'])))
    return results
