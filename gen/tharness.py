"""Correspondence T: the model's static type checker (lean/DW/Typing.lean) vs rustc.

`C02_well_typed` proves that every generated method is well-typed *in the model's type system*.  That system is a model
of rustc's; this harness compares the two on more programs than the macro generates: for compile-ready items the driver
(`typemut`) prints the model's impls and, for every method, mutants perturbed at one node (another field, another trait
function, a missing `&`, a dropped argument, swapped branches, another pattern ..), each with the model's verdict.  The
item WITHOUT its derive_where attributes plus each impl is compiled by rustc (`cargo check`, no macro involved).

Failure (the typing rules would be unsound, so `C02_well_typed` would not transfer to rustc):
    the model says well-typed (which includes: every `match` is exhaustive), rustc reports a typing or
    exhaustiveness error (E0308, E0061, E0599, E0425, E0023, E0063, E0004, ...).
Not failures, counted in the report:
    * rustc errors outside typing: borrow checking (E05xx),
      trait obligations (E0277: `DW/Syntactic4.lean`), const-evaluation (E0080), unused/unreachable lints;
    * the model is stricter than rustc (two fields of the same Rust type are different types for the model; `&&T` where
      auto-referenced impls exist): `model ill-typed, rustc accepts`.
The unmutated impls must compile (this is correspondence B's claim as well, here without the macro in the loop)."""
import copy
import json
import os
import random
import re
import shutil
import subprocess
import sys

sys.path.insert(0, os.path.dirname(os.path.abspath(__file__)))
import bgen      # noqa: E402
import bharness  # noqa: E402
import runner    # noqa: E402

EXEC = os.path.join(runner.VERIF, 'exec')
ZCFGS = ('zeroize', 'zod', 'safe-zod')

# rustc error codes that are about types, names, arity and patterns: what DW/Typing.lean models
TYPING = {'E0004', 'E0005', 'E0782', 'E0308', 'E0061', 'E0599', 'E0614', 'E0605', 'E0606', 'E0604', 'E0600', 'E0369', 'E0023', 'E0026', 'E0027',
          'E0063', 'E0560', 'E0559', 'E0532', 'E0164', 'E0425', 'E0433', 'E0412', 'E0282', 'E0283', 'E0107', 'E0609',
          'E0610', 'E0618', 'E0070', 'E0067', 'E0029', 'E0054', 'E0529', 'E0530', 'E0533', 'E0053', 'E0050', 'E0186',
          'E0185', 'E0407', 'E0046', 'E0069', 'E0317', 'E0608', 'E0040', 'E0423', 'E0424', 'E0434', 'E0435', 'E0620',
          'E0607', 'E0117', 'E0200', 'E0614', 'E0616', 'E0615', 'E0571', 'E0572', 'E0600'}
# outside typing: borrow checking / moves, trait obligations, const evaluation, unsafety, coherence of Copy
OUTSIDE = {'E0382', 'E0499', 'E0502', 'E0505', 'E0506', 'E0507', 'E0508', 'E0509', 'E0596', 'E0597',
           'E0716', 'E0133', 'E0277', 'E0080', 'E0015', 'E0204', 'E0184', 'E0119', 'E0658', 'E0001', 'E0170', 'E0381',
           'E0384', 'E0503', 'E0594', 'E0713', 'E0732', 'E0081', 'E0275'}


def plain(item):
    """The item without any derive_where attribute (item, variants, fields)."""
    it = copy.deepcopy(item)
    it.attrs = [a for a in it.attrs if a.kind in ('repr', 'other')]
    for v in it.variants:
        v.bodies = []
        for f in v.fields:
            f.bodies = []
    return it


def join_toks(s):
    """The driver prints one token per word with punctuation split into characters; glue the multi-character operators
    the expansion contains back together."""
    s = ' ' + s + ' '
    s = re.sub(r': : :(?! :)', ': ::', s)          # `T: ::core..`
    s = s.replace(' : : ', ' :: ').replace(' - > ', ' -> ').replace(' = > ', ' => ').replace(' = = ', ' == ')
    s = s.replace(' & & ', ' && ').replace(' | | ', ' || ').replace(' . . ', ' .. ')
    s = re.sub(r"' (\w+)", r"'\1", s)          # lifetimes
    return s.strip()


def eligible(item, cfg):
    if not bharness.compatible(item) or not bharness.compatible_cfg(item, cfg):
        return False
    src = item.rust()
    if getattr(item, 'expect_error', None):
        return False
    if re.search(r'Zeroize(OnDrop)?\s*\(\s*crate\s*=\s*"?(?![\s"])(?!(::)?zeroize_?\b|krate::zeroize\b)', src):
        return False          # a zeroize crate path that names nothing in the harness crate (E0433 is not about typing)
    return cfg in ZCFGS or 'Zeroize' not in src


def run_t(cfg, named_items, seed, mutants=6):
    """Returns a report dict (failures, counters)."""
    rep = dict(config=cfg, items=0, impls=0, mutants=0, failures=[], agree_accept=0, agree_reject=0, model_stricter=0,
               outside_typing=0, originals_rejected=0, by_kind={}, rustc_codes={}, stricter_examples=[])
    named_items = [(n, bharness.b_transform(it)) for n, it in named_items if eligible(it, cfg)]
    if not named_items:
        return rep
    _, bits = runner.CONFIGS[cfg]
    data = ''.join('typemut %s %s ## %d %d\n' % (bits, it.sexp(), seed + i, mutants) for i, (_, it) in enumerate(named_items))
    p = subprocess.run([runner.DRIVER], input=data, stdout=subprocess.PIPE, text=True)
    lines = p.stdout.split('\n')
    mods, meta = [], []
    for (name, it), line in zip(named_items, lines):
        if not line.startswith('ok'):
            continue
        rep['items'] += 1
        body = plain(it).rust()
        segs = [seg.split(' ', 3) for seg in line.split(' @@ ')[1:]]
        # the unmutated impls of the item: every module holds all of them (supertraits, sibling impls the bodies
        # delegate to), with the one under test replaced by the mutant
        origs = [(k, join_toks(toks)) for k, (trait, tag, verdict, toks) in enumerate(segs) if tag == 'orig']
        cur = None
        for k, (trait, tag, verdict, toks) in enumerate(segs):
            if tag == 'orig':
                cur = k
            others = ' '.join(t for kk, t in origs if kk != cur)
            idx = len(mods)
            mods.append('pub mod t%d { use super::prelude::*; %s %s %s }' % (idx, body, others, join_toks(toks)))
            meta.append(dict(name=name, item=it, trait=trait, tag=tag, verdict=verdict, tokens=join_toks(toks)))
            if tag == 'orig':
                rep['impls'] += 1
            else:
                rep['mutants'] += 1
    if not mods:
        return rep
    d = os.path.join(runner.WORK, 'typing-' + cfg)
    os.makedirs(os.path.join(d, 'src'), exist_ok=True)
    with open(os.path.join(d, 'Cargo.toml'), 'w') as f:
        if cfg in ZCFGS:
            # the zeroize crate is needed for the paths of the Zeroize / ZeroizeOnDrop impls; the (unused) path dependency
            # on derive-where keeps /repo's Cargo.lock usable offline
            f.write(bharness.CARGO.replace('name = "dwexec"', 'name = "dwtyping"') %
                    (runner.REPO, ', '.join('"%s"' % x for x in bharness.FEATURES[cfg]), 'zeroize = "1"'))
            shutil.copy(runner.REPO + '/Cargo.lock', os.path.join(d, 'Cargo.lock'))
        else:
            f.write('[package]\nname = "dwtyping"\nversion = "0.0.0"\nedition = "2021"\n\n[features]\nz = []\n\n[workspace]\n')
    shutil.copy(os.path.join(EXEC, 'prelude.rs'), os.path.join(d, 'src', 'prelude.rs'))
    active = set(range(len(mods)))
    errs = {}
    for _round in range(3):
        order = sorted(active)
        with open(os.path.join(d, 'src', 'lib.rs'), 'w') as f:
            head = '#![feature(core_intrinsics)] #![allow(internal_features)] ' if cfg == 'nightly' else ''
            f.write(head + '#![allow(warnings)]\nmod prelude;\n' + '\n'.join(mods[i] for i in order) + '\n')
        zf = ['--features', 'z'] if cfg in ZCFGS else []
        env = dict(os.environ, CARGO_TARGET_DIR=os.path.join(runner.TARGET, 'typing-' + cfg), CARGO_NET_OFFLINE='true')
        q = subprocess.run(['cargo'] + (['+nightly'] if cfg == 'nightly' else []) + ['check', '--offline', '--message-format=json', '-q'] + zf, cwd=d, env=env,
                           stdout=subprocess.PIPE, stderr=subprocess.PIPE, text=True)
        found = False
        unattributed = []
        for line in q.stdout.split('\n'):
            if not line.startswith('{'):
                continue
            try:
                m = json.loads(line)
            except ValueError:
                continue
            if m.get('reason') != 'compiler-message' or m['message'].get('level') != 'error':
                continue
            code = (m['message'].get('code') or {}).get('code') or ''
            ln = None
            for s in m['message'].get('spans') or []:
                if s.get('is_primary') and s.get('file_name', '').endswith('lib.rs'):
                    ln = s['line_start']
            if ln is None or not (3 <= ln < 3 + len(order)):
                if 'aborting due to' not in m['message']['message']:
                    unattributed.append('%s %s' % (code, m['message']['message'][:160]))
                continue
            errs.setdefault(order[ln - 3], []).append((code, m['message']['message'][:200]))
            found = True
        if q.returncode == 0:
            break
        if not found:
            raise RuntimeError('T crate does not build and errors cannot be attributed: %s %s' % (unattributed[:3], q.stderr[-800:]))
        # rustc stops after the first failing phase: remove the modules with errors and look at the rest again
        active -= set(errs)
    for i, m in enumerate(meta):
        e = errs.get(i, [])
        codes = sorted({c for c, _ in e})
        for c in codes:
            rep['rustc_codes'][c] = rep['rustc_codes'].get(c, 0) + 1
        # a method call on a field type that lacks the trait is reported as E0599 "... its trait bounds were not
        # satisfied": a trait obligation (DW/Syntactic4.lean), not a typing error
        e_t = [x for x in e if not (x[0] == 'E0599' and 'trait bounds were not satisfied' in x[1])]
        typing_err = [x for x in e_t if x[0] in TYPING or (x[0] not in OUTSIDE)]
        kind = m['tag']
        bk = rep['by_kind'].setdefault(kind, dict(n=0, model_ok=0, rustc_ok=0))
        bk['n'] += 1
        bk['model_ok'] += m['verdict'] == 'well-typed'
        bk['rustc_ok'] += not e
        if m['verdict'] == 'well-typed':
            if not e:
                rep['agree_accept'] += 1
            elif typing_err:
                rep['failures'].append(dict(name=m['name'], source=m['item'].rust(), config=cfg,
                                            operation='rustc type check of a %s body the model types (%s)' % (m['trait'], 'the generated one' if kind == 'orig' else 'mutant ' + kind),
                                            expected=['well-typed in DW/Typing.lean'], observed=[list(x) for x in typing_err[:3]],
                                            impl=m['tokens'][:1500], _item=m['item'], _harness='T'))
            else:
                rep['outside_typing'] += 1
            if kind == 'orig' and e:
                rep['originals_rejected'] += 1
                if len(rep.setdefault('rejected_originals', [])) < 6:
                    rep['rejected_originals'].append(dict(item=m['item'].rust()[:400], trait=m['trait'], errors=[list(x) for x in e[:3]]))
        else:
            if e:
                rep['agree_reject'] += 1
            else:
                rep['model_stricter'] += 1
                if len(rep['stricter_examples']) < 5:
                    rep['stricter_examples'].append(dict(item=m['item'].rust()[:300], kind=kind, impl=m['tokens'][:600]))
    return rep


def smoke(cfg, seed, n_items=40, mutants=6, pool=None):
    rng = random.Random(seed * 7919 + 13)
    named = [('rand', it) for it in bgen.items(rng, n_items, zero=cfg in ZCFGS)]
    if pool:
        pool = list(pool)
        rng.shuffle(pool)
        named += pool[:n_items]
    return run_t(cfg, named, seed, mutants)


if __name__ == '__main__':
    cfgs = sys.argv[1].split(',') if len(sys.argv) > 1 else ['default']
    n = int(sys.argv[2]) if len(sys.argv) > 2 else 40
    for cfg in cfgs:
        r = smoke(cfg, int(os.environ.get('VERIF_SEED', '1')), n)
        fails = r.pop('failures')
        print(json.dumps({k: v for k, v in r.items() if k != 'stricter_examples'}, indent=1))
        for ex in r['stricter_examples'][:3]:
            print('STRICTER', ex['kind'], ex['item'][:200], '\n    ', ex['impl'][:400])
        for f in fails[:8]:
            print('FAIL', f['operation'], f['observed'], '\n   ', f['source'][:300], '\n   ', f['impl'][:900])
        print(cfg, 'failures', len(fails))
