"""Translator for the finite tables of the macro: on every run the tables are
*extracted from /repo's current source* and written as Lean definitions next to
theorems stating that they equal the hand-written model's tables; the Lean
kernel (`decide`) checks the equalities over the whole (finite) domain.

  src/attr/skip.rs   SkipGroup::traits, SkipGroup::trait_supported, SkipGroup::from_path   (C05 C06 C15)
  src/trait_.rs      Trait::from_path                                                     (C15)
  src/item.rs        Representation::parse, Representation::to_token                      (C04 C12)
  src/error.rs       the literal message of every `Error::*` constructor                  (C15 C16)
  src/**/*.rs        the bare words of every `quote!`/`parse_quote!` template and `format_ident!` prefix, and the
                     leading `::` of `util::path_from_strs`                                (C14: `srcWords_closed`)

A table the code no longer has in the recognised shape, or whose content
differs from the model's, is a broken proof obligation of the property."""
import os
import re
import subprocess

import runner

TRAITS = {'Clone': 'clone', 'Copy': 'copy', 'Debug': 'debug', 'Default': 'default', 'Eq': 'eq', 'Hash': 'hash', 'Ord': 'ord',
          'PartialEq': 'partialEq', 'PartialOrd': 'partialOrd', 'Zeroize': 'zeroize', 'ZeroizeOnDrop': 'zeroizeOnDrop'}
GROUPS = {'Debug': 'debug', 'EqHashOrd': 'eqHashOrd', 'Hash': 'hash', 'Zeroize': 'zeroize'}
INTS = {'U8': 'u8', 'U16': 'u16', 'U32': 'u32', 'U64': 'u64', 'U128': 'u128', 'USize': 'usize',
        'I8': 'i8', 'I16': 'i16', 'I32': 'i32', 'I64': 'i64', 'I128': 'i128', 'ISize': 'isize'}
# error.rs constructor -> (Lean `Err` term, Lean function of the configuration giving the message)
ERRS = {'visited': '.visited', 'crate_': '.crate_', 'none': '.none', 'empty': '.empty', 'use_case': '.useCase',
        'item_empty': '.itemEmpty', 'union': '.union', 'option': '.option', 'option_syntax': '.optionSyntax',
        'option_empty': '.optionEmpty', 'option_enum_skip_inner': '.optionEnumSkipInner', 'option_skip_inner': '.optionSkipInner',
        'option_skip_empty': '.optionSkipEmpty', 'option_skip_all': '.optionSkipAll', 'option_skip_no_trait': '.optionSkipNoTrait',
        'option_skip_trait': '.optionSkipTrait', 'generic': '.generic', 'trait_duplicate': '.traitDuplicate',
        'repr_unknown': '.reprUnknown', 'repr_discriminant_invalid': '.reprDiscriminantInvalid', 'default': '.default',
        'default_missing': '.defaultMissing', 'default_duplicate': '.defaultDuplicate', 'incomparable': '.incomparable',
        'non_partial_incomparable': '.nonPartialIncomparable', 'incomparable_on_item_and_variant': '.incomparableOnItemAndVariant',
        'zeroize': '.zeroize', 'deprecated_zeroize_drop': '.deprecatedZeroizeDrop'}


# optional groups: extracted independently; a group the source no longer has in the recognised shape claims nothing
PATH_THEOREMS = ['traitPath_eq', 'supportsUnion_eq']
WORD_THEOREMS = ['srcWords_closed', 'srcTemps_prefixed', 'pathFromStrs_rooted']
UNSAFE_THEOREMS = ['unsafeTemplates_guarded']
PANIC_THEOREMS = ['panicSites_known']
CFG_THEOREMS = ['cfgSites_known']
SPAN_THEOREMS = ['spanSites_known']

THEOREMS = ['groupTraits_eq', 'groups_complete', 'traits_complete', 'ints_complete', 'traitSupported_eq', 'traitOfName_eq',
            'traitOfName_complete', 'traitOfName_asStr', 'groupOfName_eq', 'groupOfName_complete', 'reprOfName_eq',
            'reprOfName_complete', 'reprToken_eq', 'reprToken_roundtrip']


LAST_NAMES = list(THEOREMS)


class Missing(Exception):
    pass


def body_of(src, header):
    """Text of the `{..}` block that follows the first occurrence of `header`."""
    i = src.find(header)
    if i < 0:
        raise Missing(header)
    j = src.index('{', i)
    depth, k = 0, j
    while True:
        if src[k] == '{':
            depth += 1
        elif src[k] == '}':
            depth -= 1
            if depth == 0:
                return src[j + 1:k]
        k += 1


def lean_str(s):
    return '"' + s.replace('\\', '\\\\').replace('"', '\\"') + '"'


def rust_str(lit):
    """Value of a Rust string literal body (handles `\\` line continuations and simple escapes)."""
    lit = re.sub(r'\\\n\s*', '', lit)
    return lit.replace('\\"', '"').replace("\\'", "'").replace('\\\\', '\\')


def extract(repo):
    out = {}
    skip = open(os.path.join(repo, 'src/attr/skip.rs')).read()
    # SkipGroup::traits
    b = body_of(body_of(skip, 'fn traits(self)'), 'match self')
    arms = re.split(r'Self::(\w+)\s*=>', b)
    tr = {}
    for name, rhs in zip(arms[1::2], arms[2::2]):
        tr[name] = re.findall(r'Some\(Trait::(\w+)\)', rhs)
    if set(tr) != set(GROUPS):
        raise Missing('SkipGroup::traits arms %s' % sorted(tr))
    out['traits'] = tr
    # SkipGroup::trait_supported
    b = body_of(body_of(skip, 'fn trait_supported('), 'match trait_')
    sup = {}
    for pats, val in re.findall(r'((?:\|?\s*Trait::\w+\s*)+)=>\s*(true|false)', b):
        for t in re.findall(r'Trait::(\w+)', pats):
            sup[t] = val
    if set(sup) != set(TRAITS):
        raise Missing('SkipGroup::trait_supported arms %s' % sorted(sup))
    out['supported'] = sup
    # SkipGroup::from_path
    b = body_of(skip, 'fn from_path(path: &Path)')
    out['group_names'] = dict(re.findall(r'"(\w+)"\s*=>\s*Ok\((\w+)\)', b))
    # Trait::from_path
    tsrc = open(os.path.join(repo, 'src/trait_.rs')).read()
    b = body_of(tsrc, 'pub fn from_path(path: &Path)')
    out['trait_names'] = dict(re.findall(r'"(\w+)"\s*=>\s*Ok\((\w+)\)', b))
    if set(out['trait_names'].values()) != set(TRAITS):
        raise Missing('Trait::from_path arms %s' % sorted(out['trait_names']))
    # Representation
    isrc = open(os.path.join(repo, 'src/item.rs')).read()
    b = body_of(isrc, 'fn parse(ident: &Ident) -> Option<Self>')
    out['repr_parse'] = dict(re.findall(r'ident == "(\w+)"\s*\{\s*Self::(\w+)', b))
    b = body_of(isrc, 'pub fn to_token(self)')
    out['repr_token'] = dict((v, s) for v, s in re.findall(r'Representation::(\w+)\s*=>\s*"(\w+)"', b))
    if set(out['repr_parse'].values()) != set(INTS) or set(out['repr_token']) != set(INTS):
        raise Missing('Representation tables')
    # error messages (constructors with one literal message)
    esrc = open(os.path.join(repo, 'src/error.rs')).read()
    msgs = {}
    for name in []:          # message wording is not part of any property: not extracted any more
        try:
            b = body_of(esrc, 'pub fn %s(' % name)
        except (Missing, ValueError):
            raise Missing('Error::%s' % name)
        m = re.search(r'"((?:[^"\\]|\\.|\\\n)*)"', b)
        if not m or 'format!' in b:
            raise Missing('Error::%s has no literal message' % name)
        msgs[name] = rust_str(m.group(1))
    out['messages'] = msgs
    # DeriveTrait::path / DeriveTrait::crate_ (src/attr/item.rs) and TraitImpl::supports_union (src/trait_/*.rs): optional
    try:
        asrc = open(os.path.join(repo, 'src/attr/item.rs')).read()
        b = body_of(body_of(asrc, 'pub fn path(&self) -> Path'), 'match self')
        paths = {}
        for name, segs in re.findall(r'(\w+)(?:\s*\{\s*\.\.\s*\})?\s*=>\s*util::path_from_root_and_strs\(\s*self\.crate_\(\),\s*&\[([^\]]*)\]\s*,?\s*\)', b):
            paths[name] = re.findall(r'"(\w+)"', segs)
        b = body_of(body_of(asrc, 'pub fn crate_(&self) -> Path'), 'match self')
        roots = {}
        for name, rhs in re.findall(r'(\w+)(?:\s*\{[^}]*\})?\s*=>\s*(util::path_from_strs\(&\[[^\]]*\]\)|\{(?:[^{}]|\{[^{}]*\})*\})', b):
            m = re.findall(r'util::path_from_strs\(&\["(\w+)"\]\)', rhs)
            if len(m) == 1:
                roots[name] = m[0]
        unions = {}
        for rs, name in (('clone', 'Clone'), ('copy', 'Copy'), ('debug', 'Debug'), ('default', 'Default'), ('eq', 'Eq'),
                         ('hash', 'Hash'), ('ord', 'Ord'), ('partial_eq', 'PartialEq'), ('partial_ord', 'PartialOrd'),
                         ('zeroize', 'Zeroize'), ('zeroize_on_drop', 'ZeroizeOnDrop')):
            tf = open(os.path.join(repo, 'src/trait_/%s.rs' % rs)).read()
            m = re.search(r'fn supports_union\(&self\)\s*->\s*bool\s*\{\s*(true|false)\s*\}', tf)
            unions[name] = m.group(1) if m else 'false'          # the trait's default is `false`
        dflt = re.search(r'fn supports_union\(&self\)\s*->\s*bool\s*\{\s*(true|false)\s*\}', body_of(tsrc, 'pub trait TraitImpl'))
        if set(paths) != set(TRAITS) or set(roots) != set(TRAITS) or not dflt or dflt.group(1) != 'false':
            raise Missing('DeriveTrait::path / crate_ / supports_union')
        out['paths'], out['roots'], out['unions'] = paths, roots, unions
    except (Missing, OSError, ValueError) as e:
        out['paths'] = None
        out['paths_reason'] = repr(e)
    try:
        out['words'], out['temps'], out['rooted'] = extract_words(repo)
    except (Missing, OSError, ValueError, IndexError) as e:
        out['words'] = None
        out['words_reason'] = repr(e)
    try:
        out['panic_sites'] = extract_panic_sites(repo)
    except (Missing, OSError, ValueError, IndexError) as e:
        out['panic_sites'] = None
    try:
        out['span_sites'] = extract_span_sites(repo)
    except (OSError, ValueError) as e:
        out['span_sites'] = None
    try:
        out['cfg_sites'] = extract_cfg_sites(repo)
    except (OSError, ValueError) as e:
        out['cfg_sites'] = None
    try:
        out['unsafe_sites'] = extract_unsafe_sites(repo)
    except (Missing, OSError, ValueError, IndexError, StopIteration) as e:
        out['unsafe_sites'] = None
    return out


def quote_bodies(src):
    for m in re.finditer(r'\b(quote|quote_spanned|parse_quote|format_ident)!\s*([\{\(\[])', src):
        o = m.group(2)
        c = {'{': '}', '(': ')', '[': ']'}[o]
        i, depth, instr = m.end(), 1, False
        while i < len(src) and depth:
            ch = src[i]
            if instr:
                if ch == '\\':
                    i += 1
                elif ch == '"':
                    instr = False
            elif ch == '"':
                instr = True
            elif ch == o:
                depth += 1
            elif ch == c:
                depth -= 1
            i += 1
        yield m.group(1), src[m.end():i - 1]


def extract_words(repo):
    """The bare words (identifiers that are neither `#interpolations`, nor behind `::`, nor lifetimes) of every token
    template of the source, and the literal prefixes of `format_ident!`."""
    import glob
    words, temps = set(), set()
    for f in sorted(glob.glob(os.path.join(repo, 'src/**/*.rs'), recursive=True)):
        if '/src/test/' in f or f.endswith('verif_hook.rs'):
            continue
        src = re.sub(r'//[^\n]*', '', open(f).read())
        for kind, b in quote_bodies(src):
            if kind == 'format_ident':
                m = re.match(r'\s*"([^"{]*)', b)
                if not m:
                    raise Missing('format_ident! without a literal prefix in ' + f)
                (temps if m.group(1).startswith('__') else words).add(m.group(1))
                continue
            if kind == 'quote_spanned':
                b = b.split('=>', 1)[1]
            b = re.sub(r'"(\\.|[^"\\])*"', '""', b)
            for m in re.finditer(r'(#?)\b([A-Za-z_][A-Za-z0-9_]*)\b', b):
                pre = b[:m.start()].rstrip()
                if m.group(1) == '#' or pre.endswith('::') or pre.endswith("'"):
                    continue
                (temps if m.group(2).startswith('__') else words).add(m.group(2))
    util = open(os.path.join(repo, 'src/util.rs')).read()
    rooted = 'leading_colon: Some(' in body_of(util, 'pub fn path_from_strs')
    return sorted(words), sorted(temps), rooted


def extract_panic_sites(repo):
    """Every `unreachable!` / `panic!` / `assert!` / `debug_assert!` / `.expect(..)` / `.unwrap()` of the source (not inside a
    token template: those are `::core::..!` of the *generated* code), as (file, kind, message or condition)."""
    import glob
    sites = []
    for f in sorted(glob.glob(os.path.join(repo, 'src/**/*.rs'), recursive=True)):
        if '/src/test/' in f or f.endswith('verif_hook.rs'):
            continue
        src = re.sub(r'//[^\n]*', '', open(f).read())
        for m in re.finditer(r'(?<![:\w])(unreachable|panic|assert|debug_assert|assert_eq|assert_ne|debug_assert_eq|todo|unimplemented)!\s*\(|\.(expect)\s*\(|\.(unwrap)\s*\(\s*\)', src):
            kind = m.group(1) or m.group(2) or m.group(3)
            rest = src[m.end():m.end() + 300]
            lit = re.match(r'\s*"((?:\\.|[^"\\])*)"', rest)
            if lit:
                arg = lit.group(1)
            else:
                depth, i = 1, 0
                while i < len(rest) and depth:
                    depth += rest[i] == '('
                    depth -= rest[i] == ')'
                    i += 1
                arg = re.sub(r'\s+', ' ', rest[:i - 1]).strip()
            sites.append((os.path.relpath(f, repo), kind, arg))
    return sorted(sites)


def extract_cfg_sites(repo):
    """Every `cfg(feature = ..)` / `cfg!(feature = ..)` of the source, as (file, condition without blanks, occurrences)."""
    import glob
    import collections
    c = collections.Counter()
    for f in sorted(glob.glob(os.path.join(repo, 'src/**/*.rs'), recursive=True)):
        if '/src/test/' in f or f.endswith('verif_hook.rs'):
            continue
        for line in open(f):
            t = line.strip()
            if t.startswith('//'):
                continue
            for m in re.finditer(r'cfg!?\(((?:[^()]|\([^()]*\))*)\)', t):
                e = m.group(1).replace(' ', '')
                if 'feature=' in e:
                    c[(os.path.relpath(f, repo), e)] += 1
    return sorted((f, e, n) for (f, e), n in c.items())


def extract_span_sites(repo):
    """Every place of the source that chooses a span: (file, construct, occurrences)."""
    import glob
    import collections
    c = collections.Counter()
    for f in sorted(glob.glob(os.path.join(repo, 'src/**/*.rs'), recursive=True)):
        if '/src/test/' in f or f.endswith('verif_hook.rs'):
            continue
        src = re.sub(r'//[^\n]*', '', open(f).read())
        for m in re.finditer(r'quote_spanned!|Span::\w+|\bset_span\b|\bresolved_at\b|\blocated_at\b|format_ident!\([^)]*\bspan\s*=', src):
            k = m.group(0)
            if k.startswith('format_ident!'):
                k = 'format_ident!(span =)'
            c[(os.path.relpath(f, repo), k)] += 1
    return sorted((f, k, n) for (f, k), n in c.items())


def extract_unsafe_sites(repo):
    """Every token template of the source that contains the word `unsafe`, with whether the statement or match arm it
    belongs to carries `#[cfg(not(feature = "safe"))]` (the nearest `#[cfg(..)]` within the three lines above)."""
    import glob
    sites = []
    for f in sorted(glob.glob(os.path.join(repo, 'src/**/*.rs'), recursive=True)):
        if '/src/test/' in f or f.endswith('verif_hook.rs'):
            continue
        raw = open(f).read()
        lines = raw.split('\n')
        for m in re.finditer(r'\b(quote|quote_spanned|parse_quote)!\s*[\{\(\[]', raw):
            body = next(quote_bodies(raw[m.start():]))[1]
            body = re.sub(r'"(\\.|[^"\\])*"', '""', re.sub(r'//[^\n]*', '', body))
            if not re.search(r'\bunsafe\b', body):
                continue
            ln = raw.count('\n', 0, m.start())            # 0-based line of the template
            guard = None
            for k in range(ln, max(-1, ln - 4), -1):
                g = re.search(r'#\[cfg\((.*)\)\]', lines[k])
                if g:
                    guard = g.group(1).replace(' ', '')
                    break
            sites.append((os.path.relpath(f, repo), ln + 1, guard == 'not(feature="safe")'))
    return sites


def lean_file(t):
    L = ['import DW.Validate', 'import DW.Message', 'import DW.Render', 'import DW.Spec', 'import DW.Lemmas.Vocab', 'import DW.PanicSites', 'import DW.CfgSites', 'import DW.SpanSites', '',
         '/-! Tables extracted from the Rust source on this run, and their equality with the model (kernel-checked). -/',
         'namespace DW.Extracted', 'open DW', '']
    L.append('def zcfg : Cfg := { safe := false, nightly := false, zeroize := true, zod := true }')
    L.append('def allTraits : List Trait := [%s]' % ', '.join('.' + v for v in TRAITS.values()))
    L.append('def allGroups : List SkipGroup := [%s]' % ', '.join('.' + v for v in GROUPS.values()))
    L.append('def allInts : List IntTy := [%s]' % ', '.join('.' + v for v in INTS.values()))
    L.append('def groupTraits : SkipGroup → List Trait')
    for g, ts in t['traits'].items():
        L.append('  | .%s => [%s]' % (GROUPS[g], ', '.join('.' + TRAITS[x] for x in ts)))
    L.append('def traitSupported : Trait → Bool')
    for tr, v in t['supported'].items():
        L.append('  | .%s => %s' % (TRAITS[tr], v))
    L.append('def traitOfName : List (String × Trait) := [%s]' % ', '.join('(%s, .%s)' % (lean_str(n), TRAITS[v]) for n, v in t['trait_names'].items()))
    L.append('def groupOfName : List (String × SkipGroup) := [%s]' % ', '.join('(%s, .%s)' % (lean_str(n), GROUPS[v]) for n, v in t['group_names'].items()))
    L.append('def reprOfName : List (String × IntTy) := [%s]' % ', '.join('(%s, .%s)' % (lean_str(n), INTS[v]) for n, v in t['repr_parse'].items()))
    L.append('def reprToken : IntTy → String')
    for v, s in t['repr_token'].items():
        L.append('  | .%s => %s' % (INTS[v], lean_str(s)))
    L += ['',
          'def okTrait (p : String × Trait) : Bool := match Trait.fromPath zcfg ⟨false, [⟨p.1, false⟩], none⟩ with | .ok t => decide (t = p.2) | .error _ => false',
          'def okGroup (p : String × SkipGroup) : Bool := match SkipGroup.fromPath zcfg ⟨false, [⟨p.1, false⟩], none⟩ with | .ok g => decide (g = p.2) | .error _ => false',
          '',
          '/-- `SkipGroup::traits` of the source = the model\'s (and hence, by `Skip.traitSkipped_eq_covers`, the documented table). -/',
          'theorem groupTraits_eq : (allGroups.all fun g => decide (groupTraits g = g.traits)) = true := by decide +kernel',
          'theorem groups_complete : ∀ g : SkipGroup, g ∈ allGroups := by intro g; cases g <;> decide',
          'theorem traits_complete : ∀ t : Trait, t ∈ allTraits := by intro t; cases t <;> decide',
          'theorem ints_complete : ∀ r : IntTy, r ∈ allInts := by intro r; cases r <;> decide',
          'theorem traitSupported_eq : (allTraits.all fun t => traitSupported t == SkipGroup.traitSupported t) = true := by decide +kernel',
          'theorem traitOfName_eq : traitOfName.all okTrait = true := by decide +kernel',
          'theorem traitOfName_complete : (allTraits.all fun t => (traitOfName.map (·.2)).contains t) = true := by decide +kernel',
          'theorem traitOfName_asStr : (traitOfName.all fun p => p.2.asStr == p.1) = true := by decide +kernel',
          'theorem groupOfName_eq : groupOfName.all okGroup = true := by decide +kernel',
          'theorem groupOfName_complete : (allGroups.all fun g => (groupOfName.map (·.2)).contains g) = true := by decide +kernel',
          'theorem reprOfName_eq : (reprOfName.all fun p => IntTy.parse ⟨p.1, false⟩ == some p.2) = true := by decide +kernel',
          'theorem reprOfName_complete : (allInts.all fun r => (reprOfName.map (·.2)).contains r) = true := by decide +kernel',
          'theorem reprToken_eq : (allInts.all fun r => reprToken r == r.tok) = true := by decide +kernel',
          'theorem reprToken_roundtrip : (reprOfName.all fun p => reprToken p.2 == p.1) = true := by decide +kernel',
          ]
    names = list(THEOREMS)
    if t.get('paths'):
        L.append('def traitPath : Trait → List String')
        for tr in TRAITS:
            L.append('  | .%s => [%s]' % (TRAITS[tr], ', '.join(lean_str(x) for x in [t['roots'][tr]] + t['paths'][tr])))
        L.append('def unionTable : Trait → Bool')
        for tr in TRAITS:
            L.append('  | .%s => %s' % (TRAITS[tr], t['unions'][tr]))
        L += ['/-- `DeriveTrait::path` with `DeriveTrait::crate_` of the source = the model\'s `DeriveTrait.path` (no `crate` option). -/',
              'theorem traitPath_eq : (allTraits.all fun t => decide ((DeriveTrait.path ⟨t, none⟩) = ⟨true, (traitPath t).map (⟨·, false⟩), none⟩)) = true := by decide +kernel',
              '/-- `TraitImpl::supports_union` of the source = the model\'s. -/',
              'theorem supportsUnion_eq : (allTraits.all fun t => unionTable t == Trait.supportsUnion t) = true := by decide +kernel']
        names += PATH_THEOREMS
    if t.get('words') is not None:
        L.append('def srcWords : List String := [%s]' % ', '.join(lean_str(w) for w in t['words']))
        L.append('def srcTemps : List String := [%s]' % ', '.join(lean_str(w[2:]) for w in t['temps']))
        L.append('def pathFromStrsLeading : Bool := %s' % ('true' if t['rooted'] else 'false'))
        L += ['/-- Every bare word of the source\'s token templates is in the closed vocabulary of `C14_vocabulary` (or belongs to',
              'the attribute macro\'s own output / is a single identifier spliced behind a `::` path). -/',
              'theorem srcWords_closed : (srcWords.all fun w => decide (w ∈ fixedToks ++ stage1Toks ++ fragmentToks)) = true := by decide +kernel',
              '/-- The other bare words are `__`-prefixed (listed here without the prefix). -/',
              'theorem srcTemps_prefixed : ∀ w ∈ srcTemps, ∀ (U : String → Prop), Free U ("__" ++ w) := fun w _ U => free_prefix w',
              '/-- `util::path_from_strs` sets the leading `::`. -/',
              'theorem pathFromStrs_rooted : pathFromStrsLeading = true := by decide']
        names += WORD_THEOREMS
    if t.get('panic_sites') is not None:
        L.append('def srcPanicSites : List (String × String × String) := [%s]' % ', '.join('(%s, %s, %s)' % tuple(lean_str(x) for x in st) for st in t['panic_sites']))
        L += ['/-- The panic sites of the current source are exactly the ones `DW/PanicSites.lean` accounts for. -/',
              'theorem panicSites_known : srcPanicSites = knownPanicSites := by decide +kernel']
        names += PANIC_THEOREMS
    if t.get('span_sites') is not None:
        L.append('def srcSpanSites : List (String × String × Nat) := [%s]' % ', '.join('(%s, %s, %d)' % (lean_str(f), lean_str(k), n) for f, k, n in t['span_sites']))
        L += ['/-- The places of the current source that choose a span are exactly the ones `DW/SpanSites.lean` accounts for. -/',
              'theorem spanSites_known : srcSpanSites = knownSpanSites := by decide +kernel']
        names += SPAN_THEOREMS
    if t.get('cfg_sites') is not None:
        L.append('def srcCfgSites : List (String × String × Nat) := [%s]' % ', '.join('(%s, %s, %d)' % (lean_str(f), lean_str(e), n) for f, e, n in t['cfg_sites']))
        L += ['/-- The feature-dependent sites of the current source are exactly the ones `DW/CfgSites.lean` accounts for. -/',
              'theorem cfgSites_known : srcCfgSites = knownCfgSites := by decide +kernel']
        names += CFG_THEOREMS
    if t.get('unsafe_sites') is not None:
        L.append('def unsafeSites : List (String × Nat × Bool) := [%s]' % ', '.join('(%s, %d, %s)' % (lean_str(f), n, 'true' if g else 'false') for f, n, g in t['unsafe_sites']))
        L += ['/-- Every token template of the source that says `unsafe` is compiled only without the `safe` feature (the source-side',
              'twin of `C12_safe_no_unsafe`). -/',
              'theorem unsafeTemplates_guarded : (unsafeSites.all fun s => s.2.2) = true := by decide']
        names += UNSAFE_THEOREMS
    L += ['end DW.Extracted', ''] + ['#print axioms DW.Extracted.%s' % n for n in names]
    return '\n'.join(L)


def check(prop):
    """Returns a list of problems (empty = the tables of the current source equal the model's)."""
    try:
        t = extract(runner.REPO)
    except (Missing, OSError, ValueError) as e:
        # the source no longer has the tables in the recognised shape (a rewrite of these functions): nothing is claimed by
        # this route then -- the tables stay tied by correspondence A, whose enumerators cover every entry
        return None, repr(e)
    if prop != 'C14':
        t['words'] = None          # the vocabulary of the templates is C14's obligation only
        t['span_sites'] = None     # and so is the inventory of span choices
    if prop != 'C12':
        t['unsafe_sites'] = None   # the cfg guards of the `unsafe` templates are C12's
    if prop != 'C16':
        t['panic_sites'] = None    # the inventory of panic sites is C16's
    if prop != 'C13':
        t['cfg_sites'] = None      # the inventory of feature-dependent sites is C13's
    os.makedirs(runner.WORK, exist_ok=True)
    f = os.path.join(runner.WORK, 'Tables_%s.lean' % prop)
    open(f, 'w').write(lean_file(t))
    p = subprocess.run(['lake', 'env', 'lean', f], cwd=os.path.join(runner.VERIF, 'lean'), stdout=subprocess.PIPE,
                       stderr=subprocess.STDOUT, text=True)
    if p.returncode != 0:
        errs = [l for l in p.stdout.split('\n') if 'error' in l][:3]
        return ['the tables extracted from the source differ from the model\'s (%s): %s' % (os.path.relpath(f, runner.VERIF), ' | '.join(errs)[:600])], 0
    bad = []
    global LAST_NAMES
    LAST_NAMES = list(THEOREMS) + (PATH_THEOREMS if t.get('paths') else []) + (WORD_THEOREMS if t.get('words') is not None else []) + (PANIC_THEOREMS if t.get('panic_sites') is not None else []) + (CFG_THEOREMS if t.get('cfg_sites') is not None else []) + (SPAN_THEOREMS if t.get('span_sites') is not None else []) + (UNSAFE_THEOREMS if t.get('unsafe_sites') is not None else [])
    for n in LAST_NAMES:
        m = re.search(r"'DW\.Extracted\.%s' (does not depend on any axioms|depends on axioms: \[([^\]]*)\])" % n, p.stdout)
        if not m:
            bad.append('table theorem %s not reported by the audit' % n)
        elif m.group(2) and any(a.strip() not in ('propext', 'Classical.choice', 'Quot.sound') for a in m.group(2).split(',')):
            bad.append('table theorem %s depends on %s' % (n, m.group(2)))
    return bad, len(LAST_NAMES) - len(bad)
