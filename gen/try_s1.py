import random, sys
sys.path.insert(0, '/verif/gen')
from generate import gen_item, gen_malformed
from items import Attr, metas_body, MNameValue, MPathM, MList, P, Body
import enumerate_items, subprocess, runner
rng = random.Random(int(sys.argv[1]) if len(sys.argv) > 1 else 1)
items = [gen_item(rng) if rng.random() < 0.7 else gen_malformed(rng) for _ in range(1500)]
def crate_attr(rng):
    r = rng.random()
    if r < 0.5:
        return Attr('dw', metas_body([MNameValue('crate', rng.choice(['path', 'str']), P(rng.choice(['dw', '::dw::x', 'derive_where', '::derive_where', 'a::b'])))]))
    if r < 0.6: return Attr('dw', metas_body([MNameValue('crate', 'strbad')]))
    if r < 0.7: return Attr('dw', metas_body([MNameValue('crate', 'other')]))
    if r < 0.8: return Attr('dw', metas_body([MPathM('crate')]))
    if r < 0.9: return Attr('dw', metas_body([MList('crate', [MPathM('x')])]))
    return Attr('bare', path=P(rng.choice(['::derive_where::derive_where_visited', 'derive_where::derive_where_visited', 'dw::derive_where_visited', 'foo'])))
for it in items:
    for _ in range(rng.choice([0, 0, 1, 1, 2])):
        it.attrs.insert(rng.randrange(len(it.attrs) + 1), crate_attr(rng))
    if rng.random() < 0.15:
        for v in it.variants:
            for f in v.fields:
                if rng.random() < 0.3: f.bodies.append(Body(notlist=rng.choice(['', ' = "x"'])))
hook, log = runner.run_hook('default', ['1 ' + it.rust1() for it in items], tag='-s1')
data = ''.join('stage1 0000 %s ## %s\n' % (it.sexp(), it.segs_sexp()) for it in items)
model = subprocess.run([runner.DRIVER], input=data, stdout=subprocess.PIPE, text=True).stdout.split('\n')
bad = 0
import collections
kinds = collections.Counter()
for it, h, m in zip(items, hook, model):
    kinds[h[:30] if h.startswith('err') else h[:2]] += 1
    ok = h == m or (h.startswith('err') and m.startswith('err') and '*' in m and h.split(' @@ ')[1] == m.split(' @@ ')[1] and h.startswith(m.split('*')[0]))
    if not ok:
        bad += 1
        if bad <= 4:
            print('---', it.rust1()); print('H', h[:500]); print('M', m[:500])
print('items', len(items), 'bad', bad, kinds.most_common(12))
