#!/bin/sh
# Build the Lean model, all property theorems and the native driver (offline).
set -e
cd "$(dirname "$0")/lean"
lake build DW dwdriver
