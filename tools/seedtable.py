#!/usr/bin/env python3
"""Write the table of seeded changes into DESIGN.md (between the markers) and `detected_by` into each seeded/<id>/meta.json,
from work/seedtest.json (output of tools/seedtest.py --no-corpus)."""
import json, os, re
VERIF = os.path.dirname(os.path.dirname(os.path.abspath(__file__)))
res = json.load(open(os.path.join(VERIF, 'work', 'seedtest.json')))
rows = []
for sid in sorted(os.listdir(os.path.join(VERIF, 'seeded'))):
    mp = os.path.join(VERIF, 'seeded', sid, 'meta.json')
    meta = json.load(open(mp))
    prop = str(meta.get('property', sid))[:3]
    r = res.get(sid)
    if not isinstance(r, dict):
        rows.append((sid, prop, meta, None))
        continue
    pr = r.get(prop) or next(iter(r.values()))
    rows.append((sid, prop, meta, pr))
    rep = pr.get('replay') or {}
    meta['detected_by'] = dict(check=prop, exit=pr['exit'], violations=pr['violations'], with_failing_input=pr['with_input'],
                               failing_input=(dict(item=rep.get('item'), operation=rep.get('op'), operands=rep.get('operands'),
                                                   expected=rep.get('expected'), observed=rep.get('observed')) if pr['with_input'] else None),
                               run='tools/seedtest.py --no-corpus (quick tier, scratch worktree with the change applied)')
    json.dump(meta, open(mp, 'w'), indent=1)


def short(s, n):
    s = re.sub(r'\s+', ' ', str(s or '')).replace('|', '\\|')
    return s if len(s) <= n else s[:n - 1] + '…'


out = ['| seed | property | change (file) | detected | failing input found by the check |', '|---|---|---|---|---|']
nd = ni = 0
for sid, prop, meta, pr in rows:
    patch = open(os.path.join(VERIF, 'seeded', sid, 'patch.diff')).read()
    files = sorted(set(re.findall(r'^\+\+\+ b/(\S+)', patch, flags=re.M)))
    what = short(meta.get('summary', ''), 110)
    if pr is None:
        out.append('| %s | %s | %s (%s) | not run | |' % (sid, prop, what, ', '.join(files)))
        continue
    det = pr['exit'] == 1 and pr['violations'] > 0
    nd += det
    ni += bool(pr['with_input'])
    rep = pr.get('replay') or {}
    fi = ''
    if pr['with_input']:
        fi = '`%s` — %s: %s' % (short(rep.get('item'), 120), short(rep.get('op'), 40), short(rep.get('observed'), 90))
    out.append('| %s | %s | %s (%s) | %s | %s |' % (sid, prop, what, ', '.join(f.replace('src/', '') for f in files),
                                                  'yes' if det else '**NO**', fi or 'none (`no-failing-input-found`)'))
out.append('')
out.append('Detected: %d of %d; with a concrete failing input in the replay: %d.' % (nd, len(rows), ni))
p = os.path.join(VERIF, 'DESIGN.md')
s = open(p).read()
block = '<!-- SEEDS-BEGIN -->\n' + '\n'.join(out) + '\n<!-- SEEDS-END -->'
if '<!-- SEEDS-BEGIN -->' in s:
    s = re.sub(r'<!-- SEEDS-BEGIN -->.*?<!-- SEEDS-END -->', lambda m: block, s, flags=re.S)
else:
    s = s.replace('\nSEEDS\n', '\n' + block + '\n')
open(p, 'w').write(s)
print('detected %d/%d, with input %d' % (nd, len(rows), ni))
