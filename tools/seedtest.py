#!/usr/bin/env python3
"""Development tool: apply each seeded change to /repo, run the property's
check (and optionally others), undo the change. Usage: seedtest.py [ids..] [--no-corpus] [--also C02,C14]"""
import json, os, subprocess, sys
VERIF = os.path.dirname(os.path.dirname(os.path.abspath(__file__)))
args = [a for a in sys.argv[1:] if not a.startswith('--')]
flags = [a for a in sys.argv[1:] if a.startswith('--no-corpus')]
ids = args or sorted(os.listdir(os.path.join(VERIF, 'seeded')))
res = {}
for sid in ids:
    patch = os.path.join(VERIF, 'seeded', sid, 'patch.diff')
    assert subprocess.run(['git', '-C', '/repo', 'status', '--porcelain', '--untracked-files=no'], capture_output=True, text=True).stdout.strip() == '', 'repo dirty'
    r = subprocess.run(['git', '-C', '/repo', 'apply', patch], capture_output=True, text=True)
    if r.returncode != 0:
        res[sid] = 'patch does not apply: ' + r.stderr[:200]
        continue
    try:
        p = subprocess.run([os.path.join(VERIF, 'check'), sid] + flags, capture_output=True, text=True, cwd=VERIF)
        v = [l for l in p.stdout.split('\n') if l.startswith('VIOLATION')]
        res[sid] = dict(exit=p.returncode, violations=len(v), with_input=sum(1 for l in v if 'no-failing-input-found' not in l),
                        last=p.stdout.strip().split('\n')[-1][:160])
    finally:
        subprocess.run(['git', '-C', '/repo', 'checkout', '--', '.'], check=True)
    print(sid, res[sid], flush=True)
json.dump(res, open(os.path.join(VERIF, 'work', 'seedtest.json'), 'w'), indent=1)
