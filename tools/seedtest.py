#!/usr/bin/env python3
"""Development tool: run a property's check against each seeded change.

Each change is applied in a scratch worktree of /repo (under /tmp/st, removed afterwards) and the check runs against that
worktree (VERIF_REPO) with its own work/target directories (VERIF_TAG), so /repo itself is never modified and several seeds
can be tried in parallel.
Usage: seedtest.py [ids..] [--no-corpus] [--jobs N] [--props C02,C14 (run these properties' checks instead of the seed's own)]"""
import concurrent.futures, json, os, shutil, subprocess, sys
VERIF = os.path.dirname(os.path.dirname(os.path.abspath(__file__)))
argv = sys.argv[1:]
jobs, props = 3, None
if '--jobs' in argv:
    i = argv.index('--jobs'); jobs = int(argv[i + 1]); del argv[i:i + 2]
if '--props' in argv:
    i = argv.index('--props'); props = argv[i + 1].split(','); del argv[i:i + 2]
flags = [a for a in argv if a.startswith('--')]
ids = [a for a in argv if not a.startswith('--')] or sorted(os.listdir(os.path.join(VERIF, 'seeded')))


def one(sid):
    d = os.path.join(VERIF, 'seeded', sid)
    meta = json.load(open(os.path.join(d, 'meta.json')))
    wt = '/tmp/st/' + sid
    tag = '-st-' + sid
    subprocess.run(['git', '-C', '/repo', 'worktree', 'remove', '--force', wt], capture_output=True)
    os.makedirs('/tmp/st', exist_ok=True)
    subprocess.run(['git', '-C', '/repo', 'worktree', 'add', '-q', '--detach', wt, 'HEAD'], check=True)
    res = {}
    try:
        r = subprocess.run(['git', 'apply', os.path.join(d, 'patch.diff')], cwd=wt, capture_output=True, text=True)
        if r.returncode != 0:
            return sid, 'patch does not apply: ' + r.stderr[:200]
        env = dict(os.environ, VERIF_REPO=wt, VERIF_TAG=tag)
        for prop in (props or [meta.get('property', sid)[:3]]):
            p = subprocess.run([os.path.join(VERIF, 'check'), prop] + flags, capture_output=True, text=True, cwd=VERIF, env=env)
            v = [l for l in p.stdout.split('\n') if l.startswith('VIOLATION')]
            wi = [l for l in v if 'no-failing-input-found' not in l]
            rep = None
            if wi:
                try:
                    rp = json.load(open(wi[0].split('replay=')[1].split(' ')[0]))
                    fi = rp.get('failing_input') or {}
                    rep = dict(item=fi.get('item_source', '')[:300], op=fi.get('operation'), operands=fi.get('operands'),
                               expected=str(fi.get('expected_by_specification') or fi.get('expected_by_model'))[:200], observed=str(fi.get('observed_with_real_macro'))[:300])
                except Exception as e:
                    rep = repr(e)
            res[prop] = dict(exit=p.returncode, violations=len(v), with_input=len(wi), last=p.stdout.strip().split('\n')[-1][:160], replay=rep)
    finally:
        subprocess.run(['git', '-C', '/repo', 'worktree', 'remove', '--force', wt], capture_output=True)
        shutil.rmtree(os.path.join(VERIF, 'work' + tag), ignore_errors=True)
        shutil.rmtree(os.path.join(VERIF, 'target' + tag), ignore_errors=True)
    return sid, res


out = {}
with concurrent.futures.ThreadPoolExecutor(max_workers=jobs) as ex:
    for sid, res in ex.map(one, ids):
        out[sid] = res
        print(sid, json.dumps(res), flush=True)
os.makedirs(os.path.join(VERIF, 'work'), exist_ok=True)
prev = {}
pp = os.path.join(VERIF, 'work', 'seedtest.json')
if os.path.exists(pp):
    prev = json.load(open(pp))
prev.update(out)
json.dump(prev, open(pp, 'w'), indent=1)
