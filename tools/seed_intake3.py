#!/usr/bin/env python3
"""Copy a round-3 sub-agent deliverable (/tmp/seed3/<Fxx>/out/..) into /verif/seeded/<Fxx>-3<v>/ (property from its meta)."""
import json, os, shutil, sys
VERIF = os.path.dirname(os.path.dirname(os.path.abspath(__file__)))
area, v = sys.argv[1], sys.argv[2]
rnd = sys.argv[3] if len(sys.argv) > 3 else '3'
src = '/tmp/seed%s/%s/out' % (rnd, area)
dst = os.path.join(VERIF, 'seeded', '%s-%s%s' % (area, rnd, v))
if not os.path.exists(os.path.join(src, 'patch_%s.diff' % v)):
    sys.exit('no variant ' + v)
os.makedirs(dst, exist_ok=True)
shutil.copy(os.path.join(src, 'patch_%s.diff' % v), os.path.join(dst, 'patch.diff'))
shutil.copy(os.path.join(src, 'seeded_demo_%s.rs' % v), os.path.join(dst, 'seeded_demo.rs'))
meta = json.load(open(os.path.join(src, 'meta_%s.json' % v)))
meta['property'] = str(meta.get('property', ''))[:3]
meta['round'] = int(rnd)
meta['focus'] = area
json.dump(meta, open(os.path.join(dst, 'meta.json'), 'w'), indent=1)
print(dst, meta['property'])
