#!/usr/bin/env python3
"""Development tool: mutation campaign against the checks.

Random first-order mutants of /repo/src (operator swaps, `any`/`all`, boolean and small integer literals,
`break`/`continue`, `is_some`/`is_none`, dropped `!`) are applied in scratch worktrees (under /tmp/mut, removed
afterwards).  A mutant that does not build or fails the pinned suite is `killed-by-tests`.  For the survivors of the
suite the correspondence-A part of four wide checks runs (C02: every impl in default/safe/zod; C13: std traits in all six
configurations; C15: outcome + message; C16: stage 1 + malformed stream) with B/C/P switched off: `detected` or
`survived`.  Survivors are listed for triage (equivalent mutant or blind spot of the generators).

usage: tools/mutate.py N [--seed S] [--jobs J]   -> work/mutants.json"""
import concurrent.futures, json, os, random, re, shutil, subprocess, sys
VERIF = os.path.dirname(os.path.dirname(os.path.abspath(__file__)))
N = int(sys.argv[1]) if len(sys.argv) > 1 else 40
seed = int(sys.argv[sys.argv.index('--seed') + 1]) if '--seed' in sys.argv else 1
jobs = int(sys.argv[sys.argv.index('--jobs') + 1]) if '--jobs' in sys.argv else 5
CHECKS = ['C02', 'C13', 'C15', 'C16']

RULES = [
    (r'==', '!='), (r'!=', '=='), (r'&&', '||'), (r'\|\|', '&&'),
    (r'\.any\(', '.all('), (r'\.all\(', '.any('), (r'\btrue\b', 'false'), (r'\bfalse\b', 'true'),
    (r'\bis_some\(\)', 'is_none()'), (r'\bis_none\(\)', 'is_some()'), (r'\bcontinue\b', 'break'), (r'\bbreak\b', 'continue'),
    (r'(?<![\w.])0(?![\w.])', '1'), (r'(?<![\w.])1(?![\w.])', '2'), (r'\+ 1\b', '+ 0'), (r'\bif !', 'if '),
    (r'>=', '>'), (r'(?<![-=])> 1\b', '>= 1'), (r'\.is_empty\(\)', '.is_empty() == false'),
    (r'\bSome\(([a-z_]+)\) if ', r'Some(\1) if !'), (r'\.skip\(1\)', '.skip(0)'),
    (r'\bif ([^{]*[^{ ]) \{$', r'if !(\1) {'),                       # negated condition
    (r'\.iter\(\)', '.iter().skip(1)'), (r'\.iter\(\)', '.iter().rev()'), (r'\.first\(\)', '.last()'), (r'\.last\(\)', '.first()'),
    (r'Trait::Hash\b', 'Trait::Debug'), (r'Trait::Debug\b', 'Trait::Hash'), (r'Trait::PartialEq\b', 'Trait::PartialOrd'),
    (r'Trait::PartialOrd\b', 'Trait::PartialEq'), (r'Trait::Ord\b', 'Trait::Eq'), (r'Trait::Eq\b', 'Trait::Ord'),
    (r'Trait::Clone\b', 'Trait::Copy'), (r'Trait::Copy\b', 'Trait::Clone'), (r'Trait::Default\b', 'Trait::Debug'),
    (r'Trait::Zeroize\b', 'Trait::ZeroizeOnDrop'), (r'Trait::ZeroizeOnDrop\b', 'Trait::Zeroize'),
    (r'SkipGroup::Hash\b', 'SkipGroup::Debug'), (r'SkipGroup::EqHashOrd\b', 'SkipGroup::Hash'), (r'SkipGroup::Debug\b', 'SkipGroup::EqHashOrd'),
    (r'^(\s*)([a-z_.]+\.(push|extend|insert|push_str)\(.*\);)\s*$', r'\1/* \2 */'),        # dropped statement
    (r'\.len\(\) > 1\b', '.len() > 0'), (r'== 1\b', '== 0'), (r'\.skip\(', '.take('),
    (r'&\*\*', '&*&**'),
]


def sites():
    out = []
    for root, _, files in os.walk('/repo/src'):
        if '/test' in root:
            continue
        for fn in files:
            if not fn.endswith('.rs') or fn == 'verif_hook.rs':
                continue
            p = os.path.join(root, fn)
            in_doc = False
            for ln, line in enumerate(open(p).read().split('\n')):
                st = line.strip()
                if st.startswith('//') or st.startswith('#[') or st.startswith('#!') or st.startswith('use ') or 'unreachable!' in st \
                        or st.startswith('debug_assert') or st.startswith('"') or 'Error::' in st and '"' in st:
                    continue
                code = line.split('//')[0]
                for ri, (pat, rep) in enumerate(RULES):
                    for m in re.finditer(pat, code):
                        # not inside a string literal
                        if code[:m.start()].count('"') % 2 == 1:
                            continue
                        out.append((os.path.relpath(p, '/repo'), ln, m.start(), m.end(), ri))
    return out


def apply(wt, site):
    path, ln, a, b, ri = site
    p = os.path.join(wt, path)
    lines = open(p).read().split('\n')
    pat, rep = RULES[ri]
    seg = lines[ln][a:b]
    lines[ln] = lines[ln][:a] + re.sub(pat, rep, seg, count=1) + lines[ln][b:]
    open(p, 'w').write('\n'.join(lines))
    return lines[ln].strip()


def run(cmd, cwd, env=None, timeout=1800):
    p = subprocess.run(cmd, cwd=cwd, env=env, stdout=subprocess.PIPE, stderr=subprocess.STDOUT, text=True, timeout=timeout)
    return p.returncode, p.stdout


def worker(args):
    wid, batch = args
    wt = '/tmp/mut/w%d' % wid
    subprocess.run(['git', '-C', '/repo', 'worktree', 'remove', '--force', wt], capture_output=True)
    os.makedirs('/tmp/mut', exist_ok=True)
    subprocess.run(['git', '-C', '/repo', 'worktree', 'add', '-q', '--detach', wt, 'HEAD'], check=True)
    tag = '-mut%d' % wid
    res = []
    try:
        for site in batch:
            subprocess.run(['git', 'checkout', '-q', '--', '.'], cwd=wt)
            orig = open(os.path.join(wt, site[0])).read().split('\n')[site[1]].strip()
            new = apply(wt, site)
            rec = dict(file=site[0], line=site[1] + 1, original=orig, mutated=new)
            if new == orig:
                continue
            rc, out = run(['cargo', 'test', '--workspace', '--no-fail-fast', '--offline', '-q', '--target-dir', '/tmp/mut/target%d' % wid], wt)
            if rc != 0:
                rec['status'] = 'killed-by-suite'
                res.append(rec)
                print(json.dumps(rec), flush=True)
                continue
            env = dict(os.environ, VERIF_REPO=wt, VERIF_TAG=tag, VERIF_NO_B='1')
            det = []
            for c in CHECKS:
                rc, out = run([os.path.join(VERIF, 'check'), c, '--no-corpus'], VERIF, env)
                if 'VIOLATION' in out:
                    det.append(c)
            rec['status'] = 'detected' if det else 'survived'
            rec['detected_by'] = det
            res.append(rec)
            print(json.dumps(rec), flush=True)
    finally:
        subprocess.run(['git', '-C', '/repo', 'worktree', 'remove', '--force', wt], capture_output=True)
        shutil.rmtree('/tmp/mut/target%d' % wid, ignore_errors=True)
        shutil.rmtree(os.path.join(VERIF, 'work' + tag), ignore_errors=True)
        shutil.rmtree(os.path.join(VERIF, 'target' + tag), ignore_errors=True)
    return res


if __name__ == '__main__':
    all_sites = sites()
    rng = random.Random(seed)
    pick = rng.sample(all_sites, min(N, len(all_sites)))
    print('%d mutation sites, %d sampled' % (len(all_sites), len(pick)), flush=True)
    batches = [(i, pick[i::jobs]) for i in range(jobs)]
    allres = []
    with concurrent.futures.ThreadPoolExecutor(max_workers=jobs) as ex:
        for r in ex.map(worker, batches):
            allres += r
    import collections
    c = collections.Counter(r['status'] for r in allres)
    print(dict(c))
    out = os.path.join(VERIF, 'work', 'mutants-%d.json' % seed)
    json.dump(allres, open(out, 'w'), indent=1)
    for r in allres:
        if r['status'] == 'survived':
            print('SURVIVED %s:%d  %s  ->  %s' % (r['file'], r['line'], r['original'], r['mutated']))
