#!/usr/bin/env python3
"""Development tool: which lines/regions of /repo/src does correspondence A execute?

Builds the hook with `-C instrument-coverage` (nightly toolchain, which ships
llvm-tools), runs it on the union of all items the checks generate (corpus +
all enumerators + seeded random valid/malformed stream, both macro stages) per
feature configuration, and prints the source lines that were never executed.
Uncovered generator/validation lines are where a change could hide from A.

usage: tools/coverage.py [n_random] [configs,comma,separated]
"""
import glob
import os
import random
import subprocess
import sys

VERIF = os.path.dirname(os.path.dirname(os.path.abspath(__file__)))
sys.path.insert(0, os.path.join(VERIF, 'gen'))
import corpus, enumerate_items, generate, engine  # noqa: E402

N = int(sys.argv[1]) if len(sys.argv) > 1 else 6000
CFGS = (sys.argv[2] if len(sys.argv) > 2 else 'default,safe,nightly,zod').split(',')
FEATS = {'default': [], 'safe': ['--features', 'safe'], 'nightly': ['--features', 'nightly'], 'zeroize': ['--features', 'zeroize'],
         'zod': ['--features', 'zeroize-on-drop'], 'safe-zod': ['--features', 'safe,zeroize-on-drop']}

items = [it for _, it in corpus.items()] + [it for _, it in enumerate_items.all_items(None)]
rng = random.Random(7)
for _ in range(N):
    items.append(generate.gen_malformed(rng) if rng.random() < 0.3 else generate.gen_item(rng))
lines = ['2 ' + it.rust() for it in items]
s1 = engine.stage1_items([('x', it) for it in items], 7)
lines += ['1 ' + it.rust1() for _, it in s1]
work = os.path.join(VERIF, 'work', 'cov')
os.makedirs(work, exist_ok=True)
fin = os.path.join(work, 'in.txt')
open(fin, 'w').write('\n'.join(lines) + '\n')
sysroot = subprocess.run(['rustc', '+nightly', '--print', 'sysroot'], capture_output=True, text=True).stdout.strip()
tools = glob.glob(sysroot + '/lib/rustlib/*/bin')[0]
profs = []
objs = []
for cfg in CFGS:
    tdir = os.path.join(VERIF, 'target', 'cov-' + cfg)
    env = dict(os.environ)
    prof = os.path.join(work, cfg + '-%p.profraw')
    for f in glob.glob(os.path.join(work, cfg + '-*.profraw')):
        os.remove(f)
    env.update(CARGO_TARGET_DIR=tdir, DW_VERIF_IN=fin, DW_VERIF_OUT=os.path.join(work, cfg + '.out'), CARGO_NET_OFFLINE='true',
               RUSTFLAGS='--cfg derive_where_verif -C instrument-coverage', LLVM_PROFILE_FILE=prof)
    cmd = ['cargo', '+nightly', 'test', '--offline', '--lib', '-q'] + FEATS[cfg] + ['verif_hook']
    p = subprocess.run(cmd, cwd='/repo', env=env, stdout=subprocess.PIPE, stderr=subprocess.STDOUT, text=True)
    if p.returncode != 0:
        print(cfg, 'failed', p.stdout[-2000:])
        continue
    raws = glob.glob(os.path.join(work, cfg + '-*.profraw'))
    pd = os.path.join(work, cfg + '.profdata')
    subprocess.run([tools + '/llvm-profdata', 'merge', '-sparse', '-o', pd] + raws, check=True)
    exe = max(glob.glob(os.path.join(tdir, 'debug', 'deps', 'derive_where-*')), key=os.path.getmtime)
    exe = [e for e in glob.glob(os.path.join(tdir, 'debug', 'deps', 'derive_where-*')) if os.access(e, os.X_OK) and not e.endswith('.d')]
    exe = max(exe, key=os.path.getmtime)
    out = subprocess.run([tools + '/llvm-cov', 'show', exe, '-instr-profile=' + pd, '--show-line-counts-or-regions',
                          '--ignore-filename-regex', r'(\.cargo|rustc|/test/|verif_hook)'], capture_output=True, text=True).stdout
    open(os.path.join(work, cfg + '.cov.txt'), 'w').write(out)
    rep = subprocess.run([tools + '/llvm-cov', 'report', exe, '-instr-profile=' + pd,
                          '--ignore-filename-regex', r'(\.cargo|rustc|/test/|verif_hook)'], capture_output=True, text=True).stdout
    print('==', cfg)
    print(rep)
    # uncovered lines
    cur = None
    for l in out.split('\n'):
        if l.startswith('/repo/src/') and l.endswith(':'):
            cur = l[:-1]
            continue
        parts = l.split('|')
        if len(parts) >= 3 and parts[1].strip() == '0':
            print('%s:%s: %s' % (cur.replace('/repo/', ''), parts[0].strip(), '|'.join(parts[2:]).rstrip()[:140]))

# ---- region-level report (uncovered regions inside covered lines) ----
import json as _json
for cfg in CFGS:
    tdir = os.path.join(VERIF, 'target', 'cov-' + cfg)
    pd = os.path.join(work, cfg + '.profdata')
    if not os.path.exists(pd):
        continue
    exe = [e for e in glob.glob(os.path.join(tdir, 'debug', 'deps', 'derive_where-*')) if os.access(e, os.X_OK) and not e.endswith('.d')]
    exe = max(exe, key=os.path.getmtime)
    js = subprocess.run([tools + '/llvm-cov', 'export', exe, '-instr-profile=' + pd, '--ignore-filename-regex',
                         r'(\.cargo|rustc|/test/|verif_hook)'], capture_output=True, text=True).stdout
    data = _json.loads(js)
    print('== uncovered regions', cfg)
    for f in data['data'][0]['files']:
        src = open(f['filename']).read().split('\n')
        for fn in []:
            pass
    for fn in data['data'][0]['functions']:
        for r in fn['regions']:
            l1, c1, l2, c2, cnt, fid, efid, kind = r
            if cnt == 0 and kind == 0:
                fname = fn['filenames'][fid]
                if '/test/' in fname or 'verif_hook' in fname or '.cargo' in fname or '/rustc/' in fname:
                    continue
                line = open(fname).read().split('\n')[l1 - 1]
                print('%s:%d:%d-%d:%d  %s' % (fname.replace('/repo/', ''), l1, c1, l2, c2, line.strip()[:110]))
