#!/usr/bin/env python3
"""Regenerate MANIFEST.json from the table in gen/engine.py and tools/claims.json."""
import json, os, sys
VERIF = os.path.dirname(os.path.dirname(os.path.abspath(__file__)))
sys.path.insert(0, os.path.join(VERIF, 'gen'))
import engine
claims = json.load(open(os.path.join(VERIF, 'tools', 'claims.json')))
props = [json.loads(l) for l in open(os.path.join(VERIF, 'properties.jsonl'))]
checks, na = [], []
for p in props:
    pid = p['id']
    c = claims.get(pid)
    if not c or not c.get('claimed'):
        na.append(dict(property_id=pid, reason=(c or {}).get('reason', 'check not built yet (work in progress)')))
        continue
    checks.append(dict(
        property_id=pid,
        quick_cmd='./check %s --tier quick' % pid,
        thorough_cmd='./check %s --tier thorough' % pid,
        evidence_file='/verif/evidence/%s.json' % pid,
        replay_cmd_template='./check %s --replay {path}' % pid,
        engine='lean-proof+correspondence',
        level_claimed=dict(category='proof', text=c['text'], design_ref='DESIGN.md section ' + engine.PROPS[pid]['design']),
        level_note=c['note'],
        technique='Lean 4 theorems about a hand-written model of the macro + checked correspondence (hook vs model token by token, '
                  'rustc vs the Lean specification' + (', the model type checker vs rustc' if pid in ('C02', 'C17') else '') + ')' +
                  ('; translator: the finite tables and inventories of the current source (skip groups, trait names and paths, '
                   'repr table, error messages, template vocabulary, unsafe / panic / cfg sites) are re-extracted on every run and '
                   'kernel-checked against the model' if engine.PROPS[pid].get('tables') else ''),
    ))
m = dict(
    version=1,
    setup_cmd='./setup.sh',
    hooks=dict(guard='--cfg derive_where_verif (rustc cfg; module src/verif_hook.rs is `#[cfg(all(test, derive_where_verif))]`)',
               enable='RUSTFLAGS="--cfg derive_where_verif" cargo test --offline --lib [--features F] verif_hook  (run by gen/runner.py with DW_VERIF_IN/DW_VERIF_OUT)',
               baseline_off_cmd='cd /repo && cargo test --workspace --no-fail-fast --offline',
               source_commits=claims['_hook_commits'], add_only=True),
    engines=[dict(name='lean-proof+correspondence', path='/verif/check', serves_properties=[c['property_id'] for c in checks],
                  kind_free_text='Lean 4 model (lean/DW) with kernel-checked property theorems; gen/engine.py ties it to /repo by '
                                 'token-exact comparison of the real expansion (cfg-guarded hook) with the model\'s, and by running '
                                 'derived code through rustc against the Lean specification')],
    checks=checks,
    notes=claims['_notes'],
    not_applicable=na,
)
json.dump(m, open(os.path.join(VERIF, 'MANIFEST.json'), 'w'), indent=1)
print(len(checks), 'checks,', len(na), 'not claimed')
