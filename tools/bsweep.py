#!/usr/bin/env python3
"""Sweep correspondence B over the WHOLE pool (hand-written corpus + every enumerator item that is B-compatible), not the
sample a check takes: plain, through `macro_rules!`, inside the hostile module and under `#[no_implicit_prelude]`.
A failure here on the unchanged tree is either a latent false alarm of the sampled checks (an item that is not B's) or a
genuine defect; run after every change to the enumerators or to `bharness.compatible` (round 9: 8 277 items, 0 failures).
Usage: VERIF_TAG=-sw python3 tools/bsweep.py [cfg ...]   (default: zod default)"""
import os, sys, time
VERIF = os.path.dirname(os.path.dirname(os.path.abspath(__file__)))
sys.path.insert(0, os.path.join(VERIF, 'gen'))
import bharness, bsearch, corpus, enumerate_items as e

allit = [(n, it) for n, it in list(corpus.items()) + e.all_items(None) if bharness.compatible(it)]
print('compatible items:', len(allit))
bad = 0
for cfg in (sys.argv[1:] or ['zod', 'default']):
    z = cfg in ('zod', 'zeroize', 'safe-zod')
    its = [('s%d' % i, bharness.b_transform(it)) for i, (n, it) in enumerate(allit) if bharness.compatible_cfg(it, cfg)
           and (z or not ({'Zeroize', 'ZeroizeOnDrop'} & set(bharness.derived_traits(it))))]
    modes = [False] if z else [False, 'mrules', True, 'nip']
    for mode in modes:
        t0 = time.time()
        for k in range(0, len(its), 2000):
            chunk = its[k:k + 2000]
            if mode:
                chunk = [x for x in chunk if not getattr(x[1], 'expect_error', None)]
            rep = bsearch.nip_run(cfg, chunk) if mode == 'nip' else bharness.run_b(cfg, chunk, hostile=mode)
            n = len(rep['failures']) + len(rep['compile_errors']) + len(rep['model_failures'])
            bad += n
            print(cfg, mode, k, len(chunk), 'failures', len(rep['failures']), 'compile_errors', len(rep['compile_errors']),
                  'model', len(rep['model_failures']), '%ds' % (time.time() - t0))
            for f in rep['failures'][:3]:
                print('  F', f['source'][:170], f['operation'], str(f['expected'])[:80], str(f['observed'])[:120])
            for ce in list(rep['compile_errors'].values())[:3]:
                print('  CE', ce['source'][:200], ce['errors'][:2])
sys.exit(1 if bad else 0)
