#!/usr/bin/env python3
"""Copy a sub-agent's deliverable (/tmp/seed2/<Cxx>/out/{patch,seeded_demo,meta}_<v>.*) into /verif/seeded/<Cxx>-2<v>/."""
import json, os, shutil, sys
VERIF = os.path.dirname(os.path.dirname(os.path.abspath(__file__)))
prop, v = sys.argv[1], sys.argv[2]
src = '/tmp/seed2/%s/out' % prop
dst = os.path.join(VERIF, 'seeded', '%s-2%s' % (prop, v))
os.makedirs(dst, exist_ok=True)
shutil.copy(os.path.join(src, 'patch_%s.diff' % v), os.path.join(dst, 'patch.diff'))
shutil.copy(os.path.join(src, 'seeded_demo_%s.rs' % v), os.path.join(dst, 'seeded_demo.rs'))
meta = json.load(open(os.path.join(src, 'meta_%s.json' % v)))
meta['property'] = prop
meta['round'] = 2
json.dump(meta, open(os.path.join(dst, 'meta.json'), 'w'), indent=1)
print(dst)
