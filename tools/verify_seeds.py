#!/usr/bin/env python3
"""Confirm every seeded change myself in a scratch worktree of /repo (outside /repo and /verif):
 with the change: the demonstration fails and the pinned suite passes; without it: the demonstration passes.
Writes the outcome into seeded/<id>/meta.json under "verified_by_main"."""
import json, os, shutil, subprocess, sys
VERIF = os.path.dirname(os.path.dirname(os.path.abspath(__file__)))
FEATS = {'C18': ['--features', 'zeroize'], 'C19': ['--features', 'zeroize-on-drop'], 'C13': ['--features', 'safe']}
ids = sys.argv[1:] or sorted(os.listdir(os.path.join(VERIF, 'seeded')))


def run(cmd, cwd):
    p = subprocess.run(cmd, cwd=cwd, stdout=subprocess.PIPE, stderr=subprocess.STDOUT, text=True)
    return p.returncode, p.stdout


for sid in ids:
    d = os.path.join(VERIF, 'seeded', sid)
    wt = '/tmp/sv/' + sid
    subprocess.run(['git', '-C', '/repo', 'worktree', 'remove', '--force', wt], capture_output=True)
    os.makedirs('/tmp/sv', exist_ok=True)
    subprocess.run(['git', '-C', '/repo', 'worktree', 'add', '-q', '--detach', wt, 'HEAD'], check=True)
    res = {}
    try:
        env_target = ['--target-dir', '/tmp/sv/target-' + sid]
        # sub-agent demos of rounds 2+ were written as tests/seeded_demo_<a|b>.rs (some assert on the crate name)
        tname = 'seeded_demo_' + sid[-1] if sid[-1] in 'ab' and '-' in sid else 'seeded_demo'
        shutil.copy(os.path.join(d, 'seeded_demo.rs'), os.path.join(wt, 'tests', tname + '.rs'))
        if os.path.isdir(os.path.join(d, 'seeded_demo_cases')):
            shutil.copytree(os.path.join(d, 'seeded_demo_cases'), os.path.join(wt, 'tests', 'seeded_demo_cases'))
        meta0 = json.load(open(os.path.join(d, 'meta.json')))
        feats = FEATS.get(sid, [])
        if meta0.get('demo_features'):
            fl = meta0['demo_features']
            fl = [x for x in fl if not x.startswith('--')] if isinstance(fl, list) else [fl]
            feats = ['--features', ','.join(fl)] if fl else []
        nightly = ['+nightly'] if feats and 'nightly' in feats[1] else []
        demo = ['cargo'] + nightly + ['test', '--offline', '--test', tname] + feats + env_target
        rc0, out0 = run(demo, wt)
        res['demo_without_change'] = 'pass' if rc0 == 0 else 'FAIL'
        rc, out = run(['git', 'apply', os.path.join(d, 'patch.diff')], wt)
        if rc != 0:
            res['error'] = 'patch does not apply: ' + out[-300:]
        else:
            rc1, out1 = run(demo, wt)
            res['demo_with_change'] = 'fails' if rc1 != 0 else 'PASSES'
            res['demo_with_change_tail'] = out1.strip().split('\n')[-3:]
            os.rename(os.path.join(wt, 'tests', tname + '.rs'), os.path.join(wt, 'seeded_demo.rs.aside'))
            rc2, out2 = run(['cargo', 'test', '--workspace', '--no-fail-fast', '--offline'] + env_target, wt)
            passed = sum(int(l.split('ok. ')[1].split(' passed')[0]) for l in out2.split('\n') if l.startswith('test result: ok.'))
            res['suite_with_change'] = 'pass (%d tests)' % passed if rc2 == 0 else 'FAIL'
            if feats:
                rc3, out3 = run(['cargo'] + nightly + ['test', '--no-fail-fast', '--offline', '--lib', '--tests'] + feats + env_target, wt)
                res['suite_with_change_' + feats[1]] = 'pass' if rc3 == 0 else 'FAIL'
        res['commands'] = [' '.join(demo), 'git apply patch.diff', ' '.join(demo), 'cargo test --workspace --no-fail-fast --offline']
    finally:
        subprocess.run(['git', '-C', '/repo', 'worktree', 'remove', '--force', wt], capture_output=True)
        shutil.rmtree('/tmp/sv/target-' + sid, ignore_errors=True)
    mp = os.path.join(d, 'meta.json')
    meta = json.load(open(mp))
    meta['verified_by_main'] = res
    meta['base_commit'] = subprocess.run(['git', '-C', '/repo', 'rev-parse', '--short', 'HEAD'], capture_output=True, text=True).stdout.strip()
    json.dump(meta, open(mp, 'w'), indent=1)
    print(sid, {k: v for k, v in res.items() if k not in ('commands', 'demo_with_change_tail')}, flush=True)
