import DW.Basic
import DW.Validate
import DW.Ast
import DW.Gen
import DW.Render
import DW.Sexp
import DW.Message
