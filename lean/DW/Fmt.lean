import DW.Spec

/-!
# `core::fmt`'s `DebugStruct` / `DebugTuple` builders (C10)

The generated `fn fmt` only *calls* the formatter (`debug_struct`, `field`, `finish`, `finish_non_exhaustive`,
`debug_tuple`, `write_str`); what those calls print is `core`'s.  This file models the builders the way
`library/core/src/fmt/builders.rs` implements them — a state (`has_fields` / the number of fields) threaded through
the calls, `{:#?}` through a `PadAdapter` that indents every line by four spaces — and renders a transcript of
formatter calls to the text `{:?}` / `{:#?}` produce.  `render_struct` / `render_tuple` show that the state machines
print the closed forms everybody knows from std's derive (`Name { a: 1, b: 2 }`, `Name { a: 1, .. }`, `Name(1, 2)`,
and the one-field-per-line pretty forms).  Correspondence B compares the rendered text of the specification with what
the real impls print (the leaf values' own `Debug` text is substituted by the harness).
-/

namespace DW.Fmt

/-- `PadAdapter::write_str`: four spaces in front of every line that gets a character. -/
def padChars : Bool → List Char → List Char
  | _, [] => []
  | onNewline, c :: cs => (if onNewline then [' ', ' ', ' ', ' '] else []) ++ c :: padChars (c == '\n') cs

def pad (s : String) : String := String.ofList (padChars true s.toList)

/-- `DebugStruct`: the text written so far and `has_fields`. -/
structure DS where
  out : String
  hasFields : Bool

def debugStruct (name : String) : DS := ⟨name, false⟩

/-- `DebugStruct::field`. -/
def DS.field (pretty : Bool) (b : DS) (name value : String) : DS :=
  if pretty then
    ⟨b.out ++ (if b.hasFields then "" else " {\n") ++ pad (name ++ ": " ++ value ++ ",\n"), true⟩
  else
    ⟨b.out ++ (if b.hasFields then ", " else " { ") ++ name ++ ": " ++ value, true⟩

/-- `DebugStruct::finish`. -/
def DS.finish (pretty : Bool) (b : DS) : String :=
  if b.hasFields then b.out ++ (if pretty then "}" else " }") else b.out

/-- `DebugStruct::finish_non_exhaustive`. -/
def DS.finishNonExhaustive (pretty : Bool) (b : DS) : String :=
  if b.hasFields then
    if pretty then b.out ++ pad "..\n" ++ "}" else b.out ++ ", .. }"
  else b.out ++ " { .. }"

/-- `DebugTuple`: the text written so far, the number of fields, `empty_name`. -/
structure DT where
  out : String
  fields : Nat
  emptyName : Bool

def debugTuple (name : String) : DT := ⟨name, 0, name.isEmpty⟩

/-- `DebugTuple::field`. -/
def DT.field (pretty : Bool) (b : DT) (value : String) : DT :=
  if pretty then
    { b with out := b.out ++ (if b.fields = 0 then "(\n" else "") ++ pad (value ++ ",\n"), fields := b.fields + 1 }
  else
    { b with out := b.out ++ (if b.fields = 0 then "(" else ", ") ++ value, fields := b.fields + 1 }

/-- `DebugTuple::finish`. -/
def DT.finish (pretty : Bool) (b : DT) : String :=
  if b.fields > 0 then
    b.out ++ (if b.fields = 1 && b.emptyName && !pretty then "," else "") ++ ")"
  else b.out

/-! ### Closed forms -/

def joinSep (sep : String) : List String → String
  | [] => ""
  | [x] => x
  | x :: rest => x ++ sep ++ joinSep sep rest

def concatAll : List String → String
  | [] => ""
  | x :: rest => x ++ concatAll rest

/-- What std's derive prints for a braced shape. -/
def structText (pretty : Bool) (name : String) (fields : List (String × String)) (nonExhaustive : Bool) : String :=
  match fields with
  | [] => if nonExhaustive then name ++ " { .. }" else name
  | _ =>
    if pretty then
      name ++ " {\n" ++ concatAll (fields.map fun f => pad (f.1 ++ ": " ++ f.2 ++ ",\n")) ++
        (if nonExhaustive then pad "..\n" else "") ++ "}"
    else
      name ++ " { " ++ joinSep ", " (fields.map fun f => f.1 ++ ": " ++ f.2) ++
        (if nonExhaustive then ", .. }" else " }")

/-- What std's derive prints for a tuple shape with a non-empty name. -/
def tupleText (pretty : Bool) (name : String) (values : List String) : String :=
  match values with
  | [] => name
  | _ =>
    if pretty then name ++ "(\n" ++ concatAll (values.map fun v => pad (v ++ ",\n")) ++ ")"
    else name ++ "(" ++ joinSep ", " values ++ ")"

theorem ds_fold_pretty (fields : List (String × String)) (b : DS) (hb : b.hasFields = true) :
    fields.foldl (fun b f => b.field true f.1 f.2) b =
      ⟨b.out ++ concatAll (fields.map fun f => pad (f.1 ++ ": " ++ f.2 ++ ",\n")), true⟩ := by
  induction fields generalizing b with
  | nil => cases b; simp_all [concatAll]
  | cons f fs ih =>
    simp only [List.foldl_cons, List.map_cons, concatAll]
    rw [ih _ (by simp [DS.field])]
    simp [DS.field, hb, String.append_assoc]

theorem ds_fold_compact (fields : List (String × String)) (b : DS) (hb : b.hasFields = true) :
    fields.foldl (fun b f => b.field false f.1 f.2) b =
      ⟨b.out ++ concatAll (fields.map fun f => ", " ++ f.1 ++ ": " ++ f.2), true⟩ := by
  induction fields generalizing b with
  | nil => cases b; simp_all [concatAll]
  | cons f fs ih =>
    simp only [List.foldl_cons, List.map_cons, concatAll]
    rw [ih _ (by simp [DS.field])]
    simp [DS.field, hb, String.append_assoc]

theorem joinSep_cons (x : String) (xs : List String) :
    joinSep ", " (x :: xs) = x ++ concatAll (xs.map fun y => ", " ++ y) := by
  induction xs generalizing x with
  | nil => simp [joinSep, concatAll]
  | cons y ys ih => simp [joinSep, concatAll, ih y, String.append_assoc]

/-- The `DebugStruct` state machine prints the closed form, in both modes, with and without `..`. -/
theorem render_struct (pretty : Bool) (name : String) (fields : List (String × String)) (ne : Bool) :
    (let b := fields.foldl (fun b f => b.field pretty f.1 f.2) (debugStruct name)
     if ne then b.finishNonExhaustive pretty else b.finish pretty) = structText pretty name fields ne := by
  cases fields with
  | nil => cases ne <;> simp [debugStruct, DS.finish, DS.finishNonExhaustive, structText]
  | cons f fs =>
    cases pretty with
    | true =>
      simp only [List.foldl_cons]
      rw [ds_fold_pretty fs _ (by simp [DS.field])]
      cases ne <;>
        simp [debugStruct, DS.field, DS.finish, DS.finishNonExhaustive, structText, concatAll, String.append_assoc]
    | false =>
      simp only [List.foldl_cons]
      rw [ds_fold_compact fs _ (by simp [DS.field])]
      cases ne <;> simp only [structText, List.map_cons] <;> rw [joinSep_cons] <;>
        simp [debugStruct, DS.field, DS.finish, DS.finishNonExhaustive, List.map_map, Function.comp_def,
          String.append_assoc]

theorem dt_fold_pretty (values : List String) (b : DT) (hb : b.fields > 0) :
    values.foldl (fun b v => b.field true v) b =
      { b with out := b.out ++ concatAll (values.map fun v => pad (v ++ ",\n")), fields := b.fields + values.length } := by
  induction values generalizing b with
  | nil => cases b; simp_all [concatAll]
  | cons v vs ih =>
    simp only [List.foldl_cons, List.map_cons, concatAll, List.length_cons]
    rw [ih _ (by simp [DT.field])]
    have : b.fields ≠ 0 := by omega
    simp [DT.field, this, String.append_assoc]
    omega

theorem dt_fold_compact (values : List String) (b : DT) (hb : b.fields > 0) :
    values.foldl (fun b v => b.field false v) b =
      { b with out := b.out ++ concatAll (values.map fun v => ", " ++ v), fields := b.fields + values.length } := by
  induction values generalizing b with
  | nil => cases b; simp_all [concatAll]
  | cons v vs ih =>
    simp only [List.foldl_cons, List.map_cons, concatAll, List.length_cons]
    rw [ih _ (by simp [DT.field])]
    have : b.fields ≠ 0 := by omega
    simp [DT.field, this, String.append_assoc]
    omega

/-- The `DebugTuple` state machine prints the closed form (for a non-empty name: the only case of a derived impl). -/
theorem render_tuple (pretty : Bool) (name : String) (values : List String) (hn : name.isEmpty = false) :
    (values.foldl (fun b v => b.field pretty v) (debugTuple name)).finish pretty = tupleText pretty name values := by
  cases values with
  | nil => simp [debugTuple, DT.finish, tupleText]
  | cons v vs =>
    cases pretty with
    | true =>
      simp only [List.foldl_cons]
      rw [dt_fold_pretty vs _ (by simp [DT.field, debugTuple])]
      simp [debugTuple, DT.field, DT.finish, tupleText, concatAll, String.append_assoc]
    | false =>
      simp only [List.foldl_cons]
      rw [dt_fold_compact vs _ (by simp [DT.field, debugTuple])]
      simp only [tupleText]
      rw [joinSep_cons]
      simp [debugTuple, DT.field, DT.finish, hn, String.append_assoc]

end DW.Fmt

namespace DW.Fmt

variable {α : Type}

/-- Where the formatter is within one `fmt` call. -/
inductive St where
  | start
  | ds (b : DS)
  | dt (b : DT)
  | done (s : String)

/-- One formatter call. `nameOf`: the text of the name literals; `leaf`: the `Debug` text of a field value (in the
mode of the call). Calls out of order (a `field` after `finish`, ..) are not transcripts of a builder: `none`. -/
def step (pretty : Bool) (nameOf : StrLit → String) (leaf : α → String) : St → Event α → Option St
  | .start, .debugStruct s => some (.ds (debugStruct (nameOf s)))
  | .start, .debugTuple s => some (.dt (debugTuple (nameOf s)))
  | .start, .writeStr s => some (.done (nameOf s))
  | .ds b, .fmtField (some n) a => some (.ds (b.field pretty (nameOf n) (leaf a)))
  | .dt b, .fmtField none a => some (.dt (b.field pretty (leaf a)))
  | .ds b, .finish => some (.done (b.finish pretty))
  | .ds b, .finishNonExhaustive => some (.done (b.finishNonExhaustive pretty))
  | .dt b, .finish => some (.done (b.finish pretty))
  | _, _ => none

def run (pretty : Bool) (nameOf : StrLit → String) (leaf : α → String) : St → Log α → Option St
  | s, [] => some s
  | s, e :: rest =>
    match step pretty nameOf leaf s e with
    | some s' => run pretty nameOf leaf s' rest
    | none => none

/-- The text a transcript of formatter calls prints. -/
def renderLog (pretty : Bool) (nameOf : StrLit → String) (leaf : α → String) (log : Log α) : Option String :=
  match run pretty nameOf leaf .start log with
  | some (.done s) => some s
  | _ => none

theorem run_append (pretty : Bool) (nameOf : StrLit → String) (leaf : α → String) (l1 l2 : Log α) (s : St) :
    run pretty nameOf leaf s (l1 ++ l2) =
      (run pretty nameOf leaf s l1).bind fun s' => run pretty nameOf leaf s' l2 := by
  induction l1 generalizing s with
  | nil => simp [run]
  | cons e l1 ih =>
    simp only [List.cons_append, run]
    cases step pretty nameOf leaf s e with
    | none => simp
    | some s' => exact ih s'

/-- The named fields std's derive would print for variant `k`: the fields not skipped for `Debug`. -/
def namedFields (it : Item) (leaf : α → String) (k : Nat) (fs : List (Val α)) (is : List Nat) : List (String × String) :=
  is.filterMap fun i => (leafAt fs i).map fun a => (it.strText (.fieldName k i), leaf a)

def tupleFields (leaf : α → String) (fs : List (Val α)) (is : List Nat) : List String :=
  is.filterMap fun i => (leafAt fs i).map leaf

theorem run_named (pretty : Bool) (it : Item) (leaf : α → String) (k : Nat) (fs : List (Val α)) (is : List Nat) (b : DS) :
    run pretty it.strText leaf (.ds b) (leafEvents fs is fun i a => .fmtField (some (.fieldName k i)) a) =
      some (.ds ((namedFields it leaf k fs is).foldl (fun b f => b.field pretty f.1 f.2) b)) := by
  induction is generalizing b with
  | nil => simp [leafEvents, namedFields, run]
  | cons i is ih =>
    simp only [leafEvents, namedFields, List.filterMap_cons] at ih ⊢
    cases leafAt fs i with
    | none => simpa using ih b
    | some a => simpa [run, step] using ih _

theorem run_tuple (pretty : Bool) (nameOf : StrLit → String) (leaf : α → String) (fs : List (Val α)) (is : List Nat)
    (b : DT) :
    run pretty nameOf leaf (.dt b) (leafEvents fs is fun _ a => .fmtField none a) =
      some (.dt ((tupleFields leaf fs is).foldl (fun b v => b.field pretty v) b)) := by
  induction is generalizing b with
  | nil => simp [leafEvents, tupleFields, run]
  | cons i is ih =>
    simp only [leafEvents, tupleFields, List.filterMap_cons] at ih ⊢
    cases leafAt fs i with
    | none => simpa using ih b
    | some a => simpa [run, step] using ih _

/-- **What `{:?}` / `{:#?}` print for a value, as std's derive would on the same data without the skipped fields:**
the name, then the non-skipped fields in the style of the shape, then `..` iff the shape is braced and a field is
skipped. -/
def specDebugText (pretty : Bool) (it : Item) (leaf : α → String) : Val α → Option String
  | .adt k fs =>
    match it.variants[k]? with
    | some d =>
      match d.shape with
      | .named =>
        some (structText pretty (it.strText (.dataName k)) (namedFields it leaf k fs (d.relevantIdx .debug))
          (d.someSkipped .debug))
      | .tuple => some (tupleText pretty (it.strText (.dataName k)) (tupleFields leaf fs (d.relevantIdx .debug)))
      | .unit => some (it.strText (.dataName k))
      | .union => none
    | none => none
  | _ => none

/-- The transcript of the specification renders to that text (names of tuple shapes are not empty: identifiers). -/
theorem renderLog_spec (pretty : Bool) (it : Item) (leaf : α → String) (k : Nat) (fs : List (Val α)) (d : Data)
    (hd : it.variants[k]? = some d) (hu : d.shape ≠ .union) (hn : (it.strText (.dataName k)).isEmpty = false) :
    renderLog pretty it.strText leaf (specDebugLog it (.adt k fs)) = specDebugText pretty it leaf (.adt k fs) := by
  simp only [specDebugLog, specDebugText, hd]
  cases hs : d.shape with
  | union => exact absurd hs hu
  | unit => simp [renderLog, run, step]
  | named =>
    simp only [renderLog, List.append_assoc, List.cons_append, List.nil_append, run, step]
    rw [run_append, run_named]
    have := render_struct pretty (it.strText (.dataName k)) (namedFields it leaf k fs (d.relevantIdx .debug))
      (d.someSkipped .debug)
    simp only [] at this
    cases hsk : d.someSkipped .debug <;> simp [hsk, run, step] at this ⊢ <;> exact this
  | tuple =>
    simp only [renderLog, List.append_assoc, List.cons_append, List.nil_append, run, step]
    rw [run_append, run_tuple]
    have := render_tuple pretty (it.strText (.dataName k)) (tupleFields leaf fs (d.relevantIdx .debug)) hn
    simp [run, step, this]

end DW.Fmt
