import DW.Basic

/-! # Error texts (`error.rs`) -/

namespace DW

def traitList (c : Cfg) : String :=
  ", ".intercalate (["Clone", "Copy", "Debug", "Default", "Eq", "Hash", "Ord", "PartialEq", "PartialOrd"]
    ++ (if c.zeroize then ["Zeroize", "ZeroizeOnDrop"] else []))

def skipGroupList (c : Cfg) : String :=
  ", ".intercalate (["Debug", "EqHashOrd", "Hash"] ++ (if c.zeroize then ["Zeroize"] else []))

/-- The message of each error; `*` stands for text produced by `syn`. -/
def Err.message (c : Cfg) : Err → String
  | .visited => "`#[derive_where(..)` was already applied to this item before, this occurs when using a qualified path for any `#[derive_where(..)`s except the first"
  | .pathUnnecessary d => s!"unnecessary path qualification, `{d}` is used by default"
  | .crate_ => "the `crate` option has to be defined in it's own `#[derive_where(..)` attribute"
  | .none => "no traits found to implement, use `#[derive_where(..)` to specify some"
  | .empty => "empty `derive_where` found"
  | .useCase => "this can be handled by standard `#[derive(..)]`, use a `skip` or `incomparable` attribute, implement `Default` on an enum, or different generic type parameters"
  | .itemEmpty => "derive-where doesn't support empty items, as this can already be handled by standard `#[derive(..)]`"
  | .union => "traits other then `Clone` and `Copy` aren't supported by unions"
  | .optionTrait a => s!"`{a}` doesn't support this option"
  | .option => "unknown option"
  | .options t => s!"`{t}` doesn't support any options"
  | .optionSyntax => "unexpected option syntax"
  | .optionEmpty => "empty attribute option found"
  | .optionRequired o => s!"`{o}` requires an option"
  | .optionDuplicate o => s!"duplicate `{o}` option"
  | .optionEnumSkipInner => "enums don't support `skip_inner`, use it on a variant instead"
  | .optionSkipInner => "unexpected `skip` on a field when parent already uses `skip_inner` with this trait"
  | .optionSkipEmpty => "no fields to skip"
  | .optionSkipAll => "unexpected constraint on `skip` when unconstrained `skip` already used"
  | .optionSkipDuplicate t => s!"duplicate `{t}` constraint on `skip`"
  | .optionSkipNoTrait => "no trait that can be skipped is being implemented"
  | .optionSkipTrait => "trait to be skipped isn't being implemented"
  | .skipGroup => s!"unsupported skip group, expected one of {skipGroupList c}"
  | .path => "expected path, *"
  | .trait_ => s!"unsupported trait, expected one of {traitList c}"
  | .traitSyntax => s!"unsupported trait syntax, expected one of {traitList c}"
  | .deriveWhereDelimiter => "expected `;` or `,"
  | .generic => "only type predicates are supported"
  | .genericSyntax => "expected type to bind to, *"
  | .traitDuplicate => "duplicate trait with the same bound"
  | .reprUnknown => "found unknown representation"
  | .reprDiscriminantInvalid => "enums with non-empty variants and custom discriminants require a integer representation"
  | .default => "`default` is only supported if `Default` is being implemented"
  | .defaultMissing => "required `default` option on a variant if `Default` is being implemented"
  | .defaultDuplicate => "multiple `default` options in enum"
  | .incomparable => "`incomparable` is only supported if `PartialEq` or `PartialOrd` is being implemented"
  | .nonPartialIncomparable => "`incomparable` is not supported if `Eq` or `Ord` is being implemented"
  | .incomparableOnItemAndVariant => "`incomparable` cannot be specified on both item and variant"
  | .zeroize => "`Zeroize` option is only supported if `Zeroize` is being implemented"
  | .deprecatedZeroizeDrop => "`Zeroize(drop)` is deprecated, use `ZeroizeOnDrop` instead"
  | .syn => "*"
  | .panic s => s

end DW
