import DW.Typing
import DW.Render

/-!
# Mutants of generated bodies (driver code for correspondence T)

`DW/Typing.lean` is a *model* of rustc's type checker on the fragment the expansion uses.  To compare the two beyond
the programs the macro generates, the driver perturbs generated method bodies at one node (another field, another
trait function, a dropped argument, a swapped branch, a missing `&`, …), asks the model's checker for its verdict and
prints the mutant's tokens; `gen/tharness.py` compiles the same tokens with rustc.  No theorem depends on this file.
-/

namespace DW

/-- `some n`: skip `n` more rewrite sites; `none`: the rewrite has been applied. -/
abbrev MutM := StateM (Option Nat)

def nextTraitFn : TraitFn → TraitFn
  | .eq => .partialCmp | .partialCmp => .cmp | .cmp => .hash | .hash => .clone | .clone => .zeroize | .zeroize => .eq

/-- Local rewrites of one node. -/
def rewrites : List (Expr → Option Expr) := [
  -- 0: the next field
  fun e => match e with
    | .var (.selfField k i) => some (.var (.selfField k (i + 1)))
    | .var (.otherField k i) => some (.var (.otherField k (i + 1)))
    | _ => none,
  -- 1: the previous field
  fun e => match e with
    | .var (.selfField k (i + 1)) => some (.var (.selfField k i))
    | .var (.otherField k (i + 1)) => some (.var (.otherField k i))
    | _ => none,
  -- 2: the other side
  fun e => match e with
    | .var (.otherField k i) => some (.var (.selfField k i))
    | _ => none,
  -- 3: another constant
  fun e => match e with
    | .equal => some .none_
    | .none_ => some .equal
    | .litBool _ => some .equal
    | _ => none,
  -- 4: another trait function
  fun e => match e with
    | .call (.traitFn f) args => some (.call (.traitFn (nextTraitFn f)) args)
    | _ => none,
  -- 5: a reference less
  fun e => match e with
    | .ref e => some e
    | _ => none,
  -- 6: a reference more
  fun e => match e with
    | .var (.selfField k i) => some (.ref (.var (.selfField k i)))
    | .var (.otherField k i) => some (.ref (.var (.otherField k i)))
    | _ => none,
  -- 7: branches swapped
  fun e => match e with
    | .ifElse c t e => some (.ifElse c e t)
    | _ => none,
  -- 8: another scrutinee
  fun e => match e with
    | .match_ (.tuple _) arms => some (.match_ (.var .self_) arms)
    | .match_ (.var .self_) arms => some (.match_ (.tuple [.var .self_, .var .self_]) arms)
    | _ => none,
  -- 9: no cast / no dereference
  fun e => match e with
    | .cast e _ => some e
    | .deref e => some e
    | _ => none,
  -- 10: a field / argument less
  fun e => match e with
    | .structLit k (_ :: fs) => some (.structLit k fs)
    | .call f (_ :: as) => some (.call f as)
    | _ => none,
  -- 11: two fields / arguments swapped
  fun e => match e with
    | .structLit k (f1 :: f2 :: fs) => some (.structLit k (f2 :: f1 :: fs))
    | .call f (a1 :: a2 :: as) => some (.call f (a2 :: a1 :: as))
    | _ => none,
  -- 12: the pattern of the first arm names the next variant
  fun e => match e with
    | .match_ s (.mk (.ctor k sd m) b c :: rest) => some (.match_ s (.mk (.ctor (k + 1) sd m) b c :: rest))
    | .match_ s (.mk (.tuple [.ctor k sd m, q]) b c :: rest) =>
      some (.match_ s (.mk (.tuple [.ctor (k + 1) sd m, q]) b c :: rest))
    | _ => none,
  -- 13: the first statement of a block dropped (not a definition: the resolved syntax tree carries the body of
  -- `__discriminant` / the meaning of `__AssertEq` at the use site, so it cannot express "used but not defined")
  fun e => match e with
    | .block (.semi _ :: ss) tail => some (.block ss tail)
    | .block (.let_ _ _ :: ss) tail => some (.block ss tail)
    | .block (.ifRet _ _ :: ss) tail => some (.block ss tail)
    | _ => none,
  -- 14: the first two arms swapped
  fun e => match e with
    | .match_ s (a1 :: a2 :: rest) => some (.match_ s (a2 :: a1 :: rest))
    | _ => none,
  -- 15: operands swapped
  fun e => match e with
    | .binop op a b => some (.binop op b a)
    | _ => none,
  -- 16: `Some(..)` removed / added
  fun e => match e with
    | .call .some_ [e] => some e
    | .equal => some (.call .some_ [.equal])
    | _ => none,
  -- 17: the tail of a block replaced by its first statement's expression
  fun e => match e with
    | .block (.semi s :: ss) _ => some (.block ss s)
    | _ => none,
  -- 18: the pattern of the first arm becomes a constant pattern
  fun e => match e with
    | .match_ s (.mk .wild b c :: rest) => some (.match_ s (.mk .equal b c :: rest))
    | .match_ s (.mk .equal b c :: rest) => some (.match_ s (.mk .someEqual b c :: rest))
    | .match_ s (.mk .someEqual b c :: rest) => some (.match_ s (.mk .equal b c :: rest))
    | _ => none
]

def tryAt (rw : Expr → Option Expr) (e : Expr) : MutM (Option Expr) := do
  match ← get with
  | none => pure none
  | some n =>
    match rw e with
    | none => pure none
    | some e' =>
      if n = 0 then do set (none : Option Nat); pure (some e')
      else do set (some (n - 1)); pure none

mutual
partial def mutE (rw : Expr → Option Expr) (e : Expr) : MutM Expr := do
  match ← tryAt rw e with
  | some e' => pure e'
  | none =>
    match e with
    | .call f args => return .call f (← args.mapM (mutE rw))
    | .callT f args => return .callT f (← args.mapM (mutE rw))
    | .selfCall f args => return .selfCall f (← args.mapM (mutE rw))
    | .discFnCall body arg => return .discFnCall body (← mutE rw arg)
    | .methodCall r m => return .methodCall (← mutE rw r) m
    | .ref e => return .ref (← mutE rw e)
    | .refMut e => return .refMut (← mutE rw e)
    | .deref e => return .deref (← mutE rw e)
    | .cast e t => return .cast (← mutE rw e) t
    | .binop op a b => do
      let a' ← mutE rw a
      let b' ← mutE rw b
      return .binop op a' b'
    | .paren e => return .paren (← mutE rw e)
    | .tuple es => return .tuple (← es.mapM (mutE rw))
    | .ifElse c t e => do
      let c' ← mutE rw c
      let t' ← mutE rw t
      let e' ← mutE rw e
      return .ifElse c' t' e'
    | .match_ s arms => do
      let s' ← mutE rw s
      let arms' ← arms.mapM fun a => match a with
        | .mk p b c => do return Arm.mk p (← mutE rw b) c
      return .match_ s' arms'
    | .block stmts tail => do
      let stmts' ← stmts.mapM (mutS rw)
      let tail' ← mutE rw tail
      return .block stmts' tail'
    | .unsafe_ e => return .unsafe_ (← mutE rw e)
    | .ptrRead e t => return .ptrRead (← mutE rw e) t
    | .ret e => return .ret (← mutE rw e)
    | .structLit k fs => do
      let fs' ← fs.mapM fun f => match f with
        | .mk i b => do return FieldInit.mk i (← mutE rw b)
      return .structLit k fs'
    | .matches_ e p => return .matches_ (← mutE rw e) p
    | .seq es => return .seq (← es.mapM (mutE rw))
    | e => pure e
partial def mutS (rw : Expr → Option Expr) (s : Stmt) : MutM Stmt := do
  match s with
  | .let_ p e => return .let_ p (← mutE rw e)
  | .semi e => return .semi (← mutE rw e)
  | .ifRet c r => do
    let c' ← mutE rw c
    let r' ← mutE rw r
    return .ifRet c' r'
  | s => pure s
end

/-- The number of sites of a rewrite in `e`. -/
def countSites (rw : Expr → Option Expr) (e : Expr) : Nat :=
  let big := 1000000
  match (mutE rw e).run (some big) with
  | (_, some n) => big - n
  | (_, none) => 0

/-- The `idx`-th site rewritten (`none`: no such site). -/
def mutateAt (rw : Expr → Option Expr) (idx : Nat) (e : Expr) : Option Expr :=
  match (mutE rw e).run (some idx) with
  | (e', none) => some e'
  | (_, some _) => none

/-- A cheap deterministic mixer. -/
def mix (a b : Nat) : Nat := (a * 2654435761 + b * 40503 + 12345) % 4294967296

/-- `count` mutants of one method body. -/
def mutantsOf (seed count : Nat) (body : Expr) : List (Nat × Expr) :=
  (List.range count).filterMap fun j =>
    let h := mix seed (j + 1)
    let kind := h % rewrites.length
    match rewrites[kind]? with
    | none => none
    | some rw =>
      let n := countSites rw body
      if n = 0 then none
      else (mutateAt rw ((h / 97) % n) body).map fun b => (kind, b)

end DW
