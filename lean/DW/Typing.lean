import DW.Gen
import DW.Sem

/-!
# A static type checker for the emitted fragment (C02, C17)

`DW/Sem.lean` gives the fragment a dynamic meaning in which an ill-typed program is `stuck`.  This file gives it
a *static* one: a decidable checker `Expr.ty` that assigns every expression of the fragment a type the way rustc
does for these constructs, so that "the expansion type-checks" (C02) becomes a statement about the model instead of
an observation of rustc only.

Types are the ones the expansion manipulates: the item type `Self`, the (opaque) type of field `i` of variant `k`,
shared and mutable references, `bool`, `Ordering`, `Option<Ordering>`, integers (discriminant values; the width is
C12's business, not typing's), `mem::Discriminant<Self>`, `()`, `!`, `fmt::Result`, the formatter, its two builders,
`&str`, the hasher, and pairs.  Trait *obligations* (`FieldType: Trait`) are the subject of `DW/Syntactic4.lean`;
here a call `Trait::method(a, b)` is well-typed when its arguments have the shapes of the method's signature
(`&T, &T` for the same `T`, …).

Rust rules encoded (trusted, exercised by correspondence B whenever rustc compiles an expansion):
* a destructuring pattern of variant `k` matches `&Self` (binding `&FieldType`s) or, in its `ref mut` form,
  `&mut Self` (binding `&mut FieldType`s); the shared form also matches `&mut Self`;
* all arms of a `match` and both branches of an `if` have the same type, `!` coerces to anything;
* a `match` is exhaustive (E0004 otherwise): some arm is irrefutable, or the scrutinee is `&Self` / `&mut Self` and every
  variant has an arm; the pattern of a `let` is irrefutable;
* a braced struct literal lists every field once, in order, with the field's type; a tuple constructor takes the
  field types in order; a unit path is a value only for a unit variant;
* `e as int` needs an integer or a value of a field-less enum; `*e` needs a reference; `==` is used at
  `mem::Discriminant` and integers only; `&&`/`||` at `bool`;
* `return e` needs `e` of the function's return type and has type `!`.
-/

namespace DW

inductive Ty where
  | self_
  | field (k i : Nat)
  | ref (t : Ty)
  | refMut (t : Ty)
  | bool | ordering | optOrdering | int | memDisc | unit | never
  | fmtResult | formatter | builderS | builderT | str | hasher
  | pair (a b : Ty)
  deriving DecidableEq, Repr, Inhabited

abbrev TEnv := List (Var × Ty)

/-- Static context: the item (shapes and field counts of the variants) and the return type of the enclosing `fn`. -/
structure TyCx where
  it : Item
  ret : Ty

/-- Least upper bound under "`!` coerces to anything". -/
def Ty.join (a b : Ty) : Option Ty :=
  if a = .never then some b else if b = .never then some a else if a = b then some a else none

/-- `a` can be used where `e` is expected. -/
def Ty.fits (a e : Ty) : Bool := a = .never || a = e

def ctorBindTys (s : Side) (mut_ : Bool) (k n : Nat) : TEnv :=
  (List.range n).map fun i => (fieldVar s k i, if mut_ then Ty.refMut (.field k i) else .ref (.field k i))

def isSelfRef (t : Ty) : Bool := t = .ref .self_ || t = .refMut .self_

mutual
/-- The bindings a pattern introduces when matched against a scrutinee of type `t`; `none` = ill-typed pattern. -/
def Pat.bindTy (it : Item) : Pat → Ty → Option TEnv
  | .wild, _ => some []
  | .rest, _ => some []
  | .bind m x, t =>
    match m with
    | .ref_ => some [(x, .ref t)]
    | .refMut => none          -- `ref mut x` only occurs inside the destructuring patterns (`ctor`)
    | _ => some [(x, t)]
  | .ctor k s mut_, t =>
    match it.variants[k]? with
    | some d =>
      if (mut_ && t = .refMut .self_) || (!mut_ && isSelfRef t) then some (ctorBindTys s mut_ k d.fields.length)
      else none
    | none => none
  | .ctorAny k, t => if k < it.variants.length && isSelfRef t then some [] else none
  | .equal, t => if t = .ordering then some [] else none
  | .someEqual, t => if t = .optOrdering then some [] else none
  | .tuple ps, .pair a b => Pat.bindTys it ps [a, b]
  | .tuple _, _ => none
  | .or ps, t => if Pat.allFit it ps t then some [] else none
def Pat.bindTys (it : Item) : List Pat → List Ty → Option TEnv
  | [], [] => some []
  | p :: ps, t :: ts =>
    match p.bindTy it t, Pat.bindTys it ps ts with
    | some e1, some e2 => some (e1 ++ e2)
    | _, _ => none
  | _, _ => none
/-- Every alternative of an or-pattern fits the scrutinee and binds nothing. -/
def Pat.allFit (it : Item) : List Pat → Ty → Bool
  | [], _ => true
  | p :: ps, t =>
    (match p.bindTy it t with
      | some [] => true
      | _ => false) && Pat.allFit it ps t
end

mutual
/-- The pattern matches *every* value of the type (it is irrefutable there). -/
def Pat.total (it : Item) : Pat → Ty → Bool
  | .wild, _ => true
  | .rest, _ => true
  | .bind _ _, _ => true
  | .ctor k _ _, t => isSelfRef t && it.variants.length == 1 && k == 0
  | .ctorAny k, t => isSelfRef t && it.variants.length == 1 && k == 0
  | .tuple ps, .pair a b => Pat.totals it ps [a, b]
  | .or ps, t => Pat.anyTotal it ps t
  | _, _ => false
def Pat.totals (it : Item) : List Pat → List Ty → Bool
  | [], [] => true
  | p :: ps, t :: ts => p.total it t && Pat.totals it ps ts
  | _, _ => false
def Pat.anyTotal (it : Item) : List Pat → Ty → Bool
  | [], _ => false
  | p :: ps, t => p.total it t || Pat.anyTotal it ps t
end

mutual
/-- The pattern matches every value of variant `k` (of a reference to the item). -/
def Pat.coversVariant (k : Nat) : Pat → Bool
  | .wild => true
  | .rest => true
  | .bind _ _ => true
  | .ctor k' _ _ => k' == k
  | .ctorAny k' => k' == k
  | .or ps => Pat.anyCovers k ps
  | _ => false
def Pat.anyCovers (k : Nat) : List Pat → Bool
  | [] => false
  | p :: ps => p.coversVariant k || Pat.anyCovers k ps
end

def Arm.pat : Arm → Pat
  | .mk p _ _ => p

/-- rustc's exhaustiveness check on the fragment: some arm is irrefutable, or the scrutinee is a reference to the item
and every variant is covered by some arm. -/
def Arms.exhaustive (it : Item) (t : Ty) (arms : List Arm) : Bool :=
  arms.any (fun a => a.pat.total it t) ||
    (isSelfRef t && (List.range it.variants.length).all fun k => arms.any fun a => a.pat.coversVariant k)

def isFieldRef : Ty → Bool
  | .ref (.field _ _) => true
  | _ => false

/-- Result type of a library call on arguments of the given types. -/
def applyFnTy (it : Item) (f : Fn) (args : List Ty) : Option Ty :=
  match f, args with
  | .traitFn .eq, [.ref (.field k i), .ref (.field k' i')] => if k = k' ∧ i = i' then some .bool else none
  | .traitFn .partialCmp, [.ref (.field k i), .ref (.field k' i')] =>
    if k = k' ∧ i = i' then some .optOrdering else none
  | .traitFn .partialCmp, [.ref .int, .ref .int] => some .optOrdering
  | .traitFn .cmp, [.ref (.field k i), .ref (.field k' i')] => if k = k' ∧ i = i' then some .ordering else none
  | .traitFn .cmp, [.ref .int, .ref .int] => some .ordering
  | .traitFn .hash, [.ref (.field _ _), .refMut .hasher] => some .unit
  | .traitFn .hash, [.ref .memDisc, .refMut .hasher] => some .unit
  | .traitFn .clone, [.ref (.field k i)] => some (.field k i)
  | .traitFn .zeroize, [.refMut (.field _ _)] => some .unit
  | .memDiscriminant, [.ref .self_] => some .memDisc
  | .discriminantValue, [.ref .self_] => some .int
  | .some_, [.ordering] => some .optOrdering
  | .unreachableUnchecked, [] => some .never
  | .ctor k, ts =>
    match it.variants[k]? with
    | some d => if d.shape = .tuple ∧ ts = (List.range d.fields.length).map (Ty.field k) then some .self_ else none
    | none => none
  | .debugStruct, [.refMut .formatter, .str] => some .builderS
  | .debugTuple, [.refMut .formatter, .str] => some .builderT
  | .writeStr, [.refMut .formatter, .str] => some .fmtResult
  | .dsField, [.refMut .builderS, .str, .ref (.field _ _)] => some (.refMut .builderS)
  | .dtField, [.refMut .builderT, .ref (.field _ _)] => some (.refMut .builderT)
  | .dsFinish, [.refMut .builderS] => some .fmtResult
  | .dsFinishNonExhaustive, [.refMut .builderS] => some .fmtResult
  | .dtFinish, [.refMut .builderT] => some .fmtResult
  | _, _ => none

/-- Calls of the item's own sibling impls. -/
def selfCallTy (f : TraitFn) (args : List Ty) : Option Ty :=
  match f, args with
  | .clone, [.ref .self_] => some .self_
  | .cmp, [.ref .self_, .ref .self_] => some .ordering
  | .zeroize, [.refMut .self_] => some .unit
  | _, _ => none

def binopTy (op : BinOp) (a b : Ty) : Option Ty :=
  match op, a, b with
  | .and, .bool, .bool => some .bool
  | .or, .bool, .bool => some .bool
  | .eq, .memDisc, .memDisc => some .bool
  | .eq, .int, .int => some .bool
  | .add, .int, .int => some .int
  | _, _, _ => none

def Item.fieldless (it : Item) : Bool := it.variants.all (·.fields.isEmpty)

mutual
def Expr.ty (cx : TyCx) (Γ : TEnv) : Expr → Option Ty
  | .litBool _ => some .bool
  | .litInt _ => some .int
  | .litStr _ => some .str
  | .var x => Γ.lookup x
  | .equal => some .ordering
  | .none_ => some .optOrdering
  | .unitCtor k =>
    match cx.it.variants[k]? with
    | some d => if d.shape = .unit then some .self_ else none
    | none => none
  | .userDiscr k =>
    match cx.it.variants[k]? with
    | some d => if d.discriminant.isSome then some .int else none
    | none => none
  | .defaultCall k i =>
    match cx.it.variants[k]? with
    | some d => if i < d.fields.length then some (.field k i) else none
    | none => none
  | .call f args => (Expr.tys cx Γ args).bind (applyFnTy cx.it f)
  | .callT f args => (Expr.tys cx Γ args).bind (applyFnTy cx.it f)
  | .selfCall f args => (Expr.tys cx Γ args).bind (selfCallTy f)
  | .discFnCall body arg =>
    match arg.ty cx Γ, body.ty cx [(.this, .ref .self_)] with
    | some (.ref .self_), some t => if t.fits .int then some .int else none
    | _, _ => none
  | .validateConst _ body =>
    match body.ty cx [] with
    | some .int => some .int
    | _ => none
  | .methodCall recv _ =>
    match recv.ty cx Γ with
    | some (.refMut (.field _ _)) => some .unit
    | _ => none
  | .ref e => (e.ty cx Γ).map .ref
  | .refMut e =>
    match e.ty cx Γ with
    | some (.field _ _) => none       -- `&mut` of a field value (not a place) does not occur in the fragment
    | some t => some (.refMut t)
    | none => none
  | .deref e =>
    match e.ty cx Γ with
    | some (.ref t) => some t
    | _ => none
  | .cast e _ =>
    match e.ty cx Γ with
    | some .int => some .int
    | some .self_ => if cx.it.fieldless then some .int else none
    | _ => none
  | .binop op a b =>
    match a.ty cx Γ, b.ty cx Γ with
    | some ta, some tb => binopTy op ta tb
    | _, _ => none
  | .paren e => e.ty cx Γ
  | .tuple es =>
    match Expr.tys cx Γ es with
    | some [a, b] => some (.pair a b)
    | _ => none
  | .ifElse c t e =>
    match c.ty cx Γ, t.ty cx Γ, e.ty cx Γ with
    | some .bool, some tt, some te => tt.join te
    | _, _, _ => none
  | .match_ s arms =>
    match s.ty cx Γ with
    | some ts => if Arms.exhaustive cx.it ts arms then Arm.tys cx Γ ts arms else none
    | none => none
  | .block stmts tail =>
    match Stmt.checks cx Γ stmts with
    | some Γ' => tail.ty cx Γ'
    | none => none
  | .unsafe_ e => e.ty cx Γ
  | .ptrRead e _ =>
    match e.ty cx Γ with
    | some (.ref .self_) => some .int
    | _ => none
  | .ret e =>
    match e.ty cx Γ with
    | some t => if t.fits cx.ret then some .never else none
    | none => none
  | .structLit k fields =>
    match cx.it.variants[k]? with
    | some d =>
      if d.shape = .named ∧ FieldInit.check cx Γ k 0 fields ∧ fields.length = d.fields.length then some .self_
      else none
    | none => none
  | .matches_ e p =>
    match e.ty cx Γ with
    | some t => if (p.bindTy cx.it t).isSome then some .bool else none
    | none => none
  | .unreachable => some .never
  | .unit => some .unit
  | .seq es =>
    match es with
    | [e] => e.ty cx Γ
    | _ => none
def Expr.tys (cx : TyCx) (Γ : TEnv) : List Expr → Option (List Ty)
  | [] => some []
  | e :: es =>
    match e.ty cx Γ, Expr.tys cx Γ es with
    | some t, some ts => some (t :: ts)
    | _, _ => none
/-- The common type of the arms of a `match` on a scrutinee of type `ts` (`!` for no arms). -/
def Arm.tys (cx : TyCx) (Γ : TEnv) (ts : Ty) : List Arm → Option Ty
  | [] => some .never
  | .mk p e _ :: arms =>
    match p.bindTy cx.it ts with
    | some b =>
      match e.ty cx (b ++ Γ), Arm.tys cx Γ ts arms with
      | some t, some t' => t.join t'
      | _, _ => none
    | none => none
/-- Field initialisers `j, j+1, ..` of variant `k`, each of its field's type. -/
def FieldInit.check (cx : TyCx) (Γ : TEnv) (k : Nat) (j : Nat) : List FieldInit → Bool
  | [] => true
  | .mk i e :: fs =>
    i = j && (match e.ty cx Γ with
      | some t => t.fits (.field k i)
      | none => false) && FieldInit.check cx Γ k (j + 1) fs
def Stmt.check (cx : TyCx) (Γ : TEnv) : Stmt → Option TEnv
  | .let_ p e =>
    match e.ty cx Γ with
    | some t => if p.total cx.it t then (p.bindTy cx.it t).map (· ++ Γ) else none
    | none => none
  | .semi e => if (e.ty cx Γ).isSome then some Γ else none
  | .ifRet c r =>
    match c.ty cx Γ, r.ty cx Γ with
    | some .bool, some t => if t.fits cx.ret then some Γ else none
    | _, _ => none
  | .assertEq k i =>
    match cx.it.variants[k]? with
    | some d => if i < d.fields.length then some Γ else none
    | none => none
  | .discFn _ validate body =>
    match Stmt.checks cx [] validate, body.ty cx [(.this, .ref .self_)] with
    | some _, some t => if t.fits .int then some Γ else none
    | _, _ => none
  | .validateDef _ e =>
    match e.ty cx [] with
    | some .int => some Γ
    | _ => none
  | _ => some Γ
def Stmt.checks (cx : TyCx) (Γ : TEnv) : List Stmt → Option TEnv
  | [] => some Γ
  | s :: ss =>
    match s.check cx Γ with
    | some Γ' => Stmt.checks cx Γ' ss
    | none => none
end

/-- Parameters and return type of each signature (`build_signature` of each trait). -/
def Sig.params : Sig → TEnv
  | .eq | .partialCmp | .cmp => [(.self_, .ref .self_), (.other, .ref .self_)]
  | .clone | .assertEq => [(.self_, .ref .self_)]
  | .fmt => [(.self_, .ref .self_), (.f, .refMut .formatter)]
  | .default => []
  | .hash => [(.self_, .ref .self_), (.state, .refMut .hasher)]
  | .zeroize | .drop => [(.self_, .refMut .self_)]

def Sig.ret : Sig → Ty
  | .eq => .bool
  | .partialCmp => .optOrdering
  | .cmp => .ordering
  | .clone | .default => .self_
  | .fmt => .fmtResult
  | .assertEq | .hash | .zeroize | .drop => .unit

/-- The body of a generated `fn` has the signature's return type. -/
def Method'.wellTyped (it : Item) (m : Method') : Bool :=
  match m.body.ty ⟨it, m.sig.ret⟩ m.sig.params with
  | some t => t.fits m.sig.ret
  | none => false

end DW
