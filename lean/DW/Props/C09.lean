import DW.Lemmas.Fields

/-!
# C09 — clone() reproduces the value field by field; Copy shortcut only when sound

* `C09_fieldwise`: without the shortcut, `clone` returns the same variant with
  every field cloned through `ops.clone` — including fields skipped for other
  traits — and logs exactly one `Clone::clone` call per field, in order.
* `C09_shortcut`: with `Copy` in the same attribute and only custom bounds the
  body is `*self`: the value itself, no field calls.  (That `Self: Copy` is
  entailed there is `C02`/`C09_shortcut_sound`, a fact about where-clauses.)
* `C09_union`: a union is cloned by `*self` behind a `__AssertCopy<Self>` check.
* `C09_copy_marker`: the `Copy` impl has no items.
-/

namespace DW

variable {α : Type}

/-- The generated `fn clone` body. -/
def cloneMethodBody (it : Item) (dw : DeriveWhere) : Expr :=
  cloneSignature it dw (it.indexed.flatMap fun (k, d) => cloneBody dw k d)

theorem cloneBody_miss (dw : DeriveWhere) (k k' : Nat) (d : Data) (fs : List (Val α)) (h : k' ≠ k) :
    ∀ p e c, Arm.mk p e c ∈ cloneBody dw k' d → matchPat p (Val.adt k fs) = none := by
  intro p e c hm
  unfold cloneBody at hm
  split at hm
  · simp at hm
  · cases hs : d.shape <;> simp [hs] at hm
    all_goals
      obtain ⟨rfl, _, _⟩ := hm
      exact matchPat_ctor_ne k k' _ _ fs h

theorem C09_fieldwise (it : Item) (dw : DeriveWhere) (cx : SemCtx α)
    (hns : (dw.shortcut && dw.contains .copy) = false)
    (hwf : it.WF) (hnu : ∀ d ∈ it.variants, d.shape ≠ .union) (a : Val α) (ha : WfVal it a) :
    runMethod cx (cloneMethodBody it dw) a none = .ok (specCloneVal cx.ops a, specCloneLog a) := by
  cases a with
  | adt k fs =>
    obtain ⟨d, hd, hl, hleaf⟩ := ha
    have hdmem := List.mem_of_getElem? hd
    have hnotunion : isUnion it = false := by
      cases it with
      | enum_ => rfl
      | item d' =>
        have := hnu d' (by simp [Item.variants])
        simp only [isUnion]
        cases hs : d'.shape <;> simp_all
    rw [runMethod_one]
    simp only [cloneMethodBody, cloneSignature, hns, hnotunion, Bool.false_eq_true, if_false, eval, vSelf,
      env1_self, Out.bind_ok]
    have := evalArms_indexed cx (env1 (.adt k fs)) [] (.adt k fs) (fun k d => cloneBody dw k d) k
      (fun k' d' h => cloneBody_miss dw k k' d' fs h) it []
    simp only [List.append_nil, hd] at this
    refine (congrArg Out.finish this).trans ?_
    have hrel := relevantIdx_unskippable d .clone (Or.inl rfl)
    have hstep : ∀ i a log, fs[i]? = some (.leaf a) →
        eval cx (ctorBinds .self_ false k fs ++ env1 (.adt k fs)) log
          (.call (.traitFn .clone) [.var (.selfField k i)]) =
          .ok (.leaf (cx.ops.clone a), log ++ [.cloneField a]) := by
      intro i a log hget
      have hi : i < fs.length := by
        rcases Nat.lt_or_ge i fs.length with h | h
        · exact h
        · rw [List.getElem?_eq_none h] at hget; cases hget
      have hv : fs[i] = .leaf a := by
        rw [List.getElem?_eq_getElem hi] at hget; exact Option.some.inj hget
      simp [eval, evalList, selfArm_field k i false fs _ hi, hv, applyFn]
    have hrange : ∀ i ∈ List.range d.fields.length, i < fs.length := by
      intro i hi; simp at hi; omega
    unfold cloneBody
    simp only [hns, Bool.false_eq_true, if_false, specCloneVal, specCloneLog]
    cases hs : d.shape with
    | union => exact absurd hs (hnu d hdmem)
    | unit =>
      have hf0 : fs = [] := by
        have := (hwf d hdmem).unit_no_fields hs
        rw [this] at hl
        simpa using hl
      subst hf0
      simp [evalArms, matchPat_ctor_same, eval, Out.finish, leafEvents]
    | named =>
      have hmap := map_iterFields d .clone
        (fun i => FieldInit.mk i (.call (.traitFn .clone) [.var (.selfField k i)]))
      simp only [hmap, hrel, evalArms, matchPat_ctor_same, eval]
      rw [evalFields_fieldLoop cx _ fs (fun i => .call (.traitFn .clone) [.var (.selfField k i)])
        (fun _ a => .leaf (cx.ops.clone a)) (fun _ a => .cloneField a) hstep hleaf _ hrange []]
      simp [Out.finish, hl]
    | tuple =>
      have hmap := map_iterFields d .clone
        (fun i => Expr.call (.traitFn .clone) [.var (.selfField k i)])
      simp only [hmap, hrel, evalArms, matchPat_ctor_same, eval]
      rw [evalList_fieldLoop cx _ fs (fun i => .call (.traitFn .clone) [.var (.selfField k i)])
        (fun _ a => .leaf (cx.ops.clone a)) (fun _ a => .cloneField a) hstep hleaf _ hrange []]
      simp [applyFn, Out.finish, hl]
  | _ => exact ha.elim

theorem filterMap_congr' {β γ} {f g : β → Option γ} (l : List β) (h : ∀ a ∈ l, f a = g a) :
    l.filterMap f = l.filterMap g := by
  induction l with
  | nil => rfl
  | cons a l ih =>
    simp only [List.filterMap_cons, h a (by simp)]
    rw [ih (fun b hb => h b (by simp [hb]))]

/-- `specCloneVal` on a well-formed value is the field-wise map. -/
theorem specCloneVal_eq_map (ops : FieldOps α) (k : Nat) (fs : List (Val α))
    (hleaf : ∀ v ∈ fs, ∃ a, v = .leaf a) :
    specCloneVal ops (.adt k fs) = .adt k (fs.map fun v => match v with
      | .leaf a => .leaf (ops.clone a)
      | v => v) := by
  simp only [specCloneVal, Val.adt.injEq, true_and]
  apply List.ext_getElem?
  intro i
  by_cases hi : i < fs.length
  · obtain ⟨a, ha⟩ := hleaf fs[i] (List.getElem_mem _)
    have hget : fs[i]? = some (.leaf a) := by simp [List.getElem?_eq_getElem hi, ha]
    have hfm : ((List.range fs.length).filterMap fun i => (leafAt fs i).map fun a => Val.leaf (ops.clone a)) =
        (List.range fs.length).map fun i => (match fs[i]? with
          | some (.leaf a) => Val.leaf (ops.clone a)
          | _ => Val.unit) := by
      rw [← List.filterMap_eq_map']
      apply filterMap_congr'
      intro j hj
      simp only [List.mem_range] at hj
      obtain ⟨b, hb⟩ := hleaf fs[j] (List.getElem_mem _)
      have : fs[j]? = some (.leaf b) := by simp [List.getElem?_eq_getElem hj, hb]
      simp [leafAt_of fs j b this, this]
    rw [hfm]
    simp [List.getElem?_map, List.getElem?_range hi, hget]
  · have h1 : fs.length ≤ i := by omega
    have hlen : ((List.range fs.length).filterMap fun i => (leafAt fs i).map fun a => Val.leaf (ops.clone a)).length
        ≤ fs.length := by
      have := List.length_filterMap_le (fun i => (leafAt fs i).map fun a => Val.leaf (ops.clone a))
        (List.range fs.length)
      simpa using this
    rw [List.getElem?_eq_none (by omega), List.getElem?_eq_none (by simp; omega)]

/-- With `Copy` in the same attribute and no plain bound: `*self`. -/
theorem C09_shortcut (it : Item) (dw : DeriveWhere) (cx : SemCtx α)
    (hs : (dw.shortcut && dw.contains .copy) = true) (a : Val α) :
    runMethod cx (cloneMethodBody it dw) a none = .ok (a, []) := by
  rw [runMethod_one]
  simp [cloneMethodBody, cloneSignature, hs, eval, vSelf, Out.finish]

/-- A union is cloned bitwise, behind an `__AssertCopy<Self>` check. -/
theorem C09_union (it : Item) (dw : DeriveWhere) (cx : SemCtx α) (hu : isUnion it = true)
    (hns : (dw.shortcut && dw.contains .copy) = false) (a : Val α) :
    cloneMethodBody it dw = .block [.structAssertCopy, .assertCopySelf] (.deref vSelf) ∧
    runMethod cx (cloneMethodBody it dw) a none = .ok (a, []) := by
  constructor
  · simp [cloneMethodBody, cloneSignature, hns, hu]
  · rw [runMethod_one]
    simp [cloneMethodBody, cloneSignature, hns, hu, eval, evalStmts, vSelf, Out.finish]

/-- `Copy` is a marker impl: no items, declared where-clause. -/
theorem C09_copy_marker (c : Cfg) (inp : Input) (dw : DeriveWhere) :
    generateImpl c inp dw ⟨.copy, none⟩ =
      [{ trait := ⟨.copy, none⟩, isDrop := false, preds := implPreds inp.generics inp.item dw .copy,
         whereTrailing := inp.generics.predsTrailing && dw.generics.isEmpty, methods := [] }] := by
  simp [generateImpl, generateBody]

/-- Clone can never be skipped, stated on the generator: the `clone` arm of a data depends only on its shape and number
of fields — any two datas that differ in skip markers (data-level `skip_inner`, field-level `skip`), names,
`incomparable`, default or discriminant get the same arm under the same attribute. -/
theorem C09_skip_blind (dw : DeriveWhere) (k : Nat) (d d' : Data) (hs : d.shape = d'.shape)
    (hl : d.fields.length = d'.fields.length) :
    cloneBody dw k d = cloneBody dw k d' := by
  have h1 := map_iterFields d .clone
    (fun i => FieldInit.mk i (.call (.traitFn .clone) [.var (.selfField k i)]))
  have h2 := map_iterFields d' .clone
    (fun i => FieldInit.mk i (.call (.traitFn .clone) [.var (.selfField k i)]))
  have h3 := map_iterFields d .clone (fun i => Expr.call (.traitFn .clone) [.var (.selfField k i)])
  have h4 := map_iterFields d' .clone (fun i => Expr.call (.traitFn .clone) [.var (.selfField k i)])
  have r1 := relevantIdx_unskippable d .clone (Or.inl rfl)
  have r2 := relevantIdx_unskippable d' .clone (Or.inl rfl)
  simp only [cloneBody, ← hs]
  simp only [h1, h2, h3, h4, r1, r2, hl]

end DW
