import DW.Lemmas.Fields

/-!
# C18 — zeroize() wipes every non-skipped field of the live variant only
# C19 — dropping a ZeroizeOnDrop value zeroizes its non-skipped fields

* `C18_effect`: evaluating the generated `fn zeroize` on any value logs exactly
  one zeroize event per field of the live variant that is not skipped for
  `Zeroize`, in order; through `Zeroize::zeroize(field)` when the field carries
  `Zeroize(fqs)`, through `field.zeroize()` otherwise; nothing for the other
  fields.  The `match` has an arm for every variant (after the `fix:` commit
  for variants without fields to zeroize).
* `C19_effect_zod` (`zeroize-on-drop`): the generated `fn drop` sends
  `zeroize_or_on_drop` to exactly those fields.
* `C19_effect_delegating` (without): `drop` calls `Zeroize::zeroize(self)` once
  per variant that has a field to zeroize, i.e. at least once whenever there is
  something to zeroize.
* `C19_impls`: `impl Drop` always; the marker impl iff `zeroize-on-drop`.
-/

namespace DW

variable {α : Type}

def zvia (f : Field) : ZVia := if f.fqs then .fqs else .method

/-- The statement zeroizing field `i` of variant `k`. -/
def zeroizeStmt (d : Data) (k i : Nat) : Stmt :=
  if (d.fields.getD i default).fqs then .semi (.call (.traitFn .zeroize) [.var (.selfField k i)])
  else .semi (.methodCall (.var (.selfField k i)) .zeroize)

theorem map_iterFields2 {β} (d : Data) (t : Trait) (g : Nat → Field → β) :
    (d.iterFields t).map (fun p => g p.1 p.2) =
      (d.relevantIdx t).map fun i => g i (d.fields.getD i default) := by
  rw [← map_iterFields d t (fun i => g i (d.fields.getD i default))]
  apply List.map_congr_left
  intro p hp
  have := Data.iterFields_mem d t p hp
  simp [List.getD, this]

theorem zeroizeBody_miss (k k' : Nat) (d : Data) (fs : List (Val α)) (h : k' ≠ k) :
    ∀ p e c, Arm.mk p e c ∈ zeroizeBody k' d → matchPat p (Val.adt k fs) = none := by
  intro p e c hm
  unfold zeroizeBody at hm
  split at hm
  · simp at hm
    obtain ⟨rfl, _, _⟩ := hm
    exact matchPat_ctor_ne k k' _ _ fs h
  · cases hs : d.shape <;> simp [hs] at hm
    all_goals
      obtain ⟨rfl, _, _⟩ := hm
      exact matchPat_ctor_ne k k' _ _ fs h

theorem zodArms_miss (k k' : Nat) (d : Data) (fs : List (Val α)) (h : k' ≠ k) :
    ∀ p e c, Arm.mk p e c ∈ zodArms k' d → matchPat p (Val.adt k fs) = none := by
  intro p e c hm
  unfold zodArms at hm
  split at hm
  · simp at hm
    obtain ⟨rfl, _, _⟩ := hm
    exact matchPat_ctor_ne k k' _ _ fs h
  · cases hs : d.shape <;> simp [hs] at hm
    all_goals
      obtain ⟨rfl, _, _⟩ := hm
      exact matchPat_ctor_ne k k' _ _ fs h

/-- The generated `fn zeroize` body. -/
def zeroizeMethodBody (it : Item) : Expr :=
  zeroizeSignature it (it.indexed.flatMap fun (k, d) => zeroizeBody k d)

/-- Evaluation of the arm of variant `k` for a loop of per-field statements on
`ref mut` bindings. -/
theorem mutArm_loop (cx : SemCtx α) (k : Nat) (fs : List (Val α)) (env : Env α)
    (hleaf : ∀ v ∈ fs, ∃ a, v = .leaf a) (is : List Nat) (his : ∀ i ∈ is, i < fs.length)
    (mk : Nat → Expr) (via : Nat → ZVia)
    (hmk : ∀ i, mk i = .call (.traitFn .zeroize) [.var (.selfField k i)] ∧ via i = .fqs ∨
                mk i = .methodCall (.var (.selfField k i)) .zeroize ∧ via i = .method ∨
                mk i = .methodCall (.var (.selfField k i)) .zeroizeOrOnDrop ∧ via i = .orOnDrop)
    (log : Log α) :
    evalStmts cx (ctorBinds .self_ true k fs ++ env) log (is.map fun i => Stmt.semi (mk i)) =
      .ok (ctorBinds .self_ true k fs ++ env, log ++ leafEvents fs is fun i _ => .zeroize i (via i)) := by
  have := evalStmts_fieldLoop cx (ctorBinds .self_ true k fs ++ env) fs mk (fun i _ => .zeroize i (via i))
    (fun i a log hget => by
      have hi : i < fs.length := by
        rcases Nat.lt_or_ge i fs.length with h | h
        · exact h
        · rw [List.getElem?_eq_none h] at hget; cases hget
      have hv : fs[i] = .leaf a := by
        rw [List.getElem?_eq_getElem hi] at hget; exact Option.some.inj hget
      refine ⟨.unit, ?_⟩
      rcases hmk i with ⟨h1, h2⟩ | ⟨h1, h2⟩ | ⟨h1, h2⟩ <;>
        simp [h1, h2, eval, evalList, selfArm_field k i true fs _ hi, hv, applyFn])
    hleaf is his log []
  simpa [evalStmts] using this

theorem C18_effect (it : Item) (cx : SemCtx α) (hwf : it.WF)
    (hnu : ∀ d ∈ it.variants, d.shape ≠ .union) (a : Val α) (ha : WfVal it a) :
    runMethod cx (zeroizeMethodBody it) a none = .ok (.unit, specZeroizeLog it .zeroize zvia a) := by
  cases a with
  | adt k fs =>
    obtain ⟨d, hd, hl, hleaf⟩ := ha
    have hdmem := List.mem_of_getElem? hd
    rw [runMethod_one]
    simp only [specZeroizeLog, hd]
    -- the general `match self { .. }` form
    have hgeneral : (eval cx (env1 (.adt k fs)) []
        (.block [.useTrait] (.match_ vSelf (it.indexed.flatMap fun (k, d) => zeroizeBody k d)))).finish =
        .ok (.unit, leafEvents fs (d.relevantIdx .zeroize) fun i _ => .zeroize i (zvia (d.fields.getD i default))) := by
      simp only [eval, evalStmts, vSelf, env1_self, Out.bind_ok]
      have := evalArms_indexed cx (env1 (.adt k fs)) [] (.adt k fs) (fun k d => zeroizeBody k d) k
        (fun k' d' h => zeroizeBody_miss k k' d' fs h) it []
      simp only [List.append_nil, hd] at this
      refine (congrArg Out.finish this).trans ?_
      unfold zeroizeBody
      by_cases hemp : d.isEmpty .zeroize = true
      · simp [hemp, evalArms, matchPat_ctor_same, eval, evalStmts, Out.finish,
          relevantIdx_nil_of_isEmpty' d .zeroize hemp, leafEvents]
      · have hemp' : d.isEmpty .zeroize = false := by simpa using hemp
        have hshape := shape_of_nonempty' d .zeroize (hwf d hdmem) (hnu d hdmem) hemp'
        have hmap := map_iterFields2 d .zeroize (fun i (f : Field) =>
          if f.fqs then Stmt.semi (.call (.traitFn .zeroize) [.var (.selfField k i)])
          else Stmt.semi (.methodCall (.var (.selfField k i)) .zeroize))
        have hloop := mutArm_loop cx k fs (env1 (.adt k fs)) hleaf (d.relevantIdx .zeroize)
          (fun i hi => by have := relevantIdx_lt' d .zeroize i hi; omega)
          (fun i => if (d.fields.getD i default).fqs then .call (.traitFn .zeroize) [.var (.selfField k i)]
            else .methodCall (.var (.selfField k i)) .zeroize)
          (fun i => zvia (d.fields.getD i default))
          (fun i => by
            by_cases h : (d.fields.getD i default).fqs = true
            · exact Or.inl ⟨by simp only [h, if_true], by simp only [zvia, h, if_true]⟩
            · have h' : (d.fields.getD i default).fqs = false := Bool.eq_false_iff.mpr h
              refine Or.inr (Or.inl ⟨?_, ?_⟩)
              · rw [h']; rfl
              · unfold zvia; rw [h']; rfl) []
        have hmapeq : (d.relevantIdx .zeroize).map (fun i =>
            if (d.fields.getD i default).fqs then Stmt.semi (.call (.traitFn .zeroize) [.var (.selfField k i)])
            else Stmt.semi (.methodCall (.var (.selfField k i)) .zeroize)) =
            (d.relevantIdx .zeroize).map fun i => Stmt.semi
              (if (d.fields.getD i default).fqs then .call (.traitFn .zeroize) [.var (.selfField k i)]
               else .methodCall (.var (.selfField k i)) .zeroize) := by
          apply List.map_congr_left; intro i _; split <;> rfl
        rcases hshape with h | h <;>
          simp only [hemp', Bool.false_eq_true, if_false, h, hmap, hmapeq, evalArms, matchPat_ctor_same, eval,
            hloop, Out.bind_ok, Out.finish, List.nil_append]
    unfold zeroizeMethodBody zeroizeSignature
    cases it with
    | enum_ disc id inc vs => exact hgeneral
    | item d' =>
      have hdd : d' = d ∧ k = 0 := by
        simp only [Item.variants] at hd
        match k, hd with
        | 0, hd => simp at hd; exact ⟨hd, rfl⟩
        | k + 1, hd => simp at hd
      obtain ⟨rfl, rfl⟩ := hdd
      by_cases hemp : d'.isEmpty .zeroize = true
      · simp [hemp, eval, evalStmts, Out.finish, relevantIdx_nil_of_isEmpty' d' .zeroize hemp, leafEvents]
      · simp only [hemp, if_false]
        exact hgeneral
  | _ => exact ha.elim

end DW
