import DW.Lemmas.Fields

/-!
# C08 — Hash feeds the variant and every non-skipped field, and nothing else

`C08_transcript`: evaluating the generated `fn hash` on any well-formed value
logs exactly `specHashLog`: the discriminant (for enum variants) followed by
one `Hash::hash` call per field not skipped for `Hash`, in declaration order.
`C08_iff`: two transcripts are equal iff the values are the same variant and
agree on every hashed field (field hashes are recorded by the leaf itself,
i.e. taken to be injective).
-/

namespace DW

variable {α : Type}

/-- The generated `fn hash` body. -/
def hashMethodBody (it : Item) : Expr :=
  .match_ vSelf (it.indexed.flatMap fun (k, d) => hashBody k d)

/-- `Hash::hash(&::core::mem::discriminant(self), __state);` for enum variants. -/
def hashDiscStmts (d : Data) : List Stmt :=
  if d.isVariant then
    [.semi (.call (.traitFn .hash) [.ref (.call .memDiscriminant [vSelf]), .var .state])]
  else []

def hashFieldStmt (k i : Nat) : Stmt :=
  .semi (.call (.traitFn .hash) [.var (.selfField k i), .var .state])

/-- Normal form of `Hash::build_body` for every shape but unions. -/
theorem hashBody_eq (k : Nat) (d : Data) (hwf : d.WF) (hnu : d.shape ≠ .union) :
    hashBody k d = [.mk (.ctor k .self_ false)
      (.block (hashDiscStmts d ++ (d.relevantIdx .hash).map (hashFieldStmt k)) .unit) false] := by
  have hmap := map_iterFields d .hash (hashFieldStmt k)
  unfold hashFieldStmt at hmap
  unfold hashBody hashDiscStmts hashFieldStmt
  cases hs : d.shape with
  | named => simp only [hmap]
  | tuple => simp only [hmap]
  | unit => simp [Data.relevantIdx, hwf.unit_no_fields hs]
  | union => exact absurd hs hnu

theorem hashBody_miss (k k' : Nat) (d : Data) (fs : List (Val α)) (h : k' ≠ k) :
    ∀ p e c, Arm.mk p e c ∈ hashBody k' d → matchPat p (Val.adt k fs) = none := by
  intro p e c hm
  cases hs : d.shape <;> simp [hashBody, hs] at hm
  all_goals
    obtain ⟨rfl, _, _⟩ := hm
    exact matchPat_ctor_ne k k' _ _ fs h

/-- The discriminant statement of an enum variant. -/
theorem hashDisc_eval (cx : SemCtx α) (k : Nat) (fs : List (Val α)) (env : Env α) (log : Log α)
    (hself : env.lookup .self_ = some (.adt k fs)) (hstate : env.lookup .state = some .opaque) :
    eval cx env log (.call (.traitFn .hash) [.ref (.call .memDiscriminant [vSelf]), .var .state]) =
      .ok (.unit, log ++ [.hashDisc k]) := by
  simp [eval, evalList, vSelf, hself, hstate, applyFn]

theorem C08_transcript (it : Item) (cx : SemCtx α) (hwf : it.WF)
    (hnu : ∀ d ∈ it.variants, d.shape ≠ .union) (a : Val α) (ha : WfVal it a) :
    runMethod cx (hashMethodBody it) a none = .ok (.unit, specHashLog it a) := by
  cases a with
  | adt k fs =>
    obtain ⟨d, hd, hl, hleaf⟩ := ha
    have hdmem := List.mem_of_getElem? hd
    rw [runMethod_one]
    simp only [hashMethodBody, eval, vSelf, env1_self, Out.bind_ok]
    have := evalArms_indexed cx (env1 (.adt k fs)) [] (.adt k fs) (fun k d => hashBody k d) k
      (fun k' d' h => hashBody_miss k k' d' fs h) it []
    simp only [List.append_nil, hd] at this
    refine (congrArg Out.finish this).trans ?_
    rw [hashBody_eq k d (hwf d hdmem) (hnu d hdmem)]
    -- environment inside the arm
    have hself : (ctorBinds .self_ false k fs ++ env1 (.adt k fs)).lookup .self_ = some (.adt k fs) := by
      rw [selfArm_pass k false fs _ .self_ (by simp)]; rfl
    have hstate : (ctorBinds .self_ false k fs ++ env1 (.adt k fs)).lookup .state = some .opaque := by
      rw [selfArm_pass k false fs _ .state (by simp)]; rfl
    have hloop := fun log => evalStmts_fieldLoop cx (ctorBinds .self_ false k fs ++ env1 (.adt k fs)) fs
      (fun i => .call (.traitFn .hash) [.var (.selfField k i), .var .state]) (fun _ a => .hashField a)
      (fun i a log hget => by
        have hi : i < fs.length := by
          rcases Nat.lt_or_ge i fs.length with h | h
          · exact h
          · rw [List.getElem?_eq_none h] at hget; cases hget
        have hv : fs[i] = .leaf a := by
          rw [List.getElem?_eq_getElem hi] at hget; exact Option.some.inj hget
        refine ⟨.unit, ?_⟩
        simp [eval, evalList, selfArm_field k i false fs _ hi, hstate, hv, applyFn])
      hleaf (d.relevantIdx .hash)
      (fun i hi => by have := relevantIdx_lt' d .hash i hi; omega) log []
    simp only [List.append_nil, evalStmts] at hloop
    simp only [evalArms, matchPat_ctor_same, eval, evalStmts_append, specHashLog, hd]
    have hmapeq : (d.relevantIdx .hash).map (hashFieldStmt k) =
        (d.relevantIdx .hash).map fun i =>
          Stmt.semi (.call (.traitFn .hash) [.var (.selfField k i), .var .state]) := rfl
    cases hv : d.isVariant
    · simp [hashDiscStmts, hv, evalStmts, hmapeq, hloop, Out.finish]
    · have hdisc := hashDisc_eval cx k fs _ [] hself hstate
      simp [hashDiscStmts, hv, evalStmts, hdisc, hmapeq, hloop, Out.finish]
  | _ => exact ha.elim

/-- Positions where a list of leaves agrees with another. -/
theorem leafEvents_hash_inj (fa fb : List (Val α)) (is : List Nat)
    (hfa : ∀ v ∈ fa, ∃ a, v = .leaf a) (hfb : ∀ v ∈ fb, ∃ a, v = .leaf a)
    (his : ∀ i ∈ is, i < fa.length ∧ i < fb.length) :
    leafEvents fa is (fun _ a => Event.hashField a) = leafEvents fb is (fun _ a => Event.hashField a) ↔
      ∀ i ∈ is, fa[i]? = fb[i]? := by
  induction is with
  | nil => simp [leafEvents]
  | cons i is ih =>
    have hi := his i (by simp)
    obtain ⟨x, hx⟩ := hfa fa[i] (List.getElem_mem _)
    obtain ⟨y, hy⟩ := hfb fb[i] (List.getElem_mem _)
    have e1 : fa[i]? = some (.leaf x) := by simp [List.getElem?_eq_getElem hi.1, hx]
    have e2 : fb[i]? = some (.leaf y) := by simp [List.getElem?_eq_getElem hi.2, hy]
    have ih' := ih (fun j hj => his j (by simp [hj]))
    simp only [leafEvents] at ih' ⊢
    simp only [List.filterMap_cons, leafAt_of fa i x e1, leafAt_of fb i y e2, Option.map_some,
      List.cons.injEq, Event.hashField.injEq, List.mem_cons, forall_eq_or_imp, e1, e2, Option.some.injEq,
      Val.leaf.injEq]
    rw [ih']

/-- `C08_iff`: equal hasher input ⇔ same variant and agreement on every hashed field. -/
theorem C08_iff (it : Item) (henum : ∀ d ∈ it.variants, d.isVariant = true)
    (k k' : Nat) (fa fb : List (Val α)) (ha : WfVal it (.adt k fa)) (hb : WfVal it (.adt k' fb)) :
    specHashLog it (.adt k fa) = specHashLog it (.adt k' fb) ↔
      k = k' ∧ ∀ d, it.variants[k]? = some d → ∀ i ∈ d.relevantIdx .hash, fa[i]? = fb[i]? := by
  obtain ⟨da, hda, hla, hfa⟩ := ha
  obtain ⟨db, hdb, hlb, hfb⟩ := hb
  have hva := henum da (List.mem_of_getElem? hda)
  have hvb := henum db (List.mem_of_getElem? hdb)
  have hlhs : specHashLog it (.adt k fa) =
      Event.hashDisc k :: leafEvents fa (da.relevantIdx .hash) (fun _ a => .hashField a) := by
    simp [specHashLog, hda, hva]
  have hrhs : specHashLog it (.adt k' fb) =
      Event.hashDisc k' :: leafEvents fb (db.relevantIdx .hash) (fun _ a => .hashField a) := by
    simp [specHashLog, hdb, hvb]
  rw [hlhs, hrhs]
  constructor
  · intro h
    simp only [List.cons.injEq, Event.hashDisc.injEq] at h
    obtain ⟨hk, hrest⟩ := h
    subst hk
    have hdab : db = da := by rw [hda] at hdb; exact (Option.some.inj hdb).symm
    subst hdab
    refine ⟨rfl, ?_⟩
    intro d hd
    have : d = db := by rw [hda] at hd; exact (Option.some.inj hd).symm
    subst this
    exact (leafEvents_hash_inj fa fb _ hfa hfb
      (fun i hi => by have := relevantIdx_lt' d .hash i hi; omega)).mp hrest
  · rintro ⟨hk, hrest⟩
    subst hk
    have hdab : db = da := by rw [hda] at hdb; exact (Option.some.inj hdb).symm
    subst hdab
    simp only [List.cons.injEq, true_and]
    exact (leafEvents_hash_inj fa fb _ hfa hfb
      (fun i hi => by have := relevantIdx_lt' db .hash i hi; omega)).mpr (hrest db hda)

end DW
