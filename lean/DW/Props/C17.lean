import DW.Props.C06
import DW.Props.C02

/-!
# C17 — Eq and union Clone are only granted when the field types justify them

* `C17_eq_obligations`: the body of the generated `assert_receiver_is_total_eq`
  is `struct __AssertEq<T: Eq + ?Sized>(..)` followed by exactly one
  `let _: __AssertEq<FieldType>;` per field relevant to `Eq`, over all
  variants, in order — every non-skipped field, no skipped one.  With the rule
  "`let _: __AssertEq<τ>;` type-checks iff `τ: Eq`" (rustc; validated by B) the
  impl compiles only if every such field type is `Eq`.
* `C17_union`: the union `Clone` body is `*self` behind `let _: __AssertCopy<Self>;`
  and every plain bound of the impl is `Clone + Copy`.
-/

namespace DW

theorem C17_eq_obligations (c : Cfg) (it : Item) (dw : DeriveWhere) :
    generateBody c it dw .eq = some ⟨.assertEq, true,
      .block (.structAssertEq :: it.indexed.flatMap fun (k, d) => (d.relevantIdx .eq).map (Stmt.assertEq k)) .unit⟩ := by
  simp only [generateBody, C06_no_demand_eq]

theorem C17_union (c : Cfg) (inp : Input) (dw : DeriveWhere) (hu : isUnion inp.item = true)
    (hns : (dw.shortcut && dw.contains .copy) = false) :
    generateBody c inp.item dw .clone =
      some ⟨.clone, true, .block [.structAssertCopy, .assertCopySelf] (.deref vSelf)⟩ ∧
    implPreds inp.generics inp.item dw .clone =
      inp.generics.preds.map .item ++ dw.generics.map fun g => match g with
        | .custom t => .custom t
        | .noBound t _ => .bound t true := by
  constructor
  · simp [generateBody, cloneSignature, hns, hu]
  · simp only [implPreds, hu, beq_self_eq_true, Bool.and_true]
    congr 1

end DW
