import DW.Props.C18

/-!
# C19 — dropping a ZeroizeOnDrop value zeroizes its non-skipped fields
(see the header of `Props/C18.lean`)
-/

namespace DW

variable {α : Type}

/-- With `zeroize-on-drop`: `zeroize_or_on_drop` on every field not skipped for
`Zeroize`, nothing else. -/
theorem C19_effect_zod (c : Cfg) (hz : c.zod = true) (it : Item) (cx : SemCtx α) (hwf : it.WF)
    (hnu : ∀ d ∈ it.variants, d.shape ≠ .union) (a : Val α) (ha : WfVal it a) :
    runMethod cx (zodSignature c it) a none =
      .ok (.unit, specZeroizeLog it .zeroizeOnDrop (fun _ => .orOnDrop) a) := by
  cases a with
  | adt k fs =>
    obtain ⟨d, hd, hl, hleaf⟩ := ha
    have hdmem := List.mem_of_getElem? hd
    rw [runMethod_one]
    simp only [specZeroizeLog, hd]
    have hgeneral : (eval cx (env1 (.adt k fs)) []
        (.block [.useAsserts] (.match_ vSelf (it.indexed.flatMap fun (k, d) => zodArms k d)))).finish =
        .ok (.unit, leafEvents fs (d.relevantIdx .zeroizeOnDrop) fun i _ => .zeroize i .orOnDrop) := by
      simp only [eval, evalStmts, vSelf, env1_self, Out.bind_ok]
      have := evalArms_indexed cx (env1 (.adt k fs)) [] (.adt k fs) (fun k d => zodArms k d) k
        (fun k' d' h => zodArms_miss k k' d' fs h) it []
      simp only [List.append_nil, hd] at this
      refine (congrArg Out.finish this).trans ?_
      unfold zodArms
      by_cases hemp : d.isEmpty .zeroizeOnDrop = true
      · simp [hemp, evalArms, matchPat_ctor_same, eval, evalStmts, Out.finish,
          relevantIdx_nil_of_isEmpty' d .zeroizeOnDrop hemp, leafEvents]
      · have hemp' : d.isEmpty .zeroizeOnDrop = false := by simpa using hemp
        have hshape := shape_of_nonempty' d .zeroizeOnDrop (hwf d hdmem) (hnu d hdmem) hemp'
        have hmap := map_iterFields d .zeroizeOnDrop (fun i =>
          Stmt.semi (.methodCall (.var (.selfField k i)) .zeroizeOrOnDrop))
        have hloop := mutArm_loop cx k fs (env1 (.adt k fs)) hleaf (d.relevantIdx .zeroizeOnDrop)
          (fun i hi => by have := relevantIdx_lt' d .zeroizeOnDrop i hi; omega)
          (fun i => .methodCall (.var (.selfField k i)) .zeroizeOrOnDrop)
          (fun _ => .orOnDrop)
          (fun i => Or.inr (Or.inr ⟨rfl, rfl⟩)) []
        rcases hshape with h | h <;>
          simp only [hemp', Bool.false_eq_true, if_false, h, hmap, evalArms, matchPat_ctor_same, eval,
            hloop, Out.bind_ok, Out.finish, List.nil_append]
    unfold zodSignature
    simp only [hz, if_true]
    cases it with
    | enum_ disc id inc vs => exact hgeneral
    | item d' =>
      have hdd : d' = d ∧ k = 0 := by
        simp only [Item.variants] at hd
        match k, hd with
        | 0, hd => simp at hd; exact ⟨hd, rfl⟩
        | k + 1, hd => simp at hd
      obtain ⟨rfl, rfl⟩ := hdd
      by_cases hemp : d'.isEmpty .zeroizeOnDrop = true
      · simp [hemp, eval, evalStmts, Out.finish, relevantIdx_nil_of_isEmpty' d' .zeroizeOnDrop hemp, leafEvents]
      · simp only [hemp, if_false]
        exact hgeneral
  | _ => exact ha.elim

/-- `n` calls of `Zeroize::zeroize(self)`. -/
theorem evalStmts_selfZeroize (cx : SemCtx α) (env : Env α) (a v : Val α)
    (hself : env.lookup .self_ = some a) (himpl : cx.impls .zeroize [a] = some v) (n : Nat) (log : Log α) :
    evalStmts cx env log (List.replicate n (.semi (.selfCall .zeroize [vSelf]))) =
      .ok (env, log ++ List.replicate n (.selfCall .zeroize)) := by
  induction n generalizing log with
  | zero => simp [evalStmts]
  | succ n ih =>
    have ih' := ih (log ++ [Event.selfCall TraitFn.zeroize])
    simp only [vSelf] at ih'
    simp only [List.replicate_succ, evalStmts, eval, evalList, vSelf, hself, Out.bind_ok, himpl]
    rw [ih']
    simp [List.append_assoc]

/-- Number of variants with a field to zeroize. -/
def zeroizableVariants (it : Item) : Nat :=
  (it.variants.filter fun d => !d.isEmpty .zeroizeOnDrop).length

theorem zodStmts_eq {vs : List Data} (hwf : ∀ d ∈ vs, d.WF) (hnu : ∀ d ∈ vs, d.shape ≠ .union) :
    vs.flatMap zodStmts =
      List.replicate (vs.filter fun d => !d.isEmpty .zeroizeOnDrop).length
        (.semi (.selfCall .zeroize [vSelf])) := by
  induction vs with
  | nil => simp
  | cons d vs ih =>
    have ih' := ih (fun d' h => hwf d' (by simp [h])) (fun d' h => hnu d' (by simp [h]))
    simp only [List.flatMap_cons, ih', List.filter_cons]
    unfold zodStmts
    by_cases hemp : d.isEmpty .zeroizeOnDrop = true
    · simp [hemp]
    · have hemp' : d.isEmpty .zeroizeOnDrop = false := by simpa using hemp
      rcases shape_of_nonempty' d .zeroizeOnDrop (hwf d (by simp)) (hnu d (by simp)) hemp' with h | h <;>
        simp [hemp', h, List.replicate_succ]

/-- Without `zeroize-on-drop`: `drop` delegates to `Zeroize::zeroize(self)`, at
least once whenever some variant has a field to zeroize. -/
theorem C19_effect_delegating (c : Cfg) (hz : c.zod = false) (it : Item) (cx : SemCtx α) (hwf : it.WF)
    (hnu : ∀ d ∈ it.variants, d.shape ≠ .union) (a v : Val α)
    (himpl : cx.impls .zeroize [a] = some v) :
    runMethod cx (zodSignature c it) a none =
      .ok (.unit, List.replicate (zeroizableVariants it) (.selfCall .zeroize)) := by
  rw [runMethod_one]
  have hgeneral : (eval cx (env1 a) [] (.block (it.variants.flatMap zodStmts) .unit)).finish =
      .ok (.unit, List.replicate (zeroizableVariants it) (.selfCall .zeroize)) := by
    rw [zodStmts_eq hwf hnu]
    simp only [eval, evalStmts_selfZeroize cx (env1 a) a v (env1_self a) himpl, Out.bind_ok, Out.finish,
      List.nil_append, zeroizableVariants]
  unfold zodSignature
  simp only [hz, Bool.false_eq_true, if_false]
  cases it with
  | enum_ disc id inc vs => exact hgeneral
  | item d =>
    by_cases hemp : d.isEmpty .zeroizeOnDrop = true
    · simp [hemp, eval, evalStmts, Out.finish, zeroizableVariants, Item.variants]
    · simp only [hemp, if_false]
      exact hgeneral

/-- `impl Drop` always (so the type has drop glue); the marker impl iff
`zeroize-on-drop`. -/
theorem C19_impls (c : Cfg) (inp : Input) (dw : DeriveWhere) (crate_ : Option MPath) :
    (generateImpl c inp dw ⟨.zeroizeOnDrop, crate_⟩).map (fun i => (i.isDrop, i.methods.length)) =
      if c.zod then [(true, 1), (false, 0)] else [(true, 1)] := by
  cases hz : c.zod <;> simp [generateImpl, generateBody, hz]

end DW
