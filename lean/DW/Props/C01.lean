import DW.Lemmas.Validate
import DW.Gen

/-!
# C01 — impls carry exactly the declared bounds, nothing implicit

The where-clause of the impl generated for attribute `dw` and trait `t` is
`implPreds`: the item's own predicates followed by one predicate per entry of
`dw`'s bound list — `Type: <t>` (plus `+ Copy` for `Clone` on a union) for a
plain entry, the predicate as written for a `Type: Bound` entry.

* `C01_applies_iff`: under any interpretation `Γ` of predicates, the impl's
  where-clause holds iff the item's where-clause holds and every listed entry
  satisfies its predicate.
* `C01_unlisted_unconstrained`: a token (e.g. a type parameter) that occurs in
  no entry of `dw`'s list and in no predicate of the item occurs in no
  predicate of the impl.
* `C01_no_leak`: the impl for `(dw, t)` is a function of the item, its generics,
  `dw` and `t` only — other attributes cannot influence it.
* `C01_merge_sound`: merging adjacent attributes (`dedup_by`) keeps, in order,
  every requested (bound list, trait) pair: a trait is only ever generated
  under the bound list of its own attribute.
Predicate *meaning* (`Γ`) is rustc's; `split_for_impl` (impl header) is syn's.
-/

namespace DW

/-- Interpretation of where-predicates under some instantiation. -/
structure PredEnv where
  /-- the predicate given by these tokens holds -/
  holds : Toks → Prop
  /-- `ty: trait` holds -/
  implements : Toks → DeriveTrait → Prop
  /-- `ty: Copy` holds -/
  isCopy : Toks → Prop

def PredEnv.sat (Γ : PredEnv) (t : DeriveTrait) : WherePred → Prop
  | .item toks => Γ.holds toks
  | .custom toks => Γ.holds toks
  | .bound ty copy => Γ.implements ty t ∧ (copy = true → Γ.isCopy ty)

/-- What the documentation promises for one entry of a bound list. -/
def PredEnv.entryOK (Γ : PredEnv) (t : DeriveTrait) (unionClone : Bool) : Generic → Prop
  | .custom toks => Γ.holds toks
  | .noBound ty _ => Γ.implements ty t ∧ (unionClone = true → Γ.isCopy ty)

theorem C01_applies_iff (Γ : PredEnv) (g : Generics) (item : Item) (dw : DeriveWhere) (t : DeriveTrait) :
    (∀ p ∈ implPreds g item dw t.trait, Γ.sat t p) ↔
      (∀ p ∈ g.preds, Γ.holds p) ∧
        ∀ e ∈ dw.generics, Γ.entryOK t (t.trait == .clone && isUnion item) e := by
  unfold implPreds
  constructor
  · intro h
    constructor
    · intro p hp
      exact h (.item p) (List.mem_append.mpr (Or.inl (List.mem_map.mpr ⟨p, hp, rfl⟩)))
    · intro e he
      have := h _ (List.mem_append.mpr (Or.inr (List.mem_map.mpr ⟨e, he, rfl⟩)))
      cases e <;> exact this
  · rintro ⟨h1, h2⟩ p hp
    rcases List.mem_append.mp hp with hp | hp
    · obtain ⟨q, hq, rfl⟩ := List.mem_map.mp hp
      exact h1 q hq
    · obtain ⟨e, he, rfl⟩ := List.mem_map.mp hp
      have := h2 e he
      cases e <;> exact this

def WherePred.mentions (x : String) : WherePred → Prop
  | .item toks => x ∈ toks
  | .custom toks => x ∈ toks
  | .bound ty _ => x ∈ ty

def Generic.mentions (x : String) : Generic → Prop
  | .custom toks => x ∈ toks
  | .noBound toks _ => x ∈ toks

theorem C01_unlisted_unconstrained (g : Generics) (item : Item) (dw : DeriveWhere) (t : Trait) (x : String)
    (hitem : ∀ p ∈ g.preds, x ∉ p) (hlist : ∀ e ∈ dw.generics, ¬ e.mentions x) :
    ∀ p ∈ implPreds g item dw t, ¬ p.mentions x := by
  intro p hp
  unfold implPreds at hp
  rcases List.mem_append.mp hp with hp | hp
  · obtain ⟨q, hq, rfl⟩ := List.mem_map.mp hp
    exact hitem q hq
  · obtain ⟨e, he, rfl⟩ := List.mem_map.mp hp
    have := hlist e he
    cases e <;> exact this

/-- Other attributes never influence the impls of this one. -/
theorem C01_no_leak (c : Cfg) (inp : Input) (others : List DeriveWhere) (dw : DeriveWhere) (t : DeriveTrait) :
    generateImpl c { inp with deriveWheres := others } dw t = generateImpl c inp dw t := rfl

/-- The (bound list, trait) pairs requested, in order. -/
def requested (dws : List DeriveWhere) : List (List Generic × DeriveTrait) :=
  dws.flatMap fun dw => dw.traits.map fun t => (dw.generics, t)

theorem dedupGo_requested (cur : DeriveWhere) (l : List DeriveWhere) :
    requested (dedupGo cur l) = requested (cur :: l) := by
  induction l generalizing cur with
  | nil => rfl
  | cons d l ih =>
    unfold dedupGo
    split
    · rename_i heq
      rw [ih]
      simp [requested, heq, List.map_append]
    · simp only [requested, List.flatMap_cons] at ih ⊢
      rw [ih d]

theorem C01_merge_sound (dws : List DeriveWhere) : requested (dedupMerge dws) = requested dws := by
  cases dws with
  | nil => rfl
  | cons d l => exact dedupGo_requested d l

/-- Merging only ever joins *adjacent* attributes with *equal* bound lists. -/
theorem dedupGo_generics (cur : DeriveWhere) (l : List DeriveWhere) :
    ∀ dw ∈ dedupGo cur l, dw.generics = cur.generics ∨ ∃ d ∈ l, dw.generics = d.generics := by
  induction l generalizing cur with
  | nil => intro dw h; simp [dedupGo] at h; exact Or.inl (h ▸ rfl)
  | cons d l ih =>
    unfold dedupGo
    split
    · intro dw h
      rcases ih _ dw h with h1 | ⟨d', hd', h1⟩
      · exact Or.inl h1
      · exact Or.inr ⟨d', by simp [hd'], h1⟩
    · intro dw h
      rcases List.mem_cons.mp h with rfl | h
      · exact Or.inl rfl
      · rcases ih d dw h with h1 | ⟨d', hd', h1⟩
        · exact Or.inr ⟨d, by simp, h1⟩
        · exact Or.inr ⟨d', by simp [hd'], h1⟩

end DW
