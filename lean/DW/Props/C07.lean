import DW.Props.C03
import DW.Props.C04

/-!
# C07 — incomparable items/variants never compare equal or ordered; others unaffected

* `C07_marked_eq`, `C07_marked_pcmp`: if the item or either operand's variant is
  marked, `==` is `false` and `partial_cmp` is `None` (also for a value with
  itself).  Stated on the specification; `C07_eq_eval` / `C07_pcmp_eval`
  transport them to the evaluated generated code through C03 / C04.
* `C07_unaffected_eq`, `C07_unaffected_pcmp`: on values of unmarked variants of an
  unmarked item the results are those of the same item with every mark erased.
`<`, `<=`, `>`, `>=` and `!=` are the default methods of `PartialOrd`/`PartialEq`
(the impls define only `partial_cmp` and `eq`), hence `false` resp. `true`.
-/

namespace DW

variable {α : Type}

theorem C07_marked_eq (ops : FieldOps α) (it : Item) (k k' : Nat) (fa fb : List (Val α))
    (da db : Data) (hda : it.variants[k]? = some da) (hdb : it.variants[k']? = some db)
    (h : it.markedIncomparable = true ∨ da.incomparable = true ∨ db.incomparable = true) :
    specEq ops it (.adt k fa) (.adt k' fb) = false := by
  simp only [specEq, hda]
  by_cases hk : k = k'
  · subst hk
    have : db = da := by rw [hda] at hdb; exact (Option.some.inj hdb).symm
    subst this
    rcases h with h | h | h <;> simp [h]
  · simp [hk]

theorem C07_marked_pcmp (ops : FieldOps α) (ti : TypeInfo) (it : Item) (k k' : Nat)
    (fa fb : List (Val α)) (da db : Data) (hda : it.variants[k]? = some da)
    (hdb : it.variants[k']? = some db)
    (h : it.markedIncomparable = true ∨ da.incomparable = true ∨ db.incomparable = true) :
    specPartialCmp ops ti it (.adt k fa) (.adt k' fb) = none := by
  simp only [specPartialCmp, hda, hdb]
  rcases h with h | h | h <;> simp [h]

/-- "also when a value is compared with itself": a value of a marked variant (or of a marked item) is not equal to
itself and not ordered with itself — the derived relations are deliberately irreflexive there. -/
theorem C07_self_compare (ops : FieldOps α) (ti : TypeInfo) (it : Item) (k : Nat) (fa : List (Val α))
    (da : Data) (hda : it.variants[k]? = some da)
    (h : it.markedIncomparable = true ∨ da.incomparable = true) :
    specEq ops it (.adt k fa) (.adt k fa) = false ∧
      specPartialCmp ops ti it (.adt k fa) (.adt k fa) = none :=
  have h' : it.markedIncomparable = true ∨ da.incomparable = true ∨ da.incomparable = true :=
    h.elim Or.inl (fun h => Or.inr (Or.inl h))
  ⟨C07_marked_eq ops it k k fa fa da da hda hda h', C07_marked_pcmp ops ti it k k fa fa da da hda hda h'⟩

/-- The generated `eq` returns `false` on marked operands. -/
theorem C07_eq_eval (c : Cfg) (it : Item) (cx : SemCtx α) (hwf : it.WF)
    (hnu : ∀ d ∈ it.variants, d.shape ≠ .union) (k k' : Nat) (fa fb : List (Val α))
    (ha : WfVal it (.adt k fa)) (hb : WfVal it (.adt k' fb))
    (h : it.markedIncomparable = true ∨
      (∃ d, it.variants[k]? = some d ∧ d.incomparable = true) ∨
      (∃ d, it.variants[k']? = some d ∧ d.incomparable = true)) :
    runMethod cx (eqMethodBody c it) (.adt k fa) (some (.adt k' fb)) = .ok (.bool false, []) := by
  rw [C03_eq c it cx hwf hnu _ _ ha hb]
  obtain ⟨da, hda, _, _⟩ := ha
  obtain ⟨db, hdb, _, _⟩ := hb
  rw [C07_marked_eq cx.ops it k k' fa fb da db hda hdb]
  rcases h with h | ⟨d, hd, hi⟩ | ⟨d, hd, hi⟩
  · exact Or.inl h
  · rw [hda] at hd; cases hd; exact Or.inr (Or.inl hi)
  · rw [hdb] at hd; cases hd; exact Or.inr (Or.inr hi)

/-- The generated `partial_cmp` returns `None` on marked operands. -/
theorem C07_pcmp_eval (c : Cfg) (it : Item) (dw : DeriveWhere) (cx : SemCtx α)
    (hns : (dw.shortcut && dw.contains .ord) = false) (hwf : it.WF)
    (hnu : ∀ d ∈ it.variants, d.shape ≠ .union) (hti : ItemTiOK cx c it)
    (k k' : Nat) (fa fb : List (Val α))
    (ha : WfVal it (.adt k fa)) (hb : WfVal it (.adt k' fb))
    (hca : CloneOK cx dw (.adt k fa)) (hcb : CloneOK cx dw (.adt k' fb))
    (h : it.markedIncomparable = true ∨
      (∃ d, it.variants[k]? = some d ∧ d.incomparable = true) ∨
      (∃ d, it.variants[k']? = some d ∧ d.incomparable = true)) :
    ∃ extra, OnlySelfClone extra ∧
      runMethod cx (ordMethodBody c it dw .partialOrd) (.adt k fa) (some (.adt k' fb)) =
        .ok (.optOrd none, extra) := by
  obtain ⟨extra, hex, hrun⟩ := C04_ord_refines c it dw .partialOrd (Or.inl rfl) hns cx hwf hnu hti
    (fun h => by cases h) _ _ ha hb hca hcb
  refine ⟨extra, hex, ?_⟩
  rw [hrun]
  obtain ⟨da, hda, _, _⟩ := ha
  obtain ⟨db, hdb, _, _⟩ := hb
  have : specPartialCmp cx.ops cx.ti it (.adt k fa) (.adt k' fb) = none := by
    apply C07_marked_pcmp cx.ops cx.ti it k k' fa fb da db hda hdb
    rcases h with h | ⟨d, hd, hi⟩ | ⟨d, hd, hi⟩
    · exact Or.inl h
    · rw [hda] at hd; cases hd; exact Or.inr (Or.inl hi)
    · rw [hdb] at hd; cases hd; exact Or.inr (Or.inr hi)
  simp [specOrdVal, this]

/-- The item with every `incomparable` mark removed. -/
def Item.eraseInc : Item → Item
  | .enum_ disc id _ vs => .enum_ disc id false (vs.map fun d => { d with incomparable := false })
  | .item d => .item { d with incomparable := false }

theorem eraseInc_variants (it : Item) :
    it.eraseInc.variants = it.variants.map fun d => { d with incomparable := false } := by
  cases it <;> simp [Item.eraseInc, Item.variants]

theorem eraseInc_marked (it : Item) : it.eraseInc.markedIncomparable = false := by
  cases it <;> simp [Item.eraseInc, Item.markedIncomparable]

theorem relevantIdx_eraseInc (d : Data) (t : Trait) :
    ({ d with incomparable := false } : Data).relevantIdx t = d.relevantIdx t := by
  simp [Data.relevantIdx, Data.relevant]

theorem C07_unaffected_eq (ops : FieldOps α) (it : Item) (k k' : Nat) (fa fb : List (Val α))
    (da db : Data) (hda : it.variants[k]? = some da) (hdb : it.variants[k']? = some db)
    (hm : it.markedIncomparable = false) (hia : da.incomparable = false) (hib : db.incomparable = false) :
    specEq ops it (.adt k fa) (.adt k' fb) = specEq ops it.eraseInc (.adt k fa) (.adt k' fb) := by
  simp [specEq, hda, hm, hia, eraseInc_variants, eraseInc_marked, relevantIdx_eraseInc]

theorem C07_unaffected_pcmp (ops : FieldOps α) (ti : TypeInfo) (it : Item) (k k' : Nat)
    (fa fb : List (Val α)) (da db : Data) (hda : it.variants[k]? = some da)
    (hdb : it.variants[k']? = some db)
    (hm : it.markedIncomparable = false) (hia : da.incomparable = false) (hib : db.incomparable = false) :
    specPartialCmp ops ti it (.adt k fa) (.adt k' fb) =
      specPartialCmp ops ti it.eraseInc (.adt k fa) (.adt k' fb) := by
  simp [specPartialCmp, hda, hdb, hm, hia, hib, eraseInc_variants, eraseInc_marked, relevantIdx_eraseInc]

/-- **"Hence `<`, `<=`, `>`, `>=` are false and `!=` is true"**: with `core`'s provided operator methods over the
derived `eq` / `partial_cmp`, a marked operand makes all four comparisons false and `!=` true — also for a value
compared with itself. -/
theorem C07_operators (ops : FieldOps α) (ti : TypeInfo) (it : Item) (k k' : Nat) (fa fb : List (Val α))
    (da db : Data) (hda : it.variants[k]? = some da) (hdb : it.variants[k']? = some db)
    (h : it.markedIncomparable = true ∨ da.incomparable = true ∨ db.incomparable = true) :
    let o := specPartialCmp ops ti it (.adt k fa) (.adt k' fb)
    ltOf o = false ∧ leOf o = false ∧ gtOf o = false ∧ geOf o = false ∧
      neOf (specEq ops it (.adt k fa) (.adt k' fb)) = true := by
  simp only [C07_marked_pcmp ops ti it k k' fa fb da db hda hdb h, C07_marked_eq ops it k k' fa fb da db hda hdb h]
  simp [ltOf, leOf, gtOf, geOf, neOf]

/-- The operators are determined by `partial_cmp` the way the std contracts say: `a < b` iff `partial_cmp = Some(Less)`,
`a <= b` iff `a < b` or `partial_cmp = Some(Equal)`, and symmetrically; never two of `<`, `==`-by-order, `>` at once. -/
theorem operators_of_partial_cmp (o : Option Ordering) :
    (ltOf o = true ↔ o = some .lt) ∧ (gtOf o = true ↔ o = some .gt) ∧
    (leOf o = (ltOf o || o == some .eq)) ∧ (geOf o = (gtOf o || o == some .eq)) ∧
    (o = none → ltOf o = false ∧ leOf o = false ∧ gtOf o = false ∧ geOf o = false) := by
  cases o with
  | none => simp [ltOf, leOf, gtOf, geOf]
  | some x => cases x <;> simp [ltOf, leOf, gtOf, geOf]

end DW
