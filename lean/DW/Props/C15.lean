import DW.Lemmas.Validate
import DW.Gen

/-!
# C15 — invariant-breaking or meaningless attribute combinations are rejected

Each theorem has the form "if `Input::from_input` accepts, the documented
condition holds", i.e. every item violating it is rejected, for every raw item
(any number/shape of variants, fields, attributes, any placement) and every
feature configuration.  All are projections of `Input.fromInput_ok`
(`Lemmas/Validate.lean`), proved by inversion of the model of the validation
code; the model is tied to the code by correspondence A on the invalid and
malformed streams (outcome class and message).
-/

namespace DW

/-- `incomparable` anywhere ⇒ neither `Eq` nor `Ord` is derived in any attribute. -/
theorem C15_incomparable_total (c : Cfg) (raw : RawItem) (inp : Input) (h : Input.fromInput c raw = .ok inp)
    (hinc : inp.item.markedIncomparable = true ∨ ∃ d ∈ inp.item.variants, d.incomparable = true) :
    ∀ dw ∈ inp.deriveWheres, ∀ t ∈ dw.traits, t.trait ≠ .eq ∧ t.trait ≠ .ord :=
  ((Input.fromInput_ok c raw inp h).incomparable hinc).1

/-- `incomparable` anywhere ⇒ `PartialEq` or `PartialOrd` is derived. -/
theorem C15_incomparable_needs_partial (c : Cfg) (raw : RawItem) (inp : Input)
    (h : Input.fromInput c raw = .ok inp)
    (hinc : inp.item.markedIncomparable = true ∨ ∃ d ∈ inp.item.variants, d.incomparable = true) :
    ∃ dw ∈ inp.deriveWheres, ∃ t ∈ dw.traits, t.trait = .partialEq ∨ t.trait = .partialOrd :=
  ((Input.fromInput_ok c raw inp h).incomparable hinc).2

/-- `incomparable` is never on both the enum and one of its variants. -/
theorem C15_incomparable_not_both (c : Cfg) (raw : RawItem) (inp : Input) (h : Input.fromInput c raw = .ok inp)
    (hm : inp.item.markedIncomparable = true) (he : inp.item.isEnum = true) :
    ∀ d ∈ inp.item.variants, d.incomparable = false :=
  (Input.fromInput_ok c raw inp h).incNotBoth hm he

/-- `Default` on an enum ⇒ exactly one variant carries `default`. -/
theorem C15_default_unique (c : Cfg) (raw : RawItem) (inp : Input) (h : Input.fromInput c raw = .ok inp)
    (he : inp.item.isEnum = true) (hd : ∃ dw ∈ inp.deriveWheres, dw.contains .default = true) :
    (inp.item.variants.filter (·.default)).length = 1 :=
  (Input.fromInput_ok c raw inp h).defaultExists he hd

/-- `default` on a variant ⇒ `Default` is derived; never two `default`s. -/
theorem C15_default_needs_derive (c : Cfg) (raw : RawItem) (inp : Input) (h : Input.fromInput c raw = .ok inp) :
    (∀ d ∈ inp.item.variants, d.default = true → ∃ dw ∈ inp.deriveWheres, dw.contains .default = true) ∧
    (inp.item.isEnum = true → (inp.item.variants.filter (·.default)).length ≤ 1) :=
  ⟨(Input.fromInput_ok c raw inp h).defaultDerived, (Input.fromInput_ok c raw inp h).defaultAtMostOne⟩

/-- Unions only derive `Clone` and `Copy`. -/
theorem C15_union_traits (c : Cfg) (raw : RawItem) (inp : Input) (h : Input.fromInput c raw = .ok inp)
    (hu : raw.kind = .union_) :
    ∀ dw ∈ inp.deriveWheres, ∀ t ∈ dw.traits, t.trait = .clone ∨ t.trait = .copy := by
  intro dw hdw t ht
  have := (Input.fromInput_ok c raw inp h).union dw hdw t ht hu
  cases htt : t.trait <;> simp_all [Trait.supportsUnion]

/-- No trait twice under the same bound list (after merging adjacent equal lists);
at least one trait is requested. -/
theorem C15_no_duplicate_trait (c : Cfg) (raw : RawItem) (inp : Input) (h : Input.fromInput c raw = .ok inp) :
    inp.deriveWheres ≠ [] ∧ ∀ dw ∈ inp.deriveWheres, hasDup dw.traits = false :=
  ⟨(Input.fromInput_ok c raw inp h).dwsNonempty, (Input.fromInput_ok c raw inp h).noDup⟩

/-- Every skip marker names only groups one of whose traits is derived; a bare
`skip`/`skip_inner` needs some skippable derived trait. -/
theorem C15_skip_group_derived (c : Cfg) (raw : RawItem) (inp : Input) (h : Input.fromInput c raw = .ok inp) :
    ∀ d ∈ inp.item.variants, SkipOK inp.deriveWheres d.skipInner ∧ ∀ f ∈ d.fields, SkipOK inp.deriveWheres f.skip :=
  (Input.fromInput_ok c raw inp h).skips

theorem steps_error (c : Cfg) (kind : ItemKind) (pre post : List RawAttr) (a : RawAttr)
    (hpre : ∀ x ∈ pre, ∀ b, x ≠ .dw b)
    (ha : ∀ acc, ∃ e, ItemAttr.step c kind acc a = .error e) :
    ∀ acc, ∃ e, ItemAttr.steps c kind (pre ++ a :: post) acc = .error e := by
  induction pre with
  | nil =>
    intro acc
    obtain ⟨e, he⟩ := ha acc
    exact ⟨e, by simp [ItemAttr.steps, he, bind, Except.bind]⟩
  | cons x pre ih =>
    intro acc
    have hx : ItemAttr.step c kind acc x = .ok acc := by
      cases x with
      | dw b => exact absurd rfl (hpre _ (by simp) b)
      | dwQualified _ _ => rfl
      | repr _ => rfl
      | bare _ => rfl
      | other => rfl
    obtain ⟨e, he⟩ := ih (fun y hy => hpre y (by simp [hy])) acc
    exact ⟨e, by simp [ItemAttr.steps, hx, he, bind, Except.bind]⟩

/-- `skip_inner` on an enum item, an empty `#[derive_where()]` and a non-list
`#[derive_where]` are rejected outright, wherever the attribute stands. -/
theorem C15_item_attr_shape (c : Cfg) (raw : RawItem) (pre post : List RawAttr) (a : RawAttr)
    (hattrs : raw.attrs = pre ++ a :: post)
    (hpre : ∀ x ∈ pre, ∀ b, x ≠ .dw b)
    (ha : a = .dw .notList ∨ a = .dw (.list [] none) ∨
      (raw.kind = .enum_ ∧ ∃ m, a = .dw (.list [.ofMeta m] none) ∧ m.getPath.isIdent "skip_inner" = true)) :
    ∃ e, Input.fromInput c raw = .error e := by
  have hstep : ∀ acc, ∃ e, ItemAttr.step c raw.kind acc a = .error e := by
    intro acc
    rcases ha with rfl | rfl | ⟨hk, m, rfl, hm⟩
    · exact ⟨.optionSyntax, by simp [ItemAttr.step]⟩
    · exact ⟨.empty, by simp [ItemAttr.step, DWBody.nested, asMetas]⟩
    · exact ⟨.optionEnumSkipInner, by simp [ItemAttr.step, DWBody.nested, asMetas, hm, hk]⟩
  obtain ⟨e, he⟩ := steps_error c raw.kind pre post a hpre hstep {}
  refine ⟨e, ?_⟩
  simp [Input.fromInput, ItemAttr.fromAttrs, hattrs, he, bind, Except.bind]

end DW
