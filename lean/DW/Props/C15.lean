import DW.Lemmas.Validate
import DW.Lemmas.Reject
import DW.Gen

/-!
# C15 — invariant-breaking or meaningless attribute combinations are rejected

Each theorem has the form "if `Input::from_input` accepts, the documented
condition holds", i.e. every item violating it is rejected, for every raw item
(any number/shape of variants, fields, attributes, any placement) and every
feature configuration.  All are projections of `Input.fromInput_ok`
(`Lemmas/Validate.lean`), proved by inversion of the model of the validation
code; the model is tied to the code by correspondence A on the invalid and
malformed streams (outcome class and message).
-/

namespace DW

/-- `incomparable` anywhere ⇒ neither `Eq` nor `Ord` is derived in any attribute. -/
theorem C15_incomparable_total (c : Cfg) (raw : RawItem) (inp : Input) (h : Input.fromInput c raw = .ok inp)
    (hinc : inp.item.markedIncomparable = true ∨ ∃ d ∈ inp.item.variants, d.incomparable = true) :
    ∀ dw ∈ inp.deriveWheres, ∀ t ∈ dw.traits, t.trait ≠ .eq ∧ t.trait ≠ .ord :=
  ((Input.fromInput_ok c raw inp h).incomparable hinc).1

/-- `incomparable` anywhere ⇒ `PartialEq` or `PartialOrd` is derived. -/
theorem C15_incomparable_needs_partial (c : Cfg) (raw : RawItem) (inp : Input)
    (h : Input.fromInput c raw = .ok inp)
    (hinc : inp.item.markedIncomparable = true ∨ ∃ d ∈ inp.item.variants, d.incomparable = true) :
    ∃ dw ∈ inp.deriveWheres, ∃ t ∈ dw.traits, t.trait = .partialEq ∨ t.trait = .partialOrd :=
  ((Input.fromInput_ok c raw inp h).incomparable hinc).2

/-- `incomparable` is never on both the enum and one of its variants. -/
theorem C15_incomparable_not_both (c : Cfg) (raw : RawItem) (inp : Input) (h : Input.fromInput c raw = .ok inp)
    (hm : inp.item.markedIncomparable = true) (he : inp.item.isEnum = true) :
    ∀ d ∈ inp.item.variants, d.incomparable = false :=
  (Input.fromInput_ok c raw inp h).incNotBoth hm he

/-- `Default` on an enum ⇒ exactly one variant carries `default`. -/
theorem C15_default_unique (c : Cfg) (raw : RawItem) (inp : Input) (h : Input.fromInput c raw = .ok inp)
    (he : inp.item.isEnum = true) (hd : ∃ dw ∈ inp.deriveWheres, dw.contains .default = true) :
    (inp.item.variants.filter (·.default)).length = 1 :=
  (Input.fromInput_ok c raw inp h).defaultExists he hd

/-- `default` on a variant ⇒ `Default` is derived; never two `default`s. -/
theorem C15_default_needs_derive (c : Cfg) (raw : RawItem) (inp : Input) (h : Input.fromInput c raw = .ok inp) :
    (∀ d ∈ inp.item.variants, d.default = true → ∃ dw ∈ inp.deriveWheres, dw.contains .default = true) ∧
    (inp.item.isEnum = true → (inp.item.variants.filter (·.default)).length ≤ 1) :=
  ⟨(Input.fromInput_ok c raw inp h).defaultDerived, (Input.fromInput_ok c raw inp h).defaultAtMostOne⟩

/-- Unions only derive `Clone` and `Copy`. -/
theorem C15_union_traits (c : Cfg) (raw : RawItem) (inp : Input) (h : Input.fromInput c raw = .ok inp)
    (hu : raw.kind = .union_) :
    ∀ dw ∈ inp.deriveWheres, ∀ t ∈ dw.traits, t.trait = .clone ∨ t.trait = .copy := by
  intro dw hdw t ht
  have := (Input.fromInput_ok c raw inp h).union dw hdw t ht hu
  cases htt : t.trait <;> simp_all [Trait.supportsUnion]

/-- No trait twice under the same bound list (after merging adjacent equal lists);
at least one trait is requested. -/
theorem C15_no_duplicate_trait (c : Cfg) (raw : RawItem) (inp : Input) (h : Input.fromInput c raw = .ok inp) :
    inp.deriveWheres ≠ [] ∧ ∀ dw ∈ inp.deriveWheres, hasDup dw.traits = false :=
  ⟨(Input.fromInput_ok c raw inp h).dwsNonempty, (Input.fromInput_ok c raw inp h).noDup⟩

/-- Every skip marker names only groups one of whose traits is derived; a bare
`skip`/`skip_inner` needs some skippable derived trait. -/
theorem C15_skip_group_derived (c : Cfg) (raw : RawItem) (inp : Input) (h : Input.fromInput c raw = .ok inp) :
    ∀ d ∈ inp.item.variants, SkipOK inp.deriveWheres d.skipInner ∧ ∀ f ∈ d.fields, SkipOK inp.deriveWheres f.skip :=
  (Input.fromInput_ok c raw inp h).skips

theorem steps_error (c : Cfg) (kind : ItemKind) (pre post : List RawAttr) (a : RawAttr)
    (hpre : ∀ x ∈ pre, ∀ b, x ≠ .dw b)
    (ha : ∀ acc, ∃ e, ItemAttr.step c kind acc a = .error e) :
    ∀ acc, ∃ e, ItemAttr.steps c kind (pre ++ a :: post) acc = .error e := by
  induction pre with
  | nil =>
    intro acc
    obtain ⟨e, he⟩ := ha acc
    exact ⟨e, by simp [ItemAttr.steps, he, bind, Except.bind]⟩
  | cons x pre ih =>
    intro acc
    have hx : ItemAttr.step c kind acc x = .ok acc := by
      cases x with
      | dw b => exact absurd rfl (hpre _ (by simp) b)
      | dwQualified _ _ => rfl
      | repr _ => rfl
      | bare _ => rfl
      | other => rfl
    obtain ⟨e, he⟩ := ih (fun y hy => hpre y (by simp [hy])) acc
    exact ⟨e, by simp [ItemAttr.steps, hx, he, bind, Except.bind]⟩

/-- `skip_inner` on an enum item, an empty `#[derive_where()]` and a non-list
`#[derive_where]` are rejected outright, wherever the attribute stands. -/
theorem C15_item_attr_shape (c : Cfg) (raw : RawItem) (pre post : List RawAttr) (a : RawAttr)
    (hattrs : raw.attrs = pre ++ a :: post)
    (hpre : ∀ x ∈ pre, ∀ b, x ≠ .dw b)
    (ha : a = .dw .notList ∨ a = .dw (.list [] none) ∨
      (raw.kind = .enum_ ∧ ∃ m, a = .dw (.list [.ofMeta m] none) ∧ m.getPath.isIdent "skip_inner" = true)) :
    ∃ e, Input.fromInput c raw = .error e := by
  have hstep : ∀ acc, ∃ e, ItemAttr.step c raw.kind acc a = .error e := by
    intro acc
    rcases ha with rfl | rfl | ⟨hk, m, rfl, hm⟩
    · exact ⟨.optionSyntax, by simp [ItemAttr.step]⟩
    · exact ⟨.empty, by simp [ItemAttr.step, DWBody.nested, asMetas]⟩
    · exact ⟨.optionEnumSkipInner, by simp [ItemAttr.step, DWBody.nested, asMetas, hm, hk]⟩
  obtain ⟨e, he⟩ := steps_error c raw.kind pre post a hpre hstep {}
  refine ⟨e, ?_⟩
  simp [Input.fromInput, ItemAttr.fromAttrs, hattrs, he, bind, Except.bind]

end DW

namespace DW

/-!
## Rejection wherever the offending option stands

The following theorems have the form "an item containing X is rejected", for
any surrounding attributes, fields, variants, trait lists and configurations
(`Fails x` = `x` returns an error): either an earlier check fails first or the
validation reaches X and fails there.
-/

/-- **Repeated `skip`.** A bare `skip` together with any other `skip` option on
the same field, in one attribute or spread over several, in either order
(`skip, skip`, `skip, skip(Debug)`, `skip(Debug), skip`, two attributes ..). -/
theorem C15_skip_repeated (c : Cfg) (raw : RawItem) (v : RawVariant) (f : RawField)
    (hv : v ∈ raw.variants) (hf : f ∈ v.fields) (hs : v.shape ≠ .unit)
    (pre mid post : List Meta) (m1 m2 : Meta)
    (hflat : flatMetas f.attrs = some (pre ++ m1 :: (mid ++ m2 :: post)))
    (h1 : m1.isSkipOpt) (h2 : m2.isSkipOpt) (hb : (∃ p, m1 = .path p) ∨ (∃ p, m2 = .path p)) :
    Fails (Input.fromInput c raw) := by
  apply Input.fromInput_fails_of_field c raw v f hv hf _ hs
  intro dws si
  rw [FieldAttr.fromAttrs_flat_some c dws si f.attrs _ hflat]
  exact FieldAttr.addMetas_repeat c dws si pre mid post m1 m2 h1 h2 hb _

/-- A field attribute that is not a non-empty, comma separated list of options
(`#[derive_where]`, `#[derive_where()]`, `#[derive_where = ..]`, junk) is rejected. -/
theorem C15_field_attr_shape (c : Cfg) (raw : RawItem) (v : RawVariant) (f : RawField)
    (hv : v ∈ raw.variants) (hf : f ∈ v.fields) (hs : v.shape ≠ .unit) (hflat : flatMetas f.attrs = none) :
    Fails (Input.fromInput c raw) :=
  Input.fromInput_fails_of_field c raw v f hv hf
    (fun dws si => FieldAttr.fromAttrs_flat_none c dws si f.attrs hflat _) hs

/-- **Redundant field skip.** `skip(.., G, ..)` on a field whose parent already
skips group `G` through `skip_inner`, and a bare `skip` under a bare
`skip_inner`, are rejected (stated for the field's option list under any parent
marker `si` that covers `G`; the list may contain anything else). -/
theorem C15_skip_redundant (c : Cfg) (dws : List DeriveWhere) (si : Skip) (pre post gpre gpost : List Meta)
    (lp p : MPath) (g : SkipGroup) (hl : lp.isIdent "skip" = true)
    (hp : SkipGroup.fromPath c p = .ok g) (hcov : si.groupSkipped g = true) :
    ∀ s, Fails (FieldAttr.addMetas c dws si (pre ++ .list lp true (gpre ++ .path p :: gpost) :: post) s) := by
  apply FieldAttr.addMetas_append_error
  intro s
  rcases FieldAttr.addMetas_cons c dws si (.list lp true (gpre ++ .path p :: gpost)) post s with he | ⟨s', _, h⟩
  · exact he
  · rcases h with ⟨_, h⟩ | ⟨h, _⟩
    · obtain ⟨e, he⟩ := Skip.addAttribute_parent c s.skip "skip" dws (some si) lp p g hp
        (by simpa [parentCovers] using hcov) gpre gpost
      rw [he] at h; cases h
    · simp only [Meta.getPath] at h; rw [hl] at h; cases h

theorem C15_skip_redundant_bare (c : Cfg) (dws : List DeriveWhere) (pre post : List Meta) (p : MPath)
    (hp : p.isIdent "skip" = true) :
    ∀ s, Fails (FieldAttr.addMetas c dws .all (pre ++ .path p :: post) s) := by
  apply FieldAttr.addMetas_append_error
  intro s
  rcases FieldAttr.addMetas_cons c dws .all (.path p) post s with he | ⟨s', _, h⟩
  · exact he
  · rcases h with ⟨_, h⟩ | ⟨h, _⟩
    · obtain ⟨e, he⟩ := Skip.addAttribute_bare_parent c s.skip "skip" dws p
      rw [he] at h; cases h
    · simp only [Meta.getPath] at h; rw [hp] at h; cases h

/-- **`skip_inner` on a field-less variant** (`V`, `V()`, `V {}`) is rejected,
wherever it stands among the variant's options and attributes. -/
theorem C15_skip_inner_no_fields (c : Cfg) (raw : RawItem) (v : RawVariant) (hk : raw.kind = .enum_)
    (hv : v ∈ raw.variants) (hnf : v.fields.isEmpty = true)
    (pre post : List Meta) (m : Meta) (hm : m.getPath.isIdent "skip_inner" = true)
    (hflat : flatMetas v.attrs = some (pre ++ m :: post)) :
    Fails (Input.fromInput c raw) := by
  apply Input.fromInput_fails_of_variant c raw v hv
  · intro _ dws
    unfold Data.fromVariant
    refine Fails.bind_left ?_
    rw [hnf, VariantAttr.fromAttrs_flat_some c dws true v.attrs _ hflat]
    exact VariantAttr.addMetas_noFields c dws pre post m hm _
  · intro h; exact absurd hk h
  · intro h; exact absurd hk h

/-- **Lifetime predicates (and unparsable entries) in a bound list** are rejected:
`#[derive_where(Clone; 'a: 'b)]`, wherever the entry stands in the list and the
attribute among the item's attributes. -/
theorem C15_lifetime_bound (c : Cfg) (raw : RawItem) (pre post : List RawAttr) (es : List Elem) (gs : List GElem)
    (hattrs : raw.attrs = pre ++ .dw (.list es (some gs)) :: post)
    (g : RawGeneric) (hg : (∃ t, g = .lifetimePred t) ∨ (∃ t, g = .bad t)) (hmem : GElem.gen g ∈ gs) :
    Fails (Input.fromInput c raw) := by
  apply Input.fromInput_fails_of_attr c raw pre post _ hattrs
  intro acc
  apply ItemAttr.step_semi
  rw [DeriveWhere.fromAttr_semi]
  apply DeriveWhere.loop_fails_generics
  apply parseGenerics_fails g _ gs hmem
  rcases hg with ⟨t, rfl⟩ | ⟨t, rfl⟩ <;> exact ⟨_, rfl⟩

/-- **Unknown, qualified, raw or wrongly parametrised traits** in a trait list with
a `;` are rejected (`Foo`, `a::Clone`, `r#Clone`, `Clone(x)`, `Clone = 1`,
`Zeroize(foo)`, a trait a union does not support ..): any entry on which
`DeriveTrait::from_stream` fails, wherever it stands. -/
theorem C15_bad_trait (c : Cfg) (raw : RawItem) (pre post : List RawAttr) (es : List Elem) (gs : List GElem)
    (hattrs : raw.attrs = pre ++ .dw (.list es (some gs)) :: post)
    (m : Meta) (hm : Fails (DeriveTrait.fromMeta c raw.kind m)) (hmem : Elem.ofMeta m ∈ es) :
    Fails (Input.fromInput c raw) := by
  apply Input.fromInput_fails_of_attr c raw pre post _ hattrs
  intro acc
  apply ItemAttr.step_semi
  rw [DeriveWhere.fromAttr_semi]
  exact DeriveWhere.loop_fails_meta c raw.kind (some gs) m hm es [] hmem

/-- Instances of `C15_bad_trait`'s premise. -/
theorem C15_bad_trait_instances (c : Cfg) (kind : ItemKind) :
    Fails (DeriveTrait.fromMeta c kind (.path ⟨false, [⟨"Foo", false⟩], none⟩)) ∧
    Fails (DeriveTrait.fromMeta c kind (.path ⟨false, [⟨"a", false⟩, ⟨"Clone", false⟩], none⟩)) ∧
    Fails (DeriveTrait.fromMeta c kind (.path ⟨false, [⟨"Clone", true⟩], none⟩)) ∧
    Fails (DeriveTrait.fromMeta c kind (.list ⟨false, [⟨"Clone", false⟩], none⟩ true [.path ⟨false, [⟨"x", false⟩], none⟩])) ∧
    Fails (DeriveTrait.fromMeta c kind (.nameValue ⟨false, [⟨"Clone", false⟩], none⟩ .other)) ∧
    Fails (DeriveTrait.fromMeta c .union_ (.path ⟨false, [⟨"Debug", false⟩], none⟩)) := by
  refine ⟨⟨.trait_, rfl⟩, ⟨.trait_, rfl⟩, ⟨.trait_, rfl⟩, ?_, ?_, ⟨.union, rfl⟩⟩
  · cases kind <;> exact ⟨.options "Clone", rfl⟩
  · cases kind <;> exact ⟨.optionSyntax, rfl⟩

/-- **Items with nothing to derive from**: a struct without fields that is not
marked `incomparable`. -/
theorem C15_empty_struct (c : Cfg) (raw : RawItem) (v : RawVariant) (hk : raw.kind = .struct_)
    (hvs : raw.variants = [v]) (hempty : v.shape = .unit ∨ v.fields = [])
    (hinc : ∀ attr, ItemAttr.fromAttrs c raw.kind raw.attrs = .ok attr → attr.incomparable = false) :
    Fails (Input.fromInput c raw) := by
  unfold Input.fromInput
  cases hattr : ItemAttr.fromAttrs c raw.kind raw.attrs with
  | error e => exact ⟨e, rfl⟩
  | ok attr =>
    have hi := hinc attr hattr
    have hb : Fails (Input.buildItem c raw attr) := by
      simp only [Input.buildItem, hk, hvs, hi]
      refine Fails.bind_left ?_
      unfold Data.fromStruct
      simp only [show (ItemKind.struct_ == ItemKind.union_) = false from rfl, Bool.false_eq_true, ↓reduceIte]
      rcases hempty with h | h
      · simp only [h]; exact ⟨_, rfl⟩
      · split
        · exact ⟨_, rfl⟩
        · simp only [h, List.isEmpty_nil, Bool.not_false, Bool.and_self, ↓reduceIte]; exact ⟨_, rfl⟩
    obtain ⟨e, he⟩ := hb
    exact ⟨e, by simp [he, bind, Except.bind]⟩

/-- **Nothing a plain `#[derive]` could not do** (`Error::use_case`): an attribute
whose bound list is exactly the item's type parameters, all plain, and whose
traits involve no skipping, no `incomparable`, no enum `Default` and no zeroize
option is rejected. -/
theorem C15_use_case (c : Cfg) (raw : RawItem) (attr : ItemAttr) (item : Item) (fi : Bool)
    (hattr : ItemAttr.fromAttrs c raw.kind raw.attrs = .ok attr)
    (hitem : Input.buildItem c raw attr = .ok (item, fi))
    (huse : useCaseViolation c raw.generics item fi attr.deriveWheres = true) :
    Input.fromInput c raw = .error .useCase := by
  simp [Input.fromInput, hattr, hitem, huse, bind, Except.bind]

end DW

namespace DW

/-- Non-vacuity of `C15_skip_repeated` / `C15_skip_inner_no_fields`: concrete attribute lists meet the premises. -/
example :
    let skipP : MPath := ⟨false, [⟨"skip", false⟩], none⟩
    let m1 : Meta := .list skipP true [.path ⟨false, [⟨"Debug", false⟩], none⟩]
    let m2 : Meta := .path skipP
    flatMetas [.list [.ofMeta m1] none, .list [.ofMeta m2] none] = some ([] ++ m1 :: ([] ++ m2 :: []))
      ∧ m1.isSkipOpt ∧ m2.isSkipOpt ∧ ((∃ p, m1 = .path p) ∨ (∃ p, m2 = .path p)) := by
  refine ⟨rfl, rfl, rfl, Or.inr ⟨_, rfl⟩⟩

example :
    let m : Meta := .path ⟨false, [⟨"skip_inner", false⟩], none⟩
    flatMetas [.list [.ofMeta (.path ⟨false, [⟨"default", false⟩], none⟩), .comma, .ofMeta m] none]
      = some ([.path ⟨false, [⟨"default", false⟩], none⟩] ++ m :: []) ∧ m.getPath.isIdent "skip_inner" = true :=
  ⟨rfl, rfl⟩


/-! ### A repeated `Zeroize(..)` option on a field (round 7) -/

theorem MPath.isIdent_zeroize_not_skip (p : MPath) (h : p.isIdent "Zeroize" = true) : p.isIdent "skip" = false := by
  unfold MPath.isIdent at *
  split at h
  · rename_i i hi
    simp only [Bool.and_eq_true, Bool.not_eq_eq_eq_not, Bool.not_true, beq_iff_eq] at h
    simp [h.2]
  · cases h

/-- With the flag already set, a non-empty `Zeroize(..)` option list is always refused. -/
theorem ZeroizeFqs.addOptions_true (ms : List Meta) (b : Bool) (h : ZeroizeFqs.addOptions ms true = .ok b) : ms = [] := by
  cases ms with
  | nil => rfl
  | cons m rest =>
    cases m with
    | path p =>
      simp only [ZeroizeFqs.addOptions] at h
      split at h <;> simp at h
    | list p a i => simp [ZeroizeFqs.addOptions] at h
    | nameValue p v => simp [ZeroizeFqs.addOptions] at h

/-- From a clear flag a non-empty list can only succeed by setting it. -/
theorem ZeroizeFqs.addOptions_false (ms : List Meta) (b : Bool) (hne : ms ≠ [])
    (h : ZeroizeFqs.addOptions ms false = .ok b) : b = true := by
  cases ms with
  | nil => exact absurd rfl hne
  | cons m rest =>
    cases m with
    | path p =>
      simp only [ZeroizeFqs.addOptions] at h
      split at h
      · simp only [Bool.false_eq_true, ↓reduceIte] at h
        have := ZeroizeFqs.addOptions_true rest b h
        subst this
        simpa [ZeroizeFqs.addOptions] using h.symm
      · simp at h
    | list p a i => simp [ZeroizeFqs.addOptions] at h
    | nameValue p v => simp [ZeroizeFqs.addOptions] at h

/-- A `Zeroize(..)` option that is accepted found the flag clear and leaves it set. -/
theorem ZeroizeFqs.addAttribute_ok (self b : Bool) (m : Meta) (dws : List DeriveWhere)
    (h : ZeroizeFqs.addAttribute self m dws = .ok b) : self = false ∧ b = true := by
  unfold ZeroizeFqs.addAttribute at h
  split at h
  · simp at h
  · cases m with
    | path p => simp at h
    | nameValue p v => simp at h
    | list p parsable inner =>
      simp only [] at h
      cases hp : parseNonEmpty parsable inner with
      | error e => simp [hp, bind, Except.bind] at h
      | ok nested =>
        simp only [hp, bind, Except.bind] at h
        have hne : nested ≠ [] := by
          unfold parseNonEmpty at hp
          split at hp
          · simp at hp
          · split at hp
            · simp at hp
            · rename_i hi
              simp only [Except.ok.injEq] at hp; subst hp
              intro hn; simp [hn] at hi
        cases self with
        | true => exact absurd (ZeroizeFqs.addOptions_true nested b h) hne
        | false => exact ⟨rfl, ZeroizeFqs.addOptions_false nested b hne h⟩

/-- One step of the field option loop, as far as the `fqs` flag is concerned. -/
theorem FieldAttr.addMetas_cons_fqs (c : Cfg) (dws : List DeriveWhere) (si : Skip) (m : Meta) (rest : List Meta)
    (s : FieldAttr) :
    Fails (FieldAttr.addMetas c dws si (m :: rest) s) ∨
    ∃ s', FieldAttr.addMetas c dws si (m :: rest) s = FieldAttr.addMetas c dws si rest s' ∧
      (s.fqs = true → s'.fqs = true) ∧
      (m.getPath.isIdent "skip" = false → m.getPath.isIdent "Zeroize" = true → s.fqs = false ∧ s'.fqs = true) := by
  by_cases hs : m.getPath.isIdent "skip" = true
  · simp only [FieldAttr.addMetas, hs, ↓reduceIte]
    cases h : Skip.addAttribute c s.skip "skip" dws (some si) m with
    | error e => exact .inl ⟨e, by simp [bind, Except.bind]⟩
    | ok sk =>
      exact .inr ⟨{ s with skip := sk }, by simp [bind, Except.bind], fun h => h, fun h' => by simp [hs] at h'⟩
  · have hs' : m.getPath.isIdent "skip" = false := by simpa using hs
    simp only [FieldAttr.addMetas, hs', Bool.false_eq_true, ↓reduceIte]
    by_cases hz : (c.zeroize && m.getPath.isIdent "Zeroize") = true
    · simp only [hz, ↓reduceIte]
      cases h : ZeroizeFqs.addAttribute s.fqs m dws with
      | error e => exact .inl ⟨e, by simp [bind, Except.bind]⟩
      | ok f =>
        obtain ⟨h1, h2⟩ := ZeroizeFqs.addAttribute_ok _ _ _ _ h
        exact .inr ⟨{ s with fqs := f }, by simp [bind, Except.bind], fun _ => h2, fun _ _ => ⟨h1, h2⟩⟩
    · simp only [hz, Bool.false_eq_true, ↓reduceIte]
      exact .inl ⟨_, rfl⟩

/-- Once the flag is set, a later `Zeroize(..)` option of any form fails. -/
theorem FieldAttr.addMetas_after_fqs (c : Cfg) (dws : List DeriveWhere) (si : Skip) (mid : List Meta) (m : Meta)
    (post : List Meta) (hm1 : m.getPath.isIdent "skip" = false) (hm2 : m.getPath.isIdent "Zeroize" = true) :
    ∀ s, s.fqs = true → Fails (FieldAttr.addMetas c dws si (mid ++ m :: post) s) := by
  induction mid with
  | nil =>
    intro s hs
    rcases FieldAttr.addMetas_cons_fqs c dws si m post s with he | ⟨s', _, _, h⟩
    · exact he
    · have := (h hm1 hm2).1
      rw [hs] at this; cases this
  | cons x mid ih =>
    intro s hs
    rcases FieldAttr.addMetas_cons_fqs c dws si x (mid ++ m :: post) s with he | ⟨s', heq, hkeep, _⟩
    · exact he
    · rw [List.cons_append, heq]; exact ih s' (hkeep hs)

/-- Two `Zeroize(..)` options among the options of one field are rejected, wherever they stand. -/
theorem FieldAttr.addMetas_zeroize_twice (c : Cfg) (dws : List DeriveWhere) (si : Skip) (pre mid post : List Meta)
    (m1 m2 : Meta) (h1 : m1.getPath.isIdent "skip" = false ∧ m1.getPath.isIdent "Zeroize" = true)
    (h2 : m2.getPath.isIdent "skip" = false ∧ m2.getPath.isIdent "Zeroize" = true) :
    ∀ s, Fails (FieldAttr.addMetas c dws si (pre ++ m1 :: (mid ++ m2 :: post)) s) := by
  apply FieldAttr.addMetas_append_error
  intro s
  rcases FieldAttr.addMetas_cons_fqs c dws si m1 (mid ++ m2 :: post) s with he | ⟨s', heq, _, h⟩
  · exact he
  · rw [heq]
    exact FieldAttr.addMetas_after_fqs c dws si mid m2 post h2.1 h2.2 s' (h h1.1 h1.2).2

/-- **Repeated `Zeroize(..)` field option.** A field carrying two `Zeroize(..)` options — `Zeroize(fqs), Zeroize(fqs)` in
one attribute, or one in each of two attributes, with anything in between — is rejected in every configuration (`fqs`
inside one list twice is `ZeroizeFqs.addOptions`'s duplicate error). -/
theorem C15_fqs_repeated (c : Cfg) (raw : RawItem) (v : RawVariant) (f : RawField)
    (hv : v ∈ raw.variants) (hf : f ∈ v.fields) (hs : v.shape ≠ .unit)
    (pre mid post : List Meta) (m1 m2 : Meta)
    (hflat : flatMetas f.attrs = some (pre ++ m1 :: (mid ++ m2 :: post)))
    (h1 : m1.getPath.isIdent "Zeroize" = true) (h2 : m2.getPath.isIdent "Zeroize" = true) :
    Fails (Input.fromInput c raw) := by
  apply Input.fromInput_fails_of_field c raw v f hv hf _ hs
  intro dws si
  rw [FieldAttr.fromAttrs_flat_some c dws si f.attrs _ hflat]
  exact FieldAttr.addMetas_zeroize_twice c dws si pre mid post m1 m2 ⟨MPath.isIdent_zeroize_not_skip _ h1, h1⟩
    ⟨MPath.isIdent_zeroize_not_skip _ h2, h2⟩ _

/-- The hypotheses of `C15_fqs_repeated` are met by `#[derive_where(Zeroize(fqs))] #[derive_where(Zeroize(fqs))]` on a
field (two attributes) and by `#[derive_where(Zeroize(fqs), Zeroize(fqs))]` (one). -/
example :
    let fq : Meta := .list ⟨false, [⟨"Zeroize", false⟩], none⟩ true [.path ⟨false, [⟨"fqs", false⟩], none⟩]
    flatMetas [.list [.ofMeta fq] none, .list [.ofMeta fq] none] = some ([] ++ fq :: ([] ++ fq :: [])) ∧
    flatMetas [.list [.ofMeta fq, .comma, .ofMeta fq] none] = some ([] ++ fq :: ([] ++ fq :: [])) ∧
    fq.getPath.isIdent "Zeroize" = true := by
  refine ⟨rfl, rfl, ?_⟩
  decide

/-! ### `default` / `incomparable` repeated on a variant (round 7) -/

theorem MPath.isIdent_ne (p : MPath) (a b : String) (hab : a ≠ b) (h : p.isIdent a = true) : p.isIdent b = false := by
  unfold MPath.isIdent at *
  split at h
  · rename_i i hi
    simp only [Bool.and_eq_true, Bool.not_eq_eq_eq_not, Bool.not_true, beq_iff_eq] at h
    simp [h.2, hab]
  · cases h

theorem Default.addAttribute_flag (self b : Bool) (m : Meta) (dws : List DeriveWhere)
    (h : Default.addAttribute self m dws = .ok b) : self = false ∧ b = true := by
  unfold Default.addAttribute at h
  cases m with
  | path p =>
    simp only [] at h
    split at h
    · simp at h
    · split at h
      · simp only [Except.ok.injEq] at h; rename_i hs _; exact ⟨by simpa using hs, h.symm⟩
      · simp at h
  | list p a i => simp at h
  | nameValue p v => simp at h

theorem Incomparable.addAttribute_flag (self b : Bool) (m : Meta) (dws : List DeriveWhere)
    (h : Incomparable.addAttribute self m dws = .ok b) : self = false ∧ b = true := by
  unfold Incomparable.addAttribute at h
  cases m with
  | path p =>
    simp only [] at h
    split at h
    · simp at h
    · rename_i hs
      cases hsc : incomparableScan (dws.flatMap (·.traits)) false with
      | error e => simp [hsc, bind, Except.bind] at h
      | ok ic =>
        simp only [hsc, bind, Except.bind] at h
        split at h
        · simp only [Except.ok.injEq] at h; exact ⟨by simpa using hs, h.symm⟩
        · simp at h
  | list p a i => simp at h
  | nameValue p v => simp at h

/-- What one step of the variant option loop does to the `default` and `incomparable` flags. -/
theorem VariantAttr.addMetas_cons_flags (c : Cfg) (dws : List DeriveWhere) (nf : Bool) (m : Meta) (rest : List Meta)
    (s : VariantAttr) :
    Fails (VariantAttr.addMetas c dws nf (m :: rest) s) ∨
    ∃ s', VariantAttr.addMetas c dws nf (m :: rest) s = VariantAttr.addMetas c dws nf rest s' ∧
      (s.default = true → s'.default = true) ∧ (s.incomparable = true → s'.incomparable = true) ∧
      (m.getPath.isIdent "default" = true → s.default = false ∧ s'.default = true) ∧
      (m.getPath.isIdent "incomparable" = true → s.incomparable = false ∧ s'.incomparable = true) := by
  by_cases h1 : m.getPath.isIdent "skip_inner" = true
  · have n2 := MPath.isIdent_ne _ "skip_inner" "default" (by decide) h1
    have n3 := MPath.isIdent_ne _ "skip_inner" "incomparable" (by decide) h1
    simp only [VariantAttr.addMetas, h1, ↓reduceIte]
    split
    · exact .inl ⟨_, rfl⟩
    · cases h : Skip.addAttribute c s.skipInner "skip_inner" dws none m with
      | error e => exact .inl ⟨e, by simp [bind, Except.bind]⟩
      | ok sk =>
        exact .inr ⟨{ s with skipInner := sk }, by simp [bind, Except.bind], fun h => h, fun h => h,
          fun h' => by simp [n2] at h', fun h' => by simp [n3] at h'⟩
  · have h1' : m.getPath.isIdent "skip_inner" = false := by simpa using h1
    by_cases h2 : m.getPath.isIdent "default" = true
    · have n3 := MPath.isIdent_ne _ "default" "incomparable" (by decide) h2
      simp only [VariantAttr.addMetas, h1', h2, Bool.false_eq_true, ↓reduceIte]
      cases h : Default.addAttribute s.default m dws with
      | error e => exact .inl ⟨e, by simp [bind, Except.bind]⟩
      | ok d =>
        obtain ⟨a, b⟩ := Default.addAttribute_flag _ _ _ _ h
        exact .inr ⟨{ s with default := d }, by simp [bind, Except.bind], fun _ => b, fun h => h,
          fun _ => ⟨a, b⟩, fun h' => by simp [n3] at h'⟩
    · have h2' : m.getPath.isIdent "default" = false := by simpa using h2
      by_cases h3 : m.getPath.isIdent "incomparable" = true
      · simp only [VariantAttr.addMetas, h1', h2', h3, Bool.false_eq_true, ↓reduceIte]
        cases h : Incomparable.addAttribute s.incomparable m dws with
        | error e => exact .inl ⟨e, by simp [bind, Except.bind]⟩
        | ok d =>
          obtain ⟨a, b⟩ := Incomparable.addAttribute_flag _ _ _ _ h
          exact .inr ⟨{ s with incomparable := d }, by simp [bind, Except.bind], fun h => h, fun _ => b,
            fun h' => by simp at h', fun _ => ⟨a, b⟩⟩
      · have h3' : m.getPath.isIdent "incomparable" = false := by simpa using h3
        simp only [VariantAttr.addMetas, h1', h2', h3', Bool.false_eq_true, ↓reduceIte]
        exact .inl ⟨_, rfl⟩

theorem VariantAttr.addMetas_append_error (c : Cfg) (dws : List DeriveWhere) (nf : Bool) (pre rest : List Meta)
    (h : ∀ s, Fails (VariantAttr.addMetas c dws nf rest s)) :
    ∀ s, Fails (VariantAttr.addMetas c dws nf (pre ++ rest) s) := by
  induction pre with
  | nil => exact h
  | cons m pre ih =>
    intro s
    rcases VariantAttr.addMetas_cons_flags c dws nf m (pre ++ rest) s with he | ⟨s', heq, _⟩
    · exact he
    · rw [List.cons_append, heq]; exact ih s'

/-- `default` twice, or `incomparable` twice, among the options of one variant: rejected wherever they stand. -/
theorem VariantAttr.addMetas_twice (c : Cfg) (dws : List DeriveWhere) (nf : Bool) (pre mid post : List Meta)
    (m1 m2 : Meta) (name : String) (hname : name = "default" ∨ name = "incomparable")
    (h1 : m1.getPath.isIdent name = true) (h2 : m2.getPath.isIdent name = true) :
    ∀ s, Fails (VariantAttr.addMetas c dws nf (pre ++ m1 :: (mid ++ m2 :: post)) s) := by
  apply VariantAttr.addMetas_append_error
  intro s
  -- the flag named `name`
  let flag : VariantAttr → Bool := fun a => if name = "default" then a.default else a.incomparable
  have step : ∀ (m : Meta) (rest : List Meta) (s : VariantAttr),
      Fails (VariantAttr.addMetas c dws nf (m :: rest) s) ∨
      ∃ s', VariantAttr.addMetas c dws nf (m :: rest) s = VariantAttr.addMetas c dws nf rest s' ∧
        (flag s = true → flag s' = true) ∧ (m.getPath.isIdent name = true → flag s = false ∧ flag s' = true) := by
    intro m rest s
    rcases VariantAttr.addMetas_cons_flags c dws nf m rest s with he | ⟨s', heq, k1, k2, k3, k4⟩
    · exact .inl he
    · refine .inr ⟨s', heq, ?_, ?_⟩
      · rcases hname with rfl | rfl
        · simpa [flag] using k1
        · simpa [flag] using k2
      · rcases hname with rfl | rfl
        · simpa [flag] using k3
        · simpa [flag] using k4
  have after : ∀ (mid : List Meta) (s : VariantAttr), flag s = true →
      Fails (VariantAttr.addMetas c dws nf (mid ++ m2 :: post) s) := by
    intro mid
    induction mid with
    | nil =>
      intro s hs
      rcases step m2 post s with he | ⟨s', _, _, h⟩
      · exact he
      · have := (h h2).1; rw [hs] at this; cases this
    | cons x mid ih =>
      intro s hs
      rcases step x (mid ++ m2 :: post) s with he | ⟨s', heq, hk, _⟩
      · exact he
      · rw [List.cons_append, heq]; exact ih s' (hk hs)
  rcases step m1 (mid ++ m2 :: post) s with he | ⟨s', heq, _, h⟩
  · exact he
  · rw [heq]; exact after mid s' (h h1).2

/-- **Repeated `default` / `incomparable` on a variant.** Two `default` options, or two `incomparable` options, on one
variant of an enum — in one attribute or spread over several, with anything in between — are rejected. -/
theorem C15_variant_option_repeated (c : Cfg) (raw : RawItem) (v : RawVariant) (hk : raw.kind = .enum_)
    (hv : v ∈ raw.variants) (pre mid post : List Meta) (m1 m2 : Meta) (name : String)
    (hname : name = "default" ∨ name = "incomparable")
    (hflat : flatMetas v.attrs = some (pre ++ m1 :: (mid ++ m2 :: post)))
    (h1 : m1.getPath.isIdent name = true) (h2 : m2.getPath.isIdent name = true) :
    Fails (Input.fromInput c raw) := by
  apply Input.fromInput_fails_of_variant c raw v hv
  · intro _ dws
    unfold Data.fromVariant
    refine Fails.bind_left ?_
    rw [VariantAttr.fromAttrs_flat_some c dws _ v.attrs _ hflat]
    exact VariantAttr.addMetas_twice c dws _ pre mid post m1 m2 name hname h1 h2 _
  · intro h; exact absurd hk h
  · intro h; exact absurd hk h

example :
    let d : Meta := .path ⟨false, [⟨"default", false⟩], none⟩
    flatMetas [.list [.ofMeta d] none, .list [.ofMeta d] none] = some ([] ++ d :: ([] ++ d :: [])) ∧
    d.getPath.isIdent "default" = true := ⟨rfl, by decide⟩

end DW
