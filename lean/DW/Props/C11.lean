import DW.Lemmas.Fields
import DW.Lemmas.DefaultPos

/-!
# C11 — default() builds the marked variant or the struct from field defaults

`C11_body`: if exactly one variant counts as default (the struct itself, or the
one variant carrying `#[derive_where(default)]` — which `Input::from_input`
guarantees, see `Props/C15`), the body of the generated `fn default` is the
constructor expression of that variant, wherever it stands in the list, with
`Default::default()` for *every* field (skip markers never remove a field), and
evaluating it yields that value with one `Default::default` call per field.
-/

namespace DW

variable {α : Type}

/-- The generated `fn default` body. -/
def defaultMethodBody (it : Item) : Expr :=
  .seq (it.indexed.flatMap fun (k, d) => defaultBody k d)

theorem evalFields_default (cx : SemCtx α) (env : Env α) (k : Nat) (n m : Nat) (log : Log α) :
    evalFields cx env log ((List.range' n m).map fun i => FieldInit.mk i (.defaultCall k i)) =
      .ok ((List.range' n m).map (fun i => Val.leaf (cx.ops.default k i)),
        log ++ (List.range' n m).map fun i => Event.defaultField k i) := by
  induction m generalizing n log with
  | zero => simp [evalFields]
  | succ m ih =>
    simp only [List.range'_succ, List.map_cons, evalFields, eval, Out.bind_ok]
    rw [ih (n + 1)]
    simp [List.append_assoc]

theorem evalList_default (cx : SemCtx α) (env : Env α) (k : Nat) (n m : Nat) (log : Log α) :
    evalList cx env log ((List.range' n m).map fun i => Expr.defaultCall k i) =
      .ok ((List.range' n m).map (fun i => Val.leaf (cx.ops.default k i)),
        log ++ (List.range' n m).map fun i => Event.defaultField k i) := by
  induction m generalizing n log with
  | zero => simp [evalList]
  | succ m ih =>
    simp only [List.range'_succ, List.map_cons, evalList, eval, Out.bind_ok]
    rw [ih (n + 1)]
    simp [List.append_assoc]

theorem C11_body (it : Item) (cx : SemCtx α) (hwf : it.WF)
    (hnu : ∀ d ∈ it.variants, d.shape ≠ .union)
    (k : Nat) (d : Data) (hd : it.variants[k]? = some d) (hdef : d.isDefault = true)
    (hone : ∀ j d', j ≠ k → it.variants[j]? = some d' → d'.isDefault = false) :
    defaultMethodBody it = .seq (defaultBody k d) ∧
    (eval cx [] [] (defaultMethodBody it)).finish =
      .ok (specDefaultVal cx.ops k d, specDefaultLog k d) := by
  have hdmem := List.mem_of_getElem? hd
  have hsel : (it.indexed.flatMap fun (k, d) => defaultBody k d) = defaultBody k d :=
    flatMap_indexed_select it (fun k d => defaultBody k d) k d hd
      (fun j d' hj hm => by simp [defaultBody, hone j d' hj hm])
  have hrel := relevantIdx_unskippable d .default (Or.inr (Or.inr rfl))
  have hbody : defaultMethodBody it = .seq (defaultBody k d) := by
    unfold defaultMethodBody; rw [hsel]
  refine ⟨hbody, ?_⟩
  rw [hbody]
  simp only [defaultBody, hdef, if_true, specDefaultVal, specDefaultLog]
  cases hs : d.shape with
  | union => exact absurd hs (hnu d hdmem)
  | unit =>
    have := (hwf d hdmem).unit_no_fields hs
    simp [eval, Out.finish, this]
  | named =>
    have hmap := map_iterFields d .default (fun i => FieldInit.mk i (.defaultCall k i))
    simp only [eval, hmap, hrel, List.range_eq_range', evalFields_default, Out.bind_ok, Out.finish,
      List.nil_append]
  | tuple =>
    have hmap := map_iterFields d .default (fun i => Expr.defaultCall k i)
    simp only [eval, hmap, hrel, List.range_eq_range', evalList_default, Out.bind_ok, applyFn, Out.finish,
      List.nil_append]

/-- The hypotheses of `C11_body` are what validation establishes: for every accepted struct or enum that derives
`Default` there is a position `k` holding the default data, and `fn default` is its constructor with every field
defaulted. -/
theorem C11_validated (c : Cfg) (raw : RawItem) (inp : Input) (h : Input.fromInput c raw = .ok inp)
    (hnu : raw.kind ≠ .union_) (hshapes : ∀ v ∈ raw.variants, v.shape ≠ .union)
    (hder : ∃ dw ∈ inp.deriveWheres, dw.contains .default = true) (cx : SemCtx α) :
    ∃ (k : Nat) (d : Data), inp.item.variants[k]? = some d ∧ d.isDefault = true ∧
      (∀ j d', j ≠ k → inp.item.variants[j]? = some d' → d'.isDefault = false) ∧
      defaultMethodBody inp.item = .seq (defaultBody k d) ∧
      (eval cx [] [] (defaultMethodBody inp.item)).finish =
        .ok (specDefaultVal cx.ops k d, specDefaultLog k d) := by
  have hok := Input.fromInput_ok c raw inp h
  obtain ⟨k, d, hk, hdef, _, hone⟩ := default_position c raw inp h hnu hshapes hder
  obtain ⟨h1, h2⟩ := C11_body inp.item cx hok.wf (hok.shapes hnu hshapes) k d hk hdef hone
  exact ⟨k, d, hk, hdef, hone, h1, h2⟩

/-- Non-vacuity: an enum whose *second* variant is the default one meets the hypotheses of `C11_body`. -/
example :
    let unitV : Data := ⟨.none, false, ⟨"A", false⟩, .unit, true, false, [], none⟩
    let defV : Data := ⟨.none, false, ⟨"B", false⟩, .unit, true, true, [], none⟩
    let it : Item := .enum_ .unit ⟨"E", false⟩ false [unitV, defV]
    it.variants[1]? = some defV ∧ defV.isDefault = true ∧
      ∀ j d', j ≠ 1 → it.variants[j]? = some d' → d'.isDefault = false := by
  refine ⟨rfl, rfl, ?_⟩
  intro j d' hj hd'
  match j, hj, hd' with
  | 0, _, hd' => simp [Item.variants] at hd'; subst hd'; rfl
  | j + 2, _, hd' => simp [Item.variants] at hd'

/-- "skip markers never remove a field from construction", stated on the generator itself: the generated `fn default`
body of a data depends only on its shape, its number of fields and whether it counts as default — two datas that differ
in *any* skip marker (`skip_inner` of the data, `skip` of each field), in names, `incomparable` or discriminant get the
same constructor expression. -/
theorem C11_skip_blind (k : Nat) (d d' : Data) (hs : d.shape = d'.shape)
    (hl : d.fields.length = d'.fields.length) (hdef : d.isDefault = d'.isDefault) :
    defaultBody k d = defaultBody k d' := by
  have h1 := map_iterFields d .default (fun i => FieldInit.mk i (.defaultCall k i))
  have h2 := map_iterFields d' .default (fun i => FieldInit.mk i (.defaultCall k i))
  have h3 := map_iterFields d .default (fun i => Expr.defaultCall k i)
  have h4 := map_iterFields d' .default (fun i => Expr.defaultCall k i)
  have r1 := relevantIdx_unskippable d .default (Or.inr (Or.inr rfl))
  have r2 := relevantIdx_unskippable d' .default (Or.inr (Or.inr rfl))
  simp only [defaultBody, ← hs, ← hdef]
  simp only [h1, h2, h3, h4, r1, r2, hl]

end DW
