import DW.Lemmas.Fields
import DW.Fmt

/-!
# C10 — Debug output matches the standard derive, minus skipped fields

`C10_transcript`: evaluating the generated `fn fmt` performs exactly the
formatter calls of `specDebugLog`: `debug_struct`/`debug_tuple`/`write_str`
with the item's or variant's name, one `field` call per field not skipped for
`Debug` (with its name for braced shapes), then `finish`, or
`finish_non_exhaustive` iff the shape is braced and some field is skipped.
`C10_names`: the name literals are the identifiers without `r#`.
`C10_text` (round 7): the text. `DW/Fmt.lean` models `core::fmt`'s `DebugStruct` / `DebugTuple` builders as the state
machines of `library/core/src/fmt/builders.rs` (both modes, `PadAdapter` indentation) and proves that they print the
closed forms of std's derive (`Fmt.render_struct`, `Fmt.render_tuple`); composed with `C10_transcript`, what `{:?}` and
`{:#?}` print for a value of a derived type is `Fmt.specDebugText`: the name, the fields not skipped for `Debug` in the
style of the shape, and `..` iff the shape is braced and a field is skipped. The model of the builders is tied to the
real `core` by B (the driver prints the rendered text; the leaf values' own text is substituted by the harness).
-/

namespace DW

variable {α : Type}

/-- The generated `fn fmt` body. -/
def debugMethodBody (it : Item) : Expr :=
  .match_ vSelf (it.indexed.flatMap fun (k, d) => debugBody k d)

theorem debugBody_miss (k k' : Nat) (d : Data) (fs : List (Val α)) (h : k' ≠ k) :
    ∀ p e c, Arm.mk p e c ∈ debugBody k' d → matchPat p (Val.adt k fs) = none := by
  intro p e c hm
  cases hs : d.shape <;> simp [debugBody, hs] at hm
  all_goals
    obtain ⟨rfl, _, _⟩ := hm
    exact matchPat_ctor_ne k k' _ _ fs h

/-- `Data::any_skip_trait` is "some field is skipped". -/
theorem anySkipTrait_eq (d : Data) (t : Trait) : d.anySkipTrait t = d.someSkipped t := by
  simp [Data.anySkipTrait, Data.someSkipped, Field.skipped, Skip.traitSkipped_eq_covers]

/-- The name literals are un-rawed identifiers. -/
theorem C10_names (it : Item) (k i : Nat) (d : Data) (f : Field) (hd : it.variants[k]? = some d)
    (hf : d.fields[i]? = some f) :
    it.strText (.dataName k) = d.ident.name ∧
    it.strText (.fieldName k i) = (match f.member with
      | .named id => id.name
      | .unnamed n => toString n) := by
  have h1 : it.variants.getD k default = d := by simp [List.getD, hd]
  have h2 : d.fields.getD i default = f := by simp [List.getD, hf]
  constructor
  · simp only [Item.strText, h1]
  · simp only [Item.strText, h1, h2]
    cases f.member <;> rfl

theorem C10_transcript (it : Item) (cx : SemCtx α) (hwf : it.WF)
    (hnu : ∀ d ∈ it.variants, d.shape ≠ .union) (a : Val α) (ha : WfVal it a) :
    runMethod cx (debugMethodBody it) a none = .ok (.unit, specDebugLog it a) := by
  cases a with
  | adt k fs =>
    obtain ⟨d, hd, hl, hleaf⟩ := ha
    have hdmem := List.mem_of_getElem? hd
    rw [runMethod_one]
    simp only [debugMethodBody, eval, vSelf, env1_self, Out.bind_ok]
    have := evalArms_indexed cx (env1 (.adt k fs)) [] (.adt k fs) (fun k d => debugBody k d) k
      (fun k' d' h => debugBody_miss k k' d' fs h) it []
    simp only [List.append_nil, hd] at this
    refine (congrArg Out.finish this).trans ?_
    have hf : (ctorBinds .self_ false k fs ++ env1 (.adt k fs)).lookup .f = some .opaque := by
      rw [selfArm_pass k false fs _ .f (by simp)]; rfl
    simp only [specDebugLog, hd]
    cases hs : d.shape with
    | union => exact absurd hs (hnu d hdmem)
    | unit =>
      simp [debugBody, hs, evalArms, matchPat_ctor_same, eval, evalList, hf, applyFn, Out.finish]
    | named =>
      -- inside the block the builder is bound in front of the arm's environment
      have hb : ∀ env : Env α, ((Var.builder, Val.opaque) :: env).lookup .builder = some .opaque := by
        intro env; simp [List.lookup]
      have hfield : ∀ i (hi : i < fs.length),
          ((Var.builder, (Val.opaque : Val α)) :: (ctorBinds .self_ false k fs ++ env1 (.adt k fs))).lookup
            (.selfField k i) = some fs[i] := by
        intro i hi
        have : (Var.selfField k i == Var.builder) = false := rfl
        simp only [List.lookup, this]
        simpa using selfArm_field k i false fs (env1 (.adt k fs)) hi
      have hloop := fun log => evalStmts_fieldLoop cx
        ((Var.builder, Val.opaque) :: (ctorBinds .self_ false k fs ++ env1 (.adt k fs))) fs
        (fun i => .call .dsField [.refMut (.var .builder), .litStr (.fieldName k i), .var (.selfField k i)])
        (fun i a => .fmtField (some (.fieldName k i)) a)
        (fun i a log hget => by
          have hi : i < fs.length := by
            rcases Nat.lt_or_ge i fs.length with h | h
            · exact h
            · rw [List.getElem?_eq_none h] at hget; cases hget
          have hv : fs[i] = .leaf a := by
            rw [List.getElem?_eq_getElem hi] at hget; exact Option.some.inj hget
          refine ⟨.opaque, ?_⟩
          simp [eval, evalList, hb, hfield i hi, hv, applyFn])
        hleaf (d.relevantIdx .debug)
        (fun i hi => by have := relevantIdx_lt' d .debug i hi; omega) log []
      simp only [List.append_nil, evalStmts] at hloop
      have hmap := map_iterFields d .debug (fun i => Stmt.semi
        (.call .dsField [.refMut (.var .builder), .litStr (.fieldName k i), .var (.selfField k i)]))
      simp only [debugBody, hs, evalArms, matchPat_ctor_same, eval, hmap, List.cons_append, List.nil_append,
        evalStmts, evalList, hf, applyFn, Out.bind_ok, matchPat, hloop, anySkipTrait_eq]
      cases d.someSkipped .debug <;>
        simp [eval, evalList, hb, hf, hloop, applyFn, Out.finish, List.append_assoc]
    | tuple =>
      have hb : ∀ env : Env α, ((Var.builder, Val.opaque) :: env).lookup .builder = some .opaque := by
        intro env; simp [List.lookup]
      have hfield : ∀ i (hi : i < fs.length),
          ((Var.builder, (Val.opaque : Val α)) :: (ctorBinds .self_ false k fs ++ env1 (.adt k fs))).lookup
            (.selfField k i) = some fs[i] := by
        intro i hi
        have : (Var.selfField k i == Var.builder) = false := rfl
        simp only [List.lookup, this]
        simpa using selfArm_field k i false fs (env1 (.adt k fs)) hi
      have hloop := fun log => evalStmts_fieldLoop cx
        ((Var.builder, Val.opaque) :: (ctorBinds .self_ false k fs ++ env1 (.adt k fs))) fs
        (fun i => .call .dtField [.refMut (.var .builder), .var (.selfField k i)])
        (fun _ a => .fmtField none a)
        (fun i a log hget => by
          have hi : i < fs.length := by
            rcases Nat.lt_or_ge i fs.length with h | h
            · exact h
            · rw [List.getElem?_eq_none h] at hget; cases hget
          have hv : fs[i] = .leaf a := by
            rw [List.getElem?_eq_getElem hi] at hget; exact Option.some.inj hget
          refine ⟨.opaque, ?_⟩
          simp [eval, evalList, hb, hfield i hi, hv, applyFn])
        hleaf (d.relevantIdx .debug)
        (fun i hi => by have := relevantIdx_lt' d .debug i hi; omega) log []
      simp only [List.append_nil, evalStmts] at hloop
      have hmap := map_iterFields d .debug (fun i => Stmt.semi
        (.call .dtField [.refMut (.var .builder), .var (.selfField k i)]))
      simp only [debugBody, hs, evalArms, matchPat_ctor_same, eval, hmap, List.cons_append, List.nil_append,
        evalStmts, evalList, hf, applyFn, Out.bind_ok, matchPat, hloop]
      simp [eval, evalList, hb, hf, hloop, applyFn, Out.finish, List.append_assoc]
  | _ => exact ha.elim

/-- **The printed text.** Formatting a value with `{:?}` (`pretty = false`) or `{:#?}` (`pretty = true`) performs
formatter calls that `core::fmt`'s builders render to `Fmt.specDebugText`: what std's derive prints for the same data
with the fields skipped for `Debug` removed, plus `..` for braced shapes that omit a field. `leaf`: the fields' own
`Debug` text; `hn`: identifiers are not empty. -/
theorem C10_text (it : Item) (cx : SemCtx α) (hwf : it.WF) (hnu : ∀ d ∈ it.variants, d.shape ≠ .union)
    (a : Val α) (ha : WfVal it a) (pretty : Bool) (leaf : α → String)
    (hn : ∀ k, (it.strText (.dataName k)).isEmpty = false) :
    ∃ log, runMethod cx (debugMethodBody it) a none = .ok (.unit, log) ∧
      Fmt.renderLog pretty it.strText leaf log = Fmt.specDebugText pretty it leaf a ∧
      (Fmt.specDebugText pretty it leaf a).isSome = true := by
  refine ⟨specDebugLog it a, C10_transcript it cx hwf hnu a ha, ?_⟩
  cases a with
  | adt k fs =>
    obtain ⟨d, hd, _, _⟩ := ha
    have hu := hnu d (List.mem_of_getElem? hd)
    refine ⟨Fmt.renderLog_spec pretty it leaf k fs d hd hu (hn k), ?_⟩
    simp only [Fmt.specDebugText, hd]
    cases hs : d.shape <;> simp_all
  | _ => exact ha.elim

/-- A worked instance of the builders' model: two named fields, one of them printing two lines, pretty and compact,
with and without `..`. -/
example :
    Fmt.structText false "A" [("a", "1"), ("b", "2")] false = "A { a: 1, b: 2 }" ∧
    Fmt.structText false "A" [("a", "1")] true = "A { a: 1, .. }" ∧
    Fmt.structText false "A" [] true = "A { .. }" ∧
    Fmt.structText true "A" [("a", "B {\n    x: 1,\n}")] true = "A {\n    a: B {\n        x: 1,\n    },\n    ..\n}" ∧
    Fmt.tupleText false "A" ["1", "2"] = "A(1, 2)" ∧
    Fmt.tupleText true "A" ["1"] = "A(\n    1,\n)" := by
  refine ⟨?_, ?_, ?_, ?_, ?_, ?_⟩ <;> decide

end DW
