import DW.Syntactic2
import DW.Stage1
import DW.Render
import DW.Props.C03
import DW.Props.C04
import DW.Lemmas.Vocab

/-!
# C14 — expansion is independent of the caller's scope and naming

What is proved about the model (rustc's name resolution itself is outside it):

* `C14_core_paths_rooted`, `C14_fn_paths_rooted`, `C14_trait_path`: every library
  item the expansion mentions is printed as a `::`-rooted path (`::core::..`,
  `::zeroize::..`), except where the user supplied the root with `crate = ..`;
  `C14_crate_option`: that option is the only thing that changes the root.
* `C14_no_method_calls`: the impls of the nine std traits contain no
  method-call syntax at all — every call on a field value is fully qualified
  (`Trait::method(field)`), so inherent methods and traits in scope cannot
  hijack it.  (`.zeroize()` / `.zeroize_or_on_drop()` in the Zeroize impls are
  method calls by design; `Zeroize(fqs)` switches to the qualified form, C18.)
* `C14_binders_fresh`: the identifiers the expansion binds (`__field_x`,
  `__other_field_x`, `__other`, `__cmp`, ...) are pairwise distinct, whatever
  the user's field names are (given distinct field names), so a user name equal
  to a temporary's is never captured.
* `C14_vocabulary` (round 7, `Lemmas/Vocab.lean`): the **closed vocabulary** of an expansion — every token of every
  rendered impl is punctuation, a keyword, a name the impl declares, a token of the item or of the `crate = ..`
  option, a `__`-prefixed temporary, a number, a string literal, a path segment behind `::`, or one of the seventeen
  words of `scopeToks`, the only words left to the caller's scope: `bool` and the twelve integer type names
  (KF-bool, KF-isize), `from` (KF-from) and the method names `zeroize`, `zeroize_or_on_drop`, `cast`.  No `Option`,
  `Some`, `Ordering`, `Clone`, `matches`, … can occur bare (`C14_vocabulary_rejects`).  Stating it is what exposed
  KF-bool: `-> bool` is resolved where the macro is invoked, and a local `struct bool;` breaks `PartialEq`.
Known limits (see known_findings.json): bare `bool`/`isize`/`u8`.. tokens,
`<*const _>::from`, a type parameter named `__H`.
-/

namespace DW

theorem Arm.anyMethodCall_append (l1 l2 : List Arm) :
    Arm.anyMethodCall (l1 ++ l2) = (Arm.anyMethodCall l1 || Arm.anyMethodCall l2) := by
  induction l1 with
  | nil => simp [Arm.anyMethodCall]
  | cons a l ih => cases a; simp [Arm.anyMethodCall, ih, Bool.or_assoc]

theorem Stmt.anyMethodCall_append (l1 l2 : List Stmt) :
    Stmt.anyMethodCall (l1 ++ l2) = (Stmt.anyMethodCall l1 || Stmt.anyMethodCall l2) := by
  induction l1 with
  | nil => simp [Stmt.anyMethodCall]
  | cons a l ih => simp [Stmt.anyMethodCall, ih, Bool.or_assoc]

theorem Arm.anyMethodCall_flatMap {β} (l : List β) (f : β → List Arm) (h : ∀ x ∈ l, Arm.anyMethodCall (f x) = false) :
    Arm.anyMethodCall (l.flatMap f) = false := by
  induction l with
  | nil => simp [Arm.anyMethodCall]
  | cons a l ih =>
    simp only [List.flatMap_cons, Arm.anyMethodCall_append, h a (by simp), Bool.false_or]
    exact ih (fun x hx => h x (by simp [hx]))

theorem Stmt.anyMethodCall_flatMap {β} (l : List β) (f : β → List Stmt)
    (h : ∀ x ∈ l, Stmt.anyMethodCall (f x) = false) : Stmt.anyMethodCall (l.flatMap f) = false := by
  induction l with
  | nil => simp [Stmt.anyMethodCall]
  | cons a l ih =>
    simp only [List.flatMap_cons, Stmt.anyMethodCall_append, h a (by simp), Bool.false_or]
    exact ih (fun x hx => h x (by simp [hx]))

theorem Stmt.anyMethodCall_map {β} (l : List β) (f : β → Stmt) (h : ∀ x, (f x).hasMethodCall = false) :
    Stmt.anyMethodCall (l.map f) = false := by
  induction l with
  | nil => simp [Stmt.anyMethodCall]
  | cons a l ih => simp [Stmt.anyMethodCall, h a, ih]

theorem Expr.anyMethodCall_map {β} (l : List β) (f : β → Expr) (h : ∀ x, (f x).hasMethodCall = false) :
    Expr.anyMethodCall (l.map f) = false := by
  induction l with
  | nil => simp [Expr.anyMethodCall]
  | cons a l ih => simp [Expr.anyMethodCall, h a, ih]

theorem FieldInit.anyMethodCall_map {β} (l : List β) (i : β → Nat) (f : β → Expr)
    (h : ∀ x, (f x).hasMethodCall = false) :
    FieldInit.anyMethodCall (l.map fun x => FieldInit.mk (i x) (f x)) = false := by
  induction l with
  | nil => simp [FieldInit.anyMethodCall]
  | cons a l ih => simp [FieldInit.anyMethodCall, h a, ih]

theorem Arm.anyMethodCall_map {β} (l : List β) (f : β → Arm)
    (h : ∀ x, Arm.anyMethodCall [f x] = false) : Arm.anyMethodCall (l.map f) = false := by
  induction l with
  | nil => simp [Arm.anyMethodCall]
  | cons a l ih =>
    have := h a
    cases hfa : f a with
    | mk p e c =>
      rw [hfa] at this
      simp only [Arm.anyMethodCall, Bool.or_false] at this
      simp [Arm.anyMethodCall, hfa, this, ih]

theorem eqChain_noMC (k : Nat) (fs : List (Nat × Field)) : (eqChain k fs).hasMethodCall = false := by
  unfold eqChain
  suffices h : ∀ acc : Expr, acc.hasMethodCall = false →
      (fs.foldl (fun acc (p : Nat × Field) =>
        Expr.binop .and acc (.call (.traitFn .eq) [.var (.selfField k p.1), .var (.otherField k p.1)]))
        acc).hasMethodCall = false by
    exact h _ (by simp [Expr.hasMethodCall])
  induction fs with
  | nil => intro acc h; simpa using h
  | cons p fs ih =>
    intro acc h
    simp only [List.foldl_cons]
    exact ih _ (by simp [Expr.hasMethodCall, Expr.anyMethodCall, h])

theorem equalExpr_noMC (t : Trait) : (equalExpr t).hasMethodCall = false := by
  unfold equalExpr; split <;> simp [Expr.hasMethodCall, Expr.anyMethodCall]

theorem ordBody_noMC (t : Trait) (k : Nat) (d : Data) : (ordBody t k d).hasMethodCall = false := by
  unfold ordBody
  induction d.iterFields t with
  | nil => simpa using equalExpr_noMC t
  | cons p fs ih =>
    simp only [List.foldr_cons]
    simp [Expr.hasMethodCall, Expr.anyMethodCall, Arm.anyMethodCall, ih]

theorem unreachableRest_noMC (c : Cfg) : (unreachableRest c).hasMethodCall = false := by
  unfold unreachableRest; split <;> simp [Expr.hasMethodCall, Expr.anyMethodCall]

theorem partialEqBody_noMC (k : Nat) (d : Data) : Arm.anyMethodCall (partialEqBody k d) = false := by
  unfold partialEqBody
  split
  · rfl
  · split <;> simp [Arm.anyMethodCall, eqChain_noMC]

theorem ordArmsFor_noMC (t : Trait) (dw : DeriveWhere) (k : Nat) (d : Data) :
    Arm.anyMethodCall (ordArmsFor t dw k d) = false := by
  unfold ordArmsFor partialOrdBody ordArms
  split
  · split
    · rfl
    · split <;> simp [Arm.anyMethodCall, ordBody_noMC]
  · split
    · rfl
    · split <;> simp [Arm.anyMethodCall, ordBody_noMC]

theorem eqIncArms_noMC (vs : List Data) : Arm.anyMethodCall (eqIncArms vs) = false := by
  unfold eqIncArms; split <;> simp [Arm.anyMethodCall, Expr.hasMethodCall]

theorem eqIncStmts_noMC (vs : List Data) : Stmt.anyMethodCall (eqIncStmts vs) = false := by
  unfold eqIncStmts; split <;> simp [Stmt.anyMethodCall, Stmt.hasMethodCall, Expr.hasMethodCall, vSelf]

theorem ordIncStmts_noMC (vs : List Data) : Stmt.anyMethodCall (ordIncStmts vs) = false := by
  unfold ordIncStmts
  split <;> simp [Stmt.anyMethodCall, Stmt.hasMethodCall, Expr.hasMethodCall, matchesEither, vSelf, vOther]

theorem toExpr_noMC (b : Blk) (h1 : Stmt.anyMethodCall b.stmts = false) (h2 : b.tail.hasMethodCall = false) :
    b.toExpr.hasMethodCall = false := by
  unfold Blk.toExpr; split <;> simp_all [Expr.hasMethodCall]

theorem C14_eq (c : Cfg) (it : Item) : (eqMethodBody c it).hasMethodCall = false := by
  have harms : Arm.anyMethodCall (it.indexed.flatMap fun (k, d) => partialEqBody k d) = false :=
    Arm.anyMethodCall_flatMap _ _ (fun x _ => partialEqBody_noMC x.1 x.2)
  unfold eqMethodBody partialEqSignature
  split
  · rfl
  · cases it with
    | item d => simp only; split <;> simp [Expr.hasMethodCall, tupleSO, vSelf, vOther, Expr.anyMethodCall, harms]
    | enum_ disc id inc vs =>
      simp only
      split
      · split
        · have hrest : (if (vs.any fun v => v.isEmpty .partialEq && !v.incomparable) = true
              then Expr.litBool true else unreachableRest c).hasMethodCall = false := by
            split
            · rfl
            · exact unreachableRest_noMC c
          simp only [Expr.hasMethodCall, discEq, tupleSO, vSelf, vOther, Expr.anyMethodCall, Arm.anyMethodCall_append,
            harms, eqIncArms_noMC, Arm.anyMethodCall, hrest, Bool.or_false, Bool.false_or]
        · have := toExpr_noMC ⟨eqIncStmts vs, .litBool true⟩ (eqIncStmts_noMC vs) rfl
          simp [Expr.hasMethodCall, discEq, vSelf, vOther, Expr.anyMethodCall, this]
      · split <;> simp [Expr.hasMethodCall, tupleSO, vSelf, vOther, Expr.anyMethodCall, harms]

theorem discArms_noMC (validate : Bool) (ds : List Expr) (h : Expr.anyMethodCall ds = false) :
    Arm.anyMethodCall (discArms validate ds) = false := by
  unfold discArms
  generalize ds.length = n
  suffices hgo : ∀ (l : List Expr) (n0 : Nat), Expr.anyMethodCall l = false →
      Arm.anyMethodCall ((l.zipIdx n0).map fun (d, k) =>
        Arm.mk (.ctor k .self_ false) (if validate then .validateConst k d else d) (k + 1 != n)) = false by
    exact hgo ds 0 h
  intro l
  induction l with
  | nil => intros; rfl
  | cons e l ih =>
    intro n0 hl
    simp only [Expr.anyMethodCall, Bool.or_eq_false_iff] at hl
    simp only [List.zipIdx_cons, List.map_cons, Arm.anyMethodCall, ih (n0 + 1) hl.2, Bool.or_false]
    cases validate <;> simp [Expr.hasMethodCall, hl.1]

theorem buildDiscriminantsGo_noMC (vs : List Data) (k : Nat) (st : DiscState) (acc : List Expr)
    (h : Expr.anyMethodCall acc = false) (hg : ∀ i, (acc.getD i .unit).hasMethodCall = false) :
    Expr.anyMethodCall (buildDiscriminantsGo vs k st acc) = false := by
  have happ : ∀ (l : List Expr) (e : Expr), Expr.anyMethodCall l = false → e.hasMethodCall = false →
      Expr.anyMethodCall (l ++ [e]) = false := by
    intro l e
    induction l with
    | nil => intro _ he; simp [Expr.anyMethodCall, he]
    | cons x l ih =>
      intro hl he
      simp only [Expr.anyMethodCall, Bool.or_eq_false_iff] at hl
      simp [Expr.anyMethodCall, hl.1, ih hl.2 he]
  have hgetD : ∀ (l : List Expr) (e : Expr), (∀ i, (l.getD i .unit).hasMethodCall = false) →
      e.hasMethodCall = false → ∀ i, ((l ++ [e]).getD i .unit).hasMethodCall = false := by
    intro l e hl he i
    by_cases hi : i < l.length
    · have := hl i
      simpa [List.getD, List.getElem?_append_left hi] using this
    · by_cases hi2 : i = l.length
      · subst hi2; simp [List.getD, he]
      · have : l.length + 1 ≤ i := by omega
        simp [List.getD, List.getElem?_eq_none (l := l ++ [e]) (by simp; omega), Expr.hasMethodCall]
  induction vs generalizing k st acc with
  | nil => simpa [buildDiscriminantsGo] using h
  | cons v vs ih =>
    unfold buildDiscriminantsGo
    split
    · exact ih _ _ _ (happ _ _ h rfl) (hgetD _ _ hg rfl)
    · split
      · rename_i idx counter
        have he : (Expr.binop .add (.paren (acc.getD idx .unit)) (.litInt (counter + 1))).hasMethodCall = false := by
          have := hg idx
          simp only [Expr.hasMethodCall, this, Bool.or_false]
        exact ih _ _ _ (happ _ _ h he) (hgetD _ _ hg he)
      · exact ih _ _ _ (happ _ _ h rfl) (hgetD _ _ hg rfl)
      · exact ih _ _ _ (happ _ _ h rfl) (hgetD _ _ hg rfl)

theorem buildDiscriminants_noMC (vs : List Data) : Expr.anyMethodCall (buildDiscriminants vs) = false :=
  buildDiscriminantsGo_noMC vs 0 none [] rfl (fun i => by simp [List.getD, Expr.hasMethodCall])

theorem discriminantComparison_noMC (repr : Option IntTy) (validate : Option (List Stmt))
    (vs : List Data) (m : TraitFn) (hv : Stmt.anyMethodCall (validate.getD []) = false) :
    Stmt.anyMethodCall (discriminantComparison repr validate (buildDiscriminants vs) m).stmts = false ∧
    (discriminantComparison repr validate (buildDiscriminants vs) m).tail.hasMethodCall = false := by
  have := discArms_noMC validate.isSome _ (buildDiscriminants_noMC vs)
  simp [discriminantComparison, Stmt.anyMethodCall, Stmt.hasMethodCall, Expr.hasMethodCall, Expr.anyMethodCall, discCall, this, hv]

theorem validateDefs_noMC (vs : List Data) :
    Stmt.anyMethodCall ((buildDiscriminants vs).zipIdx.map fun (d, k) => Stmt.validateDef k d) = false := by
  have h := buildDiscriminants_noMC vs
  generalize buildDiscriminants vs = l at h
  suffices hgo : ∀ (l : List Expr) (n0 : Nat), Expr.anyMethodCall l = false →
      Stmt.anyMethodCall ((l.zipIdx n0).map fun (d, k) => Stmt.validateDef k d) = false by
    exact hgo l 0 h
  intro l
  induction l with
  | nil => intros; rfl
  | cons e l ih =>
    intro n0 hl
    simp only [Expr.anyMethodCall, Bool.or_eq_false_iff] at hl
    simp [Stmt.anyMethodCall, Stmt.hasMethodCall, hl.1, ih (n0 + 1) hl.2]

theorem castCmp_noMC (m : TraitFn) (conv : Expr → Expr) (h1 : (conv vSelf).hasMethodCall = false)
    (h2 : (conv vOther).hasMethodCall = false) : (castCmp m conv).hasMethodCall = false := by
  simp [castCmp, Expr.hasMethodCall, Expr.anyMethodCall, h1, h2]

theorem ordBodyElse_noMC (c : Cfg) (dw : DeriveWhere) (disc : Discriminant)
    (vs : List Data) (m : TraitFn) :
    Stmt.anyMethodCall (ordBodyElse c dw disc vs m).stmts = false ∧
      (ordBodyElse c dw disc vs m).tail.hasMethodCall = false := by
  have hcast1 := castCmp_noMC m (fun e => .cast (.deref e) .isize) rfl rfl
  have hclone1 := castCmp_noMC m (fun e => .cast (.selfCall .clone [e]) .isize) rfl rfl
  have hvalidate : Stmt.anyMethodCall ((if vs.any (·.discriminant.isSome) = true then
      some ((buildDiscriminants vs).zipIdx.map fun (d, k) => Stmt.validateDef k d) else none).getD []) = false := by
    split
    · exact validateDefs_noMC vs
    · rfl
  cases disc with
  | single => simp [ordBodyElse, Stmt.anyMethodCall, Expr.hasMethodCall]
  | unit =>
    simp only [ordBodyElse]
    split
    · exact ⟨hvalidate, hcast1⟩
    · split
      · exact ⟨hvalidate, hclone1⟩
      · exact discriminantComparison_noMC none _ vs m hvalidate
  | data => exact discriminantComparison_noMC none none vs m rfl
  | unitRepr r =>
    simp only [ordBodyElse]
    split
    · exact ⟨rfl, castCmp_noMC m (fun e => .cast (.deref e) r) rfl rfl⟩
    · split
      · exact ⟨rfl, castCmp_noMC m (fun e => .cast (.selfCall .clone [e]) r) rfl rfl⟩
      · have := discriminantComparison_noMC (some r) none vs m rfl
        split
        · exact this
        · simp [ptrCmp, Stmt.anyMethodCall, Expr.hasMethodCall, Expr.anyMethodCall, vSelf, vOther]
  | dataRepr r =>
    have := discriminantComparison_noMC (some r) none vs m rfl
    simp only [ordBodyElse]
    split
    · exact this
    · simp [ptrCmp, Stmt.anyMethodCall, Expr.hasMethodCall, Expr.anyMethodCall, vSelf, vOther]

theorem ordBodyEqual_noMC (c : Cfg) (it : Item) (vs : List Data) (t : Trait)
    (arms : List Arm) (harms : Arm.anyMethodCall arms = false) :
    ∀ be, ordBodyEqual c it vs t arms = some be → be.hasMethodCall = false := by
  intro be hbe
  unfold ordBodyEqual at hbe
  split at hbe
  · cases hbe
  · split at hbe <;> cases hbe <;>
      simp [Expr.hasMethodCall, tupleSO, vSelf, vOther, Expr.anyMethodCall, Arm.anyMethodCall_append, harms, Arm.anyMethodCall,
        equalExpr_noMC, unreachableRest_noMC c]

theorem C14_ordSignature (c : Cfg) (it : Item) (dw : DeriveWhere) (t : Trait)
    (arms : List Arm) (harms : Arm.anyMethodCall arms = false) :
    (ordSignature c it dw t arms).hasMethodCall = false := by
  have hsingle : (if it.isEmpty t = true then equalExpr t else Expr.match_ tupleSO arms).hasMethodCall = false := by
    split
    · exact equalExpr_noMC t
    · simp [Expr.hasMethodCall, tupleSO, vSelf, vOther, Expr.anyMethodCall, harms]
  unfold ordSignature
  split
  · rfl
  · cases it with
    | item d => exact hsingle
    | enum_ disc id inc vs =>
      simp only
      split
      · have hbe := ordBodyEqual_noMC c (.enum_ disc id inc vs) vs t arms harms
        unfold ordMulti
        simp only
        split
        · -- single comparable variant
          simp only [ordSingleComparable, Expr.hasMethodCall, matchesEither, vSelf, vOther, Bool.or_false,
            Bool.false_or]
          split
          · exact equalExpr_noMC t
          · cases hb : ordBodyEqual c (.enum_ disc id inc vs) vs t arms with
            | none => simpa using equalExpr_noMC t
            | some be => simpa using hbe be hb
        · split
          · -- nightly
            unfold ordNightly
            cases hb : ordBodyEqual c (.enum_ disc id inc vs) vs t arms with
            | none =>
              simp only
              apply toExpr_noMC
              · exact ordIncStmts_noMC vs
              · simp [Expr.hasMethodCall, Expr.anyMethodCall, vSelf, vOther]
            | some be =>
              simp [Expr.hasMethodCall, Stmt.anyMethodCall_append, ordIncStmts_noMC, letDiscs, Stmt.anyMethodCall,
                Stmt.hasMethodCall, Expr.anyMethodCall, vSelf, vOther, discsEqual, hbe be hb]
          · have helse := ordBodyElse_noMC c dw disc vs (ordFn t)
            unfold ordStable
            cases hb : ordBodyEqual c (.enum_ disc id inc vs) vs t arms with
            | none =>
              simp only
              apply toExpr_noMC
              · simp [Stmt.anyMethodCall_append, ordIncStmts_noMC, helse.1]
              · exact helse.2
            | some be =>
              have := toExpr_noMC _ helse.1 helse.2
              simp [Expr.hasMethodCall, Stmt.anyMethodCall_append, ordIncStmts_noMC, letDiscs, Stmt.anyMethodCall,
                Stmt.hasMethodCall, Expr.anyMethodCall, vSelf, vOther, discsEqual, hbe be hb, this]
      · exact hsingle

theorem partialOrdBody_noMC (dw : DeriveWhere) (k : Nat) (d : Data) :
    Arm.anyMethodCall (partialOrdBody dw k d) = false := by
  have := ordArmsFor_noMC .partialOrd dw k d
  simpa [ordArmsFor] using this

theorem ordArms_noMC (k : Nat) (d : Data) : Arm.anyMethodCall (ordArms k d) = false := by
  have := ordArmsFor_noMC .ord ⟨[], []⟩ k d
  simpa [ordArmsFor] using this

theorem semiMap_noMC {β} (l : List β) (f : β → Expr) (h : ∀ x, (f x).hasMethodCall = false) :
    Stmt.anyMethodCall (l.map fun x => Stmt.semi (f x)) = false :=
  Stmt.anyMethodCall_map _ _ (fun x => by simp [Stmt.hasMethodCall, h x])

theorem cloneBody_noMC (dw : DeriveWhere) (k : Nat) (d : Data) :
    Arm.anyMethodCall (cloneBody dw k d) = false := by
  unfold cloneBody
  cases h : (dw.shortcut && dw.contains .copy)
  · simp only [Bool.false_eq_true, if_false]
    cases hs : d.shape <;> simp only [Arm.anyMethodCall, Expr.hasMethodCall, Bool.or_false]
    · exact FieldInit.anyMethodCall_map (d.iterFields .clone) (fun (p : Nat × Field) => p.1)
        (fun p => .call (.traitFn .clone) [.var (.selfField k p.1)])
        (fun p => by simp [Expr.hasMethodCall, Expr.anyMethodCall])
    · exact Expr.anyMethodCall_map (d.iterFields .clone)
        (fun (p : Nat × Field) => Expr.call (.traitFn .clone) [.var (.selfField k p.1)])
        (fun p => by simp [Expr.hasMethodCall, Expr.anyMethodCall])
  · simp [Arm.anyMethodCall]

theorem debugBody_noMC (k : Nat) (d : Data) : Arm.anyMethodCall (debugBody k d) = false := by
  unfold debugBody
  cases hs : d.shape <;> simp only [Arm.anyMethodCall, Expr.hasMethodCall, Bool.or_false, List.singleton_append,
    Stmt.anyMethodCall, Stmt.hasMethodCall, Expr.anyMethodCall, Bool.false_or]
  · rw [semiMap_noMC (d.iterFields .debug) (fun (p : Nat × Field) => Expr.call .dsField
      [.refMut (.var .builder), .litStr (.fieldName k p.1), .var (.selfField k p.1)])
      (fun p => by simp [Expr.hasMethodCall, Expr.anyMethodCall])]
    try (split <;> rfl)
  · rw [semiMap_noMC (d.iterFields .debug) (fun (p : Nat × Field) => Expr.call .dtField
      [.refMut (.var .builder), .var (.selfField k p.1)])
      (fun p => by simp [Expr.hasMethodCall, Expr.anyMethodCall])]

theorem hashBody_noMC (k : Nat) (d : Data) : Arm.anyMethodCall (hashBody k d) = false := by
  unfold hashBody
  have hdisc : Stmt.anyMethodCall (if d.isVariant = true then
      [Stmt.semi (.call (.traitFn .hash) [.ref (.call .memDiscriminant [vSelf]), .var .state])] else []) = false := by
    split <;> simp [Stmt.anyMethodCall, Stmt.hasMethodCall, Expr.hasMethodCall, Expr.anyMethodCall, vSelf]
  have hloop := semiMap_noMC (d.iterFields .hash)
    (fun (p : Nat × Field) => Expr.call (.traitFn .hash) [.var (.selfField k p.1), .var .state])
    (fun p => by simp [Expr.hasMethodCall, Expr.anyMethodCall])
  cases hs : d.shape <;>
    simp only [Arm.anyMethodCall, Expr.hasMethodCall, Bool.or_false, Stmt.anyMethodCall_append, hdisc, Bool.false_or, hloop]

theorem defaultBody_noMC (k : Nat) (d : Data) : Expr.anyMethodCall (defaultBody k d) = false := by
  unfold defaultBody
  cases h : d.isDefault
  · simp [Expr.anyMethodCall]
  · simp only [if_true]
    cases hs : d.shape <;> simp only [Expr.anyMethodCall, Expr.hasMethodCall, Bool.or_false]
    · exact FieldInit.anyMethodCall_map (d.iterFields .default) (fun (p : Nat × Field) => p.1)
        (fun p => .defaultCall k p.1) (fun p => rfl)
    · exact Expr.anyMethodCall_map (d.iterFields .default) (fun (p : Nat × Field) => Expr.defaultCall k p.1)
        (fun p => rfl)

theorem Expr.anyMethodCall_append (l1 l2 : List Expr) :
    Expr.anyMethodCall (l1 ++ l2) = (Expr.anyMethodCall l1 || Expr.anyMethodCall l2) := by
  induction l1 with
  | nil => simp [Expr.anyMethodCall]
  | cons a l ih => simp [Expr.anyMethodCall, ih, Bool.or_assoc]

theorem Expr.anyMethodCall_flatMap {β} (l : List β) (f : β → List Expr)
    (h : ∀ x ∈ l, Expr.anyMethodCall (f x) = false) : Expr.anyMethodCall (l.flatMap f) = false := by
  induction l with
  | nil => simp [Expr.anyMethodCall]
  | cons a l ih =>
    simp only [List.flatMap_cons, Expr.anyMethodCall_append, h a (by simp), Bool.false_or]
    exact ih (fun x hx => h x (by simp [hx]))


/-- No method-call syntax in any impl of the nine std traits, in any configuration. -/
theorem C14_no_method_calls (c : Cfg) (it : Item) (dw : DeriveWhere) (t : Trait)
    (ht : t ≠ .zeroize ∧ t ≠ .zeroizeOnDrop) :
    ∀ m ∈ (generateBody c it dw t).toList, m.body.hasMethodCall = false := by
  intro m hm
  cases t <;> simp only [generateBody, Option.toList, List.mem_singleton, List.not_mem_nil] at hm
  case clone =>
    subst hm
    simp only [cloneSignature]
    split
    · rfl
    · split
      · rfl
      · simp only [Expr.hasMethodCall, vSelf, Bool.false_or]
        exact Arm.anyMethodCall_flatMap _ _ (fun x _ => cloneBody_noMC dw x.1 x.2)
  case debug =>
    subst hm
    simp only [Expr.hasMethodCall, vSelf, Bool.false_or]
    exact Arm.anyMethodCall_flatMap _ _ (fun x _ => debugBody_noMC x.1 x.2)
  case default =>
    subst hm
    simp only [Expr.hasMethodCall]
    exact Expr.anyMethodCall_flatMap _ _ (fun x _ => defaultBody_noMC x.1 x.2)
  case eq =>
    subst hm
    simp only [Expr.hasMethodCall, Stmt.anyMethodCall, Stmt.hasMethodCall, Bool.false_or, Bool.or_false]
    exact Stmt.anyMethodCall_flatMap _ _ (fun x _ => Stmt.anyMethodCall_map _ _ (fun (p : Nat × Field) => rfl))
  case hash =>
    subst hm
    simp only [Expr.hasMethodCall, vSelf, Bool.false_or]
    exact Arm.anyMethodCall_flatMap _ _ (fun x _ => hashBody_noMC x.1 x.2)
  case ord =>
    subst hm
    exact C14_ordSignature c it dw .ord _
      (Arm.anyMethodCall_flatMap _ _ (fun x _ => ordArms_noMC x.1 x.2))
  case partialEq =>
    subst hm
    exact C14_eq c it
  case partialOrd =>
    subst hm
    simp only [partialOrdSignature]
    split
    · simp [Expr.hasMethodCall, Expr.anyMethodCall, vSelf, vOther]
    · exact C14_ordSignature c it dw .partialOrd _
        (Arm.anyMethodCall_flatMap _ _ (fun x _ => partialOrdBody_noMC dw x.1 x.2))
  case zeroize => exact absurd rfl ht.1
  case zeroizeOnDrop => exact absurd rfl ht.2

/-! ## Paths -/

theorem C14_core_paths_rooted (segs : List String) : (corePath segs).take 2 = [":", ":"] := by
  simp [corePath, MPath.toks, colon2]

/-- Without a `crate = ..` option every trait path is `::`-rooted. -/
theorem C14_trait_path (t : DeriveTrait) (h : t.crate_ = none) : t.path.leading = true := by
  unfold DeriveTrait.path DeriveTrait.crateRoot MPath.push
  cases ht : t.trait <;> simp [ht, h, zeroizeRoot]

/-- The `crate = ..` option of `Zeroize`/`ZeroizeOnDrop` replaces exactly the root
of the zeroize paths; std traits ignore it. -/
theorem C14_crate_option (t : DeriveTrait) (p : MPath) (h : t.crate_ = some p) :
    t.crateRoot = (match t.trait with
      | .zeroize | .zeroizeOnDrop => p
      | _ => ⟨true, [⟨"core", false⟩], none⟩) := by
  unfold DeriveTrait.crateRoot
  cases ht : t.trait <;> simp [h]

/-- Every library function or constant the expansion calls is printed through a
`::`-rooted path (or the trait's path, rooted unless the user overrode it). -/
theorem C14_fn_paths_rooted (cx : Ctx) (f : Fn) (hf : ∀ k, f ≠ .ctor k) (hroot : cx.trait.path.leading = true) :
    (f.toks cx).take 2 = [":", ":"] := by
  have htr : (cx.trait.path.toks).take 2 = [":", ":"] := by simp [MPath.toks, hroot, colon2]
  have happ : ∀ (a b : Toks), a.take 2 = [":", ":"] → (a ++ b).take 2 = [":", ":"] := by
    intro a b h
    match a, h with
    | x :: y :: rest, h => simpa using h
  cases f with
  | ctor k => exact absurd rfl (hf k)
  | traitFn g => cases g <;> exact happ _ _ (happ _ _ htr)
  | _ => exact C14_core_paths_rooted _

/-! ## Binders -/

/-- Temporaries that are not derived from a field name. -/
def Var.simple : Var → Bool
  | .selfField _ _ | .otherField _ _ => false
  | _ => true

theorem C14_simple_distinct (cx : Ctx) (x y : Var) (hx : x.simple = true) (hy : y.simple = true)
    (h : x.tok cx = y.tok cx) : x = y := by
  cases x <;> cases y <;> simp [Var.simple] at hx hy <;> first | rfl | (exfalso; revert h; simp [Var.tok])

theorem C14_field_vs_simple (cx : Ctx) (k i : Nat) (y : Var) (hy : y.simple = true) :
    Var.tok cx (.selfField k i) ≠ y.tok cx ∧ Var.tok cx (.otherField k i) ≠ y.tok cx := by
  constructor <;> intro h <;> cases y <;> simp [Var.simple] at hy <;>
    (have := congrArg String.toList h; simp [Var.tok] at this)

theorem C14_self_vs_other (cx : Ctx) (k i k' i' : Nat) :
    Var.tok cx (.selfField k i) ≠ Var.tok cx (.otherField k' i') := by
  intro h
  have := congrArg String.toList h
  simp [Var.tok] at this

/-- Within one variant, distinct members get distinct temporaries. -/
theorem C14_binders_fresh (cx : Ctx) (k i j : Nat)
    (h : Var.tok cx (.selfField k i) = Var.tok cx (.selfField k j) ∨
         Var.tok cx (.otherField k i) = Var.tok cx (.otherField k j)) :
    (cx.field k i).member.display = (cx.field k j).member.display := by
  rcases h with h | h <;>
    (have := congrArg String.toList h; simp [Var.tok] at this; exact String.ext this)

/-! ### The closed vocabulary -/

/-- **Closed vocabulary.** Every token `t` of a rendered impl — the sequence correspondence A compares with the real
expansion token by token — is free (a fixed word of `fixedToks`, a token of the item, a `__` temporary, a number, a
string literal) or sits directly behind `::`. `Ctx.PathOK`: a `crate = ..` path has at least one segment (syn). -/
theorem C14_vocabulary (inp : Input) (im : Impl) (hp : Ctx.PathOK ⟨inp, im.trait⟩)
    (pre : Toks) (t : String) (post : Toks) (h : im.toks inp = pre ++ t :: post) :
    (t ∈ punctToks ++ keywordToks ++ declaredToks ++ scopeToks ∨ im.User inp t ∨ (∃ s, t = "__" ++ s) ∨
      (∃ n : Nat, t = toString n) ∨ ∃ s, t = "\"" ++ s ++ "\"") ∨
    ∃ pre', pre = pre' ++ [":", ":"] :=
  Impl.toks_vocab inp im hp pre t post h

/-- The words left to the caller's scope are exactly these seventeen; in particular no name of `core`'s prelude. -/
theorem C14_scope_words : scopeToks =
    ["bool", "u8", "u16", "u32", "u64", "u128", "usize", "i8", "i16", "i32", "i64", "i128", "isize",
     "from", "zeroize", "zeroize_or_on_drop", "cast"] := rfl

theorem not_nat_of_alpha {t : String} {c : Char} (hc : c ∈ t.toList) (hd : c.isDigit = false) :
    ¬ ∃ n : Nat, t = toString n := by
  rintro ⟨n, rfl⟩
  rw [Nat.toString_eq_repr, Nat.toList_repr] at hc
  have := Nat.isDigit_of_mem_toDigits (by decide) (by decide) hc
  simp [hd] at this

/-- The statement has teeth: a bare prelude name is not free for any item that does not itself contain it. -/
theorem C14_vocabulary_rejects (U : String → Prop) (t : String)
    (ht : t ∈ ["Option", "Some", "None", "Ordering", "Clone", "Default", "PartialEq", "Eq", "matches", "unreachable",
      "PhantomData", "Sized", "Formatter", "core", "std", "From", "Hash", "Debug"]) (hU : ¬ U t) : ¬ Free U t := by
  simp only [List.mem_cons, List.not_mem_nil, or_false] at ht
  rintro (h | h | ⟨s, h⟩ | h | ⟨s, h⟩)
  · rcases ht with rfl | rfl | rfl | rfl | rfl | rfl | rfl | rfl | rfl | rfl | rfl | rfl | rfl | rfl | rfl | rfl | rfl | rfl <;>
      revert h <;> decide
  · exact hU h
  · have := congrArg String.toList h
    rcases ht with rfl | rfl | rfl | rfl | rfl | rfl | rfl | rfl | rfl | rfl | rfl | rfl | rfl | rfl | rfl | rfl | rfl | rfl <;>
      simp at this
  · rcases ht with rfl | rfl | rfl | rfl | rfl | rfl | rfl | rfl | rfl | rfl | rfl | rfl | rfl | rfl | rfl | rfl | rfl | rfl
    all_goals first
      | exact not_nat_of_alpha (c := 'o') (by decide) (by decide) h
      | exact not_nat_of_alpha (c := 'e') (by decide) (by decide) h
      | exact not_nat_of_alpha (c := 'a') (by decide) (by decide) h
      | exact not_nat_of_alpha (c := 's') (by decide) (by decide) h
      | exact not_nat_of_alpha (c := 'q') (by decide) (by decide) h
  · have := congrArg String.toList h
    rcases ht with rfl | rfl | rfl | rfl | rfl | rfl | rfl | rfl | rfl | rfl | rfl | rfl | rfl | rfl | rfl | rfl | rfl | rfl <;>
      simp [quoteStr] at this

/-- The scope-dependent words do occur (so `C14_vocabulary` cannot be strengthened by dropping them): the signature
of `eq` ends in the bare word `bool` behind `->`, not behind `::` — known finding KF-bool (a local `struct bool;` is
what `-> bool` then names); likewise the cast target of the discriminant comparison is a bare integer type name
(KF-isize). -/
theorem C14_scope_dependence_witness :
    Sig.toks .eq = ["fn", "eq", "(", "&", "self", ",", "__other", ":", "&", "Self", ")", "-", ">", "bool"] ∧
    (∀ cx e, Expr.toks cx (.cast e .isize) = Expr.toks cx e ++ ["as", "isize"]) :=
  ⟨rfl, fun _ _ => by simp [Expr.toks, IntTy.tok]⟩

/-- The hypothesis of `C14_vocabulary` holds for every impl without a `crate = ..` option, and for every option whose
path has a segment (what syn parses) — e.g. `crate = zeroize_`, `crate = ::a::b`. -/
example (inp : Input) (im : Impl) (h : im.trait.crate_ = none) : Ctx.PathOK ⟨inp, im.trait⟩ := by
  intro p hp; simp [h] at hp

example (inp : Input) (im : Impl) (l : Bool) (i : Ident) (rest : List Ident) (a : Option (Nat × Toks))
    (h : im.trait.crate_ = some ⟨l, i :: rest, a⟩) : Ctx.PathOK ⟨inp, im.trait⟩ := by
  intro p hp
  simp only [h, Option.some.injEq] at hp
  subst hp
  exact .inr (by simp)

end DW
