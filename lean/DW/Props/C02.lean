import DW.Props.C01
import DW.Props.C09
import DW.Props.C18
import DW.Props.C06
import DW.Lemmas.Obl
import DW.Lemmas.Typed
import DW.Lemmas.Preserve
import DW.Lemmas.Progress
import DW.Lemmas.DefaultPos
import DW.Props.C16

/-!
# C02 — every accepted item yields compiling impls of exactly the requested traits

rustc's type checker is outside the model; what *is* proved about the model:

* `C02_impl_list`: the expansion consists of exactly one impl per requested
  (attribute, trait) pair, in order, for the requested trait (`Drop` for
  `ZeroizeOnDrop`, plus the marker impl iff `zeroize-on-drop`) — no trait that
  was not requested, none twice unless requested twice.
* `C02_delegation_same_bounds`: whenever `Clone` is generated as `*self` or
  `PartialOrd` as `Some(Ord::cmp(..))`, the impl's where-clause is token for
  token the where-clause of the sibling `Copy` / `Ord` impl of the same
  attribute, so the obligation `Self: Copy` / `Self: Ord` raised by the body is
  entailed wherever the impl applies (this is what the `fix:` commit 3637602
  restored).
* Exhaustiveness of every generated `match` and absence of ill-typed
  operations on well-formed values are the `ok` outcomes of the refinement
  theorems C03, C04, C08–C11, C18, C19 (`stuck` is the evaluator's "rustc would
  reject this").
* `C02_well_typed`: every generated method passes the model's static type checker (`DW/Typing.lean`) at the return
  type of its signature — arguments of every call have the shapes of the callee's signature, all arms of every
  `match` agree, patterns fit their scrutinees, constructors get every field once and in order, `as` casts are only
  applied to field-less enums, `return None` only occurs in `partial_cmp` — for every item that validation accepts,
  every attribute, trait and configuration.  Together with `C02_obligations` (which trait bounds the calls need) this
  is the model's account of "the expansion type-checks".
* `C02_preservation`: the type system is *sound for the evaluator* on the generated methods: whatever a generated
  method returns for well-formed operands (normally or through an early `return`) is a value of its signature's return
  type — `bool` for `eq`, `Option<Ordering>` for `partial_cmp`, a well-formed value of the item for `clone` / `default`,
  … (`eval_preserves`, `DW/Lemmas/Preserve.lean`: type preservation for every expression of the fragment, by mutual
  structural induction; `applyFn_preserves` and `matchPat_preserves` relate library calls and patterns).
* `C02_never_stuck`: **type soundness**, the other half (`eval_progress`, `DW/Lemmas/Progress.lean`): a generated
  method run on well-formed operands never reaches the evaluator's `stuck` outcome ("rustc would have rejected this":
  unbound name, ill-shaped call, `match` without a matching arm, cast of a value with fields) — it ends in a value, an
  early `return`, a panic or undefined behaviour (which of the last two is excluded by C12).  The type checker includes
  rustc's exhaustiveness check (`Arms.exhaustive`), and `C02_well_typed` therefore also states that every generated
  `match` is exhaustive.
Whether rustc accepts the expansion is checked by correspondence B (every
accepted, well-posed generated item must compile in each configuration).
-/

namespace DW

/-- Header trait of an impl: `none` stands for `::core::ops::Drop`. -/
def Impl.headerTrait (i : Impl) : Option Trait := if i.isDrop then none else some i.trait.trait

theorem C02_impl_list (c : Cfg) (inp : Input) :
    (expandInput c inp).map (·.1) = inp.deriveWheres.flatMap (·.traits) ∧
    ∀ p ∈ expandInput c inp,
      p.2.map Impl.headerTrait =
        if p.1.trait = .zeroizeOnDrop then (if c.zod then [none, some .zeroizeOnDrop] else [none])
        else [some p.1.trait] := by
  constructor
  · simp [expandInput, List.map_flatMap, Function.comp_def]
  · intro p hp
    simp only [expandInput, List.mem_flatMap, List.mem_map] at hp
    obtain ⟨dw, _, t, _, rfl⟩ := hp
    by_cases hz : t.trait = .zeroizeOnDrop
    · cases hc : c.zod <;> simp [generateImpl, hz, hc, Impl.headerTrait]
    · simp [generateImpl, hz, Impl.headerTrait]

/-- With only custom bounds the where-clause does not depend on the trait. -/
theorem implPreds_shortcut (g : Generics) (item : Item) (dw : DeriveWhere) (hs : dw.shortcut = true)
    (t t' : Trait) : implPreds g item dw t = implPreds g item dw t' := by
  unfold implPreds
  congr 1
  apply List.map_congr_left
  intro e he
  simp only [DeriveWhere.shortcut, List.all_eq_true] at hs
  have := hs e he
  cases e <;> simp_all

theorem C02_delegation_same_bounds (c : Cfg) (inp : Input) (dw : DeriveWhere) :
    ((dw.shortcut && dw.contains .copy) = true →
      (generateImpl c inp dw ⟨.clone, none⟩).map (·.preds) = (generateImpl c inp dw ⟨.copy, none⟩).map (·.preds)) ∧
    ((dw.shortcut && dw.contains .ord) = true →
      (generateImpl c inp dw ⟨.partialOrd, none⟩).map (·.preds) = (generateImpl c inp dw ⟨.ord, none⟩).map (·.preds)) := by
  constructor
  · intro h
    simp only [Bool.and_eq_true] at h
    simp [generateImpl, implPreds_shortcut inp.generics inp.item dw h.1 .clone .copy]
  · intro h
    simp only [Bool.and_eq_true] at h
    simp [generateImpl, implPreds_shortcut inp.generics inp.item dw h.1 .partialOrd .ord]

/-- The obligations an impl of trait `t` generated for attribute `dw` may raise. -/
def Entailed (it : Item) (dw : DeriveWhere) (t : Trait) : Oblig → Bool
  | .field k i tr =>
    (tr == t || (t == .partialOrd && tr == .ord) || (t == .ord && tr == .partialOrd)) && it.fieldRelevant t k i
  | .copySelf => dw.contains .copy || isUnion it
  | .self_ tr =>
    (tr == .clone && dw.contains .clone) || (tr == .ord && dw.shortcut && dw.contains .ord) || tr == .zeroize
  | .noDrop => (t == .partialOrd || t == .ord) && (dw.contains .copy || dw.contains .clone)

/-- **The only trait obligations an expansion raises** (for every item, attribute, trait and configuration):
`FieldType: t` for fields that are *not skipped* for the derived trait `t` — the user's side of C02, "the field types
support the requested traits" (an `Ord`/`PartialOrd` pair may use each other's method on the same fields); `Self: Copy`
only next to a `Copy` derived in the same attribute or for a union (whose `Clone` is granted only if it is `Copy`);
`Self: Clone` only next to a `Clone` derived in the same attribute; `Self: Ord` only when `PartialOrd` delegates under
`only_custom_bounds` (then both impls carry the same where-clause, `C02_delegation_same_bounds`); `Self: Zeroize` only
in the `Drop` impl (the documented requirement without `zeroize-on-drop`); and "`Self` has no `Drop` impl" only in
`PartialOrd` / `Ord` next to a `Copy` or `Clone` of the same attribute — the `as` cast of the discriminant shortcut, which
rustc refuses for an enum that implements `Drop` (**known finding KF-dropcast**: `Clone`, `PartialOrd` and `ZeroizeOnDrop`
on a field-less enum, or a hand-written `impl Drop`, make the expansion fail to compile).  Nothing else: no obligation on
a skipped field's type, none on an unrelated trait, none on other types. -/
theorem C02_obligations (c : Cfg) (it : Item) (dw : DeriveWhere) (t : Trait) :
    ∀ m ∈ (generateBody c it dw t).toList, m.body.oblBad (Entailed it dw t) = false := by
  apply obl_generateBody
  · intro x hx t' ht' p hp
    have hv := Item.indexed_mem it x hx
    have hmem : p.1 ∈ x.2.relevantIdx t' := by
      rw [← Data.iterFields_fst]; exact List.mem_map_of_mem hp
    have heq : x.2.relevantIdx t' = x.2.relevantIdx t := by
      rcases ht' with rfl | ⟨rfl, rfl⟩ | ⟨rfl, rfl⟩
      · rfl
      · exact relevantIdx_uniform x.2 .ord .partialOrd (by simp [cmpTraits]) (by simp [cmpTraits])
      · exact relevantIdx_uniform x.2 .partialOrd .ord (by simp [cmpTraits]) (by simp [cmpTraits])
    rw [heq] at hmem
    have hrel : it.fieldRelevant t x.1 p.1 = true := by simp [Item.fieldRelevant, hv, hmem]
    rcases ht' with rfl | ⟨rfl, rfl⟩ | ⟨rfl, rfl⟩ <;> simp [Entailed, hrel]
  · intro h; simp [Entailed, h]
  · intro h; simp [Entailed, h]
  · intro h; simp [Entailed, h]
  · intro h
    simp only [Bool.and_eq_true] at h
    simp [Entailed, h.1, h.2]
  · simp [Entailed]
  · intro ht hc
    rcases ht with rfl | rfl <;> rcases hc with hc | hc <;> simp [Entailed, hc]

/-- `C02_obligations` for any set of facts that contains the entailed obligations. -/
theorem C02_obligations_sub (c : Cfg) (it : Item) (dw : DeriveWhere) (t : Trait) (holds : Oblig → Bool)
    (hsub : ∀ o, Entailed it dw t o = true → holds o = true) :
    ∀ m ∈ (generateBody c it dw t).toList, m.body.oblBad holds = false := by
  apply obl_generateBody
  · intro x hx t' ht' p hp
    have hv := Item.indexed_mem it x hx
    have hmem : p.1 ∈ x.2.relevantIdx t' := by
      rw [← Data.iterFields_fst]; exact List.mem_map_of_mem hp
    have heq : x.2.relevantIdx t' = x.2.relevantIdx t := by
      rcases ht' with rfl | ⟨rfl, rfl⟩ | ⟨rfl, rfl⟩
      · rfl
      · exact relevantIdx_uniform x.2 .ord .partialOrd (by simp [cmpTraits]) (by simp [cmpTraits])
      · exact relevantIdx_uniform x.2 .partialOrd .ord (by simp [cmpTraits]) (by simp [cmpTraits])
    rw [heq] at hmem
    have hrel : it.fieldRelevant t x.1 p.1 = true := by simp [Item.fieldRelevant, hv, hmem]
    apply hsub
    rcases ht' with rfl | ⟨rfl, rfl⟩ | ⟨rfl, rfl⟩ <;> simp [Entailed, hrel]
  · intro h; exact hsub _ (by simp [Entailed, h])
  · intro h; exact hsub _ (by simp [Entailed, h])
  · intro h; exact hsub _ (by simp [Entailed, h])
  · intro h
    simp only [Bool.and_eq_true] at h
    exact hsub _ (by simp [Entailed, h.1, h.2])
  · exact hsub _ (by simp [Entailed])
  · intro ht hc
    apply hsub
    rcases ht with rfl | rfl <;> rcases hc with hc | hc <;> simp [Entailed, hc]

/-- The traversal flags what it should: `Ord::cmp` on a field inside a `PartialEq` impl, a mention of a skipped field,
`*self` without `Copy`. -/
example : (Expr.call (.traitFn .cmp) [.var (.selfField 0 0), .var (.otherField 0 0)]).oblBad
    (fun o => o == .field 0 0 .partialEq) = true := by decide
example : (Expr.deref vSelf).oblBad (fun o => o != .copySelf) = true := by decide

/-- KF-dropcast in the model: the `Clone` shortcut of the discriminant comparison casts a value of the item type; where
the type has a `Drop` impl (`ZeroizeOnDrop` derived next to it, or written by hand) the obligation fails — and rustc
refuses the expansion (`cannot cast enum .. because it implements Drop`). -/
example : (Expr.cast (.selfCall .clone [vSelf]) .isize).oblBad (fun o => o != .noDrop) = true := by decide

/-- What validation establishes about an accepted item is what the generators need in order to emit typeable code. -/
theorem typeable_of_validated (c : Cfg) (raw : RawItem) (hraw : RawOK raw) (inp : Input)
    (h : Input.fromInput c raw = .ok inp) (dw : DeriveWhere) (hdw : dw ∈ inp.deriveWheres)
    (t : DeriveTrait) (ht : t ∈ dw.traits) : Typeable c inp.item dw t.trait := by
  have hok := Input.fromInput_ok c raw inp h
  -- a union item comes from a union (validation keeps the shapes) and only derives Clone / Copy
  have hkind : isUnion inp.item = true → raw.kind = .union_ := by
    intro hu
    apply Classical.byContradiction
    intro hne
    have hs := hok.shapes hne hraw.shapes
    cases hitem : inp.item with
    | enum_ => simp [hitem, isUnion] at hu
    | item d =>
      simp only [hitem, isUnion, beq_iff_eq] at hu
      exact hs d (by simp [hitem, Item.variants]) hu
  refine ⟨?_, ?_, ?_, ?_, hok.wf, ?_, ?_⟩
  rotate_left 4
  · -- no union shapes in an item that is no union
    intro hu d hd hsh
    have hk : raw.kind ≠ .union_ := by
      intro hk
      -- a union has exactly one data, of union shape
      obtain ⟨v, hv⟩ := hraw.single (by rw [hk]; simp)
      have h' := h
      unfold Input.fromInput at h'
      obtain ⟨attr, _, h1⟩ := bind_ok h'
      obtain ⟨r, hr, h2⟩ := bind_ok h1
      split at h2
      · cases h2
      · simp only [Except.ok.injEq] at h2
        subst h2
        unfold Input.buildItem at hr
        simp only [hk, hv] at hr
        obtain ⟨d', hd', h3⟩ := bind_ok hr
        simp only [pure, Except.pure, Except.ok.injEq] at h3
        rw [← h3] at hu
        have := (Data.fromStruct_ok _ _ _ _ _ _ hd').1
        simp [isUnion, this] at hu
    exact hok.shapes hk hraw.shapes d hd hsh
  · intro hu
    have := hok.union dw hdw t ht (hkind hu)
    cases htt : t.trait <;> simp_all [Trait.supportsUnion]
  · -- `Ord` excludes every `incomparable` marker
    intro hord
    have hno : ¬ (inp.item.markedIncomparable = true ∨ ∃ d ∈ inp.item.variants, d.incomparable = true) := by
      intro hinc
      exact ((hok.incomparable hinc).1 dw hdw t ht).2 hord
    have hall : ∀ d ∈ inp.item.variants, d.incomparable = false := by
      intro d hd
      cases hi : d.incomparable
      · rfl
      · exact absurd (Or.inr ⟨d, hd, hi⟩) hno
    refine ⟨?_, hall⟩
    cases hii : inp.item.isIncomparable
    · rfl
    · exfalso
      apply hno
      cases hit : inp.item with
      | item d =>
        right; exact ⟨d, by simp [Item.variants], by simpa [hit, Item.isIncomparable] using hii⟩
      | enum_ disc id inc vs =>
        simp only [hit, Item.isIncomparable, Bool.or_eq_true, Bool.and_eq_true, Bool.not_eq_true',
          List.isEmpty_eq_false_iff, List.all_eq_true] at hii
        rcases hii with hm | ⟨hne, hallinc⟩
        · left; simpa [Item.markedIncomparable] using hm
        · right
          obtain ⟨d, hd⟩ := List.exists_mem_of_ne_nil vs hne
          exact ⟨d, by simpa [Item.variants] using hd, hallinc d hd⟩
  · -- `Discriminant::Single` means one variant
    intro _ id inc vs hit hn _ hlen
    have := fromInput_single c raw inp h hn id inc vs hit
    omega
  · -- `Unit` / `UnitRepr` mean no fields anywhere
    intro disc id inc vs hit hd
    have hf := hok.fieldless disc id inc vs hit hd
    simp only [Item.fieldless, hit, Item.variants, List.all_eq_true]
    intro d hdm
    simp [hf d hdm]
  · -- `Default` is derived: one default position
    intro hdef
    have hnu : raw.kind ≠ .union_ := by
      intro hk
      have := hok.union dw hdw t ht hk
      rw [hdef] at this
      simp [Trait.supportsUnion] at this
    exact default_position c raw inp h hnu hraw.shapes
      ⟨dw, hdw, by simp only [DeriveWhere.contains, List.any_eq_true]; exact ⟨t, ht, by simp [hdef]⟩⟩

/-- **Every generated method type-checks** in the model's type system (`DW/Typing.lean`): for every raw item the
validation accepts, every attribute, every requested trait and every feature configuration, the body of each `fn` of
each generated impl has the return type of its signature. -/
theorem C02_well_typed (c : Cfg) (raw : RawItem) (hraw : RawOK raw) (inp : Input)
    (h : Input.fromInput c raw = .ok inp) (dw : DeriveWhere) (hdw : dw ∈ inp.deriveWheres)
    (t : DeriveTrait) (ht : t ∈ dw.traits) :
    ∀ im ∈ generateImpl c inp dw t, ∀ m ∈ im.methods, m.wellTyped inp.item = true := by
  have hty := wellTyped_generateBody c inp.item dw t.trait (typeable_of_validated c raw hraw inp h dw hdw t ht)
  intro im him m hm
  unfold generateImpl at him
  simp only at him
  split at him
  · simp only [List.mem_cons, List.not_mem_nil, or_false] at him
    rcases him with rfl | rfl
    · exact hty m hm
    · simp at hm
  · simp only [List.mem_singleton] at him
    subst him
    exact hty m hm

theorem lookup_mem {β γ} [BEq β] [LawfulBEq β] (l : List (β × γ)) (x : β) (t : γ) (h : l.lookup x = some t) :
    (x, t) ∈ l := by
  induction l with
  | nil => simp at h
  | cons p l ih =>
    obtain ⟨y, ty⟩ := p
    simp only [List.lookup_cons] at h
    cases hxy : x == y
    · simp only [hxy] at h; exact List.mem_cons_of_mem _ (ih h)
    · simp only [hxy, Option.some.injEq] at h
      have := eq_of_beq hxy
      subst this h; simp

/-- The environment `runMethod` starts from has the types of the signature's parameters. -/
theorem envOK_params {α} (it : Item) (sg : Sig) (a : Val α) (other : Option (Val α)) (ha : WfVal it a)
    (ho : (sg = .eq ∨ sg = .partialCmp ∨ sg = .cmp) → ∃ o, other = some o ∧ WfVal it o) :
    EnvOK it ([(Var.self_, a), (Var.f, Val.opaque), (Var.state, Val.opaque)] ++
      (match other with
        | some o => [(Var.other, o)]
        | none => [])) sg.params := by
  intro x t hx
  have hm := lookup_mem _ x t hx
  have hself : ∀ tl : Env α, ([(Var.self_, a), (Var.f, Val.opaque), (Var.state, Val.opaque)] ++ tl).lookup Var.self_ = some a := by
    intro tl; simp [List.lookup_cons]
  have e1 : (Var.f == Var.self_) = false := by decide
  have e2 : (Var.state == Var.self_) = false := by decide
  have e3 : (Var.state == Var.f) = false := by decide
  have e4 : (Var.other == Var.self_) = false := by decide
  have e5 : (Var.other == Var.f) = false := by decide
  have e6 : (Var.other == Var.state) = false := by decide
  have hf : ∀ tl : Env α, ([(Var.self_, a), (Var.f, Val.opaque), (Var.state, Val.opaque)] ++ tl).lookup Var.f = some .opaque := by
    intro tl; simp [List.lookup_cons, e1]
  have hst : ∀ tl : Env α, ([(Var.self_, a), (Var.f, Val.opaque), (Var.state, Val.opaque)] ++ tl).lookup Var.state = some .opaque := by
    intro tl; simp [List.lookup_cons, e2, e3]
  have hoth : ∀ o : Val α, ([(Var.self_, a), (Var.f, Val.opaque), (Var.state, Val.opaque)] ++ [(Var.other, o)]).lookup Var.other = some o := by
    intro o; simp [List.lookup_cons, e4, e5, e6]
  by_cases hsg : sg = .eq ∨ sg = .partialCmp ∨ sg = .cmp
  · obtain ⟨o, rfl, hwo⟩ := ho hsg
    rcases hsg with rfl | rfl | rfl <;>
      simp only [Sig.params, List.mem_cons, List.not_mem_nil, or_false, Prod.mk.injEq] at hm <;>
      rcases hm with ⟨rfl, rfl⟩ | ⟨rfl, rfl⟩ <;>
      first
        | exact ⟨a, hself _, by simpa [ValOK] using ha⟩
        | exact ⟨_, hoth _, by simpa [ValOK] using hwo⟩
  · cases sg <;> simp only [reduceCtorEq, or_self, or_false, false_or, not_true_eq_false, not_false_eq_true] at hsg <;>
      simp only [Sig.params, List.mem_cons, List.not_mem_nil, or_false, Prod.mk.injEq] at hm
    all_goals first
      | (rcases hm with ⟨rfl, rfl⟩ | ⟨rfl, rfl⟩ <;>
          first
            | exact ⟨a, hself _, by simpa [ValOK] using ha⟩
            | exact ⟨.opaque, hf _, by simp [ValOK]⟩
            | exact ⟨.opaque, hst _, by simp [ValOK]⟩)
      | (obtain ⟨rfl, rfl⟩ := hm; exact ⟨a, hself _, by simpa [ValOK] using ha⟩)
      | exact absurd hm (by simp)

theorem finish_ok {α} {it : Item} {ret ty : Ty} {r : Res α} {v : Val α} {l : Log α}
    (hres : ResOK it ret ty r) (hfit : ty.fits ret = true) (h : r.finish = .ok (v, l)) : ValOK it v ret := by
  cases r with
  | ok b =>
    obtain ⟨v', l'⟩ := b
    simp only [Out.finish, Out.ok.injEq, Prod.mk.injEq] at h
    obtain ⟨rfl, _⟩ := h
    exact ValOK.of_fits hres hfit
  | ret v' l' =>
    simp only [Out.finish, Out.ok.injEq, Prod.mk.injEq] at h
    obtain ⟨rfl, _⟩ := h
    exact hres
  | ub => simp [Out.finish] at h
  | panic => simp [Out.finish] at h
  | stuck => simp [Out.finish] at h

/-- **Type preservation for the generated methods**: for every validated item, every generated method and all
well-formed operands, the value the method returns — normally or through an early `return` — has the return type of the
method's signature.  (`eval_preserves` is the general statement for every well-typed expression of the fragment.) -/
theorem C02_preservation {α} (c : Cfg) (raw : RawItem) (hraw : RawOK raw) (inp : Input)
    (h : Input.fromInput c raw = .ok inp) (dw : DeriveWhere) (hdw : dw ∈ inp.deriveWheres)
    (t : DeriveTrait) (ht : t ∈ dw.traits) (cx : SemCtx α) (himpl : ImplsOK inp.item cx) :
    ∀ im ∈ generateImpl c inp dw t, ∀ m ∈ im.methods, ∀ (a : Val α) (other : Option (Val α)), WfVal inp.item a →
      ((m.sig = .eq ∨ m.sig = .partialCmp ∨ m.sig = .cmp) → ∃ o, other = some o ∧ WfVal inp.item o) →
      ∀ v l, runMethod cx m.body a other = .ok (v, l) → ValOK inp.item v m.sig.ret := by
  intro im him m hm a other ha ho v l hrun
  have hwt := C02_well_typed c raw hraw inp h dw hdw t ht im him m hm
  have hwf := (Input.fromInput_ok c raw inp h).wf
  simp only [Method'.wellTyped] at hwt
  cases hty : m.body.ty ⟨inp.item, m.sig.ret⟩ m.sig.params with
  | none => simp [hty] at hwt
  | some ty =>
    simp only [hty] at hwt
    have henv := envOK_params inp.item m.sig a other ha ho
    have hres := eval_preserves cx ⟨inp.item, m.sig.ret⟩ himpl hwf m.body m.sig.params _ [] ty hty henv
    exact finish_ok hres hwt hrun

/-- **No generated method gets stuck**: for every validated item, every generated method and all well-formed operands,
evaluation ends in a value, an early `return`, a panic or undefined behaviour — never in the evaluator's "ill-typed,
unbound or non-exhaustive" outcome.  (`eval_progress` is the general statement: well-typed expressions do not get stuck.) -/
theorem C02_never_stuck {α} (c : Cfg) (raw : RawItem) (hraw : RawOK raw) (inp : Input)
    (h : Input.fromInput c raw = .ok inp) (dw : DeriveWhere) (hdw : dw ∈ inp.deriveWheres)
    (t : DeriveTrait) (ht : t ∈ dw.traits) (cx : SemCtx α) (himpl : ImplsOK inp.item cx) (htot : CxTotal inp.item cx) :
    ∀ im ∈ generateImpl c inp dw t, ∀ m ∈ im.methods, ∀ (a : Val α) (other : Option (Val α)), WfVal inp.item a →
      ((m.sig = .eq ∨ m.sig = .partialCmp ∨ m.sig = .cmp) → ∃ o, other = some o ∧ WfVal inp.item o) →
      runMethod cx m.body a other ≠ .stuck := by
  intro im him m hm a other ha ho
  have hwt := C02_well_typed c raw hraw inp h dw hdw t ht im him m hm
  have hwf := (Input.fromInput_ok c raw inp h).wf
  simp only [Method'.wellTyped] at hwt
  cases hty : m.body.ty ⟨inp.item, m.sig.ret⟩ m.sig.params with
  | none => simp [hty] at hwt
  | some ty =>
    have henv := envOK_params inp.item m.sig a other ha ho
    have hp := eval_progress cx ⟨inp.item, m.sig.ret⟩ himpl hwf htot m.body m.sig.params _ [] ty hty henv
    intro hs
    apply hp
    unfold runMethod at hs
    simp only at hs
    revert hs
    generalize eval cx _ [] m.body = r
    intro hs
    cases r <;> simp_all [Out.finish]

/-- The checker rejects what rustc rejects: `Ord::cmp` applied to two *different* fields, a `match` whose arms
disagree, `return None` inside `cmp`, an `as` cast of an enum with fields, a struct literal that omits a field. -/
example :
    let d2 : Data := ⟨.none, false, ⟨"A", false⟩, .named, false, false, [default, default], none⟩
    let cx : TyCx := ⟨.item d2, .ordering⟩
    let Γ : TEnv := [(.selfField 0 0, .ref (.field 0 0)), (.otherField 0 1, .ref (.field 0 1)),
      (.self_, .ref .self_)]
    (Expr.call (.traitFn .cmp) [.var (.selfField 0 0), .var (.otherField 0 1)]).ty cx Γ = none ∧
    (Expr.match_ (.var (.selfField 0 0)) [.mk .wild (.litBool true) true, .mk .wild .equal true]).ty cx Γ = none ∧
    (Expr.ret .none_).ty cx Γ = none ∧
    (Expr.cast (.deref (.var .self_)) .isize).ty cx Γ = none ∧
    (Expr.structLit 0 [.mk 0 (.defaultCall 0 0)]).ty cx Γ = none := by
  decide

/-- **C02 in one statement.**  For every item the validation accepts, every attribute, requested trait and
configuration: if the facts `holds` about trait implementations contain
* `FieldType: Trait` for every field that is *not skipped* for the derived trait ("the item's field types support the
  requested traits under the declared bounds" — the user's side; for `Ord`/`PartialOrd` the partner trait's method may be
  used on the same fields),
* `Self: Copy` where `Copy` is derived in the same attribute (or the item is a union, whose `Clone` demands it),
  `Self: Clone` where `Clone` is, `Self: Ord` where `PartialOrd` delegates to the `Ord` impl of the same attribute with
  only custom bounds — each then holds under the very where-clause of the impl (`C02_delegation_same_bounds`) —, and
  `Self: Zeroize` for the delegating `Drop` impl (the documented requirement of that configuration), and — for
  `PartialOrd` / `Ord` next to `Copy` or `Clone` — that the type has no `Drop` impl (`Oblig.noDrop`; where it fails is
  the known finding KF-dropcast),
then every generated method **type-checks**: it is well-typed at its signature's return type with every `match`
exhaustive (`Method'.wellTyped`), and every trait obligation it raises is among those facts (`oblBad holds = false`).
Together with `C02_impl_list` (exactly the requested impls) this is the model's rendering of the property. -/
theorem C02_type_checks (c : Cfg) (raw : RawItem) (hraw : RawOK raw) (inp : Input)
    (h : Input.fromInput c raw = .ok inp) (dw : DeriveWhere) (hdw : dw ∈ inp.deriveWheres)
    (t : DeriveTrait) (ht : t ∈ dw.traits) (holds : Oblig → Bool)
    (hsub : ∀ o, Entailed inp.item dw t.trait o = true → holds o = true) :
    ∀ im ∈ generateImpl c inp dw t, ∀ m ∈ im.methods,
      m.wellTyped inp.item = true ∧ m.body.oblBad holds = false := by
  intro im him m hm
  refine ⟨C02_well_typed c raw hraw inp h dw hdw t ht im him m hm, ?_⟩
  have hob := C02_obligations_sub c inp.item dw t.trait holds hsub
  unfold generateImpl at him
  simp only at him
  split at him
  · simp only [List.mem_cons, List.not_mem_nil, or_false] at him
    rcases him with rfl | rfl
    · exact hob m hm
    · simp at hm
  · simp only [List.mem_singleton] at him
    subst him
    exact hob m hm

end DW
