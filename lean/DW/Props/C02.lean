import DW.Props.C01
import DW.Props.C09
import DW.Props.C18
import DW.Props.C06

/-!
# C02 — every accepted item yields compiling impls of exactly the requested traits

rustc's type checker is outside the model; what *is* proved about the model:

* `C02_impl_list`: the expansion consists of exactly one impl per requested
  (attribute, trait) pair, in order, for the requested trait (`Drop` for
  `ZeroizeOnDrop`, plus the marker impl iff `zeroize-on-drop`) — no trait that
  was not requested, none twice unless requested twice.
* `C02_delegation_same_bounds`: whenever `Clone` is generated as `*self` or
  `PartialOrd` as `Some(Ord::cmp(..))`, the impl's where-clause is token for
  token the where-clause of the sibling `Copy` / `Ord` impl of the same
  attribute, so the obligation `Self: Copy` / `Self: Ord` raised by the body is
  entailed wherever the impl applies (this is what the `fix:` commit 3637602
  restored).
* Exhaustiveness of every generated `match` and absence of ill-typed
  operations on well-formed values are the `ok` outcomes of the refinement
  theorems C03, C04, C08–C11, C18, C19 (`stuck` is the evaluator's "rustc would
  reject this").
Whether rustc accepts the expansion is checked by correspondence B (every
accepted, well-posed generated item must compile in each configuration).
-/

namespace DW

/-- Header trait of an impl: `none` stands for `::core::ops::Drop`. -/
def Impl.headerTrait (i : Impl) : Option Trait := if i.isDrop then none else some i.trait.trait

theorem C02_impl_list (c : Cfg) (inp : Input) :
    (expandInput c inp).map (·.1) = inp.deriveWheres.flatMap (·.traits) ∧
    ∀ p ∈ expandInput c inp,
      p.2.map Impl.headerTrait =
        if p.1.trait = .zeroizeOnDrop then (if c.zod then [none, some .zeroizeOnDrop] else [none])
        else [some p.1.trait] := by
  constructor
  · simp [expandInput, List.map_flatMap, Function.comp_def]
  · intro p hp
    simp only [expandInput, List.mem_flatMap, List.mem_map] at hp
    obtain ⟨dw, _, t, _, rfl⟩ := hp
    by_cases hz : t.trait = .zeroizeOnDrop
    · cases hc : c.zod <;> simp [generateImpl, hz, hc, Impl.headerTrait]
    · simp [generateImpl, hz, Impl.headerTrait]

/-- With only custom bounds the where-clause does not depend on the trait. -/
theorem implPreds_shortcut (g : Generics) (item : Item) (dw : DeriveWhere) (hs : dw.shortcut = true)
    (t t' : Trait) : implPreds g item dw t = implPreds g item dw t' := by
  unfold implPreds
  congr 1
  apply List.map_congr_left
  intro e he
  simp only [DeriveWhere.shortcut, List.all_eq_true] at hs
  have := hs e he
  cases e <;> simp_all

theorem C02_delegation_same_bounds (c : Cfg) (inp : Input) (dw : DeriveWhere) :
    ((dw.shortcut && dw.contains .copy) = true →
      (generateImpl c inp dw ⟨.clone, none⟩).map (·.preds) = (generateImpl c inp dw ⟨.copy, none⟩).map (·.preds)) ∧
    ((dw.shortcut && dw.contains .ord) = true →
      (generateImpl c inp dw ⟨.partialOrd, none⟩).map (·.preds) = (generateImpl c inp dw ⟨.ord, none⟩).map (·.preds)) := by
  constructor
  · intro h
    simp only [Bool.and_eq_true] at h
    simp [generateImpl, implPreds_shortcut inp.generics inp.item dw h.1 .clone .copy]
  · intro h
    simp only [Bool.and_eq_true] at h
    simp [generateImpl, implPreds_shortcut inp.generics inp.item dw h.1 .partialOrd .ord]

end DW
