import DW.Lemmas.PartialEq

/-!
# C03 — PartialEq is structural equality over variant and non-skipped fields

`C03_eq`: for every feature configuration, every item (any number of variants,
fields, skip / skip_inner / incomparable markers), all field-type impls and all
pairs of well-formed values, evaluating the generated `fn eq` yields exactly
`specEq` and has no effects — in particular never `ub`, `panic` or `stuck`.
`C03_ne`: the impl contains no `ne`, so `!=` is the trait's default `!eq`.
-/

namespace DW

variable {α : Type}

/-- The generated `fn eq` body. -/
def eqMethodBody (c : Cfg) (it : Item) : Expr :=
  partialEqSignature c it (it.indexed.flatMap fun (k, d) => partialEqBody k d)

theorem partialEqBody_miss (k k' : Nat) (d : Data) (fa fb : List (Val α)) (h : k' ≠ k) :
    ∀ p e c, Arm.mk p e c ∈ partialEqBody k' d →
      matchPat p (Val.tuple [.adt k fa, .adt k fb]) = none := by
  intro p e c hm
  unfold partialEqBody at hm
  split at hm
  · simp at hm
  · split at hm <;> simp at hm
    all_goals
      obtain ⟨rfl, _, _⟩ := hm
      exact matchPat_pair_ne k' k fa fb h

theorem relevantIdx_lt (d : Data) (t : Trait) : ∀ i ∈ d.relevantIdx t, i < d.fields.length := by
  intro i hi
  simp only [Data.relevantIdx, List.mem_filter, List.mem_range] at hi
  exact hi.1

/-- The arm of a non-empty comparable variant computes the conjunction. -/
theorem partialEq_arm (cx : SemCtx α) (env : Env α) (log : Log α) (k : Nat) (d : Data)
    (fa fb : List (Val α)) (tail : List Arm)
    (hla : fa.length = d.fields.length) (hlb : fb.length = d.fields.length)
    (hfa : ∀ v ∈ fa, ∃ a, v = .leaf a) (hfb : ∀ v ∈ fb, ∃ a, v = .leaf a)
    (hne : (d.isEmpty .partialEq || d.incomparable) = false)
    (hshape : d.shape = .named ∨ d.shape = .tuple) :
    evalArms cx env log (.tuple [.adt k fa, .adt k fb]) (partialEqBody k d ++ tail) =
      .ok (.bool ((d.relevantIdx .partialEq).all fun i => at2 fa fb i false cx.ops.eq), log) := by
  have hbody : partialEqBody k d =
      [.mk (pairPat k) (eqChain k (d.iterFields .partialEq)) true] := by
    unfold partialEqBody
    rw [hne]
    rcases hshape with h | h <;> simp [h]
  rw [hbody]
  simp only [List.cons_append, List.nil_append, evalArms, matchPat_pair_same]
  rw [eqChain_eq, Data.iterFields_fst]
  have := eqChainIdx_eval cx (pairEnv k fa fb ++ env) k fa fb hfa hfb
    (fun i h => pairEnv_self k i fa fb env h) (fun i h => pairEnv_other k i fa fb env h)
    (d.relevantIdx .partialEq)
    (fun i hi => by have := relevantIdx_lt d _ i hi; omega)
    (.litBool true) true log (by simp [eval])
  simpa using this

theorem isEmpty_iff_relevantIdx (d : Data) (t : Trait) :
    d.isEmpty t = (d.relevantIdx t).isEmpty := by
  unfold Data.isEmpty
  rw [← Data.iterFields_fst]
  cases d.iterFields t <;> simp

/-- Shape of a variant that has a relevant field. -/
theorem shape_of_nonempty (d : Data) (t : Trait) (hwf : d.WF) (hnu : d.shape ≠ .union)
    (hne : d.isEmpty t = false) : d.shape = .named ∨ d.shape = .tuple := by
  cases hs : d.shape with
  | named => exact Or.inl rfl
  | tuple => exact Or.inr rfl
  | unit =>
    have := hwf.unit_no_fields hs
    rw [isEmpty_iff_relevantIdx] at hne
    simp [Data.relevantIdx, this] at hne
  | union => exact absurd hs hnu

theorem eval_discEq (cx : SemCtx α) (k k' : Nat) (fa fb : List (Val α)) (log : Log α) :
    eval cx (env2 (.adt k fa) (.adt k' fb)) log discEq = .ok (.bool (k == k'), log) := by
  simp [discEq, eval, evalList, applyFn, vSelf, vOther, applyBinop]

theorem eval_tupleSO (cx : SemCtx α) (a b : Val α) (log : Log α) :
    eval cx (env2 a b) log tupleSO = .ok (.tuple [a, b], log) := by
  simp [tupleSO, eval, evalList, vSelf, vOther]

/-- Same-variant operands of a multi-variant enum with at least one non-empty
variant: the `match (self, __other)` with incomparable and rest arms. -/
theorem partialEq_multi_arms (c : Cfg) (it : Item) (cx : SemCtx α) (hwf : it.WF)
    (hnu : ∀ d ∈ it.variants, d.shape ≠ .union) (env : Env α) (log : Log α)
    (k : Nat) (d : Data) (hd : it.variants[k]? = some d) (fa fb : List (Val α))
    (hla : fa.length = d.fields.length) (hlb : fb.length = d.fields.length)
    (hfa : ∀ v ∈ fa, ∃ a, v = .leaf a) (hfb : ∀ v ∈ fb, ∃ a, v = .leaf a) :
    evalArms cx env log (.tuple [.adt k fa, .adt k fb])
      (it.indexed.flatMap (fun (k, d) => partialEqBody k d) ++
        (eqIncArms it.variants ++
         [.mk .wild (if it.variants.any (fun v => v.isEmpty .partialEq && !v.incomparable)
            then Expr.litBool true else unreachableRest c) true])) =
      .ok (.bool (!d.incomparable &&
        (d.relevantIdx .partialEq).all fun i => at2 fa fb i false cx.ops.eq), log) := by
  rw [evalArms_indexed cx env log _ (fun k d => partialEqBody k d) k
    (fun k' d' h => partialEqBody_miss k k' d' fa fb h)]
  simp only [hd]
  have hdmem : d ∈ it.variants := List.mem_of_getElem? hd
  by_cases hne : (d.isEmpty .partialEq || d.incomparable) = false
  · have hne' := hne
    simp only [Bool.or_eq_false_iff] at hne'
    rw [partialEq_arm cx env log k d fa fb _ hla hlb hfa hfb hne
      (shape_of_nonempty d _ (hwf d hdmem) (hnu d hdmem) hne'.1)]
    simp [hne'.2]
  · have hbody : partialEqBody k d = [] := by
      unfold partialEqBody
      simp only [Bool.not_eq_false] at hne
      simp [hne]
    rw [hbody, List.nil_append]
    have hspec := incomparablePattern_spec it.variants k fa
    rw [hd] at hspec
    simp only [Option.any_some] at hspec
    cases hinc : d.incomparable
    · -- empty and comparable: the rest arm is `true`
      have hemp : d.isEmpty .partialEq = true := by
        simp only [Bool.not_eq_false, Bool.or_eq_true] at hne
        rcases hne with h | h
        · exact h
        · rw [hinc] at h; cases h
      have hany : it.variants.any (fun v => v.isEmpty .partialEq && !v.incomparable) = true := by
        simp only [List.any_eq_true, Bool.and_eq_true, Bool.not_eq_true']
        exact ⟨d, hdmem, hemp, hinc⟩
      have hall : (d.relevantIdx .partialEq) = [] := by
        rw [isEmpty_iff_relevantIdx] at hemp
        simpa [List.isEmpty_iff] using hemp
      rw [hinc] at hspec
      cases hp : incomparablePattern it.variants with
      | none => simp [eqIncArms, hp, evalArms, matchPat, hany, eval, hall]
      | some p =>
        rw [hp] at hspec
        simp only at hspec
        have : matchPat p (Val.adt k fa) = none := by
          cases h : matchPat p (Val.adt k fa) <;> simp_all
        simp only [eqIncArms, hp, List.cons_append, List.nil_append, evalArms, matchPat_tuple_rest, this, Option.map_none]
        simp [matchPat, hany, eval, hall]
    · rw [hinc] at hspec
      cases hp : incomparablePattern it.variants with
      | none => rw [hp] at hspec; cases hspec
      | some p =>
        rw [hp] at hspec
        simp only at hspec
        cases h : matchPat p (Val.adt k fa) with
        | none => simp [h] at hspec
        | some e =>
          simp only [eqIncArms, hp, List.cons_append, List.nil_append, evalArms, matchPat_tuple_rest, h, Option.map_some]
          simp [eval]

theorem C03_eq (c : Cfg) (it : Item) (cx : SemCtx α) (hwf : it.WF)
    (hnu : ∀ d ∈ it.variants, d.shape ≠ .union)
    (a b : Val α) (ha : WfVal it a) (hb : WfVal it b) :
    runMethod cx (eqMethodBody c it) a (some b) = .ok (.bool (specEq cx.ops it a b), []) := by
  cases a with
  | adt k fa =>
    cases b with
    | adt k' fb =>
      obtain ⟨da, hda, hla, hfa⟩ := ha
      obtain ⟨db, hdb, hlb, hfb⟩ := hb
      rw [runMethod_two]
      unfold eqMethodBody partialEqSignature
      by_cases hinc : it.isIncomparable = true
      · have := isIncomparable_spec it k da hda hinc
        simp only [hinc, if_true, eval, Out.finish, specEq, hda]
        cases hm : it.markedIncomparable <;> simp_all
      · have hinc' : it.isIncomparable = false := by simpa using hinc
        have hm := not_isIncomparable_marked it hinc'
        simp only [hinc', Bool.false_eq_true, if_false]
        -- the shared "single" branch
        have hsingle_case : it.multi = false →
            (eval cx (env2 (.adt k fa) (.adt k' fb)) []
              (if it.isEmpty .partialEq = true then Expr.litBool true
               else .match_ tupleSO (it.indexed.flatMap fun (k, d) => partialEqBody k d))).finish =
              .ok (.bool (specEq cx.ops it (.adt k fa) (.adt k' fb)), []) := by
          intro hs
          obtain ⟨hk0, hvs⟩ := single_variant it hs k da hda
          obtain ⟨hk0', hvs'⟩ := single_variant it hs k' db hdb
          subst hk0 hk0'
          have hdab : db = da := by rw [hvs] at hvs'; simpa using hvs'.symm
          subst hdab
          have hdinc : db.incomparable = false := by
            have := isIncomparable_spec it 0 db hda
            cases h : db.incomparable
            · rfl
            · -- a single incomparable variant makes the item incomparable
              exfalso
              cases it with
              | enum_ disc id inc vs =>
                simp only [Item.variants] at hvs
                subst hvs
                simp [Item.isIncomparable, h] at hinc'
              | item d' =>
                simp only [Item.variants, List.cons.injEq, and_true] at hvs
                subst hvs
                simp [Item.isIncomparable, h] at hinc'
          have hitEmpty : it.isEmpty .partialEq = db.isEmpty .partialEq := by
            simp [Item.isEmpty, hvs]
          by_cases hemp : db.isEmpty .partialEq = true
          · have hall : (db.relevantIdx .partialEq) = [] := by
              rw [isEmpty_iff_relevantIdx] at hemp
              simpa [List.isEmpty_iff] using hemp
            simp [hitEmpty, hemp, eval, Out.finish, specEq, hda, hm, hdinc, hall]
          · have hemp' : db.isEmpty .partialEq = false := by simpa using hemp
            simp only [hitEmpty, hemp', Bool.false_eq_true, if_false, eval, eval_tupleSO, Out.bind_ok]
            have := evalArms_indexed cx (env2 (.adt 0 fa) (.adt 0 fb)) [] (.tuple [.adt 0 fa, .adt 0 fb])
              (fun k d => partialEqBody k d) 0
              (fun k' d' h => partialEqBody_miss 0 k' d' fa fb h) it []
            simp only [List.append_nil, hda] at this
            rw [this]
            have harm := partialEq_arm cx (env2 (.adt 0 fa) (.adt 0 fb)) [] 0 db fa fb [] hla hlb hfa hfb
              (by simp [hemp', hdinc])
              (shape_of_nonempty db _ (hwf db (List.mem_of_getElem? hda))
                (hnu db (List.mem_of_getElem? hda)) hemp')
            simp only [List.append_nil] at harm
            rw [harm]
            simp [Out.finish, specEq, hda, hm, hdinc]
        cases it with
        | item d => exact hsingle_case rfl
        | enum_ disc id inc vs =>
          simp only
          by_cases hlen : vs.length > 1
          · simp only [hlen, if_true]
            by_cases hemp : (Item.enum_ disc id inc vs).isEmpty .partialEq = true
            · -- every variant is empty
              simp only [hemp, Bool.not_true, Bool.false_eq_true, if_false, eval, eval_discEq, Out.bind_ok]
              by_cases hk : k = k'
              · subst hk
                have hdab : db = da := by rw [hda] at hdb; exact (Option.some.inj hdb).symm
                subst hdab
                have hdemp : db.isEmpty .partialEq = true := by
                  simp only [Item.isEmpty, List.all_eq_true] at hemp
                  exact hemp db (List.mem_of_getElem? hda)
                have hall : (db.relevantIdx .partialEq) = [] := by
                  rw [isEmpty_iff_relevantIdx] at hdemp
                  simpa [List.isEmpty_iff] using hdemp
                have hspec := incomparablePattern_spec vs k fa
                simp only [Item.variants] at hda
                rw [hda] at hspec
                simp only [Option.any_some] at hspec
                simp only [beq_self_eq_true, Item.variants]
                cases hp : incomparablePattern vs with
                | none =>
                  rw [hp] at hspec
                  simp [eqIncStmts, hp, Blk.toExpr, eval, Out.finish, specEq, Item.variants, hda, hm, ← hspec, hall]
                | some p =>
                  rw [hp] at hspec
                  simp only at hspec
                  cases hdi : db.incomparable
                  · rw [hdi] at hspec
                    simp [eqIncStmts, hp, Blk.toExpr, eval, evalStmts, vSelf, hspec, Out.finish, specEq, Item.variants,
                      hda, hm, hdi, hall]
                  · rw [hdi] at hspec
                    simp [eqIncStmts, hp, Blk.toExpr, eval, evalStmts, vSelf, hspec, Out.finish, specEq, Item.variants,
                      hda, hm, hdi]
              · have : (k == k') = false := by simpa using hk
                simp [this, Out.finish, specEq]
            · have hemp' : (Item.enum_ disc id inc vs).isEmpty .partialEq = false := by simpa using hemp
              simp only [hemp', Bool.not_false, if_true, eval, eval_discEq, Out.bind_ok]
              by_cases hk : k = k'
              · subst hk
                have hdab : db = da := by rw [hda] at hdb; exact (Option.some.inj hdb).symm
                subst hdab
                simp only [beq_self_eq_true, eval_tupleSO, Out.bind_ok]
                have := partialEq_multi_arms c (Item.enum_ disc id inc vs) cx hwf hnu
                  (env2 (.adt k fa) (.adt k fb)) [] k db hda fa fb hla hlb hfa hfb
                simp only [List.append_assoc]
                refine (congrArg Out.finish this).trans ?_
                simp only [Item.variants] at hda
                simp [Out.finish, specEq, Item.variants, hm, hda]
              · have : (k == k') = false := by simpa using hk
                simp [this, Out.finish, specEq]
          · simp only [hlen, if_false]
            exact hsingle_case (by simpa [Item.multi] using hlen)
    | _ => exact hb.elim
  | _ => exact ha.elim

end DW
