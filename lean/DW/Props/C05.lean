import DW.Props.C03
import DW.Props.C04
import DW.Props.C08

/-!
# C05 — Eq/Ord/Hash contracts survive every accepted skip/incomparable setup

The heart is the skip table: `C05_skip_uniform` (a marker covers `PartialEq`
iff it covers `Eq`, `PartialOrd`, `Ord`) and `C05_skip_hash_superset` (what is
skipped for `PartialEq` is skipped for `Hash`), lifted to the lists of relevant
fields.  On top of the refinement theorems (C03, C04, C08) the derived impls
then satisfy the std contracts whenever the field impls do:

* `C05_eq_iff_pcmp`: `a == b ↔ partial_cmp(a, b) == Some(Equal)`;
* `C04_agree` (in `Props/C04`): `partial_cmp == Some(cmp)`;
* `C05_lt_gt`: `a < b ↔ b > a`;
* `C05_eq_symm`, `C05_eq_trans`;
* `C05_eq_hash`: `a == b` ⇒ same variant and every hashed field pairwise `==`
  (so lawful field `Hash` impls feed identical input, by `C08_transcript`).
-/

namespace DW

variable {α : Type}

def cmpTraits : List Trait := [.eq, .ord, .partialEq, .partialOrd]

theorem C05_skip_uniform (s : Skip) (t t' : Trait) (ht : t ∈ cmpTraits) (ht' : t' ∈ cmpTraits) :
    s.covers t = s.covers t' := by
  have hg : ∀ g : SkipGroup, g.covers t = g.covers t' := by
    intro g
    simp only [cmpTraits, List.mem_cons, List.not_mem_nil, or_false] at ht ht'
    rcases ht with rfl | rfl | rfl | rfl <;> rcases ht' with rfl | rfl | rfl | rfl <;> cases g <;> rfl
  cases s with
  | none => rfl
  | all =>
    simp only [cmpTraits, List.mem_cons, List.not_mem_nil, or_false] at ht ht'
    rcases ht with rfl | rfl | rfl | rfl <;> rcases ht' with rfl | rfl | rfl | rfl <;> rfl
  | traits gs => simp only [Skip.covers, hg]

theorem C05_skip_hash_superset (s : Skip) (t : Trait) (ht : t ∈ cmpTraits) (h : s.covers t = true) :
    s.covers .hash = true := by
  simp only [cmpTraits, List.mem_cons, List.not_mem_nil, or_false] at ht
  cases s with
  | none => simp [Skip.covers] at h
  | all => rfl
  | traits gs =>
    simp only [Skip.covers, List.any_eq_true] at h ⊢
    obtain ⟨g, hg, hc⟩ := h
    refine ⟨g, hg, ?_⟩
    rcases ht with rfl | rfl | rfl | rfl <;> cases g <;> simp_all [SkipGroup.covers]

/-- The same fields matter to all four comparison traits. -/
theorem relevantIdx_uniform (d : Data) (t t' : Trait) (ht : t ∈ cmpTraits) (ht' : t' ∈ cmpTraits) :
    d.relevantIdx t = d.relevantIdx t' := by
  unfold Data.relevantIdx Data.relevant
  simp only [C05_skip_uniform _ t t' ht ht']

/-- Every hashed field is a compared field. -/
theorem relevantIdx_hash_subset (d : Data) (t : Trait) (ht : t ∈ cmpTraits) :
    ∀ i ∈ d.relevantIdx .hash, i ∈ d.relevantIdx t := by
  intro i hi
  simp only [Data.relevantIdx, List.mem_filter, List.mem_range] at hi ⊢
  refine ⟨hi.1, ?_⟩
  cases hf : d.fields[i]? with
  | none => simp [hf] at hi
  | some f =>
    simp only [hf, Option.any_some, Data.relevant, Bool.and_eq_true, Bool.not_eq_true'] at hi ⊢
    constructor
    · cases h : d.skipInner.covers t
      · rfl
      · have := C05_skip_hash_superset _ t ht h; rw [this] at hi; exact absurd hi.2.1 (by simp)
    · cases h : f.skip.covers t
      · rfl
      · have := C05_skip_hash_superset _ t ht h; rw [this] at hi; exact absurd hi.2.2 (by simp)

/-- Lawful field impls. -/
structure Lawful (ops : FieldOps α) : Prop where
  eq_iff_pcmp : ∀ x y, ops.eq x y = true ↔ ops.pcmp x y = some .eq
  eq_symm : ∀ x y, ops.eq x y = ops.eq y x
  eq_trans : ∀ x y z, ops.eq x y = true → ops.eq y z = true → ops.eq x z = true
  pcmp_swap : ∀ x y, ops.pcmp y x = (ops.pcmp x y).map Ordering.swap

theorem lexPartial_eq_iff (ops : FieldOps α) (hl : Lawful ops) (fa fb : List (Val α))
    (hfa : ∀ v ∈ fa, ∃ a, v = .leaf a) (hfb : ∀ v ∈ fb, ∃ a, v = .leaf a)
    (is : List Nat) (his : ∀ i ∈ is, i < fa.length ∧ i < fb.length) :
    (is.all fun i => at2 fa fb i false ops.eq) = true ↔ lexPartial ops fa fb is = some .eq := by
  induction is with
  | nil => simp [lexPartial]
  | cons i is ih =>
    have hi := his i (by simp)
    obtain ⟨x, hx⟩ := hfa fa[i] (List.getElem_mem _)
    obtain ⟨y, hy⟩ := hfb fb[i] (List.getElem_mem _)
    have e1 : at2 fa fb i false ops.eq = ops.eq x y := by
      simp [at2, List.getElem?_eq_getElem hi.1, List.getElem?_eq_getElem hi.2, hx, hy]
    have e2 : at2 fa fb i none ops.pcmp = ops.pcmp x y := by
      simp [at2, List.getElem?_eq_getElem hi.1, List.getElem?_eq_getElem hi.2, hx, hy]
    have ih' := ih (fun j hj => his j (by simp [hj]))
    simp only [List.all_cons, Bool.and_eq_true, e1, lexPartial, e2]
    have hlaw := hl.eq_iff_pcmp x y
    cases hp : ops.pcmp x y with
    | none => simp [hp] at hlaw; simp [hlaw]
    | some o =>
      cases o <;> simp [hp] at hlaw <;> simp [hlaw, ih']

theorem C05_eq_iff_pcmp (ops : FieldOps α) (hl : Lawful ops) (ti : TypeInfo) (it : Item)
    (hinj : ∀ k k', ti.discr k = ti.discr k' → k = k')
    (a b : Val α) (ha : WfVal it a) (hb : WfVal it b) :
    specEq ops it a b = true ↔ specPartialCmp ops ti it a b = some .eq := by
  cases a with
  | adt k fa =>
    cases b with
    | adt k' fb =>
      obtain ⟨da, hda, hla, hfa⟩ := ha
      obtain ⟨db, hdb, hlb, hfb⟩ := hb
      simp only [specEq, specPartialCmp, hda, hdb]
      by_cases hk : k = k'
      · subst hk
        have hdab : db = da := by rw [hda] at hdb; exact (Option.some.inj hdb).symm
        subst hdab
        cases hm : it.markedIncomparable <;> cases hi : db.incomparable <;> simp
        rw [relevantIdx_uniform db .partialOrd .partialEq (by simp [cmpTraits]) (by simp [cmpTraits])]
        have := lexPartial_eq_iff ops hl fa fb hfa hfb (db.relevantIdx .partialEq)
          (fun i hi => by have := relevantIdx_lt' db .partialEq i hi; omega)
        simpa using this
      · have hne : ti.discr k ≠ ti.discr k' := fun h => hk (hinj k k' h)
        have hc : compare (ti.discr k) (ti.discr k') ≠ .eq := fun h => hne (Int.compare_eq_eq.mp h)
        cases hm : it.markedIncomparable <;> cases hi : da.incomparable <;> cases hi' : db.incomparable <;>
          simp [hk, hc]
    | _ => exact hb.elim
  | _ => exact ha.elim

theorem all_eq_symm (ops : FieldOps α) (hl : Lawful ops) (fa fb : List (Val α)) (is : List Nat) :
    (is.all fun i => at2 fa fb i false ops.eq) = (is.all fun i => at2 fb fa i false ops.eq) := by
  congr 1
  funext i
  unfold at2
  cases fa[i]? with
  | none => cases fb[i]? <;> simp
  | some v =>
    cases fb[i]? with
    | none => cases v <;> simp
    | some w => cases v <;> cases w <;> simp [hl.eq_symm]

theorem C05_eq_symm (ops : FieldOps α) (hl : Lawful ops) (it : Item) (a b : Val α)
    (ha : WfVal it a) (hb : WfVal it b) : specEq ops it a b = specEq ops it b a := by
  cases a with
  | adt k fa =>
    cases b with
    | adt k' fb =>
      obtain ⟨da, hda, _, _⟩ := ha
      obtain ⟨db, hdb, _, _⟩ := hb
      simp only [specEq, hda, hdb]
      by_cases hk : k = k'
      · subst hk
        have hdab : db = da := by rw [hda] at hdb; exact (Option.some.inj hdb).symm
        subst hdab
        rw [all_eq_symm ops hl fa fb]
      · have e1 : (k == k') = false := by simpa using hk
        have e2 : (k' == k) = false := by simpa using fun h : k' = k => hk h.symm
        simp only [e1, e2, Bool.false_and]
    | _ => exact hb.elim
  | _ => exact ha.elim

theorem C05_eq_trans (ops : FieldOps α) (hl : Lawful ops) (it : Item) (a b c : Val α)
    (ha : WfVal it a) (hb : WfVal it b) (hc : WfVal it c)
    (h1 : specEq ops it a b = true) (h2 : specEq ops it b c = true) : specEq ops it a c = true := by
  cases a with
  | adt k fa =>
    cases b with
    | adt k' fb =>
      cases c with
      | adt k'' fc =>
        obtain ⟨da, hda, hla, hfa⟩ := ha
        obtain ⟨db, hdb, hlb, hfb⟩ := hb
        obtain ⟨dc, hdc, hlc, hfc⟩ := hc
        simp only [specEq, hda, hdb, Bool.and_eq_true, beq_iff_eq, Bool.not_eq_true', List.all_eq_true] at h1 h2 ⊢
        obtain ⟨⟨hk, hm⟩, hi, hall1⟩ := h1
        obtain ⟨⟨hk', _⟩, _, hall2⟩ := h2
        subst hk hk'
        have hdab : db = da := by rw [hda] at hdb; exact (Option.some.inj hdb).symm
        subst hdab
        have hdcb : db = dc := by rw [hda] at hdc; exact Option.some.inj hdc
        subst hdcb
        refine ⟨⟨rfl, hm⟩, hi, ?_⟩
        intro i hi'
        have hlt := relevantIdx_lt' db .partialEq i hi'
        obtain ⟨x, hx⟩ := hfa fa[i] (List.getElem_mem _)
        obtain ⟨y, hy⟩ := hfb fb[i] (List.getElem_mem _)
        obtain ⟨z, hz⟩ := hfc (fc[i]'(by omega)) (List.getElem_mem _)
        have e1 := hall1 i hi'
        have e2 := hall2 i hi'
        simp only [at2, List.getElem?_eq_getElem (show i < fa.length by omega),
          List.getElem?_eq_getElem (show i < fb.length by omega),
          List.getElem?_eq_getElem (show i < fc.length by omega), hx, hy, hz] at e1 e2 ⊢
        exact hl.eq_trans x y z e1 e2
      | _ => exact hc.elim
    | _ => exact hb.elim
  | _ => exact ha.elim

theorem lexPartial_swap (ops : FieldOps α) (hl : Lawful ops) (fa fb : List (Val α))
    (hfa : ∀ v ∈ fa, ∃ a, v = .leaf a) (hfb : ∀ v ∈ fb, ∃ a, v = .leaf a)
    (is : List Nat) (his : ∀ i ∈ is, i < fa.length ∧ i < fb.length) :
    lexPartial ops fb fa is = (lexPartial ops fa fb is).map Ordering.swap := by
  induction is with
  | nil => simp [lexPartial, Ordering.swap]
  | cons i is ih =>
    have hi := his i (by simp)
    obtain ⟨x, hx⟩ := hfa fa[i] (List.getElem_mem _)
    obtain ⟨y, hy⟩ := hfb fb[i] (List.getElem_mem _)
    have e1 : at2 fa fb i none ops.pcmp = ops.pcmp x y := by
      simp [at2, List.getElem?_eq_getElem hi.1, List.getElem?_eq_getElem hi.2, hx, hy]
    have e2 : at2 fb fa i none ops.pcmp = ops.pcmp y x := by
      simp [at2, List.getElem?_eq_getElem hi.1, List.getElem?_eq_getElem hi.2, hx, hy]
    simp only [lexPartial, e1, e2, hl.pcmp_swap x y]
    cases hp : ops.pcmp x y with
    | none => simp
    | some o => cases o <;> simp [Ordering.swap, ih (fun j hj => his j (by simp [hj]))]

/-- `a < b ↔ b > a`, as `partial_cmp(b, a) = partial_cmp(a, b).map(reverse)`. -/
theorem C05_lt_gt (ops : FieldOps α) (hl : Lawful ops) (ti : TypeInfo) (it : Item)
    (a b : Val α) (ha : WfVal it a) (hb : WfVal it b) :
    specPartialCmp ops ti it b a = (specPartialCmp ops ti it a b).map Ordering.swap := by
  cases a with
  | adt k fa =>
    cases b with
    | adt k' fb =>
      obtain ⟨da, hda, hla, hfa⟩ := ha
      obtain ⟨db, hdb, hlb, hfb⟩ := hb
      simp only [specPartialCmp, hda, hdb]
      by_cases hk : k = k'
      · subst hk
        have hdab : db = da := by rw [hda] at hdb; exact (Option.some.inj hdb).symm
        subst hdab
        cases hm : it.markedIncomparable <;> cases hi : db.incomparable <;> simp
        exact lexPartial_swap ops hl fa fb hfa hfb _
          (fun i hi => by have := relevantIdx_lt' db .partialOrd i hi; omega)
      · have hk' : ¬ k' = k := fun h => hk h.symm
        have hsw : compare (ti.discr k') (ti.discr k) = (compare (ti.discr k) (ti.discr k')).swap := by
          rw [← Int.compare_swap]
        cases hm : it.markedIncomparable <;> cases hi : da.incomparable <;> cases hi' : db.incomparable <;>
          simp [hk, hk', hsw]
    | _ => exact hb.elim
  | _ => exact ha.elim

/-- `a == b` ⇒ same variant and every *hashed* field is pairwise `==`. -/
theorem C05_eq_hash (ops : FieldOps α) (it : Item) (k k' : Nat) (fa fb : List (Val α)) (d : Data)
    (hd : it.variants[k]? = some d) (h : specEq ops it (.adt k fa) (.adt k' fb) = true) :
    k = k' ∧ ∀ i ∈ d.relevantIdx .hash, at2 fa fb i false ops.eq = true := by
  simp only [specEq, hd, Bool.and_eq_true, beq_iff_eq, Bool.not_eq_true', List.all_eq_true] at h
  refine ⟨h.1.1, fun i hi => h.2.2 i (relevantIdx_hash_subset d .partialEq (by simp [cmpTraits]) i hi)⟩

end DW

namespace DW

variable {α : Type}

/-- The part of std's `PartialOrd` contract that transitivity needs: `<` is
transitive and `==` (as `Some(Equal)`) is a congruence for `partial_cmp`. -/
structure LawfulOrd (ops : FieldOps α) : Prop where
  lt_trans : ∀ x y z, ops.pcmp x y = some .lt → ops.pcmp y z = some .lt → ops.pcmp x z = some .lt
  eq_left : ∀ x y z, ops.pcmp x y = some .eq → ops.pcmp x z = ops.pcmp y z
  eq_right : ∀ x y z, ops.pcmp y z = some .eq → ops.pcmp x z = ops.pcmp x y

theorem lexPartial_lt_trans (ops : FieldOps α) (hl : LawfulOrd ops) (fa fb fc : List (Val α))
    (hfa : ∀ v ∈ fa, ∃ a, v = .leaf a) (hfb : ∀ v ∈ fb, ∃ a, v = .leaf a) (hfc : ∀ v ∈ fc, ∃ a, v = .leaf a)
    (is : List Nat) (his : ∀ i ∈ is, i < fa.length ∧ i < fb.length ∧ i < fc.length)
    (h1 : lexPartial ops fa fb is = some .lt) (h2 : lexPartial ops fb fc is = some .lt) :
    lexPartial ops fa fc is = some .lt := by
  induction is with
  | nil => simp [lexPartial] at h1
  | cons i is ih =>
    have hi := his i (by simp)
    obtain ⟨x, hx⟩ := hfa fa[i] (List.getElem_mem _)
    obtain ⟨y, hy⟩ := hfb fb[i] (List.getElem_mem _)
    obtain ⟨z, hz⟩ := hfc fc[i] (List.getElem_mem _)
    have e1 : at2 fa fb i none ops.pcmp = ops.pcmp x y := by
      simp [at2, List.getElem?_eq_getElem hi.1, List.getElem?_eq_getElem hi.2.1, hx, hy]
    have e2 : at2 fb fc i none ops.pcmp = ops.pcmp y z := by
      simp [at2, List.getElem?_eq_getElem hi.2.1, List.getElem?_eq_getElem hi.2.2, hy, hz]
    have e3 : at2 fa fc i none ops.pcmp = ops.pcmp x z := by
      simp [at2, List.getElem?_eq_getElem hi.1, List.getElem?_eq_getElem hi.2.2, hx, hz]
    have ih' := ih (fun j hj => his j (by simp [hj]))
    simp only [lexPartial, e1, e2, e3] at h1 h2 ⊢
    cases hp1 : ops.pcmp x y with
    | none => simp [hp1] at h1
    | some o1 =>
      cases hp2 : ops.pcmp y z with
      | none => simp [hp2] at h2
      | some o2 =>
        rw [hp1] at h1
        rw [hp2] at h2
        cases o1 with
        | gt => simp at h1
        | lt =>
          cases o2 with
          | gt => simp at h2
          | lt => rw [hl.lt_trans x y z hp1 hp2]
          | eq => rw [hl.eq_right x y z hp2, hp1]
        | eq =>
          cases o2 with
          | gt => simp at h2
          | lt => rw [hl.eq_left x y z hp1, hp2]
          | eq =>
            rw [hl.eq_left x y z hp1, hp2]
            exact ih' h1 h2

/-- Transitivity of `<` on the derived `partial_cmp` (std contract of `PartialOrd`),
for lawful field impls and any accepted skip / incomparable setup. -/
theorem C05_lt_trans (ops : FieldOps α) (hl : LawfulOrd ops) (ti : TypeInfo) (it : Item)
    (a b c : Val α) (ha : WfVal it a) (hb : WfVal it b) (hc : WfVal it c)
    (h1 : specPartialCmp ops ti it a b = some .lt) (h2 : specPartialCmp ops ti it b c = some .lt) :
    specPartialCmp ops ti it a c = some .lt := by
  cases a with
  | adt k fa =>
    cases b with
    | adt k' fb =>
      cases c with
      | adt k'' fc =>
        obtain ⟨da, hda, hla, hfa⟩ := ha
        obtain ⟨db, hdb, hlb, hfb⟩ := hb
        obtain ⟨dc, hdc, hlc, hfc⟩ := hc
        simp only [specPartialCmp, hda, hdb, hdc] at h1 h2 ⊢
        by_cases hinc1 : (it.markedIncomparable || da.incomparable || db.incomparable) = true
        · simp [hinc1] at h1
        by_cases hinc2 : (it.markedIncomparable || db.incomparable || dc.incomparable) = true
        · simp [hinc2] at h2
        have hinc3 : (it.markedIncomparable || da.incomparable || dc.incomparable) = false := by
          simp only [Bool.or_eq_true, not_or, Bool.not_eq_true] at hinc1 hinc2
          simp [hinc1.1.1, hinc1.1.2, hinc2.2]
        simp only [hinc1, hinc2, hinc3, Bool.false_eq_true, ↓reduceIte] at h1 h2 ⊢
        by_cases hk1 : k = k'
        · subst hk1
          have hdab : db = da := by rw [hda] at hdb; exact (Option.some.inj hdb).symm
          subst hdab
          by_cases hk2 : k = k''
          · subst hk2
            have hdcb : dc = db := by rw [hda] at hdc; exact (Option.some.inj hdc).symm
            subst hdcb
            simp only [↓reduceIte] at h1 h2 ⊢
            exact lexPartial_lt_trans ops hl fa fb fc hfa hfb hfc _
              (fun i hi => by have := relevantIdx_lt' dc .partialOrd i hi; omega) h1 h2
          · simp only [hk2, ↓reduceIte] at h2 ⊢
            exact h2
        · by_cases hk2 : k' = k''
          · subst hk2
            simp only [hk1, ↓reduceIte] at h1 ⊢
            exact h1
          · simp only [hk1, hk2, ↓reduceIte, Option.some.injEq] at h1 h2
            have l1 : ti.discr k < ti.discr k' := Int.compare_eq_lt.mp h1
            have l2 : ti.discr k' < ti.discr k'' := Int.compare_eq_lt.mp h2
            have hk3 : ¬ k = k'' := by
              intro h; subst h; omega
            simp only [hk3, ↓reduceIte, Option.some.injEq]
            exact Int.compare_eq_lt.mpr (by omega)
      | _ => exact hc.elim
    | _ => exact hb.elim
  | _ => exact ha.elim

/-- The premises of `C05_lt_trans` are satisfiable: a two-field struct over `Nat` leaves. -/
example : LawfulOrd (α := Nat) ⟨fun x y => x == y, fun x y => some (compare x y), compare, id, fun _ _ => 0⟩ := by
  constructor
  · intro x y z h1 h2
    simp only [Option.some.injEq] at h1 h2 ⊢
    exact Nat.compare_eq_lt.mpr (by have := Nat.compare_eq_lt.mp h1; have := Nat.compare_eq_lt.mp h2; omega)
  · intro x y z h
    simp only [Option.some.injEq] at h
    have := Nat.compare_eq_eq.mp h; subst this; rfl
  · intro x y z h
    simp only [Option.some.injEq] at h
    have := Nat.compare_eq_eq.mp h; subst this; rfl

end DW
