import DW.Props.C02
import DW.Props.C04
import DW.Props.C05
import DW.Props.C07
import DW.Props.C12
import DW.Props.C13
import DW.Props.C15

/-!
# The hypotheses of the property theorems are satisfiable

An implication whose premises nothing meets proves nothing.  This file exhibits, for the premises that recur in the
property theorems, one concrete non-trivial object that meets them:

* a raw item over the attribute alphabet that the validation accepts (`Input.fromInput .. = .ok ..`, `RawOK`), so that
  the theorems quantified over *accepted* items (`C02_well_typed`, `C11_validated`, `C15_*`, `C16_*`) speak about
  something: a three-variant `#[repr(u8)]` enum with an explicit discriminant, an `incomparable` unit variant, a braced
  variant, a bound list and three traits;
* its IR is well-formed, union-free, and has well-formed values (`Item.WF`, `WfVal`);
* a semantic context whose type information agrees with the item (`ItemTiOK`: discriminant values by the reference's
  rule, representation, injectivity) and whose sibling `Clone` impl is the identity (`CloneOK`);
* lawful field operations (`Lawful`, `LawfulOrd` in `C05.lean`).
-/

namespace DW
namespace NonVacuous

def idT : Ident := ⟨"T", false⟩
def mp (s : String) : MPath := ⟨false, [⟨s, false⟩], none⟩

/-- `#[derive_where(Clone, PartialEq, PartialOrd; T)] #[repr(u8)]
enum E<T> { A(T) = 3, #[derive_where(incomparable)] B, C { x: T } }` -/
def raw : RawItem :=
  { attrs := [.dw (.list [.ofMeta (.path (mp "Clone")), .comma, .ofMeta (.path (mp "PartialEq")), .comma,
                          .ofMeta (.path (mp "PartialOrd"))]
                   (some [.gen (.noBound ["T"] (some idT))])),
              .repr (.idents [⟨"u8", false⟩])]
    kind := .enum_
    ident := ⟨"E", false⟩
    generics := ⟨[.type idT [] false], [], false⟩
    variants := [⟨[], ⟨"A", false⟩, .tuple, [⟨[], .unnamed 0, ["T"]⟩], some ⟨["3"], 3⟩⟩,
                 ⟨[.list [.ofMeta (.path (mp "incomparable"))] none], ⟨"B", false⟩, .unit, [], none⟩,
                 ⟨[], ⟨"C", false⟩, .named, [⟨[], .named ⟨"x", false⟩, ["T"]⟩], none⟩] }

def cfg : Cfg := ⟨false, false, false, false⟩

/-- The validation accepts it … -/
theorem accepted : ∃ inp, Input.fromInput cfg raw = .ok inp ∧ inp.item.variants.length = 3 ∧
    inp.deriveWheres.length = 1 := ⟨_, rfl, rfl, rfl⟩

/-- … and it is a raw item in the sense of `RawOK` (well-formed `#[repr]`, no union shapes). -/
theorem rawOK : RawOK raw := by
  refine ⟨?_, ?_, ?_⟩
  · intro a ha
    simp [raw] at ha
    rcases ha with rfl | rfl <;> (intro h; cases h)
  · intro h; exact absurd rfl h
  · intro v hv
    simp [raw] at hv
    rcases hv with rfl | rfl | rfl <;> simp

/-- The validated input. -/
def inp : Input :=
  match Input.fromInput cfg raw with
  | .ok i => i
  | .error _ => default

theorem inp_ok : Input.fromInput cfg raw = .ok inp := rfl

def it : Item := inp.item

/-- The macro chose `DataRepr(u8)` and kept the explicit discriminant of the first variant. -/
theorem it_shape : ∃ id inc a b c, it = .enum_ (.dataRepr .u8) id inc [a, b, c] ∧
    a.discriminant = some ⟨["3"], 3⟩ ∧ b.incomparable = true ∧ a.fields.length = 1 ∧ c.shape = .named :=
  ⟨_, _, _, _, _, rfl, rfl, rfl, rfl, rfl⟩

/-- rustc's view of `E`: `repr(u8)`, discriminants 3, 4, 5. -/
def cx : SemCtx Nat where
  ops := ⟨fun x y => x == y, fun x y => some (compare x y), compare, id, fun _ _ => 0⟩
  ti := ⟨some .u8, fun k => [3, 4, 5].getD k 0, false⟩
  userDiscr := userDiscrOf it.variants
  impls := fun f args => match f, args with
    | .clone, [v] => some v
    | .cmp, [_, _] => some (.ord .eq)
    | .zeroize, [_] => some .unit
    | _, _ => none

theorem tiOK : ItemTiOK cx cfg it := by
  refine ⟨⟨rfl, ?_, ?_, ?_, ?_⟩, fun _ _ h => by cases h⟩
  · intro _ k hk
    match k, hk with
    | 0, _ => rfl
    | 1, _ => rfl
    | 2, _ => rfl
  · intro h; rcases h with h | ⟨r, h⟩ <;> cases h
  · intro r h; rcases h with h | h <;> cases h; rfl
  · intro k k' hk hk' h
    match k, k', hk, hk', h with
    | 0, 0, _, _, _ => rfl
    | 1, 1, _, _, _ => rfl
    | 2, 2, _, _, _ => rfl
    | 0, 1, _, _, h => exact absurd h (by decide)
    | 0, 2, _, _, h => exact absurd h (by decide)
    | 1, 0, _, _, h => exact absurd h (by decide)
    | 1, 2, _, _, h => exact absurd h (by decide)
    | 2, 0, _, _, h => exact absurd h (by decide)
    | 2, 1, _, _, h => exact absurd h (by decide)

theorem wf : it.WF ∧ ∀ d ∈ it.variants, d.shape ≠ .union := by
  have hok := Input.fromInput_ok cfg raw inp inp_ok
  exact ⟨hok.wf, hok.shapes (by decide) rawOK.shapes⟩

/-- Two well-formed values: `A(7)` and `C { x: 2 }`. -/
theorem vals : WfVal it (.adt 0 [.leaf (7 : Nat)]) ∧ WfVal it (.adt 2 [.leaf (2 : Nat)]) :=
  ⟨⟨_, rfl, rfl, by simp⟩, ⟨_, rfl, rfl, by simp⟩⟩

theorem cloneOK (dw : DeriveWhere) (v : Val Nat) : CloneOK cx dw v := fun _ => rfl

/-- `C04_ord_refines` applied to it: the generated `partial_cmp` of `A(7)` and `C { x: 2 }` evaluates to the
specification's answer, which is `Some(Less)` because 3 < 5. -/
example : ∃ dw, dw ∈ inp.deriveWheres ∧ ∃ extra,
    runMethod cx (ordMethodBody cfg it dw .partialOrd) (.adt 0 [.leaf 7]) (some (.adt 2 [.leaf 2])) =
      .ok (.optOrd (some .lt), extra) := by
  obtain ⟨dw, hdw⟩ : ∃ dw, inp.deriveWheres = [dw] := ⟨_, rfl⟩
  refine ⟨dw, by simp [hdw], ?_⟩
  obtain ⟨extra, _, h⟩ := C04_ord_refines cfg it dw .partialOrd (Or.inl rfl)
    (by have : dw.shortcut = false := by
          have := List.head_eq_of_cons_eq hdw.symm
          subst this; rfl
        simp [this])
    cx wf.1 wf.2 tiOK (by intro h; cases h) _ _ vals.1 vals.2 (cloneOK _ _) (cloneOK _ _)
  exact ⟨extra, by rw [h]; rfl⟩

/-- `C03_eq` / `C07_eq_eval` applied to it: `A(7) == A(7)` is true, `B == B` is false (incomparable), through the
generated `eq`. -/
example :
    runMethod cx (eqMethodBody cfg it) (.adt 0 [.leaf 7]) (some (.adt 0 [.leaf 7])) = .ok (.bool true, []) ∧
    runMethod cx (eqMethodBody cfg it) (.adt 1 []) (some (.adt 1 [])) = .ok (.bool false, []) := by
  constructor
  · rw [C03_eq cfg it cx wf.1 wf.2 _ _ vals.1 vals.1]; rfl
  · exact C07_eq_eval cfg it cx wf.1 wf.2 1 1 [] [] ⟨_, rfl, rfl, by simp⟩ ⟨_, rfl, rfl, by simp⟩
      (Or.inr (Or.inl ⟨_, rfl, rfl⟩))

/-- `C12_no_ub_ord` applied to it: the pointer read of the tag (`DataRepr(u8)`, default configuration) is defined. -/
example : ∃ dw, dw ∈ inp.deriveWheres ∧ ∃ v l,
    runMethod cx (ordMethodBody cfg it dw .partialOrd) (.adt 2 [.leaf 2]) (some (.adt 0 [.leaf 7])) = .ok (v, l) := by
  obtain ⟨dw, hdw⟩ : ∃ dw, inp.deriveWheres = [dw] := ⟨_, rfl⟩
  refine ⟨dw, by simp [hdw], ?_⟩
  exact C12_no_ub_ord cfg it dw .partialOrd (Or.inl rfl)
    (by have : dw.shortcut = false := by
          have := List.head_eq_of_cons_eq hdw.symm
          subst this; rfl
        simp [this])
    cx wf.1 wf.2 tiOK (by intro h; cases h) _ _ vals.2 vals.1 (cloneOK _ _) (cloneOK _ _)

theorem implsOK : ImplsOK it cx :=
  ⟨fun a v h ha => by
      have : v = a := by simpa [cx] using h.symm
      exact this ▸ ha,
   fun a b v h => ⟨.eq, by simpa [cx] using h.symm⟩,
   fun a v h => by simpa [cx] using h.symm⟩

theorem cxTotal : CxTotal it cx := by
  refine ⟨?_, ?_, fun a _ => rfl, fun a b _ _ => rfl, fun a _ => rfl⟩
  · intro k d hd hdisc
    show ((userDiscrOf it.variants) k).isSome = true
    have hd' : it.variants[k]? = some d := hd
    simp only [userDiscrOf, hd', Option.bind_some, Option.isSome_map]
    exact hdisc
  · intro h; exact absurd h (by decide)

/-- `C02_never_stuck` applied to it. -/
example : ∀ dw ∈ inp.deriveWheres, ∀ t ∈ dw.traits, ∀ im ∈ generateImpl cfg inp dw t, ∀ m ∈ im.methods,
    runMethod cx m.body (.adt 0 [.leaf 7]) (some (.adt 2 [.leaf 2])) ≠ .stuck :=
  fun dw hdw t ht im him m hm =>
    C02_never_stuck cfg raw rawOK inp inp_ok dw hdw t ht cx implsOK cxTotal im him m hm _ _ vals.1
      (fun _ => ⟨_, rfl, vals.2⟩)

/-- `C02_preservation` applied to it: whatever the generated `partial_cmp` returns for `A(7)` and `C { x: 2 }` is an
`Option<Ordering>`. -/
example : ∀ dw ∈ inp.deriveWheres, ∀ t ∈ dw.traits, ∀ im ∈ generateImpl cfg inp dw t, ∀ m ∈ im.methods,
    m.sig = .partialCmp → ∀ v l, runMethod cx m.body (.adt 0 [.leaf 7]) (some (.adt 2 [.leaf 2])) = .ok (v, l) →
      ∃ o, v = .optOrd o := by
  intro dw hdw t ht im him m hm hs v l hrun
  have := C02_preservation cfg raw rawOK inp inp_ok dw hdw t ht cx implsOK im him m hm _ _ vals.1
    (fun _ => ⟨_, rfl, vals.2⟩) v l hrun
  simpa [hs, Sig.ret, ValOK] using this

/-- `C02_well_typed` applied to it. -/
example : ∀ dw ∈ inp.deriveWheres, ∀ t ∈ dw.traits, ∀ im ∈ generateImpl cfg inp dw t, ∀ m ∈ im.methods,
    m.wellTyped inp.item = true :=
  fun dw hdw t ht => C02_well_typed cfg raw rawOK inp inp_ok dw hdw t ht

end NonVacuous
end DW
