import DW.Props.C03
import DW.Props.C04
import DW.Props.C12

/-!
# C13 — feature flags change strategy, never observable results

The specifications (`specEq`, `specPartialCmp`, `specCmp`, `specHashLog`, …) have
no `Cfg` parameter, and the refinement theorems (C03, C04, C08–C11) hold for
every `Cfg`; so every derived operation evaluates to the same result whatever
the feature set:

* `C13_eq_cfg_independent`, `C13_ord_cfg_independent`: the only two generators
  that read `safe`/`nightly` agree across configurations on all values.
* `C13_untouched_traits`: for every other std trait the generated method is
  *syntactically identical* in all configurations; `C13_zeroize_inert`: the
  zeroize features do not enter the impls of the std traits at all.
* `C13_forgetDiscr`: under `nightly` the IR lacks the explicit discriminant
  expressions; the specifications do not read them.
-/

namespace DW

variable {α : Type}

theorem C13_eq_cfg_independent (c1 c2 : Cfg) (it : Item) (cx : SemCtx α) (hwf : it.WF)
    (hnu : ∀ d ∈ it.variants, d.shape ≠ .union) (a b : Val α) (ha : WfVal it a) (hb : WfVal it b) :
    runMethod cx (eqMethodBody c1 it) a (some b) = runMethod cx (eqMethodBody c2 it) a (some b) := by
  rw [C03_eq c1 it cx hwf hnu a b ha hb, C03_eq c2 it cx hwf hnu a b ha hb]

/-- The value of a run. -/
def Out.value {β} : Out α (Val α × β) → Option (Val α)
  | .ok (v, _) => some v
  | _ => none

theorem C13_ord_cfg_independent (c1 c2 : Cfg) (it : Item) (dw : DeriveWhere) (t : Trait)
    (ht : t = .partialOrd ∨ t = .ord) (hns : (dw.shortcut && dw.contains .ord) = false)
    (cx : SemCtx α) (hwf : it.WF) (hnu : ∀ d ∈ it.variants, d.shape ≠ .union)
    (hti1 : ItemTiOK cx c1 it) (hti2 : ItemTiOK cx c2 it)
    (hord : t = .ord → it.markedIncomparable = false ∧ ∀ d ∈ it.variants, d.incomparable = false)
    (a b : Val α) (ha : WfVal it a) (hb : WfVal it b)
    (hca : CloneOK cx dw a) (hcb : CloneOK cx dw b) :
    (runMethod cx (ordMethodBody c1 it dw t) a (some b)).value =
      (runMethod cx (ordMethodBody c2 it dw t) a (some b)).value := by
  obtain ⟨_, _, h1⟩ := C04_ord_refines c1 it dw t ht hns cx hwf hnu hti1 hord a b ha hb hca hcb
  obtain ⟨_, _, h2⟩ := C04_ord_refines c2 it dw t ht hns cx hwf hnu hti2 hord a b ha hb hca hcb
  rw [h1, h2]
  rfl

/-- Only `PartialEq`, `PartialOrd`, `Ord` (and the `Drop` of `ZeroizeOnDrop`)
depend on the feature configuration. -/
theorem C13_untouched_traits (c1 c2 : Cfg) (it : Item) (dw : DeriveWhere) (t : Trait)
    (ht : t ≠ .partialEq ∧ t ≠ .partialOrd ∧ t ≠ .ord ∧ t ≠ .zeroizeOnDrop) :
    generateBody c1 it dw t = generateBody c2 it dw t := by
  cases t <;> simp_all [generateBody]

/-- The zeroize features do not enter the expansion of any std trait. -/
theorem C13_zeroize_inert (c1 c2 : Cfg) (hs : c1.safe = c2.safe) (hn : c1.nightly = c2.nightly)
    (inp : Input) (dw : DeriveWhere) (t : DeriveTrait)
    (ht : t.trait ≠ .zeroizeOnDrop) :
    generateImpl c1 inp dw t = generateImpl c2 inp dw t := by
  obtain ⟨s1, n1, z1, d1⟩ := c1
  obtain ⟨s2, n2, z2, d2⟩ := c2
  simp only at hs hn
  subst hs hn
  have hb : generateBody ⟨s1, n1, z1, d1⟩ inp.item dw t.trait =
      generateBody ⟨s1, n1, z2, d2⟩ inp.item dw t.trait := by
    cases htt : t.trait
    all_goals first
      | rfl
      | exact absurd htt ht
  simp [generateImpl, hb, ht]

/-- Forget the explicit discriminant expressions (what `nightly` does). -/
def Data.forgetDiscr (d : Data) : Data := { d with discriminant := none }

def Item.forgetDiscr : Item → Item
  | .enum_ _ id inc vs => .enum_ .single id inc (vs.map Data.forgetDiscr)
  | .item d => .item d.forgetDiscr

theorem forgetDiscr_variants (it : Item) : it.forgetDiscr.variants = it.variants.map Data.forgetDiscr := by
  cases it <;> simp [Item.forgetDiscr, Item.variants]

@[simp] theorem relevantIdx_forgetDiscr (d : Data) (t : Trait) :
    d.forgetDiscr.relevantIdx t = d.relevantIdx t := by
  simp [Data.forgetDiscr, Data.relevantIdx, Data.relevant]

@[simp] theorem forgetDiscr_incomparable (d : Data) : d.forgetDiscr.incomparable = d.incomparable := rfl
@[simp] theorem forgetDiscr_isVariant (d : Data) : d.forgetDiscr.isVariant = d.isVariant := rfl

/-- The specifications do not read the explicit discriminant expressions nor
the macro's `Discriminant` classification. -/
theorem C13_forgetDiscr (ops : FieldOps α) (ti : TypeInfo) (it : Item) (a b : Val α) :
    specEq ops it.forgetDiscr a b = specEq ops it a b ∧
    specPartialCmp ops ti it.forgetDiscr a b = specPartialCmp ops ti it a b ∧
    specCmp ops ti it.forgetDiscr a b = specCmp ops ti it a b ∧
    specHashLog it.forgetDiscr a = specHashLog it a := by
  have hm : it.forgetDiscr.markedIncomparable = it.markedIncomparable := by
    cases it <;> simp [Item.forgetDiscr, Item.markedIncomparable]
  cases a with
  | adt k fa =>
    cases b with
    | adt k' fb =>
      cases h1 : it.variants[k]? <;> cases h2 : it.variants[k']? <;>
        simp [specEq, specPartialCmp, specCmp, specHashLog, forgetDiscr_variants, hm, h1, h2] <;> rfl
    | _ =>
      cases h1 : it.variants[k]? <;>
        simp [specEq, specPartialCmp, specCmp, specHashLog, forgetDiscr_variants, h1] <;> rfl
  | _ => simp [specEq, specPartialCmp, specCmp, specHashLog]

end DW
