import DW.Lemmas.NoPanic
import DW.Gen
import DW.Stage1

/-!
# C16 — failures are clean diagnostics: no panic, and the item stays defined

* `C16_no_panic_stage2`: for every feature configuration and every raw item
  over the model's attribute alphabet (arbitrary element sequences inside
  `#[derive_where(..)]` on items, variants and fields; `#[repr]` attributes that
  are lists, as rustc requires), `derive_where_actual` — validation followed by
  generation — ends in impls or an ordinary error, never in a panic: the
  `assert!(!input.is_empty())` of `DeriveWhere::from_attr`, the
  `unreachable!("unexpected trait for union")` of eight generators and the
  `Discriminant::Single => unreachable!` of `build_ord_signature` are
  unreachable from validated input.
* Stage 1 (`C16_stage1_*`): see `DW/Stage1.lean`.
-/

namespace DW

theorem Discriminant.parse_single (attrs : List RawAttr) (vs : List RawVariant)
    (h : Discriminant.parse attrs vs = .ok .single) : vs.length = 1 := by
  unfold Discriminant.parse at h
  split at h
  · rename_i hl; simpa using hl
  · obtain ⟨r, _, h2⟩ := bind_ok h
    simp only at h2
    split at h2
    · split at h2 <;> cases h2
    · split at h2
      · cases h2
      · split at h2 <;> cases h2

/-- Not `nightly`: `Discriminant::Single` only for one-variant enums. -/
theorem fromInput_single (c : Cfg) (raw : RawItem) (inp : Input) (h : Input.fromInput c raw = .ok inp)
    (hn : c.nightly = false) (id : Ident) (inc : Bool) (vs : List Data)
    (hitem : inp.item = .enum_ .single id inc vs) : vs.length = 1 := by
  unfold Input.fromInput at h
  obtain ⟨attr, _, h1⟩ := bind_ok h
  obtain ⟨r, hr, h2⟩ := bind_ok h1
  split at h2
  · cases h2
  · simp only [Except.ok.injEq] at h2
    subst h2
    simp only at hitem
    unfold Input.buildItem at hr
    simp only at hr
    split at hr
    · obtain ⟨disc, hd, h3⟩ := bind_ok hr
      obtain ⟨variants, hvs, h4⟩ := bind_ok h3
      obtain ⟨found, _, h5⟩ := bind_ok h4
      split at h5
      · cases h5
      · split at h5
        · cases h5
        · simp only [pure, Except.pure, Except.ok.injEq] at h5
          rw [← h5] at hitem
          simp only [Item.enum_.injEq] at hitem
          obtain ⟨hdisc, _, _, hv⟩ := hitem
          subst hv hdisc
          simp only [hn, Bool.false_eq_true, if_false] at hd
          have := Discriminant.parse_single _ _ hd
          rw [(Data.fromVariants_ok c _ _ _ hvs).1]
          exact this
    · split at hr
      · obtain ⟨d, _, h3⟩ := bind_ok hr
        simp only [pure, Except.pure, Except.ok.injEq] at h3
        rw [← h3] at hitem
        cases hitem
      · cases hr

theorem genPanic_none (c : Cfg) (raw : RawItem) (hraw : RawOK raw) (inp : Input)
    (h : Input.fromInput c raw = .ok inp) (dw : DeriveWhere) (hdw : dw ∈ inp.deriveWheres)
    (t : DeriveTrait) (ht : t ∈ dw.traits) : genPanic c inp.item dw t.trait = none := by
  have hok := Input.fromInput_ok c raw inp h
  -- a union only derives Clone / Copy
  have hunion : isUnion inp.item = true → t.trait = .clone ∨ t.trait = .copy := by
    intro hu
    have hk : raw.kind = .union_ := by
      apply Classical.byContradiction
      intro hne
      have hs := hok.shapes hne hraw.shapes
      cases hitem : inp.item with
      | enum_ => simp [hitem, isUnion] at hu
      | item d =>
        simp only [hitem, isUnion, beq_iff_eq] at hu
        exact hs d (by simp [hitem, Item.variants]) hu
    have := hok.union dw hdw t ht hk
    cases htt : t.trait <;> simp_all [Trait.supportsUnion]
  have hsingle : genPanic.ordSinglePanic c inp.item = none := by
    unfold genPanic.ordSinglePanic
    split
    · rename_i _ id inc vs hitem
      split
      · rename_i hc
        simp only [Bool.and_eq_true, Bool.not_eq_true', decide_eq_true_eq] at hc
        have := fromInput_single c raw inp h hc.1.1.1 id inc vs hitem
        omega
      · rfl
    · rfl
  cases hu : isUnion inp.item
  · cases htt : t.trait <;> simp [genPanic, hu, hsingle]
  · rcases hunion hu with h1 | h1 <;> simp [genPanic, h1]

theorem NoPanic.bind' {α β} {x : R α} {f : α → R β} (hx : NoPanic x)
    (hf : ∀ a, x = .ok a → NoPanic (f a)) : NoPanic (x >>= f) := by
  cases x with
  | error e =>
    intro s h
    have : (Except.error e : R β) = .error (.panic s) := h
    exact hx s (by cases this; rfl)
  | ok a => exact hf a rfl

/-- `derive_where_actual` never panics. -/
theorem C16_no_panic_stage2 (c : Cfg) (raw : RawItem) (hraw : RawOK raw) : NoPanic (deriveWhere c raw) := by
  unfold deriveWhere
  apply NoPanic.bind' (Input.fromInput_np c raw hraw)
  intro inp hinp
  have hnone : (inp.deriveWheres.findSome? fun dw =>
      dw.traits.findSome? fun t => genPanic c inp.item dw t.trait) = none := by
    rw [List.findSome?_eq_none_iff]
    intro dw hdw
    rw [List.findSome?_eq_none_iff]
    intro t ht
    exact genPanic_none c raw hraw inp hinp dw hdw t ht
  simp only [hnone]
  exact NoPanic.ok _

end DW

namespace DW

theorem findCrate_noPanic : ∀ (attrs : List RawAttr) (acc : Option MPath) (e : Err),
    findCrate attrs acc = .error e → e.isPanic = false := by
  intro attrs
  induction attrs with
  | nil => intro acc e h; cases h
  | cons a attrs ih =>
    intro acc e h
    cases a with
    | dw b =>
      simp only [findCrate] at h
      repeat' split at h
      all_goals first | (cases h; rfl) | exact ih _ _ h | skip
      all_goals (
        rename_i v _ _ _ _ heq
        cases h
        cases v <;> simp at heq <;> (subst heq; rfl))
    | dwQualified _ _ => exact ih _ _ h
    | repr _ => exact ih _ _ h
    | bare _ => exact ih _ _ h
    | other => exact ih _ _ h

/-- What the user's crate receives from the whole pipeline (attribute macro, then derive macro). -/
inductive PipelineOut where
  /-- the item (forwarded tokens) plus the impls -/
  | expanded (item : Toks) (impls : List (DeriveTrait × List Impl))
  /-- the item and one `compile_error!` carrying `e`'s message -/
  | rejected (e : Err) (item : Toks)

/-- `derive_where` followed by `derive_where_actual` on the forwarded item. -/
def pipeline (c : Cfg) (raw : RawItem) (segs : List Seg) : PipelineOut :=
  match stage1 raw segs with
  | .failed e item => .rejected e item
  | .forward t =>
    match deriveWhere c raw with
    | .ok (_, impls) => .expanded t impls
    | .error e => .rejected e t       -- a derive is additive: the item it was applied to stays

/-- The tokens of the item outside its `#[derive_where ..]` attributes, in order. -/
def itemProper (segs : List Seg) : Toks :=
  segs.flatMap fun s => match s with
    | .attr true _ => []
    | s => s.all

/-- `l` occurs in `m` as a subsequence of blocks: `m` is `l` with token runs inserted. -/
inductive Interleaved : List Seg → Toks → Prop where
  | nil (extra : Toks) : Interleaved [] extra
  | keep (s : Seg) (rest : List Seg) (pre : Toks) (m : Toks) : Interleaved rest m → Interleaved (s :: rest) (pre ++ s.all ++ m)

theorem Interleaved.append_all (a : List Seg) (m : Toks) (rest : List Seg) (h : Interleaved rest m) :
    Interleaved (a ++ rest) (a.flatMap Seg.all ++ m) := by
  induction a with
  | nil => simpa using h
  | cons s a ih =>
    have := Interleaved.keep s (a ++ rest) [] (a.flatMap Seg.all ++ m) ih
    simpa [List.flatMap_cons, List.append_assoc] using this

theorem Interleaved.prepend (pre : Toks) (l : List Seg) (m : Toks) (h : Interleaved l m) : Interleaved l (pre ++ m) := by
  cases h with
  | nil extra => exact Interleaved.nil _
  | keep s rest p m' h' =>
    have := Interleaved.keep s rest (pre ++ p) m' h'
    simpa [List.append_assoc] using this

/-- **C16, whole pipeline.**  For every item and attribute contents the user's crate receives either the item
with impls or the item with one ordinary error — never a proc-macro panic — and in every case every token run and
every attribute of the item is still there, in order: on a stage-1 error exactly the item without its
`derive_where` attributes (so that nothing re-triggers the macro), otherwise the forwarded item, which contains all
segments of the original. -/
theorem C16_pipeline (c : Cfg) (raw : RawItem) (segs : List Seg) (hraw : RawOK raw) :
    (∃ item impls, pipeline c raw segs = .expanded item impls ∧ Interleaved segs item) ∨
    (∃ e item, pipeline c raw segs = .rejected e item ∧ e.isPanic = false ∧
      (item = itemProper segs ∨ Interleaved segs item)) := by
  unfold pipeline
  cases h1 : stage1 raw segs with
  | failed e item =>
    refine Or.inr ⟨e, item, rfl, ?_, Or.inl (C16_stage1_item_kept raw segs e item h1)⟩
    -- stage-1 errors are `Error::..` values, never panics
    unfold stage1 at h1
    split at h1
    · rename_i e' hfc
      cases h1
      exact findCrate_noPanic _ _ _ hfc
    · simp only at h1
      split at h1
      · cases h1; rfl
      · cases h1
  | forward t =>
    obtain ⟨pre, mid, a, b, hab, ht⟩ := C16_stage1_forward raw segs t h1
    have hint : Interleaved segs t := by
      rw [ht, ← hab, List.append_assoc, List.append_assoc]
      exact Interleaved.prepend pre _ _ (Interleaved.append_all a _ b
        (Interleaved.prepend mid _ _ (by
          have := Interleaved.append_all b [] [] (Interleaved.nil [])
          simpa using this)))
    cases h2 : deriveWhere c raw with
    | ok r => exact Or.inl ⟨t, r.2, rfl, hint⟩
    | error e =>
      refine Or.inr ⟨e, t, rfl, ?_, Or.inr hint⟩
      cases e with
      | panic s => exact absurd h2 (C16_no_panic_stage2 c raw hraw s)
      | _ => rfl

end DW
