import DW.Lemmas.NoPanic
import DW.Gen
import DW.Stage1

/-!
# C16 — failures are clean diagnostics: no panic, and the item stays defined

* `C16_no_panic_stage2`: for every feature configuration and every raw item
  over the model's attribute alphabet (arbitrary element sequences inside
  `#[derive_where(..)]` on items, variants and fields; `#[repr]` attributes that
  are lists, as rustc requires), `derive_where_actual` — validation followed by
  generation — ends in impls or an ordinary error, never in a panic: the
  `assert!(!input.is_empty())` of `DeriveWhere::from_attr`, the
  `unreachable!("unexpected trait for union")` of eight generators and the
  `Discriminant::Single => unreachable!` of `build_ord_signature` are
  unreachable from validated input.
* Stage 1 (`C16_stage1_*`): see `DW/Stage1.lean`.
-/

namespace DW

theorem Discriminant.parse_single (attrs : List RawAttr) (vs : List RawVariant)
    (h : Discriminant.parse attrs vs = .ok .single) : vs.length = 1 := by
  unfold Discriminant.parse at h
  split at h
  · rename_i hl; simpa using hl
  · obtain ⟨r, _, h2⟩ := bind_ok h
    simp only at h2
    split at h2
    · split at h2 <;> cases h2
    · split at h2
      · cases h2
      · split at h2 <;> cases h2

/-- Not `nightly`: `Discriminant::Single` only for one-variant enums. -/
theorem fromInput_single (c : Cfg) (raw : RawItem) (inp : Input) (h : Input.fromInput c raw = .ok inp)
    (hn : c.nightly = false) (id : Ident) (inc : Bool) (vs : List Data)
    (hitem : inp.item = .enum_ .single id inc vs) : vs.length = 1 := by
  unfold Input.fromInput at h
  obtain ⟨attr, _, h1⟩ := bind_ok h
  obtain ⟨r, hr, h2⟩ := bind_ok h1
  split at h2
  · cases h2
  · simp only [Except.ok.injEq] at h2
    subst h2
    simp only at hitem
    unfold Input.buildItem at hr
    simp only at hr
    split at hr
    · obtain ⟨disc, hd, h3⟩ := bind_ok hr
      obtain ⟨variants, hvs, h4⟩ := bind_ok h3
      obtain ⟨found, _, h5⟩ := bind_ok h4
      split at h5
      · cases h5
      · split at h5
        · cases h5
        · simp only [pure, Except.pure, Except.ok.injEq] at h5
          rw [← h5] at hitem
          simp only [Item.enum_.injEq] at hitem
          obtain ⟨hdisc, _, _, hv⟩ := hitem
          subst hv hdisc
          simp only [hn, Bool.false_eq_true, if_false] at hd
          have := Discriminant.parse_single _ _ hd
          rw [(Data.fromVariants_ok c _ _ _ hvs).1]
          exact this
    · split at hr
      · obtain ⟨d, _, h3⟩ := bind_ok hr
        simp only [pure, Except.pure, Except.ok.injEq] at h3
        rw [← h3] at hitem
        cases hitem
      · cases hr

theorem genPanic_none (c : Cfg) (raw : RawItem) (hraw : RawOK raw) (inp : Input)
    (h : Input.fromInput c raw = .ok inp) (dw : DeriveWhere) (hdw : dw ∈ inp.deriveWheres)
    (t : DeriveTrait) (ht : t ∈ dw.traits) : genPanic c inp.item dw t.trait = none := by
  have hok := Input.fromInput_ok c raw inp h
  -- a union only derives Clone / Copy
  have hunion : isUnion inp.item = true → t.trait = .clone ∨ t.trait = .copy := by
    intro hu
    have hk : raw.kind = .union_ := by
      apply Classical.byContradiction
      intro hne
      have hs := hok.shapes hne hraw.shapes
      cases hitem : inp.item with
      | enum_ => simp [hitem, isUnion] at hu
      | item d =>
        simp only [hitem, isUnion, beq_iff_eq] at hu
        exact hs d (by simp [hitem, Item.variants]) hu
    have := hok.union dw hdw t ht hk
    cases htt : t.trait <;> simp_all [Trait.supportsUnion]
  have hsingle : genPanic.ordSinglePanic c inp.item = none := by
    unfold genPanic.ordSinglePanic
    split
    · rename_i _ id inc vs hitem
      split
      · rename_i hc
        simp only [Bool.and_eq_true, Bool.not_eq_true', decide_eq_true_eq] at hc
        have := fromInput_single c raw inp h hc.1.1.1 id inc vs hitem
        omega
      · rfl
    · rfl
  cases hu : isUnion inp.item
  · cases htt : t.trait <;> simp [genPanic, hu, hsingle]
  · rcases hunion hu with h1 | h1 <;> simp [genPanic, h1]

theorem NoPanic.bind' {α β} {x : R α} {f : α → R β} (hx : NoPanic x)
    (hf : ∀ a, x = .ok a → NoPanic (f a)) : NoPanic (x >>= f) := by
  cases x with
  | error e =>
    intro s h
    have : (Except.error e : R β) = .error (.panic s) := h
    exact hx s (by cases this; rfl)
  | ok a => exact hf a rfl

/-- `derive_where_actual` never panics. -/
theorem C16_no_panic_stage2 (c : Cfg) (raw : RawItem) (hraw : RawOK raw) : NoPanic (deriveWhere c raw) := by
  unfold deriveWhere
  apply NoPanic.bind' (Input.fromInput_np c raw hraw)
  intro inp hinp
  have hnone : (inp.deriveWheres.findSome? fun dw =>
      dw.traits.findSome? fun t => genPanic c inp.item dw t.trait) = none := by
    rw [List.findSome?_eq_none_iff]
    intro dw hdw
    rw [List.findSome?_eq_none_iff]
    intro t ht
    exact genPanic_none c raw hraw inp hinp dw hdw t ht
  simp only [hnone]
  exact NoPanic.ok _

end DW
