import DW.Lemmas.OrdDisc

/-!
# C04 — PartialOrd/Ord order by discriminant value, then fields lexicographically

* `C04_discriminants` (`buildDiscriminants_spec`, in `Lemmas/Discr.lean`): the
  expressions `build_discriminants` emits evaluate to the reference's
  discriminant values, for every variant list.
* `C04_ord_refines`: evaluating the generated `partial_cmp` (without the `Ord`
  delegation) or `cmp` yields `specPartialCmp` / `specCmp`, for every feature
  configuration, discriminant strategy, variant list, skip/incomparable
  placement, field impls and pair of values; the only effects are calls of the
  sibling `Clone` in the `Clone::clone(self) as R` strategy.
* `C04_delegation`: with the delegation, `partial_cmp = Some(cmp)`.
-/

namespace DW

variable {α : Type}

/-- The specified result as the value the method returns. -/
def specOrdVal (t : Trait) (ops : FieldOps α) (ti : TypeInfo) (it : Item) (a b : Val α) : Val α :=
  if t == .partialOrd then .optOrd (specPartialCmp ops ti it a b) else .ord (specCmp ops ti it a b)

/-- The generated `partial_cmp` / `cmp` body without the `Ord` delegation. -/
def ordMethodBody (c : Cfg) (it : Item) (dw : DeriveWhere) (t : Trait) : Expr :=
  ordSignature c it dw t (it.indexed.flatMap fun (k, d) => ordArmsFor t dw k d)

/-- Only one variant passes a filter that keeps exactly one element. -/
theorem filter_singleton_index {β} (p : β → Bool) (l : List β) (x : β) (h : l.filter p = [x])
    (k k' : Nat) (d d' : β) (hd : l[k]? = some d) (hd' : l[k']? = some d')
    (hp : p d = true) (hp' : p d' = true) : k = k' ∧ d = x := by
  induction l generalizing k k' with
  | nil => simp at hd
  | cons y l ih =>
    simp only [List.filter_cons] at h
    cases hy : p y
    · simp only [hy, Bool.false_eq_true, if_false] at h
      cases k with
      | zero => simp at hd; rw [hd] at hy; rw [hy] at hp; cases hp
      | succ k =>
        cases k' with
        | zero => simp at hd'; rw [hd'] at hy; rw [hy] at hp'; cases hp'
        | succ k' =>
          simp only [List.getElem?_cons_succ] at hd hd'
          have := ih h k k' hd hd'
          exact ⟨by omega, this.2⟩
    · simp only [hy, if_true, List.cons.injEq] at h
      have hnil := h.2
      rw [List.filter_eq_nil_iff] at hnil
      cases k with
      | zero =>
        cases k' with
        | zero => simp at hd; exact ⟨rfl, by rw [← hd]; exact h.1⟩
        | succ k' =>
          simp only [List.getElem?_cons_succ] at hd'
          have := hnil d' (List.mem_of_getElem? hd')
          rw [hp'] at this; exact absurd rfl this
      | succ k =>
        simp only [List.getElem?_cons_succ] at hd
        have := hnil d (List.mem_of_getElem? hd)
        rw [hp] at this; exact absurd rfl this

theorem incomparablePattern_isSome_of (vs : List Data) (d : Data) (hd : d ∈ vs)
    (hinc : d.incomparable = true) : ∃ p, incomparablePattern vs = some p := by
  cases h : incomparablePattern vs with
  | some p => exact ⟨p, rfl⟩
  | none =>
    exfalso
    obtain ⟨k, hk, hkd⟩ := List.getElem_of_mem hd
    have := incomparablePattern_spec (α := Unit) vs k []
    rw [h] at this
    simp [List.getElem?_eq_getElem hk, hkd, hinc] at this

theorem relevantIdx_nil_of_isEmpty (d : Data) (t : Trait) (h : d.isEmpty t = true) :
    d.relevantIdx t = [] := by
  rw [isEmpty_iff_relevantIdx'] at h
  simpa [List.isEmpty_iff] using h

theorem compare_self_int (x : Int) : compare x x = Ordering.eq := Int.compare_eq_eq.mpr rfl

theorem specOrdVal_same (t : Trait) (ht : t = .partialOrd ∨ t = .ord) (ops : FieldOps α) (ti : TypeInfo)
    (it : Item) (k : Nat) (d : Data) (fa fb : List (Val α)) (hd : it.variants[k]? = some d)
    (hm : it.markedIncomparable = false) (hinc : d.incomparable = false) :
    specOrdVal t ops ti it (.adt k fa) (.adt k fb) = lexVal t ops fa fb (d.relevantIdx t) := by
  rcases ht with rfl | rfl <;> simp [specOrdVal, lexVal, specPartialCmp, specCmp, hd, hm, hinc]

theorem specOrdVal_diff (t : Trait) (ht : t = .partialOrd ∨ t = .ord) (ops : FieldOps α) (ti : TypeInfo)
    (it : Item) (k k' : Nat) (d d' : Data) (fa fb : List (Val α)) (hd : it.variants[k]? = some d)
    (hd' : it.variants[k']? = some d') (hne : k ≠ k')
    (hm : it.markedIncomparable = false) (hinc : d.incomparable = false) (hinc' : d'.incomparable = false) :
    specOrdVal t ops ti it (.adt k fa) (.adt k' fb) = cmpVal t (compare (ti.discr k) (ti.discr k')) := by
  rcases ht with rfl | rfl <;>
    simp [specOrdVal, cmpVal, specPartialCmp, specCmp, hd, hd', hm, hinc, hinc', hne]

theorem specOrdVal_inc (ops : FieldOps α) (ti : TypeInfo)
    (it : Item) (k k' : Nat) (d d' : Data) (fa fb : List (Val α)) (hd : it.variants[k]? = some d)
    (hd' : it.variants[k']? = some d')
    (h : (it.markedIncomparable || d.incomparable || d'.incomparable) = true) :
    specOrdVal .partialOrd ops ti it (.adt k fa) (.adt k' fb) = .optOrd none := by
  simp [specOrdVal, specPartialCmp, hd, hd', h]

/-- Facts shared by the branches of the multi-variant case. -/
structure MultiCtx (c : Cfg) (it : Item) (dw : DeriveWhere) (t : Trait) (cx : SemCtx α)
    (vs : List Data) (k k' : Nat) (da db : Data) (fa fb : List (Val α)) : Prop where
  ht : t = .partialOrd ∨ t = .ord
  hns : (dw.shortcut && dw.contains .ord) = false
  hwf : it.WF
  hnu : ∀ d ∈ it.variants, d.shape ≠ .union
  hvs : it.variants = vs
  hm : it.markedIncomparable = false
  hord : t = .ord → ∀ d ∈ vs, d.incomparable = false
  hda : vs[k]? = some da
  hdb : vs[k']? = some db
  hla : fa.length = da.fields.length
  hlb : fb.length = db.fields.length
  hfa : ∀ v ∈ fa, ∃ a, v = .leaf a
  hfb : ∀ v ∈ fb, ∃ a, v = .leaf a

/-- The arms of the whole item. -/
def allOrdArms (it : Item) (dw : DeriveWhere) (t : Trait) : List Arm :=
  it.indexed.flatMap fun (k, d) => ordArmsFor t dw k d

theorem inc_false_of_ord {c : Cfg} {it : Item} {dw : DeriveWhere} {t : Trait} {cx : SemCtx α}
    {vs : List Data} {k k' : Nat} {da db : Data} {fa fb : List (Val α)}
    (m : MultiCtx c it dw t cx vs k k' da db fa fb) (h : t = .ord) :
    da.incomparable = false ∧ db.incomparable = false :=
  ⟨m.hord h da (List.mem_of_getElem? m.hda), m.hord h db (List.mem_of_getElem? m.hdb)⟩

/-- After the incomparable guards: the result of `if disc equal { body_equal } else { body_else }`
or of the all-empty comparison, given how `body_else` evaluates. -/
theorem ordStable_refines (c : Cfg) (it : Item) (dw : DeriveWhere) (t : Trait) (cx : SemCtx α)
    (vs : List Data) (k k' : Nat) (da db : Data) (fa fb : List (Val α))
    (m : MultiCtx c it dw t cx vs k k' da db fa fb) (bodyElse : Blk)
    (helse : ∀ env log, Env2 env (.adt k fa) (.adt k' fb) → ∃ extra, OnlySelfClone extra ∧
      eval cx env log bodyElse.toExpr =
        .ok (cmpVal t (compare (cx.ti.discr k) (cx.ti.discr k')), log ++ extra)) :
    ∃ extra, OnlySelfClone extra ∧
      (eval cx (env2 (.adt k fa) (.adt k' fb)) []
        (ordStable vs bodyElse (ordBodyEqual c it vs t (allOrdArms it dw t)))).finish =
        .ok (specOrdVal t cx.ops cx.ti it (.adt k fa) (.adt k' fb), extra) := by
  have henv := env2_Env2 (.adt k fa) (.adt k' fb)
  have hda' : it.variants[k]? = some da := by rw [m.hvs]; exact m.hda
  have hdb' : it.variants[k']? = some db := by rw [m.hvs]; exact m.hdb
  have hinc_stmts := ordIncStmts_eval cx _ vs k k' fa fb henv ([] : Log α)
  simp only [m.hda, m.hdb, Option.any_some] at hinc_stmts
  by_cases hany : (da.incomparable || db.incomparable) = true
  · -- an operand is incomparable: `return None`
    have htp : t = .partialOrd := by
      rcases m.ht with h | h
      · exact h
      · have := inc_false_of_ord m h; simp [this.1, this.2] at hany
    subst htp
    refine ⟨[], by simp [OnlySelfClone], ?_⟩
    rw [specOrdVal_inc cx.ops cx.ti it k k' da db fa fb hda' hdb' (by simp [m.hm]; simpa using hany)]
    unfold ordStable
    split
    · simp only [eval, evalStmts_append, hinc_stmts, hany, if_true, Out.bind_ret, Out.finish]
    · simp only [eval_toExpr, evalStmts_append, hinc_stmts, hany, if_true, Out.bind_ret, Out.finish]
  · have hia : da.incomparable = false := by
      cases h : da.incomparable <;> simp_all
    have hib : db.incomparable = false := by
      cases h : db.incomparable <;> simp_all
    simp only [hany, Bool.false_eq_true, if_false] at hinc_stmts
    unfold ordStable
    split
    · rename_i be hbe
      -- `let` the two discriminants, then compare them
      have henv' := discEnv_Env2 henv (.disc k) (.disc k')
      simp only [eval, evalStmts_append, hinc_stmts, Out.bind_ok,
        letDiscs_mem_eval cx _ [] k k' fa fb henv, discsEqual, discEnv_selfDisc, discEnv_otherDisc,
        applyBinop]
      by_cases hk : k = k'
      · subst hk
        have hdab : db = da := by have := m.hda; rw [m.hdb] at this; exact Option.some.inj this
        subst hdab
        refine ⟨[], by simp [OnlySelfClone], ?_⟩
        simp only [beq_self_eq_true, Out.bind_ok]
        have := ordBodyEqual_eval c it cx t m.ht dw m.hns m.hwf m.hnu _ [] k db hda' hia fa fb henv'
          m.hla m.hlb m.hfa m.hfb be (by rw [m.hvs]; exact hbe)
        simp only [this, Out.finish]
        rw [specOrdVal_same t m.ht cx.ops cx.ti it k db fa fb hda' m.hm hia]
      · have hkf : (k == k') = false := by simpa using hk
        obtain ⟨extra, hex, he⟩ := helse _ [] henv'
        refine ⟨extra, hex, ?_⟩
        simp only [hkf, Out.bind_ok, he, Out.finish, List.nil_append]
        rw [specOrdVal_diff t m.ht cx.ops cx.ti it k k' da db fa fb hda' hdb' hk m.hm hia hib]
    · rename_i hbe
      -- all variants are empty: compare discriminants directly
      have hemp : it.isEmpty t = true := by
        unfold ordBodyEqual at hbe
        split at hbe
        · assumption
        · split at hbe <;> cases hbe
      obtain ⟨extra, hex, he⟩ := helse (env2 (.adt k fa) (.adt k' fb)) [] henv
      refine ⟨extra, hex, ?_⟩
      rw [eval_toExpr] at he
      simp only [eval_toExpr, evalStmts_append, hinc_stmts, Out.bind_ok, Out.bind_assoc] at he ⊢
      rw [he]
      simp only [Out.finish, List.nil_append]
      by_cases hk : k = k'
      · subst hk
        have hdab : db = da := by have := m.hda; rw [m.hdb] at this; exact Option.some.inj this
        subst hdab
        have hdemp : db.isEmpty t = true := by
          simp only [Item.isEmpty, List.all_eq_true] at hemp
          exact hemp db (List.mem_of_getElem? hda')
        rw [specOrdVal_same t m.ht cx.ops cx.ti it k db fa fb hda' m.hm hia,
          relevantIdx_nil_of_isEmpty db t hdemp, lexVal_nil, compare_self_int]
      · rw [specOrdVal_diff t m.ht cx.ops cx.ti it k k' da db fa fb hda' hdb' hk m.hm hia hib]

/-- The `nightly` strategy (`::core::intrinsics::discriminant_value`). -/
theorem ordNightly_refines (c : Cfg) (it : Item) (dw : DeriveWhere) (t : Trait) (cx : SemCtx α)
    (vs : List Data) (k k' : Nat) (da db : Data) (fa fb : List (Val α))
    (m : MultiCtx c it dw t cx vs k k' da db fa fb)
    (hinj : cx.ti.discr k = cx.ti.discr k' → k = k') :
    (eval cx (env2 (.adt k fa) (.adt k' fb)) []
        (ordNightly vs (ordFn t) (ordBodyEqual c it vs t (allOrdArms it dw t)))).finish =
        .ok (specOrdVal t cx.ops cx.ti it (.adt k fa) (.adt k' fb), []) := by
  have henv := env2_Env2 (.adt k fa) (.adt k' fb)
  have hda' : it.variants[k]? = some da := by rw [m.hvs]; exact m.hda
  have hdb' : it.variants[k']? = some db := by rw [m.hvs]; exact m.hdb
  have hinc_stmts := ordIncStmts_eval cx _ vs k k' fa fb henv ([] : Log α)
  simp only [m.hda, m.hdb, Option.any_some] at hinc_stmts
  by_cases hany : (da.incomparable || db.incomparable) = true
  · have htp : t = .partialOrd := by
      rcases m.ht with h | h
      · exact h
      · have := inc_false_of_ord m h; simp [this.1, this.2] at hany
    subst htp
    rw [specOrdVal_inc cx.ops cx.ti it k k' da db fa fb hda' hdb' (by simp [m.hm]; simpa using hany)]
    unfold ordNightly
    split
    · simp only [eval, evalStmts_append, hinc_stmts, hany, if_true, Out.bind_ret, Out.finish]
    · simp only [eval_toExpr, hinc_stmts, hany, if_true, Out.bind_ret, Out.finish]
  · have hia : da.incomparable = false := by
      cases h : da.incomparable <;> simp_all
    have hib : db.incomparable = false := by
      cases h : db.incomparable <;> simp_all
    simp only [hany, Bool.false_eq_true, if_false] at hinc_stmts
    unfold ordNightly
    split
    · rename_i be hbe
      have henv' := discEnv_Env2 henv (.int (cx.ti.discr k)) (.int (cx.ti.discr k'))
      simp only [eval, evalStmts_append, hinc_stmts, Out.bind_ok,
        letDiscs_value_eval cx _ [] k k' fa fb henv, discsEqual, discEnv_selfDisc, discEnv_otherDisc,
        applyBinop]
      by_cases hk : k = k'
      · subst hk
        have hdab : db = da := by have := m.hda; rw [m.hdb] at this; exact Option.some.inj this
        subst hdab
        simp only [beq_self_eq_true, Out.bind_ok]
        have := ordBodyEqual_eval c it cx t m.ht dw m.hns m.hwf m.hnu _ [] k db hda' hia fa fb henv'
          m.hla m.hlb m.hfa m.hfb be (by rw [m.hvs]; exact hbe)
        simp only [this, Out.finish]
        rw [specOrdVal_same t m.ht cx.ops cx.ti it k db fa fb hda' m.hm hia]
      · have hkf : (cx.ti.discr k == cx.ti.discr k') = false := by
          simp only [beq_eq_false_iff_ne, ne_eq]
          exact fun h => hk (hinj h)
        simp only [hkf, Out.bind_ok, evalList, eval, discEnv_selfDisc, discEnv_otherDisc,
          cmpVal_int cx t m.ht, Out.finish]
        rw [specOrdVal_diff t m.ht cx.ops cx.ti it k k' da db fa fb hda' hdb' hk m.hm hia hib]
    · rename_i hbe
      have hemp : it.isEmpty t = true := by
        unfold ordBodyEqual at hbe
        split at hbe
        · assumption
        · split at hbe <;> cases hbe
      simp only [eval_toExpr, hinc_stmts, Out.bind_ok, eval, evalList, vSelf, vOther, env2_self,
        env2_other, applyFn_discriminantValue, cmpVal_int cx t m.ht, Out.finish]
      by_cases hk : k = k'
      · subst hk
        have hdab : db = da := by have := m.hda; rw [m.hdb] at this; exact Option.some.inj this
        subst hdab
        have hdemp : db.isEmpty t = true := by
          simp only [Item.isEmpty, List.all_eq_true] at hemp
          exact hemp db (List.mem_of_getElem? hda')
        rw [specOrdVal_same t m.ht cx.ops cx.ti it k db fa fb hda' m.hm hia,
          relevantIdx_nil_of_isEmpty db t hdemp, lexVal_nil, compare_self_int]
      · rw [specOrdVal_diff t m.ht cx.ops cx.ti it k k' da db fa fb hda' hdb' hk m.hm hia hib]

/-- The branch for exactly one comparable variant. -/
theorem ordSingleComparable_refines (c : Cfg) (it : Item) (dw : DeriveWhere) (t : Trait) (cx : SemCtx α)
    (vs : List Data) (k k' : Nat) (da db : Data) (fa fb : List (Val α))
    (m : MultiCtx c it dw t cx vs k k' da db fa fb) (hlen : vs.length > 1)
    (comparable : Data) (hf : vs.filter (!·.incomparable) = [comparable]) :
    (eval cx (env2 (.adt k fa) (.adt k' fb)) []
        (ordSingleComparable t ((incomparablePattern vs).getD .wild) comparable
          (ordBodyEqual c it vs t (allOrdArms it dw t)))).finish =
        .ok (specOrdVal t cx.ops cx.ti it (.adt k fa) (.adt k' fb), []) := by
  have henv := env2_Env2 (.adt k fa) (.adt k' fb)
  have hda' : it.variants[k]? = some da := by rw [m.hvs]; exact m.hda
  have hdb' : it.variants[k']? = some db := by rw [m.hvs]; exact m.hdb
  -- some variant is incomparable
  have hex : ∃ d ∈ vs, d.incomparable = true := by
    apply Classical.byContradiction
    intro hno
    have hall : vs.filter (!·.incomparable) = vs := by
      rw [List.filter_eq_self]
      intro d hd
      cases h : d.incomparable
      · rfl
      · exact absurd ⟨d, hd, h⟩ hno
    rw [hall] at hf
    rw [hf] at hlen
    simp at hlen
  obtain ⟨dinc, hdmem, hdinc⟩ := hex
  have htp : t = .partialOrd := by
    rcases m.ht with h | h
    · exact h
    · have := m.hord h dinc hdmem; rw [this] at hdinc; cases hdinc
  subst htp
  obtain ⟨p, hp⟩ := incomparablePattern_isSome_of vs dinc hdmem hdinc
  have hme := matchesEither_eval cx _ vs k k' fa fb henv ([] : Log α) p hp
  simp only [m.hda, m.hdb, Option.any_some] at hme
  simp only [ordSingleComparable, hp, Option.getD_some, eval, hme, Out.bind_ok]
  by_cases hany : (da.incomparable || db.incomparable) = true
  · rw [specOrdVal_inc cx.ops cx.ti it k k' da db fa fb hda' hdb' (by simp [m.hm]; simpa using hany)]
    simp [hany, Out.finish]
  · have hia : da.incomparable = false := by
      cases h : da.incomparable <;> simp_all
    have hib : db.incomparable = false := by
      cases h : db.incomparable <;> simp_all
    obtain ⟨hkk, hdc⟩ := filter_singleton_index (fun d : Data => !d.incomparable) vs comparable hf k k' da db
      m.hda m.hdb (by simp [hia]) (by simp [hib])
    subst hkk
    have hdab : db = da := by have := m.hda; rw [m.hdb] at this; exact Option.some.inj this
    subst hdab
    subst hdc
    simp only [hia, Bool.or_self, Bool.false_eq_true]
    rw [specOrdVal_same .partialOrd m.ht cx.ops cx.ti it k db fa fb hda' m.hm hia]
    by_cases hemp : db.isEmpty .partialOrd = true
    · simp only [hemp, if_true, eval_equalExpr, Out.finish,
        relevantIdx_nil_of_isEmpty db _ hemp, lexVal_nil]
    · have hemp' : db.isEmpty .partialOrd = false := by simpa using hemp
      have hitne : it.isEmpty .partialOrd = false := by
        cases h : it.isEmpty .partialOrd
        · rfl
        · simp only [Item.isEmpty, List.all_eq_true] at h
          have := h db (List.mem_of_getElem? hda')
          rw [this] at hemp'; cases hemp'
      cases hbe : ordBodyEqual c it vs .partialOrd (allOrdArms it dw .partialOrd) with
      | none =>
        unfold ordBodyEqual at hbe
        simp [hitne] at hbe
        split at hbe <;> cases hbe
      | some be =>
        have := ordBodyEqual_eval c it cx .partialOrd m.ht dw m.hns m.hwf m.hnu _ [] k db hda' hia fa fb henv
          m.hla m.hlb m.hfa m.hfb be (by rw [m.hvs]; exact hbe)
        simp only [hemp', Bool.false_eq_true, if_false, Option.getD_some, this, Out.finish]

/-- Hypotheses that tie the evaluator's ground truth to the item (enum case). -/
def ItemTiOK (cx : SemCtx α) (c : Cfg) : Item → Prop
  | .enum_ disc _ _ vs => TiOK cx c vs disc ∧ (vs.length > 1 → c.nightly = false → disc ≠ .single)
  | .item _ => True

/-- Struct, or enum with at most one variant. -/
theorem ordSingle_refines (c : Cfg) (it : Item) (dw : DeriveWhere) (t : Trait)
    (ht : t = .partialOrd ∨ t = .ord) (hns : (dw.shortcut && dw.contains .ord) = false)
    (cx : SemCtx α) (hwf : it.WF) (hnu : ∀ d ∈ it.variants, d.shape ≠ .union)
    (hninc : it.isIncomparable = false) (hs : it.multi = false)
    (k k' : Nat) (da db : Data) (fa fb : List (Val α))
    (hda : it.variants[k]? = some da) (hdb : it.variants[k']? = some db)
    (hla : fa.length = da.fields.length) (hlb : fb.length = db.fields.length)
    (hfa : ∀ v ∈ fa, ∃ a, v = .leaf a) (hfb : ∀ v ∈ fb, ∃ a, v = .leaf a) :
    (eval cx (env2 (.adt k fa) (.adt k' fb)) []
      (if it.isEmpty t = true then equalExpr t else .match_ tupleSO (allOrdArms it dw t))).finish =
      .ok (specOrdVal t cx.ops cx.ti it (.adt k fa) (.adt k' fb), []) := by
  have hm := not_isIncomparable_marked it hninc
  obtain ⟨hk0, hvs⟩ := single_variant it hs k da hda
  obtain ⟨hk0', hvs'⟩ := single_variant it hs k' db hdb
  subst hk0 hk0'
  have hdab : db = da := by rw [hvs] at hvs'; simpa using hvs'.symm
  subst hdab
  have hdinc : db.incomparable = false := by
    cases h : db.incomparable
    · rfl
    · exfalso
      cases it with
      | enum_ disc id inc vs =>
        simp only [Item.variants] at hvs
        subst hvs
        simp [Item.isIncomparable, h] at hninc
      | item d' =>
        simp only [Item.variants, List.cons.injEq, and_true] at hvs
        subst hvs
        simp [Item.isIncomparable, h] at hninc
  have hitEmpty : it.isEmpty t = db.isEmpty t := by simp [Item.isEmpty, hvs]
  rw [specOrdVal_same t ht cx.ops cx.ti it 0 db fa fb hda hm hdinc]
  by_cases hemp : db.isEmpty t = true
  · simp only [hitEmpty, hemp, if_true, eval_equalExpr, Out.finish,
      relevantIdx_nil_of_isEmpty db t hemp, lexVal_nil]
  · have hemp' : db.isEmpty t = false := by simpa using hemp
    have henv := env2_Env2 (.adt 0 fa) (.adt 0 fb)
    simp only [hitEmpty, hemp', Bool.false_eq_true, if_false, eval, eval_tupleSO' cx _ _ _ henv, Out.bind_ok]
    have := evalArms_indexed cx (env2 (.adt 0 fa) (.adt 0 fb)) [] (.tuple [.adt 0 fa, .adt 0 fb])
      (fun k d => ordArmsFor t dw k d) 0
      (fun k' d' h => ordArmsFor_miss t dw 0 k' d' fa fb h) it []
    simp only [List.append_nil, hda] at this
    simp only [allOrdArms]
    refine (congrArg Out.finish this).trans ?_
    have harm := ord_arm cx t ht dw hns (env2 (.adt 0 fa) (.adt 0 fb)) [] 0 db fa fb [] hla hlb hfa hfb
      hemp' hdinc (shape_of_nonempty' db t (hwf db (List.mem_of_getElem? hda))
        (hnu db (List.mem_of_getElem? hda)) hemp')
    simp only [List.append_nil] at harm
    rw [harm]
    rfl

theorem C04_ord_refines (c : Cfg) (it : Item) (dw : DeriveWhere) (t : Trait)
    (ht : t = .partialOrd ∨ t = .ord)
    (hns : (dw.shortcut && dw.contains .ord) = false)
    (cx : SemCtx α) (hwf : it.WF) (hnu : ∀ d ∈ it.variants, d.shape ≠ .union)
    (hti : ItemTiOK cx c it)
    (hord : t = .ord → it.markedIncomparable = false ∧ ∀ d ∈ it.variants, d.incomparable = false)
    (a b : Val α) (ha : WfVal it a) (hb : WfVal it b)
    (hca : CloneOK cx dw a) (hcb : CloneOK cx dw b) :
    ∃ extra, OnlySelfClone extra ∧
      runMethod cx (ordMethodBody c it dw t) a (some b) =
        .ok (specOrdVal t cx.ops cx.ti it a b, extra) := by
  cases a with
  | adt k fa =>
    cases b with
    | adt k' fb =>
      obtain ⟨da, hda, hla, hfa⟩ := ha
      obtain ⟨db, hdb, hlb, hfb⟩ := hb
      rw [runMethod_two]
      unfold ordMethodBody ordSignature
      by_cases hinc : it.isIncomparable = true
      · have hmi := isIncomparable_spec it k da hda hinc
        have htp : t = .partialOrd := by
          rcases ht with h | h
          · exact h
          · have := hord h
            rw [this.1, this.2 da (List.mem_of_getElem? hda)] at hmi
            cases hmi
        subst htp
        refine ⟨[], by simp [OnlySelfClone], ?_⟩
        rw [specOrdVal_inc cx.ops cx.ti it k k' da db fa fb hda hdb (by simp [hmi])]
        simp [hinc, eval, Out.finish]
      · have hinc' : it.isIncomparable = false := by simpa using hinc
        have hm := not_isIncomparable_marked it hinc'
        simp only [hinc', Bool.false_eq_true, if_false]
        cases it with
        | item d =>
          refine ⟨[], by simp [OnlySelfClone], ?_⟩
          exact ordSingle_refines c _ dw t ht hns cx hwf hnu hinc' rfl k k' da db fa fb hda hdb hla hlb hfa hfb
        | enum_ disc id inc vs =>
          simp only
          by_cases hlen : vs.length > 1
          · simp only [hlen, if_true]
            have m : MultiCtx c (.enum_ disc id inc vs) dw t cx vs k k' da db fa fb :=
              { ht := ht, hns := hns, hwf := hwf, hnu := hnu, hvs := rfl, hm := hm,
                hord := fun h => (hord h).2, hda := hda, hdb := hdb, hla := hla, hlb := hlb,
                hfa := hfa, hfb := hfb }
            have hk : k < vs.length := by
              rcases Nat.lt_or_ge k vs.length with h | h
              · exact h
              · simp only [Item.variants] at hda; rw [List.getElem?_eq_none h] at hda; cases hda
            have hk' : k' < vs.length := by
              rcases Nat.lt_or_ge k' vs.length with h | h
              · exact h
              · simp only [Item.variants] at hdb; rw [List.getElem?_eq_none h] at hdb; cases hdb
            unfold ordMulti
            simp only
            split
            · rename_i comparable hf
              refine ⟨[], by simp [OnlySelfClone], ?_⟩
              exact ordSingleComparable_refines c _ dw t cx vs k k' da db fa fb m hlen comparable hf
            · cases hn : c.nightly
              · simp only [Bool.false_eq_true, if_false]
                exact ordStable_refines c _ dw t cx vs k k' da db fa fb m _
                  (fun env log henv =>
                    ordBodyElse_eval c cx t ht dw disc vs hti.1 hn (hti.2 hlen hn) env log k k' fa fb henv
                      hk hk' hca hcb)
              · simp only [if_true]
                refine ⟨[], by simp [OnlySelfClone], ?_⟩
                exact ordNightly_refines c _ dw t cx vs k k' da db fa fb m
                  (hti.1.inj k k' hk hk')
          · simp only [hlen, if_false]
            refine ⟨[], by simp [OnlySelfClone], ?_⟩
            exact ordSingle_refines c _ dw t ht hns cx hwf hnu hinc' (by simpa [Item.multi] using hlen)
              k k' da db fa fb hda hdb hla hlb hfa hfb
    | _ => exact hb.elim
  | _ => exact ha.elim

/-- With the delegation (`Ord` derived in the same attribute, no plain bounds),
`partial_cmp` is `Some(Ord::cmp(self, other))`. -/
theorem C04_delegation (c : Cfg) (it : Item) (dw : DeriveWhere)
    (hs : (dw.shortcut && dw.contains .ord) = true) (cx : SemCtx α) (a b : Val α) (o : Ordering)
    (himpl : cx.impls .cmp [a, b] = some (.ord o)) :
    runMethod cx (partialOrdSignature c it dw (it.indexed.flatMap fun (k, d) => partialOrdBody dw k d))
      a (some b) = .ok (.optOrd (some o), [.selfCall .cmp]) := by
  rw [runMethod_two]
  simp [partialOrdSignature, hs, eval, evalList, vSelf, vOther, himpl, applyFn, Out.finish]

theorem at2_leaf {β} (fa fb : List (Val α)) (i : Nat) (dflt : β) (f : α → α → β)
    (hfa : ∀ v ∈ fa, ∃ a, v = .leaf a) (hfb : ∀ v ∈ fb, ∃ a, v = .leaf a)
    (h1 : i < fa.length) (h2 : i < fb.length) : ∃ x y, at2 fa fb i dflt f = f x y := by
  obtain ⟨x, hx⟩ := hfa fa[i] (List.getElem_mem _)
  obtain ⟨y, hy⟩ := hfb fb[i] (List.getElem_mem _)
  refine ⟨x, y, ?_⟩
  simp [at2, List.getElem?_eq_getElem h1, List.getElem?_eq_getElem h2, hx, hy]

theorem lex_agree (ops : FieldOps α) (hlaw : ∀ x y, ops.pcmp x y = some (ops.cmp x y))
    (fa fb : List (Val α)) (hfa : ∀ v ∈ fa, ∃ a, v = .leaf a) (hfb : ∀ v ∈ fb, ∃ a, v = .leaf a)
    (is : List Nat) (his : ∀ i ∈ is, i < fa.length ∧ i < fb.length) :
    lexPartial ops fa fb is = some (lexTotal ops fa fb is) := by
  induction is with
  | nil => simp [lexPartial, lexTotal]
  | cons i is ih =>
    have hi := his i (by simp)
    obtain ⟨x, hx⟩ := hfa fa[i] (List.getElem_mem _)
    obtain ⟨y, hy⟩ := hfb fb[i] (List.getElem_mem _)
    have e1 : at2 fa fb i none ops.pcmp = some (ops.cmp x y) := by
      simp [at2, List.getElem?_eq_getElem hi.1, List.getElem?_eq_getElem hi.2, hx, hy, hlaw]
    have e2 : at2 fa fb i Ordering.eq ops.cmp = ops.cmp x y := by
      simp [at2, List.getElem?_eq_getElem hi.1, List.getElem?_eq_getElem hi.2, hx, hy]
    simp only [lexPartial, lexTotal, e1, e2]
    cases h : ops.cmp x y <;> simp [ih (fun j hj => his j (by simp [hj]))]

/-- `cmp` and `partial_cmp` agree on values without incomparable markers when
the field impls agree (`partial_cmp = Some ∘ cmp` on fields) and the same
fields are skipped for both (C05 `skip_uniform`). -/
theorem C04_agree (ops : FieldOps α) (ti : TypeInfo) (it : Item)
    (hlaw : ∀ x y, ops.pcmp x y = some (ops.cmp x y))
    (hm : it.markedIncomparable = false) (hinc : ∀ d ∈ it.variants, d.incomparable = false)
    (hskip : ∀ d ∈ it.variants, d.relevantIdx .partialOrd = d.relevantIdx .ord)
    (a b : Val α) (ha : WfVal it a) (hb : WfVal it b) :
    specPartialCmp ops ti it a b = some (specCmp ops ti it a b) := by
  cases a with
  | adt k fa =>
    cases b with
    | adt k' fb =>
      obtain ⟨da, hda, hla, hfa⟩ := ha
      obtain ⟨db, hdb, hlb, hfb⟩ := hb
      have hia := hinc da (List.mem_of_getElem? hda)
      have hib := hinc db (List.mem_of_getElem? hdb)
      simp only [specPartialCmp, specCmp, hda, hdb, hm, hia, hib, Bool.or_self, Bool.false_eq_true, if_false]
      by_cases hk : k = k'
      · subst hk
        have hdab : db = da := by rw [hda] at hdb; exact (Option.some.inj hdb).symm
        subst hdab
        simp only [if_true, hda]
        rw [hskip db (List.mem_of_getElem? hda)]
        exact lex_agree ops hlaw fa fb hfa hfb _
          (fun i hi => by have := relevantIdx_lt' db .ord i hi; omega)
      · simp [hk]
    | _ => exact hb.elim
  | _ => exact ha.elim

end DW
