import DW.Props.C05
import DW.Props.C09
import DW.Props.C10
import DW.Props.C18
import DW.Lemmas.Uses

/-!
# C06 — a skipped field is invisible to exactly the traits of its skip group

* `C06_table` (`Skip.traitSkipped_eq_covers`, in `Lemmas/Skip`): the macro's
  skip predicate is the documented table (`Skip.covers`): a bare marker covers
  every trait but `Clone`/`Copy`/`Default`, a group covers its listed traits.
* `C06_invisible_*`: values that agree on every field relevant to `t` get the
  same result from `t`'s operation (equality, ordering, hash input, Debug
  calls, zeroization), whatever the skipped fields hold.
* `C06_visible_eq`: a difference in a relevant field that the field's own
  `PartialEq` sees makes `==` false.
* `C06_unskippable`: `Clone`, `Copy`, `Default` see every field, whatever the
  markers (`relevantIdx_unskippable`), and their generated bodies do not depend
  on the markers at all.
* `C06_no_demand_eq`: the `Eq` impl asserts `Eq` of exactly the relevant
  fields' types (a skipped field's type is never mentioned).
-/

namespace DW

variable {α : Type}

/-- Two field lists agree at the listed positions. -/
def AgreeOn (is : List Nat) (fa fa' : List (Val α)) : Prop := ∀ i ∈ is, fa[i]? = fa'[i]?

theorem at2_congr_left {β} (fa fa' fb : List (Val α)) (i : Nat) (h : fa[i]? = fa'[i]?) (d : β) (f : α → α → β) :
    at2 fa fb i d f = at2 fa' fb i d f := by simp [at2, h]

theorem all_congr' (l : List Nat) (f g : Nat → Bool) (h : ∀ i ∈ l, f i = g i) : l.all f = l.all g := by
  induction l with
  | nil => rfl
  | cons a l ih => simp only [List.all_cons, h a (by simp), ih (fun i hi => h i (by simp [hi]))]

theorem C06_invisible_eq (ops : FieldOps α) (it : Item) (k : Nat) (d : Data) (hd : it.variants[k]? = some d)
    (fa fa' : List (Val α)) (b : Val α) (h : AgreeOn (d.relevantIdx .partialEq) fa fa') :
    specEq ops it (.adt k fa) b = specEq ops it (.adt k fa') b := by
  cases b with
  | adt k' fb =>
    simp only [specEq, hd]
    rw [all_congr' _ _ _ (fun i hi => at2_congr_left fa fa' fb i (h i hi) false ops.eq)]
  | _ => simp [specEq]

theorem lexPartial_congr (ops : FieldOps α) (fa fa' fb : List (Val α)) (is : List Nat) (h : AgreeOn is fa fa') :
    lexPartial ops fa fb is = lexPartial ops fa' fb is := by
  induction is with
  | nil => rfl
  | cons i is ih =>
    simp only [lexPartial, at2_congr_left fa fa' fb i (h i (by simp)) none ops.pcmp]
    rw [ih (fun j hj => h j (by simp [hj]))]

theorem C06_invisible_pcmp (ops : FieldOps α) (ti : TypeInfo) (it : Item) (k : Nat) (d : Data)
    (hd : it.variants[k]? = some d) (fa fa' : List (Val α)) (b : Val α)
    (h : AgreeOn (d.relevantIdx .partialOrd) fa fa') :
    specPartialCmp ops ti it (.adt k fa) b = specPartialCmp ops ti it (.adt k fa') b := by
  cases b with
  | adt k' fb =>
    simp only [specPartialCmp, hd]
    cases hd' : it.variants[k']? with
    | none => rfl
    | some d' =>
      simp only
      by_cases hk : k = k'
      · simp only [hk, if_true]
        subst hk
        rw [lexPartial_congr ops fa fa' fb _ h]
      · simp [hk]
  | _ => simp [specPartialCmp]

theorem leafEvents_congr (fa fa' : List (Val α)) (is : List Nat) (ev : Nat → α → Event α) (h : AgreeOn is fa fa') :
    leafEvents fa is ev = leafEvents fa' is ev := by
  unfold leafEvents
  apply filterMap_congr'
  intro i hi
  simp [leafAt, h i hi]

theorem C06_invisible_hash (it : Item) (k : Nat) (d : Data) (hd : it.variants[k]? = some d)
    (fa fa' : List (Val α)) (h : AgreeOn (d.relevantIdx .hash) fa fa') :
    specHashLog it (.adt k fa) = specHashLog it (.adt k fa') := by
  simp only [specHashLog, hd, leafEvents_congr fa fa' _ _ h]

theorem C06_invisible_debug (it : Item) (k : Nat) (d : Data) (hd : it.variants[k]? = some d)
    (fa fa' : List (Val α)) (h : AgreeOn (d.relevantIdx .debug) fa fa') :
    specDebugLog it (.adt k fa) = specDebugLog it (.adt k fa') := by
  simp only [specDebugLog, hd]
  cases d.shape <;> simp only [leafEvents_congr fa fa' _ _ h]

theorem C06_invisible_zeroize (it : Item) (t : Trait) (via : Field → ZVia) (k : Nat) (d : Data)
    (hd : it.variants[k]? = some d) (fa fa' : List (Val α)) (h : AgreeOn (d.relevantIdx t) fa fa') :
    specZeroizeLog it t via (.adt k fa) = specZeroizeLog it t via (.adt k fa') := by
  simp only [specZeroizeLog, hd, leafEvents_congr fa fa' _ _ h]

/-- A relevant field on which the field type's own `PartialEq` says "different"
makes the values unequal. -/
theorem C06_visible_eq (ops : FieldOps α) (it : Item) (k : Nat) (d : Data) (hd : it.variants[k]? = some d)
    (fa fb : List (Val α)) (i : Nat) (hi : i ∈ d.relevantIdx .partialEq)
    (hne : at2 fa fb i false ops.eq = false) :
    specEq ops it (.adt k fa) (.adt k fb) = false := by
  simp only [specEq, hd]
  have : (d.relevantIdx .partialEq).all (fun i => at2 fa fb i false ops.eq) = false := by
    rw [List.all_eq_false]
    exact ⟨i, hi, by simp [hne]⟩
  simp [this]

/-- The item with every skip marker removed. -/
def Data.eraseSkip (d : Data) : Data :=
  { d with skipInner := .none, fields := d.fields.map fun f => { f with skip := .none } }

theorem iterFields_unskippable_fst (d : Data) (t : Trait) (ht : t = .clone ∨ t = .copy ∨ t = .default) :
    (d.iterFields t).map (·.1) = List.range d.fields.length := by
  rw [Data.iterFields_fst, relevantIdx_unskippable d t ht]

/-- `Clone`'s arms do not depend on skip markers. -/
theorem C06_unskippable_clone (dw : DeriveWhere) (k : Nat) (d : Data) :
    cloneBody dw k d.eraseSkip = cloneBody dw k d := by
  have h1 := iterFields_unskippable_fst d .clone (Or.inl rfl)
  have h2 := iterFields_unskippable_fst d.eraseSkip .clone (Or.inl rfl)
  have hlen : d.eraseSkip.fields.length = d.fields.length := by simp [Data.eraseSkip]
  rw [hlen] at h2
  have hm1 : ∀ {β} (g : Nat → β), (d.iterFields .clone).map (fun p => g p.1) = (List.range d.fields.length).map g := by
    intro β g; rw [← h1, List.map_map]; rfl
  have hm2 : ∀ {β} (g : Nat → β), (d.eraseSkip.iterFields .clone).map (fun p => g p.1) =
      (List.range d.fields.length).map g := by
    intro β g; rw [← h2, List.map_map]; rfl
  unfold cloneBody
  have hshape : d.eraseSkip.shape = d.shape := rfl
  rw [hshape]
  cases d.shape
  · rw [hm1 (fun i => FieldInit.mk i (.call (.traitFn .clone) [.var (.selfField k i)])),
      hm2 (fun i => FieldInit.mk i (.call (.traitFn .clone) [.var (.selfField k i)]))]
  · rw [hm1 (fun i => Expr.call (.traitFn .clone) [.var (.selfField k i)]),
      hm2 (fun i => Expr.call (.traitFn .clone) [.var (.selfField k i)])]
  · rfl
  · rfl

/-- `Default`'s constructor expression does not depend on skip markers. -/
theorem C06_unskippable_default (k : Nat) (d : Data) : defaultBody k d.eraseSkip = defaultBody k d := by
  have h1 := iterFields_unskippable_fst d .default (Or.inr (Or.inr rfl))
  have h2 := iterFields_unskippable_fst d.eraseSkip .default (Or.inr (Or.inr rfl))
  have hlen : d.eraseSkip.fields.length = d.fields.length := by simp [Data.eraseSkip]
  rw [hlen] at h2
  have hm1 : ∀ {β} (g : Nat → β), (d.iterFields .default).map (fun p => g p.1) = (List.range d.fields.length).map g := by
    intro β g; rw [← h1, List.map_map]; rfl
  have hm2 : ∀ {β} (g : Nat → β), (d.eraseSkip.iterFields .default).map (fun p => g p.1) =
      (List.range d.fields.length).map g := by
    intro β g; rw [← h2, List.map_map]; rfl
  unfold defaultBody
  have hshape : d.eraseSkip.shape = d.shape := rfl
  have hdef : d.eraseSkip.isDefault = d.isDefault := rfl
  rw [hshape, hdef]
  cases d.isDefault
  · rfl
  · simp only [if_true]
    cases d.shape
    · rw [hm1 (fun i => FieldInit.mk i (.defaultCall k i)), hm2 (fun i => FieldInit.mk i (.defaultCall k i))]
    · rw [hm1 (fun i => Expr.defaultCall k i), hm2 (fun i => Expr.defaultCall k i)]
    · rfl
    · rfl

/-- `C06_no_demand` / `C17_eq_obligations`: the `Eq` impl asserts `Eq` of exactly
the types of the fields relevant to `Eq`. -/
theorem C06_no_demand_eq (k : Nat) (d : Data) : eqBody k d = (d.relevantIdx .eq).map (Stmt.assertEq k) := by
  unfold eqBody
  exact map_iterFields d .eq (Stmt.assertEq k)

/-- **A skipped field is never mentioned.**  The body generated for trait `t` mentions the binding
(`__field_x` / `__other_field_x`), the `Default::default()` call or the `__AssertEq<FieldType>` assertion of field
`i` of variant `k` only if that field is not skipped for `t` -- for every item, attribute, bound list,
discriminant strategy and feature configuration.  A field that is not mentioned raises no trait obligation: the
type of a skipped field need not implement the traits it is skipped for (C06), `Eq` is never demanded of a
skipped field (C17), and the only obligations an expansion raises are `FieldType: Trait` for non-skipped fields
(C02: "the item's field types support the requested traits" is all the expansion needs). -/
theorem C06_skipped_never_mentioned (c : Cfg) (it : Item) (dw : DeriveWhere) (t : Trait) :
    ∀ m ∈ (generateBody c it dw t).toList, m.body.usesBad (it.fieldRelevant t) = false := by
  apply uses_generateBody
  intro x hx t' ht' p hp
  have hv := Item.indexed_mem it x hx
  have hmem : p.1 ∈ x.2.relevantIdx t' := by
    rw [← Data.iterFields_fst]; exact List.mem_map_of_mem hp
  have heq : x.2.relevantIdx t' = x.2.relevantIdx t := by
    rcases ht' with rfl | ⟨rfl, rfl⟩ | ⟨rfl, rfl⟩
    · rfl
    · exact relevantIdx_uniform x.2 .ord .partialOrd (by simp [cmpTraits]) (by simp [cmpTraits])
    · exact relevantIdx_uniform x.2 .partialOrd .ord (by simp [cmpTraits]) (by simp [cmpTraits])
  rw [heq] at hmem
  simp [Item.fieldRelevant, hv, hmem]

/-- The traversal is not vacuous: a body that mentions a skipped field is flagged. -/
example : (Expr.call (.traitFn .eq) [.var (.selfField 0 1), .var (.otherField 0 1)]).usesBad (fun _ i => i != 1) = true := by
  decide

end DW

