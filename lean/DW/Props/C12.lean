import DW.Syntactic
import DW.Props.C03
import DW.Props.C04

/-!
# C12 — generated unsafe code is never UB; `safe` emits no unsafe at all

* `C12_no_ub_eq`, `C12_no_ub_ord`: in every configuration, evaluating the
  generated `eq` / `partial_cmp` / `cmp` on well-formed values yields an `ok`
  outcome — never `ub`, `panic` or `stuck` (immediate from C03 / C04, whose
  right-hand sides are `ok`): the `unreachable_unchecked` arms are not reached
  and the pointer tag read is only evaluated on enums whose representation is
  exactly the type read (`TiOK.repr`).
* `C12_safe_no_unsafe`: with `safe`, no method body of any generated impl
  contains an `unsafe` block.
-/

namespace DW

variable {α : Type}

/-! ## No undefined behaviour -/

theorem C12_no_ub_eq (c : Cfg) (it : Item) (cx : SemCtx α) (hwf : it.WF)
    (hnu : ∀ d ∈ it.variants, d.shape ≠ .union) (a b : Val α) (ha : WfVal it a) (hb : WfVal it b) :
    ∃ v l, runMethod cx (eqMethodBody c it) a (some b) = .ok (v, l) :=
  ⟨_, _, C03_eq c it cx hwf hnu a b ha hb⟩

theorem C12_no_ub_ord (c : Cfg) (it : Item) (dw : DeriveWhere) (t : Trait)
    (ht : t = .partialOrd ∨ t = .ord) (hns : (dw.shortcut && dw.contains .ord) = false)
    (cx : SemCtx α) (hwf : it.WF) (hnu : ∀ d ∈ it.variants, d.shape ≠ .union)
    (hti : ItemTiOK cx c it)
    (hord : t = .ord → it.markedIncomparable = false ∧ ∀ d ∈ it.variants, d.incomparable = false)
    (a b : Val α) (ha : WfVal it a) (hb : WfVal it b)
    (hca : CloneOK cx dw a) (hcb : CloneOK cx dw b) :
    ∃ v l, runMethod cx (ordMethodBody c it dw t) a (some b) = .ok (v, l) := by
  obtain ⟨extra, _, h⟩ := C04_ord_refines c it dw t ht hns cx hwf hnu hti hord a b ha hb hca hcb
  exact ⟨_, _, h⟩

/-! ## `safe` ⇒ no `unsafe` -/

theorem Arm.anyUnsafe_append (l1 l2 : List Arm) :
    Arm.anyUnsafe (l1 ++ l2) = (Arm.anyUnsafe l1 || Arm.anyUnsafe l2) := by
  induction l1 with
  | nil => simp [Arm.anyUnsafe]
  | cons a l ih => cases a; simp [Arm.anyUnsafe, ih, Bool.or_assoc]

theorem Stmt.anyUnsafe_append (l1 l2 : List Stmt) :
    Stmt.anyUnsafe (l1 ++ l2) = (Stmt.anyUnsafe l1 || Stmt.anyUnsafe l2) := by
  induction l1 with
  | nil => simp [Stmt.anyUnsafe]
  | cons a l ih => simp [Stmt.anyUnsafe, ih, Bool.or_assoc]

theorem Arm.anyUnsafe_flatMap {β} (l : List β) (f : β → List Arm) (h : ∀ x ∈ l, Arm.anyUnsafe (f x) = false) :
    Arm.anyUnsafe (l.flatMap f) = false := by
  induction l with
  | nil => simp [Arm.anyUnsafe]
  | cons a l ih =>
    simp only [List.flatMap_cons, Arm.anyUnsafe_append, h a (by simp), Bool.false_or]
    exact ih (fun x hx => h x (by simp [hx]))

theorem Stmt.anyUnsafe_flatMap {β} (l : List β) (f : β → List Stmt)
    (h : ∀ x ∈ l, Stmt.anyUnsafe (f x) = false) : Stmt.anyUnsafe (l.flatMap f) = false := by
  induction l with
  | nil => simp [Stmt.anyUnsafe]
  | cons a l ih =>
    simp only [List.flatMap_cons, Stmt.anyUnsafe_append, h a (by simp), Bool.false_or]
    exact ih (fun x hx => h x (by simp [hx]))

theorem Stmt.anyUnsafe_map {β} (l : List β) (f : β → Stmt) (h : ∀ x, (f x).hasUnsafe = false) :
    Stmt.anyUnsafe (l.map f) = false := by
  induction l with
  | nil => simp [Stmt.anyUnsafe]
  | cons a l ih => simp [Stmt.anyUnsafe, h a, ih]

theorem Expr.anyUnsafe_map {β} (l : List β) (f : β → Expr) (h : ∀ x, (f x).hasUnsafe = false) :
    Expr.anyUnsafe (l.map f) = false := by
  induction l with
  | nil => simp [Expr.anyUnsafe]
  | cons a l ih => simp [Expr.anyUnsafe, h a, ih]

theorem FieldInit.anyUnsafe_map {β} (l : List β) (i : β → Nat) (f : β → Expr)
    (h : ∀ x, (f x).hasUnsafe = false) :
    FieldInit.anyUnsafe (l.map fun x => FieldInit.mk (i x) (f x)) = false := by
  induction l with
  | nil => simp [FieldInit.anyUnsafe]
  | cons a l ih => simp [FieldInit.anyUnsafe, h a, ih]

theorem Arm.anyUnsafe_map {β} (l : List β) (f : β → Arm)
    (h : ∀ x, Arm.anyUnsafe [f x] = false) : Arm.anyUnsafe (l.map f) = false := by
  induction l with
  | nil => simp [Arm.anyUnsafe]
  | cons a l ih =>
    have := h a
    cases hfa : f a with
    | mk p e c =>
      rw [hfa] at this
      simp only [Arm.anyUnsafe, Bool.or_false] at this
      simp [Arm.anyUnsafe, hfa, this, ih]

theorem eqChain_noUnsafe (k : Nat) (fs : List (Nat × Field)) : (eqChain k fs).hasUnsafe = false := by
  unfold eqChain
  suffices h : ∀ acc : Expr, acc.hasUnsafe = false →
      (fs.foldl (fun acc (p : Nat × Field) =>
        Expr.binop .and acc (.call (.traitFn .eq) [.var (.selfField k p.1), .var (.otherField k p.1)]))
        acc).hasUnsafe = false by
    exact h _ (by simp [Expr.hasUnsafe])
  induction fs with
  | nil => intro acc h; simpa using h
  | cons p fs ih =>
    intro acc h
    simp only [List.foldl_cons]
    exact ih _ (by simp [Expr.hasUnsafe, Expr.anyUnsafe, h])

theorem equalExpr_noUnsafe (t : Trait) : (equalExpr t).hasUnsafe = false := by
  unfold equalExpr; split <;> simp [Expr.hasUnsafe, Expr.anyUnsafe]

theorem ordBody_noUnsafe (t : Trait) (k : Nat) (d : Data) : (ordBody t k d).hasUnsafe = false := by
  unfold ordBody
  induction d.iterFields t with
  | nil => simpa using equalExpr_noUnsafe t
  | cons p fs ih =>
    simp only [List.foldr_cons]
    simp [Expr.hasUnsafe, Expr.anyUnsafe, Arm.anyUnsafe, ih]

theorem unreachableRest_safe (c : Cfg) (hs : c.safe = true) : (unreachableRest c).hasUnsafe = false := by
  simp [unreachableRest, hs, Expr.hasUnsafe]

theorem partialEqBody_noUnsafe (k : Nat) (d : Data) : Arm.anyUnsafe (partialEqBody k d) = false := by
  unfold partialEqBody
  split
  · rfl
  · split <;> simp [Arm.anyUnsafe, eqChain_noUnsafe]

theorem ordArmsFor_noUnsafe (t : Trait) (dw : DeriveWhere) (k : Nat) (d : Data) :
    Arm.anyUnsafe (ordArmsFor t dw k d) = false := by
  unfold ordArmsFor partialOrdBody ordArms
  split
  · split
    · rfl
    · split <;> simp [Arm.anyUnsafe, ordBody_noUnsafe]
  · split
    · rfl
    · split <;> simp [Arm.anyUnsafe, ordBody_noUnsafe]

theorem eqIncArms_noUnsafe (vs : List Data) : Arm.anyUnsafe (eqIncArms vs) = false := by
  unfold eqIncArms; split <;> simp [Arm.anyUnsafe, Expr.hasUnsafe]

theorem eqIncStmts_noUnsafe (vs : List Data) : Stmt.anyUnsafe (eqIncStmts vs) = false := by
  unfold eqIncStmts; split <;> simp [Stmt.anyUnsafe, Stmt.hasUnsafe, Expr.hasUnsafe, vSelf]

theorem ordIncStmts_noUnsafe (vs : List Data) : Stmt.anyUnsafe (ordIncStmts vs) = false := by
  unfold ordIncStmts
  split <;> simp [Stmt.anyUnsafe, Stmt.hasUnsafe, Expr.hasUnsafe, matchesEither, vSelf, vOther]

theorem toExpr_noUnsafe (b : Blk) (h1 : Stmt.anyUnsafe b.stmts = false) (h2 : b.tail.hasUnsafe = false) :
    b.toExpr.hasUnsafe = false := by
  unfold Blk.toExpr; split <;> simp_all [Expr.hasUnsafe]

theorem C12_safe_eq (c : Cfg) (hs : c.safe = true) (it : Item) : (eqMethodBody c it).hasUnsafe = false := by
  have harms : Arm.anyUnsafe (it.indexed.flatMap fun (k, d) => partialEqBody k d) = false :=
    Arm.anyUnsafe_flatMap _ _ (fun x _ => partialEqBody_noUnsafe x.1 x.2)
  unfold eqMethodBody partialEqSignature
  split
  · rfl
  · cases it with
    | item d => simp only; split <;> simp [Expr.hasUnsafe, tupleSO, vSelf, vOther, Expr.anyUnsafe, harms]
    | enum_ disc id inc vs =>
      simp only
      split
      · split
        · have hrest : (if (vs.any fun v => v.isEmpty .partialEq && !v.incomparable) = true
              then Expr.litBool true else unreachableRest c).hasUnsafe = false := by
            split
            · rfl
            · exact unreachableRest_safe c hs
          simp only [Expr.hasUnsafe, discEq, tupleSO, vSelf, vOther, Expr.anyUnsafe, Arm.anyUnsafe_append,
            harms, eqIncArms_noUnsafe, Arm.anyUnsafe, hrest, Bool.or_false, Bool.false_or]
        · have := toExpr_noUnsafe ⟨eqIncStmts vs, .litBool true⟩ (eqIncStmts_noUnsafe vs) rfl
          simp [Expr.hasUnsafe, discEq, vSelf, vOther, Expr.anyUnsafe, this]
      · split <;> simp [Expr.hasUnsafe, tupleSO, vSelf, vOther, Expr.anyUnsafe, harms]

theorem discArms_noUnsafe (validate : Bool) (ds : List Expr) (h : Expr.anyUnsafe ds = false) :
    Arm.anyUnsafe (discArms validate ds) = false := by
  unfold discArms
  generalize ds.length = n
  suffices hgo : ∀ (l : List Expr) (n0 : Nat), Expr.anyUnsafe l = false →
      Arm.anyUnsafe ((l.zipIdx n0).map fun (d, k) =>
        Arm.mk (.ctor k .self_ false) (if validate then .validateConst k d else d) (k + 1 != n)) = false by
    exact hgo ds 0 h
  intro l
  induction l with
  | nil => intros; rfl
  | cons e l ih =>
    intro n0 hl
    simp only [Expr.anyUnsafe, Bool.or_eq_false_iff] at hl
    simp only [List.zipIdx_cons, List.map_cons, Arm.anyUnsafe, ih (n0 + 1) hl.2, Bool.or_false]
    cases validate <;> simp [Expr.hasUnsafe, hl.1]

theorem buildDiscriminantsGo_noUnsafe (vs : List Data) (k : Nat) (st : DiscState) (acc : List Expr)
    (h : Expr.anyUnsafe acc = false) (hg : ∀ i, (acc.getD i .unit).hasUnsafe = false) :
    Expr.anyUnsafe (buildDiscriminantsGo vs k st acc) = false := by
  have happ : ∀ (l : List Expr) (e : Expr), Expr.anyUnsafe l = false → e.hasUnsafe = false →
      Expr.anyUnsafe (l ++ [e]) = false := by
    intro l e
    induction l with
    | nil => intro _ he; simp [Expr.anyUnsafe, he]
    | cons x l ih =>
      intro hl he
      simp only [Expr.anyUnsafe, Bool.or_eq_false_iff] at hl
      simp [Expr.anyUnsafe, hl.1, ih hl.2 he]
  have hgetD : ∀ (l : List Expr) (e : Expr), (∀ i, (l.getD i .unit).hasUnsafe = false) →
      e.hasUnsafe = false → ∀ i, ((l ++ [e]).getD i .unit).hasUnsafe = false := by
    intro l e hl he i
    by_cases hi : i < l.length
    · have := hl i
      simpa [List.getD, List.getElem?_append_left hi] using this
    · by_cases hi2 : i = l.length
      · subst hi2; simp [List.getD, he]
      · have : l.length + 1 ≤ i := by omega
        simp [List.getD, List.getElem?_eq_none (l := l ++ [e]) (by simp; omega), Expr.hasUnsafe]
  induction vs generalizing k st acc with
  | nil => simpa [buildDiscriminantsGo] using h
  | cons v vs ih =>
    unfold buildDiscriminantsGo
    split
    · exact ih _ _ _ (happ _ _ h rfl) (hgetD _ _ hg rfl)
    · split
      · rename_i idx counter
        have he : (Expr.binop .add (.paren (acc.getD idx .unit)) (.litInt (counter + 1))).hasUnsafe = false := by
          have := hg idx
          simp only [Expr.hasUnsafe, this, Bool.or_false]
        exact ih _ _ _ (happ _ _ h he) (hgetD _ _ hg he)
      · exact ih _ _ _ (happ _ _ h rfl) (hgetD _ _ hg rfl)
      · exact ih _ _ _ (happ _ _ h rfl) (hgetD _ _ hg rfl)

theorem buildDiscriminants_noUnsafe (vs : List Data) : Expr.anyUnsafe (buildDiscriminants vs) = false :=
  buildDiscriminantsGo_noUnsafe vs 0 none [] rfl (fun i => by simp [List.getD, Expr.hasUnsafe])

theorem discriminantComparison_noUnsafe (repr : Option IntTy) (validate : Option (List Stmt))
    (vs : List Data) (m : TraitFn) (hv : Stmt.anyUnsafe (validate.getD []) = false) :
    Stmt.anyUnsafe (discriminantComparison repr validate (buildDiscriminants vs) m).stmts = false ∧
    (discriminantComparison repr validate (buildDiscriminants vs) m).tail.hasUnsafe = false := by
  have := discArms_noUnsafe validate.isSome _ (buildDiscriminants_noUnsafe vs)
  simp [discriminantComparison, Stmt.anyUnsafe, Stmt.hasUnsafe, Expr.hasUnsafe, Expr.anyUnsafe, discCall, this, hv]

theorem validateDefs_noUnsafe (vs : List Data) :
    Stmt.anyUnsafe ((buildDiscriminants vs).zipIdx.map fun (d, k) => Stmt.validateDef k d) = false := by
  have h := buildDiscriminants_noUnsafe vs
  generalize buildDiscriminants vs = l at h
  suffices hgo : ∀ (l : List Expr) (n0 : Nat), Expr.anyUnsafe l = false →
      Stmt.anyUnsafe ((l.zipIdx n0).map fun (d, k) => Stmt.validateDef k d) = false by
    exact hgo l 0 h
  intro l
  induction l with
  | nil => intros; rfl
  | cons e l ih =>
    intro n0 hl
    simp only [Expr.anyUnsafe, Bool.or_eq_false_iff] at hl
    simp [Stmt.anyUnsafe, Stmt.hasUnsafe, hl.1, ih (n0 + 1) hl.2]

theorem castCmp_noUnsafe (m : TraitFn) (conv : Expr → Expr) (h1 : (conv vSelf).hasUnsafe = false)
    (h2 : (conv vOther).hasUnsafe = false) : (castCmp m conv).hasUnsafe = false := by
  simp [castCmp, Expr.hasUnsafe, Expr.anyUnsafe, h1, h2]

theorem ordBodyElse_noUnsafe (c : Cfg) (hs : c.safe = true) (dw : DeriveWhere) (disc : Discriminant)
    (vs : List Data) (m : TraitFn) :
    Stmt.anyUnsafe (ordBodyElse c dw disc vs m).stmts = false ∧
      (ordBodyElse c dw disc vs m).tail.hasUnsafe = false := by
  have hcast1 := castCmp_noUnsafe m (fun e => .cast (.deref e) .isize) rfl rfl
  have hclone1 := castCmp_noUnsafe m (fun e => .cast (.selfCall .clone [e]) .isize) rfl rfl
  have hvalidate : Stmt.anyUnsafe ((if vs.any (·.discriminant.isSome) = true then
      some ((buildDiscriminants vs).zipIdx.map fun (d, k) => Stmt.validateDef k d) else none).getD []) = false := by
    split
    · exact validateDefs_noUnsafe vs
    · rfl
  cases disc with
  | single => simp [ordBodyElse, Stmt.anyUnsafe, Expr.hasUnsafe]
  | unit =>
    simp only [ordBodyElse]
    split
    · exact ⟨hvalidate, hcast1⟩
    · split
      · exact ⟨hvalidate, hclone1⟩
      · exact discriminantComparison_noUnsafe none _ vs m hvalidate
  | data => exact discriminantComparison_noUnsafe none none vs m rfl
  | unitRepr r =>
    simp only [ordBodyElse]
    split
    · exact ⟨rfl, castCmp_noUnsafe m (fun e => .cast (.deref e) r) rfl rfl⟩
    · split
      · exact ⟨rfl, castCmp_noUnsafe m (fun e => .cast (.selfCall .clone [e]) r) rfl rfl⟩
      · have := discriminantComparison_noUnsafe (some r) none vs m rfl
        simpa [hs] using this
  | dataRepr r =>
    have := discriminantComparison_noUnsafe (some r) none vs m rfl
    simpa [ordBodyElse, hs] using this

theorem ordBodyEqual_noUnsafe (c : Cfg) (hs : c.safe = true) (it : Item) (vs : List Data) (t : Trait)
    (arms : List Arm) (harms : Arm.anyUnsafe arms = false) :
    ∀ be, ordBodyEqual c it vs t arms = some be → be.hasUnsafe = false := by
  intro be hbe
  unfold ordBodyEqual at hbe
  split at hbe
  · cases hbe
  · split at hbe <;> cases hbe <;>
      simp [Expr.hasUnsafe, tupleSO, vSelf, vOther, Expr.anyUnsafe, Arm.anyUnsafe_append, harms, Arm.anyUnsafe,
        equalExpr_noUnsafe, unreachableRest_safe c hs]

theorem C12_safe_ordSignature (c : Cfg) (hs : c.safe = true) (it : Item) (dw : DeriveWhere) (t : Trait)
    (arms : List Arm) (harms : Arm.anyUnsafe arms = false) :
    (ordSignature c it dw t arms).hasUnsafe = false := by
  have hsingle : (if it.isEmpty t = true then equalExpr t else Expr.match_ tupleSO arms).hasUnsafe = false := by
    split
    · exact equalExpr_noUnsafe t
    · simp [Expr.hasUnsafe, tupleSO, vSelf, vOther, Expr.anyUnsafe, harms]
  unfold ordSignature
  split
  · rfl
  · cases it with
    | item d => exact hsingle
    | enum_ disc id inc vs =>
      simp only
      split
      · have hbe := ordBodyEqual_noUnsafe c hs (.enum_ disc id inc vs) vs t arms harms
        unfold ordMulti
        simp only
        split
        · -- single comparable variant
          simp only [ordSingleComparable, Expr.hasUnsafe, matchesEither, vSelf, vOther, Bool.or_false,
            Bool.false_or]
          split
          · exact equalExpr_noUnsafe t
          · cases hb : ordBodyEqual c (.enum_ disc id inc vs) vs t arms with
            | none => simpa using equalExpr_noUnsafe t
            | some be => simpa using hbe be hb
        · split
          · -- nightly
            unfold ordNightly
            cases hb : ordBodyEqual c (.enum_ disc id inc vs) vs t arms with
            | none =>
              simp only
              apply toExpr_noUnsafe
              · exact ordIncStmts_noUnsafe vs
              · simp [Expr.hasUnsafe, Expr.anyUnsafe, vSelf, vOther]
            | some be =>
              simp [Expr.hasUnsafe, Stmt.anyUnsafe_append, ordIncStmts_noUnsafe, letDiscs, Stmt.anyUnsafe,
                Stmt.hasUnsafe, Expr.anyUnsafe, vSelf, vOther, discsEqual, hbe be hb]
          · have helse := ordBodyElse_noUnsafe c hs dw disc vs (ordFn t)
            unfold ordStable
            cases hb : ordBodyEqual c (.enum_ disc id inc vs) vs t arms with
            | none =>
              simp only
              apply toExpr_noUnsafe
              · simp [Stmt.anyUnsafe_append, ordIncStmts_noUnsafe, helse.1]
              · exact helse.2
            | some be =>
              have := toExpr_noUnsafe _ helse.1 helse.2
              simp [Expr.hasUnsafe, Stmt.anyUnsafe_append, ordIncStmts_noUnsafe, letDiscs, Stmt.anyUnsafe,
                Stmt.hasUnsafe, Expr.anyUnsafe, vSelf, vOther, discsEqual, hbe be hb, this]
      · exact hsingle

theorem partialOrdBody_noUnsafe (dw : DeriveWhere) (k : Nat) (d : Data) :
    Arm.anyUnsafe (partialOrdBody dw k d) = false := by
  have := ordArmsFor_noUnsafe .partialOrd dw k d
  simpa [ordArmsFor] using this

theorem ordArms_noUnsafe (k : Nat) (d : Data) : Arm.anyUnsafe (ordArms k d) = false := by
  have := ordArmsFor_noUnsafe .ord ⟨[], []⟩ k d
  simpa [ordArmsFor] using this

theorem semiMap_noUnsafe {β} (l : List β) (f : β → Expr) (h : ∀ x, (f x).hasUnsafe = false) :
    Stmt.anyUnsafe (l.map fun x => Stmt.semi (f x)) = false :=
  Stmt.anyUnsafe_map _ _ (fun x => by simp [Stmt.hasUnsafe, h x])

theorem cloneBody_noUnsafe (dw : DeriveWhere) (k : Nat) (d : Data) :
    Arm.anyUnsafe (cloneBody dw k d) = false := by
  unfold cloneBody
  cases h : (dw.shortcut && dw.contains .copy)
  · simp only [Bool.false_eq_true, if_false]
    cases hs : d.shape <;> simp only [Arm.anyUnsafe, Expr.hasUnsafe, Bool.or_false]
    · exact FieldInit.anyUnsafe_map (d.iterFields .clone) (fun (p : Nat × Field) => p.1)
        (fun p => .call (.traitFn .clone) [.var (.selfField k p.1)])
        (fun p => by simp [Expr.hasUnsafe, Expr.anyUnsafe])
    · exact Expr.anyUnsafe_map (d.iterFields .clone)
        (fun (p : Nat × Field) => Expr.call (.traitFn .clone) [.var (.selfField k p.1)])
        (fun p => by simp [Expr.hasUnsafe, Expr.anyUnsafe])
  · simp [Arm.anyUnsafe]

theorem debugBody_noUnsafe (k : Nat) (d : Data) : Arm.anyUnsafe (debugBody k d) = false := by
  unfold debugBody
  cases hs : d.shape <;> simp only [Arm.anyUnsafe, Expr.hasUnsafe, Bool.or_false, List.singleton_append,
    Stmt.anyUnsafe, Stmt.hasUnsafe, Expr.anyUnsafe, Bool.false_or]
  · rw [semiMap_noUnsafe (d.iterFields .debug) (fun (p : Nat × Field) => Expr.call .dsField
      [.refMut (.var .builder), .litStr (.fieldName k p.1), .var (.selfField k p.1)])
      (fun p => by simp [Expr.hasUnsafe, Expr.anyUnsafe])]
    try (split <;> rfl)
  · rw [semiMap_noUnsafe (d.iterFields .debug) (fun (p : Nat × Field) => Expr.call .dtField
      [.refMut (.var .builder), .var (.selfField k p.1)])
      (fun p => by simp [Expr.hasUnsafe, Expr.anyUnsafe])]

theorem hashBody_noUnsafe (k : Nat) (d : Data) : Arm.anyUnsafe (hashBody k d) = false := by
  unfold hashBody
  have hdisc : Stmt.anyUnsafe (if d.isVariant = true then
      [Stmt.semi (.call (.traitFn .hash) [.ref (.call .memDiscriminant [vSelf]), .var .state])] else []) = false := by
    split <;> simp [Stmt.anyUnsafe, Stmt.hasUnsafe, Expr.hasUnsafe, Expr.anyUnsafe, vSelf]
  have hloop := semiMap_noUnsafe (d.iterFields .hash)
    (fun (p : Nat × Field) => Expr.call (.traitFn .hash) [.var (.selfField k p.1), .var .state])
    (fun p => by simp [Expr.hasUnsafe, Expr.anyUnsafe])
  cases hs : d.shape <;>
    simp only [Arm.anyUnsafe, Expr.hasUnsafe, Bool.or_false, Stmt.anyUnsafe_append, hdisc, Bool.false_or, hloop]

theorem zeroizeBody_noUnsafe (k : Nat) (d : Data) : Arm.anyUnsafe (zeroizeBody k d) = false := by
  unfold zeroizeBody
  have hloop : Stmt.anyUnsafe ((d.iterFields .zeroize).map fun (p : Nat × Field) =>
      if p.2.fqs then Stmt.semi (.call (.traitFn .zeroize) [.var (.selfField k p.1)])
      else Stmt.semi (.methodCall (.var (.selfField k p.1)) .zeroize)) = false :=
    Stmt.anyUnsafe_map _ _ (fun p => by
      cases p.2.fqs <;> simp [Stmt.hasUnsafe, Expr.hasUnsafe, Expr.anyUnsafe])
  cases h : d.isEmpty .zeroize
  · simp only [Bool.false_eq_true, if_false]
    cases hs : d.shape <;> simp only [Arm.anyUnsafe, Expr.hasUnsafe, Bool.or_false, hloop]
  · simp [Arm.anyUnsafe, Expr.hasUnsafe, Stmt.anyUnsafe]

theorem zodArms_noUnsafe (k : Nat) (d : Data) : Arm.anyUnsafe (zodArms k d) = false := by
  unfold zodArms
  have hloop := semiMap_noUnsafe (d.iterFields .zeroizeOnDrop)
    (fun (p : Nat × Field) => Expr.methodCall (.var (.selfField k p.1)) .zeroizeOrOnDrop)
    (fun p => by simp [Expr.hasUnsafe])
  cases h : d.isEmpty .zeroizeOnDrop
  · simp only [Bool.false_eq_true, if_false]
    cases hs : d.shape <;> simp only [Arm.anyUnsafe, Expr.hasUnsafe, Bool.or_false, hloop]
  · simp [Arm.anyUnsafe, Expr.hasUnsafe, Stmt.anyUnsafe]

theorem zodStmts_noUnsafe (d : Data) : Stmt.anyUnsafe (zodStmts d) = false := by
  unfold zodStmts
  cases h : d.isEmpty .zeroizeOnDrop
  · simp only [Bool.false_eq_true, if_false]
    cases hs : d.shape <;> simp [Stmt.anyUnsafe, Stmt.hasUnsafe, Expr.hasUnsafe, Expr.anyUnsafe, vSelf]
  · simp [Stmt.anyUnsafe]

theorem defaultBody_noUnsafe (k : Nat) (d : Data) : Expr.anyUnsafe (defaultBody k d) = false := by
  unfold defaultBody
  cases h : d.isDefault
  · simp [Expr.anyUnsafe]
  · simp only [if_true]
    cases hs : d.shape <;> simp only [Expr.anyUnsafe, Expr.hasUnsafe, Bool.or_false]
    · exact FieldInit.anyUnsafe_map (d.iterFields .default) (fun (p : Nat × Field) => p.1)
        (fun p => .defaultCall k p.1) (fun p => rfl)
    · exact Expr.anyUnsafe_map (d.iterFields .default) (fun (p : Nat × Field) => Expr.defaultCall k p.1)
        (fun p => rfl)

theorem Expr.anyUnsafe_append (l1 l2 : List Expr) :
    Expr.anyUnsafe (l1 ++ l2) = (Expr.anyUnsafe l1 || Expr.anyUnsafe l2) := by
  induction l1 with
  | nil => simp [Expr.anyUnsafe]
  | cons a l ih => simp [Expr.anyUnsafe, ih, Bool.or_assoc]

theorem Expr.anyUnsafe_flatMap {β} (l : List β) (f : β → List Expr)
    (h : ∀ x ∈ l, Expr.anyUnsafe (f x) = false) : Expr.anyUnsafe (l.flatMap f) = false := by
  induction l with
  | nil => simp [Expr.anyUnsafe]
  | cons a l ih =>
    simp only [List.flatMap_cons, Expr.anyUnsafe_append, h a (by simp), Bool.false_or]
    exact ih (fun x hx => h x (by simp [hx]))

/-- `C12_safe_no_unsafe`: with the `safe` feature no generated method body
contains an `unsafe` block, for any item, attribute and trait. -/
theorem C12_safe_no_unsafe (c : Cfg) (hs : c.safe = true) (it : Item) (dw : DeriveWhere) (t : Trait) :
    ∀ m ∈ (generateBody c it dw t).toList, m.body.hasUnsafe = false := by
  intro m hm
  cases t <;> simp only [generateBody, Option.toList, List.mem_singleton, List.not_mem_nil] at hm
  case clone =>
    subst hm
    simp only [cloneSignature]
    split
    · rfl
    · split
      · rfl
      · simp only [Expr.hasUnsafe, vSelf, Bool.false_or]
        exact Arm.anyUnsafe_flatMap _ _ (fun x _ => cloneBody_noUnsafe dw x.1 x.2)
  case debug =>
    subst hm
    simp only [Expr.hasUnsafe, vSelf, Bool.false_or]
    exact Arm.anyUnsafe_flatMap _ _ (fun x _ => debugBody_noUnsafe x.1 x.2)
  case default =>
    subst hm
    simp only [Expr.hasUnsafe]
    exact Expr.anyUnsafe_flatMap _ _ (fun x _ => defaultBody_noUnsafe x.1 x.2)
  case eq =>
    subst hm
    simp only [Expr.hasUnsafe, Stmt.anyUnsafe, Stmt.hasUnsafe, Bool.false_or, Bool.or_false]
    exact Stmt.anyUnsafe_flatMap _ _ (fun x _ => Stmt.anyUnsafe_map _ _ (fun (p : Nat × Field) => rfl))
  case hash =>
    subst hm
    simp only [Expr.hasUnsafe, vSelf, Bool.false_or]
    exact Arm.anyUnsafe_flatMap _ _ (fun x _ => hashBody_noUnsafe x.1 x.2)
  case ord =>
    subst hm
    exact C12_safe_ordSignature c hs it dw .ord _
      (Arm.anyUnsafe_flatMap _ _ (fun x _ => ordArms_noUnsafe x.1 x.2))
  case partialEq =>
    subst hm
    exact C12_safe_eq c hs it
  case partialOrd =>
    subst hm
    simp only [partialOrdSignature]
    split
    · simp [Expr.hasUnsafe, Expr.anyUnsafe, vSelf, vOther]
    · exact C12_safe_ordSignature c hs it dw .partialOrd _
        (Arm.anyUnsafe_flatMap _ _ (fun x _ => partialOrdBody_noUnsafe dw x.1 x.2))
  case zeroize =>
    subst hm
    have harms : Arm.anyUnsafe (it.indexed.flatMap fun (k, d) => zeroizeBody k d) = false :=
      Arm.anyUnsafe_flatMap _ _ (fun x _ => zeroizeBody_noUnsafe x.1 x.2)
    simp only [zeroizeSignature]
    cases it with
    | item d => simp only; split <;> simp [Expr.hasUnsafe, Stmt.anyUnsafe, Stmt.hasUnsafe, vSelf, harms]
    | enum_ => simp [Expr.hasUnsafe, Stmt.anyUnsafe, Stmt.hasUnsafe, vSelf, harms]
  case zeroizeOnDrop =>
    subst hm
    have hgen : (if c.zod = true then
        Expr.block [.useAsserts] (.match_ vSelf (it.indexed.flatMap fun (k, d) => zodArms k d))
        else .block (it.variants.flatMap zodStmts) .unit).hasUnsafe = false := by
      split
      · have := Arm.anyUnsafe_flatMap it.indexed (fun x => zodArms x.1 x.2)
          (fun x _ => zodArms_noUnsafe x.1 x.2)
        simp [Expr.hasUnsafe, Stmt.anyUnsafe, Stmt.hasUnsafe, vSelf, this]
      · have := Stmt.anyUnsafe_flatMap it.variants zodStmts (fun x _ => zodStmts_noUnsafe x)
        simp [Expr.hasUnsafe, this]
    simp only [zodSignature]
    cases it with
    | item d => simp only; split; · rfl
                exact hgen
    | enum_ => exact hgen

end DW
