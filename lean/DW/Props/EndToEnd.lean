import DW.Props.C02
import DW.Props.C03
import DW.Props.C04
import DW.Props.C12
import DW.Props.C08
import DW.Props.C09
import DW.Props.C10
import DW.Props.C11
import DW.Props.C18
import DW.Props.C19

/-!
# From the attribute tokens to the behaviour, in one statement per property

The refinement theorems of `C03` … `C19` are stated for an arbitrary `Item` of the IR under the hypotheses `it.WF` and
"no union shape".  These are exactly what the validation establishes, so each theorem has an end-to-end form:
**for every raw item over the attribute alphabet that `Input::from_input` accepts** (any configuration, any attribute
carrying the trait), the method the generator emits for it evaluates, on all well-formed values, to what the
specification says.  Nothing is assumed about the item beyond `RawOK` (rustc's own guarantees about a `DeriveInput`).
-/

namespace DW

variable {α : Type}

/-- A validated item whose attribute derives anything but `Clone`/`Copy` is well-formed and has no union shape. -/
theorem validated_item_ok (c : Cfg) (raw : RawItem) (hraw : RawOK raw) (inp : Input)
    (h : Input.fromInput c raw = .ok inp) (dw : DeriveWhere) (hdw : dw ∈ inp.deriveWheres)
    (t : DeriveTrait) (ht : t ∈ dw.traits) (hne : t.trait ≠ .clone ∧ t.trait ≠ .copy) :
    inp.item.WF ∧ ∀ d ∈ inp.item.variants, d.shape ≠ .union := by
  have ty := typeable_of_validated c raw hraw inp h dw hdw t ht
  refine ⟨ty.wf, ?_⟩
  cases hu : isUnion inp.item
  · exact ty.shapes hu
  · rcases ty.unionTraits hu with h' | h'
    · exact absurd h' hne.1
    · exact absurd h' hne.2

/-- C03, end to end: the generated `eq` of every accepted item is the structural equality of the specification. -/
theorem C03_validated (c : Cfg) (raw : RawItem) (hraw : RawOK raw) (inp : Input)
    (h : Input.fromInput c raw = .ok inp) (dw : DeriveWhere) (hdw : dw ∈ inp.deriveWheres)
    (t : DeriveTrait) (ht : t ∈ dw.traits) (htr : t.trait = .partialEq) (cx : SemCtx α) (a b : Val α)
    (ha : WfVal inp.item a) (hb : WfVal inp.item b) :
    ∃ m, generateBody c inp.item dw t.trait = some m ∧ m.sig = .eq ∧
      runMethod cx m.body a (some b) = .ok (.bool (specEq cx.ops inp.item a b), []) := by
  obtain ⟨hwf, hnu⟩ := validated_item_ok c raw hraw inp h dw hdw t ht (by simp [htr])
  rw [htr]
  exact ⟨_, rfl, rfl, C03_eq c inp.item cx hwf hnu a b ha hb⟩

/-- C08, end to end: the generated `hash` feeds the hasher the specified transcript. -/
theorem C08_validated (c : Cfg) (raw : RawItem) (hraw : RawOK raw) (inp : Input)
    (h : Input.fromInput c raw = .ok inp) (dw : DeriveWhere) (hdw : dw ∈ inp.deriveWheres)
    (t : DeriveTrait) (ht : t ∈ dw.traits) (htr : t.trait = .hash) (cx : SemCtx α) (a : Val α)
    (ha : WfVal inp.item a) :
    ∃ m, generateBody c inp.item dw t.trait = some m ∧ m.sig = .hash ∧
      runMethod cx m.body a none = .ok (.unit, specHashLog inp.item a) := by
  obtain ⟨hwf, hnu⟩ := validated_item_ok c raw hraw inp h dw hdw t ht (by simp [htr])
  rw [htr]
  exact ⟨_, rfl, rfl, C08_transcript inp.item cx hwf hnu a ha⟩

/-- C09, end to end (no `*self` delegation, no union): `clone` rebuilds the value field by field. -/
theorem C09_validated (c : Cfg) (raw : RawItem) (hraw : RawOK raw) (inp : Input)
    (h : Input.fromInput c raw = .ok inp) (dw : DeriveWhere) (hdw : dw ∈ inp.deriveWheres)
    (t : DeriveTrait) (ht : t ∈ dw.traits) (htr : t.trait = .clone)
    (hns : (dw.shortcut && dw.contains .copy) = false) (hu : isUnion inp.item = false) (cx : SemCtx α) (a : Val α)
    (ha : WfVal inp.item a) :
    ∃ m, generateBody c inp.item dw t.trait = some m ∧ m.sig = .clone ∧
      runMethod cx m.body a none = .ok (specCloneVal cx.ops a, specCloneLog a) := by
  have ty := typeable_of_validated c raw hraw inp h dw hdw t ht
  rw [htr]
  exact ⟨_, rfl, rfl, C09_fieldwise inp.item dw cx hns ty.wf (ty.shapes hu) a ha⟩

/-- C10, end to end: the generated `fmt` makes the specified formatter calls. -/
theorem C10_validated (c : Cfg) (raw : RawItem) (hraw : RawOK raw) (inp : Input)
    (h : Input.fromInput c raw = .ok inp) (dw : DeriveWhere) (hdw : dw ∈ inp.deriveWheres)
    (t : DeriveTrait) (ht : t ∈ dw.traits) (htr : t.trait = .debug) (cx : SemCtx α) (a : Val α)
    (ha : WfVal inp.item a) :
    ∃ m, generateBody c inp.item dw t.trait = some m ∧ m.sig = .fmt ∧
      runMethod cx m.body a none = .ok (.unit, specDebugLog inp.item a) := by
  obtain ⟨hwf, hnu⟩ := validated_item_ok c raw hraw inp h dw hdw t ht (by simp [htr])
  rw [htr]
  exact ⟨_, rfl, rfl, C10_transcript inp.item cx hwf hnu a ha⟩

/-- C18, end to end: `zeroize` wipes exactly the non-skipped fields of the live variant. -/
theorem C18_validated (c : Cfg) (raw : RawItem) (hraw : RawOK raw) (inp : Input)
    (h : Input.fromInput c raw = .ok inp) (dw : DeriveWhere) (hdw : dw ∈ inp.deriveWheres)
    (t : DeriveTrait) (ht : t ∈ dw.traits) (htr : t.trait = .zeroize) (cx : SemCtx α) (a : Val α)
    (ha : WfVal inp.item a) :
    ∃ m, generateBody c inp.item dw t.trait = some m ∧ m.sig = .zeroize ∧
      runMethod cx m.body a none = .ok (.unit, specZeroizeLog inp.item .zeroize zvia a) := by
  obtain ⟨hwf, hnu⟩ := validated_item_ok c raw hraw inp h dw hdw t ht (by simp [htr])
  rw [htr]
  exact ⟨_, rfl, rfl, C18_effect inp.item cx hwf hnu a ha⟩

/-- C19, end to end (`zeroize-on-drop`): dropping wipes exactly the non-skipped fields of the live variant. -/
theorem C19_validated (c : Cfg) (hz : c.zod = true) (raw : RawItem) (hraw : RawOK raw) (inp : Input)
    (h : Input.fromInput c raw = .ok inp) (dw : DeriveWhere) (hdw : dw ∈ inp.deriveWheres)
    (t : DeriveTrait) (ht : t ∈ dw.traits) (htr : t.trait = .zeroizeOnDrop) (cx : SemCtx α) (a : Val α)
    (ha : WfVal inp.item a) :
    ∃ m, generateBody c inp.item dw t.trait = some m ∧ m.sig = .drop ∧
      runMethod cx m.body a none = .ok (.unit, specZeroizeLog inp.item .zeroizeOnDrop (fun _ => .orOnDrop) a) := by
  obtain ⟨hwf, hnu⟩ := validated_item_ok c raw hraw inp h dw hdw t ht (by simp [htr])
  rw [htr]
  exact ⟨_, rfl, rfl, C19_effect_zod c hz inp.item cx hwf hnu a ha⟩

/-- The method body the generator emits for `PartialOrd` / `Ord` when `PartialOrd` does not delegate to `Ord`. -/
theorem generateBody_ord (c : Cfg) (it : Item) (dw : DeriveWhere) (t : Trait) (ht : t = .partialOrd ∨ t = .ord)
    (hns : (dw.shortcut && dw.contains .ord) = false) :
    ∃ m, generateBody c it dw t = some m ∧ m.body = ordMethodBody c it dw t := by
  rcases ht with rfl | rfl
  · exact ⟨_, rfl, by simp [partialOrdSignature, hns, ordMethodBody, ordArmsFor]⟩
  · exact ⟨_, rfl, by simp [ordMethodBody, ordArmsFor]⟩

/-- C04, end to end: for every accepted item the generated `partial_cmp` / `cmp` (no delegation to `Ord`) computes
the specified ordering — by discriminant value across variants, lexicographically over the non-skipped fields within
one — in every configuration and for every discriminant strategy; the only facts assumed are rustc's (`ItemTiOK`:
discriminant values, representation) and that the sibling `Clone` impl, when it is used to read the discriminant,
returns its argument. -/
theorem C04_validated (c : Cfg) (raw : RawItem) (hraw : RawOK raw) (inp : Input)
    (h : Input.fromInput c raw = .ok inp) (dw : DeriveWhere) (hdw : dw ∈ inp.deriveWheres)
    (t : DeriveTrait) (ht : t ∈ dw.traits) (htr : t.trait = .partialOrd ∨ t.trait = .ord)
    (hns : (dw.shortcut && dw.contains .ord) = false) (cx : SemCtx α) (hti : ItemTiOK cx c inp.item)
    (a b : Val α) (ha : WfVal inp.item a) (hb : WfVal inp.item b) (hca : CloneOK cx dw a) (hcb : CloneOK cx dw b) :
    ∃ m, generateBody c inp.item dw t.trait = some m ∧ ∃ extra, OnlySelfClone extra ∧
      runMethod cx m.body a (some b) = .ok (specOrdVal t.trait cx.ops cx.ti inp.item a b, extra) := by
  obtain ⟨hwf, hnu⟩ := validated_item_ok c raw hraw inp h dw hdw t ht (by rcases htr with h' | h' <;> simp [h'])
  have ty := typeable_of_validated c raw hraw inp h dw hdw t ht
  obtain ⟨m, hm, hbody⟩ := generateBody_ord c inp.item dw t.trait htr hns
  refine ⟨m, hm, ?_⟩
  rw [hbody]
  exact C04_ord_refines c inp.item dw t.trait htr hns cx hwf hnu hti
    (fun ho => ⟨not_isIncomparable_marked _ (ty.ordNoInc ho).1, (ty.ordNoInc ho).2⟩) a b ha hb hca hcb

/-- C12, end to end: no generated comparison of an accepted item executes undefined behaviour, gets stuck or
panics — it returns a value — for all well-formed operands, in every configuration. -/
theorem C12_validated (c : Cfg) (raw : RawItem) (hraw : RawOK raw) (inp : Input)
    (h : Input.fromInput c raw = .ok inp) (dw : DeriveWhere) (hdw : dw ∈ inp.deriveWheres)
    (t : DeriveTrait) (ht : t ∈ dw.traits) (htr : t.trait = .partialOrd ∨ t.trait = .ord)
    (hns : (dw.shortcut && dw.contains .ord) = false) (cx : SemCtx α) (hti : ItemTiOK cx c inp.item)
    (a b : Val α) (ha : WfVal inp.item a) (hb : WfVal inp.item b) (hca : CloneOK cx dw a) (hcb : CloneOK cx dw b) :
    ∃ m, generateBody c inp.item dw t.trait = some m ∧ ∃ v l, runMethod cx m.body a (some b) = .ok (v, l) := by
  obtain ⟨m, hm, extra, _, hrun⟩ := C04_validated c raw hraw inp h dw hdw t ht htr hns cx hti a b ha hb hca hcb
  exact ⟨m, hm, _, _, hrun⟩

end DW
