import DW.Render
import DW.Sem
import DW.Spec
import DW.Sexp
import DW.Fmt

/-!
# Driver side of correspondence B

For one item and a list of queries (operation + operand values) print what the
*specification* says and what *evaluating the model's generated code* yields.
Leaves are pairs `(position, value)`; the operations look at the value only.
The probe semantics of leaf values must match `/verif/exec/prelude.rs`:
value 99 is "NaN-like" (unequal and unordered to everything, itself included).
-/

namespace DW

abbrev PLeaf := Nat × Nat

def probeOps : FieldOps PLeaf where
  eq a b := a.2 == b.2 && a.2 != 99
  pcmp a b := if a.2 == 99 || b.2 == 99 then none else some (compare a.2 b.2)
  cmp a b := compare a.2 b.2
  clone a := a
  default _ i := (i, 7)

/-- rustc's view of the type, computed from the raw item (not from the macro's IR). -/
def rawDataOf (v : RawVariant) : Data :=
  ⟨.none, false, v.ident, v.shape, true, false, [], v.discr⟩

def typeInfoOf (raw : RawItem) : TypeInfo :=
  let reprInt : Option IntTy := raw.attrs.foldl (fun acc a => match a with
    | .repr (.idents is) => (is.findSome? IntTy.parse).orElse fun _ => acc
    | _ => acc) none
  let ds := rustDiscrs (raw.variants.map rawDataOf)
  { reprInt := reprInt, discr := fun k => ds.getD k 0, fieldless := raw.variants.all (·.fields.isEmpty) }

def userDiscrRaw (raw : RawItem) : DiscrTable :=
  fun k => ((raw.variants[k]?).bind (·.discr)).map (·.value)

def ordStr : Ordering → String
  | .lt => "Less" | .eq => "Equal" | .gt => "Greater"

def optOrdStr : Option Ordering → String
  | none => "None"
  | some o => "Some(" ++ ordStr o ++ ")"

def viaStr : ZVia → String
  | .method => "method" | .fqs => "fqs" | .orOnDrop => "ood"

def strLitStr (it : Item) (s : StrLit) : String := it.strText s

def eventStr (it : Item) : Event PLeaf → String
  | .hashDisc k => s!"HD{k}"
  | .hashField a => s!"HF{a.1}"
  | .cloneField a => s!"CF{a.1}"
  | .defaultField _ i => s!"DF{i}"
  | .debugStruct s => "DS:" ++ strLitStr it s
  | .debugTuple s => "DT:" ++ strLitStr it s
  | .writeStr s => "WS:" ++ strLitStr it s
  | .fmtField (some n) a => s!"FN:{strLitStr it n}:{a.1}"
  | .fmtField none a => s!"FU:{a.1}"
  | .finish => "FIN"
  | .finishNonExhaustive => "FNE"
  | .zeroize i via => s!"Z{i}:{viaStr via}"
  | .selfCall .clone => "SC:clone"
  | .selfCall .cmp => "SC:cmp"
  | .selfCall .zeroize => "SC:zeroize"
  | .selfCall _ => "SC:?"

def logStr (it : Item) (l : Log PLeaf) : String := ",".intercalate (l.map (eventStr it))

partial def valStr : Val PLeaf → String
  | .leaf a => s!"{a.2}"
  | .adt k fs => s!"V{k}(" ++ ",".intercalate (fs.map valStr) ++ ")"
  | .bool b => toString b
  | .ord o => ordStr o
  | .optOrd o => optOrdStr o
  | .int n => toString n
  | .unit => "()"
  | .disc k => s!"disc{k}"
  | _ => "?"

def resStr (it : Item) : Res PLeaf → String
  | .ok (v, l) => valStr v ++ " [" ++ logStr it l ++ "]"
  | .ret v l => "ret " ++ valStr v ++ " [" ++ logStr it l ++ "]"
  | .ub => "UB"
  | .panic => "PANIC"
  | .stuck => "STUCK"

/-- A field value's own `Debug` text: a placeholder the harness replaces (position of the field). -/
def leafPh (a : PLeaf) : String := s!"@{a.1}@"

def escNl (s : String) : String := s.replace "\n" "\\n"

/-- `{:?}` and `{:#?}` of the specification (`Fmt.specDebugText`). -/
def specText (it : Item) (a : Val PLeaf) : String :=
  match Fmt.specDebugText false it leafPh a, Fmt.specDebugText true it leafPh a with
  | some c, some p => c ++ "\x1f" ++ escNl p
  | _, _ => "none"

/-- The same for the formatter calls the generated `fmt` performed, rendered by the model of `core::fmt`'s builders. -/
def logText (it : Item) : Res PLeaf → String
  | .ok (_, l) =>
    match Fmt.renderLog false it.strText leafPh l, Fmt.renderLog true it.strText leafPh l with
    | some c, some p => c ++ "\x1f" ++ escNl p
    | _, _ => "none"
  | _ => "none"

def parseVal (s : String) : Option (Val PLeaf) :=
  match s.splitOn ":" with
  | [k, fs] => do
    let k ← k.toNat?
    let vals ← (if fs == "" then some [] else (fs.splitOn ",").mapM String.toNat?)
    some (.adt k (vals.zipIdx.map fun (v, i) => .leaf (i, v)))
  | _ => none

structure ProbeCtx where
  c : Cfg
  inp : Input
  cx : SemCtx PLeaf

def findTrait (inp : Input) (t : Trait) : Option (DeriveWhere × DeriveTrait) :=
  inp.deriveWheres.findSome? fun dw => (dw.traits.find? (·.trait == t)).map fun dt => (dw, dt)

def methodOf (p : ProbeCtx) (t : Trait) : Option Expr := do
  let (dw, _) ← findTrait p.inp t
  let m ← generateBody p.c p.inp.item dw t
  some m.body

/-- One query: `op;operand;operand`.  Answer: `spec=<..> eval=<..>`. -/
def answer (p : ProbeCtx) (q : String) : String :=
  let it := p.inp.item
  match q.splitOn ";" with
  | ["eq", a, b] =>
    match parseVal a, parseVal b, methodOf p .partialEq with
    | some a, some b, some body =>
      s!"spec={specEq probeOps it a b} eval={resStr it (runMethod p.cx body a (some b))} ne={neOf (specEq probeOps it a b)}"
    | _, _, _ => "bad-query"
  | ["pcmp", a, b] =>
    match parseVal a, parseVal b, methodOf p .partialOrd with
    | some a, some b, some body =>
      let o := specPartialCmp probeOps p.cx.ti it a b
      let bit := fun (x : Bool) => if x then "1" else "0"
      -- `ops=`: what `<`, `<=`, `>`, `>=` print, by `core`'s provided methods over `partial_cmp`
      s!"spec={optOrdStr o} eval={resStr it (runMethod p.cx body a (some b))} ops={bit (ltOf o)}{bit (leOf o)}{bit (gtOf o)}{bit (geOf o)}"
    | _, _, _ => "bad-query"
  | ["cmp", a, b] =>
    match parseVal a, parseVal b, methodOf p .ord with
    | some a, some b, some body =>
      s!"spec={ordStr (specCmp probeOps p.cx.ti it a b)} eval={resStr it (runMethod p.cx body a (some b))}"
    | _, _, _ => "bad-query"
  | ["hash", a] =>
    match parseVal a, methodOf p .hash with
    | some a, some body =>
      -- `writes=`: what a recording hasher sees: `Hash for mem::Discriminant<T>` writes the discriminant value in the
      -- enum's discriminant type (`isize` without an integer `repr`); `@pos@` stands for the writes of field `pos`
      let writes := ",".intercalate ((specHashLog it a).filterMap fun e => match e with
        | .hashDisc k => some s!"{(p.cx.ti.reprInt.map IntTy.tok).getD "isize"}:{p.cx.ti.discr k}"
        | .hashField x => some s!"@{x.1}@"
        | _ => none)
      s!"spec={logStr it (specHashLog it a)} eval={resStr it (runMethod p.cx body a none)} writes={writes}"
    | _, _ => "bad-query"
  | ["clone", a] =>
    match parseVal a, methodOf p .clone, findTrait p.inp .clone with
    | some a, some body, some (dw, _) =>
      let spec := if dw.shortcut && dw.contains .copy || isUnion it then valStr a ++ " []"
        else valStr (specCloneVal probeOps a) ++ " [" ++ logStr it (specCloneLog a) ++ "]"
      s!"spec={spec} eval={resStr it (runMethod p.cx body a none)}"
    | _, _, _ => "bad-query"
  | ["debug", a] =>
    match parseVal a, methodOf p .debug with
    | some a, some body =>
      let r := runMethod p.cx body a none
      s!"spec={logStr it (specDebugLog it a)} eval={resStr it r} text={specText it a}\x1e{logText it r}"
    | _, _ => "bad-query"
  | ["default"] =>
    match methodOf p .default with
    | some body =>
      let spec := match it.indexed.filter (·.2.isDefault) with
        | [(k, d)] => valStr (specDefaultVal probeOps k d) ++ " [" ++ logStr it (specDefaultLog (α := PLeaf) k d) ++ "]"
        | _ => "no-unique-default"
      s!"spec={spec} eval={resStr it (Out.finish (eval p.cx [] [] body))}"
    | none => "bad-query"
  | ["zeroize", a] =>
    match parseVal a, methodOf p .zeroize with
    | some a, some body =>
      let via := fun (f : Field) => if f.fqs then ZVia.fqs else ZVia.method
      s!"spec={logStr it (specZeroizeLog it .zeroize via a)} eval={resStr it (runMethod p.cx body a none)}"
    | _, _ => "bad-query"
  | ["drop", a] =>
    match parseVal a, methodOf p .zeroizeOnDrop with
    | some a, some body =>
      let spec := if p.c.zod then logStr it (specZeroizeLog it .zeroizeOnDrop (fun _ => ZVia.orOnDrop) a)
        else logStr it (List.replicate (it.variants.filter fun d => !d.isEmpty .zeroizeOnDrop).length
          (Event.selfCall (α := PLeaf) .zeroize))
      s!"spec={spec} eval={resStr it (runMethod p.cx body a none)}"
    | _, _ => "bad-query"
  | _ => "bad-query"

def specCmpVal (ti : TypeInfo) (it : Item) : ImplTable PLeaf := fun f args =>
  match f, args with
  | .clone, [v] => some v
  | .cmp, [a, b] => some (.ord (specCmp probeOps ti it a b))
  | .zeroize, [_] => some .unit
  | _, _ => none

/-- `specq <cfg> <item> ## q ## q ..` -/
def specLine (c : Cfg) (raw : RawItem) (queries : List String) : String :=
  match Input.fromInput c raw with
  | .error _ => "rejected"
  | .ok inp =>
    let ti := typeInfoOf raw
    let cx : SemCtx PLeaf := ⟨probeOps, ti, userDiscrRaw raw, specCmpVal ti inp.item⟩
    let p : ProbeCtx := ⟨c, inp, cx⟩
    " ## ".intercalate (queries.map (answer p))

end DW
