import DW.Gen

/-!
# Rendering the emitted syntax as the flat token sequence of the hook

One string per leaf token; `::` is two `:` tokens, `->` is `-` `>`, group
delimiters are tokens of their own (this is what
`/repo/src/verif_hook.rs: flat` prints).
-/

namespace DW

def Ident.tok (i : Ident) : String := if i.raw then "r#" ++ i.name else i.name

def colon2 : Toks := [":", ":"]

/-- `a :: b :: c`, with a leading `::` when `leading`; generic arguments after the segment that carries them. -/
def MPath.toks (p : MPath) : Toks :=
  let argsAt (n : Nat) : Toks :=
    match p.args with
    | some (m, t) => if m = n then t else []
    | none => []
  let rec go : Nat → List Ident → Toks
    | _, [] => []
    | n, [i] => i.tok :: argsAt n
    | n, i :: rest => i.tok :: argsAt n ++ colon2 ++ go (n + 1) rest
  (if p.leading then colon2 else []) ++ go 1 p.segs

def corePath (segs : List String) : Toks :=
  (MPath.mk true (segs.map fun s => ⟨s, false⟩) none).toks

/-- `DeriveTrait::crate_`. -/
def DeriveTrait.crateRoot (t : DeriveTrait) : MPath :=
  match t.trait with
  | .zeroize | .zeroizeOnDrop => t.crate_.getD zeroizeRoot
  | _ => ⟨true, [⟨"core", false⟩], none⟩

def MPath.push (p : MPath) (segs : List String) : MPath :=
  { p with segs := p.segs ++ segs.map fun s => ⟨s, false⟩ }

/-- `DeriveTrait::path`. -/
def DeriveTrait.path (t : DeriveTrait) : MPath :=
  t.crateRoot.push (match t.trait with
    | .clone => ["clone", "Clone"] | .copy => ["marker", "Copy"] | .debug => ["fmt", "Debug"]
    | .default => ["default", "Default"] | .eq => ["cmp", "Eq"] | .hash => ["hash", "Hash"]
    | .ord => ["cmp", "Ord"] | .partialEq => ["cmp", "PartialEq"]
    | .partialOrd => ["cmp", "PartialOrd"] | .zeroize => ["Zeroize"]
    | .zeroizeOnDrop => ["ZeroizeOnDrop"])

def IntTy.tok : IntTy → String
  | .u8 => "u8" | .u16 => "u16" | .u32 => "u32" | .u64 => "u64" | .u128 => "u128"
  | .usize => "usize" | .i8 => "i8" | .i16 => "i16" | .i32 => "i32" | .i64 => "i64"
  | .i128 => "i128" | .isize => "isize"

/-- Everything the renderer needs to spell names. -/
structure Ctx where
  inp : Input
  trait : DeriveTrait

def Ctx.variant (cx : Ctx) (k : Nat) : Data := cx.inp.item.variants.getD k default

def Ctx.field (cx : Ctx) (k i : Nat) : Field := (cx.variant k).fields.getD i default

/-- `Data::path`: `Item` or `Item::Variant`. -/
def Ctx.dataPath (cx : Ctx) (k : Nat) : Toks :=
  let d := cx.variant k
  if d.isVariant then [cx.inp.item.ident.tok] ++ colon2 ++ [d.ident.tok] else [d.ident.tok]

/-- `Member: ToTokens`. -/
def Member.tok : Member → String
  | .named i => i.tok
  | .unnamed n => toString n

def Var.tok (cx : Ctx) : Var → String
  | .self_ => "self" | .other => "__other"
  | .selfField k i => "__field_" ++ (cx.field k i).member.display
  | .otherField k i => "__other_field_" ++ (cx.field k i).member.display
  | .cmp => "__cmp" | .selfDisc => "__self_disc" | .otherDisc => "__other_disc"
  | .this => "__this" | .f => "__f" | .state => "__state" | .builder => "__builder"

def sepBy (sep : Toks) : List Toks → Toks
  | [] => []
  | [x] => x
  | x :: rest => x ++ sep ++ sepBy sep rest

def BindMode.toks : BindMode → Toks
  | .ref_ => ["ref"] | .refMut => ["ref", "mut"] | .move_ => [] | .mut_ => ["mut"]

def equalToks : Toks := corePath ["core", "cmp", "Ordering", "Equal"]
def someToks : Toks := corePath ["core", "option", "Option", "Some"]
def noneToks : Toks := corePath ["core", "option", "Option", "None"]

/-- `Fields::struct_pattern` / `tuple_pattern` / the unit path. -/
def Ctx.ctorPat (cx : Ctx) (k : Nat) (s : Side) (mut_ : Bool) : Toks :=
  let d := cx.variant k
  let mode : Toks := if mut_ then ["ref", "mut"] else ["ref"]
  let v (i : Nat) : String := match s with
    | .self_ => Var.tok cx (.selfField k i)
    | .other => Var.tok cx (.otherField k i)
  match d.shape with
  | .unit => cx.dataPath k
  | .tuple =>
    cx.dataPath k ++ ["("] ++ sepBy [","] (d.fields.zipIdx.map fun (_, i) => mode ++ [v i]) ++ [")"]
  | _ =>
    cx.dataPath k ++ ["{"] ++
      sepBy [","] (d.fields.zipIdx.map fun (f, i) => [f.member.tok, ":"] ++ mode ++ [v i]) ++ ["}"]

mutual
def Pat.toks (cx : Ctx) : Pat → Toks
  | .wild => ["_"]
  | .rest => [".", "."]
  | .bind m x => m.toks ++ [x.tok cx]
  | .ctor k s mut_ => cx.ctorPat k s mut_
  | .ctorAny k =>
    match (cx.variant k).shape with
    | .unit => cx.dataPath k
    | .tuple => cx.dataPath k ++ ["(", ".", ".", ")"]
    | _ => cx.dataPath k ++ ["{", ".", ".", "}"]
  | .equal => equalToks
  | .someEqual => someToks ++ ["("] ++ equalToks ++ [")"]
  | .tuple ps => ["("] ++ Pat.listToks cx [","] ps ++ [")"]
  | .or ps => Pat.listToks cx ["|"] ps
def Pat.listToks (cx : Ctx) (sep : Toks) : List Pat → Toks
  | [] => []
  | [p] => p.toks cx
  | p :: ps => p.toks cx ++ sep ++ Pat.listToks cx sep ps
end

def TraitFn.toks (cx : Ctx) : TraitFn → Toks
  | .eq => cx.trait.path.toks ++ colon2 ++ ["eq"]
  | .partialCmp => cx.trait.path.toks ++ colon2 ++ ["partial_cmp"]
  | .cmp => cx.trait.path.toks ++ colon2 ++ ["cmp"]
  | .hash => cx.trait.path.toks ++ colon2 ++ ["hash"]
  | .clone => cx.trait.path.toks ++ colon2 ++ ["clone"]
  | .zeroize => cx.trait.path.toks ++ colon2 ++ ["zeroize"]

/-- Paths of the calls on a whole value (`selfCall`). -/
def TraitFn.selfToks (cx : Ctx) : TraitFn → Toks
  | .clone => corePath ["core", "clone", "Clone", "clone"]
  | .cmp => corePath ["core", "cmp", "Ord", "cmp"]
  | .zeroize => (cx.trait.crateRoot.push ["Zeroize", "zeroize"]).toks
  | f => f.toks cx

def Fn.toks (cx : Ctx) : Fn → Toks
  | .traitFn f => f.toks cx
  | .memDiscriminant => corePath ["core", "mem", "discriminant"]
  | .discriminantValue => corePath ["core", "intrinsics", "discriminant_value"]
  | .some_ => someToks
  | .unreachableUnchecked => corePath ["core", "hint", "unreachable_unchecked"]
  | .ctor k => cx.dataPath k
  | .debugStruct => corePath ["core", "fmt", "Formatter", "debug_struct"]
  | .debugTuple => corePath ["core", "fmt", "Formatter", "debug_tuple"]
  | .writeStr => corePath ["core", "fmt", "Formatter", "write_str"]
  | .dsField => corePath ["core", "fmt", "DebugStruct", "field"]
  | .dsFinish => corePath ["core", "fmt", "DebugStruct", "finish"]
  | .dsFinishNonExhaustive => corePath ["core", "fmt", "DebugStruct", "finish_non_exhaustive"]
  | .dtField => corePath ["core", "fmt", "DebugTuple", "field"]
  | .dtFinish => corePath ["core", "fmt", "DebugTuple", "finish"]

def BinOp.toks : BinOp → Toks
  | .and => ["&", "&"] | .or => ["|", "|"] | .eq => ["=", "="] | .add => ["+"]

def quoteStr (s : String) : String := "\"" ++ s ++ "\""

/-! ### Generics (`syn::ImplGenerics`, `TypeGenerics`, `WhereClause`) -/

def isLifetime : GParam → Bool
  | .lifetime .. => true
  | _ => false

def GParam.comma : GParam → Bool
  | .lifetime _ _ c | .type _ _ c | .const_ _ _ c => c

def commaToks (b : Bool) : Toks := if b then [","] else []

/-- `ImplGenerics::to_tokens` (`full = true`) and `TypeGenerics::to_tokens`. -/
def genericsToks (full : Bool) (ps : List GParam) : Toks :=
  if ps.isEmpty then [] else
  let lts := ps.filter isLifetime
  let others := ps.filter (!isLifetime ·)
  let ltToks := lts.flatMap fun p => match p with
    | .lifetime n b c =>
      n ++ (if full && !b.isEmpty then [":"] ++ b else []) ++ commaToks c
    | _ => []
  let trailing0 := match lts.getLast? with
    | some p => p.comma
    | none => true
  let rec go (trailing : Bool) : List GParam → Toks
    | [] => []
    | p :: rest =>
      (if trailing then [] else [","]) ++
      (match p with
        | .type n b _ => [n.tok] ++ (if full && !b.isEmpty then [":"] ++ b else [])
        | .const_ n ty _ => if full then ["const", n.tok, ":"] ++ ty else [n.tok]
        | .lifetime .. => []) ++ commaToks p.comma ++ go p.comma rest
  ["<"] ++ ltToks ++ go trailing0 others ++ [">"]

def WherePred.toks (cx : Ctx) : WherePred → Toks
  | .item t => t
  | .custom t => t
  | .bound ty copy =>
    ty ++ [":"] ++ cx.trait.path.toks ++
      (if copy then ["+"] ++ corePath ["core", "marker", "Copy"] else [])

def whereToks (cx : Ctx) (preds : List WherePred) (trailing : Bool) : Toks :=
  if preds.isEmpty then [] else
    ["where"] ++ sepBy [","] (preds.map (·.toks cx)) ++ commaToks trailing

/-- The item's own where-clause, as repeated on `__discriminant`. -/
def itemWhereToks (cx : Ctx) : Toks :=
  whereToks cx (cx.inp.generics.preds.map .item) cx.inp.generics.predsTrailing

def assertStruct (name : String) (bound : Toks) : Toks :=
  ["struct", name, "<", "__T", ":"] ++ bound ++ ["+", "?"] ++ corePath ["core", "marker", "Sized"] ++
    [">", "("] ++ corePath ["core", "marker", "PhantomData"] ++ ["<", "__T", ">", ")", ";"]

mutual
def Expr.toks (cx : Ctx) : Expr → Toks
  | .litBool b => [if b then "true" else "false"]
  | .litInt n => [toString n]
  | .litStr s => [quoteStr (cx.inp.item.strText s)]
  | .var x => [x.tok cx]
  | .equal => equalToks
  | .none_ => noneToks
  | .unitCtor k => cx.dataPath k
  | .userDiscr k => match (cx.variant k).discriminant with
    | some d => d.toks
    | none => []
  | .defaultCall _ _ => cx.trait.path.toks ++ colon2 ++ ["default", "(", ")"]
  | .call f args => f.toks cx ++ ["("] ++ Expr.listToks cx args ++ [")"]
  | .callT f args => f.toks cx ++ ["("] ++ Expr.listToks cx args ++ [",", ")"]
  | .selfCall f args => f.selfToks cx ++ ["("] ++ Expr.listToks cx args ++ [")"]
  | .discFnCall _ arg => ["__discriminant", "("] ++ arg.toks cx ++ [")"]
  | .validateConst k _ => ["__VALIDATE_ISIZE_" ++ (cx.variant k).ident.name]
  | .methodCall recv .zeroize => recv.toks cx ++ [".", "zeroize", "(", ")"]
  | .methodCall recv .zeroizeOrOnDrop => recv.toks cx ++ [".", "zeroize_or_on_drop", "(", ")"]
  | .ref e => ["&"] ++ e.toks cx
  | .refMut e => ["&", "mut"] ++ e.toks cx
  | .deref e => ["*"] ++ e.toks cx
  | .cast e ty => e.toks cx ++ ["as", ty.tok]
  | .binop op a b => a.toks cx ++ op.toks ++ b.toks cx
  | .paren e => ["("] ++ e.toks cx ++ [")"]
  | .tuple es => ["("] ++ Expr.listToks cx es ++ [")"]
  | .ifElse c t e =>
    ["if"] ++ c.toks cx ++ ["{"] ++ t.bodyToks cx ++ ["}", "else", "{"] ++ e.bodyToks cx ++ ["}"]
  | .match_ s arms => ["match"] ++ s.toks cx ++ ["{"] ++ Arm.listToks cx arms ++ ["}"]
  | .block stmts tail => ["{"] ++ Stmt.listToks cx stmts ++ tail.toks cx ++ ["}"]
  | .unsafe_ e => ["unsafe", "{"] ++ e.bodyToks cx ++ ["}"]
  | .ptrRead e ty =>
    ["*", "<", "*", "const", "_", ">"] ++ colon2 ++ ["from", "("] ++ e.toks cx ++
      [")", ".", "cast"] ++ colon2 ++ ["<", ty.tok, ">", "(", ")"]
  | .ret e => ["return"] ++ e.toks cx
  | .structLit k fields => cx.dataPath k ++ ["{"] ++ FieldInit.listToks cx k fields ++ ["}"]
  | .matches_ e p =>
    corePath ["core", "matches"] ++ ["!", "("] ++ e.toks cx ++ [","] ++ p.toks cx ++ [")"]
  | .unreachable =>
    corePath ["core", "unreachable"] ++
      ["!", "(", quoteStr "comparing variants yielded unexpected results", ")"]
  | .unit => []
  | .seq es => Expr.seqToks cx es
/-- A block's contents without its braces. -/
def Expr.bodyToks (cx : Ctx) : Expr → Toks
  | .block stmts tail => Stmt.listToks cx stmts ++ tail.toks cx
  | e => e.toks cx
def Expr.listToks (cx : Ctx) : List Expr → Toks
  | [] => []
  | [e] => e.toks cx
  | e :: rest => e.toks cx ++ [","] ++ Expr.listToks cx rest
def Expr.seqToks (cx : Ctx) : List Expr → Toks
  | [] => []
  | e :: rest => e.toks cx ++ Expr.seqToks cx rest
def Arm.listToks (cx : Ctx) : List Arm → Toks
  | [] => []
  | .mk p e comma :: rest =>
    p.toks cx ++ ["=", ">"] ++ e.toks cx ++ commaToks comma ++ Arm.listToks cx rest
def FieldInit.listToks (cx : Ctx) (k : Nat) : List FieldInit → Toks
  | [] => []
  | [.mk i e] => [(cx.field k i).member.tok, ":"] ++ e.toks cx
  | .mk i e :: rest =>
    [(cx.field k i).member.tok, ":"] ++ e.toks cx ++ [","] ++ FieldInit.listToks cx k rest
def Stmt.toks (cx : Ctx) : Stmt → Toks
  | .let_ p e => ["let"] ++ p.toks cx ++ ["="] ++ e.toks cx ++ [";"]
  | .semi e => e.toks cx ++ [";"]
  | .ifRet c r => ["if"] ++ c.toks cx ++ ["{", "return"] ++ r.toks cx ++ [";", "}"]
  | .assertEq k i => ["let", "_", ":", "__AssertEq", "<"] ++ (cx.field k i).ty ++ [">", ";"]
  | .assertCopySelf => ["let", "_", ":", "__AssertCopy", "<", "Self", ">", ";"]
  | .structAssertEq => assertStruct "__AssertEq" (corePath ["core", "cmp", "Eq"])
  | .structAssertCopy => assertStruct "__AssertCopy" (corePath ["core", "marker", "Copy"])
  | .discFn repr validate body =>
    ["const", "fn", "__discriminant"] ++ genericsToks true cx.inp.generics.params ++
      ["(", "__this", ":", "&", cx.inp.item.ident.tok] ++ genericsToks false cx.inp.generics.params ++
      [")", "-", ">", repr.tok] ++ itemWhereToks cx ++
      ["{"] ++ Stmt.listToks cx validate ++ body.toks cx ++ ["}"]
  | .validateDef k e =>
    ["const", "__VALIDATE_ISIZE_" ++ (cx.variant k).ident.name, ":", "isize", "="] ++ e.toks cx ++ [";"]
  | .useTrait => ["use"] ++ cx.trait.path.toks ++ [";"]
  | .useAsserts =>
    ["use"] ++ (cx.trait.crateRoot.push ["__internal", "AssertZeroize"]).toks ++ [";"] ++
    ["use"] ++ (cx.trait.crateRoot.push ["__internal", "AssertZeroizeOnDrop"]).toks ++ [";"]
def Stmt.listToks (cx : Ctx) : List Stmt → Toks
  | [] => []
  | s :: rest => s.toks cx ++ Stmt.listToks cx rest
end

def inlineToks : Toks := ["#", "[", "inline", "]"]

def orderingToks : Toks := corePath ["core", "cmp", "Ordering"]

/-- The part of a `fn` item in front of its body. -/
def Sig.toks : Sig → Toks
  | .eq => ["fn", "eq", "(", "&", "self", ",", "__other", ":", "&", "Self", ")", "-", ">", "bool"]
  | .partialCmp =>
    ["fn", "partial_cmp", "(", "&", "self", ",", "__other", ":", "&", "Self", ")", "-", ">"] ++
      corePath ["core", "option", "Option"] ++ ["<"] ++ orderingToks ++ [">"]
  | .cmp =>
    ["fn", "cmp", "(", "&", "self", ",", "__other", ":", "&", "Self", ")", "-", ">"] ++ orderingToks
  | .clone => ["fn", "clone", "(", "&", "self", ")", "-", ">", "Self"]
  | .fmt =>
    ["fn", "fmt", "(", "&", "self", ",", "__f", ":", "&", "mut"] ++
      corePath ["core", "fmt", "Formatter"] ++ ["<", "'", "_", ">", ")", "-", ">"] ++
      corePath ["core", "fmt", "Result"]
  | .default => ["fn", "default", "(", ")", "-", ">", "Self"]
  | .assertEq => ["fn", "assert_receiver_is_total_eq", "(", "&", "self", ")"]
  | .hash =>
    ["fn", "hash", "<", "__H", ":"] ++ corePath ["core", "hash", "Hasher"] ++
      [">", "(", "&", "self", ",", "__state", ":", "&", "mut", "__H", ")"]
  | .zeroize => ["fn", "zeroize", "(", "&", "mut", "self", ")"]
  | .drop => ["fn", "drop", "(", "&", "mut", "self", ")"]

def Method'.toks (cx : Ctx) (m : Method') : Toks :=
  (if m.inline then inlineToks else []) ++ m.sig.toks ++ ["{"] ++ m.body.bodyToks cx ++ ["}"]

def Impl.toks (inp : Input) (im : Impl) : Toks :=
  let cx : Ctx := ⟨inp, im.trait⟩
  ["#", "[", "automatically_derived", "]", "impl"] ++ genericsToks true inp.generics.params ++
    (if im.isDrop then corePath ["core", "ops", "Drop"] else im.trait.path.toks) ++
    ["for", inp.item.ident.tok] ++ genericsToks false inp.generics.params ++
    whereToks cx im.preds im.whereTrailing ++
    ["{"] ++ im.methods.flatMap (Method'.toks cx) ++ ["}"]

end DW
