import DW.Gen
import DW.Sem

/-!
# Specifications: what the derived operations must compute

Written against the user-visible markers of the item (variant order, field
order, `skip`/`skip_inner` groups, `incomparable`, `default`), not against the
generator's helper functions, and independent of `Cfg`.
-/

namespace DW

/-- The documented skip table: which traits a skip group stands for. -/
def SkipGroup.covers : SkipGroup → Trait → Bool
  | .debug, .debug => true
  | .eqHashOrd, .eq | .eqHashOrd, .hash | .eqHashOrd, .ord
  | .eqHashOrd, .partialEq | .eqHashOrd, .partialOrd => true
  | .hash, .hash => true
  | .zeroize, .zeroize | .zeroize, .zeroizeOnDrop => true
  | _, _ => false

/-- The documented meaning of a `skip`/`skip_inner` marker: a bare marker
covers every trait except `Clone`, `Copy` and `Default`. -/
def Skip.covers : Skip → Trait → Bool
  | .none, _ => false
  | .all, t => t != .clone && t != .copy && t != .default
  | .traits gs, t => gs.any (·.covers t)

/-- Field `f` of `d` takes part in trait `t`. -/
def Data.relevant (d : Data) (f : Field) (t : Trait) : Bool :=
  !d.skipInner.covers t && !f.skip.covers t

/-- Positions of the fields of `d` that take part in `t`, in declaration order. -/
def Data.relevantIdx (d : Data) (t : Trait) : List Nat :=
  (List.range d.fields.length).filter fun i => (d.fields[i]?).any fun f => d.relevant f t

/-- A value of the item's type: a variant index with one leaf per field. -/
def WfVal {α} (it : Item) : Val α → Prop
  | .adt k fs => ∃ d, it.variants[k]? = some d ∧ fs.length = d.fields.length ∧ ∀ v ∈ fs, ∃ a, v = .leaf a
  | _ => False

def leafOf {α} [Inhabited α] : Val α → α
  | .leaf a => a
  | _ => default

/-- Apply a binary leaf operation at position `i`. -/
def at2 {α β} (fa fb : List (Val α)) (i : Nat) (dflt : β) (f : α → α → β) : β :=
  match fa[i]?, fb[i]? with
  | some (.leaf a), some (.leaf b) => f a b
  | _, _ => dflt

/-- The item itself carries `#[derive_where(incomparable)]`. -/
def Item.markedIncomparable : Item → Bool
  | .enum_ _ _ inc _ => inc
  | .item d => d.incomparable

/-- `==`: same variant, nothing marked incomparable, all relevant fields equal. -/
def specEq {α} (ops : FieldOps α) (it : Item) : Val α → Val α → Bool
  | .adt k fa, .adt k' fb =>
    k == k' && !it.markedIncomparable &&
      (match it.variants[k]? with
       | some d => !d.incomparable && (d.relevantIdx .partialEq).all fun i => at2 fa fb i false ops.eq
       | none => false)
  | _, _ => false

/-- Lexicographic comparison: the first result that is not "equal". -/
def lexPartial {α} (ops : FieldOps α) (fa fb : List (Val α)) : List Nat → Option Ordering
  | [] => some .eq
  | i :: rest =>
    match at2 fa fb i none ops.pcmp with
    | some .eq => lexPartial ops fa fb rest
    | r => r

def lexTotal {α} (ops : FieldOps α) (fa fb : List (Val α)) : List Nat → Ordering
  | [] => .eq
  | i :: rest =>
    match at2 fa fb i .eq ops.cmp with
    | .eq => lexTotal ops fa fb rest
    | r => r

/-- `partial_cmp`. -/
def specPartialCmp {α} (ops : FieldOps α) (ti : TypeInfo) (it : Item) : Val α → Val α → Option Ordering
  | .adt k fa, .adt k' fb =>
    match it.variants[k]?, it.variants[k']? with
    | some d, some d' =>
      if it.markedIncomparable || d.incomparable || d'.incomparable then none
      else if k = k' then lexPartial ops fa fb (d.relevantIdx .partialOrd)
      else some (compare (ti.discr k) (ti.discr k'))
    | _, _ => none
  | _, _ => none

/-- `cmp`. -/
def specCmp {α} (ops : FieldOps α) (ti : TypeInfo) (it : Item) : Val α → Val α → Ordering
  | .adt k fa, .adt k' fb =>
    if k = k' then
      match it.variants[k]? with
      | some d => lexTotal ops fa fb (d.relevantIdx .ord)
      | none => .eq
    else compare (ti.discr k) (ti.discr k')
  | _, _ => .eq

end DW

namespace DW

/-- The reference's rule for discriminant values: the explicit value, otherwise
the previous variant's plus one, starting at zero. -/
def rustDiscrGo : List Data → Int → List Int
  | [], _ => []
  | v :: rest, next =>
    let cur := match v.discriminant with
      | some e => e.value
      | none => next
    cur :: rustDiscrGo rest (cur + 1)

def rustDiscrs (vs : List Data) : List Int := rustDiscrGo vs 0

/-- The table of explicit discriminant values of a variant list. -/
def userDiscrOf (vs : List Data) : DiscrTable :=
  fun k => ((vs[k]?).bind (·.discriminant)).map (·.value)

end DW

namespace DW

/-- The leaf stored at position `i`. -/
def leafAt {α} (fs : List (Val α)) (i : Nat) : Option α :=
  match fs[i]? with
  | some (.leaf a) => some a
  | _ => none

/-- One event per listed field position, in order. -/
def leafEvents {α} (fs : List (Val α)) (is : List Nat) (ev : Nat → α → Event α) : Log α :=
  is.filterMap fun i => (leafAt fs i).map (ev i)

/-- What `hash` feeds the hasher: the variant (for enums), then every field
not skipped for `Hash`, in declaration order. -/
def specHashLog {α} (it : Item) : Val α → Log α
  | .adt k fs =>
    match it.variants[k]? with
    | some d =>
      (if d.isVariant then [Event.hashDisc k] else []) ++
        leafEvents fs (d.relevantIdx .hash) fun _ a => .hashField a
    | none => []
  | _ => []

/-- Some field of `d` is skipped for `t`. -/
def Data.someSkipped (d : Data) (t : Trait) : Bool :=
  d.skipInner.covers t || d.fields.any (·.skip.covers t)

/-- The formatter calls of `fmt`. -/
def specDebugLog {α} (it : Item) : Val α → Log α
  | .adt k fs =>
    match it.variants[k]? with
    | some d =>
      match d.shape with
      | .named =>
        [Event.debugStruct (.dataName k)] ++
          leafEvents fs (d.relevantIdx .debug) (fun i a => .fmtField (some (.fieldName k i)) a) ++
          [if d.someSkipped .debug then Event.finishNonExhaustive else .finish]
      | .tuple =>
        [Event.debugTuple (.dataName k)] ++
          leafEvents fs (d.relevantIdx .debug) (fun _ a => .fmtField none a) ++ [Event.finish]
      | .unit => [Event.writeStr (.dataName k)]
      | .union => []
    | none => []
  | _ => []

/-- `clone`: the same variant with every field cloned through its own impl. -/
def specCloneVal {α} (ops : FieldOps α) : Val α → Val α
  | .adt k fs => .adt k ((List.range fs.length).filterMap fun i => (leafAt fs i).map fun a => .leaf (ops.clone a))
  | v => v

def specCloneLog {α} : Val α → Log α
  | .adt _ fs => leafEvents fs (List.range fs.length) fun _ a => .cloneField a
  | _ => []

/-- `default()`: variant `k` with every field defaulted. -/
def specDefaultVal {α} (ops : FieldOps α) (k : Nat) (d : Data) : Val α :=
  .adt k ((List.range d.fields.length).map fun i => .leaf (ops.default k i))

def specDefaultLog {α} (k : Nat) (d : Data) : Log α :=
  (List.range d.fields.length).map fun i => .defaultField k i

/-- `zeroize` / drop: one event per field of the live variant not skipped for
`Zeroize`, through the way `via` selects (method, fully qualified, or
`zeroize_or_on_drop`). -/
def specZeroizeLog {α} (it : Item) (t : Trait) (via : Field → ZVia) : Val α → Log α
  | .adt k fs =>
    match it.variants[k]? with
    | some d => leafEvents fs (d.relevantIdx t) fun i _ => .zeroize i (via (d.fields.getD i default))
    | none => []
  | _ => []

/-! ### The operators `core` derives from `eq` and `partial_cmp`

`PartialEq::ne` and `PartialOrd::{lt, le, gt, ge}` are provided methods of `core` (`library/core/src/cmp.rs`):
`!self.eq(other)`, `matches!(self.partial_cmp(other), Some(Less))`, `Some(Less | Equal)`, `Some(Greater)`,
`Some(Greater | Equal)`. The derived impls do not override them. -/

def neOf (eq : Bool) : Bool := !eq

def ltOf : Option Ordering → Bool
  | some .lt => true | _ => false

def leOf : Option Ordering → Bool
  | some .lt | some .eq => true | _ => false

def gtOf : Option Ordering → Bool
  | some .gt => true | _ => false

def geOf : Option Ordering → Bool
  | some .gt | some .eq => true | _ => false

end DW
