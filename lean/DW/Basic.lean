/-!
# Core data types of the derive-where model

Everything here mirrors a Rust type of `/repo/src`; the name of the Rust type is
given in each doc comment.  Model files import nothing outside core Lean so
that the driver (`Main.lean`) links as a native executable.
-/

namespace DW

/-- A run of already-flattened tokens that only `syn`/`quote` look into
(types, where-predicates, discriminant expressions, paths).  The model only
needs their identity and prints them back verbatim. -/
abbrev Toks := List String

/-- `trait_.rs: enum Trait` (all eleven; which are available depends on `Cfg`). -/
inductive Trait where
  | clone | copy | debug | default | eq | hash | ord | partialEq | partialOrd
  | zeroize | zeroizeOnDrop
  deriving DecidableEq, Repr, Inhabited

/-- Cargo features of derive-where (`Cargo.toml [features]`). -/
structure Cfg where
  safe : Bool
  nightly : Bool
  zeroize : Bool
  /-- `zeroize-on-drop`; implies `zeroize` in Cargo.toml. -/
  zod : Bool
  deriving DecidableEq, Repr, Inhabited

/-- A feature set cargo can actually produce. -/
def Cfg.WF (c : Cfg) : Prop := c.zod = true → c.zeroize = true

/-- `proc_macro2::Ident`: text without the `r#` prefix plus the rawness flag. -/
structure Ident where
  name : String
  raw : Bool
  deriving DecidableEq, Repr, Inhabited

/-- A path `a::b::c` or `::a::b`.  `args = some (n, toks)`: the `n`-th segment carries generic arguments whose
tokens are `toks` (e.g. `foo::<u8>::bar` is `segs = [foo, bar]`, `args = some (1, [":", ":", "<", "u8", ">"])`); such
paths can only be written as the *value* of a `crate = ..` option, never as the path of an attribute or option. -/
structure MPath where
  leading : Bool
  segs : List Ident
  args : Option (Nat × Toks) := none
  deriving DecidableEq, Repr, Inhabited

def MPath.ofIdent (i : Ident) : MPath := { leading := false, segs := [i] }

/-- `Path::get_ident` (a segment with generic arguments is no identifier). -/
def MPath.getIdent (p : MPath) : Option Ident :=
  match p.leading, p.segs, p.args with
  | false, [i], none => some i
  | _, _, _ => none

/-- `Path::is_ident(s)` (compares the identifier's `to_string()`, so a raw
identifier never matches a plain keyword). -/
def MPath.isIdent (p : MPath) (s : String) : Bool :=
  match p.getIdent with
  | some i => !i.raw && i.name == s
  | none => false

/-- `attr/skip.rs: enum SkipGroup`. -/
inductive SkipGroup where
  | debug | eqHashOrd | hash | zeroize
  deriving DecidableEq, Repr, Inhabited

/-- `attr/skip.rs: enum Skip`. -/
inductive Skip where
  | none
  | all
  | traits (gs : List SkipGroup)
  deriving DecidableEq, Repr, Inhabited

/-- `item.rs: enum Representation`. -/
inductive IntTy where
  | u8 | u16 | u32 | u64 | u128 | usize | i8 | i16 | i32 | i64 | i128 | isize
  deriving DecidableEq, Repr, Inhabited

/-- `item.rs: enum Discriminant`. -/
inductive Discriminant where
  | single | unit | data | unitRepr (r : IntTy) | dataRepr (r : IntTy)
  deriving DecidableEq, Repr, Inhabited

/-- An explicit discriminant expression: opaque tokens and the value rustc
computes for it. -/
structure DiscrExpr where
  toks : Toks
  value : Int
  deriving DecidableEq, Repr, Inhabited

/-- `data/field.rs: enum Member`. -/
inductive Member where
  | named (i : Ident)
  | unnamed (n : Nat)
  deriving DecidableEq, Repr, Inhabited

/-- `data/field.rs: struct Field` (with `attr: FieldAttr` inlined). -/
structure Field where
  skip : Skip
  fqs : Bool
  member : Member
  ty : Toks
  deriving DecidableEq, Repr, Inhabited

/-- `data.rs: enum SimpleType` without payloads. -/
inductive Shape where
  | named | tuple | unit | union
  deriving DecidableEq, Repr, Inhabited

/-- `data.rs: struct Data`.  `DataType` is flattened into `shape`, `isVariant`
and `default`; `Fields` into `fields` (patterns are recomputed by the
generator). -/
structure Data where
  skipInner : Skip
  incomparable : Bool
  ident : Ident
  shape : Shape
  isVariant : Bool
  /-- `DataType::Variant { default, .. }`; `false` for non-variants. -/
  default : Bool
  fields : List Field
  /-- `None` for non-variants and under `nightly`. -/
  discriminant : Option DiscrExpr
  deriving DecidableEq, Repr, Inhabited

/-- `item.rs: enum Item`. -/
inductive Item where
  | enum_ (discriminant : Discriminant) (ident : Ident) (incomparable : Bool) (variants : List Data)
  | item (d : Data)
  deriving Repr, Inhabited

/-- `attr/item.rs: enum Generic`. `param` is `Some` when the type is a bare
identifier (what `has_type_param` looks at). -/
inductive Generic where
  | custom (toks : Toks)
  | noBound (toks : Toks) (param : Option Ident)
  deriving DecidableEq, Repr, Inhabited

/-- `attr/item.rs: enum DeriveTrait`: a trait plus the `crate = ..` option of
`Zeroize`/`ZeroizeOnDrop`. -/
structure DeriveTrait where
  trait : Trait
  crate_ : Option MPath
  deriving DecidableEq, Repr, Inhabited

/-- `attr/item.rs: struct DeriveWhere` (spans dropped). -/
structure DeriveWhere where
  traits : List DeriveTrait
  generics : List Generic
  deriving DecidableEq, Repr, Inhabited

/-- One generic parameter of the item, as `syn::GenericParam` prints it.
`comma` is the punctuation that follows it in the source. -/
inductive GParam where
  | lifetime (name : Toks) (bounds : Toks) (comma : Bool)
  | type (name : Ident) (bounds : Toks) (comma : Bool)
  | const_ (name : Ident) (ty : Toks) (comma : Bool)
  deriving DecidableEq, Repr, Inhabited

/-- `syn::Generics`. -/
structure Generics where
  params : List GParam
  /-- predicates of the item's where-clause -/
  preds : List Toks
  /-- the where-clause ends in a comma -/
  predsTrailing : Bool
  deriving DecidableEq, Repr, Inhabited

/-- `input.rs: struct Input`. -/
structure Input where
  deriveWheres : List DeriveWhere
  generics : Generics
  item : Item
  deriving Repr, Inhabited

/-! ## Raw input: what `syn::parse2::<DeriveInput>` hands to the macro -/

/-- Right-hand side of a name-value meta. -/
inductive NVal where
  /-- `crate = a::b` -/
  | path (p : MPath)
  /-- `crate = "a::b"`: string literal whose content parses as a path -/
  | strPath (p : MPath)
  /-- `crate = "1 2"`: string literal whose content is not a path -/
  | strBad
  /-- any other expression -/
  | other
  deriving DecidableEq, Repr, Inhabited

/-- `syn::Meta`.  `parsable = false` on a list means the tokens inside the
parentheses are not a comma separated sequence of metas. -/
inductive Meta where
  | path (p : MPath)
  | list (p : MPath) (parsable : Bool) (inner : List Meta)
  | nameValue (p : MPath) (v : NVal)
  deriving Repr, Inhabited

def Meta.getPath : Meta → MPath
  | .path p => p
  | .list p _ _ => p
  | .nameValue p _ => p

/-- One entry after the `;` of a `derive_where` attribute, classified the way
`Generic::parse` classifies it. -/
inductive RawGeneric where
  /-- parses as a `WherePredicate::Type` -/
  | custom (toks : Toks)
  /-- parses as a lifetime predicate `'a: 'b` -/
  | lifetimePred (toks : Toks)
  /-- parses as a type only -/
  | noBound (toks : Toks) (param : Option Ident)
  /-- parses as neither -/
  | bad (toks : Toks)
  deriving DecidableEq, Repr, Inhabited

/-- One top-level element of the token stream inside `#[derive_where(..)]`
before the first `;`. -/
inductive Elem where
  /-- a token run `Meta::parse` accepts -/
  | ofMeta (m : Meta)
  | comma
  /-- a token (run) that is neither a meta, `,` nor `;` -/
  | junk
  deriving Repr, Inhabited

/-- One top-level element after the first `;`. -/
inductive GElem where
  | gen (g : RawGeneric)
  | comma
  | junk
  deriving Repr, Inhabited

/-- Contents of one `#[derive_where ..]` attribute. -/
inductive DWBody where
  /-- `#[derive_where]` or `#[derive_where = ..]` -/
  | notList
  /-- `#[derive_where( es )]` or `#[derive_where( es ; gs )]` -/
  | list (es : List Elem) (gs : Option (List GElem))
  deriving Repr, Inhabited

/-- `#[repr ..]` as `Discriminant::parse` sees it. -/
inductive ReprBody where
  /-- `#[repr(a, b)]` with identifiers only -/
  | idents (is : List Ident)
  /-- a list that `Punctuated::<Ident, ,>::parse_terminated` rejects, e.g. `align(8)` -/
  | unparsable
  /-- not a list at all (invalid Rust) -/
  | notList
  deriving Repr, Inhabited

inductive RawAttr where
  /-- path is exactly `derive_where` -/
  | dw (b : DWBody)
  /-- path ends in `derive_where` but is qualified (only the attribute macro reacts) -/
  | dwQualified (p : MPath) (b : DWBody)
  | repr (b : ReprBody)
  /-- a foreign attribute that is a bare path, e.g. `#[derive_where::derive_where_visited]` -/
  | bare (p : MPath)
  | other
  deriving Repr, Inhabited

structure RawField where
  /-- bodies of the field's `#[derive_where ..]` attributes -/
  attrs : List DWBody
  member : Member
  ty : Toks
  deriving Repr, Inhabited

structure RawVariant where
  attrs : List DWBody
  ident : Ident
  shape : Shape
  fields : List RawField
  discr : Option DiscrExpr
  deriving Repr, Inhabited

inductive ItemKind where
  | struct_ | enum_ | union_
  deriving DecidableEq, Repr, Inhabited

/-- `syn::DeriveInput`. For structs and unions `variants` has exactly one entry
describing the fields (its `ident` is the item's). -/
structure RawItem where
  attrs : List RawAttr
  kind : ItemKind
  ident : Ident
  generics : Generics
  variants : List RawVariant
  deriving Repr, Inhabited

/-! ## Errors (`error.rs`) -/

inductive Err where
  | visited | pathUnnecessary (default : String) | crate_ | none | empty | useCase | itemEmpty | union
  | optionTrait (attr : String) | option | options (tr : String) | optionSyntax | optionEmpty
  | optionRequired (o : String) | optionDuplicate (o : String) | optionEnumSkipInner | optionSkipInner
  | optionSkipEmpty | optionSkipAll | optionSkipDuplicate (tr : String) | optionSkipNoTrait | optionSkipTrait
  | skipGroup | path | trait_ | traitSyntax | deriveWhereDelimiter | generic | genericSyntax
  | traitDuplicate | reprUnknown | reprDiscriminantInvalid | default | defaultMissing | defaultDuplicate
  | incomparable | nonPartialIncomparable | incomparableOnItemAndVariant | zeroize | deprecatedZeroizeDrop
  /-- an error produced by a `syn` parser; text not modelled -/
  | syn
  /-- a Rust `panic!` site (`unreachable!`, `expect`, `assert!`) -/
  | panic (site : String)
  deriving DecidableEq, Repr, Inhabited

def Err.isPanic : Err → Bool
  | .panic _ => true
  | _ => false

end DW
