/-!
# The feature-dependent sites of the macro's source (C13)

Every `#[cfg(feature = ..)]` / `cfg!(feature = ..)` of `src/` (tests and the hook excluded) as `(file, condition, number of
occurrences)`. `gen/tables.py` extracts the same list from the current source on every run and the kernel checks that the
two are equal (`cfgSites_known`): a **new** feature-dependent branch is a broken obligation of C13 ("feature flags change
strategy, never observable results") until the model's configuration bits (`Cfg.safe`, `.nightly`, `.zeroize`, `.zod` in
`DW/Validate.lean` and `DW/Gen.lean`) account for it.

* `nightly`: `Discriminant` handling — the variants' explicit discriminants are not kept (`data.rs`, `item.rs`, `input.rs`),
  `common_ord.rs` compares `::core::intrinsics::discriminant_value` — `Cfg.nightly` in `Data.fromVariant`, `ordBodyElse`.
* `safe`: the fall-through arm and the tag read of `common_ord.rs` / `partial_eq.rs` — `Cfg.safe` in `unreachableRest`,
  `ordBodyElse` (`C12_safe_no_unsafe`, `C13_*_cfg_independent`).
* `zeroize`: the traits `Zeroize` / `ZeroizeOnDrop`, the skip group, `Zeroize(fqs)`, their error messages — `Cfg.zeroize`.
* `zeroize-on-drop`: the body of `Drop` and the marker impl — `Cfg.zod` (`C19_effect_*`).
-/

namespace DW

def knownCfgSites : List (String × String × Nat) := [
  ("src/attr.rs", "feature=\"zeroize\"", 2),
  ("src/attr/field.rs", "feature=\"zeroize\"", 3),
  ("src/attr/item.rs", "feature=\"zeroize\"", 8),
  ("src/attr/skip.rs", "feature=\"zeroize\"", 5),
  ("src/data.rs", "not(feature=\"nightly\")", 9),
  ("src/data/fields.rs", "feature=\"zeroize\"", 1),
  ("src/error.rs", "feature=\"zeroize\"", 7),
  ("src/error.rs", "not(feature=\"nightly\")", 2),
  ("src/input.rs", "feature=\"zeroize\"", 2),
  ("src/input.rs", "not(feature=\"nightly\")", 3),
  ("src/item.rs", "feature=\"zeroize\"", 1),
  ("src/item.rs", "not(feature=\"nightly\")", 8),
  ("src/lib.rs", "feature=\"zeroize\"", 1),
  ("src/lib.rs", "not(feature=\"nightly\")", 1),
  ("src/trait_.rs", "feature=\"zeroize\"", 8),
  ("src/trait_/common_ord.rs", "feature=\"nightly\"", 1),
  ("src/trait_/common_ord.rs", "feature=\"safe\"", 3),
  ("src/trait_/common_ord.rs", "not(feature=\"nightly\")", 9),
  ("src/trait_/common_ord.rs", "not(feature=\"safe\")", 3),
  ("src/trait_/partial_eq.rs", "feature=\"safe\"", 1),
  ("src/trait_/partial_eq.rs", "not(feature=\"safe\")", 1),
  ("src/trait_/zeroize_on_drop.rs", "feature=\"zeroize-on-drop\"", 4),
  ("src/trait_/zeroize_on_drop.rs", "not(feature=\"zeroize-on-drop\")", 4)]

end DW
