/-!
# The span-manipulating sites of the macro's source (C14)

Hygiene is not modelled: correspondence A compares token *text*, and a temporary of the expansion that takes its span
from a user token instead of the call site keeps its text (round 9: `quote_spanned!` with a field type's span made
`__state` unresolved when the item is written by a `macro_rules!`; B observes that since). The source has very few places
that choose a span; `gen/tables.py` extracts them on every run and the kernel checks that they are the ones listed here
(`spanSites_known`): every identifier the expansion creates has the call-site span (`format_ident!` without `span =`,
`Ident::new(.., Span::call_site())`), and the only `quote_spanned!` re-creates the `#[derive_where(..)]` attribute in front of the item in the attribute stage.
-/

namespace DW

def knownSpanSites : List (String × String × Nat) := [
  ("src/data/field.rs", "Span::call_site", 1),
  ("src/item.rs", "Span::call_site", 1),
  ("src/lib.rs", "quote_spanned!", 1),
  ("src/trait_/common_ord.rs", "Span::call_site", 2),
  ("src/util.rs", "Span::call_site", 1)]

end DW
