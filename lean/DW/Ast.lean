import DW.Basic

/-!
# Abstract syntax of the Rust fragment derive-where emits

The tree is *resolved*: variants and fields are referred to by position,
temporaries by a structured identifier, library items by kind.  The renderer
(`DW/Render.lean`) owns every spelling; the evaluator (`DW/Sem.lean`) gives the
tree its meaning.  No constructor has an `Option`-of-syntax field (see
DESIGN.md, appendix A).
-/

namespace DW

/-- Identifiers the expansion binds.  `k` is a variant position, `i` a field
position inside that variant. -/
inductive Var where
  | self_ | other
  | selfField (k i : Nat)      -- `__field_<member>`
  | otherField (k i : Nat)     -- `__other_field_<member>`
  | cmp                        -- `__cmp`
  | selfDisc | otherDisc       -- `__self_disc`, `__other_disc`
  | this                       -- `__this`
  | f | state | builder        -- `__f`, `__state`, `__builder`
  deriving DecidableEq, Repr, Inhabited

inductive BindMode where
  | ref_ | refMut | move_ | mut_
  deriving DecidableEq, Repr, Inhabited

/-- Which of the two sets of temporaries a destructuring pattern binds. -/
inductive Side where
  | self_ | other
  deriving DecidableEq, Repr, Inhabited

inductive Pat where
  /-- `_` -/
  | wild
  /-- `..` inside a tuple pattern -/
  | rest
  /-- `x` / `ref x` / `ref mut x` -/
  | bind (m : BindMode) (x : Var)
  /-- `Fields::self_pattern` / `other_pattern` / `self_pattern_mut` of variant `k`
  (binds every field), or the unit variant's path -/
  | ctor (k : Nat) (s : Side) (mut_ : Bool)
  /-- the incomparable pattern of variant `k`: `P {..}`, `P(..)` or `P` -/
  | ctorAny (k : Nat)
  /-- `::core::cmp::Ordering::Equal` -/
  | equal
  /-- `::core::option::Option::Some(::core::cmp::Ordering::Equal)` -/
  | someEqual
  | tuple (ps : List Pat)
  | or (ps : List Pat)
  deriving Repr, Inhabited

/-- Trait methods called through fully qualified paths. -/
inductive TraitFn where
  | eq | partialCmp | cmp | hash | clone | zeroize
  deriving DecidableEq, Repr, Inhabited

/-- Functions of `::core` (and of the expansion itself) that are called. -/
inductive Fn where
  /-- `<trait path>::<method>` -/
  | traitFn (f : TraitFn)
  /-- `::core::mem::discriminant` -/
  | memDiscriminant
  /-- `::core::intrinsics::discriminant_value` -/
  | discriminantValue
  /-- `::core::option::Option::Some` -/
  | some_
  /-- `::core::hint::unreachable_unchecked` -/
  | unreachableUnchecked
  /-- tuple-variant constructor `Item::Variant` -/
  | ctor (k : Nat)
  /-- `::core::fmt::Formatter::debug_struct` / `debug_tuple` / `write_str` -/
  | debugStruct | debugTuple | writeStr
  /-- `::core::fmt::DebugStruct::field` / `finish` / `finish_non_exhaustive` -/
  | dsField | dsFinish | dsFinishNonExhaustive
  /-- `::core::fmt::DebugTuple::field` / `finish` -/
  | dtField | dtFinish
  deriving DecidableEq, Repr, Inhabited

inductive Method where
  /-- `.zeroize()` -/
  | zeroize
  /-- `.zeroize_or_on_drop()` -/
  | zeroizeOrOnDrop
  deriving DecidableEq, Repr, Inhabited

inductive BinOp where
  | and | or | eq | add
  deriving DecidableEq, Repr, Inhabited

/-- String literals the expansion contains. -/
inductive StrLit where
  /-- `data.ident.to_string()` of variant `k` -/
  | dataName (k : Nat)
  /-- `member.to_string()` of field `i` of variant `k` -/
  | fieldName (k i : Nat)
  deriving DecidableEq, Repr, Inhabited

mutual
inductive Expr where
  | litBool (b : Bool)
  | litInt (n : Nat)
  | litStr (s : StrLit)
  | var (x : Var)
  /-- `::core::cmp::Ordering::Equal` -/
  | equal
  /-- `::core::option::Option::None` -/
  | none_
  /-- path of unit variant `k` used as a value -/
  | unitCtor (k : Nat)
  /-- the user's explicit discriminant expression of variant `k` -/
  | userDiscr (k : Nat)
  /-- `<Default path>::default()` producing the value of field `i` of variant `k` -/
  | defaultCall (k i : Nat)
  | call (f : Fn) (args : List Expr)
  /-- the same with a trailing comma after the last argument -/
  | callT (f : Fn) (args : List Expr)
  /-- `Clone::clone(e)` etc. applied to a *whole value of the item type*: resolved
  through the sibling impl of the same expansion -/
  | selfCall (f : TraitFn) (args : List Expr)
  /-- `__discriminant(e)`: call of the nested `const fn`, whose body is `body`
  with `__this` bound to the argument -/
  | discFnCall (body : Expr) (arg : Expr)
  /-- `__VALIDATE_ISIZE_<variant k>`: use of the nested constant, defined as `body` -/
  | validateConst (k : Nat) (body : Expr)
  | methodCall (recv : Expr) (m : Method)
  | ref (e : Expr)
  | refMut (e : Expr)
  | deref (e : Expr)
  | cast (e : Expr) (ty : IntTy)
  | binop (op : BinOp) (a b : Expr)
  | paren (e : Expr)
  | tuple (es : List Expr)
  | ifElse (c t e : Expr)
  | match_ (scrut : Expr) (arms : List Arm)
  /-- `{ stmts tail }`; `tail = unit` when there is no tail expression -/
  | block (stmts : List Stmt) (tail : Expr)
  /-- `unsafe { e }` -/
  | unsafe_ (e : Expr)
  /-- `*<*const _>::from(e).cast::<ty>()` -/
  | ptrRead (e : Expr) (ty : IntTy)
  | ret (e : Expr)
  /-- `Path { member: e, .. }` for braced variant `k` -/
  | structLit (k : Nat) (fields : List FieldInit)
  /-- `::core::matches!(e, p)` -/
  | matches_ (e : Expr) (p : Pat)
  /-- `::core::unreachable!("comparing variants yielded unexpected results")` -/
  | unreachable
  /-- no expression (absent block tail) -/
  | unit
  /-- juxtaposition of the bodies the variants contributed (`Default`); a
  well-formed expansion has exactly one -/
  | seq (es : List Expr)
inductive Arm where
  /-- `p => e` followed by a comma iff `comma` -/
  | mk (p : Pat) (e : Expr) (comma : Bool)
inductive FieldInit where
  | mk (i : Nat) (e : Expr)
inductive Stmt where
  /-- `let p = e;` -/
  | let_ (p : Pat) (e : Expr)
  /-- `e;` -/
  | semi (e : Expr)
  /-- `if c { return r; }` in statement position -/
  | ifRet (c : Expr) (r : Expr)
  /-- `let _: __AssertEq<ty>;` with `ty` the type of field `i` of variant `k` -/
  | assertEq (k i : Nat)
  /-- `let _: __AssertCopy<Self>;` -/
  | assertCopySelf
  /-- `struct __AssertEq<..>(..);` -/
  | structAssertEq
  /-- `struct __AssertCopy<..>(..);` -/
  | structAssertCopy
  /-- `const fn __discriminant<..>(__this: &Item<..>) -> repr where .. { validate.. body }` -/
  | discFn (repr : IntTy) (validate : List Stmt) (body : Expr)
  /-- `const __VALIDATE_ISIZE_<variant k>: isize = e;` -/
  | validateDef (k : Nat) (e : Expr)
  /-- `use <trait path>;` -/
  | useTrait
  /-- `use <crate>::__internal::AssertZeroize; use <crate>::__internal::AssertZeroizeOnDrop;` -/
  | useAsserts
end

instance : Inhabited Expr := ⟨.unit⟩
instance : Inhabited Stmt := ⟨.useTrait⟩
instance : Inhabited Arm := ⟨.mk .wild .unit false⟩

/-- Signature kinds (`build_signature` of each trait). -/
inductive Sig where
  | eq | partialCmp | cmp | clone | fmt | default | assertEq | hash | zeroize | drop
  deriving DecidableEq, Repr, Inhabited

/-- One `fn` item of an impl. -/
structure Method' where
  sig : Sig
  /-- `#[inline]` in front -/
  inline : Bool
  /-- statements and tail of the fn body -/
  body : Expr
  deriving Inhabited

/-- One predicate of a generated where-clause. -/
inductive WherePred where
  /-- a predicate of the item's own where-clause, verbatim -/
  | item (toks : Toks)
  /-- a `Type: Bound` entry of the attribute, verbatim -/
  | custom (toks : Toks)
  /-- `ty: <trait path>` plus `+ ::core::marker::Copy` when `copy` -/
  | bound (ty : Toks) (copy : Bool)
  deriving DecidableEq, Repr, Inhabited

/-- One `impl` block. -/
structure Impl where
  /-- the trait in the header: `none` = `::core::ops::Drop` -/
  trait : DeriveTrait
  isDrop : Bool
  preds : List WherePred
  /-- the item's where-clause ended in a comma and nothing was appended -/
  whereTrailing : Bool
  methods : List Method'
  deriving Inhabited

end DW
