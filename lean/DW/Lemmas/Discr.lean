import DW.Lemmas.Eval

/-! # `build_discriminants` computes the reference's discriminant values (C04) -/

namespace DW

variable {α : Type}

/-- Value of a discriminant expression (closed: explicit expressions,
literals, `(e) + n`). -/
def discVal (ud : DiscrTable) : Expr → Option Int
  | .userDiscr k => ud k
  | .litInt n => some n
  | .paren e => discVal ud e
  | .binop .add a b =>
    match discVal ud a, discVal ud b with
    | some x, some y => some (x + y)
    | _, _ => none
  | _ => none

theorem eval_of_discVal (cx : SemCtx α) (env : Env α) (log : Log α) :
    (e : Expr) → (n : Int) → discVal cx.userDiscr e = some n → eval cx env log e = .ok (.int n, log)
  | .userDiscr k, n, h => by simp [discVal] at h; simp [eval, h]
  | .litInt m, n, h => by simp [discVal] at h; simp [eval, h]
  | .paren e, n, h => by
    simp only [discVal] at h
    simp [eval, eval_of_discVal cx env log e n h]
  | .binop .add a b, n, h => by
    simp only [discVal] at h
    cases ha : discVal cx.userDiscr a with
    | none => simp [ha] at h
    | some x =>
      cases hb : discVal cx.userDiscr b with
      | none => simp [ha, hb] at h
      | some y =>
        simp [ha, hb] at h
        simp [eval, eval_of_discVal cx env log a x ha, eval_of_discVal cx env log b y hb, applyBinop, h]
  | .binop .and _ _, _, h | .binop .or _ _, _, h | .binop .eq _ _, _, h => by simp [discVal] at h
  | .litBool _, _, h | .litStr _, _, h | .var _, _, h | .equal, _, h | .none_, _, h
  | .unitCtor _, _, h | .defaultCall _ _, _, h | .call _ _, _, h | .callT _ _, _, h
  | .selfCall _ _, _, h | .discFnCall _ _, _, h | .validateConst _ _, _, h | .methodCall _ _, _, h
  | .ref _, _, h | .refMut _, _, h | .deref _, _, h | .cast _ _, _, h | .tuple _, _, h
  | .ifElse _ _ _, _, h | .match_ _ _, _, h | .block _ _, _, h | .unsafe_ _, _, h
  | .ptrRead _ _, _, h | .ret _, _, h | .structLit _ _, _, h | .matches_ _ _, _, h
  | .unreachable, _, h | .unit, _, h | .seq _, _, h => by simp [discVal] at h

/-- Invariant of the `last_expression` state of `build_discriminants`: `next` is
the value an implicit variant would get now. -/
def DiscInv (ud : DiscrTable) (st : DiscState) (acc : List Expr) (next : Int) : Prop :=
  match st with
  | none => next = 0
  | some (none, c) => next = (c : Int) + 1
  | some (some idx, c) => ∃ e, discVal ud (acc.getD idx .unit) = some e ∧ next = e + (c : Int) + 1

theorem getD_append_left (acc : List Expr) (x : Expr) (idx : Nat) (h : idx < acc.length) :
    (acc ++ [x]).getD idx .unit = acc.getD idx .unit := by
  simp [List.getD, List.getElem?_append_left h]

theorem buildDiscriminantsGo_spec (ud : DiscrTable) (rest : List Data) (k : Nat) (st : DiscState)
    (acc : List Expr) (next : Int)
    (hud : ∀ j (h : j < rest.length), ud (k + j) = (rest[j].discriminant).map (·.value))
    (hinv : DiscInv ud st acc next)
    (hidx : ∀ idx c, st = some (some idx, c) → idx < acc.length)
    (hlen : acc.length = k) :
    (buildDiscriminantsGo rest k st acc).map (discVal ud) =
      acc.map (discVal ud) ++ (rustDiscrGo rest next).map some := by
  induction rest generalizing k st acc next with
  | nil => simp [buildDiscriminantsGo, rustDiscrGo]
  | cons v rest ih =>
    have hud0 := hud 0 (by simp)
    simp only [Nat.add_zero, List.getElem_cons_zero] at hud0
    have hud' : ∀ j (h : j < rest.length), ud (k + 1 + j) = (rest[j].discriminant).map (·.value) := by
      intro j h
      have := hud (j + 1) (by simp; omega)
      simpa [Nat.add_assoc, Nat.add_comm 1 j] using this
    unfold buildDiscriminantsGo rustDiscrGo
    cases hd : v.discriminant with
    | some e =>
      simp only [hd]
      have hval : discVal ud (.userDiscr k) = some e.value := by simp [discVal, hud0, hd]
      rw [ih (k + 1) (some (some acc.length, 0)) (acc ++ [Expr.userDiscr k]) (e.value + 1) hud'
        (by
          refine ⟨e.value, ?_, by simp⟩
          simp [List.getD, hval])
        (by intro idx c h; simp at h; simp [← h.1])
        (by simp [hlen])]
      simp [hval]
    | none =>
      simp only [hd]
      cases st with
      | none =>
        simp only
        have hn : next = 0 := hinv
        subst hn
        rw [ih (k + 1) (some (none, 0)) (acc ++ [Expr.litInt 0]) (0 + 1) hud' (by simp [DiscInv])
          (by intro idx c h; simp at h) (by simp [hlen])]
        simp [discVal]
      | some p =>
        obtain ⟨oi, c⟩ := p
        cases oi with
        | none =>
          simp only
          have hn : next = (c : Int) + 1 := hinv
          subst hn
          rw [ih (k + 1) (some (none, c + 1)) (acc ++ [Expr.litInt (c + 1)]) ((c : Int) + 1 + 1) hud'
            (by simp [DiscInv]) (by intro idx c' h; simp at h) (by simp [hlen])]
          simp [discVal]
        | some idx =>
          simp only
          obtain ⟨e, he, hn⟩ := hinv
          subst hn
          have hlt := hidx idx c rfl
          have hval : discVal ud (.binop .add (.paren (acc.getD idx .unit)) (.litInt (c + 1))) =
              some (e + (c : Int) + 1) := by
            simp only [discVal, he]
            simp [Int.add_assoc]
          rw [ih (k + 1) (some (some idx, c + 1))
            (acc ++ [Expr.binop .add (.paren (acc.getD idx .unit)) (.litInt (c + 1))]) (e + (c : Int) + 1 + 1) hud'
            (by
              refine ⟨e, ?_, by simp [Int.add_assoc]⟩
              rw [getD_append_left _ _ _ hlt]; exact he)
            (by intro idx' c' h; simp at h; simp [← h.1]; omega)
            (by simp [hlen])]
          simp only [List.map_append, List.map_cons, List.map_nil, hval, List.append_assoc,
            List.singleton_append]

/-- `C04_discriminants`: every expression `build_discriminants` produces
evaluates to the discriminant value Rust assigns to that variant. -/
theorem buildDiscriminants_spec (vs : List Data) :
    (buildDiscriminants vs).map (discVal (userDiscrOf vs)) = (rustDiscrs vs).map some := by
  have := buildDiscriminantsGo_spec (userDiscrOf vs) vs 0 none [] 0
    (by intro j h; simp [userDiscrOf, List.getElem?_eq_getElem h])
    (by simp [DiscInv]) (by intro idx c h; cases h) rfl
  simpa [buildDiscriminants, rustDiscrs] using this

theorem rustDiscrGo_length (vs : List Data) (n : Int) : (rustDiscrGo vs n).length = vs.length := by
  induction vs generalizing n with
  | nil => rfl
  | cons v vs ih => simp [rustDiscrGo, ih]

theorem rustDiscrs_length (vs : List Data) : (rustDiscrs vs).length = vs.length :=
  rustDiscrGo_length vs 0

theorem buildDiscriminants_length (vs : List Data) : (buildDiscriminants vs).length = vs.length := by
  have := congrArg List.length (buildDiscriminants_spec vs)
  simpa [rustDiscrs, rustDiscrGo_length] using this

theorem buildDiscriminants_getElem (vs : List Data) (k : Nat) (h : k < vs.length) :
    discVal (userDiscrOf vs) ((buildDiscriminants vs)[k]'(by rw [buildDiscriminants_length]; exact h)) =
      some ((rustDiscrs vs)[k]'(by rw [rustDiscrs_length]; exact h)) := by
  have := buildDiscriminants_spec vs
  have h1 := congrArg (fun l => l[k]?) this
  simp only [List.getElem?_map] at h1
  rw [List.getElem?_eq_getElem (by rw [buildDiscriminants_length]; exact h),
    List.getElem?_eq_getElem (by rw [rustDiscrs_length]; exact h)] at h1
  simpa using h1

end DW
