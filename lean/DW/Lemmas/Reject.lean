import DW.Lemmas.Validate

/-!
# Rejection lemmas: an offending option anywhere in the attributes makes the
validation fail, whatever stands around it

`Except` has no recovery, so "the computation reaches the offending element or
fails earlier" is proved by induction over the prefix in front of it.
-/

namespace DW

/-- A successful `Skip::add_attribute` never returns `Skip::None`. -/
theorem Skip.addAttribute_ne_none (c : Cfg) (self s' : Skip) (name : String) (dws : List DeriveWhere)
    (si : Option Skip) (m : Meta) (h : Skip.addAttribute c self name dws si m = .ok s') : s' ≠ .none := by
  unfold Skip.addAttribute at h
  cases m with
  | path p =>
    cases self with
    | none =>
      simp only at h
      split at h
      · cases h
      · split at h
        · cases h; simp
        · cases h
    | all => cases h
    | traits gs => cases h
  | list p parsable inner =>
    simp only at h
    obtain ⟨nested, _, h⟩ := bind_ok h
    cases self with
    | none =>
      simp only at h
      obtain ⟨gs, _, h⟩ := bind_ok h
      cases h; simp
    | all => cases h
    | traits gs0 =>
      simp only at h
      obtain ⟨gs, _, h⟩ := bind_ok h
      cases h; simp
  | nameValue p v => cases h

/-- From `Skip::All` every further `skip` option is an error. -/
theorem Skip.addAttribute_all (c : Cfg) (name : String) (dws : List DeriveWhere) (si : Option Skip) (m : Meta) :
    ∃ e, Skip.addAttribute c .all name dws si m = .error e := by
  unfold Skip.addAttribute
  cases m with
  | path p => exact ⟨_, rfl⟩
  | list p parsable inner =>
    simp only
    cases h : parseNonEmpty parsable inner with
    | error e => exact ⟨e, by simp [bind, Except.bind]⟩
    | ok nested => exact ⟨.optionSkipAll, by simp [bind, Except.bind]⟩
  | nameValue p v => exact ⟨_, rfl⟩

/-- A bare `skip` on a state that already has a marker is a duplicate. -/
theorem Skip.addAttribute_bare_dup (c : Cfg) (self : Skip) (hs : self ≠ .none) (name : String)
    (dws : List DeriveWhere) (si : Option Skip) (p : MPath) :
    ∃ e, Skip.addAttribute c self name dws si (.path p) = .error e := by
  unfold Skip.addAttribute
  cases self with
  | none => exact absurd rfl hs
  | all => exact ⟨_, rfl⟩
  | traits gs => exact ⟨_, rfl⟩

/-- A successful bare `skip` yields `Skip::All`. -/
theorem Skip.addAttribute_bare_ok (c : Cfg) (self s' : Skip) (name : String) (dws : List DeriveWhere)
    (si : Option Skip) (p : MPath) (h : Skip.addAttribute c self name dws si (.path p) = .ok s') : s' = .all := by
  unfold Skip.addAttribute at h
  cases self with
  | none =>
    simp only at h
    split at h
    · cases h
    · split at h
      · cases h; rfl
      · cases h
  | all => cases h
  | traits gs => cases h

/-! ## fields -/

/-- One step of `FieldAttr.addMetas` either fails or continues with a state whose
skip marker is the old one or a (non-`None`) result of `Skip.addAttribute`. -/
theorem FieldAttr.addMetas_cons (c : Cfg) (dws : List DeriveWhere) (si : Skip) (m : Meta) (rest : List Meta)
    (s : FieldAttr) :
    (∃ e, FieldAttr.addMetas c dws si (m :: rest) s = .error e) ∨
    ∃ s', FieldAttr.addMetas c dws si (m :: rest) s = FieldAttr.addMetas c dws si rest s' ∧
      ((m.getPath.isIdent "skip" = true ∧ Skip.addAttribute c s.skip "skip" dws (some si) m = .ok s'.skip) ∨
       (m.getPath.isIdent "skip" = false ∧ s'.skip = s.skip)) := by
  by_cases hs : m.getPath.isIdent "skip" = true
  · simp only [FieldAttr.addMetas, hs, ↓reduceIte]
    cases h : Skip.addAttribute c s.skip "skip" dws (some si) m with
    | error e => exact Or.inl ⟨e, by simp [bind, Except.bind]⟩
    | ok sk => exact Or.inr ⟨{ s with skip := sk }, by simp [bind, Except.bind], Or.inl ⟨trivial, rfl⟩⟩
  · have hs' : m.getPath.isIdent "skip" = false := by simpa using hs
    simp only [FieldAttr.addMetas, hs', Bool.false_eq_true, ↓reduceIte]
    by_cases hz : (c.zeroize && m.getPath.isIdent "Zeroize") = true
    · simp only [hz, ↓reduceIte]
      cases h : ZeroizeFqs.addAttribute s.fqs m dws with
      | error e => exact Or.inl ⟨e, by simp [bind, Except.bind]⟩
      | ok f => exact Or.inr ⟨{ s with fqs := f }, by simp [bind, Except.bind], Or.inr ⟨trivial, rfl⟩⟩
    · simp only [hz, Bool.false_eq_true, ↓reduceIte]
      exact Or.inl ⟨_, rfl⟩

/-- Failure of a suffix for every state is failure of the whole list. -/
theorem FieldAttr.addMetas_append_error (c : Cfg) (dws : List DeriveWhere) (si : Skip) (pre rest : List Meta)
    (h : ∀ s, ∃ e, FieldAttr.addMetas c dws si rest s = .error e) :
    ∀ s, ∃ e, FieldAttr.addMetas c dws si (pre ++ rest) s = .error e := by
  induction pre with
  | nil => exact h
  | cons m pre ih =>
    intro s
    rcases FieldAttr.addMetas_cons c dws si m (pre ++ rest) s with he | ⟨s', heq, _⟩
    · exact he
    · rw [List.cons_append, heq]; exact ih s'

/-- Once the marker is `Skip::All`, a later `skip` option of any form fails. -/
theorem FieldAttr.addMetas_after_all (c : Cfg) (dws : List DeriveWhere) (si : Skip) (mid : List Meta) (m : Meta)
    (post : List Meta) (hm : m.getPath.isIdent "skip" = true) :
    ∀ s, s.skip = .all → ∃ e, FieldAttr.addMetas c dws si (mid ++ m :: post) s = .error e := by
  induction mid with
  | nil =>
    intro s hs
    rcases FieldAttr.addMetas_cons c dws si m post s with he | ⟨s', _, h⟩
    · exact he
    · rcases h with ⟨_, h⟩ | ⟨h, _⟩
      · rw [hs] at h
        obtain ⟨e, he⟩ := Skip.addAttribute_all c "skip" dws (some si) m
        rw [he] at h; cases h
      · rw [hm] at h; cases h
  | cons x mid ih =>
    intro s hs
    rcases FieldAttr.addMetas_cons c dws si x (mid ++ m :: post) s with he | ⟨s', heq, h⟩
    · exact he
    · rw [List.cons_append, heq]
      rcases h with ⟨_, h⟩ | ⟨_, h⟩
      · rw [hs] at h
        obtain ⟨e, he⟩ := Skip.addAttribute_all c "skip" dws (some si) x
        rw [he] at h; cases h
      · exact ih s' (h ▸ hs)

/-- Once there is a marker, a later bare `skip` fails. -/
theorem FieldAttr.addMetas_bare_after (c : Cfg) (dws : List DeriveWhere) (si : Skip) (mid : List Meta) (p : MPath)
    (post : List Meta) (hm : p.isIdent "skip" = true) :
    ∀ s, s.skip ≠ .none → ∃ e, FieldAttr.addMetas c dws si (mid ++ .path p :: post) s = .error e := by
  induction mid with
  | nil =>
    intro s hs
    rcases FieldAttr.addMetas_cons c dws si (.path p) post s with he | ⟨s', _, h⟩
    · exact he
    · rcases h with ⟨_, h⟩ | ⟨h, _⟩
      · obtain ⟨e, he⟩ := Skip.addAttribute_bare_dup c s.skip hs "skip" dws (some si) p
        rw [he] at h; cases h
      · simp only [Meta.getPath] at h; rw [hm] at h; cases h
  | cons x mid ih =>
    intro s hs
    rcases FieldAttr.addMetas_cons c dws si x (mid ++ .path p :: post) s with he | ⟨s', heq, h⟩
    · exact he
    · rw [List.cons_append, heq]
      rcases h with ⟨_, h⟩ | ⟨_, h⟩
      · exact ih s' (Skip.addAttribute_ne_none _ _ _ _ _ _ _ h)
      · exact ih s' (h ▸ hs)

end DW

namespace DW

/-- `R`-level failure: the computation returns `Err(..)`. -/
def Fails {α} (x : R α) : Prop := ∃ e, x = .error e

theorem Fails.bind_left {α β} {x : R α} {f : α → R β} (h : Fails x) : Fails (x >>= f) := by
  obtain ⟨e, rfl⟩ := h; exact ⟨e, rfl⟩

theorem Fails.bind_right {α β} {x : R α} {f : α → R β} (h : ∀ a, Fails (f a)) : Fails (x >>= f) := by
  cases x with
  | error e => exact ⟨e, rfl⟩
  | ok a => exact h a

/-- `addMetas` distributes over append. -/
theorem FieldAttr.addMetas_append (c : Cfg) (dws : List DeriveWhere) (si : Skip) (a b : List Meta) :
    ∀ s, FieldAttr.addMetas c dws si (a ++ b) s = FieldAttr.addMetas c dws si a s >>= FieldAttr.addMetas c dws si b := by
  induction a with
  | nil => intro s; rfl
  | cons m a ih =>
    intro s
    simp only [List.cons_append, FieldAttr.addMetas]
    split
    · cases h : Skip.addAttribute c s.skip "skip" dws (some si) m with
      | error e => rfl
      | ok sk => exact ih _
    · split
      · cases h : ZeroizeFqs.addAttribute s.fqs m dws with
        | error e => rfl
        | ok f => exact ih _
      · rfl

/-- All metas of a field's `#[derive_where(..)]` attributes, when every attribute is a non-empty meta list. -/
def flatMetas : List DWBody → Option (List Meta)
  | [] => some []
  | .notList :: _ => none
  | b :: rest =>
    match b.parseNonEmpty with
    | .ok ms => (flatMetas rest).map (ms ++ ·)
    | .error _ => none

theorem FieldAttr.fromAttrs_flat_none (c : Cfg) (dws : List DeriveWhere) (si : Skip) (bs : List DWBody)
    (h : flatMetas bs = none) : ∀ s, Fails (FieldAttr.fromAttrs c dws si bs s) := by
  induction bs with
  | nil => simp [flatMetas] at h
  | cons b bs ih =>
    intro s
    simp only [FieldAttr.fromAttrs]
    cases b with
    | notList => exact Fails.bind_left ⟨_, rfl⟩
    | list es gs =>
      simp only [flatMetas] at h
      cases hp : (DWBody.list es gs).parseNonEmpty with
      | error e => exact Fails.bind_left ⟨e, by simp [FieldAttr.addMeta, hp, bind, Except.bind]⟩
      | ok ms =>
        simp only [hp, Option.map_eq_none_iff] at h
        exact Fails.bind_right fun s' => ih h s'

theorem FieldAttr.fromAttrs_flat_some (c : Cfg) (dws : List DeriveWhere) (si : Skip) (bs : List DWBody) (ms : List Meta)
    (h : flatMetas bs = some ms) : ∀ s, FieldAttr.fromAttrs c dws si bs s = FieldAttr.addMetas c dws si ms s := by
  induction bs generalizing ms with
  | nil => intro s; simp only [flatMetas, Option.some.injEq] at h; subst h; rfl
  | cons b bs ih =>
    intro s
    cases b with
    | notList => simp [flatMetas] at h
    | list es gs =>
      simp only [flatMetas] at h
      cases hp : (DWBody.list es gs).parseNonEmpty with
      | error e => simp [hp] at h
      | ok ms1 =>
        simp only [hp, Option.map_eq_some_iff] at h
        obtain ⟨ms2, h2, rfl⟩ := h
        simp only [FieldAttr.fromAttrs, FieldAttr.addMeta, hp]
        rw [FieldAttr.addMetas_append]
        simp only [bind, Except.bind]
        cases FieldAttr.addMetas c dws si ms1 s with
        | error e => rfl
        | ok s' => exact ih ms2 h2 s'

/-- A `skip` option. -/
def Meta.isSkipOpt (m : Meta) : Prop := m.getPath.isIdent "skip" = true

/-- A bare `skip` and any other `skip` option on the same field (in one attribute or
in several, in either order) are rejected. -/
theorem FieldAttr.addMetas_repeat (c : Cfg) (dws : List DeriveWhere) (si : Skip) (pre mid post : List Meta) (m1 m2 : Meta)
    (h1 : m1.isSkipOpt) (h2 : m2.isSkipOpt) (hb : (∃ p, m1 = .path p) ∨ (∃ p, m2 = .path p)) :
    ∀ s, Fails (FieldAttr.addMetas c dws si (pre ++ m1 :: (mid ++ m2 :: post)) s) := by
  apply FieldAttr.addMetas_append_error
  intro s
  rcases FieldAttr.addMetas_cons c dws si m1 (mid ++ m2 :: post) s with he | ⟨s', heq, hinfo⟩
  · exact he
  · rw [heq]
    rcases hinfo with ⟨_, hok⟩ | ⟨hne, _⟩
    · rcases hb with ⟨p, rfl⟩ | ⟨p, rfl⟩
      · exact FieldAttr.addMetas_after_all c dws si mid m2 post h2 s'
          (Skip.addAttribute_bare_ok _ _ _ _ _ _ _ hok)
      · exact FieldAttr.addMetas_bare_after c dws si mid p post h2 s'
          (Skip.addAttribute_ne_none _ _ _ _ _ _ _ hok)
    · rw [h1] at hne; cases hne

end DW

namespace DW

/-! ## lifting a failing field / variant to the whole item -/

/-- The field's attributes are rejected whatever traits are derived and whatever the parent's `skip_inner` is. -/
def RawField.Rejected (c : Cfg) (f : RawField) : Prop :=
  ∀ dws si, Fails (FieldAttr.fromAttrs c dws si f.attrs {})

theorem Field.fromFields_fails (c : Cfg) (dws : List DeriveWhere) (si : Skip) (fs : List RawField) (f : RawField)
    (hf : f ∈ fs) (hr : f.Rejected c) : Fails (Field.fromFields c dws si fs) := by
  induction fs with
  | nil => cases hf
  | cons g fs ih =>
    simp only [Field.fromFields]
    rcases List.mem_cons.mp hf with rfl | hf
    · exact Fails.bind_left (Fails.bind_left (hr dws si))
    · exact Fails.bind_right fun _ => Fails.bind_left (ih hf)

theorem Data.fromStruct_fails (c : Cfg) (dws : List DeriveWhere) (si : Skip) (inc : Bool) (v : RawVariant)
    (f : RawField) (hf : f ∈ v.fields) (hr : f.Rejected c) (hs : v.shape ≠ .unit) :
    Fails (Data.fromStruct c dws si inc v) := by
  unfold Data.fromStruct
  split
  · rename_i h; exact absurd h hs
  · split
    · exact ⟨_, rfl⟩
    · exact Fails.bind_left (Field.fromFields_fails c dws si v.fields f hf hr)

theorem Data.fromVariant_fails (c : Cfg) (dws : List DeriveWhere) (v : RawVariant)
    (f : RawField) (hf : f ∈ v.fields) (hr : f.Rejected c) (hs : v.shape ≠ .unit) :
    Fails (Data.fromVariant c dws v) := by
  unfold Data.fromVariant
  refine Fails.bind_right fun a => Fails.bind_left ?_
  unfold Data.variantFields
  split
  · rename_i h; exact absurd h hs
  · exact Field.fromFields_fails c dws a.skipInner v.fields f hf hr

theorem Data.fromVariants_fails (c : Cfg) (dws : List DeriveWhere) (vs : List RawVariant) (v : RawVariant)
    (hv : v ∈ vs) (hr : ∀ dws, Fails (Data.fromVariant c dws v)) : Fails (Data.fromVariants c dws vs) := by
  induction vs with
  | nil => cases hv
  | cons w vs ih =>
    simp only [Data.fromVariants]
    rcases List.mem_cons.mp hv with rfl | hv
    · exact Fails.bind_left (hr dws)
    · exact Fails.bind_right fun _ => Fails.bind_left (ih hv)

/-- A variant (or, for structs and unions, the single field list) whose processing fails for every set of derived
traits makes `Input::from_input` fail. -/
theorem Input.fromInput_fails_of_variant (c : Cfg) (raw : RawItem) (v : RawVariant) (hv : v ∈ raw.variants)
    (henum : raw.kind = .enum_ → ∀ dws, Fails (Data.fromVariant c dws v))
    (hstruct : raw.kind ≠ .enum_ → ∀ dws si inc sh, sh ≠ Shape.unit → Fails (Data.fromStruct c dws si inc { v with shape := sh }))
    (hshape : raw.kind ≠ .enum_ → v.shape ≠ .unit) :
    Fails (Input.fromInput c raw) := by
  unfold Input.fromInput
  refine Fails.bind_right fun attr => Fails.bind_left ?_
  unfold Input.buildItem
  simp only
  split
  · rename_i hk
    refine Fails.bind_right fun _ => Fails.bind_left ?_
    exact Data.fromVariants_fails c _ raw.variants v hv (henum hk)
  · rename_i hk
    have hk' : raw.kind ≠ .enum_ := by
      intro h; exact hk h
    split
    · rename_i w hw
      rw [hw] at hv
      have : v = w := by simpa using hv
      subst this
      refine Fails.bind_left ?_
      apply hstruct hk'
      split
      · simp
      · exact hshape hk'
    · exact ⟨_, rfl⟩

/-- A rejected field anywhere in the item makes `Input::from_input` fail. -/
theorem Input.fromInput_fails_of_field (c : Cfg) (raw : RawItem) (v : RawVariant) (f : RawField)
    (hv : v ∈ raw.variants) (hf : f ∈ v.fields) (hr : f.Rejected c) (hs : v.shape ≠ .unit) :
    Fails (Input.fromInput c raw) := by
  apply Input.fromInput_fails_of_variant c raw v hv
  · intro _ dws; exact Data.fromVariant_fails c dws v f hf hr hs
  · intro _ dws si inc sh hsh
    exact Data.fromStruct_fails c dws si inc { v with shape := sh } f hf hr hsh
  · intro _; exact hs

end DW

namespace DW

/-! ## redundant field skip -/

theorem Skip.addGroups_parent (c : Cfg) (dws : List DeriveWhere) (si : Option Skip) (p : MPath) (g : SkipGroup)
    (hp : SkipGroup.fromPath c p = .ok g) (hcov : parentCovers si g = true) (pre post : List Meta) :
    ∀ acc, Fails (Skip.addGroups c dws si (pre ++ .path p :: post) acc) := by
  induction pre with
  | nil =>
    intro acc
    simp only [List.nil_append, Skip.addGroups, hp, bind, Except.bind, hcov, ↓reduceIte]
    split <;> exact ⟨_, rfl⟩
  | cons x pre ih =>
    intro acc
    cases x with
    | path q =>
      simp only [List.cons_append, Skip.addGroups]
      cases hq : SkipGroup.fromPath c q with
      | error e => exact ⟨e, rfl⟩
      | ok g' =>
        simp only [bind, Except.bind]
        split
        · exact ⟨_, rfl⟩
        · split
          · exact ⟨_, rfl⟩
          · split
            · exact ih _
            · exact ⟨_, rfl⟩
    | list _ _ _ => exact ⟨_, rfl⟩
    | nameValue _ _ => exact ⟨_, rfl⟩

/-- `skip(.., G, ..)` on a field whose parent's `skip_inner` already covers group `G` is rejected. -/
theorem Skip.addAttribute_parent (c : Cfg) (self : Skip) (name : String) (dws : List DeriveWhere) (si : Option Skip)
    (lp p : MPath) (g : SkipGroup) (hp : SkipGroup.fromPath c p = .ok g) (hcov : parentCovers si g = true)
    (pre post : List Meta) :
    Fails (Skip.addAttribute c self name dws si (.list lp true (pre ++ .path p :: post))) := by
  unfold Skip.addAttribute
  have hne : parseNonEmpty true (pre ++ .path p :: post) = .ok (pre ++ .path p :: post) := by
    simp [parseNonEmpty]
  simp only [hne, bind, Except.bind]
  cases self with
  | none =>
    obtain ⟨e, he⟩ := Skip.addGroups_parent c dws si p g hp hcov pre post []
    exact ⟨e, by simp [he]⟩
  | all => exact ⟨_, rfl⟩
  | traits gs0 =>
    obtain ⟨e, he⟩ := Skip.addGroups_parent c dws si p g hp hcov pre post gs0
    exact ⟨e, by simp [he]⟩

/-- A bare `skip` under a bare `skip_inner` is rejected. -/
theorem Skip.addAttribute_bare_parent (c : Cfg) (self : Skip) (name : String) (dws : List DeriveWhere) (p : MPath) :
    Fails (Skip.addAttribute c self name dws (some .all) (.path p)) := by
  unfold Skip.addAttribute
  cases self <;> exact ⟨_, rfl⟩

/-! ## variants -/

theorem VariantAttr.addMetas_noFields (c : Cfg) (dws : List DeriveWhere) (pre post : List Meta) (m : Meta)
    (hm : m.getPath.isIdent "skip_inner" = true) :
    ∀ s, Fails (VariantAttr.addMetas c dws true (pre ++ m :: post) s) := by
  induction pre with
  | nil => intro s; simp only [List.nil_append, VariantAttr.addMetas, hm, ↓reduceIte]; exact ⟨_, rfl⟩
  | cons x pre ih =>
    intro s
    simp only [List.cons_append, VariantAttr.addMetas]
    split
    · exact ⟨_, rfl⟩
    · split
      · exact Fails.bind_right fun _ => ih _
      · split
        · exact Fails.bind_right fun _ => ih _
        · exact ⟨_, rfl⟩

theorem VariantAttr.addMetas_append (c : Cfg) (dws : List DeriveWhere) (nf : Bool) (a b : List Meta) :
    ∀ s, VariantAttr.addMetas c dws nf (a ++ b) s = VariantAttr.addMetas c dws nf a s >>= VariantAttr.addMetas c dws nf b := by
  induction a with
  | nil => intro s; rfl
  | cons m a ih =>
    intro s
    simp only [List.cons_append, VariantAttr.addMetas]
    split
    · split
      · rfl
      · cases h : Skip.addAttribute c s.skipInner "skip_inner" dws none m with
        | error e => rfl
        | ok sk => exact ih _
    · split
      · cases h : Default.addAttribute s.default m dws with
        | error e => rfl
        | ok d => exact ih _
      · split
        · cases h : Incomparable.addAttribute s.incomparable m dws with
          | error e => rfl
          | ok d => exact ih _
        · rfl

theorem VariantAttr.fromAttrs_flat_none (c : Cfg) (dws : List DeriveWhere) (nf : Bool) (bs : List DWBody)
    (h : flatMetas bs = none) : ∀ s, Fails (VariantAttr.fromAttrs c dws nf bs s) := by
  induction bs with
  | nil => simp [flatMetas] at h
  | cons b bs ih =>
    intro s
    simp only [VariantAttr.fromAttrs]
    cases b with
    | notList => exact Fails.bind_left ⟨_, rfl⟩
    | list es gs =>
      simp only [flatMetas] at h
      cases hp : (DWBody.list es gs).parseNonEmpty with
      | error e => exact Fails.bind_left ⟨e, by simp [VariantAttr.addMeta, hp, bind, Except.bind]⟩
      | ok ms =>
        simp only [hp, Option.map_eq_none_iff] at h
        exact Fails.bind_right fun s' => ih h s'

theorem VariantAttr.fromAttrs_flat_some (c : Cfg) (dws : List DeriveWhere) (nf : Bool) (bs : List DWBody) (ms : List Meta)
    (h : flatMetas bs = some ms) : ∀ s, VariantAttr.fromAttrs c dws nf bs s = VariantAttr.addMetas c dws nf ms s := by
  induction bs generalizing ms with
  | nil => intro s; simp only [flatMetas, Option.some.injEq] at h; subst h; rfl
  | cons b bs ih =>
    intro s
    cases b with
    | notList => simp [flatMetas] at h
    | list es gs =>
      simp only [flatMetas] at h
      cases hp : (DWBody.list es gs).parseNonEmpty with
      | error e => simp [hp] at h
      | ok ms1 =>
        simp only [hp, Option.map_eq_some_iff] at h
        obtain ⟨ms2, h2, rfl⟩ := h
        simp only [VariantAttr.fromAttrs, VariantAttr.addMeta, hp]
        rw [VariantAttr.addMetas_append]
        simp only [bind, Except.bind]
        cases VariantAttr.addMetas c dws nf ms1 s with
        | error e => rfl
        | ok s' => exact ih ms2 h2 s'

/-! ## bound lists and trait lists -/

theorem parseGenerics_fails (g : RawGeneric) (hg : Fails (Generic.parse g)) :
    ∀ l : List GElem, GElem.gen g ∈ l → Fails (parseGenerics l) := by
  intro l
  induction l using parseGenerics.induct with
  | case1 => intro h; cases h
  | case2 g0 rest ih =>
    intro h
    simp only [parseGenerics]
    by_cases hg0 : g0 = g
    · subst hg0; exact Fails.bind_left hg
    · have hmem : GElem.gen g ∈ rest := by
        rcases List.mem_cons.mp h with h | h
        · exact absurd (GElem.gen.inj h).symm hg0
        · exact h
      refine Fails.bind_right fun _ => ?_
      cases rest with
      | nil => cases hmem
      | cons y rest' =>
        cases y with
        | gen g1 => exact ⟨_, rfl⟩
        | junk => exact ⟨_, rfl⟩
        | comma =>
          have hmem' : GElem.gen g ∈ rest' := by
            rcases List.mem_cons.mp hmem with h | h
            · cases h
            · exact h
          simp only at ih
          exact Fails.bind_left (ih hmem')
  | case3 x rest hx =>
    intro _
    cases x with
    | gen g1 => exact absurd rfl (hx g1)
    | comma => exact ⟨_, rfl⟩
    | junk => exact ⟨_, rfl⟩

end DW

namespace DW

theorem DeriveWhere.loop_fails_generics (c : Cfg) (kind : ItemKind) (gs : List GElem)
    (hgs : Fails (parseGenerics gs)) : ∀ es acc, Fails (DeriveWhere.loop c kind (some gs) es acc) := by
  intro es acc
  induction es, acc using DeriveWhere.loop.induct (gsOpt := some gs) with
  | case1 acc h => cases h
  | case2 acc val h => exact ⟨_, rfl⟩
  | case3 m rest acc ih =>
    simp only [DeriveWhere.loop]
    refine Fails.bind_right fun t => ?_
    have ih' := ih t
    cases rest with
    | nil => exact Fails.bind_left hgs
    | cons y rest' =>
      cases y with
      | ofMeta _ => exact ⟨_, rfl⟩
      | junk => exact ⟨_, rfl⟩
      | comma =>
        cases rest' with
        | nil => exact Fails.bind_left hgs
        | cons z rest'' => simp only at ih' ⊢; exact ih'
  | case4 x rest acc hx =>
    cases x with
    | ofMeta m => exact absurd rfl (hx m)
    | comma => exact ⟨_, rfl⟩
    | junk => exact ⟨_, rfl⟩

theorem DeriveWhere.loop_fails_meta (c : Cfg) (kind : ItemKind) (gsOpt : Option (List GElem)) (m : Meta)
    (hm : Fails (DeriveTrait.fromMeta c kind m)) :
    ∀ es acc, Elem.ofMeta m ∈ es → Fails (DeriveWhere.loop c kind gsOpt es acc) := by
  intro es acc
  induction es, acc using DeriveWhere.loop.induct (gsOpt := gsOpt) with
  | case1 acc h => intro h; cases h
  | case2 acc val h => intro h; cases h
  | case3 m0 rest acc ih =>
    intro hmem
    simp only [DeriveWhere.loop]
    by_cases h0 : m0 = m
    · subst h0; exact Fails.bind_left hm
    · have hmem' : Elem.ofMeta m ∈ rest := by
        rcases List.mem_cons.mp hmem with h | h
        · exact absurd (Elem.ofMeta.inj h).symm h0
        · exact h
      refine Fails.bind_right fun t => ?_
      have ih' := ih t
      cases rest with
      | nil => cases hmem'
      | cons y rest' =>
        have hmem'' : Elem.ofMeta m ∈ rest' ∨ y = Elem.ofMeta m := by
          rcases List.mem_cons.mp hmem' with h | h
          · exact Or.inr h.symm
          · exact Or.inl h
        cases y with
        | ofMeta _ => cases gsOpt <;> exact ⟨_, rfl⟩
        | junk => cases gsOpt <;> exact ⟨_, rfl⟩
        | comma =>
          have hm3 : Elem.ofMeta m ∈ rest' := by
            rcases hmem'' with h | h
            · exact h
            · cases h
          cases rest' with
          | nil => cases hm3
          | cons z rest'' =>
            cases gsOpt with
            | none => simp only at ih' ⊢; exact ih' hm3
            | some gs => simp only at ih' ⊢; exact ih' hm3
  | case4 x rest acc hx =>
    intro _
    cases x with
    | ofMeta m => exact absurd rfl (hx m)
    | comma => exact ⟨_, rfl⟩
    | junk => exact ⟨_, rfl⟩

end DW

namespace DW

theorem ItemAttr.steps_fails (c : Cfg) (kind : ItemKind) (pre post : List RawAttr) (a : RawAttr)
    (ha : ∀ acc, Fails (ItemAttr.step c kind acc a)) :
    ∀ acc, Fails (ItemAttr.steps c kind (pre ++ a :: post) acc) := by
  induction pre with
  | nil => intro acc; exact Fails.bind_left (ha acc)
  | cons x pre ih => intro acc; exact Fails.bind_right fun acc' => ih acc'

theorem Input.fromInput_fails_of_attr (c : Cfg) (raw : RawItem) (pre post : List RawAttr) (a : RawAttr)
    (hattrs : raw.attrs = pre ++ a :: post) (ha : ∀ acc, Fails (ItemAttr.step c raw.kind acc a)) :
    Fails (Input.fromInput c raw) := by
  unfold Input.fromInput ItemAttr.fromAttrs
  rw [hattrs]
  exact Fails.bind_left (Fails.bind_left (ItemAttr.steps_fails c raw.kind pre post a ha {}))

/-- A `#[derive_where(traits; bounds)]` attribute with a `;` is always handed to `DeriveWhere::from_attr`. -/
theorem ItemAttr.step_semi (c : Cfg) (kind : ItemKind) (acc : AttrAcc) (es : List Elem) (gs : List GElem)
    (h : Fails (DeriveWhere.fromAttr c kind es (some gs))) : Fails (ItemAttr.step c kind acc (.dw (.list es (some gs)))) := by
  simp only [ItemAttr.step, DWBody.nested]
  exact Fails.bind_left h

theorem DeriveWhere.fromAttr_semi (c : Cfg) (kind : ItemKind) (es : List Elem) (gs : List GElem) :
    DeriveWhere.fromAttr c kind es (some gs) = DeriveWhere.loop c kind (some gs) es [] := by
  simp [DeriveWhere.fromAttr]

end DW
