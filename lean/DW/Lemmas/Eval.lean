import DW.Lemmas.Skip

/-! # Helper lemmas about pattern matching, environments and arm selection -/

namespace DW

variable {α : Type}

@[simp] theorem Out.bind_ok {β γ} (b : β) (f : β → Out α γ) : (Out.ok b : Out α β).bind f = f b := rfl
@[simp] theorem Out.bind_ret {β γ} (v : Val α) (l : Log α) (f : β → Out α γ) :
    (Out.ret v l : Out α β).bind f = .ret v l := rfl
@[simp] theorem Out.bind_ub {β γ} (f : β → Out α γ) : (Out.ub : Out α β).bind f = .ub := rfl
@[simp] theorem Out.bind_panic {β γ} (f : β → Out α γ) : (Out.panic : Out α β).bind f = .panic := rfl
@[simp] theorem Out.bind_stuck {β γ} (f : β → Out α γ) : (Out.stuck : Out α β).bind f = .stuck := rfl

/-- Bindings of a destructuring pattern, with a start offset (for induction). -/
def bindsFrom (s : Side) (mut_ : Bool) (k n : Nat) (fs : List (Val α)) : Env α :=
  (fs.zipIdx n).map fun (v, i) => (fieldVar s k i, if mut_ then .place i v else v)

theorem ctorBinds_eq (s : Side) (m : Bool) (k : Nat) (fs : List (Val α)) :
    ctorBinds s m k fs = bindsFrom s m k 0 fs := rfl

theorem fieldVar_inj {s : Side} {k i j : Nat} (h : fieldVar s k i = fieldVar s k j) : i = j := by
  cases s <;> simp [fieldVar] at h <;> exact h

theorem lookup_bindsFrom_hit (s : Side) (m : Bool) (k n i : Nat) (fs : List (Val α)) (rest : Env α)
    (h : i < fs.length) :
    (bindsFrom s m k n fs ++ rest).lookup (fieldVar s k (n + i)) =
      some (if m then .place (n + i) fs[i] else fs[i]) := by
  induction fs generalizing n i with
  | nil => simp at h
  | cons v vs ih =>
    simp only [bindsFrom, List.zipIdx_cons, List.map_cons, List.cons_append]
    cases i with
    | zero => simp [List.lookup]
    | succ i =>
      have hne : (fieldVar s k (n + (i + 1)) == fieldVar s k n) = false := by
        simp only [beq_eq_false_iff_ne, ne_eq]
        intro h'
        have := fieldVar_inj h'
        omega
      simp only [List.lookup, hne]
      have := ih (n + 1) i (by simpa using h)
      simp only [bindsFrom] at this
      have e : n + 1 + i = n + (i + 1) := by omega
      simpa [e] using this

theorem lookup_bindsFrom_miss (s : Side) (m : Bool) (k n : Nat) (fs : List (Val α)) (rest : Env α)
    (x : Var) (hx : ∀ i, fieldVar s k i ≠ x) :
    (bindsFrom s m k n fs ++ rest).lookup x = rest.lookup x := by
  induction fs generalizing n with
  | nil => simp [bindsFrom]
  | cons v vs ih =>
    simp only [bindsFrom, List.zipIdx_cons, List.map_cons, List.cons_append]
    have : (x == fieldVar s k n) = false := by
      simp only [beq_eq_false_iff_ne, ne_eq]
      exact fun h => hx n h.symm
    simp only [List.lookup, this]
    exact ih (n + 1)

theorem lookup_ctorBinds_hit (s : Side) (m : Bool) (k i : Nat) (fs : List (Val α)) (rest : Env α)
    (h : i < fs.length) :
    (ctorBinds s m k fs ++ rest).lookup (fieldVar s k i) =
      some (if m then .place i fs[i] else fs[i]) := by
  have := lookup_bindsFrom_hit s m k 0 i fs rest h
  simpa [ctorBinds_eq] using this

theorem lookup_ctorBinds_miss (s : Side) (m : Bool) (k : Nat) (fs : List (Val α)) (rest : Env α)
    (x : Var) (hx : ∀ i, fieldVar s k i ≠ x) :
    (ctorBinds s m k fs ++ rest).lookup x = rest.lookup x :=
  lookup_bindsFrom_miss s m k 0 fs rest x hx

/-- Environment after matching `(self_pattern, other_pattern)` of variant `k`. -/
def pairEnv (k : Nat) (fa fb : List (Val α)) : Env α :=
  ctorBinds .self_ false k fa ++ (ctorBinds .other false k fb ++ [])

theorem matchPat_pair_same (k : Nat) (fa fb : List (Val α)) :
    matchPat (pairPat k) (.tuple [.adt k fa, .adt k fb]) = some (pairEnv k fa fb) := by
  simp [pairPat, matchPat, matchPats, pairEnv]

theorem matchPat_pair_ne (k k' : Nat) (fa fb : List (Val α)) (h : k ≠ k') :
    matchPat (pairPat k) (.tuple [.adt k' fa, .adt k' fb]) = (none : Option (Env α)) := by
  simp [pairPat, matchPat, matchPats, h]

theorem pairEnv_self (k i : Nat) (fa fb : List (Val α)) (rest : Env α) (h : i < fa.length) :
    (pairEnv k fa fb ++ rest).lookup (.selfField k i) = some fa[i] := by
  unfold pairEnv
  rw [List.append_assoc]
  have := lookup_ctorBinds_hit .self_ false k i fa ((ctorBinds .other false k fb ++ []) ++ rest) h
  simpa [fieldVar] using this

theorem pairEnv_other (k i : Nat) (fa fb : List (Val α)) (rest : Env α) (h : i < fb.length) :
    (pairEnv k fa fb ++ rest).lookup (.otherField k i) = some fb[i] := by
  unfold pairEnv
  rw [List.append_assoc, lookup_ctorBinds_miss .self_ false k fa _ (.otherField k i)
    (by intro j; simp [fieldVar])]
  rw [List.append_assoc]
  have := lookup_ctorBinds_hit .other false k i fb ([] ++ rest) h
  simpa [fieldVar] using this

theorem pairEnv_pass (k : Nat) (fa fb : List (Val α)) (rest : Env α) (x : Var)
    (h1 : ∀ i, Var.selfField k i ≠ x) (h2 : ∀ i, Var.otherField k i ≠ x) :
    (pairEnv k fa fb ++ rest).lookup x = rest.lookup x := by
  unfold pairEnv
  rw [List.append_assoc, lookup_ctorBinds_miss .self_ false k fa _ x (by intro j; simpa [fieldVar] using h1 j)]
  rw [List.append_assoc, lookup_ctorBinds_miss .other false k fb _ x (by intro j; simpa [fieldVar] using h2 j)]
  simp

/-- Environment of a two-operand method. -/
def env2 (a b : Val α) : Env α :=
  [(.self_, a), (.f, .opaque), (.state, .opaque), (Var.other, b)]

@[simp] theorem env2_self (a b : Val α) : (env2 a b).lookup .self_ = some a := rfl
@[simp] theorem env2_other (a b : Val α) : (env2 a b).lookup .other = some b := rfl

theorem runMethod_two (cx : SemCtx α) (body : Expr) (a b : Val α) :
    runMethod cx body a (some b) = (eval cx (env2 a b) [] body).finish := rfl

/-- Arm selection: among arms generated per variant, where the arms of variant
`k'` can only match values of variant `k'`, evaluation on a value of variant
`k` runs variant `k`'s arms followed by the tail. -/
theorem evalArms_select (cx : SemCtx α) (env : Env α) (log : Log α) (v : Val α)
    (f : Nat → Data → List Arm) (k : Nat)
    (hmiss : ∀ k' d, k' ≠ k → ∀ p e c, Arm.mk p e c ∈ f k' d → matchPat p v = none)
    (vs : List Data) (k0 : Nat) (tail : List Arm) :
    evalArms cx env log v (((vs.zipIdx k0).map fun (d, j) => (j, d)).flatMap (fun (j, d) => f j d) ++ tail) =
      match (if k0 ≤ k then vs[k - k0]? else none) with
      | some d => evalArms cx env log v (f k d ++ tail)
      | none => evalArms cx env log v tail := by
  induction vs generalizing k0 with
  | nil => simp
  | cons d vs ih =>
    simp only [List.zipIdx_cons, List.map_cons, List.flatMap_cons, List.append_assoc]
    by_cases hk : k0 = k
    · subst hk
      simp only [Nat.le_refl, if_true, Nat.sub_self, List.getElem?_cons_zero]
      -- the arms of later variants do not match
      have hskip : ∀ (pre : List Arm),
          evalArms cx env log v (pre ++ ((((vs.zipIdx (k0 + 1)).map fun (d, j) => (j, d)).flatMap
            (fun (j, d) => f j d)) ++ tail)) = evalArms cx env log v (pre ++ tail) := by
        intro pre
        induction pre with
        | nil =>
          simp only [List.nil_append]
          rw [ih (k0 + 1)]
          have : ¬ (k0 + 1 ≤ k0) := by omega
          simp [this]
        | cons a pre ihp =>
          obtain ⟨p, e, c⟩ := a
          simp only [List.cons_append, evalArms]
          split
          · rfl
          · exact ihp
      exact hskip (f k0 d)
    · have hskip : ∀ (pre : List Arm), (∀ p e c, Arm.mk p e c ∈ pre → matchPat p v = none) →
          ∀ rest, evalArms cx env log v (pre ++ rest) = evalArms cx env log v rest := by
        intro pre
        induction pre with
        | nil => intros; rfl
        | cons a pre ihp =>
          intro hp rest
          obtain ⟨p, e, c⟩ := a
          simp only [List.cons_append, evalArms, hp p e c (by simp)]
          exact ihp (fun p e c h => hp p e c (by simp [h])) rest
      rw [hskip (f k0 d) (hmiss k0 d hk)]
      rw [ih (k0 + 1)]
      by_cases hle : k0 ≤ k
      · have hlt : k0 + 1 ≤ k := by omega
        have e : k - k0 = (k - (k0 + 1)) + 1 := by omega
        simp only [hle, hlt, if_true]
        rw [e, List.getElem?_cons_succ]
      · have : ¬ (k0 + 1 ≤ k) := by omega
        simp [hle, this]

/-- `evalArms_select` for `Item.indexed`. -/
theorem evalArms_indexed (cx : SemCtx α) (env : Env α) (log : Log α) (v : Val α)
    (f : Nat → Data → List Arm) (k : Nat)
    (hmiss : ∀ k' d, k' ≠ k → ∀ p e c, Arm.mk p e c ∈ f k' d → matchPat p v = none)
    (it : Item) (tail : List Arm) :
    evalArms cx env log v (it.indexed.flatMap (fun (j, d) => f j d) ++ tail) =
      match it.variants[k]? with
      | some d => evalArms cx env log v (f k d ++ tail)
      | none => evalArms cx env log v tail := by
  have := evalArms_select cx env log v f k hmiss it.variants 0 tail
  simpa [Item.indexed] using this

theorem Out.bind_assoc {β γ δ} (o : Out α β) (f : β → Out α γ) (g : γ → Out α δ) :
    (o.bind f).bind g = o.bind fun x => (f x).bind g := by
  cases o <;> rfl

theorem evalStmts_append (cx : SemCtx α) (env : Env α) (log : Log α) (s1 s2 : List Stmt) :
    evalStmts cx env log (s1 ++ s2) =
      (evalStmts cx env log s1).bind fun p => evalStmts cx p.1 p.2 s2 := by
  induction s1 generalizing env log with
  | nil => simp [evalStmts]
  | cons s s1 ih =>
    cases s with
    | let_ p e =>
      simp only [List.cons_append, evalStmts, Out.bind_assoc]
      congr 1; funext x
      split <;> simp [ih]
    | semi e =>
      simp only [List.cons_append, evalStmts, Out.bind_assoc]
      congr 1; funext x
      exact ih _ _
    | ifRet c r =>
      simp only [List.cons_append, evalStmts, Out.bind_assoc]
      congr 1; funext x
      split
      · simp [Out.bind_assoc]
      · exact ih _ _
      · rfl
    | _ => simp only [List.cons_append, evalStmts]; exact ih _ _

theorem eval_toExpr (cx : SemCtx α) (env : Env α) (log : Log α) (b : Blk) :
    eval cx env log b.toExpr = (evalStmts cx env log b.stmts).bind fun p => eval cx p.1 p.2 b.tail := by
  unfold Blk.toExpr
  split
  · rename_i h; simp [h, evalStmts]
  · simp [eval]

end DW
