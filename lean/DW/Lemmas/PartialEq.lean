import DW.Lemmas.Eval

/-! # Lemmas for the `PartialEq` refinement (C03) -/

namespace DW

variable {α : Type}

/-- Well-formedness of the IR that `Input::from_input` guarantees and the
generators rely on. -/
structure Data.WF (d : Data) : Prop where
  unit_no_fields : d.shape = .unit → d.fields = []

def Item.WF (it : Item) : Prop := ∀ d ∈ it.variants, d.WF

/-- The `true && eq(..) && ..` chain over field positions. -/
def eqChainIdx (k : Nat) (is : List Nat) (acc : Expr) : Expr :=
  is.foldl (fun acc i =>
    .binop .and acc (.call (.traitFn .eq) [.var (.selfField k i), .var (.otherField k i)])) acc

theorem eqChain_eq (k : Nat) (fs : List (Nat × Field)) :
    eqChain k fs = eqChainIdx k (fs.map (·.1)) (.litBool true) := by
  simp [eqChain, eqChainIdx, List.foldl_map]

theorem eqChainIdx_eval (cx : SemCtx α) (env : Env α) (k : Nat) (fa fb : List (Val α))
    (hfa : ∀ v ∈ fa, ∃ a, v = .leaf a) (hfb : ∀ v ∈ fb, ∃ a, v = .leaf a)
    (henvA : ∀ i (h : i < fa.length), env.lookup (.selfField k i) = some fa[i])
    (henvB : ∀ i (h : i < fb.length), env.lookup (.otherField k i) = some fb[i])
    (is : List Nat) (his : ∀ i ∈ is, i < fa.length ∧ i < fb.length)
    (acc : Expr) (b0 : Bool) (log : Log α) (hacc : eval cx env log acc = .ok (.bool b0, log)) :
    eval cx env log (eqChainIdx k is acc) =
      .ok (.bool (b0 && is.all fun i => at2 fa fb i false cx.ops.eq), log) := by
  induction is generalizing acc b0 with
  | nil => simp [eqChainIdx, hacc]
  | cons i is ih =>
    have hi := his i (by simp)
    obtain ⟨a, ha⟩ := hfa fa[i] (List.getElem_mem _)
    obtain ⟨b, hb⟩ := hfb fb[i] (List.getElem_mem _)
    have hstep : eval cx env log
        (.binop .and acc (.call (.traitFn .eq) [.var (.selfField k i), .var (.otherField k i)]))
        = .ok (.bool (b0 && cx.ops.eq a b), log) := by
      cases b0 <;>
        simp [eval, evalList, hacc, henvA i hi.1, henvB i hi.2, ha, hb, applyFn]
    have := ih (fun j hj => his j (by simp [hj])) _ _ hstep
    simp only [eqChainIdx, List.foldl_cons] at this ⊢
    rw [this]
    have h1 : fa[i]? = some (.leaf a) := by simp [List.getElem?_eq_getElem hi.1, ha]
    have h2 : fb[i]? = some (.leaf b) := by simp [List.getElem?_eq_getElem hi.2, hb]
    simp [at2, h1, h2, Bool.and_assoc]

/-- Or-pattern of `ctorAny` over positions. -/
theorem matchAny_ctorAny (ks : List Nat) (k : Nat) (fs : List (Val α)) :
    (matchAny (ks.map Pat.ctorAny) (Val.adt k fs)).isSome = true ↔ k ∈ ks := by
  induction ks with
  | nil => simp [matchAny]
  | cons j ks ih =>
    simp only [List.map_cons, matchAny, matchPat]
    by_cases h : j = k
    · subst h; simp
    · have : ¬ k = j := fun e => h e.symm
      simp [h, ih, this]

theorem incPositions_mem (vs : List Data) (k : Nat) :
    k ∈ ((vs.zipIdx.filter (·.1.incomparable)).map fun (_, j) => j) ↔
      ∃ d, vs[k]? = some d ∧ d.incomparable = true := by
  simp only [List.mem_map, List.mem_filter]
  constructor
  · rintro ⟨⟨d, j⟩, ⟨hm, hi⟩, rfl⟩
    exact ⟨d, List.mk_mem_zipIdx_iff_getElem?.mp hm, hi⟩
  · rintro ⟨d, hd, hi⟩
    exact ⟨(d, k), ⟨List.mk_mem_zipIdx_iff_getElem?.mpr hd, hi⟩, rfl⟩

/-- The incomparable pattern matches exactly the marked variants. -/
theorem incomparablePattern_spec (vs : List Data) (k : Nat) (fs : List (Val α)) :
    (match incomparablePattern vs with
      | some p => (matchPat p (Val.adt k fs)).isSome
      | none => false) = (vs[k]?).any (·.incomparable) := by
  rw [Bool.eq_iff_iff]
  have hmem := incPositions_mem vs k
  have hany : ((vs[k]?).any (·.incomparable) = true) ↔ ∃ d, vs[k]? = some d ∧ d.incomparable = true := by
    cases vs[k]? <;> simp
  rw [hany, ← hmem]
  unfold incomparablePattern
  by_cases h : ((vs.zipIdx.filter (·.1.incomparable)).map fun (_, j) => Pat.ctorAny j).isEmpty = true
  · simp only [h, if_true]
    rw [List.isEmpty_iff] at h
    simp only [List.map_eq_nil_iff] at h
    simp [h]
  · simp only [h]
    have h1 := matchAny_ctorAny ((vs.zipIdx.filter (·.1.incomparable)).map fun (_, j) => j) k fs
    simp only [List.map_map] at h1
    simp only [Bool.false_eq_true, if_false, matchPat]
    exact h1

theorem relevantIdx_lt' (d : Data) (t : Trait) : ∀ i ∈ d.relevantIdx t, i < d.fields.length := by
  intro i hi
  simp only [Data.relevantIdx, List.mem_filter, List.mem_range] at hi
  exact hi.1

theorem isEmpty_iff_relevantIdx' (d : Data) (t : Trait) :
    d.isEmpty t = (d.relevantIdx t).isEmpty := by
  unfold Data.isEmpty
  rw [← Data.iterFields_fst]
  cases d.iterFields t <;> simp

/-- Shape of a variant that has a relevant field. -/
theorem shape_of_nonempty' (d : Data) (t : Trait) (hwf : d.WF) (hnu : d.shape ≠ .union)
    (hne : d.isEmpty t = false) : d.shape = .named ∨ d.shape = .tuple := by
  cases hs : d.shape with
  | named => exact Or.inl rfl
  | tuple => exact Or.inr rfl
  | unit =>
    have := hwf.unit_no_fields hs
    rw [isEmpty_iff_relevantIdx'] at hne
    simp [Data.relevantIdx, this] at hne
  | union => exact absurd hs hnu

theorem isIncomparable_spec (it : Item) (k : Nat) (d : Data) (hd : it.variants[k]? = some d)
    (h : it.isIncomparable = true) : (it.markedIncomparable || d.incomparable) = true := by
  cases it with
  | enum_ disc id inc vs =>
    simp only [Item.isIncomparable, Bool.or_eq_true, Bool.and_eq_true, List.all_eq_true] at h
    simp only [Item.markedIncomparable, Bool.or_eq_true]
    rcases h with h | ⟨_, h⟩
    · exact Or.inl h
    · exact Or.inr (h d (List.mem_of_getElem? hd))
  | item d' =>
    simp only [Item.variants] at hd
    simp [Item.isIncomparable] at h
    simp [Item.markedIncomparable, h]

theorem not_isIncomparable_marked (it : Item) (h : it.isIncomparable = false) :
    it.markedIncomparable = false := by
  cases it with
  | enum_ disc id inc vs =>
    simp only [Item.isIncomparable, Bool.or_eq_false_iff] at h
    exact h.1
  | item d => simpa [Item.isIncomparable, Item.markedIncomparable] using h

theorem matchPat_tuple_rest (p : Pat) (v w : Val α) :
    matchPat (.tuple [p, .rest]) (.tuple [v, w]) = (matchPat p v).map (· ++ []) := by
  cases h : matchPat p v <;> simp [matchPat, matchPats, h]

/-- Facts about the (at most one) variant of an item that is not a
multi-variant enum. -/
theorem single_variant (it : Item)
    (hsingle : it.multi = false)
    (k : Nat) (d : Data) (hd : it.variants[k]? = some d) :
    k = 0 ∧ it.variants = [d] := by
  cases it with
  | enum_ disc id inc vs =>
    simp only [Item.variants] at hd ⊢
    have hk : k < vs.length := by
      rcases Nat.lt_or_ge k vs.length with h | h
      · exact h
      · rw [List.getElem?_eq_none h] at hd; cases hd
    have h0 : k = 0 := by simp [Item.multi] at hsingle; omega
    subst h0
    match vs, hd, hk, hsingle with
    | [v], hd, _, _ => simp at hd; simp [hd]
    | _ :: _ :: _, _, _, hs => simp [Item.multi] at hs
  | item d' =>
    simp only [Item.variants] at hd ⊢
    match k, hd with
    | 0, hd => simp at hd; simp [hd]
    | k + 1, hd => simp at hd

theorem relevantIdx_nil_of_isEmpty' (d : Data) (t : Trait) (h : d.isEmpty t = true) :
    d.relevantIdx t = [] := by
  rw [isEmpty_iff_relevantIdx'] at h
  simpa [List.isEmpty_iff] using h

end DW
