import DW.Lemmas.Eval

/-! # Lemmas for the `PartialEq` refinement (C03) -/

namespace DW

variable {α : Type}

/-- Well-formedness of the IR that `Input::from_input` guarantees and the
generators rely on. -/
structure Data.WF (d : Data) : Prop where
  unit_no_fields : d.shape = .unit → d.fields = []

def Item.WF (it : Item) : Prop := ∀ d ∈ it.variants, d.WF

/-- The `true && eq(..) && ..` chain over field positions. -/
def eqChainIdx (k : Nat) (is : List Nat) (acc : Expr) : Expr :=
  is.foldl (fun acc i =>
    .binop .and acc (.call (.traitFn .eq) [.var (.selfField k i), .var (.otherField k i)])) acc

theorem eqChain_eq (k : Nat) (fs : List (Nat × Field)) :
    eqChain k fs = eqChainIdx k (fs.map (·.1)) (.litBool true) := by
  simp [eqChain, eqChainIdx, List.foldl_map]

theorem eqChainIdx_eval (cx : SemCtx α) (env : Env α) (k : Nat) (fa fb : List (Val α))
    (hfa : ∀ v ∈ fa, ∃ a, v = .leaf a) (hfb : ∀ v ∈ fb, ∃ a, v = .leaf a)
    (henvA : ∀ i (h : i < fa.length), env.lookup (.selfField k i) = some fa[i])
    (henvB : ∀ i (h : i < fb.length), env.lookup (.otherField k i) = some fb[i])
    (is : List Nat) (his : ∀ i ∈ is, i < fa.length ∧ i < fb.length)
    (acc : Expr) (b0 : Bool) (log : Log α) (hacc : eval cx env log acc = .ok (.bool b0, log)) :
    eval cx env log (eqChainIdx k is acc) =
      .ok (.bool (b0 && is.all fun i => at2 fa fb i false cx.ops.eq), log) := by
  induction is generalizing acc b0 with
  | nil => simp [eqChainIdx, hacc]
  | cons i is ih =>
    have hi := his i (by simp)
    obtain ⟨a, ha⟩ := hfa fa[i] (List.getElem_mem _)
    obtain ⟨b, hb⟩ := hfb fb[i] (List.getElem_mem _)
    have hstep : eval cx env log
        (.binop .and acc (.call (.traitFn .eq) [.var (.selfField k i), .var (.otherField k i)]))
        = .ok (.bool (b0 && cx.ops.eq a b), log) := by
      cases b0 <;>
        simp [eval, evalList, hacc, henvA i hi.1, henvB i hi.2, ha, hb, applyFn]
    have := ih (fun j hj => his j (by simp [hj])) _ _ hstep
    simp only [eqChainIdx, List.foldl_cons] at this ⊢
    rw [this]
    have h1 : fa[i]? = some (.leaf a) := by simp [List.getElem?_eq_getElem hi.1, ha]
    have h2 : fb[i]? = some (.leaf b) := by simp [List.getElem?_eq_getElem hi.2, hb]
    simp [at2, h1, h2, Bool.and_assoc]

/-- Or-pattern of `ctorAny` over positions. -/
theorem matchAny_ctorAny (ks : List Nat) (k : Nat) (fs : List (Val α)) :
    (matchAny (ks.map Pat.ctorAny) (Val.adt k fs)).isSome = true ↔ k ∈ ks := by
  induction ks with
  | nil => simp [matchAny]
  | cons j ks ih =>
    simp only [List.map_cons, matchAny, matchPat]
    by_cases h : j = k
    · subst h; simp
    · have : ¬ k = j := fun e => h e.symm
      simp [h, ih, this]

theorem incPositions_mem (vs : List Data) (k : Nat) :
    k ∈ ((vs.zipIdx.filter (·.1.incomparable)).map fun (_, j) => j) ↔
      ∃ d, vs[k]? = some d ∧ d.incomparable = true := by
  simp only [List.mem_map, List.mem_filter]
  constructor
  · rintro ⟨⟨d, j⟩, ⟨hm, hi⟩, rfl⟩
    exact ⟨d, List.mk_mem_zipIdx_iff_getElem?.mp hm, hi⟩
  · rintro ⟨d, hd, hi⟩
    exact ⟨(d, k), ⟨List.mk_mem_zipIdx_iff_getElem?.mpr hd, hi⟩, rfl⟩

/-- The incomparable pattern matches exactly the marked variants. -/
theorem incomparablePattern_spec (vs : List Data) (k : Nat) (fs : List (Val α)) :
    (match incomparablePattern vs with
      | some p => (matchPat p (Val.adt k fs)).isSome
      | none => false) = (vs[k]?).any (·.incomparable) := by
  rw [Bool.eq_iff_iff]
  have hmem := incPositions_mem vs k
  have hany : ((vs[k]?).any (·.incomparable) = true) ↔ ∃ d, vs[k]? = some d ∧ d.incomparable = true := by
    cases vs[k]? <;> simp
  rw [hany, ← hmem]
  unfold incomparablePattern
  by_cases h : ((vs.zipIdx.filter (·.1.incomparable)).map fun (_, j) => Pat.ctorAny j).isEmpty = true
  · simp only [h, if_true]
    rw [List.isEmpty_iff] at h
    simp only [List.map_eq_nil_iff] at h
    simp [h]
  · simp only [h]
    have h1 := matchAny_ctorAny ((vs.zipIdx.filter (·.1.incomparable)).map fun (_, j) => j) k fs
    simp only [List.map_map] at h1
    simp only [Bool.false_eq_true, if_false, matchPat]
    exact h1

end DW
