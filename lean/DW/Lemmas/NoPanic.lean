import DW.Lemmas.Validate

/-! # The validation layer never panics (C16) -/

namespace DW

/-- The result is not a Rust panic. -/
def NoPanic {α} (r : R α) : Prop := ∀ s, r ≠ .error (.panic s)

theorem NoPanic.ok {α} (a : α) : NoPanic (Except.ok a : R α) := by intro s h; cases h

theorem NoPanic.err {α} (e : Err) (he : e.isPanic = false) : NoPanic (Except.error e : R α) := by
  intro s h; cases h; simp [Err.isPanic] at he

theorem NoPanic.bind {α β} {x : R α} {f : α → R β} (hx : NoPanic x) (hf : ∀ a, NoPanic (f a)) :
    NoPanic (x >>= f) := by
  cases x with
  | error e =>
    intro s h
    have : (Except.error e : R β) = .error (.panic s) := h
    exact hx s (by cases this; rfl)
  | ok a => exact hf a

macro "np_err" : tactic => `(tactic| exact NoPanic.err _ rfl)
macro "np_ok" : tactic => `(tactic| exact NoPanic.ok _)

theorem Trait.fromPath_np (c : Cfg) (p : MPath) : NoPanic (Trait.fromPath c p) := by
  unfold Trait.fromPath
  split
  · split
    · np_err
    · split <;> first | np_ok | np_err | (split <;> first | np_ok | np_err)
  · np_err

theorem SkipGroup.fromPath_np (c : Cfg) (p : MPath) : NoPanic (SkipGroup.fromPath c p) := by
  unfold SkipGroup.fromPath
  split
  · split
    · np_err
    · split <;> first | np_ok | np_err | (split <;> first | np_ok | np_err)
  · np_err

theorem parseNonEmpty_np (b : Bool) (l : List Meta) : NoPanic (parseNonEmpty b l) := by
  unfold parseNonEmpty
  split
  · np_err
  · split
    · np_err
    · np_ok

theorem DWBody.parseNonEmpty_np (b : DWBody) : NoPanic b.parseNonEmpty := by
  unfold DWBody.parseNonEmpty
  split <;> first | np_ok | np_err

theorem Skip.addGroups_np (c : Cfg) (dws : List DeriveWhere) (si : Option Skip) (ms : List Meta)
    (acc : List SkipGroup) : NoPanic (Skip.addGroups c dws si ms acc) := by
  induction ms generalizing acc with
  | nil => unfold Skip.addGroups; np_ok
  | cons m ms ih =>
    cases m with
    | path p =>
      unfold Skip.addGroups
      apply NoPanic.bind (SkipGroup.fromPath_np c p)
      intro g
      split
      · np_err
      · split
        · np_err
        · split
          · exact ih _
          · np_err
    | list _ _ _ => unfold Skip.addGroups; np_err
    | nameValue _ _ => unfold Skip.addGroups; np_err

theorem Skip.addAttribute_np (c : Cfg) (self : Skip) (name : String) (dws : List DeriveWhere)
    (si : Option Skip) (m : Meta) : NoPanic (Skip.addAttribute c self name dws si m) := by
  unfold Skip.addAttribute
  split
  · split
    · split
      · np_err
      · split
        · np_ok
        · np_err
    · np_err
  · apply NoPanic.bind (parseNonEmpty_np _ _)
    intro nested
    split
    · apply NoPanic.bind (Skip.addGroups_np _ _ _ _ _)
      intro _; np_ok
    · np_err
    · apply NoPanic.bind (Skip.addGroups_np _ _ _ _ _)
      intro _; np_ok
  · np_err

theorem incomparableScan_np (ts : List DeriveTrait) (b : Bool) : NoPanic (incomparableScan ts b) := by
  induction ts generalizing b with
  | nil => unfold incomparableScan; np_ok
  | cons t ts ih =>
    unfold incomparableScan
    split
    · np_err
    · np_err
    · exact ih _
    · exact ih _
    · exact ih _

theorem Incomparable.addAttribute_np (s : Bool) (m : Meta) (dws : List DeriveWhere) :
    NoPanic (Incomparable.addAttribute s m dws) := by
  unfold Incomparable.addAttribute
  split
  · split
    · np_err
    · apply NoPanic.bind (incomparableScan_np _ _)
      intro b
      split
      · np_ok
      · np_err
  · np_err

theorem Default.addAttribute_np (s : Bool) (m : Meta) (dws : List DeriveWhere) :
    NoPanic (Default.addAttribute s m dws) := by
  unfold Default.addAttribute
  split
  · split
    · np_err
    · split
      · np_ok
      · np_err
  · np_err

theorem ZeroizeFqs.addOptions_np (ms : List Meta) (s : Bool) : NoPanic (ZeroizeFqs.addOptions ms s) := by
  induction ms generalizing s with
  | nil => unfold ZeroizeFqs.addOptions; np_ok
  | cons m ms ih =>
    cases m with
    | path p =>
      unfold ZeroizeFqs.addOptions
      split
      · split
        · np_err
        · exact ih _
      · np_err
    | list _ _ _ => unfold ZeroizeFqs.addOptions; np_err
    | nameValue _ _ => unfold ZeroizeFqs.addOptions; np_err

theorem ZeroizeFqs.addAttribute_np (s : Bool) (m : Meta) (dws : List DeriveWhere) :
    NoPanic (ZeroizeFqs.addAttribute s m dws) := by
  unfold ZeroizeFqs.addAttribute
  split
  · np_err
  · split
    · apply NoPanic.bind (parseNonEmpty_np _ _)
      intro _; exact ZeroizeFqs.addOptions_np _ _
    · np_err
    · np_err

theorem parseZeroizeOptions_np (isZ : Bool) (name : String) (ms : List Meta) (c : Option MPath) :
    NoPanic (parseZeroizeOptions isZ name ms c) := by
  induction ms generalizing c with
  | nil => unfold parseZeroizeOptions; np_ok
  | cons m ms ih =>
    cases m with
    | path p =>
      unfold parseZeroizeOptions
      split <;> np_err
    | nameValue p v =>
      unfold parseZeroizeOptions
      split
      · split
        · split
          · split
            · np_err
            · exact ih _
          · split
            · np_err
            · exact ih _
          · np_err
          · np_err
        · np_err
      · np_err
    | list _ _ _ => unfold parseZeroizeOptions; np_err

theorem Trait.parseDeriveTrait_np (t : Trait) (ms : List Meta) : NoPanic (t.parseDeriveTrait ms) := by
  unfold Trait.parseDeriveTrait
  split
  · apply NoPanic.bind (parseZeroizeOptions_np _ _ _ _); intro _; np_ok
  · apply NoPanic.bind (parseZeroizeOptions_np _ _ _ _); intro _; np_ok
  · np_err

theorem DeriveTrait.fromMeta_np (c : Cfg) (kind : ItemKind) (m : Meta) : NoPanic (DeriveTrait.fromMeta c kind m) := by
  unfold DeriveTrait.fromMeta
  apply NoPanic.bind (Trait.fromPath_np c _)
  intro t
  split
  · np_err
  · split
    · np_ok
    · apply NoPanic.bind (parseNonEmpty_np _ _)
      intro _; exact Trait.parseDeriveTrait_np _ _
    · np_err

theorem Generic.parse_np (g : RawGeneric) : NoPanic (Generic.parse g) := by
  unfold Generic.parse
  split <;> first | np_ok | np_err

theorem parseGenerics_np (gs : List GElem) : NoPanic (parseGenerics gs) := by
  have key : ∀ n (gs : List GElem), gs.length ≤ n → NoPanic (parseGenerics gs) := by
    intro n
    induction n with
    | zero =>
      intro gs h
      have : gs = [] := by cases gs <;> simp_all
      subst this; unfold parseGenerics; np_ok
    | succ n ih =>
      intro gs h
      cases gs with
      | nil => unfold parseGenerics; np_ok
      | cons g gs =>
        cases g with
        | gen g =>
          unfold parseGenerics
          apply NoPanic.bind (Generic.parse_np g)
          intro g'
          split
          · np_ok
          · apply NoPanic.bind
            · apply ih; simp at h ⊢; omega
            · intro _; np_ok
          · np_err
        | comma => unfold parseGenerics; np_err
        | junk => unfold parseGenerics; np_err
  exact key gs.length gs (Nat.le_refl _)

theorem DeriveWhere.loop_np (c : Cfg) (kind : ItemKind) (gsOpt : Option (List GElem)) (es : List Elem)
    (acc : List DeriveTrait) : NoPanic (DeriveWhere.loop c kind gsOpt es acc) := by
  have key : ∀ n (es : List Elem) acc, es.length ≤ n → NoPanic (DeriveWhere.loop c kind gsOpt es acc) := by
    intro n
    induction n with
    | zero =>
      intro es acc h
      have : es = [] := by cases es <;> simp_all
      subst this; unfold DeriveWhere.loop
      split
      · np_ok
      · np_err
    | succ n ih =>
      intro es acc h
      cases es with
      | nil =>
        unfold DeriveWhere.loop
        split
        · np_ok
        · np_err
      | cons e es =>
        cases e with
        | ofMeta m =>
          unfold DeriveWhere.loop
          apply NoPanic.bind (DeriveTrait.fromMeta_np c kind m)
          intro t
          simp only
          split
          · np_ok
          · apply NoPanic.bind (parseGenerics_np _); intro _; np_ok
          · apply NoPanic.bind (parseGenerics_np _); intro _; np_ok
          · apply ih; simp at h ⊢; omega
          · np_err
        | comma => unfold DeriveWhere.loop; np_err
        | junk => unfold DeriveWhere.loop; np_err
  exact key es.length es acc (Nat.le_refl _)

end DW

namespace DW

/-- `DeriveWhere::from_attr` only panics on an empty token stream, which
`ItemAttr::from_attrs` never passes on. -/
theorem DeriveWhere.fromAttr_np (c : Cfg) (kind : ItemKind) (es : List Elem) (gs : Option (List GElem))
    (h : ¬ (es = [] ∧ gs = none)) : NoPanic (DeriveWhere.fromAttr c kind es gs) := by
  unfold DeriveWhere.fromAttr
  split
  · rename_i hc
    exfalso
    apply h
    simp only [Bool.and_eq_true, List.isEmpty_iff, Option.isNone_iff_eq_none] at hc
    exact hc
  · exact DeriveWhere.loop_np c kind gs es []

theorem ItemAttr.step_np (c : Cfg) (kind : ItemKind) (acc : AttrAcc) (a : RawAttr) :
    NoPanic (ItemAttr.step c kind acc a) := by
  unfold ItemAttr.step
  split
  · np_err
  · rename_i es gsOpt
    split
    · np_err
    · split
      · split
        · np_err
        · np_ok
      · split
        · np_ok
        · split
          · np_ok
          · rename_i m hnested _ _ _
            apply NoPanic.bind
            · apply DeriveWhere.fromAttr_np
              rintro ⟨rfl, rfl⟩
              simp [DWBody.nested, asMetas] at hnested
            · intro _; np_ok
    · rename_i hne1 hne2
      apply NoPanic.bind
      · apply DeriveWhere.fromAttr_np
        rintro ⟨rfl, rfl⟩
        exact hne1 (by simp [DWBody.nested, asMetas])
      · intro _; np_ok
  · np_ok

theorem ItemAttr.steps_np (c : Cfg) (kind : ItemKind) (attrs : List RawAttr) (acc : AttrAcc) :
    NoPanic (ItemAttr.steps c kind attrs acc) := by
  induction attrs generalizing acc with
  | nil => unfold ItemAttr.steps; np_ok
  | cons a attrs ih =>
    unfold ItemAttr.steps
    exact NoPanic.bind (ItemAttr.step_np c kind acc a) (fun acc' => ih acc')

theorem foldSkipInner_np (c : Cfg) (dws : List DeriveWhere) (ms : List Meta) (s : Skip) :
    NoPanic (foldSkipInner c dws ms s) := by
  induction ms generalizing s with
  | nil => unfold foldSkipInner; np_ok
  | cons m ms ih =>
    unfold foldSkipInner
    exact NoPanic.bind (Skip.addAttribute_np _ _ _ _ _ _) (fun s' => ih s')

theorem foldIncomparable_np (dws : List DeriveWhere) (ms : List Meta) (s : Bool) :
    NoPanic (foldIncomparable dws ms s) := by
  induction ms generalizing s with
  | nil => unfold foldIncomparable; np_ok
  | cons m ms ih =>
    unfold foldIncomparable
    exact NoPanic.bind (Incomparable.addAttribute_np _ _ _) (fun s' => ih s')

theorem ItemAttr.fromAttrs_np (c : Cfg) (kind : ItemKind) (attrs : List RawAttr) :
    NoPanic (ItemAttr.fromAttrs c kind attrs) := by
  unfold ItemAttr.fromAttrs
  apply NoPanic.bind (ItemAttr.steps_np c kind attrs {})
  intro acc
  split
  · np_err
  · simp only
    split
    · np_err
    · apply NoPanic.bind (foldSkipInner_np _ _ _ _)
      intro _
      apply NoPanic.bind (foldIncomparable_np _ _ _)
      intro _; np_ok

theorem FieldAttr.addMetas_np (c : Cfg) (dws : List DeriveWhere) (si : Skip) (ms : List Meta) (self : FieldAttr) :
    NoPanic (FieldAttr.addMetas c dws si ms self) := by
  induction ms generalizing self with
  | nil => unfold FieldAttr.addMetas; np_ok
  | cons m ms ih =>
    unfold FieldAttr.addMetas
    split
    · exact NoPanic.bind (Skip.addAttribute_np _ _ _ _ _ _) (fun _ => ih _)
    · split
      · exact NoPanic.bind (ZeroizeFqs.addAttribute_np _ _ _) (fun _ => ih _)
      · np_err

theorem FieldAttr.fromAttrs_np (c : Cfg) (dws : List DeriveWhere) (si : Skip) (bs : List DWBody) (self : FieldAttr) :
    NoPanic (FieldAttr.fromAttrs c dws si bs self) := by
  induction bs generalizing self with
  | nil => unfold FieldAttr.fromAttrs; np_ok
  | cons b bs ih =>
    unfold FieldAttr.fromAttrs
    apply NoPanic.bind _ (fun s => ih s)
    unfold FieldAttr.addMeta
    split
    · np_err
    · exact NoPanic.bind (DWBody.parseNonEmpty_np _) (fun _ => FieldAttr.addMetas_np _ _ _ _ _)

theorem Field.fromFields_np (c : Cfg) (dws : List DeriveWhere) (si : Skip) (fs : List RawField) :
    NoPanic (Field.fromFields c dws si fs) := by
  induction fs with
  | nil => unfold Field.fromFields; np_ok
  | cons f fs ih =>
    unfold Field.fromFields
    apply NoPanic.bind
    · unfold Field.fromField
      exact NoPanic.bind (FieldAttr.fromAttrs_np _ _ _ _ _) (fun _ => NoPanic.ok _)
    · intro _
      exact NoPanic.bind ih (fun _ => NoPanic.ok _)

theorem VariantAttr.addMetas_np (c : Cfg) (dws : List DeriveWhere) (nf : Bool) (ms : List Meta) (self : VariantAttr) :
    NoPanic (VariantAttr.addMetas c dws nf ms self) := by
  induction ms generalizing self with
  | nil => unfold VariantAttr.addMetas; np_ok
  | cons m ms ih =>
    unfold VariantAttr.addMetas
    split
    · split
      · np_err
      · exact NoPanic.bind (Skip.addAttribute_np _ _ _ _ _ _) (fun _ => ih _)
    · split
      · exact NoPanic.bind (Default.addAttribute_np _ _ _) (fun _ => ih _)
      · split
        · exact NoPanic.bind (Incomparable.addAttribute_np _ _ _) (fun _ => ih _)
        · np_err

theorem VariantAttr.fromAttrs_np (c : Cfg) (dws : List DeriveWhere) (nf : Bool) (bs : List DWBody)
    (self : VariantAttr) : NoPanic (VariantAttr.fromAttrs c dws nf bs self) := by
  induction bs generalizing self with
  | nil => unfold VariantAttr.fromAttrs; np_ok
  | cons b bs ih =>
    unfold VariantAttr.fromAttrs
    apply NoPanic.bind _ (fun s => ih s)
    unfold VariantAttr.addMeta
    split
    · np_err
    · exact NoPanic.bind (DWBody.parseNonEmpty_np _) (fun _ => VariantAttr.addMetas_np _ _ _ _ _)

theorem Data.fromVariant_np (c : Cfg) (dws : List DeriveWhere) (v : RawVariant) :
    NoPanic (Data.fromVariant c dws v) := by
  unfold Data.fromVariant
  apply NoPanic.bind (VariantAttr.fromAttrs_np _ _ _ _ _)
  intro a
  apply NoPanic.bind
  · unfold Data.variantFields
    split
    · np_ok
    · exact Field.fromFields_np _ _ _ _
  · intro _; np_ok

theorem Data.fromVariants_np (c : Cfg) (dws : List DeriveWhere) (vs : List RawVariant) :
    NoPanic (Data.fromVariants c dws vs) := by
  induction vs with
  | nil => unfold Data.fromVariants; np_ok
  | cons v vs ih =>
    unfold Data.fromVariants
    exact NoPanic.bind (Data.fromVariant_np _ _ _) (fun _ => NoPanic.bind ih (fun _ => NoPanic.ok _))

theorem Data.fromStruct_np (c : Cfg) (dws : List DeriveWhere) (si : Skip) (inc : Bool) (v : RawVariant) :
    NoPanic (Data.fromStruct c dws si inc v) := by
  unfold Data.fromStruct
  split
  · split
    · np_ok
    · np_err
  · split
    · np_err
    · exact NoPanic.bind (Field.fromFields_np _ _ _ _) (fun _ => NoPanic.ok _)

theorem scanVariants_np (ii : Bool) (ds : List Data) (a b : Bool) : NoPanic (scanVariants ii ds a b) := by
  induction ds generalizing a b with
  | nil => unfold scanVariants; np_ok
  | cons d ds ih =>
    unfold scanVariants
    split
    · np_err
    · split
      · np_err
      · exact ih _ _

/-- `#[repr]` attributes are lists (anything else is invalid Rust: E0539). -/
def ReprWellFormed (attrs : List RawAttr) : Prop := ∀ a ∈ attrs, a ≠ .repr .notList

theorem reprIdents_np (is : List Ident) (acc : Option IntTy) : NoPanic (reprIdents is acc) := by
  induction is generalizing acc with
  | nil => unfold reprIdents; np_ok
  | cons i is ih =>
    unfold reprIdents
    split
    · np_ok
    · split
      · exact ih _
      · np_err

theorem reprAttrs_np (attrs : List RawAttr) (acc : Option IntTy) (h : ReprWellFormed attrs) :
    NoPanic (reprAttrs attrs acc) := by
  induction attrs generalizing acc with
  | nil => unfold reprAttrs; np_ok
  | cons a attrs ih =>
    have ih' := fun acc => ih acc (fun x hx => h x (by simp [hx]))
    cases a with
    | repr b =>
      cases b with
      | idents is => unfold reprAttrs; exact NoPanic.bind (reprIdents_np _ _) (fun _ => ih' _)
      | unparsable => unfold reprAttrs; np_err
      | notList => exact absurd rfl (h _ (by simp))
    | dw _ => unfold reprAttrs; exact ih' _
    | dwQualified _ _ => unfold reprAttrs; exact ih' _
    | bare _ => unfold reprAttrs; exact ih' _
    | other => unfold reprAttrs; exact ih' _

theorem Discriminant.parse_np (attrs : List RawAttr) (vs : List RawVariant) (h : ReprWellFormed attrs) :
    NoPanic (Discriminant.parse attrs vs) := by
  unfold Discriminant.parse
  split
  · np_ok
  · apply NoPanic.bind (reprAttrs_np _ _ h)
    intro r
    simp only
    split
    · np_ok
    · split
      · np_ok
      · split
        · np_err
        · np_ok

/-- Shape of the raw item that `syn::DeriveInput` guarantees. -/
structure RawOK (raw : RawItem) : Prop where
  repr : ReprWellFormed raw.attrs
  single : raw.kind ≠ .enum_ → ∃ v, raw.variants = [v]
  shapes : ∀ v ∈ raw.variants, v.shape ≠ .union

theorem Input.buildItem_np (c : Cfg) (raw : RawItem) (attr : ItemAttr) (hraw : RawOK raw) :
    NoPanic (Input.buildItem c raw attr) := by
  unfold Input.buildItem
  simp only
  split
  · apply NoPanic.bind
    · split
      · np_ok
      · exact Discriminant.parse_np _ _ hraw.repr
    · intro _
      apply NoPanic.bind (Data.fromVariants_np _ _ _)
      intro _
      apply NoPanic.bind (scanVariants_np _ _ _ _)
      intro _
      split
      · np_err
      · split
        · np_err
        · np_ok
  · rename_i hk
    obtain ⟨v, hv⟩ := hraw.single hk
    rw [hv]
    simp only
    exact NoPanic.bind (Data.fromStruct_np _ _ _ _ _) (fun _ => NoPanic.ok _)

theorem Input.fromInput_np (c : Cfg) (raw : RawItem) (hraw : RawOK raw) : NoPanic (Input.fromInput c raw) := by
  unfold Input.fromInput
  apply NoPanic.bind (ItemAttr.fromAttrs_np _ _ _)
  intro attr
  apply NoPanic.bind (Input.buildItem_np c raw attr hraw)
  intro r
  split
  · np_err
  · np_ok

end DW
