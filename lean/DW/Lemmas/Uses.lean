import DW.Syntactic3
import DW.Props.C05

/-!
# Which field bindings do the generated bodies mention? (helper lemmas for C02 / C06)

Ported from the method-call traversal of C14: every wrapper of `build_signature` mentions field bindings only
through the per-variant arms, and those mention exactly the fields `Data::iter_fields` yields.
-/

namespace DW

variable {ok : Nat → Nat → Bool}

theorem Arm.anyUsesBad_append (l1 l2 : List Arm) :
    Arm.anyUsesBad ok (l1 ++ l2) = (Arm.anyUsesBad ok l1 || Arm.anyUsesBad ok l2) := by
  induction l1 with
  | nil => simp [Arm.anyUsesBad]
  | cons a l ih => cases a; simp [Arm.anyUsesBad, ih, Bool.or_assoc]

theorem Stmt.anyUsesBad_append (l1 l2 : List Stmt) :
    Stmt.anyUsesBad ok (l1 ++ l2) = (Stmt.anyUsesBad ok l1 || Stmt.anyUsesBad ok l2) := by
  induction l1 with
  | nil => simp [Stmt.anyUsesBad]
  | cons a l ih => simp [Stmt.anyUsesBad, ih, Bool.or_assoc]

theorem Arm.anyUsesBad_flatMap {β} (l : List β) (f : β → List Arm) (h : ∀ x ∈ l, Arm.anyUsesBad ok (f x) = false) :
    Arm.anyUsesBad ok (l.flatMap f) = false := by
  induction l with
  | nil => simp [Arm.anyUsesBad]
  | cons a l ih =>
    simp only [List.flatMap_cons, Arm.anyUsesBad_append, h a (by simp), Bool.false_or]
    exact ih (fun x hx => h x (by simp [hx]))

theorem Stmt.anyUsesBad_flatMap {β} (l : List β) (f : β → List Stmt)
    (h : ∀ x ∈ l, Stmt.anyUsesBad ok (f x) = false) : Stmt.anyUsesBad ok (l.flatMap f) = false := by
  induction l with
  | nil => simp [Stmt.anyUsesBad]
  | cons a l ih =>
    simp only [List.flatMap_cons, Stmt.anyUsesBad_append, h a (by simp), Bool.false_or]
    exact ih (fun x hx => h x (by simp [hx]))

theorem Stmt.anyUsesBad_map {β} (l : List β) (f : β → Stmt) (h : ∀ x ∈ l, (f x).usesBad ok = false) :
    Stmt.anyUsesBad ok (l.map f) = false := by
  induction l with
  | nil => simp [Stmt.anyUsesBad]
  | cons a l ih => simp [Stmt.anyUsesBad, h a (by simp), ih (fun x hx => h x (by simp [hx]))]

theorem Expr.anyUsesBad_map {β} (l : List β) (f : β → Expr) (h : ∀ x ∈ l, (f x).usesBad ok = false) :
    Expr.anyUsesBad ok (l.map f) = false := by
  induction l with
  | nil => simp [Expr.anyUsesBad]
  | cons a l ih => simp [Expr.anyUsesBad, h a (by simp), ih (fun x hx => h x (by simp [hx]))]

theorem FieldInit.anyUsesBad_map {β} (l : List β) (i : β → Nat) (f : β → Expr)
    (h : ∀ x ∈ l, (f x).usesBad ok = false) :
    FieldInit.anyUsesBad ok (l.map fun x => FieldInit.mk (i x) (f x)) = false := by
  induction l with
  | nil => simp [FieldInit.anyUsesBad]
  | cons a l ih => simp [FieldInit.anyUsesBad, h a (by simp), ih (fun x hx => h x (by simp [hx]))]

theorem Arm.anyUsesBad_map {β} (l : List β) (f : β → Arm)
    (h : ∀ x, Arm.anyUsesBad ok [f x] = false) : Arm.anyUsesBad ok (l.map f) = false := by
  induction l with
  | nil => simp [Arm.anyUsesBad]
  | cons a l ih =>
    have := h a
    cases hfa : f a with
    | mk p e c =>
      rw [hfa] at this
      simp only [Arm.anyUsesBad, Bool.or_false] at this
      simp [Arm.anyUsesBad, hfa, this, ih]

theorem eqChain_uses (k : Nat) (fs : List (Nat × Field)) (hok : ∀ p ∈ fs, ok k p.1 = true) :
    (eqChain k fs).usesBad ok = false := by
  unfold eqChain
  suffices h : ∀ acc : Expr, acc.usesBad ok = false →
      (fs.foldl (fun acc (p : Nat × Field) =>
        Expr.binop .and acc (.call (.traitFn .eq) [.var (.selfField k p.1), .var (.otherField k p.1)]))
        acc).usesBad ok = false by
    exact h _ (by simp [Expr.usesBad, Var.bad])
  induction fs with
  | nil => intro acc h; simpa using h
  | cons p fs ih =>
    intro acc h
    simp only [List.foldl_cons]
    exact ih (fun q hq => hok q (by simp [hq])) _ (by simp [Expr.usesBad, Var.bad, Expr.anyUsesBad, h, hok p (by simp)])

theorem equalExpr_uses (t : Trait) : (equalExpr t).usesBad ok = false := by
  unfold equalExpr; split <;> simp [Expr.usesBad, Var.bad, Expr.anyUsesBad]

theorem ordBody_uses (t : Trait) (k : Nat) (d : Data) (hok : ∀ p ∈ d.iterFields t, ok k p.1 = true) :
    (ordBody t k d).usesBad ok = false := by
  unfold ordBody
  revert hok
  induction d.iterFields t with
  | nil => intro _; simpa using equalExpr_uses (ok := ok) t
  | cons p fs ih =>
    intro hok
    simp only [List.foldr_cons]
    simp [Expr.usesBad, Var.bad, Expr.anyUsesBad, Arm.anyUsesBad, ih (fun q hq => hok q (by simp [hq])), hok p (by simp)]

theorem unreachableRest_uses (c : Cfg) : (unreachableRest c).usesBad ok = false := by
  unfold unreachableRest; split <;> simp [Expr.usesBad, Var.bad, Expr.anyUsesBad]

theorem partialEqBody_uses (k : Nat) (d : Data) (hok : ∀ p ∈ d.iterFields .partialEq, ok k p.1 = true) :
    Arm.anyUsesBad ok (partialEqBody k d) = false := by
  unfold partialEqBody
  split
  · rfl
  · split <;> simp [Arm.anyUsesBad, eqChain_uses (ok := ok) k _ hok]

theorem ordArmsFor_uses (t : Trait) (dw : DeriveWhere) (k : Nat) (d : Data)
    (hok : ∀ t' : Trait, t' = .partialOrd ∨ t' = .ord → ∀ p ∈ d.iterFields t', ok k p.1 = true) :
    Arm.anyUsesBad ok (ordArmsFor t dw k d) = false := by
  unfold ordArmsFor partialOrdBody ordArms
  split
  · split
    · rfl
    · split <;> simp [Arm.anyUsesBad, ordBody_uses (ok := ok) _ k d (hok _ (Or.inl rfl))]
  · split
    · rfl
    · split <;> simp [Arm.anyUsesBad, ordBody_uses (ok := ok) _ k d (hok _ (Or.inr rfl))]

theorem eqIncArms_uses (vs : List Data) : Arm.anyUsesBad ok (eqIncArms vs) = false := by
  unfold eqIncArms; split <;> simp [Arm.anyUsesBad, Expr.usesBad, Var.bad]

theorem eqIncStmts_uses (vs : List Data) : Stmt.anyUsesBad ok (eqIncStmts vs) = false := by
  unfold eqIncStmts; split <;> simp [Stmt.anyUsesBad, Stmt.usesBad, Expr.usesBad, Var.bad, vSelf]

theorem ordIncStmts_uses (vs : List Data) : Stmt.anyUsesBad ok (ordIncStmts vs) = false := by
  unfold ordIncStmts
  split <;> simp [Stmt.anyUsesBad, Stmt.usesBad, Expr.usesBad, Var.bad, matchesEither, vSelf, vOther]

theorem toExpr_uses (b : Blk) (h1 : Stmt.anyUsesBad ok b.stmts = false) (h2 : b.tail.usesBad ok = false) :
    b.toExpr.usesBad ok = false := by
  unfold Blk.toExpr; split <;> simp_all [Expr.usesBad, Var.bad]

theorem uses_eq (c : Cfg) (it : Item) (hok : ∀ x ∈ it.indexed, ∀ p ∈ x.2.iterFields .partialEq, ok x.1 p.1 = true) :
    (eqMethodBody c it).usesBad ok = false := by
  have harms : Arm.anyUsesBad ok (it.indexed.flatMap fun (k, d) => partialEqBody k d) = false :=
    Arm.anyUsesBad_flatMap _ _ (fun x hx => partialEqBody_uses (ok := ok) x.1 x.2 (hok x hx))
  unfold eqMethodBody partialEqSignature
  split
  · rfl
  · cases it with
    | item d => simp only; split <;> simp [Expr.usesBad, Var.bad, tupleSO, vSelf, vOther, Expr.anyUsesBad, harms]
    | enum_ disc id inc vs =>
      simp only
      split
      · split
        · have hrest : (if (vs.any fun v => v.isEmpty .partialEq && !v.incomparable) = true
              then Expr.litBool true else unreachableRest c).usesBad ok = false := by
            split
            · rfl
            · exact unreachableRest_uses (ok := ok) c
          simp only [Expr.usesBad, Var.bad, discEq, tupleSO, vSelf, vOther, Expr.anyUsesBad, Arm.anyUsesBad_append,
            harms, eqIncArms_uses (ok := ok), Arm.anyUsesBad, hrest, Bool.or_false, Bool.false_or]
        · have := toExpr_uses (ok := ok) ⟨eqIncStmts vs, .litBool true⟩ (eqIncStmts_uses (ok := ok) vs) rfl
          simp [Expr.usesBad, Var.bad, discEq, vSelf, vOther, Expr.anyUsesBad, this]
      · split <;> simp [Expr.usesBad, Var.bad, tupleSO, vSelf, vOther, Expr.anyUsesBad, harms]

theorem discArms_uses (validate : Bool) (ds : List Expr) (h : Expr.anyUsesBad ok ds = false) :
    Arm.anyUsesBad ok (discArms validate ds) = false := by
  unfold discArms
  generalize ds.length = n
  suffices hgo : ∀ (l : List Expr) (n0 : Nat), Expr.anyUsesBad ok l = false →
      Arm.anyUsesBad ok ((l.zipIdx n0).map fun (d, k) =>
        Arm.mk (.ctor k .self_ false) (if validate then .validateConst k d else d) (k + 1 != n)) = false by
    exact hgo ds 0 h
  intro l
  induction l with
  | nil => intros; rfl
  | cons e l ih =>
    intro n0 hl
    simp only [Expr.anyUsesBad, Bool.or_eq_false_iff] at hl
    simp only [List.zipIdx_cons, List.map_cons, Arm.anyUsesBad, ih (n0 + 1) hl.2, Bool.or_false]
    cases validate <;> simp [Expr.usesBad, Var.bad, hl.1]

theorem buildDiscriminantsGo_uses (vs : List Data) (k : Nat) (st : DiscState) (acc : List Expr)
    (h : Expr.anyUsesBad ok acc = false) (hg : ∀ i, (acc.getD i .unit).usesBad ok = false) :
    Expr.anyUsesBad ok (buildDiscriminantsGo vs k st acc) = false := by
  have happ : ∀ (l : List Expr) (e : Expr), Expr.anyUsesBad ok l = false → e.usesBad ok = false →
      Expr.anyUsesBad ok (l ++ [e]) = false := by
    intro l e
    induction l with
    | nil => intro _ he; simp [Expr.anyUsesBad, he]
    | cons x l ih =>
      intro hl he
      simp only [Expr.anyUsesBad, Bool.or_eq_false_iff] at hl
      simp [Expr.anyUsesBad, hl.1, ih hl.2 he]
  have hgetD : ∀ (l : List Expr) (e : Expr), (∀ i, (l.getD i .unit).usesBad ok = false) →
      e.usesBad ok = false → ∀ i, ((l ++ [e]).getD i .unit).usesBad ok = false := by
    intro l e hl he i
    by_cases hi : i < l.length
    · have := hl i
      simpa [List.getD, List.getElem?_append_left hi] using this
    · by_cases hi2 : i = l.length
      · subst hi2; simp [List.getD, he]
      · have : l.length + 1 ≤ i := by omega
        simp [List.getD, List.getElem?_eq_none (l := l ++ [e]) (by simp; omega), Expr.usesBad]
  induction vs generalizing k st acc with
  | nil => simpa [buildDiscriminantsGo] using h
  | cons v vs ih =>
    unfold buildDiscriminantsGo
    split
    · exact ih _ _ _ (happ _ _ h rfl) (hgetD _ _ hg rfl)
    · split
      · rename_i idx counter
        have he : (Expr.binop .add (.paren (acc.getD idx .unit)) (.litInt (counter + 1))).usesBad ok = false := by
          have := hg idx
          simp only [Expr.usesBad, Var.bad, this, Bool.or_false]
        exact ih _ _ _ (happ _ _ h he) (hgetD _ _ hg he)
      · exact ih _ _ _ (happ _ _ h rfl) (hgetD _ _ hg rfl)
      · exact ih _ _ _ (happ _ _ h rfl) (hgetD _ _ hg rfl)

theorem buildDiscriminants_uses (vs : List Data) : Expr.anyUsesBad ok (buildDiscriminants vs) = false :=
  buildDiscriminantsGo_uses (ok := ok) vs 0 none [] rfl (fun i => by simp [List.getD, Expr.usesBad, Var.bad])

theorem discriminantComparison_uses (repr : Option IntTy) (validate : Option (List Stmt))
    (vs : List Data) (m : TraitFn) (hv : Stmt.anyUsesBad ok (validate.getD []) = false) :
    Stmt.anyUsesBad ok (discriminantComparison repr validate (buildDiscriminants vs) m).stmts = false ∧
    (discriminantComparison repr validate (buildDiscriminants vs) m).tail.usesBad ok = false := by
  have := discArms_uses (ok := ok) validate.isSome _ (buildDiscriminants_uses (ok := ok) vs)
  simp [discriminantComparison, Stmt.anyUsesBad, Stmt.usesBad, Expr.usesBad, Var.bad, Expr.anyUsesBad, discCall, this, hv]

theorem validateDefs_uses (vs : List Data) :
    Stmt.anyUsesBad ok ((buildDiscriminants vs).zipIdx.map fun (d, k) => Stmt.validateDef k d) = false := by
  have h := buildDiscriminants_uses (ok := ok) vs
  generalize buildDiscriminants vs = l at h
  suffices hgo : ∀ (l : List Expr) (n0 : Nat), Expr.anyUsesBad ok l = false →
      Stmt.anyUsesBad ok ((l.zipIdx n0).map fun (d, k) => Stmt.validateDef k d) = false by
    exact hgo l 0 h
  intro l
  induction l with
  | nil => intros; rfl
  | cons e l ih =>
    intro n0 hl
    simp only [Expr.anyUsesBad, Bool.or_eq_false_iff] at hl
    simp [Stmt.anyUsesBad, Stmt.usesBad, hl.1, ih (n0 + 1) hl.2]

theorem castCmp_uses (m : TraitFn) (conv : Expr → Expr) (h1 : (conv vSelf).usesBad ok = false)
    (h2 : (conv vOther).usesBad ok = false) : (castCmp m conv).usesBad ok = false := by
  simp [castCmp, Expr.usesBad, Var.bad, Expr.anyUsesBad, h1, h2]

theorem ordBodyElse_uses (c : Cfg) (dw : DeriveWhere) (disc : Discriminant)
    (vs : List Data) (m : TraitFn) :
    Stmt.anyUsesBad ok (ordBodyElse c dw disc vs m).stmts = false ∧
      (ordBodyElse c dw disc vs m).tail.usesBad ok = false := by
  have hcast1 := castCmp_uses (ok := ok) m (fun e => .cast (.deref e) .isize) rfl rfl
  have hclone1 := castCmp_uses (ok := ok) m (fun e => .cast (.selfCall .clone [e]) .isize) rfl rfl
  have hvalidate : Stmt.anyUsesBad ok ((if vs.any (·.discriminant.isSome) = true then
      some ((buildDiscriminants vs).zipIdx.map fun (d, k) => Stmt.validateDef k d) else none).getD []) = false := by
    split
    · exact validateDefs_uses (ok := ok) vs
    · rfl
  cases disc with
  | single => simp [ordBodyElse, Stmt.anyUsesBad, Expr.usesBad, Var.bad]
  | unit =>
    simp only [ordBodyElse]
    split
    · exact ⟨hvalidate, hcast1⟩
    · split
      · exact ⟨hvalidate, hclone1⟩
      · exact discriminantComparison_uses (ok := ok) none _ vs m hvalidate
  | data => exact discriminantComparison_uses (ok := ok) none none vs m rfl
  | unitRepr r =>
    simp only [ordBodyElse]
    split
    · exact ⟨rfl, castCmp_uses (ok := ok) m (fun e => .cast (.deref e) r) rfl rfl⟩
    · split
      · exact ⟨rfl, castCmp_uses (ok := ok) m (fun e => .cast (.selfCall .clone [e]) r) rfl rfl⟩
      · have := discriminantComparison_uses (ok := ok) (some r) none vs m rfl
        split
        · exact this
        · simp [ptrCmp, Stmt.anyUsesBad, Expr.usesBad, Var.bad, Expr.anyUsesBad, vSelf, vOther]
  | dataRepr r =>
    have := discriminantComparison_uses (ok := ok) (some r) none vs m rfl
    simp only [ordBodyElse]
    split
    · exact this
    · simp [ptrCmp, Stmt.anyUsesBad, Expr.usesBad, Var.bad, Expr.anyUsesBad, vSelf, vOther]

theorem ordBodyEqual_uses (c : Cfg) (it : Item) (vs : List Data) (t : Trait)
    (arms : List Arm) (harms : Arm.anyUsesBad ok arms = false) :
    ∀ be, ordBodyEqual c it vs t arms = some be → be.usesBad ok = false := by
  intro be hbe
  unfold ordBodyEqual at hbe
  split at hbe
  · cases hbe
  · split at hbe <;> cases hbe <;>
      simp [Expr.usesBad, Var.bad, tupleSO, vSelf, vOther, Expr.anyUsesBad, Arm.anyUsesBad_append, harms, Arm.anyUsesBad,
        equalExpr_uses (ok := ok), unreachableRest_uses (ok := ok) c]

theorem uses_ordSignature (c : Cfg) (it : Item) (dw : DeriveWhere) (t : Trait)
    (arms : List Arm) (harms : Arm.anyUsesBad ok arms = false) :
    (ordSignature c it dw t arms).usesBad ok = false := by
  have hsingle : (if it.isEmpty t = true then equalExpr t else Expr.match_ tupleSO arms).usesBad ok = false := by
    split
    · exact equalExpr_uses (ok := ok) t
    · simp [Expr.usesBad, Var.bad, tupleSO, vSelf, vOther, Expr.anyUsesBad, harms]
  unfold ordSignature
  split
  · rfl
  · cases it with
    | item d => exact hsingle
    | enum_ disc id inc vs =>
      simp only
      split
      · have hbe := ordBodyEqual_uses (ok := ok) c (.enum_ disc id inc vs) vs t arms harms
        unfold ordMulti
        simp only
        split
        · -- single comparable variant
          simp only [ordSingleComparable, Expr.usesBad, Var.bad, matchesEither, vSelf, vOther, Bool.or_false,
            Bool.false_or]
          split
          · exact equalExpr_uses (ok := ok) t
          · cases hb : ordBodyEqual c (.enum_ disc id inc vs) vs t arms with
            | none => simpa using equalExpr_uses (ok := ok) t
            | some be => simpa using hbe be hb
        · split
          · -- nightly
            unfold ordNightly
            cases hb : ordBodyEqual c (.enum_ disc id inc vs) vs t arms with
            | none =>
              simp only
              apply toExpr_uses (ok := ok)
              · exact ordIncStmts_uses (ok := ok) vs
              · simp [Expr.usesBad, Var.bad, Expr.anyUsesBad, vSelf, vOther]
            | some be =>
              simp [Expr.usesBad, Var.bad, Stmt.anyUsesBad_append, ordIncStmts_uses (ok := ok), letDiscs, Stmt.anyUsesBad,
                Stmt.usesBad, Expr.anyUsesBad, vSelf, vOther, discsEqual, hbe be hb]
          · have helse := ordBodyElse_uses (ok := ok) c dw disc vs (ordFn t)
            unfold ordStable
            cases hb : ordBodyEqual c (.enum_ disc id inc vs) vs t arms with
            | none =>
              simp only
              apply toExpr_uses (ok := ok)
              · simp [Stmt.anyUsesBad_append, ordIncStmts_uses (ok := ok), helse.1]
              · exact helse.2
            | some be =>
              have := toExpr_uses (ok := ok) _ helse.1 helse.2
              simp [Expr.usesBad, Var.bad, Stmt.anyUsesBad_append, ordIncStmts_uses (ok := ok), letDiscs, Stmt.anyUsesBad,
                Stmt.usesBad, Expr.anyUsesBad, vSelf, vOther, discsEqual, hbe be hb, this]
      · exact hsingle

theorem partialOrdBody_uses (dw : DeriveWhere) (k : Nat) (d : Data)
    (hok : ∀ t' : Trait, t' = .partialOrd ∨ t' = .ord → ∀ p ∈ d.iterFields t', ok k p.1 = true) :
    Arm.anyUsesBad ok (partialOrdBody dw k d) = false := by
  have := ordArmsFor_uses (ok := ok) .partialOrd dw k d hok
  simpa [ordArmsFor] using this

theorem ordArms_uses (k : Nat) (d : Data)
    (hok : ∀ t' : Trait, t' = .partialOrd ∨ t' = .ord → ∀ p ∈ d.iterFields t', ok k p.1 = true) :
    Arm.anyUsesBad ok (ordArms k d) = false := by
  have := ordArmsFor_uses (ok := ok) .ord ⟨[], []⟩ k d hok
  simpa [ordArmsFor] using this

theorem semiMap_uses {β} (l : List β) (f : β → Expr) (h : ∀ x ∈ l, (f x).usesBad ok = false) :
    Stmt.anyUsesBad ok (l.map fun x => Stmt.semi (f x)) = false :=
  Stmt.anyUsesBad_map _ _ (fun x hx => by simp [Stmt.usesBad, h x hx])

theorem cloneBody_uses (dw : DeriveWhere) (k : Nat) (d : Data) (hok : ∀ p ∈ d.iterFields .clone, ok k p.1 = true) :
    Arm.anyUsesBad ok (cloneBody dw k d) = false := by
  unfold cloneBody
  cases h : (dw.shortcut && dw.contains .copy)
  · simp only [Bool.false_eq_true, if_false]
    cases hs : d.shape <;> simp only [Arm.anyUsesBad, Expr.usesBad, Var.bad, Bool.or_false]
    · exact FieldInit.anyUsesBad_map (d.iterFields .clone) (fun (p : Nat × Field) => p.1)
        (fun p => .call (.traitFn .clone) [.var (.selfField k p.1)])
        (fun p hp => by simp [Expr.usesBad, Var.bad, Expr.anyUsesBad, hok p hp])
    · exact Expr.anyUsesBad_map (d.iterFields .clone)
        (fun (p : Nat × Field) => Expr.call (.traitFn .clone) [.var (.selfField k p.1)])
        (fun p hp => by simp [Expr.usesBad, Var.bad, Expr.anyUsesBad, hok p hp])
  · simp [Arm.anyUsesBad]

theorem debugBody_uses (k : Nat) (d : Data) (hok : ∀ p ∈ d.iterFields .debug, ok k p.1 = true) :
    Arm.anyUsesBad ok (debugBody k d) = false := by
  unfold debugBody
  cases hs : d.shape <;> simp only [Arm.anyUsesBad, Expr.usesBad, Var.bad, Bool.or_false, List.singleton_append,
    Stmt.anyUsesBad, Stmt.usesBad, Expr.anyUsesBad, Bool.false_or]
  · rw [semiMap_uses (ok := ok) (d.iterFields .debug) (fun (p : Nat × Field) => Expr.call .dsField
      [.refMut (.var .builder), .litStr (.fieldName k p.1), .var (.selfField k p.1)])
      (fun p hp => by simp [Expr.usesBad, Var.bad, Expr.anyUsesBad, hok p hp])]
    try (split <;> rfl)
  · rw [semiMap_uses (ok := ok) (d.iterFields .debug) (fun (p : Nat × Field) => Expr.call .dtField
      [.refMut (.var .builder), .var (.selfField k p.1)])
      (fun p hp => by simp [Expr.usesBad, Var.bad, Expr.anyUsesBad, hok p hp])]

theorem hashBody_uses (k : Nat) (d : Data) (hok : ∀ p ∈ d.iterFields .hash, ok k p.1 = true) :
    Arm.anyUsesBad ok (hashBody k d) = false := by
  unfold hashBody
  have hdisc : Stmt.anyUsesBad ok (if d.isVariant = true then
      [Stmt.semi (.call (.traitFn .hash) [.ref (.call .memDiscriminant [vSelf]), .var .state])] else []) = false := by
    split <;> simp [Stmt.anyUsesBad, Stmt.usesBad, Expr.usesBad, Var.bad, Expr.anyUsesBad, vSelf]
  have hloop := semiMap_uses (ok := ok) (d.iterFields .hash)
    (fun (p : Nat × Field) => Expr.call (.traitFn .hash) [.var (.selfField k p.1), .var .state])
    (fun p hp => by simp [Expr.usesBad, Var.bad, Expr.anyUsesBad, hok p hp])
  cases hs : d.shape <;>
    simp only [Arm.anyUsesBad, Expr.usesBad, Var.bad, Bool.or_false, Stmt.anyUsesBad_append, hdisc, Bool.false_or, hloop]

theorem defaultBody_uses (k : Nat) (d : Data) (hok : ∀ p ∈ d.iterFields .default, ok k p.1 = true) :
    Expr.anyUsesBad ok (defaultBody k d) = false := by
  unfold defaultBody
  cases h : d.isDefault
  · simp [Expr.anyUsesBad]
  · simp only [if_true]
    cases hs : d.shape <;> simp only [Expr.anyUsesBad, Expr.usesBad, Var.bad, Bool.or_false]
    · exact FieldInit.anyUsesBad_map (d.iterFields .default) (fun (p : Nat × Field) => p.1)
        (fun p => .defaultCall k p.1) (fun p hp => by simp [Expr.usesBad, hok p hp])
    · exact Expr.anyUsesBad_map (d.iterFields .default) (fun (p : Nat × Field) => Expr.defaultCall k p.1)
        (fun p hp => by simp [Expr.usesBad, hok p hp])

theorem Expr.anyUsesBad_append (l1 l2 : List Expr) :
    Expr.anyUsesBad ok (l1 ++ l2) = (Expr.anyUsesBad ok l1 || Expr.anyUsesBad ok l2) := by
  induction l1 with
  | nil => simp [Expr.anyUsesBad]
  | cons a l ih => simp [Expr.anyUsesBad, ih, Bool.or_assoc]

theorem Expr.anyUsesBad_flatMap {β} (l : List β) (f : β → List Expr)
    (h : ∀ x ∈ l, Expr.anyUsesBad ok (f x) = false) : Expr.anyUsesBad ok (l.flatMap f) = false := by
  induction l with
  | nil => simp [Expr.anyUsesBad]
  | cons a l ih =>
    simp only [List.flatMap_cons, Expr.anyUsesBad_append, h a (by simp), Bool.false_or]
    exact ih (fun x hx => h x (by simp [hx]))


theorem zeroizeBody_uses (k : Nat) (d : Data) (hok : ∀ p ∈ d.iterFields .zeroize, ok k p.1 = true) :
    Arm.anyUsesBad ok (zeroizeBody k d) = false := by
  unfold zeroizeBody
  split
  · simp [Arm.anyUsesBad, Expr.usesBad, Stmt.anyUsesBad]
  · split
    · simp only [Arm.anyUsesBad, Expr.usesBad, Bool.or_false]
      exact Stmt.anyUsesBad_map _ _ (fun p hp => by
        obtain ⟨i, f⟩ := p
        have := hok (i, f) hp
        simp only at this
        split <;> simp [Stmt.usesBad, Expr.usesBad, Expr.anyUsesBad, Var.bad, this])
    · simp only [Arm.anyUsesBad, Expr.usesBad, Bool.or_false]
      exact Stmt.anyUsesBad_map _ _ (fun p hp => by
        obtain ⟨i, f⟩ := p
        have := hok (i, f) hp
        simp only at this
        split <;> simp [Stmt.usesBad, Expr.usesBad, Expr.anyUsesBad, Var.bad, this])
    · rfl

theorem zodArms_uses (k : Nat) (d : Data) (hok : ∀ p ∈ d.iterFields .zeroizeOnDrop, ok k p.1 = true) :
    Arm.anyUsesBad ok (zodArms k d) = false := by
  unfold zodArms
  split
  · simp [Arm.anyUsesBad, Expr.usesBad, Stmt.anyUsesBad]
  · split
    · simp only [Arm.anyUsesBad, Expr.usesBad, Bool.or_false]
      exact Stmt.anyUsesBad_map _ _ (fun p hp => by
        have := hok p hp
        simp [Stmt.usesBad, Expr.usesBad, Var.bad, this])
    · simp only [Arm.anyUsesBad, Expr.usesBad, Bool.or_false]
      exact Stmt.anyUsesBad_map _ _ (fun p hp => by
        have := hok p hp
        simp [Stmt.usesBad, Expr.usesBad, Var.bad, this])
    · rfl

theorem zodStmts_uses (d : Data) : Stmt.anyUsesBad ok (zodStmts d) = false := by
  unfold zodStmts
  split
  · rfl
  · split <;> simp [Stmt.anyUsesBad, Stmt.usesBad, Expr.usesBad, Expr.anyUsesBad, Var.bad, vSelf]

/-- The field bindings a generated impl mentions are bindings of fields that `Data::iter_fields` yields
for that trait (for `PartialOrd`, which may inline `Ord`'s arms, of either) -- whatever the configuration, bound lists,
discriminant strategy and item shape are. -/
theorem uses_generateBody (c : Cfg) (it : Item) (dw : DeriveWhere) (t : Trait)
    (hok : ∀ x ∈ it.indexed, ∀ t' : Trait, (t' = t ∨ (t = .partialOrd ∧ t' = .ord) ∨ (t = .ord ∧ t' = .partialOrd)) →
      ∀ p ∈ x.2.iterFields t', ok x.1 p.1 = true) :
    ∀ m ∈ (generateBody c it dw t).toList, m.body.usesBad ok = false := by
  intro m hm
  cases t <;> simp only [generateBody, Option.toList, List.mem_singleton, List.not_mem_nil] at hm
  case clone =>
    subst hm
    simp only [cloneSignature]
    split
    · rfl
    · split
      · rfl
      · simp only [Expr.usesBad, Var.bad, vSelf, Bool.false_or]
        exact Arm.anyUsesBad_flatMap _ _ (fun x hx => cloneBody_uses (ok := ok) dw x.1 x.2 (hok x hx _ (Or.inl rfl)))
  case debug =>
    subst hm
    simp only [Expr.usesBad, Var.bad, vSelf, Bool.false_or]
    exact Arm.anyUsesBad_flatMap _ _ (fun x hx => debugBody_uses (ok := ok) x.1 x.2 (hok x hx _ (Or.inl rfl)))
  case default =>
    subst hm
    simp only [Expr.usesBad, Var.bad]
    exact Expr.anyUsesBad_flatMap _ _ (fun x hx => defaultBody_uses (ok := ok) x.1 x.2 (hok x hx _ (Or.inl rfl)))
  case eq =>
    subst hm
    simp only [Expr.usesBad, Var.bad, Stmt.anyUsesBad, Stmt.usesBad, Bool.false_or, Bool.or_false]
    exact Stmt.anyUsesBad_flatMap _ _ (fun x hx => Stmt.anyUsesBad_map _ _
      (fun (p : Nat × Field) hp => by simp [Stmt.usesBad, hok x hx _ (Or.inl rfl) p hp]))
  case hash =>
    subst hm
    simp only [Expr.usesBad, Var.bad, vSelf, Bool.false_or]
    exact Arm.anyUsesBad_flatMap _ _ (fun x hx => hashBody_uses (ok := ok) x.1 x.2 (hok x hx _ (Or.inl rfl)))
  case ord =>
    subst hm
    exact uses_ordSignature (ok := ok) c it dw .ord _
      (Arm.anyUsesBad_flatMap _ _ (fun x hx => ordArms_uses (ok := ok) x.1 x.2 (fun t' ht' => by
        rcases ht' with rfl | rfl
        · exact hok x hx _ (Or.inr (Or.inr ⟨rfl, rfl⟩))
        · exact hok x hx _ (Or.inl rfl))))
  case partialEq =>
    subst hm
    exact uses_eq (ok := ok) c it (fun x hx => hok x hx _ (Or.inl rfl))
  case partialOrd =>
    subst hm
    simp only [partialOrdSignature]
    split
    · simp [Expr.usesBad, Var.bad, Expr.anyUsesBad, vSelf, vOther]
    · exact uses_ordSignature (ok := ok) c it dw .partialOrd _
        (Arm.anyUsesBad_flatMap _ _ (fun x hx => partialOrdBody_uses (ok := ok) dw x.1 x.2 (fun t' ht' => by
          rcases ht' with rfl | rfl
          · exact hok x hx _ (Or.inl rfl)
          · exact hok x hx _ (Or.inr (Or.inl ⟨rfl, rfl⟩)))))
  case zeroize =>
    subst hm
    have harms : Arm.anyUsesBad ok (it.indexed.flatMap fun (k, d) => zeroizeBody k d) = false :=
      Arm.anyUsesBad_flatMap _ _ (fun x hx => zeroizeBody_uses (ok := ok) x.1 x.2 (hok x hx _ (Or.inl rfl)))
    simp only [zeroizeSignature]
    split
    · split <;> simp [Expr.usesBad, Stmt.anyUsesBad, Stmt.usesBad, Var.bad, vSelf, harms]
    · simp [Expr.usesBad, Stmt.anyUsesBad, Stmt.usesBad, Var.bad, vSelf, harms]
  case zeroizeOnDrop =>
    subst hm
    have harms : Arm.anyUsesBad ok (it.indexed.flatMap fun (k, d) => zodArms k d) = false :=
      Arm.anyUsesBad_flatMap _ _ (fun x hx => zodArms_uses (ok := ok) x.1 x.2 (hok x hx _ (Or.inl rfl)))
    have hstmts : Stmt.anyUsesBad ok (it.variants.flatMap zodStmts) = false :=
      Stmt.anyUsesBad_flatMap _ _ (fun d _ => zodStmts_uses (ok := ok) d)
    have hgen : (if c.zod then Expr.block [.useAsserts] (.match_ vSelf (it.indexed.flatMap fun (k, d) => zodArms k d))
        else Expr.block (it.variants.flatMap zodStmts) .unit).usesBad ok = false := by
      split <;> simp [Expr.usesBad, Stmt.anyUsesBad, Stmt.usesBad, Var.bad, vSelf, harms, hstmts]
    simp only [zodSignature]
    split
    · split
      · simp [Expr.usesBad, Stmt.anyUsesBad]
      · exact hgen
    · exact hgen

end DW

namespace DW

/-- Field `i` of variant `k` takes part in trait `t` (it is not skipped for it). -/
def Item.fieldRelevant (it : Item) (t : Trait) (k i : Nat) : Bool :=
  (it.variants[k]?).any fun d => (d.relevantIdx t).contains i

theorem Item.indexed_mem (it : Item) (x : Nat × Data) (h : x ∈ it.indexed) : it.variants[x.1]? = some x.2 := by
  unfold Item.indexed at h
  obtain ⟨⟨d, k⟩, hmem, rfl⟩ := List.mem_map.mp h
  have := List.mem_zipIdx hmem
  simp only [Nat.zero_le, Nat.zero_add, Nat.sub_zero, true_and] at this
  obtain ⟨hlt, hd⟩ := this
  simp [List.getElem?_eq_getElem hlt, hd]

end DW
