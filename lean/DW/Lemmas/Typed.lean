import DW.Typing
import DW.Lemmas.Skip
import DW.Lemmas.Discr
import DW.Lemmas.Fields
import DW.Lemmas.PartialEq

/-!
# Every generated body is well-typed (helper lemmas for `C02_well_typed`)
-/

namespace DW

/-- `o` is a type that can be used where `τ` is expected. -/
def Fits (o : Option Ty) (τ : Ty) : Prop := ∃ t, o = some t ∧ t.fits τ = true

theorem Fits.of_eq {o : Option Ty} {τ : Ty} (h : o = some τ) : Fits o τ := ⟨τ, h, by simp [Ty.fits]⟩
theorem Fits.never {o : Option Ty} {τ : Ty} (h : o = some .never) : Fits o τ := ⟨.never, h, by simp [Ty.fits]⟩

theorem join_fits {a b τ : Ty} (ha : a.fits τ = true) (hb : b.fits τ = true) :
    ∃ t, a.join b = some t ∧ t.fits τ = true := by
  simp only [Ty.fits, Bool.or_eq_true, decide_eq_true_eq] at ha hb
  unfold Ty.join
  by_cases h1 : a = Ty.never
  · exact ⟨b, by simp [h1], by simpa [Ty.fits] using hb⟩
  · by_cases h2 : b = Ty.never
    · exact ⟨a, by simp [h1, h2], by simpa [Ty.fits] using ha⟩
    · have ha' : a = τ := ha.resolve_left h1
      have hb' : b = τ := hb.resolve_left h2
      exact ⟨a, by simp [h1, h2, ha', hb'], by simp [Ty.fits, ha']⟩

/-! ## Arms -/

theorem Arm.tys_nil (cx : TyCx) (Γ : TEnv) (ts τ : Ty) : Fits (Arm.tys cx Γ ts []) τ :=
  Fits.never (by simp [Arm.tys])

theorem Arm.tys_cons (cx : TyCx) (Γ : TEnv) (ts τ : Ty) (p : Pat) (e : Expr) (cm : Bool) (arms : List Arm)
    (b : TEnv) (hp : p.bindTy cx.it ts = some b) (he : Fits (e.ty cx (b ++ Γ)) τ)
    (hr : Fits (Arm.tys cx Γ ts arms) τ) : Fits (Arm.tys cx Γ ts (.mk p e cm :: arms)) τ := by
  obtain ⟨t, ht, hft⟩ := he
  obtain ⟨t', ht', hft'⟩ := hr
  obtain ⟨j, hj, hfj⟩ := join_fits hft hft'
  exact ⟨j, by simp [Arm.tys, hp, ht, ht', hj], hfj⟩

theorem Arm.tys_append (cx : TyCx) (Γ : TEnv) (ts τ : Ty) (l1 l2 : List Arm)
    (h1 : Fits (Arm.tys cx Γ ts l1) τ) (h2 : Fits (Arm.tys cx Γ ts l2) τ) :
    Fits (Arm.tys cx Γ ts (l1 ++ l2)) τ := by
  induction l1 with
  | nil => simpa using h2
  | cons a l ih =>
    obtain ⟨p, e, cm⟩ := a
    obtain ⟨t, ht, hft⟩ := h1
    simp only [Arm.tys] at ht
    split at ht
    · rename_i b hb
      split at ht
      · rename_i t1 t2 h1' h2'
        have hf1 : t1.fits τ = true ∧ t2.fits τ = true := by
          simp only [Ty.fits, Bool.or_eq_true, decide_eq_true_eq] at hft ⊢
          unfold Ty.join at ht
          split at ht
          · rename_i hn; cases ht; exact ⟨Or.inl hn, hft⟩
          · split at ht
            · rename_i hn; cases ht; exact ⟨hft, Or.inl hn⟩
            · split at ht
              · rename_i heq; cases ht; exact ⟨hft, heq ▸ hft⟩
              · cases ht
        exact Arm.tys_cons cx Γ ts τ p e cm _ b hb ⟨t1, h1', hf1.1⟩ (ih ⟨t2, h2', hf1.2⟩)
      · cases ht
    · cases ht

theorem Arm.tys_flatMap {β} (cx : TyCx) (Γ : TEnv) (ts τ : Ty) (l : List β) (f : β → List Arm)
    (h : ∀ x ∈ l, Fits (Arm.tys cx Γ ts (f x)) τ) : Fits (Arm.tys cx Γ ts (l.flatMap f)) τ := by
  induction l with
  | nil => exact Arm.tys_nil cx Γ ts τ
  | cons a l ih =>
    simp only [List.flatMap_cons]
    exact Arm.tys_append cx Γ ts τ _ _ (h a (by simp)) (ih fun x hx => h x (by simp [hx]))

/-! ## Statements -/

theorem Stmt.checks_append (cx : TyCx) (Γ : TEnv) (l1 l2 : List Stmt) :
    Stmt.checks cx Γ (l1 ++ l2) = (Stmt.checks cx Γ l1).bind fun Γ' => Stmt.checks cx Γ' l2 := by
  induction l1 generalizing Γ with
  | nil => simp [Stmt.checks]
  | cons s l ih =>
    simp only [List.cons_append, Stmt.checks]
    cases s.check cx Γ with
    | none => simp
    | some Γ' => simpa using ih Γ'

/-- A list of statements none of which binds anything. -/
theorem Stmt.checks_same (cx : TyCx) (Γ : TEnv) (l : List Stmt) (h : ∀ s ∈ l, s.check cx Γ = some Γ) :
    Stmt.checks cx Γ l = some Γ := by
  induction l with
  | nil => simp [Stmt.checks]
  | cons s l ih =>
    simp only [Stmt.checks, h s (by simp)]
    exact ih fun s' hs' => h s' (by simp [hs'])

theorem Stmt.checks_flatMap_same {β} (cx : TyCx) (Γ : TEnv) (l : List β) (f : β → List Stmt)
    (h : ∀ x ∈ l, ∀ s ∈ f x, s.check cx Γ = some Γ) : Stmt.checks cx Γ (l.flatMap f) = some Γ :=
  Stmt.checks_same cx Γ _ (by
    intro s hs
    obtain ⟨x, hx, hsx⟩ := List.mem_flatMap.mp hs
    exact h x hx s hsx)

/-! ## Environments of destructuring patterns -/

theorem lookup_ctorBind_go (s : Side) (m : Bool) (k i : Nat) (l : List Nat) (Γ : TEnv) (hi : i ∈ l) :
    ((l.map fun i => (fieldVar s k i, if m then Ty.refMut (.field k i) else .ref (.field k i))) ++ Γ).lookup
      (fieldVar s k i) = some (if m then Ty.refMut (.field k i) else .ref (.field k i)) := by
  induction l with
  | nil => simp at hi
  | cons j l ih =>
    simp only [List.map_cons, List.cons_append, List.lookup_cons]
    by_cases hji : j = i
    · subst hji; simp
    · have : (fieldVar s k i == fieldVar s k j) = false := by
        cases s <;> simp [fieldVar, Ne.symm hji]
      simp only [this]
      exact ih (by simpa [Ne.symm hji] using hi)

theorem lookup_ctorBind (s : Side) (m : Bool) (k n i : Nat) (Γ : TEnv) (hi : i < n) :
    (ctorBindTys s m k n ++ Γ).lookup (fieldVar s k i) =
      some (if m then Ty.refMut (.field k i) else .ref (.field k i)) :=
  lookup_ctorBind_go s m k i _ Γ (by simpa using hi)

theorem lookup_ctorBind_pass (s : Side) (m : Bool) (k n : Nat) (Γ : TEnv) (x : Var)
    (hx : ∀ i, x ≠ fieldVar s k i) : (ctorBindTys s m k n ++ Γ).lookup x = Γ.lookup x := by
  unfold ctorBindTys
  induction List.range n with
  | nil => simp
  | cons j l ih =>
    simp only [List.map_cons, List.cons_append, List.lookup_cons]
    have : (x == fieldVar s k j) = false := by simpa using hx j
    simp [this, ih]

theorem bindTy_ctor (it : Item) (k : Nat) (d : Data) (hd : it.variants[k]? = some d) (s : Side) :
    (Pat.ctor k s false).bindTy it (.ref .self_) = some (ctorBindTys s false k d.fields.length) := by
  simp [Pat.bindTy, hd, isSelfRef]

theorem bindTy_ctor_mutref (it : Item) (k : Nat) (d : Data) (hd : it.variants[k]? = some d) (s : Side) (m : Bool) :
    (Pat.ctor k s m).bindTy it (.refMut .self_) = some (ctorBindTys s m k d.fields.length) := by
  cases m <;> simp [Pat.bindTy, hd, isSelfRef]

theorem bindTy_pairPat (it : Item) (k : Nat) (d : Data) (hd : it.variants[k]? = some d) :
    (pairPat k).bindTy it (.pair (.ref .self_) (.ref .self_)) =
      some (ctorBindTys .self_ false k d.fields.length ++ (ctorBindTys .other false k d.fields.length ++ [])) := by
  simp [pairPat, Pat.bindTy, Pat.bindTys, hd, isSelfRef]

/-- Both fields of a pair arm are in scope with their reference types. -/
theorem pair_lookup (k n i : Nat) (Γ : TEnv) (hi : i < n) :
    (ctorBindTys .self_ false k n ++ (ctorBindTys .other false k n ++ []) ++ Γ).lookup (Var.selfField k i) =
        some (.ref (.field k i)) ∧
    (ctorBindTys .self_ false k n ++ (ctorBindTys .other false k n ++ []) ++ Γ).lookup (Var.otherField k i) =
        some (.ref (.field k i)) := by
  constructor
  · have := lookup_ctorBind .self_ false k n i ((ctorBindTys .other false k n ++ []) ++ Γ) hi
    simpa [fieldVar, List.append_assoc] using this
  · rw [List.append_assoc, lookup_ctorBind_pass .self_ false k n _ (.otherField k i) (by intro j; simp [fieldVar])]
    have := lookup_ctorBind .other false k n i ([] ++ Γ) hi
    simpa [fieldVar, List.append_assoc] using this

theorem Item.indexed_mem' (it : Item) (x : Nat × Data) (h : x ∈ it.indexed) : it.variants[x.1]? = some x.2 := by
  unfold Item.indexed at h
  obtain ⟨⟨d, k⟩, hmem, rfl⟩ := List.mem_map.mp h
  have := List.mem_zipIdx hmem
  simp only [Nat.zero_le, Nat.zero_add, Nat.sub_zero, true_and] at this
  obtain ⟨hlt, hd⟩ := this
  simp [List.getElem?_eq_getElem hlt, hd]

theorem iterFields_lt (d : Data) (t : Trait) (p : Nat × Field) (h : p ∈ d.iterFields t) : p.1 < d.fields.length := by
  have := Data.iterFields_mem d t p h
  rcases Nat.lt_or_ge p.1 d.fields.length with hc | hc
  · exact hc
  · rw [List.getElem?_eq_none hc] at this
    cases this


/-! ## Lists of expressions / field initialisers -/

theorem Expr.tys_map {β} (cx : TyCx) (Γ : TEnv) (l : List β) (f : β → Expr) (g : β → Ty)
    (h : ∀ x ∈ l, (f x).ty cx Γ = some (g x)) : Expr.tys cx Γ (l.map f) = some (l.map g) := by
  induction l with
  | nil => simp [Expr.tys]
  | cons a l ih => simp [Expr.tys, h a (by simp), ih fun x hx => h x (by simp [hx])]

theorem FieldInit.check_range (cx : TyCx) (Γ : TEnv) (k : Nat) (e : Nat → Expr) (j n : Nat)
    (h : ∀ i, j ≤ i → i < j + n → (e i).ty cx Γ = some (.field k i)) :
    FieldInit.check cx Γ k j ((List.range' j n).map fun i => FieldInit.mk i (e i)) = true := by
  induction n generalizing j with
  | zero => simp [FieldInit.check]
  | succ n ih =>
    simp only [List.range'_succ, List.map_cons, FieldInit.check, h j (Nat.le_refl _) (by omega), Ty.fits]
    simp only [decide_true, Bool.or_true, Bool.true_and]
    exact ih (j + 1) fun i h1 h2 => h i (by omega) (by omega)

/-! ## Incomparable patterns -/

theorem allFit_ctorAny (it : Item) (t : Ty) (ht : isSelfRef t = true) (l : List (Data × Nat))
    (h : ∀ x ∈ l, x.2 < it.variants.length) :
    Pat.allFit it (l.map fun (x : Data × Nat) => Pat.ctorAny x.2) t = true := by
  induction l with
  | nil => simp [Pat.allFit]
  | cons a l ih =>
    simp only [List.map_cons, Pat.allFit, Pat.bindTy, h a (by simp), ht, decide_true, Bool.and_self, if_true,
      Bool.true_and]
    exact ih fun x hx => h x (by simp [hx])

theorem incomparablePattern_bindTy (it : Item) (p : Pat) (t : Ty) (ht : isSelfRef t = true)
    (h : incomparablePattern it.variants = some p) : p.bindTy it t = some [] := by
  unfold incomparablePattern at h
  simp only at h
  split at h
  · cases h
  · cases h
    have : ∀ x ∈ (it.variants.zipIdx.filter fun x => x.1.incomparable), x.2 < it.variants.length := by
      intro x hx
      have := List.mem_zipIdx (List.mem_filter.mp hx).1
      omega
    have hfit := allFit_ctorAny it t ht _ this
    simp only [Pat.bindTy]
    rw [show (List.map (fun x => match x with | (_, k) => Pat.ctorAny k)
        (List.filter (fun x => x.1.incomparable) it.variants.zipIdx)) =
        (List.map (fun (x : Data × Nat) => Pat.ctorAny x.2)
        (List.filter (fun x => x.1.incomparable) it.variants.zipIdx)) from rfl]
    simp [hfit]

/-! ## Generic facts about the typing context of a method -/

/-- `self` (and `__other`) are in scope with type `&Self`, also below destructuring patterns. -/
structure SelfOther (Γ : TEnv) : Prop where
  s : Γ.lookup .self_ = some (.ref .self_)
  o : Γ.lookup .other = some (.ref .self_)

theorem tupleSO_ty (cx : TyCx) (Γ : TEnv) (h : SelfOther Γ) :
    tupleSO.ty cx Γ = some (.pair (.ref .self_) (.ref .self_)) := by
  simp [tupleSO, vSelf, vOther, Expr.ty, Expr.tys, h.s, h.o]

theorem unreachableRest_ty (c : Cfg) (cx : TyCx) (Γ : TEnv) : (unreachableRest c).ty cx Γ = some .never := by
  unfold unreachableRest; split <;> simp [Expr.ty, Expr.tys, applyFnTy]

theorem ifElse_fits (cx : TyCx) (Γ : TEnv) (c t e : Expr) (τ : Ty) (hc : c.ty cx Γ = some .bool)
    (ht : Fits (t.ty cx Γ) τ) (he : Fits (e.ty cx Γ) τ) : Fits ((Expr.ifElse c t e).ty cx Γ) τ := by
  obtain ⟨t1, h1, hf1⟩ := ht
  obtain ⟨t2, h2, hf2⟩ := he
  obtain ⟨j, hj, hfj⟩ := join_fits hf1 hf2
  exact ⟨j, by simp [Expr.ty, hc, h1, h2, hj], hfj⟩

theorem match_fits (cx : TyCx) (Γ : TEnv) (s : Expr) (arms : List Arm) (ts τ : Ty) (hs : s.ty cx Γ = some ts)
    (hex : Arms.exhaustive cx.it ts arms = true) (ha : Fits (Arm.tys cx Γ ts arms) τ) :
    Fits ((Expr.match_ s arms).ty cx Γ) τ := by
  simpa [Expr.ty, hs, hex] using ha

/-! ## Exhaustiveness -/

theorem exh_of_total (it : Item) (t : Ty) (arms : List Arm) (a : Arm) (ha : a ∈ arms) (ht : a.pat.total it t = true) :
    Arms.exhaustive it t arms = true := by
  simp only [Arms.exhaustive, Bool.or_eq_true, List.any_eq_true]
  exact Or.inl ⟨a, ha, ht⟩

/-- A trailing `_ => ..` arm. -/
theorem exh_append_wild (it : Item) (t : Ty) (arms : List Arm) (e : Expr) (c : Bool) :
    Arms.exhaustive it t (arms ++ [Arm.mk .wild e c]) = true :=
  exh_of_total it t _ (Arm.mk .wild e c) (by simp) (by simp [Arm.pat, Pat.total])

theorem indexed_mem_of_get (it : Item) (k : Nat) (d : Data) (h : it.variants[k]? = some d) : (k, d) ∈ it.indexed := by
  unfold Item.indexed
  exact List.mem_map.mpr ⟨(d, k), List.mk_mem_zipIdx_iff_getElem?.mpr h, rfl⟩

/-- One arm per variant. -/
theorem exh_indexed (it : Item) (t : Ty) (ht : isSelfRef t = true) (f : Nat × Data → List Arm)
    (h : ∀ x ∈ it.indexed, ∃ a ∈ f x, a.pat.coversVariant x.1 = true) :
    Arms.exhaustive it t (it.indexed.flatMap f) = true := by
  simp only [Arms.exhaustive, Bool.or_eq_true, Bool.and_eq_true, List.all_eq_true, List.mem_range, List.any_eq_true]
  refine Or.inr ⟨ht, ?_⟩
  intro k hk
  have hd : it.variants[k]? = some it.variants[k] := List.getElem?_eq_getElem hk
  obtain ⟨a, ha, hc⟩ := h (k, it.variants[k]) (indexed_mem_of_get it k _ hd)
  exact ⟨a, List.mem_flatMap.mpr ⟨_, indexed_mem_of_get it k _ hd, ha⟩, hc⟩

theorem block_fits (cx : TyCx) (Γ Γ' : TEnv) (stmts : List Stmt) (tail : Expr) (τ : Ty)
    (h1 : Stmt.checks cx Γ stmts = some Γ') (h2 : Fits (tail.ty cx Γ') τ) :
    Fits ((Expr.block stmts tail).ty cx Γ) τ := by
  simpa [Expr.ty, h1] using h2

/-- `(self, other)` matched by the pair pattern of the only variant. -/
theorem total_pairPat (it : Item) (h : it.variants.length = 1) :
    (pairPat 0).total it (.pair (.ref .self_) (.ref .self_)) = true := by
  simp [pairPat, Pat.total, Pat.totals, isSelfRef, h]

/-- With at most one variant, `Item::is_incomparable` is the marker of that variant (or of the item). -/
theorem single_not_incomparable (it : Item) (d : Data) (hv : it.variants = [d]) (h : it.isIncomparable = false) :
    d.incomparable = false := by
  cases it with
  | item d' => simp only [Item.variants, List.cons.injEq, and_true] at hv; subst hv; simpa [Item.isIncomparable] using h
  | enum_ disc id inc vs =>
    simp only [Item.variants] at hv; subst hv
    simp only [Item.isIncomparable, Bool.or_eq_false_iff] at h
    simpa using h.2

/-- The single-variant `match (self, other) { .. }`: the only variant's arm is irrefutable. -/
theorem exh_single_pair (it : Item) (t : Trait) (f : Nat → Data → List Arm) (hlen : it.variants.length ≤ 1)
    (hne : it.isEmpty t = false)
    (hf : ∀ d, it.variants = [d] → d.isEmpty t = false → ∃ e c, Arm.mk (pairPat 0) e c ∈ f 0 d) :
    Arms.exhaustive it (.pair (.ref .self_) (.ref .self_)) (it.indexed.flatMap fun (k, d) => f k d) = true := by
  have : ∃ d, it.variants = [d] ∧ d.isEmpty t = false := by
    simp only [Item.isEmpty, List.all_eq_false] at hne
    obtain ⟨d, hd, hde⟩ := hne
    match hv : it.variants, hlen, hd with
    | [d'], _, hd => simp only [List.mem_singleton] at hd; subst hd; exact ⟨d, rfl, by simpa using hde⟩
    | [], _, hd => simp at hd
    | _ :: _ :: _, hl, _ => simp at hl
  obtain ⟨d, hv, hde⟩ := this
  obtain ⟨e, c, hmem⟩ := hf d hv hde
  refine exh_of_total it _ _ (Arm.mk (pairPat 0) e c) ?_ (by simpa [Arm.pat] using total_pairPat it (by simp [hv]))
  simp only [Item.indexed, hv, List.zipIdx_cons, List.zipIdx_nil, List.map_cons, List.map_nil, List.flatMap_cons,
    List.flatMap_nil, List.append_nil]
  exact hmem

/-! ## `PartialEq` -/

theorem eqChain_ty (cx : TyCx) (Γ : TEnv) (k : Nat) (fs : List (Nat × Field))
    (h : ∀ p ∈ fs, Γ.lookup (.selfField k p.1) = some (.ref (.field k p.1)) ∧
      Γ.lookup (.otherField k p.1) = some (.ref (.field k p.1))) :
    (eqChain k fs).ty cx Γ = some .bool := by
  unfold eqChain
  suffices hh : ∀ acc : Expr, acc.ty cx Γ = some .bool →
      (fs.foldl (fun acc (p : Nat × Field) =>
        Expr.binop .and acc (.call (.traitFn .eq) [.var (.selfField k p.1), .var (.otherField k p.1)]))
        acc).ty cx Γ = some .bool from hh _ (by simp [Expr.ty])
  induction fs with
  | nil => intro acc ha; simpa using ha
  | cons p fs ih =>
    intro acc ha
    simp only [List.foldl_cons]
    apply ih (fun q hq => h q (by simp [hq]))
    simp [Expr.ty, Expr.tys, ha, (h p (by simp)).1, (h p (by simp)).2, applyFnTy, binopTy]

theorem partialEqBody_ty (cx : TyCx) (Γ : TEnv) (k : Nat) (d : Data) (hd : cx.it.variants[k]? = some d) :
    Fits (Arm.tys cx Γ (.pair (.ref .self_) (.ref .self_)) (partialEqBody k d)) .bool := by
  unfold partialEqBody
  split
  · exact Arm.tys_nil ..
  · have harm : Fits (Arm.tys cx Γ (.pair (.ref .self_) (.ref .self_))
        [Arm.mk (pairPat k) (eqChain k (d.iterFields .partialEq)) true]) .bool := by
      refine Arm.tys_cons cx Γ _ _ _ _ _ _ _ (bindTy_pairPat cx.it k d hd) ?_ (Arm.tys_nil ..)
      exact Fits.of_eq (eqChain_ty cx _ k _ fun p hp => pair_lookup k _ p.1 Γ (iterFields_lt d _ p hp))
    split
    · exact harm
    · exact harm
    · exact Arm.tys_nil ..

theorem discEq_ty (cx : TyCx) (Γ : TEnv) (h : SelfOther Γ) : discEq.ty cx Γ = some .bool := by
  simp [discEq, vSelf, vOther, Expr.ty, Expr.tys, h.s, h.o, applyFnTy, binopTy]

theorem eqIncArms_ty (cx : TyCx) (Γ : TEnv) (vs : List Data) (hvs : cx.it.variants = vs) :
    Fits (Arm.tys cx Γ (.pair (.ref .self_) (.ref .self_)) (eqIncArms vs)) .bool := by
  unfold eqIncArms
  split
  · rename_i p hp
    refine Arm.tys_cons cx Γ _ _ _ _ _ _ [] ?_ (Fits.of_eq (by simp [Expr.ty])) (Arm.tys_nil ..)
    have := incomparablePattern_bindTy cx.it p (.ref .self_) (by simp [isSelfRef]) (hvs ▸ hp)
    simp [Pat.bindTy, Pat.bindTys, this]
  · exact Arm.tys_nil ..

theorem toExpr_ty (cx : TyCx) (Γ Γ' : TEnv) (b : Blk) (τ : Ty) (h1 : Stmt.checks cx Γ b.stmts = some Γ')
    (h2 : Fits (b.tail.ty cx Γ') τ) (h0 : b.stmts = [] → Γ' = Γ) : Fits (b.toExpr.ty cx Γ) τ := by
  unfold Blk.toExpr
  split
  · rename_i hnil; rw [← h0 hnil]; exact h2
  · simpa [Expr.ty, h1] using h2

theorem eqIncStmts_checks (cx : TyCx) (Γ : TEnv) (vs : List Data) (hvs : cx.it.variants = vs) (hs : SelfOther Γ)
    (hret : cx.ret = .bool) : Stmt.checks cx Γ (eqIncStmts vs) = some Γ := by
  unfold eqIncStmts
  split
  · rename_i p hp
    have := incomparablePattern_bindTy cx.it p (.ref .self_) (by simp [isSelfRef]) (hvs ▸ hp)
    simp [Stmt.checks, Stmt.check, Expr.ty, vSelf, hs.s, this, hret, Ty.fits]
  · simp [Stmt.checks]

theorem partialEqBody_arm (k : Nat) (d : Data) (hwf : d.WF) (hnu : d.shape ≠ .union)
    (hne : d.isEmpty .partialEq = false) (hinc : d.incomparable = false) :
    ∃ e c, Arm.mk (pairPat k) e c ∈ partialEqBody k d := by
  unfold partialEqBody
  simp only [hne, hinc, Bool.or_self, Bool.false_eq_true, if_false]
  rcases shape_of_nonempty' d .partialEq hwf hnu hne with h | h <;> simp [h]

theorem partialEqSignature_ty (c : Cfg) (cx : TyCx) (Γ : TEnv) (hs : SelfOther Γ) (hret : cx.ret = .bool)
    (hwf : cx.it.WF) (hnu : ∀ d ∈ cx.it.variants, d.shape ≠ .union) :
    Fits ((partialEqSignature c cx.it (cx.it.indexed.flatMap fun (k, d) => partialEqBody k d)).ty cx Γ) .bool := by
  have harms : Fits (Arm.tys cx Γ (.pair (.ref .self_) (.ref .self_))
      (cx.it.indexed.flatMap fun (k, d) => partialEqBody k d)) .bool :=
    Arm.tys_flatMap cx Γ _ _ _ _ fun x hx => partialEqBody_ty cx Γ x.1 x.2 (Item.indexed_mem' cx.it x hx)
  have hsingle : cx.it.variants.length ≤ 1 → cx.it.isIncomparable = false →
      Fits ((if cx.it.isEmpty .partialEq then Expr.litBool true
        else .match_ tupleSO (cx.it.indexed.flatMap fun (k, d) => partialEqBody k d)).ty cx Γ) .bool := by
    intro hlen hninc
    split
    · exact Fits.of_eq (by simp [Expr.ty])
    · rename_i hne
      refine match_fits cx Γ _ _ _ _ (tupleSO_ty cx Γ hs) ?_ harms
      exact exh_single_pair cx.it .partialEq partialEqBody hlen (by simpa using hne) fun d hv hde =>
        partialEqBody_arm 0 d (hwf d (by simp [hv])) (hnu d (by simp [hv])) hde
          (single_not_incomparable cx.it d hv hninc)
  have hfalse : Fits ((Expr.litBool false).ty cx Γ) .bool := Fits.of_eq (by simp [Expr.ty])
  unfold partialEqSignature
  split
  · exact hfalse
  · rename_i hninc
    have hninc' : cx.it.isIncomparable = false := by simpa using hninc
    simp only
    split
    · rename_i disc id inc vs hit
      have hvs : cx.it.variants = vs := by simp [hit, Item.variants]
      split
      · split
        · -- discriminant test, arms, incomparable arms, rest
          have hrest : Fits ((if (vs.any fun v => v.isEmpty .partialEq && !v.incomparable) then Expr.litBool true
              else unreachableRest c).ty cx ([] ++ Γ)) .bool := by
            split
            · exact Fits.of_eq (by simp [Expr.ty])
            · exact Fits.never (unreachableRest_ty c cx _)
          refine ifElse_fits cx Γ _ _ _ _ (discEq_ty cx Γ hs) ?_ hfalse
          refine match_fits cx Γ _ _ _ _ (tupleSO_ty cx Γ hs) (exh_append_wild ..) ?_
          exact Arm.tys_append cx Γ _ .bool _ _ (Arm.tys_append cx Γ _ .bool _ _ harms (eqIncArms_ty cx Γ vs hvs))
            (Arm.tys_cons cx Γ (.pair (.ref .self_) (.ref .self_)) .bool .wild _ true [] []
              (by simp [Pat.bindTy]) hrest (Arm.tys_nil ..))
        · refine ifElse_fits cx Γ _ _ _ _ (discEq_ty cx Γ hs) ?_ hfalse
          exact toExpr_ty cx Γ Γ (Blk.mk (eqIncStmts vs) (.litBool true)) .bool
            (eqIncStmts_checks cx Γ vs hvs hs hret) (Fits.of_eq (by simp [Expr.ty])) (fun _ => rfl)
      · rename_i hlen
        exact hsingle (by rw [hvs]; omega) hninc'
    · rename_i d hit
      exact hsingle (by simp [hit, Item.variants]) hninc'


/-! ## One-sided arms (`match self { .. }`) -/

/-- Context below a one-sided destructuring pattern: the fields are bound, everything else is unchanged. -/
theorem self_lookup (m : Bool) (k n i : Nat) (Γ : TEnv) (hi : i < n) :
    (ctorBindTys .self_ m k n ++ Γ).lookup (.selfField k i) =
      some (if m then Ty.refMut (.field k i) else .ref (.field k i)) := by
  simpa [fieldVar] using lookup_ctorBind .self_ m k n i Γ hi

theorem self_pass (m : Bool) (k n : Nat) (Γ : TEnv) (x : Var) (hx : ∀ i, x ≠ .selfField k i) :
    (ctorBindTys .self_ m k n ++ Γ).lookup x = Γ.lookup x :=
  lookup_ctorBind_pass .self_ m k n Γ x (by simpa [fieldVar] using hx)

/-! ## `Clone` -/

theorem iterFields_unskippable (d : Data) (t : Trait) (ht : t = .clone ∨ t = .copy ∨ t = .default) {β}
    (g : Nat → β) : (d.iterFields t).map (fun p => g p.1) = (List.range' 0 d.fields.length).map g := by
  rw [map_iterFields, relevantIdx_unskippable d t ht, List.range_eq_range']

theorem cloneBody_ty (cx : TyCx) (Γ : TEnv) (dw : DeriveWhere) (k : Nat) (d : Data)
    (hd : cx.it.variants[k]? = some d) : Fits (Arm.tys cx Γ (.ref .self_) (cloneBody dw k d)) .self_ := by
  unfold cloneBody
  have hcl : ∀ i, i < d.fields.length →
      (Expr.call (.traitFn .clone) [.var (.selfField k i)]).ty cx (ctorBindTys .self_ false k d.fields.length ++ Γ) =
        some (.field k i) := by
    intro i hi
    simp [Expr.ty, Expr.tys, self_lookup false k _ i Γ hi, applyFnTy]
  split
  · exact Arm.tys_nil ..
  · split
    · rename_i hsh
      refine Arm.tys_cons cx Γ _ _ _ _ _ _ _ (bindTy_ctor cx.it k d hd .self_) (Fits.of_eq ?_) (Arm.tys_nil ..)
      have hm := iterFields_unskippable d .clone (Or.inl rfl)
        (fun i => FieldInit.mk i (.call (.traitFn .clone) [.var (.selfField k i)]))
      have hchk := FieldInit.check_range cx (ctorBindTys .self_ false k d.fields.length ++ Γ) k
        (fun i => .call (.traitFn .clone) [.var (.selfField k i)]) 0 d.fields.length
        (fun i _ h2 => hcl i (by omega))
      simp only [Expr.ty, hd, hsh]
      rw [show (List.map (fun x => match x with | (i, _) => FieldInit.mk i (.call (.traitFn .clone) [.var (.selfField k i)]))
          (d.iterFields .clone)) = (d.iterFields .clone).map (fun p => FieldInit.mk p.1
            (.call (.traitFn .clone) [.var (.selfField k p.1)])) from rfl, hm]
      simp [hchk]
    · rename_i hsh
      refine Arm.tys_cons cx Γ _ _ _ _ _ _ _ (bindTy_ctor cx.it k d hd .self_) (Fits.of_eq ?_) (Arm.tys_nil ..)
      have hm := iterFields_unskippable d .clone (Or.inl rfl)
        (fun i => Expr.call (.traitFn .clone) [.var (.selfField k i)])
      have htys := Expr.tys_map cx (ctorBindTys .self_ false k d.fields.length ++ Γ) (List.range' 0 d.fields.length)
        (fun i => Expr.call (.traitFn .clone) [.var (.selfField k i)]) (Ty.field k)
        (fun i hi => hcl i (by simp [List.mem_range'_1] at hi; omega))
      simp only [Expr.ty]
      rw [show (List.map (fun x => match x with | (i, _) => Expr.call (.traitFn .clone) [.var (.selfField k i)])
          (d.iterFields .clone)) = (d.iterFields .clone).map (fun p =>
            Expr.call (.traitFn .clone) [.var (.selfField k p.1)]) from rfl, hm, htys]
      simp [applyFnTy, hd, hsh, List.range_eq_range']
    · rename_i hsh
      refine Arm.tys_cons cx Γ _ _ _ _ _ _ _ (bindTy_ctor cx.it k d hd .self_) (Fits.of_eq ?_) (Arm.tys_nil ..)
      simp [Expr.ty, hd, hsh]
    · exact Arm.tys_nil ..

theorem cloneBody_covers (dw : DeriveWhere) (k : Nat) (d : Data) (hs : (dw.shortcut && dw.contains .copy) = false)
    (hnu : d.shape ≠ .union) : ∃ a ∈ cloneBody dw k d, a.pat.coversVariant k = true := by
  unfold cloneBody
  simp only [hs, Bool.false_eq_true, if_false]
  cases h : d.shape with
  | union => exact absurd h hnu
  | named => exact ⟨_, List.mem_cons_self .., by simp [Arm.pat, Pat.coversVariant]⟩
  | tuple => exact ⟨_, List.mem_cons_self .., by simp [Arm.pat, Pat.coversVariant]⟩
  | unit => exact ⟨_, List.mem_cons_self .., by simp [Arm.pat, Pat.coversVariant]⟩

theorem cloneSignature_ty (cx : TyCx) (Γ : TEnv) (dw : DeriveWhere) (hs : Γ.lookup .self_ = some (.ref .self_))
    (hnu : isUnion cx.it = false → ∀ d ∈ cx.it.variants, d.shape ≠ .union) :
    Fits ((cloneSignature cx.it dw (cx.it.indexed.flatMap fun (k, d) => cloneBody dw k d)).ty cx Γ) .self_ := by
  unfold cloneSignature
  split
  · exact Fits.of_eq (by simp [Expr.ty, vSelf, hs])
  · rename_i hsc
    split
    · exact Fits.of_eq (by simp [Expr.ty, vSelf, hs, Stmt.checks, Stmt.check])
    · rename_i hu
      refine match_fits cx Γ _ _ (.ref .self_) _ (by simp [Expr.ty, vSelf, hs]) ?_
        (Arm.tys_flatMap cx Γ _ _ _ _ fun x hx => cloneBody_ty cx Γ dw x.1 x.2 (Item.indexed_mem' cx.it x hx))
      exact exh_indexed cx.it _ (by simp [isSelfRef]) _ fun x hx =>
        cloneBody_covers dw x.1 x.2 (by simpa using hsc)
          (hnu (by simpa using hu) x.2 (List.mem_of_getElem? (Item.indexed_mem' cx.it x hx)))

/-! ## `Debug` -/

theorem debugBody_ty (cx : TyCx) (Γ : TEnv) (k : Nat) (d : Data) (hd : cx.it.variants[k]? = some d)
    (hf : Γ.lookup .f = some (.refMut .formatter)) :
    Fits (Arm.tys cx Γ (.ref .self_) (debugBody k d)) .fmtResult := by
  unfold debugBody
  simp only
  have hfl : ∀ Γ0 : TEnv, (ctorBindTys .self_ false k d.fields.length ++ Γ).lookup .f = some (.refMut .formatter) :=
    fun _ => by rw [self_pass false k _ Γ .f (by simp)]; exact hf
  split
  · -- named
    refine Arm.tys_cons cx Γ _ _ _ _ _ _ _ (bindTy_ctor cx.it k d hd .self_) ?_ (Arm.tys_nil ..)
    refine block_fits cx _ ((.builder, .builderS) :: (ctorBindTys .self_ false k d.fields.length ++ Γ)) _ _ _ ?_ ?_
    · rw [Stmt.checks_append]
      have h1 : Stmt.checks cx (ctorBindTys .self_ false k d.fields.length ++ Γ)
          [.let_ (.bind .mut_ .builder) (.call .debugStruct [.var .f, .litStr (.dataName k)])] =
          some ((.builder, .builderS) :: (ctorBindTys .self_ false k d.fields.length ++ Γ)) := by
        simp [Stmt.checks, Stmt.check, Expr.ty, Expr.tys, hfl [], applyFnTy, Pat.bindTy, Pat.total]
      rw [h1]
      simp only [Option.bind]
      apply Stmt.checks_same
      intro s hs
      obtain ⟨p, hp, rfl⟩ := List.mem_map.mp hs
      have hi := iterFields_lt d _ p hp
      have hl : ((Var.builder, Ty.builderS) :: (ctorBindTys .self_ false k d.fields.length ++ Γ)).lookup
          (.selfField k p.1) = some (.ref (.field k p.1)) := by
        rw [List.lookup_cons, show (Var.selfField k p.1 == Var.builder) = false from by simp]
        simpa using self_lookup false k _ p.1 Γ hi
      simp [Stmt.check, Expr.ty, Expr.tys, hl, applyFnTy]
    · apply Fits.of_eq
      split <;> simp [Expr.ty, Expr.tys, applyFnTy]
  · -- tuple
    refine Arm.tys_cons cx Γ _ _ _ _ _ _ _ (bindTy_ctor cx.it k d hd .self_) ?_ (Arm.tys_nil ..)
    refine block_fits cx _ ((.builder, .builderT) :: (ctorBindTys .self_ false k d.fields.length ++ Γ)) _ _ _ ?_ ?_
    · rw [Stmt.checks_append]
      have h1 : Stmt.checks cx (ctorBindTys .self_ false k d.fields.length ++ Γ)
          [.let_ (.bind .mut_ .builder) (.call .debugTuple [.var .f, .litStr (.dataName k)])] =
          some ((.builder, .builderT) :: (ctorBindTys .self_ false k d.fields.length ++ Γ)) := by
        simp [Stmt.checks, Stmt.check, Expr.ty, Expr.tys, hfl [], applyFnTy, Pat.bindTy, Pat.total]
      rw [h1]
      simp only [Option.bind]
      apply Stmt.checks_same
      intro s hs
      obtain ⟨p, hp, rfl⟩ := List.mem_map.mp hs
      have hi := iterFields_lt d _ p hp
      have hl : ((Var.builder, Ty.builderT) :: (ctorBindTys .self_ false k d.fields.length ++ Γ)).lookup
          (.selfField k p.1) = some (.ref (.field k p.1)) := by
        rw [List.lookup_cons, show (Var.selfField k p.1 == Var.builder) = false from by simp]
        simpa using self_lookup false k _ p.1 Γ hi
      simp [Stmt.check, Expr.ty, Expr.tys, hl, applyFnTy]
    · exact Fits.of_eq (by simp [Expr.ty, Expr.tys, applyFnTy])
  · refine Arm.tys_cons cx Γ _ _ _ _ _ _ _ (bindTy_ctor cx.it k d hd .self_) (Fits.of_eq ?_) (Arm.tys_nil ..)
    simp [Expr.ty, Expr.tys, hfl [], applyFnTy]
  · exact Arm.tys_nil ..

/-! ## `Hash` -/

theorem hashBody_ty (cx : TyCx) (Γ : TEnv) (k : Nat) (d : Data) (hd : cx.it.variants[k]? = some d)
    (hs : Γ.lookup .self_ = some (.ref .self_)) (hst : Γ.lookup .state = some (.refMut .hasher)) :
    Fits (Arm.tys cx Γ (.ref .self_) (hashBody k d)) .unit := by
  unfold hashBody
  simp only
  have hsl : (ctorBindTys .self_ false k d.fields.length ++ Γ).lookup .self_ = some (.ref .self_) := by
    rw [self_pass false k _ Γ .self_ (by simp)]; exact hs
  have hstl : (ctorBindTys .self_ false k d.fields.length ++ Γ).lookup .state = some (.refMut .hasher) := by
    rw [self_pass false k _ Γ .state (by simp)]; exact hst
  have hdisc : ∀ s ∈ (if d.isVariant then
      [Stmt.semi (.call (.traitFn .hash) [.ref (.call .memDiscriminant [vSelf]), .var .state])] else []),
      s.check cx (ctorBindTys .self_ false k d.fields.length ++ Γ) =
        some (ctorBindTys .self_ false k d.fields.length ++ Γ) := by
    intro s hs'
    split at hs'
    · simp only [List.mem_singleton] at hs'
      subst hs'
      simp [Stmt.check, Expr.ty, Expr.tys, vSelf, hsl, hstl, applyFnTy]
    · simp at hs'
  split
  · refine Arm.tys_cons cx Γ _ _ _ _ _ _ _ (bindTy_ctor cx.it k d hd .self_) ?_ (Arm.tys_nil ..)
    refine block_fits cx _ _ _ _ _ (Stmt.checks_same cx _ _ ?_) (Fits.of_eq (by simp [Expr.ty]))
    intro s hs'
    rcases List.mem_append.mp hs' with h | h
    · exact hdisc s h
    · obtain ⟨p, hp, rfl⟩ := List.mem_map.mp h
      simp [Stmt.check, Expr.ty, Expr.tys, self_lookup false k _ p.1 Γ (iterFields_lt d _ p hp), hstl, applyFnTy]
  · refine Arm.tys_cons cx Γ _ _ _ _ _ _ _ (bindTy_ctor cx.it k d hd .self_) ?_ (Arm.tys_nil ..)
    refine block_fits cx _ _ _ _ _ (Stmt.checks_same cx _ _ ?_) (Fits.of_eq (by simp [Expr.ty]))
    intro s hs'
    rcases List.mem_append.mp hs' with h | h
    · exact hdisc s h
    · obtain ⟨p, hp, rfl⟩ := List.mem_map.mp h
      simp [Stmt.check, Expr.ty, Expr.tys, self_lookup false k _ p.1 Γ (iterFields_lt d _ p hp), hstl, applyFnTy]
  · refine Arm.tys_cons cx Γ _ _ _ _ _ _ _ (bindTy_ctor cx.it k d hd .self_) ?_ (Arm.tys_nil ..)
    exact block_fits cx _ _ _ _ _ (Stmt.checks_same cx _ _ hdisc) (Fits.of_eq (by simp [Expr.ty]))
  · exact Arm.tys_nil ..

/-! ## `Default` -/

theorem defaultBody_ty (cx : TyCx) (Γ : TEnv) (k : Nat) (d : Data) (hd : cx.it.variants[k]? = some d)
    (hdef : d.isDefault = true) (hu : d.shape ≠ .union) :
    ∃ e, defaultBody k d = [e] ∧ e.ty cx Γ = some .self_ := by
  unfold defaultBody
  simp only [hdef, if_true]
  have hdc : ∀ i, i < d.fields.length → (Expr.defaultCall k i).ty cx Γ = some (.field k i) := by
    intro i hi; simp [Expr.ty, hd, hi]
  cases hsh : d.shape with
  | union => exact absurd hsh hu
  | unit => exact ⟨_, rfl, by simp [Expr.ty, hd, hsh]⟩
  | named =>
    refine ⟨_, rfl, ?_⟩
    have hm := iterFields_unskippable d .default (Or.inr (Or.inr rfl)) (fun i => FieldInit.mk i (.defaultCall k i))
    have hchk := FieldInit.check_range cx Γ k (fun i => .defaultCall k i) 0 d.fields.length
      (fun i _ h2 => hdc i (by omega))
    simp only [Expr.ty, hd, hsh]
    rw [show (List.map (fun x => match x with | (i, _) => FieldInit.mk i (.defaultCall k i))
        (d.iterFields .default)) = (d.iterFields .default).map (fun p => FieldInit.mk p.1 (.defaultCall k p.1)) from rfl,
      hm]
    simp [hchk]
  | tuple =>
    refine ⟨_, rfl, ?_⟩
    have hm := iterFields_unskippable d .default (Or.inr (Or.inr rfl)) (fun i => Expr.defaultCall k i)
    have htys := Expr.tys_map cx Γ (List.range' 0 d.fields.length) (fun i => Expr.defaultCall k i) (Ty.field k)
      (fun i hi => hdc i (by simp [List.mem_range'_1] at hi; omega))
    simp only [Expr.ty]
    rw [show (List.map (fun x => match x with | (i, _) => Expr.defaultCall k i) (d.iterFields .default)) =
        (d.iterFields .default).map (fun p => Expr.defaultCall k p.1) from rfl, hm, htys]
    simp [applyFnTy, hd, hsh, List.range_eq_range']

/-! ## `Zeroize`, `ZeroizeOnDrop` -/

theorem emptyArm_ty (cx : TyCx) (Γ : TEnv) (k : Nat) (d : Data) (hd : cx.it.variants[k]? = some d) :
    Fits (Arm.tys cx Γ (.refMut .self_) [Arm.mk (.ctor k .self_ false) (.block [] .unit) false]) .unit :=
  Arm.tys_cons cx Γ _ _ _ _ _ _ _ (bindTy_ctor_mutref cx.it k d hd .self_ false)
    (Fits.of_eq (by simp [Expr.ty, Stmt.checks])) (Arm.tys_nil ..)

theorem zeroizeBody_ty (cx : TyCx) (Γ : TEnv) (k : Nat) (d : Data) (hd : cx.it.variants[k]? = some d) :
    Fits (Arm.tys cx Γ (.refMut .self_) (zeroizeBody k d)) .unit := by
  unfold zeroizeBody
  have harm : Fits (Arm.tys cx Γ (.refMut .self_) [Arm.mk (.ctor k .self_ true)
      (.block ((d.iterFields .zeroize).map fun (i, f) =>
          if f.fqs then Stmt.semi (.call (.traitFn .zeroize) [.var (.selfField k i)])
          else .semi (.methodCall (.var (.selfField k i)) .zeroize)) .unit) false]) .unit := by
    refine Arm.tys_cons cx Γ _ _ _ _ _ _ _ (bindTy_ctor_mutref cx.it k d hd .self_ true) ?_ (Arm.tys_nil ..)
    refine block_fits cx _ _ _ _ _ (Stmt.checks_same cx _ _ ?_) (Fits.of_eq (by simp [Expr.ty]))
    intro s hs'
    obtain ⟨p, hp, rfl⟩ := List.mem_map.mp hs'
    have hl := self_lookup true k _ p.1 Γ (iterFields_lt d _ p hp)
    simp only at hl ⊢
    split <;> simp [Stmt.check, Expr.ty, Expr.tys, hl, applyFnTy]
  split
  · exact emptyArm_ty cx Γ k d hd
  · split
    · exact harm
    · exact harm
    · exact Arm.tys_nil ..

theorem zodArms_ty (cx : TyCx) (Γ : TEnv) (k : Nat) (d : Data) (hd : cx.it.variants[k]? = some d) :
    Fits (Arm.tys cx Γ (.refMut .self_) (zodArms k d)) .unit := by
  unfold zodArms
  have harm : Fits (Arm.tys cx Γ (.refMut .self_) [Arm.mk (.ctor k .self_ true)
      (.block ((d.iterFields .zeroizeOnDrop).map fun (i, _) =>
          Stmt.semi (.methodCall (.var (.selfField k i)) .zeroizeOrOnDrop)) .unit) false]) .unit := by
    refine Arm.tys_cons cx Γ _ _ _ _ _ _ _ (bindTy_ctor_mutref cx.it k d hd .self_ true) ?_ (Arm.tys_nil ..)
    refine block_fits cx _ _ _ _ _ (Stmt.checks_same cx _ _ ?_) (Fits.of_eq (by simp [Expr.ty]))
    intro s hs'
    obtain ⟨p, hp, rfl⟩ := List.mem_map.mp hs'
    have hl := self_lookup true k _ p.1 Γ (iterFields_lt d _ p hp)
    simp only at hl ⊢
    simp [Stmt.check, Expr.ty, hl]
  split
  · exact emptyArm_ty cx Γ k d hd
  · split
    · exact harm
    · exact harm
    · exact Arm.tys_nil ..

theorem zeroizeBody_covers (k : Nat) (d : Data) (hwf : d.WF) (hnu : d.shape ≠ .union) :
    ∃ a ∈ zeroizeBody k d, a.pat.coversVariant k = true := by
  unfold zeroizeBody
  split
  · exact ⟨_, List.mem_cons_self .., by simp [Arm.pat, Pat.coversVariant]⟩
  · rename_i hne
    rcases shape_of_nonempty' d .zeroize hwf hnu (by simpa using hne) with h | h <;> simp only [h] <;>
      exact ⟨_, List.mem_cons_self .., by simp [Arm.pat, Pat.coversVariant]⟩

theorem zodArms_covers (k : Nat) (d : Data) (hwf : d.WF) (hnu : d.shape ≠ .union) :
    ∃ a ∈ zodArms k d, a.pat.coversVariant k = true := by
  unfold zodArms
  split
  · exact ⟨_, List.mem_cons_self .., by simp [Arm.pat, Pat.coversVariant]⟩
  · rename_i hne
    rcases shape_of_nonempty' d .zeroizeOnDrop hwf hnu (by simpa using hne) with h | h <;> simp only [h] <;>
      exact ⟨_, List.mem_cons_self .., by simp [Arm.pat, Pat.coversVariant]⟩

theorem zeroizeSignature_ty (cx : TyCx) (Γ : TEnv) (hs : Γ.lookup .self_ = some (.refMut .self_))
    (hwf : cx.it.WF) (hnu : ∀ d ∈ cx.it.variants, d.shape ≠ .union) :
    Fits ((zeroizeSignature cx.it (cx.it.indexed.flatMap fun (k, d) => zeroizeBody k d)).ty cx Γ) .unit := by
  have hmem : ∀ x ∈ cx.it.indexed, x.2 ∈ cx.it.variants := fun x hx =>
    List.mem_of_getElem? (Item.indexed_mem' cx.it x hx)
  have hgen : Fits ((Expr.block [.useTrait] (.match_ vSelf (cx.it.indexed.flatMap fun (k, d) => zeroizeBody k d))).ty
      cx Γ) .unit :=
    block_fits cx Γ Γ _ _ _ (by simp [Stmt.checks, Stmt.check])
      (match_fits cx Γ _ _ (.refMut .self_) _ (by simp [Expr.ty, vSelf, hs])
        (exh_indexed cx.it _ (by simp [isSelfRef]) _ fun x hx =>
          zeroizeBody_covers x.1 x.2 (hwf x.2 (hmem x hx)) (hnu x.2 (hmem x hx)))
        (Arm.tys_flatMap cx Γ _ _ _ _ fun x hx => zeroizeBody_ty cx Γ x.1 x.2 (Item.indexed_mem' cx.it x hx)))
  unfold zeroizeSignature
  split
  · split
    · exact Fits.of_eq (by simp [Expr.ty, Stmt.checks])
    · exact hgen
  · exact hgen

theorem zodSignature_ty (c : Cfg) (cx : TyCx) (Γ : TEnv) (hs : Γ.lookup .self_ = some (.refMut .self_))
    (hwf : cx.it.WF) (hnu : ∀ d ∈ cx.it.variants, d.shape ≠ .union) :
    Fits ((zodSignature c cx.it).ty cx Γ) .unit := by
  have hmem : ∀ x ∈ cx.it.indexed, x.2 ∈ cx.it.variants := fun x hx =>
    List.mem_of_getElem? (Item.indexed_mem' cx.it x hx)
  have hgen : Fits ((if c.zod then Expr.block [.useAsserts]
        (.match_ vSelf (cx.it.indexed.flatMap fun (k, d) => zodArms k d))
      else .block (cx.it.variants.flatMap zodStmts) .unit).ty cx Γ) .unit := by
    split
    · exact block_fits cx Γ Γ _ _ _ (by simp [Stmt.checks, Stmt.check])
        (match_fits cx Γ _ _ (.refMut .self_) _ (by simp [Expr.ty, vSelf, hs])
          (exh_indexed cx.it _ (by simp [isSelfRef]) _ fun x hx =>
            zodArms_covers x.1 x.2 (hwf x.2 (hmem x hx)) (hnu x.2 (hmem x hx)))
          (Arm.tys_flatMap cx Γ _ _ _ _ fun x hx => zodArms_ty cx Γ x.1 x.2 (Item.indexed_mem' cx.it x hx)))
    · refine block_fits cx Γ Γ _ _ _ (Stmt.checks_flatMap_same cx Γ _ _ ?_) (Fits.of_eq (by simp [Expr.ty]))
      intro d _ s hs'
      unfold zodStmts at hs'
      split at hs'
      · simp at hs'
      · split at hs' <;> simp at hs' <;> subst hs' <;>
          simp [Stmt.check, Expr.ty, Expr.tys, vSelf, hs, selfCallTy]
  unfold zodSignature
  simp only
  split
  · split
    · exact Fits.of_eq (by simp [Expr.ty, Stmt.checks])
    · exact hgen
  · exact hgen

/-! ## `PartialOrd`, `Ord` -/

/-- Return type of `partial_cmp` / `cmp`. -/
def ordTy (t : Trait) : Ty := if t == .partialOrd then .optOrdering else .ordering

abbrev pairTy : Ty := .pair (.ref .self_) (.ref .self_)

theorem join_self (a : Ty) : a.join a = some a := by unfold Ty.join; split <;> simp_all
theorem join_never (a : Ty) : a.join .never = some a := by unfold Ty.join; split <;> simp_all

theorem equalExpr_ty (cx : TyCx) (Γ : TEnv) (t : Trait) : (equalExpr t).ty cx Γ = some (ordTy t) := by
  unfold equalExpr ordTy; split <;> simp [Expr.ty, Expr.tys, applyFnTy]

theorem equalPat_bind (it : Item) (t : Trait) : (equalPat t).bindTy it (ordTy t) = some [] := by
  unfold equalPat ordTy; split <;> simp [Pat.bindTy]

theorem ordFn_field (it : Item) (t : Trait) (k i : Nat) :
    applyFnTy it (.traitFn (ordFn t)) [.ref (.field k i), .ref (.field k i)] = some (ordTy t) := by
  unfold ordFn ordTy; split <;> simp [applyFnTy]

theorem ordFn_int (it : Item) (t : Trait) :
    applyFnTy it (.traitFn (ordFn t)) [.ref .int, .ref .int] = some (ordTy t) := by
  unfold ordFn ordTy; split <;> simp [applyFnTy]

theorem ordBody_ty (cx : TyCx) (Γ : TEnv) (t : Trait) (k : Nat) (d : Data)
    (h : ∀ p ∈ d.iterFields t, Γ.lookup (.selfField k p.1) = some (.ref (.field k p.1)) ∧
      Γ.lookup (.otherField k p.1) = some (.ref (.field k p.1))) :
    (ordBody t k d).ty cx Γ = some (ordTy t) := by
  unfold ordBody
  revert h
  induction d.iterFields t with
  | nil => intro _; simpa using equalExpr_ty cx Γ t
  | cons p fs ih =>
    intro h
    obtain ⟨i, f⟩ := p
    have hp := h (i, f) (by simp)
    simp only at hp
    have ih' := ih fun q hq => h q (by simp [hq])
    simp only [List.foldr_cons]
    have hex : ∀ (e1 e2 : Expr) (τ : Ty), Arms.exhaustive cx.it τ
        [Arm.mk (equalPat t) e1 true, Arm.mk (.bind .move_ .cmp) e2 true] = true := by
      intro e1 e2 τ
      exact exh_of_total cx.it τ _ (Arm.mk (.bind .move_ .cmp) e2 true) (by simp) (by simp [Arm.pat, Pat.total])
    simp only [Expr.ty, Expr.tys, hp.1, hp.2, Option.bind, ordFn_field, hex, if_true, Arm.tys, equalPat_bind, Pat.bindTy,
      List.nil_append, ih', List.singleton_append, List.lookup_cons, beq_self_eq_true, join_never, join_self]

theorem ordArm_ty (cx : TyCx) (Γ : TEnv) (t : Trait) (k : Nat) (d : Data) (hd : cx.it.variants[k]? = some d) :
    Fits (Arm.tys cx Γ pairTy [Arm.mk (pairPat k) (ordBody t k d) true]) (ordTy t) :=
  Arm.tys_cons cx Γ _ _ _ _ _ _ _ (bindTy_pairPat cx.it k d hd)
    (Fits.of_eq (ordBody_ty cx _ t k d fun p hp => pair_lookup k _ p.1 Γ (iterFields_lt d _ p hp))) (Arm.tys_nil ..)

theorem ordArms_ty (cx : TyCx) (Γ : TEnv) (k : Nat) (d : Data) (hd : cx.it.variants[k]? = some d) :
    Fits (Arm.tys cx Γ pairTy (ordArms k d)) (ordTy .ord) := by
  unfold ordArms
  split
  · exact Arm.tys_nil ..
  · split
    · exact ordArm_ty cx Γ .ord k d hd
    · exact ordArm_ty cx Γ .ord k d hd
    · exact Arm.tys_nil ..

theorem partialOrdBody_ty (cx : TyCx) (Γ : TEnv) (dw : DeriveWhere) (k : Nat) (d : Data)
    (hd : cx.it.variants[k]? = some d) : Fits (Arm.tys cx Γ pairTy (partialOrdBody dw k d)) (ordTy .partialOrd) := by
  unfold partialOrdBody
  split
  · exact Arm.tys_nil ..
  · split
    · exact ordArm_ty cx Γ .partialOrd k d hd
    · exact ordArm_ty cx Γ .partialOrd k d hd
    · exact Arm.tys_nil ..

theorem matchesEither_ty (cx : TyCx) (Γ : TEnv) (p : Pat) (hs : SelfOther Γ)
    (hp : p.bindTy cx.it (.ref .self_) = some []) : (matchesEither p).ty cx Γ = some .bool := by
  simp [matchesEither, Expr.ty, vSelf, vOther, hs.s, hs.o, hp, binopTy]

theorem ordIncStmts_checks (cx : TyCx) (Γ : TEnv) (vs : List Data) (hvs : cx.it.variants = vs) (hs : SelfOther Γ)
    (hret : incomparablePattern vs ≠ none → cx.ret = .optOrdering) :
    Stmt.checks cx Γ (ordIncStmts vs) = some Γ := by
  unfold ordIncStmts
  split
  · rename_i p hp
    have hb := incomparablePattern_bindTy cx.it p (.ref .self_) (by simp [isSelfRef]) (hvs ▸ hp)
    simp [Stmt.checks, Stmt.check, matchesEither_ty cx Γ p hs hb, Expr.ty, hret (by simp [hp]), Ty.fits]
  · simp [Stmt.checks]

/-- The environment after `let __self_disc = ..; let __other_disc = ..;`. -/
def ΓD (τ : Ty) (Γ : TEnv) : TEnv := (Var.otherDisc, τ) :: (Var.selfDisc, τ) :: Γ

theorem var_ne1 : (Var.self_ == Var.otherDisc) = false := by decide
theorem var_ne2 : (Var.self_ == Var.selfDisc) = false := by decide
theorem var_ne3 : (Var.other == Var.otherDisc) = false := by decide
theorem var_ne4 : (Var.other == Var.selfDisc) = false := by decide
theorem var_ne5 : (Var.selfDisc == Var.otherDisc) = false := by decide
theorem var_ne6 : (Var.other == Var.self_) = false := by decide

theorem SelfOther.disc {Γ : TEnv} (h : SelfOther Γ) (τ : Ty) : SelfOther (ΓD τ Γ) :=
  ⟨by simp [ΓD, List.lookup_cons, h.s, var_ne1, var_ne2], by simp [ΓD, List.lookup_cons, h.o, var_ne3, var_ne4]⟩

theorem letDiscs_checks (cx : TyCx) (Γ : TEnv) (f : Fn) (τ : Ty) (hs : SelfOther Γ)
    (hf : applyFnTy cx.it f [.ref .self_] = some τ) : Stmt.checks cx Γ (letDiscs f) = some (ΓD τ Γ) := by
  simp [letDiscs, Stmt.checks, Stmt.check, Expr.ty, Expr.tys, vSelf, vOther, hs.s, hs.o, hf, Pat.bindTy, Pat.total, ΓD,
    List.lookup_cons, var_ne4]

theorem discsEqual_ty (cx : TyCx) (Γ : TEnv) (τ : Ty) (hτ : τ = .int ∨ τ = .memDisc) :
    discsEqual.ty cx (ΓD τ Γ) = some .bool := by
  rcases hτ with rfl | rfl <;> simp [discsEqual, Expr.ty, ΓD, List.lookup_cons, binopTy, var_ne5]

theorem ordBodyEqual_ty (c : Cfg) (cx : TyCx) (Γ : TEnv) (vs : List Data) (t : Trait) (arms : List Arm)
    (hs : SelfOther Γ) (harms : Fits (Arm.tys cx Γ pairTy arms) (ordTy t)) (be : Expr)
    (h : ordBodyEqual c cx.it vs t arms = some be) : Fits (be.ty cx Γ) (ordTy t) := by
  unfold ordBodyEqual at h
  split at h
  · cases h
  · split at h
    · cases h
      refine match_fits cx Γ _ _ _ _ (tupleSO_ty cx Γ hs) (exh_append_wild ..) (Arm.tys_append cx Γ _ _ _ _ harms ?_)
      exact Arm.tys_cons cx Γ pairTy _ .wild _ true [] [] (by simp [Pat.bindTy])
        (Fits.of_eq (equalExpr_ty cx _ t)) (Arm.tys_nil ..)
    · cases h
      refine match_fits cx Γ _ _ _ _ (tupleSO_ty cx Γ hs) (exh_append_wild ..) (Arm.tys_append cx Γ _ _ _ _ harms ?_)
      exact Arm.tys_cons cx Γ pairTy _ .wild _ true [] [] (by simp [Pat.bindTy])
        (Fits.never (unreachableRest_ty c cx _)) (Arm.tys_nil ..)

/-! ### Discriminant expressions -/

/-- Closed integer expressions type in every environment. -/
def ClosedInt (cx : TyCx) (e : Expr) : Prop := ∀ Γ, e.ty cx Γ = some .int

theorem buildDiscriminantsGo_ty (cx : TyCx) (rest : List Data) :
    ∀ (pre : List Data) (k : Nat) (st : DiscState) (acc : List Expr),
      cx.it.variants = pre ++ rest → k = pre.length →
      (∀ e ∈ acc, ClosedInt cx e) → (∀ idx n, st = some (some idx, n) → idx < acc.length) →
      ∀ e ∈ buildDiscriminantsGo rest k st acc, ClosedInt cx e := by
  induction rest with
  | nil => intro pre k st acc _ _ hacc _ e he; simp only [buildDiscriminantsGo] at he; exact hacc e he
  | cons v rest ih =>
    intro pre k st acc hv hk hacc hst
    have hvk : cx.it.variants[k]? = some v := by simp [hv, hk]
    have hv' : cx.it.variants = (pre ++ [v]) ++ rest := by simp [hv]
    have hk' : k + 1 = (pre ++ [v]).length := by simp [hk]
    simp only [buildDiscriminantsGo]
    split
    · rename_i dx hdx
      refine ih (pre ++ [v]) (k + 1) _ _ hv' hk' ?_ ?_
      · intro e he
        rcases List.mem_append.mp he with h | h
        · exact hacc e h
        · simp only [List.mem_singleton] at h; subst h
          intro Γ; simp [Expr.ty, hvk, hdx]
      · intro idx n h; cases h; simp
    · split
      · rename_i idx counter
        have hidx := hst idx counter rfl
        refine ih (pre ++ [v]) (k + 1) _ _ hv' hk' ?_ ?_
        · intro e he
          rcases List.mem_append.mp he with h | h
          · exact hacc e h
          · simp only [List.mem_singleton] at h; subst h
            intro Γ
            have hg : acc.getD idx .unit ∈ acc := by
              rw [List.getD_eq_getElem?_getD, List.getElem?_eq_getElem hidx]; simp
            have hg' := hacc _ hg Γ
            simp only [List.getD_eq_getElem?_getD] at hg'
            simp [Expr.ty, hg', binopTy]
        · intro idx' n h; cases h; simp; omega
      · refine ih (pre ++ [v]) (k + 1) _ _ hv' hk' ?_ ?_
        · intro e he
          rcases List.mem_append.mp he with h | h
          · exact hacc e h
          · simp only [List.mem_singleton] at h; subst h; intro Γ; simp [Expr.ty]
        · intro idx' n h; cases h
      · refine ih (pre ++ [v]) (k + 1) _ _ hv' hk' ?_ ?_
        · intro e he
          rcases List.mem_append.mp he with h | h
          · exact hacc e h
          · simp only [List.mem_singleton] at h; subst h; intro Γ; simp [Expr.ty]
        · intro idx' n h; cases h

theorem buildDiscriminants_ty (cx : TyCx) :
    ∀ e ∈ buildDiscriminants cx.it.variants, ClosedInt cx e :=
  buildDiscriminantsGo_ty cx cx.it.variants [] 0 none [] (by simp) rfl (by simp) (by intro _ _ h; cases h)

theorem validateDefs_checks (cx : TyCx) (Γ : TEnv) :
    Stmt.checks cx Γ ((buildDiscriminants cx.it.variants).zipIdx.map fun (d, k) => Stmt.validateDef k d) = some Γ := by
  apply Stmt.checks_same
  intro s hs
  obtain ⟨⟨d, k⟩, hm, rfl⟩ := List.mem_map.mp hs
  have hd : d ∈ buildDiscriminants cx.it.variants := (List.mem_zipIdx hm).2.2 ▸ List.getElem_mem _
  simp [Stmt.check, buildDiscriminants_ty cx d hd []]

theorem discArms_go_ty (cx : TyCx) (Γ : TEnv) (vld : Bool) (n : Nat) (ds : List Expr) (k0 : Nat)
    (hds : ∀ e ∈ ds, ClosedInt cx e) (hlen : k0 + ds.length ≤ cx.it.variants.length) :
    Fits (Arm.tys cx Γ (.ref .self_) ((ds.zipIdx k0).map fun (d, k) =>
      Arm.mk (.ctor k .self_ false) (if vld then .validateConst k d else d) (k + 1 != n))) .int := by
  induction ds generalizing k0 with
  | nil => exact Arm.tys_nil ..
  | cons d ds ih =>
    simp only [List.zipIdx_cons, List.map_cons]
    have hk : k0 < cx.it.variants.length := by simp at hlen; omega
    obtain ⟨dv, hdv⟩ : ∃ dv, cx.it.variants[k0]? = some dv := ⟨_, List.getElem?_eq_getElem hk⟩
    refine Arm.tys_cons cx Γ _ _ _ _ _ _ _ (bindTy_ctor cx.it k0 dv hdv .self_) (Fits.of_eq ?_)
      (ih (k0 + 1) (fun e he => hds e (by simp [he])) (by simp at hlen ⊢; omega))
    have := hds d (by simp)
    split
    · simp [Expr.ty, this []]
    · exact this _

theorem discBody_ty (cx : TyCx) (vld : Bool) :
    Fits ((Expr.match_ (.var .this) (discArms vld (buildDiscriminants cx.it.variants))).ty cx
      [(.this, .ref .self_)]) .int := by
  refine match_fits cx _ _ _ (.ref .self_) _ (by simp [Expr.ty]) ?_ ?_
  · -- one arm per variant
    simp only [Arms.exhaustive, Bool.or_eq_true, Bool.and_eq_true, List.all_eq_true, List.mem_range, List.any_eq_true]
    refine Or.inr ⟨by simp [isSelfRef], ?_⟩
    intro k hk
    have hk' : k < (buildDiscriminants cx.it.variants).length := by rw [buildDiscriminants_length]; exact hk
    unfold discArms
    exact ⟨_, List.mem_map.mpr ⟨((buildDiscriminants cx.it.variants)[k], k),
      List.mk_mem_zipIdx_iff_getElem?.mpr (List.getElem?_eq_getElem hk'), rfl⟩, by simp [Arm.pat, Pat.coversVariant]⟩
  · unfold discArms
    exact discArms_go_ty cx _ vld _ _ 0 (buildDiscriminants_ty cx) (by simp [buildDiscriminants_length])

/-- What the typing of `bodyElse` provides: its statements bind nothing and its tail has the ordering type. -/
def BlkOK (cx : TyCx) (t : Trait) (b : Blk) : Prop :=
  ∀ Γ, SelfOther Γ → Stmt.checks cx Γ b.stmts = some Γ ∧ Fits (b.tail.ty cx Γ) (ordTy t)

theorem discriminantComparison_ty (cx : TyCx) (t : Trait) (repr : Option IntTy) (validate : Option (List Stmt))
    (hv : ∀ l, validate = some l → Stmt.checks cx [] l = some []) :
    BlkOK cx t (discriminantComparison repr validate (buildDiscriminants cx.it.variants) (ordFn t)) := by
  intro Γ hs
  obtain ⟨tb, htb, hfb⟩ := discBody_ty cx validate.isSome
  have htb' : Arms.exhaustive cx.it (.ref .self_) (discArms validate.isSome (buildDiscriminants cx.it.variants)) = true ∧
      Arm.tys cx [(.this, .ref .self_)] (.ref .self_)
        (discArms validate.isSome (buildDiscriminants cx.it.variants)) = some tb := by simpa [Expr.ty] using htb
  have hval : Stmt.checks cx [] (validate.getD []) = some [] := by
    cases validate with
    | none => simp [Stmt.checks]
    | some l => simpa using hv l rfl
  constructor
  · simp [discriminantComparison, Stmt.checks, Stmt.check, hval, htb, hfb]
  · apply Fits.of_eq
    simp [discriminantComparison, discCall, Expr.ty, Expr.tys, hs.s, hs.o, htb'.1, htb'.2, hfb, ordFn_int]

theorem castCmp_ty (cx : TyCx) (t : Trait) (Γ : TEnv) (conv : Expr → Expr)
    (h1 : (conv vSelf).ty cx Γ = some .int) (h2 : (conv vOther).ty cx Γ = some .int) :
    (castCmp (ordFn t) conv).ty cx Γ = some (ordTy t) := by
  simp [castCmp, Expr.ty, Expr.tys, h1, h2, ordFn_int]

theorem ptrCmp_ty (cx : TyCx) (t : Trait) (Γ : TEnv) (r : IntTy) (hs : SelfOther Γ) :
    (ptrCmp (ordFn t) r).ty cx Γ = some (ordTy t) := by
  simp [ptrCmp, Expr.ty, Expr.tys, vSelf, vOther, hs.s, hs.o, ordFn_int]

theorem ordBodyElse_ty (c : Cfg) (cx : TyCx) (dw : DeriveWhere) (disc : Discriminant) (t : Trait)
    (hsingle : disc ≠ .single)
    (hfl : (disc = .unit ∨ ∃ r, disc = .unitRepr r) → cx.it.fieldless = true) :
    BlkOK cx t (ordBodyElse c dw disc cx.it.variants (ordFn t)) := by
  have hcopy : ∀ (r : IntTy) Γ, SelfOther Γ → cx.it.fieldless = true →
      (castCmp (ordFn t) fun e => .cast (.deref e) r).ty cx Γ = some (ordTy t) := by
    intro r Γ hs hf
    exact castCmp_ty cx t Γ _ (by simp [Expr.ty, vSelf, hs.s, hf]) (by simp [Expr.ty, vOther, hs.o, hf])
  have hclone : ∀ (r : IntTy) Γ, SelfOther Γ → cx.it.fieldless = true →
      (castCmp (ordFn t) fun e => .cast (.selfCall .clone [e]) r).ty cx Γ = some (ordTy t) := by
    intro r Γ hs hf
    exact castCmp_ty cx t Γ _ (by simp [Expr.ty, Expr.tys, vSelf, hs.s, hf, selfCallTy])
      (by simp [Expr.ty, Expr.tys, vOther, hs.o, hf, selfCallTy])
  unfold ordBodyElse
  cases disc with
  | single => exact absurd rfl hsingle
  | unit =>
    have hf := hfl (Or.inl rfl)
    simp only
    have hval : ∀ Γ, Stmt.checks cx Γ ((if cx.it.variants.any (·.discriminant.isSome) then
        some ((buildDiscriminants cx.it.variants).zipIdx.map fun (d, k) => Stmt.validateDef k d)
        else none).getD []) = some Γ := by
      intro Γ
      split
      · simpa using validateDefs_checks cx Γ
      · simp [Stmt.checks]
    split
    · intro Γ hs; exact ⟨hval Γ, Fits.of_eq (hcopy _ Γ hs hf)⟩
    · split
      · intro Γ hs; exact ⟨hval Γ, Fits.of_eq (hclone _ Γ hs hf)⟩
      · apply discriminantComparison_ty
        intro l hl
        split at hl
        · cases hl; exact validateDefs_checks cx []
        · cases hl
  | data => exact discriminantComparison_ty cx t none none (by intro l h; cases h)
  | unitRepr r =>
    have hf := hfl (Or.inr ⟨r, rfl⟩)
    simp only
    split
    · intro Γ hs; exact ⟨by simp [Stmt.checks], Fits.of_eq (hcopy r Γ hs hf)⟩
    · split
      · intro Γ hs; exact ⟨by simp [Stmt.checks], Fits.of_eq (hclone r Γ hs hf)⟩
      · split
        · exact discriminantComparison_ty cx t (some r) none (by intro l h; cases h)
        · intro Γ hs; exact ⟨by simp [Stmt.checks], Fits.of_eq (ptrCmp_ty cx t Γ r hs)⟩
  | dataRepr r =>
    simp only
    split
    · exact discriminantComparison_ty cx t (some r) none (by intro l h; cases h)
    · intro Γ hs; exact ⟨by simp [Stmt.checks], Fits.of_eq (ptrCmp_ty cx t Γ r hs)⟩


theorem dv_ty (it : Item) : applyFnTy it .discriminantValue [.ref .self_] = some .int := by simp [applyFnTy]

/-- `bodyEqual` is well-typed in every environment in which `self` and `__other` are in scope. -/
def BodyEqualOK (cx : TyCx) (t : Trait) (be : Option Expr) : Prop :=
  ∀ e, be = some e → ∀ Γ, SelfOther Γ → Fits (e.ty cx Γ) (ordTy t)

theorem ordNightly_ty (cx : TyCx) (Γ : TEnv) (t : Trait) (be : Option Expr) (hs : SelfOther Γ)
    (hret : incomparablePattern cx.it.variants ≠ none → cx.ret = .optOrdering) (hbe : BodyEqualOK cx t be) :
    Fits ((ordNightly cx.it.variants (ordFn t) be).ty cx Γ) (ordTy t) := by
  have hinc := ordIncStmts_checks cx Γ cx.it.variants rfl hs hret
  unfold ordNightly
  split
  · rename_i e
    refine block_fits cx Γ (ΓD .int Γ) _ _ _ ?_ ?_
    · rw [Stmt.checks_append, hinc]
      exact letDiscs_checks cx Γ _ .int hs (by simp [applyFnTy])
    · refine ifElse_fits cx _ _ _ _ _ (discsEqual_ty cx Γ .int (Or.inl rfl)) (hbe e rfl _ (hs.disc .int)) ?_
      exact Fits.of_eq (by simp [Expr.ty, Expr.tys, ΓD, List.lookup_cons, var_ne5, ordFn_int])
  · refine toExpr_ty cx Γ Γ _ _ hinc (Fits.of_eq ?_) (fun _ => rfl)
    simp [Expr.ty, Expr.tys, vSelf, vOther, hs.s, hs.o, dv_ty, ordFn_int]

theorem ordStable_ty (cx : TyCx) (Γ : TEnv) (t : Trait) (bodyElse : Blk) (be : Option Expr) (hs : SelfOther Γ)
    (hret : incomparablePattern cx.it.variants ≠ none → cx.ret = .optOrdering) (hbe : BodyEqualOK cx t be)
    (hbe2 : BlkOK cx t bodyElse) : Fits ((ordStable cx.it.variants bodyElse be).ty cx Γ) (ordTy t) := by
  have hinc := ordIncStmts_checks cx Γ cx.it.variants rfl hs hret
  unfold ordStable
  split
  · rename_i e
    refine block_fits cx Γ (ΓD .memDisc Γ) _ _ _ ?_ ?_
    · rw [Stmt.checks_append, hinc]
      exact letDiscs_checks cx Γ _ .memDisc hs (by simp [applyFnTy])
    · refine ifElse_fits cx _ _ _ _ _ (discsEqual_ty cx Γ .memDisc (Or.inr rfl)) (hbe e rfl _ (hs.disc .memDisc)) ?_
      obtain ⟨h1, h2⟩ := hbe2 _ (hs.disc .memDisc)
      exact toExpr_ty cx _ _ bodyElse _ h1 h2 (fun _ => rfl)
  · obtain ⟨h1, h2⟩ := hbe2 Γ hs
    refine toExpr_ty cx Γ Γ _ _ ?_ h2 (fun _ => rfl)
    show Stmt.checks cx Γ (ordIncStmts cx.it.variants ++ bodyElse.stmts) = some Γ
    rw [Stmt.checks_append, hinc]; exact h1

/-- With no incomparable variant there is no incomparable pattern and nothing is filtered out. -/
theorem incomparablePattern_none (vs : List Data) (h : ∀ d ∈ vs, d.incomparable = false) :
    incomparablePattern vs = none := by
  unfold incomparablePattern
  have : (vs.zipIdx.filter fun x => x.1.incomparable) = [] := by
    rw [List.filter_eq_nil_iff]
    intro x hx
    have := (List.mem_zipIdx hx).2.2
    simp [h x.1 (this ▸ List.getElem_mem _)]
  simp [this]

theorem ordSingleComparable_ty (cx : TyCx) (Γ : TEnv) (t : Trait) (comparable : Data) (be : Option Expr)
    (hs : SelfOther Γ) (ht : t = .partialOrd) (hbe : BodyEqualOK cx t be) :
    Fits ((ordSingleComparable t ((incomparablePattern cx.it.variants).getD .wild) comparable be).ty cx Γ)
      (ordTy t) := by
  have hp : ((incomparablePattern cx.it.variants).getD .wild).bindTy cx.it (.ref .self_) = some [] := by
    cases h : incomparablePattern cx.it.variants with
    | none => simp [Pat.bindTy]
    | some p => simpa using incomparablePattern_bindTy cx.it p (.ref .self_) (by simp [isSelfRef]) h
  unfold ordSingleComparable
  refine ifElse_fits cx Γ _ _ _ _ (matchesEither_ty cx Γ _ hs hp) (Fits.of_eq (by simp [Expr.ty, ordTy, ht])) ?_
  split
  · exact Fits.of_eq (equalExpr_ty cx Γ t)
  · cases be with
    | none => exact Fits.of_eq (by simpa using equalExpr_ty cx Γ t)
    | some e => simpa using hbe e rfl Γ hs

/-- The hypotheses under which the ordering code of an item is typeable. -/
structure OrdOK (c : Cfg) (cx : TyCx) (t : Trait) : Prop where
  ret : cx.ret = ordTy t
  /-- `Ord` is never derived next to an `incomparable` marker (validation, C15) -/
  noInc : t ≠ .partialOrd → cx.it.isIncomparable = false ∧ ∀ d ∈ cx.it.variants, d.incomparable = false
  /-- `Discriminant::Single` is only chosen for one variant (the generator's `unreachable!`, `genPanic`) -/
  single : ∀ id inc vs, cx.it = .enum_ .single id inc vs → c.nightly = false → cx.it.isIncomparable = false →
    vs.length > 1 → (vs.filter (!·.incomparable)).length = 1
  /-- `Unit`/`UnitRepr` are only chosen for field-less enums (`Discriminant::parse`) -/
  fieldless : ∀ disc id inc vs, cx.it = .enum_ disc id inc vs → (disc = .unit ∨ ∃ r, disc = .unitRepr r) →
    cx.it.fieldless = true
  wf : cx.it.WF
  noUnion : ∀ d ∈ cx.it.variants, d.shape ≠ .union

theorem ordArm_mem (t : Trait) (k : Nat) (d : Data) (hwf : d.WF) (hnu : d.shape ≠ .union) (hne : d.isEmpty t = false) :
    d.shape = .named ∨ d.shape = .tuple := shape_of_nonempty' d t hwf hnu hne

theorem ordArms_arm (k : Nat) (d : Data) (hwf : d.WF) (hnu : d.shape ≠ .union) (hne : d.isEmpty .ord = false) :
    ∃ e c, Arm.mk (pairPat k) e c ∈ ordArms k d := by
  unfold ordArms
  simp only [hne, Bool.false_eq_true, if_false]
  rcases shape_of_nonempty' d .ord hwf hnu hne with h | h <;> simp [h]

theorem partialOrdBody_arm (dw : DeriveWhere) (k : Nat) (d : Data) (hwf : d.WF) (hnu : d.shape ≠ .union)
    (hne : d.isEmpty .partialOrd = false) (hinc : d.incomparable = false)
    (hsc : (dw.shortcut && dw.contains .ord) = false) : ∃ e c, Arm.mk (pairPat k) e c ∈ partialOrdBody dw k d := by
  unfold partialOrdBody
  simp only [hne, hinc, hsc, Bool.or_self, Bool.false_eq_true, if_false]
  rcases shape_of_nonempty' d .partialOrd hwf hnu hne with h | h <;> simp [h]

theorem ordSignature_ty (c : Cfg) (cx : TyCx) (dw : DeriveWhere) (t : Trait) (arms : List Arm) (Γ : TEnv)
    (hs : SelfOther Γ) (hok : OrdOK c cx t) (harms : ∀ Γ, Fits (Arm.tys cx Γ pairTy arms) (ordTy t))
    (hexs : cx.it.variants.length ≤ 1 → cx.it.isIncomparable = false → cx.it.isEmpty t = false →
      Arms.exhaustive cx.it pairTy arms = true) :
    Fits ((ordSignature c cx.it dw t arms).ty cx Γ) (ordTy t) := by
  have hretP : incomparablePattern cx.it.variants ≠ none → cx.ret = .optOrdering := by
    intro hne
    by_cases ht : t = .partialOrd
    · simp [hok.ret, ordTy, ht]
    · exact absurd (incomparablePattern_none _ (hok.noInc ht).2) hne
  have hsingle : cx.it.variants.length ≤ 1 → cx.it.isIncomparable = false →
      Fits ((if cx.it.isEmpty t then equalExpr t else .match_ tupleSO arms).ty cx Γ) (ordTy t) := by
    intro hlen hninc
    split
    · exact Fits.of_eq (equalExpr_ty cx Γ t)
    · rename_i hne
      exact match_fits cx Γ _ _ _ _ (tupleSO_ty cx Γ hs) (hexs hlen hninc (by simpa using hne)) (harms Γ)
  unfold ordSignature
  split
  · rename_i hinc
    have ht : t = .partialOrd := by
      by_cases ht : t = .partialOrd
      · exact ht
      · have := (hok.noInc ht).1; simp [this] at hinc
    exact Fits.of_eq (by simp [Expr.ty, ordTy, ht])
  · rename_i hninc
    split
    · rename_i disc id inc vs hit
      have hvs : cx.it.variants = vs := by simp [hit, Item.variants]
      split
      · rename_i hlen
        -- `ordMulti`
        have hbe : BodyEqualOK cx t (ordBodyEqual c cx.it vs t arms) :=
          fun e he Γ' hs' => ordBodyEqual_ty c cx Γ' vs t arms hs' (harms Γ') e he
        unfold ordMulti
        simp only
        split
        · rename_i comparable hfil
          have ht : t = .partialOrd := by
            by_cases ht : t = .partialOrd
            · exact ht
            · exfalso
              have hall : vs.filter (!·.incomparable) = vs := by
                rw [List.filter_eq_self]
                intro d hd; simp [(hok.noInc ht).2 d (hvs ▸ hd)]
              rw [hall] at hfil
              rw [hfil] at hlen; simp at hlen
          have := ordSingleComparable_ty cx Γ t comparable (ordBodyEqual c cx.it vs t arms) hs ht hbe
          rw [hvs] at this; exact this
        · rename_i hnot
          split
          · have := ordNightly_ty cx Γ t (ordBodyEqual c cx.it vs t arms) hs hretP hbe
            rw [hvs] at this; exact this
          · rename_i hnn
            have hds : disc ≠ .single := by
              intro hd
              subst hd
              have := hok.single id inc vs hit (by simpa using hnn) (by simpa using hninc) hlen
              obtain ⟨x, hx⟩ := List.length_eq_one_iff.mp this
              exact hnot x hx
            have hbe2 := ordBodyElse_ty c cx dw disc t hds (hok.fieldless disc id inc vs hit)
            have := ordStable_ty cx Γ t _ (ordBodyEqual c cx.it vs t arms) hs hretP hbe hbe2
            rw [hvs] at this; exact this
      · rename_i hlen
        exact hsingle (by rw [hvs]; omega) (by simpa using hninc)
    · rename_i d hit
      exact hsingle (by simp [hit, Item.variants]) (by simpa using hninc)

theorem partialOrdSignature_ty (c : Cfg) (cx : TyCx) (dw : DeriveWhere) (Γ : TEnv)
    (hs : SelfOther Γ) (hok : OrdOK c cx .partialOrd) :
    Fits ((partialOrdSignature c cx.it dw (cx.it.indexed.flatMap fun (k, d) => partialOrdBody dw k d)).ty cx Γ)
      .optOrdering := by
  unfold partialOrdSignature
  split
  · exact Fits.of_eq (by simp [Expr.ty, Expr.tys, vSelf, vOther, hs.s, hs.o, selfCallTy, applyFnTy])
  · rename_i hsc
    exact ordSignature_ty c cx dw .partialOrd _ Γ hs hok (fun Γ' =>
      Arm.tys_flatMap cx Γ' _ _ _ _ fun x hx => partialOrdBody_ty cx Γ' dw x.1 x.2 (Item.indexed_mem' cx.it x hx))
      (fun hlen hninc hne => exh_single_pair cx.it .partialOrd (partialOrdBody dw) hlen hne fun d hv hde =>
        partialOrdBody_arm dw 0 d (hok.wf d (by simp [hv])) (hok.noUnion d (by simp [hv])) hde
          (single_not_incomparable cx.it d hv hninc) (by simpa using hsc))


/-! ## `generate_body` -/

theorem debugBody_covers (k : Nat) (d : Data) (hnu : d.shape ≠ .union) :
    ∃ a ∈ debugBody k d, a.pat.coversVariant k = true := by
  unfold debugBody
  simp only
  cases h : d.shape with
  | union => exact absurd h hnu
  | named => exact ⟨_, List.mem_cons_self .., by simp [Arm.pat, Pat.coversVariant]⟩
  | tuple => exact ⟨_, List.mem_cons_self .., by simp [Arm.pat, Pat.coversVariant]⟩
  | unit => exact ⟨_, List.mem_cons_self .., by simp [Arm.pat, Pat.coversVariant]⟩

theorem hashBody_covers (k : Nat) (d : Data) (hnu : d.shape ≠ .union) :
    ∃ a ∈ hashBody k d, a.pat.coversVariant k = true := by
  unfold hashBody
  simp only
  cases h : d.shape with
  | union => exact absurd h hnu
  | named => exact ⟨_, List.mem_cons_self .., by simp [Arm.pat, Pat.coversVariant]⟩
  | tuple => exact ⟨_, List.mem_cons_self .., by simp [Arm.pat, Pat.coversVariant]⟩
  | unit => exact ⟨_, List.mem_cons_self .., by simp [Arm.pat, Pat.coversVariant]⟩

/-- What the generators rely on (all of it established by validation, see `C02_well_typed`). -/
structure Typeable (c : Cfg) (it : Item) (dw : DeriveWhere) (t : Trait) : Prop where
  /-- `Ord` is never derived next to an `incomparable` marker -/
  ordNoInc : t = .ord → it.isIncomparable = false ∧ ∀ d ∈ it.variants, d.incomparable = false
  /-- `Discriminant::Single` only for one variant -/
  single : (t = .ord ∨ (t = .partialOrd ∧ (dw.shortcut && dw.contains .ord) = false)) →
    ∀ id inc vs, it = .enum_ .single id inc vs → c.nightly = false → it.isIncomparable = false →
      vs.length > 1 → (vs.filter (!·.incomparable)).length = 1
  /-- `Unit`/`UnitRepr` only for field-less enums -/
  fieldless : ∀ disc id inc vs, it = .enum_ disc id inc vs → (disc = .unit ∨ ∃ r, disc = .unitRepr r) →
    it.fieldless = true
  /-- `Default`: exactly one default variant (or a struct), not a union -/
  default1 : t = .default → ∃ (k : Nat) (d : Data), it.variants[k]? = some d ∧ d.isDefault = true ∧ d.shape ≠ .union ∧
    ∀ j d', j ≠ k → it.variants[j]? = some d' → d'.isDefault = false
  /-- unit shapes have no fields -/
  wf : it.WF
  /-- only a union item has the union shape … -/
  shapes : isUnion it = false → ∀ d ∈ it.variants, d.shape ≠ .union
  /-- … and a union only derives `Clone` and `Copy` -/
  unionTraits : isUnion it = true → t = .clone ∨ t = .copy

theorem wellTyped_of_fits (it : Item) (m : Method') (h : Fits (m.body.ty ⟨it, m.sig.ret⟩ m.sig.params) m.sig.ret) :
    m.wellTyped it = true := by
  obtain ⟨t, ht, hf⟩ := h
  simp [Method'.wellTyped, ht, hf]

theorem wellTyped_generateBody (c : Cfg) (it : Item) (dw : DeriveWhere) (t : Trait) (h : Typeable c it dw t) :
    ∀ m ∈ (generateBody c it dw t).toList, m.wellTyped it = true := by
  intro m hm
  have hso : SelfOther [(Var.self_, Ty.ref .self_), (Var.other, Ty.ref .self_)] :=
    ⟨by simp [List.lookup_cons], by simp +decide [List.lookup_cons]⟩
  -- apart from `Clone` / `Copy`, the item is no union
  have hnu : t ≠ .clone → t ≠ .copy → ∀ d ∈ it.variants, d.shape ≠ .union := by
    intro h1 h2
    cases hu : isUnion it
    · exact h.shapes hu
    · rcases h.unionTraits hu with h' | h' <;> contradiction
  have hmem : ∀ x ∈ it.indexed, x.2 ∈ it.variants := fun x hx => List.mem_of_getElem? (Item.indexed_mem' it x hx)
  cases t <;> simp only [generateBody, Option.toList, List.mem_singleton, List.not_mem_nil] at hm
  case clone =>
    subst hm
    exact wellTyped_of_fits it _ (cloneSignature_ty ⟨it, .self_⟩ _ dw (by simp [Sig.params, List.lookup_cons]) h.shapes)
  case debug =>
    subst hm
    have hnu' := hnu (by simp) (by simp)
    refine wellTyped_of_fits it _ (match_fits ⟨it, .fmtResult⟩ _ _ _ (.ref .self_) _
      (by simp [Expr.ty, vSelf, Sig.params, List.lookup_cons]) ?_ ?_)
    · exact exh_indexed it _ (by simp [isSelfRef]) _ fun x hx => debugBody_covers x.1 x.2 (hnu' x.2 (hmem x hx))
    · exact Arm.tys_flatMap _ _ _ _ _ _ fun x hx => debugBody_ty ⟨it, .fmtResult⟩ _ x.1 x.2
        (Item.indexed_mem' it x hx) (by simp +decide [Sig.params, List.lookup_cons])
  case default =>
    subst hm
    obtain ⟨k, d, hd, hdef, hu, hone⟩ := h.default1 rfl
    have hsel : (it.indexed.flatMap fun (k, d) => defaultBody k d) = defaultBody k d :=
      flatMap_indexed_select it (fun k d => defaultBody k d) k d hd
        (fun j d' hj hm => by simp [defaultBody, hone j d' hj hm])
    obtain ⟨e, he, hty⟩ := defaultBody_ty ⟨it, .self_⟩ [] k d hd hdef hu
    apply wellTyped_of_fits
    simp only [hsel, he]
    exact Fits.of_eq (by simpa [Expr.ty, Sig.params, Sig.ret] using hty)
  case eq =>
    subst hm
    apply wellTyped_of_fits
    refine block_fits ⟨it, .unit⟩ _ _ _ _ _ (Stmt.checks_same _ _ _ ?_) (Fits.of_eq (by simp [Expr.ty, Sig.ret]))
    intro s hs
    rcases List.mem_cons.mp hs with rfl | hs
    · simp [Stmt.check]
    · obtain ⟨x, hx, hsx⟩ := List.mem_flatMap.mp hs
      obtain ⟨p, hp, rfl⟩ := List.mem_map.mp hsx
      simp [Stmt.check, Item.indexed_mem' it x hx, iterFields_lt x.2 _ p hp]
  case hash =>
    subst hm
    have hnu' := hnu (by simp) (by simp)
    refine wellTyped_of_fits it _ (match_fits ⟨it, .unit⟩ _ _ _ (.ref .self_) _
      (by simp [Expr.ty, vSelf, Sig.params, List.lookup_cons]) ?_ ?_)
    · exact exh_indexed it _ (by simp [isSelfRef]) _ fun x hx => hashBody_covers x.1 x.2 (hnu' x.2 (hmem x hx))
    · exact Arm.tys_flatMap _ _ _ _ _ _ fun x hx => hashBody_ty ⟨it, .unit⟩ _ x.1 x.2
        (Item.indexed_mem' it x hx) (by simp [Sig.params, List.lookup_cons]) (by simp +decide [Sig.params, List.lookup_cons])
  case ord =>
    subst hm
    have hnu' := hnu (by simp) (by simp)
    have hok : OrdOK c ⟨it, .ordering⟩ .ord :=
      ⟨by simp [ordTy], fun _ => h.ordNoInc rfl, h.single (Or.inl rfl), h.fieldless, h.wf, hnu'⟩
    exact wellTyped_of_fits it _ (ordSignature_ty c ⟨it, .ordering⟩ dw .ord _ _ hso hok (fun Γ' =>
      Arm.tys_flatMap _ Γ' _ _ _ _ fun x hx => ordArms_ty ⟨it, .ordering⟩ Γ' x.1 x.2 (Item.indexed_mem' it x hx))
      (fun hlen _ hne => exh_single_pair it .ord ordArms hlen hne fun d hv hde =>
        ordArms_arm 0 d (h.wf d (by simp [hv])) (hnu' d (by simp [hv])) hde))
  case partialEq =>
    subst hm
    exact wellTyped_of_fits it _ (partialEqSignature_ty c ⟨it, .bool⟩ _ hso rfl h.wf (hnu (by simp) (by simp)))
  case partialOrd =>
    subst hm
    apply wellTyped_of_fits
    by_cases hsc : (dw.shortcut && dw.contains .ord) = true
    · simp only [partialOrdSignature, hsc, if_true]
      exact Fits.of_eq (by simp [Expr.ty, Expr.tys, vSelf, vOther, Sig.params, Sig.ret, List.lookup_cons, var_ne6, selfCallTy, applyFnTy])
    · have hok : OrdOK c ⟨it, .optOrdering⟩ .partialOrd :=
        ⟨by simp [ordTy], fun hne => absurd rfl hne, h.single (Or.inr ⟨rfl, by simpa using hsc⟩), h.fieldless, h.wf,
          hnu (by simp) (by simp)⟩
      exact partialOrdSignature_ty c ⟨it, .optOrdering⟩ dw _ hso hok
  case zeroize =>
    subst hm
    exact wellTyped_of_fits it _ (zeroizeSignature_ty ⟨it, .unit⟩ _ (by simp [Sig.params, List.lookup_cons]) h.wf
      (hnu (by simp) (by simp)))
  case zeroizeOnDrop =>
    subst hm
    exact wellTyped_of_fits it _ (zodSignature_ty c ⟨it, .unit⟩ _ (by simp [Sig.params, List.lookup_cons]) h.wf
      (hnu (by simp) (by simp)))

end DW
