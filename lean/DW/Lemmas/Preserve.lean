import DW.Typing
import DW.Spec
import DW.Lemmas.PartialEq

/-!
# The static and the dynamic semantics of the fragment agree (type preservation)

`DW/Typing.lean` assigns types, `DW/Sem.lean` computes values.  This file relates them: if an expression has type `τ`
in an environment whose values have the types the typing context assigns, then whatever the evaluator returns for it is
a value of type `τ` (and whatever it returns early through `return` is a value of the function's return type).  So the
typing rules are not an independent invention: they describe the values the evaluator of the refinement theorems
(`C03` … `C19`) manipulates.  References are erased by the evaluator, so `&T` has the values of `T`; a `ref mut`
binding of a field is a *place*.
-/

namespace DW

variable {α : Type}

/-- The values of a type. -/
def ValOK (it : Item) : Val α → Ty → Prop
  | v, .self_ => WfVal it v
  | v, .field _ _ => ∃ a, v = .leaf a
  | v, .ref t => ValOK it v t
  | v, .refMut (.field _ _) => ∃ j a, v = .place j (.leaf a)
  | v, .refMut t => ValOK it v t
  | v, .bool => ∃ b, v = .bool b
  | v, .ordering => ∃ o, v = .ord o
  | v, .optOrdering => ∃ o, v = .optOrd o
  | v, .int => ∃ n, v = .int n
  | v, .memDisc => ∃ k, v = .disc k
  | v, .unit => v = .unit
  | _, .never => False
  | v, .fmtResult => v = .unit
  | v, .formatter => v = .opaque
  | v, .builderS => v = .opaque
  | v, .builderT => v = .opaque
  | v, .str => ∃ s, v = .str s
  | v, .hasher => v = .opaque
  | v, .pair a b => ∃ x y, v = .tuple [x, y] ∧ ValOK it x a ∧ ValOK it y b

/-- Values of a list of types, position by position. -/
def ValsOK (it : Item) : List (Val α) → List Ty → Prop
  | [], [] => True
  | v :: vs, t :: ts => ValOK it v t ∧ ValsOK it vs ts
  | _, _ => False

/-- A value of a type that fits `τ` is a value of `τ` (`!` has no values). -/
theorem ValOK.of_fits {it : Item} {v : Val α} {t τ : Ty} (h : ValOK it v t) (hf : t.fits τ = true) : ValOK it v τ := by
  simp only [Ty.fits, Bool.or_eq_true, decide_eq_true_eq] at hf
  rcases hf with rfl | rfl
  · simp [ValOK] at h
  · exact h

theorem ValOK.of_join {it : Item} {v : Val α} {a b j : Ty} (hj : a.join b = some j)
    (h : ValOK it v a ∨ ValOK it v b) : ValOK it v j := by
  unfold Ty.join at hj
  split at hj
  · rename_i ha; cases hj; rcases h with h | h
    · subst ha; simp [ValOK] at h
    · exact h
  · split at hj
    · rename_i hb; cases hj; rcases h with h | h
      · exact h
      · subst hb; simp [ValOK] at h
    · split at hj
      · rename_i hab; cases hj; rcases h with h | h
        · exact h
        · exact hab ▸ h
      · cases hj

/-! ## Library calls -/

/-- The sibling impls return values of the types of their signatures. -/
structure ImplsOK (it : Item) (cx : SemCtx α) : Prop where
  clone : ∀ a v, cx.impls .clone [a] = some v → WfVal it a → WfVal it v
  cmp : ∀ a b v, cx.impls .cmp [a, b] = some v → ∃ o, v = .ord o
  zeroize : ∀ a v, cx.impls .zeroize [a] = some v → v = .unit

theorem valsOK_fields (it : Item) (k : Nat) (vs : List (Val α)) (l : List Nat)
    (h : ValsOK it vs (l.map (Ty.field k))) : vs.length = l.length ∧ ∀ v ∈ vs, ∃ a, v = .leaf a := by
  induction l generalizing vs with
  | nil => cases vs <;> simp_all [ValsOK]
  | cons i l ih =>
    cases vs with
    | nil => simp [ValsOK] at h
    | cons v vs =>
      simp only [List.map_cons, ValsOK, ValOK] at h
      obtain ⟨hl, hall⟩ := ih vs h.2
      refine ⟨by simp [hl], ?_⟩
      intro w hw
      rcases List.mem_cons.mp hw with rfl | hw
      · exact h.1
      · exact hall w hw

theorem applyFn_preserves (it : Item) (cx : SemCtx α) (f : Fn) (vs : List (Val α)) (ts : List Ty) (τ : Ty)
    (log : Log α) (v : Val α) (l : Log α)
    (hty : applyFnTy it f ts = some τ) (hvs : ValsOK it vs ts) (hev : applyFn cx f vs log = .ok (v, l)) :
    ValOK it v τ := by
  by_cases hc : ∃ k, f = .ctor k
  · obtain ⟨k, rfl⟩ := hc
    have hv : v = .adt k vs := by
      unfold applyFn at hev
      split at hev <;> simp_all
    subst hv
    unfold applyFnTy at hty
    simp only at hty
    split at hty
    · rename_i d hd
      split at hty
      · rename_i hsh
        cases hty
        obtain ⟨hl, hall⟩ := valsOK_fields it k vs _ (hsh.2 ▸ hvs)
        exact ⟨d, hd, by simpa using hl, hall⟩
      · cases hty
    · cases hty
  · unfold applyFn at hev
    split at hev <;> simp only [Res, Out.ok.injEq, Prod.mk.injEq, reduceCtorEq] at hev
    all_goals (try obtain ⟨rfl, _⟩ := hev)
    all_goals (
      unfold applyFnTy at hty
      split at hty <;> simp_all [ValsOK, ValOK])
    all_goals first
      | (obtain ⟨_, rfl⟩ := hty; simp [ValOK])
      | (subst hty; simp [ValOK])

/-! ## Patterns -/

/-- The values a pattern binds have the types the pattern typing assigns, name by name. -/
def BindsOK (it : Item) : Env α → TEnv → Prop
  | [], [] => True
  | (x, v) :: b, (y, t) :: bt => x = y ∧ ValOK it v t ∧ BindsOK it b bt
  | _, _ => False

/-- The environment agrees with the typing context. -/
def EnvOK (it : Item) (env : Env α) (Γ : TEnv) : Prop :=
  ∀ x t, Γ.lookup x = some t → ∃ v, env.lookup x = some v ∧ ValOK it v t

theorem BindsOK.append {it : Item} {b1 b2 : Env α} {t1 t2 : TEnv} (h1 : BindsOK it b1 t1) (h2 : BindsOK it b2 t2) :
    BindsOK it (b1 ++ b2) (t1 ++ t2) := by
  induction b1 generalizing t1 with
  | nil => cases t1 <;> simp_all [BindsOK]
  | cons x b ih =>
    obtain ⟨x, v⟩ := x
    cases t1 with
    | nil => simp [BindsOK] at h1
    | cons y t =>
      obtain ⟨y, ty⟩ := y
      simp only [BindsOK] at h1
      simp only [List.cons_append, BindsOK]
      exact ⟨h1.1, h1.2.1, ih h1.2.2⟩

theorem EnvOK.extend {it : Item} {b env : Env α} {bt Γ : TEnv} (hb : BindsOK it b bt) (he : EnvOK it env Γ) :
    EnvOK it (b ++ env) (bt ++ Γ) := by
  induction b generalizing bt with
  | nil => cases bt <;> simp_all [BindsOK]
  | cons x b ih =>
    obtain ⟨x, v⟩ := x
    cases bt with
    | nil => simp [BindsOK] at hb
    | cons y t =>
      obtain ⟨y, ty⟩ := y
      simp only [BindsOK] at hb
      obtain ⟨rfl, hv, hrest⟩ := hb
      intro z tz hz
      simp only [List.cons_append, List.lookup_cons] at hz ⊢
      cases hzx : z == x
      · simp only [hzx] at hz; exact ih hrest z tz hz
      · simp only [hzx] at hz; cases hz; exact ⟨v, rfl, hv⟩

theorem ctorBinds_ok (it : Item) (s : Side) (m : Bool) (k : Nat) (fs : List (Val α)) (j : Nat)
    (hfs : ∀ v ∈ fs, ∃ a, v = .leaf a) :
    BindsOK it ((fs.zipIdx j).map fun (v, i) => (fieldVar s k i, if m then Val.place i v else v))
      ((List.range' j fs.length).map fun i => (fieldVar s k i, if m then Ty.refMut (.field k i) else .ref (.field k i))) := by
  induction fs generalizing j with
  | nil => simp [BindsOK]
  | cons v fs ih =>
    obtain ⟨a, rfl⟩ := hfs v (by simp)
    simp only [List.zipIdx_cons, List.map_cons, List.length_cons, List.range'_succ, BindsOK, true_and]
    refine ⟨?_, ih (j + 1) fun w hw => hfs w (by simp [hw])⟩
    cases m <;> simp [ValOK]

theorem selfRef_val {it : Item} {v : Val α} {τ : Ty} (h : isSelfRef τ = true) (hv : ValOK it v τ) : WfVal it v := by
  simp only [isSelfRef, Bool.or_eq_true, decide_eq_true_eq] at h
  rcases h with rfl | rfl <;> simpa [ValOK] using hv

theorem matchPats_cons (p : Pat) (ps : List Pat) (v : Val α) (vs : List (Val α)) (h : ¬(p = .rest ∧ ps = [])) :
    matchPats (p :: ps) (v :: vs) =
      (match matchPat p v, matchPats ps vs with
       | some e1, some e2 => some (e1 ++ e2)
       | _, _ => none) := by
  cases ps with
  | nil => cases p <;> first | (simp only [matchPats]; done) | (simp only [matchPats]; rfl) | simp_all [matchPats]
  | cons q qs => first | (simp only [matchPats]; done) | (simp only [matchPats]; rfl)

mutual
theorem matchPat_preserves (it : Item) : ∀ (p : Pat) (v : Val α) (τ : Ty) (b : Env α) (bt : TEnv),
    p.bindTy it τ = some bt → ValOK it v τ → matchPat p v = some b → BindsOK it b bt
  | .wild, v, τ, b, bt, ht, _, hm => by
    simp only [Pat.bindTy, Option.some.injEq] at ht; simp only [matchPat, Option.some.injEq] at hm
    subst ht hm; simp [BindsOK]
  | .rest, v, τ, b, bt, ht, _, hm => by
    simp only [Pat.bindTy, Option.some.injEq] at ht; simp only [matchPat, Option.some.injEq] at hm
    subst ht hm; simp [BindsOK]
  | .bind m x, v, τ, b, bt, ht, hv, hm => by
    simp only [matchPat, Option.some.injEq] at hm
    subst hm
    cases m <;> simp only [Pat.bindTy, Option.some.injEq, reduceCtorEq] at ht <;> subst ht <;>
      simp_all [BindsOK, ValOK]
  | .ctor k s m, v, τ, b, bt, ht, hv, hm => by
    simp only [Pat.bindTy] at ht
    split at ht
    · rename_i d hd
      split at ht
      · rename_i hcond
        cases ht
        have hw : WfVal it v := by
          apply selfRef_val (τ := τ) _ hv
          cases m <;> simp_all [isSelfRef]
        cases v with
        | adt k' fs =>
          simp only [matchPat] at hm
          split at hm
          · rename_i hk
            cases hm
            subst hk
            obtain ⟨d', hd', hlen, hleaf⟩ := hw
            rw [hd] at hd'; cases hd'
            have := ctorBinds_ok it s m k fs 0 hleaf
            simpa [ctorBinds, ctorBindTys, hlen, List.range_eq_range'] using this
          · cases hm
        | _ => simp [WfVal] at hw
      · cases ht
    · cases ht
  | .ctorAny k, v, τ, b, bt, ht, hv, hm => by
    simp only [Pat.bindTy] at ht
    split at ht
    · cases ht
      cases v with
      | adt k' fs => simp only [matchPat] at hm; split at hm <;> simp_all [BindsOK]
      | _ => simp [matchPat] at hm
    · cases ht
  | .equal, v, τ, b, bt, ht, hv, hm => by
    simp only [Pat.bindTy] at ht
    split at ht
    · cases ht
      unfold matchPat at hm
      split at hm <;> simp_all [BindsOK]
    · cases ht
  | .someEqual, v, τ, b, bt, ht, hv, hm => by
    simp only [Pat.bindTy] at ht
    split at ht
    · cases ht
      unfold matchPat at hm
      split at hm <;> simp_all [BindsOK]
    · cases ht
  | .tuple ps, v, τ, b, bt, ht, hv, hm => by
    cases τ <;> simp only [Pat.bindTy] at ht <;> try cases ht
    rename_i ta tb
    simp only [ValOK] at hv
    obtain ⟨x, y, rfl, hx, hy⟩ := hv
    simp only [matchPat] at hm
    exact matchPats_preserves it ps [x, y] [ta, tb] b bt ht ⟨hx, hy, trivial⟩ hm
  | .or ps, v, τ, b, bt, ht, hv, hm => by
    simp only [Pat.bindTy] at ht
    split at ht
    · rename_i hfit
      cases ht
      simp only [matchPat] at hm
      have := matchAny_preserves it ps v τ b hfit hv hm
      subst this; simp [BindsOK]
    · cases ht
theorem matchPats_preserves (it : Item) : ∀ (ps : List Pat) (vs : List (Val α)) (ts : List Ty) (b : Env α) (bt : TEnv),
    Pat.bindTys it ps ts = some bt → ValsOK it vs ts → matchPats ps vs = some b → BindsOK it b bt
  | [], vs, ts, b, bt, ht, hv, hm => by
    cases ts <;> simp only [Pat.bindTys] at ht <;> try cases ht
    cases vs <;> simp only [matchPats] at hm <;> try cases hm
    simp [BindsOK]
  | p :: ps, vs, ts, b, bt, ht, hv, hm => by
    cases ts with
    | nil => simp [Pat.bindTys] at ht
    | cons t ts =>
      cases vs with
      | nil => simp [ValsOK] at hv
      | cons v vs =>
        simp only [Pat.bindTys] at ht
        split at ht
        · rename_i e1 e2 h1 h2
          cases ht
          simp only [ValsOK] at hv
          -- `[.rest]` swallows the remaining values; it binds nothing either way
          by_cases hr : p = .rest ∧ ps = []
          · obtain ⟨rfl, rfl⟩ := hr
            simp only [matchPats] at hm; cases hm
            simp only [Pat.bindTy, Option.some.injEq] at h1; subst h1
            cases ts <;> simp only [Pat.bindTys] at h2 <;> try cases h2
            simp [BindsOK]
          · have hm' : ∃ b1 b2, matchPat p v = some b1 ∧ matchPats ps vs = some b2 ∧ b = b1 ++ b2 := by
              rw [matchPats_cons p ps v vs hr] at hm
              split at hm
              · rename_i e1' e2' hh1 hh2
                cases hm; exact ⟨e1', e2', hh1, hh2, rfl⟩
              · cases hm
            obtain ⟨b1, b2, hb1, hb2, rfl⟩ := hm'
            exact (matchPat_preserves it p v t b1 e1 h1 hv.1 hb1).append
              (matchPats_preserves it ps vs ts b2 e2 h2 hv.2 hb2)
        · cases ht
theorem matchAny_preserves (it : Item) : ∀ (ps : List Pat) (v : Val α) (τ : Ty) (b : Env α),
    Pat.allFit it ps τ = true → ValOK it v τ → matchAny ps v = some b → b = []
  | [], v, τ, b, _, _, hm => by simp [matchAny] at hm
  | p :: ps, v, τ, b, hf, hv, hm => by
    simp only [Pat.allFit, Bool.and_eq_true] at hf
    simp only [matchAny] at hm
    split at hm
    · rename_i e he
      cases hm
      have hbt : p.bindTy it τ = some [] := by
        have := hf.1
        split at this <;> simp_all
      have := matchPat_preserves it p v τ b [] hbt hv he
      cases b <;> simp_all [BindsOK]
    · exact matchAny_preserves it ps v τ b hf.2 hv hm
end

/-! ## Expressions -/

/-- What a result must satisfy: a produced value has the expected type, an early `return` the function's. -/
def ResOK (it : Item) (ret τ : Ty) : Res α → Prop
  | .ok (v, _) => ValOK it v τ
  | .ret v _ => ValOK it v ret
  | _ => True

def ListOK (it : Item) (ret : Ty) (ts : List Ty) : Out α (List (Val α) × Log α) → Prop
  | .ok (vs, _) => ValsOK it vs ts
  | .ret v _ => ValOK it v ret
  | _ => True

def EnvResOK (it : Item) (ret : Ty) (Γ : TEnv) : Out α (Env α × Log α) → Prop
  | .ok (env, _) => EnvOK it env Γ
  | .ret v _ => ValOK it v ret
  | _ => True

/-- The values of field initialisers `j, j+1, ..`: one leaf each. -/
def FieldsOK (it : Item) (ret : Ty) (n : Nat) : Out α (List (Val α) × Log α) → Prop
  | .ok (vs, _) => vs.length = n ∧ ∀ v ∈ vs, ∃ a, v = .leaf a
  | .ret v _ => ValOK it v ret
  | _ => True

theorem bind_cases {β γ} {P : Out α γ → Prop} (o : Out α β) (f : β → Out α γ)
    (hok : ∀ b, o = .ok b → P (f b)) (hret : ∀ v l, o = .ret v l → P (.ret v l))
    (hub : P .ub) (hp : P .panic) (hs : P .stuck) : P (o.bind f) := by
  cases o with
  | ok b => exact hok b rfl
  | ret v l => exact hret v l rfl
  | ub => exact hub
  | panic => exact hp
  | stuck => exact hs

theorem applyFn_not_ret (cx : SemCtx α) (f : Fn) (vs : List (Val α)) (log : Log α) (v : Val α) (l : Log α) :
    applyFn cx f vs log ≠ .ret v l := by
  unfold applyFn
  split <;> simp

theorem applyFn_resOK (it : Item) (cx : SemCtx α) (f : Fn) (vs : List (Val α)) (ts : List Ty) (ret τ : Ty)
    (log : Log α) (hty : applyFnTy it f ts = some τ) (hvs : ValsOK it vs ts) :
    ResOK it ret τ (applyFn cx f vs log) := by
  cases h : applyFn cx f vs log with
  | ok b => obtain ⟨v, l⟩ := b; exact applyFn_preserves it cx f vs ts τ log v l hty hvs h
  | ret v l => exact absurd h (applyFn_not_ret cx f vs log v l)
  | _ => trivial

theorem envOK_lookup {it : Item} {env : Env α} {Γ : TEnv} (h : EnvOK it env Γ) (x : Var) (t : Ty)
    (hx : Γ.lookup x = some t) : ∃ v, env.lookup x = some v ∧ ValOK it v t := h x t hx

theorem envOK_nil (it : Item) (env : Env α) : EnvOK it env [] := by
  intro x t h; simp at h

theorem envOK_this (it : Item) (v : Val α) (h : ValOK it v (.ref .self_)) :
    EnvOK it [(Var.this, v)] [(Var.this, Ty.ref .self_)] := by
  intro x t hx
  simp only [List.lookup_cons, List.lookup_nil] at hx ⊢
  cases hxt : x == Var.this
  · simp [hxt] at hx
  · simp only [hxt] at hx ⊢; cases hx; exact ⟨v, rfl, h⟩

theorem selfCall_preserves (it : Item) (cx : SemCtx α) (himpl : ImplsOK it cx) (f : TraitFn) (vs : List (Val α))
    (ts : List Ty) (τ : Ty) (v : Val α) (hty : selfCallTy f ts = some τ) (hvs : ValsOK it vs ts)
    (hv : cx.impls f vs = some v) : ValOK it v τ := by
  unfold selfCallTy at hty
  split at hty <;> simp only [Option.some.injEq, reduceCtorEq] at hty <;> subst hty
  · -- clone
    cases vs with
    | nil => simp [ValsOK] at hvs
    | cons a vs =>
      cases vs with
      | nil => simp only [ValsOK, ValOK, and_true] at hvs; simpa [ValOK] using himpl.clone a v hv hvs
      | cons _ _ => simp [ValsOK] at hvs
  · -- cmp
    match vs, hvs with
    | [a, b], _ => simpa [ValOK] using himpl.cmp a b v hv
    | [], h => simp [ValsOK] at h
    | [_], h => simp [ValsOK] at h
    | _ :: _ :: _ :: _, h => simp [ValsOK] at h
  · -- zeroize
    match vs, hvs with
    | [a], _ => simpa [ValOK] using himpl.zeroize a v hv
    | [], h => simp [ValsOK] at h
    | _ :: _ :: _, h => simp [ValsOK] at h

theorem binop_preserves (it : Item) (op : BinOp) (ta tb τ : Ty) (va vb v : Val α)
    (hty : binopTy op ta tb = some τ) (ha : ValOK it va ta) (hb : ValOK it vb tb)
    (hv : applyBinop op va vb = some v) : ValOK it v τ := by
  unfold binopTy at hty
  split at hty <;> simp only [Option.some.injEq, reduceCtorEq] at hty <;> subst hty <;>
    simp only [ValOK] at ha hb <;> obtain ⟨x, rfl⟩ := ha <;> obtain ⟨y, rfl⟩ := hb <;>
    simp only [applyBinop, Option.some.injEq, reduceCtorEq] at hv <;> subst hv <;> simp [ValOK]

section Main
variable (cx : SemCtx α) (tcx : TyCx) (himpl : ImplsOK tcx.it cx) (hwf : tcx.it.WF)
include himpl hwf

mutual
/-- **Type preservation.** -/
theorem eval_preserves : ∀ (e : Expr) (Γ : TEnv) (env : Env α) (log : Log α) (τ : Ty),
    e.ty tcx Γ = some τ → EnvOK tcx.it env Γ → ResOK tcx.it tcx.ret τ (eval cx env log e)
  | .litBool b, Γ, env, log, τ, ht, _ => by
    simp only [Expr.ty, Option.some.injEq] at ht; subst ht; simp [eval, ResOK, ValOK]
  | .litInt n, Γ, env, log, τ, ht, _ => by
    simp only [Expr.ty, Option.some.injEq] at ht; subst ht; simp [eval, ResOK, ValOK]
  | .litStr s', Γ, env, log, τ, ht, _ => by
    simp only [Expr.ty, Option.some.injEq] at ht; subst ht; simp [eval, ResOK, ValOK]
  | .var x, Γ, env, log, τ, ht, he => by
    simp only [Expr.ty] at ht
    obtain ⟨v, hv, hok⟩ := he x τ ht
    simp [eval, hv, ResOK, hok]
  | .equal, Γ, env, log, τ, ht, _ => by
    simp only [Expr.ty, Option.some.injEq] at ht; subst ht; simp [eval, ResOK, ValOK]
  | .none_, Γ, env, log, τ, ht, _ => by
    simp only [Expr.ty, Option.some.injEq] at ht; subst ht; simp [eval, ResOK, ValOK]
  | .unitCtor k, Γ, env, log, τ, ht, _ => by
    simp only [Expr.ty] at ht
    split at ht
    · rename_i d hd
      split at ht
      · rename_i hsh
        cases ht
        have := (hwf d (List.mem_of_getElem? hd)).unit_no_fields hsh
        simp only [eval, ResOK, ValOK, WfVal]
        exact ⟨d, hd, by simp [this], by simp⟩
      · cases ht
    · cases ht
  | .userDiscr k, Γ, env, log, τ, ht, _ => by
    simp only [Expr.ty] at ht
    split at ht
    · split at ht
      · cases ht
        simp only [eval]
        split <;> simp [ResOK, ValOK]
      · cases ht
    · cases ht
  | .defaultCall k i, Γ, env, log, τ, ht, _ => by
    simp only [Expr.ty] at ht
    split at ht
    · split at ht
      · cases ht; simp [eval, ResOK, ValOK]
      · cases ht
    · cases ht
  | .call f args, Γ, env, log, τ, ht, he => by
    simp only [Expr.ty] at ht
    cases hts : Expr.tys tcx Γ args with
    | none => simp [hts] at ht
    | some ts =>
      simp only [hts, Option.bind] at ht
      have ih := evalList_preserves args Γ env log ts hts he
      simp only [eval]
      refine bind_cases (P := ResOK tcx.it tcx.ret τ) _ _ ?_ ?_ trivial trivial trivial
      · intro b hb
        obtain ⟨vs, l⟩ := b
        rw [hb] at ih
        exact applyFn_resOK tcx.it cx f vs ts tcx.ret τ l ht ih
      · intro v l hr; rw [hr] at ih; exact ih
  | .callT f args, Γ, env, log, τ, ht, he => by
    simp only [Expr.ty] at ht
    cases hts : Expr.tys tcx Γ args with
    | none => simp [hts] at ht
    | some ts =>
      simp only [hts, Option.bind] at ht
      have ih := evalList_preserves args Γ env log ts hts he
      simp only [eval]
      refine bind_cases (P := ResOK tcx.it tcx.ret τ) _ _ ?_ ?_ trivial trivial trivial
      · intro b hb
        obtain ⟨vs, l⟩ := b
        rw [hb] at ih
        exact applyFn_resOK tcx.it cx f vs ts tcx.ret τ l ht ih
      · intro v l hr; rw [hr] at ih; exact ih
  | .selfCall f args, Γ, env, log, τ, ht, he => by
    simp only [Expr.ty] at ht
    cases hts : Expr.tys tcx Γ args with
    | none => simp [hts] at ht
    | some ts =>
      simp only [hts, Option.bind] at ht
      have ih := evalList_preserves args Γ env log ts hts he
      simp only [eval]
      refine bind_cases (P := ResOK tcx.it tcx.ret τ) _ _ ?_ ?_ trivial trivial trivial
      · intro b hb
        obtain ⟨vs, l⟩ := b
        rw [hb] at ih
        simp only
        cases hv : cx.impls f vs with
        | none => trivial
        | some v => exact selfCall_preserves tcx.it cx himpl f vs ts τ v ht ih hv
      · intro v l hr; rw [hr] at ih; exact ih
  | .discFnCall body arg, Γ, env, log, τ, ht, he => by
    simp only [Expr.ty] at ht
    split at ht
    · rename_i t harg hbody
      split at ht
      · rename_i hfit
        cases ht
        have iha := eval_preserves arg Γ env log _ harg he
        simp only [eval]
        refine bind_cases (P := ResOK tcx.it tcx.ret .int) _ _ ?_ ?_ trivial trivial trivial
        · intro b hb
          obtain ⟨v, l⟩ := b
          rw [hb] at iha
          have ihb := eval_preserves body [(.this, .ref .self_)] [(.this, v)] l t hbody (envOK_this tcx.it v iha)
          simp only
          cases hr : eval cx [(.this, v)] l body with
          | ok b' => obtain ⟨v', l'⟩ := b'; rw [hr] at ihb; exact ValOK.of_fits ihb hfit
          | ret v' l' => rw [hr] at ihb; exact ihb
          | _ => trivial
        · intro v l hr; rw [hr] at iha; exact iha
      · cases ht
    · cases ht
  | .validateConst _ body, Γ, env, log, τ, ht, _ => by
    simp only [Expr.ty] at ht
    split at ht
    · rename_i hbody
      cases ht
      simp only [eval]
      exact eval_preserves body [] [] log .int hbody (envOK_nil tcx.it [])
    · cases ht
  | .methodCall recv m, Γ, env, log, τ, ht, he => by
    simp only [Expr.ty] at ht
    split at ht
    · cases ht
      simp only [eval]
      refine bind_cases (P := ResOK tcx.it tcx.ret .unit) _ _ ?_ ?_ trivial trivial trivial
      · intro b _
        obtain ⟨v, l⟩ := b
        simp only
        split <;> simp [ResOK, ValOK]
      · intro v l hr
        rename_i hrecv
        have := eval_preserves recv Γ env log _ hrecv he
        rw [hr] at this; exact this
    · cases ht
  | .ref e, Γ, env, log, τ, ht, he => by
    simp only [Expr.ty] at ht
    cases hte : e.ty tcx Γ with
    | none => simp [hte] at ht
    | some t =>
      simp only [hte, Option.map, Option.some.injEq] at ht
      subst ht
      have ih := eval_preserves e Γ env log t hte he
      simp only [eval]
      cases hr : eval cx env log e with
      | ok b => obtain ⟨v, l⟩ := b; rw [hr] at ih; simpa [ResOK, ValOK] using ih
      | ret v l => rw [hr] at ih; exact ih
      | _ => trivial
  | .refMut e, Γ, env, log, τ, ht, he => by
    simp only [Expr.ty] at ht
    split at ht
    · cases ht
    · rename_i t hnf hte
      cases ht
      have ih := eval_preserves e Γ env log t hte he
      simp only [eval]
      cases hr : eval cx env log e with
      | ok b =>
        obtain ⟨v, l⟩ := b; rw [hr] at ih
        simp only [ResOK] at ih ⊢
        cases t <;> first | exact ih | (exact absurd rfl (hnf _ _))
      | ret v l => rw [hr] at ih; exact ih
      | _ => trivial
    · cases ht
  | .deref e, Γ, env, log, τ, ht, he => by
    simp only [Expr.ty] at ht
    split at ht
    · rename_i t hte
      cases ht
      have ih := eval_preserves e Γ env log _ hte he
      simp only [eval]
      cases hr : eval cx env log e with
      | ok b => obtain ⟨v, l⟩ := b; rw [hr] at ih; simpa [ResOK, ValOK] using ih
      | ret v l => rw [hr] at ih; exact ih
      | _ => trivial
    · cases ht
  | .cast e _, Γ, env, log, τ, ht, he => by
    simp only [Expr.ty] at ht
    have hτ : τ = .int := by
      split at ht
      · cases ht; rfl
      · split at ht <;> cases ht; rfl
      · cases ht
    subst hτ
    simp only [eval]
    refine bind_cases (P := ResOK tcx.it tcx.ret .int) _ _ ?_ ?_ trivial trivial trivial
    · intro b _
      obtain ⟨v, l⟩ := b
      simp only
      split
      · split <;> simp [ResOK, ValOK]
      · simp [ResOK, ValOK]
      · trivial
    · intro v l hr
      cases hte : e.ty tcx Γ with
      | none => simp [hte] at ht
      | some t =>
        have := eval_preserves e Γ env log t hte he
        rw [hr] at this; exact this
  | .binop op a b, Γ, env, log, τ, ht, he => by
    simp only [Expr.ty] at ht
    split at ht
    · rename_i ta tb hta htb
      have iha := eval_preserves a Γ env log ta hta he
      cases op
      · -- and
        have hb : ta = .bool ∧ tb = .bool ∧ τ = .bool := by
          unfold binopTy at ht; split at ht <;> simp_all
        obtain ⟨rfl, rfl, rfl⟩ := hb
        simp only [eval]
        refine bind_cases (P := ResOK tcx.it tcx.ret .bool) _ _ ?_ ?_ trivial trivial trivial
        · intro r _
          obtain ⟨v, l⟩ := r
          simp only
          split
          · exact eval_preserves b Γ env l .bool htb he
          · simp [ResOK, ValOK]
          · trivial
        · intro v l hr; rw [hr] at iha; exact iha
      · -- or
        have hb : ta = .bool ∧ tb = .bool ∧ τ = .bool := by
          unfold binopTy at ht; split at ht <;> simp_all
        obtain ⟨rfl, rfl, rfl⟩ := hb
        simp only [eval]
        refine bind_cases (P := ResOK tcx.it tcx.ret .bool) _ _ ?_ ?_ trivial trivial trivial
        · intro r _
          obtain ⟨v, l⟩ := r
          simp only
          split
          · simp [ResOK, ValOK]
          · exact eval_preserves b Γ env l .bool htb he
          · trivial
        · intro v l hr; rw [hr] at iha; exact iha
      · -- eq
        simp only [eval]
        refine bind_cases (P := ResOK tcx.it tcx.ret τ) _ _ ?_ ?_ trivial trivial trivial
        · intro r hr
          obtain ⟨va, l⟩ := r
          rw [hr] at iha
          have ihb := eval_preserves b Γ env l tb htb he
          refine bind_cases (P := ResOK tcx.it tcx.ret τ) _ _ ?_ ?_ trivial trivial trivial
          · intro r' hr'
            obtain ⟨vb, l'⟩ := r'
            rw [hr'] at ihb
            simp only
            cases hv : applyBinop .eq va vb with
            | none => trivial
            | some v => exact binop_preserves tcx.it .eq ta tb τ va vb v ht iha ihb hv
          · intro v l' hr'; rw [hr'] at ihb; exact ihb
        · intro v l hr; rw [hr] at iha; exact iha
      · -- add
        simp only [eval]
        refine bind_cases (P := ResOK tcx.it tcx.ret τ) _ _ ?_ ?_ trivial trivial trivial
        · intro r hr
          obtain ⟨va, l⟩ := r
          rw [hr] at iha
          have ihb := eval_preserves b Γ env l tb htb he
          refine bind_cases (P := ResOK tcx.it tcx.ret τ) _ _ ?_ ?_ trivial trivial trivial
          · intro r' hr'
            obtain ⟨vb, l'⟩ := r'
            rw [hr'] at ihb
            simp only
            cases hv : applyBinop .add va vb with
            | none => trivial
            | some v => exact binop_preserves tcx.it .add ta tb τ va vb v ht iha ihb hv
          · intro v l' hr'; rw [hr'] at ihb; exact ihb
        · intro v l hr; rw [hr] at iha; exact iha
    · cases ht
  | .paren e, Γ, env, log, τ, ht, he => by
    simp only [Expr.ty] at ht
    simp only [eval]
    exact eval_preserves e Γ env log τ ht he
  | .tuple es, Γ, env, log, τ, ht, he => by
    simp only [Expr.ty] at ht
    split at ht
    · rename_i a b hts
      cases ht
      have ih := evalList_preserves es Γ env log [a, b] hts he
      simp only [eval]
      refine bind_cases (P := ResOK tcx.it tcx.ret (.pair a b)) _ _ ?_ ?_ trivial trivial trivial
      · intro r hr
        obtain ⟨vs, l⟩ := r
        rw [hr] at ih
        simp only [ResOK, ValOK]
        match vs, ih with
        | [x, y], ⟨hx, hy, _⟩ => exact ⟨x, y, rfl, hx, hy⟩
        | [], h => simp [ListOK, ValsOK] at h
        | [_], h => simp [ListOK, ValsOK] at h
        | _ :: _ :: _ :: _, h => simp [ListOK, ValsOK] at h
      · intro v l hr; rw [hr] at ih; exact ih
    · cases ht
  | .ifElse c t e, Γ, env, log, τ, ht, he => by
    simp only [Expr.ty] at ht
    split at ht
    · rename_i tt te hc htt hte
      have ihc := eval_preserves c Γ env log .bool hc he
      simp only [eval]
      refine bind_cases (P := ResOK tcx.it tcx.ret τ) _ _ ?_ ?_ trivial trivial trivial
      · intro r _
        obtain ⟨v, l⟩ := r
        simp only
        split
        · have := eval_preserves t Γ env l tt htt he
          cases hr : eval cx env l t with
          | ok b => obtain ⟨v', l'⟩ := b; rw [hr] at this; exact ValOK.of_join ht (Or.inl this)
          | ret v' l' => rw [hr] at this; exact this
          | _ => trivial
        · have := eval_preserves e Γ env l te hte he
          cases hr : eval cx env l e with
          | ok b => obtain ⟨v', l'⟩ := b; rw [hr] at this; exact ValOK.of_join ht (Or.inr this)
          | ret v' l' => rw [hr] at this; exact this
          | _ => trivial
        · trivial
      · intro v l hr; rw [hr] at ihc; exact ihc
    · cases ht
  | .match_ s' arms, Γ, env, log, τ, ht, he => by
    simp only [Expr.ty] at ht
    split at ht
    · rename_i ts hs
      have ihs := eval_preserves s' Γ env log ts hs he
      simp only [eval]
      refine bind_cases (P := ResOK tcx.it tcx.ret τ) _ _ ?_ ?_ trivial trivial trivial
      · intro r hr
        obtain ⟨v, l⟩ := r
        rw [hr] at ihs
        split at ht
        · exact evalArms_preserves arms Γ env l v ts τ ht ihs he
        · cases ht
      · intro v l hr; rw [hr] at ihs; exact ihs
    · cases ht
  | .block stmts tail, Γ, env, log, τ, ht, he => by
    simp only [Expr.ty] at ht
    split at ht
    · rename_i Γ' hst
      have ihs := evalStmts_preserves stmts Γ env log Γ' hst he
      simp only [eval]
      refine bind_cases (P := ResOK tcx.it tcx.ret τ) _ _ ?_ ?_ trivial trivial trivial
      · intro r hr
        obtain ⟨env', l⟩ := r
        rw [hr] at ihs
        exact eval_preserves tail Γ' env' l τ ht ihs
      · intro v l hr; rw [hr] at ihs; exact ihs
    · cases ht
  | .unsafe_ e, Γ, env, log, τ, ht, he => by
    simp only [Expr.ty] at ht
    simp only [eval]
    exact eval_preserves e Γ env log τ ht he
  | .ptrRead e _, Γ, env, log, τ, ht, he => by
    simp only [Expr.ty] at ht
    split at ht
    · rename_i hte
      cases ht
      have ih := eval_preserves e Γ env log _ hte he
      simp only [eval]
      refine bind_cases (P := ResOK tcx.it tcx.ret .int) _ _ ?_ ?_ trivial trivial trivial
      · intro b _
        obtain ⟨v, l⟩ := b
        simp only
        split
        · split <;> simp [ResOK, ValOK]
        · trivial
      · intro v l hr; rw [hr] at ih; exact ih
    · cases ht
  | .ret e, Γ, env, log, τ, ht, he => by
    simp only [Expr.ty] at ht
    split at ht
    · rename_i t hte
      split at ht
      · rename_i hfit
        cases ht
        have ih := eval_preserves e Γ env log t hte he
        simp only [eval]
        refine bind_cases (P := ResOK tcx.it tcx.ret .never) _ _ ?_ ?_ trivial trivial trivial
        · intro b hb
          obtain ⟨v, l⟩ := b
          rw [hb] at ih
          exact ValOK.of_fits ih hfit
        · intro v l hr; rw [hr] at ih; exact ih
      · cases ht
    · cases ht
  | .structLit k fields, Γ, env, log, τ, ht, he => by
    simp only [Expr.ty] at ht
    split at ht
    · rename_i d hd
      split at ht
      · rename_i hc
        cases ht
        have ih := evalFields_preserves fields Γ env log k 0 hc.2.1 he
        simp only [eval]
        refine bind_cases (P := ResOK tcx.it tcx.ret .self_) _ _ ?_ ?_ trivial trivial trivial
        · intro b hb
          obtain ⟨vs, l⟩ := b
          rw [hb] at ih
          simp only [ResOK, ValOK, WfVal]
          exact ⟨d, hd, by rw [ih.1, hc.2.2], ih.2⟩
        · intro v l hr; rw [hr] at ih; exact ih
      · cases ht
    · cases ht
  | .matches_ e p, Γ, env, log, τ, ht, he => by
    simp only [Expr.ty] at ht
    split at ht
    · rename_i t hte
      split at ht
      · cases ht
        have ih := eval_preserves e Γ env log t hte he
        simp only [eval]
        refine bind_cases (P := ResOK tcx.it tcx.ret .bool) _ _ ?_ ?_ trivial trivial trivial
        · intro b _; obtain ⟨v, l⟩ := b; simp [ResOK, ValOK]
        · intro v l hr; rw [hr] at ih; exact ih
      · cases ht
    · cases ht
  | .unreachable, Γ, env, log, τ, ht, _ => by simp [eval, ResOK]
  | .unit, Γ, env, log, τ, ht, _ => by
    simp only [Expr.ty, Option.some.injEq] at ht; subst ht; simp [eval, ResOK, ValOK]
  | .seq es, Γ, env, log, τ, ht, he => by
    match es, ht with
    | [e], ht =>
      simp only [Expr.ty] at ht
      simp only [eval]
      exact eval_preserves e Γ env log τ ht he
    | [], ht => simp [Expr.ty] at ht
    | _ :: _ :: _, ht => simp [Expr.ty] at ht
theorem evalList_preserves : ∀ (es : List Expr) (Γ : TEnv) (env : Env α) (log : Log α) (ts : List Ty),
    Expr.tys tcx Γ es = some ts → EnvOK tcx.it env Γ → ListOK tcx.it tcx.ret ts (evalList cx env log es)
  | [], Γ, env, log, ts, ht, _ => by
    simp only [Expr.tys, Option.some.injEq] at ht; subst ht; simp [evalList, ListOK, ValsOK]
  | e :: es, Γ, env, log, ts, ht, he => by
    simp only [Expr.tys] at ht
    split at ht
    · rename_i t ts' hte hts
      cases ht
      have ih := eval_preserves e Γ env log t hte he
      simp only [evalList]
      refine bind_cases (P := ListOK tcx.it tcx.ret (t :: ts')) _ _ ?_ ?_ trivial trivial trivial
      · intro b hb
        obtain ⟨v, l⟩ := b
        rw [hb] at ih
        have ih2 := evalList_preserves es Γ env l ts' hts he
        refine bind_cases (P := ListOK tcx.it tcx.ret (t :: ts')) _ _ ?_ ?_ trivial trivial trivial
        · intro b' hb'
          obtain ⟨vs, l'⟩ := b'
          rw [hb'] at ih2
          exact ⟨ih, ih2⟩
        · intro v' l' hr; rw [hr] at ih2; exact ih2
      · intro v l hr; rw [hr] at ih; exact ih
    · cases ht
theorem evalArms_preserves : ∀ (arms : List Arm) (Γ : TEnv) (env : Env α) (log : Log α) (v : Val α) (ts τ : Ty),
    Arm.tys tcx Γ ts arms = some τ → ValOK tcx.it v ts → EnvOK tcx.it env Γ →
      ResOK tcx.it tcx.ret τ (evalArms cx env log v arms)
  | [], Γ, env, log, v, ts, τ, _, _, _ => by simp [evalArms, ResOK]
  | .mk p e c :: arms, Γ, env, log, v, ts, τ, ht, hv, he => by
    simp only [Arm.tys] at ht
    split at ht
    · rename_i bt hbt
      split at ht
      · rename_i t t' hte hrest
        simp only [evalArms]
        split
        · rename_i b hb
          have hbinds := matchPat_preserves tcx.it p v ts b bt hbt hv hb
          have ih := eval_preserves e (bt ++ Γ) (b ++ env) log t hte (EnvOK.extend hbinds he)
          cases hr : eval cx (b ++ env) log e with
          | ok r => obtain ⟨v', l'⟩ := r; rw [hr] at ih; exact ValOK.of_join ht (Or.inl ih)
          | ret v' l' => rw [hr] at ih; exact ih
          | _ => trivial
        · have ih := evalArms_preserves arms Γ env log v ts t' hrest hv he
          cases hr : evalArms cx env log v arms with
          | ok r => obtain ⟨v', l'⟩ := r; rw [hr] at ih; exact ValOK.of_join ht (Or.inr ih)
          | ret v' l' => rw [hr] at ih; exact ih
          | _ => trivial
      · cases ht
    · cases ht
theorem evalFields_preserves : ∀ (fs : List FieldInit) (Γ : TEnv) (env : Env α) (log : Log α) (k j : Nat),
    FieldInit.check tcx Γ k j fs = true → EnvOK tcx.it env Γ →
      FieldsOK tcx.it tcx.ret fs.length (evalFields cx env log fs)
  | [], Γ, env, log, k, j, _, _ => by simp [evalFields, FieldsOK]
  | .mk i e :: fs, Γ, env, log, k, j, hc, he => by
    simp only [FieldInit.check, Bool.and_eq_true, decide_eq_true_eq] at hc
    obtain ⟨⟨_, hte⟩, hrest⟩ := hc
    cases hty : e.ty tcx Γ with
    | none => simp [hty] at hte
    | some t =>
      simp only [hty] at hte
      have ih := eval_preserves e Γ env log t hty he
      simp only [evalFields]
      refine bind_cases (P := FieldsOK tcx.it tcx.ret (fs.length + 1)) _ _ ?_ ?_ trivial trivial trivial
      · intro b hb
        obtain ⟨v, l⟩ := b
        rw [hb] at ih
        have hv : ValOK tcx.it v (.field k i) := ValOK.of_fits ih hte
        have ih2 := evalFields_preserves fs Γ env l k (j + 1) hrest he
        refine bind_cases (P := FieldsOK tcx.it tcx.ret (fs.length + 1)) _ _ ?_ ?_ trivial trivial trivial
        · intro b' hb'
          obtain ⟨vs, l'⟩ := b'
          rw [hb'] at ih2
          refine ⟨by simp [ih2.1], ?_⟩
          intro w hw
          rcases List.mem_cons.mp hw with rfl | hw
          · simpa [ValOK] using hv
          · exact ih2.2 w hw
        · intro v' l' hr; rw [hr] at ih2; exact ih2
      · intro v l hr; rw [hr] at ih; exact ih
theorem evalStmts_preserves : ∀ (ss : List Stmt) (Γ : TEnv) (env : Env α) (log : Log α) (Γ' : TEnv),
    Stmt.checks tcx Γ ss = some Γ' → EnvOK tcx.it env Γ → EnvResOK tcx.it tcx.ret Γ' (evalStmts cx env log ss)
  | [], Γ, env, log, Γ', ht, he => by
    simp only [Stmt.checks, Option.some.injEq] at ht; subst ht; simpa [evalStmts, EnvResOK] using he
  | .let_ p e :: ss, Γ, env, log, Γ', ht, he => by
    simp only [Stmt.checks, Stmt.check] at ht
    cases hte : e.ty tcx Γ with
    | none => simp [hte] at ht
    | some t =>
      simp only [hte] at ht
      cases hbt : p.bindTy tcx.it t with
      | none => simp [hbt] at ht
      | some bt =>
        cases htot : p.total tcx.it t with
        | false => simp [htot] at ht
        | true =>
        simp only [hbt, htot, if_true, Option.map] at ht
        have ih := eval_preserves e Γ env log t hte he
        simp only [evalStmts]
        refine bind_cases (P := EnvResOK tcx.it tcx.ret Γ') _ _ ?_ ?_ trivial trivial trivial
        · intro b hb
          obtain ⟨v, l⟩ := b
          rw [hb] at ih
          simp only
          split
          · rename_i bs hbs
            exact evalStmts_preserves ss (bt ++ Γ) (bs ++ env) l Γ' ht
              (EnvOK.extend (matchPat_preserves tcx.it p v t bs bt hbt ih hbs) he)
          · trivial
        · intro v l hr; rw [hr] at ih; exact ih
  | .semi e :: ss, Γ, env, log, Γ', ht, he => by
    simp only [Stmt.checks, Stmt.check] at ht
    cases hte : e.ty tcx Γ with
    | none => simp [hte] at ht
    | some t =>
      simp only [hte, Option.isSome_some, if_true] at ht
      have ih := eval_preserves e Γ env log t hte he
      simp only [evalStmts]
      refine bind_cases (P := EnvResOK tcx.it tcx.ret Γ') _ _ ?_ ?_ trivial trivial trivial
      · intro b _
        obtain ⟨v, l⟩ := b
        exact evalStmts_preserves ss Γ env l Γ' ht he
      · intro v l hr; rw [hr] at ih; exact ih
  | .ifRet c r :: ss, Γ, env, log, Γ', ht, he => by
    simp only [Stmt.checks, Stmt.check] at ht
    split at ht
    · rename_i Γ1 hchk
      split at hchk
      · rename_i t hc hr
        split at hchk
        · rename_i hfit
          cases hchk
          have ihc := eval_preserves c Γ env log .bool hc he
          simp only [evalStmts]
          refine bind_cases (P := EnvResOK tcx.it tcx.ret Γ') _ _ ?_ ?_ trivial trivial trivial
          · intro b _
            obtain ⟨v, l⟩ := b
            simp only
            split
            · have ihr := eval_preserves r Γ env l t hr he
              refine bind_cases (P := EnvResOK tcx.it tcx.ret Γ') _ _ ?_ ?_ trivial trivial trivial
              · intro b' hb'
                obtain ⟨v', l'⟩ := b'
                rw [hb'] at ihr
                exact ValOK.of_fits ihr hfit
              · intro v' l' hr'; rw [hr'] at ihr; exact ihr
            · exact evalStmts_preserves ss Γ env l Γ' ht he
            · trivial
          · intro v l hr'; rw [hr'] at ihc; exact ihc
        · cases hchk
      · cases hchk
    · cases ht
  | .assertEq k i :: ss, Γ, env, log, Γ', ht, he => by
    simp only [Stmt.checks, Stmt.check] at ht
    split at ht
    · rename_i Γ1 hchk
      have : Γ1 = Γ := by
        split at hchk
        · split at hchk <;> simp_all
        · cases hchk
      subst this
      simp only [evalStmts]
      exact evalStmts_preserves ss Γ1 env log Γ' ht he
    · cases ht
  | .assertCopySelf :: ss, Γ, env, log, Γ', ht, he => by
    simp only [Stmt.checks, Stmt.check] at ht
    simp only [evalStmts]
    exact evalStmts_preserves ss Γ env log Γ' ht he
  | .structAssertEq :: ss, Γ, env, log, Γ', ht, he => by
    simp only [Stmt.checks, Stmt.check] at ht
    simp only [evalStmts]
    exact evalStmts_preserves ss Γ env log Γ' ht he
  | .structAssertCopy :: ss, Γ, env, log, Γ', ht, he => by
    simp only [Stmt.checks, Stmt.check] at ht
    simp only [evalStmts]
    exact evalStmts_preserves ss Γ env log Γ' ht he
  | .discFn _ validate body :: ss, Γ, env, log, Γ', ht, he => by
    simp only [Stmt.checks, Stmt.check] at ht
    split at ht
    · rename_i Γ1 hchk
      have : Γ1 = Γ := by
        split at hchk
        · split at hchk <;> simp_all
        · cases hchk
      subst this
      simp only [evalStmts]
      exact evalStmts_preserves ss Γ1 env log Γ' ht he
    · cases ht
  | .validateDef _ e :: ss, Γ, env, log, Γ', ht, he => by
    simp only [Stmt.checks, Stmt.check] at ht
    split at ht
    · rename_i Γ1 hchk
      have : Γ1 = Γ := by
        split at hchk <;> simp_all
      subst this
      simp only [evalStmts]
      exact evalStmts_preserves ss Γ1 env log Γ' ht he
    · cases ht
  | .useTrait :: ss, Γ, env, log, Γ', ht, he => by
    simp only [Stmt.checks, Stmt.check] at ht
    simp only [evalStmts]
    exact evalStmts_preserves ss Γ env log Γ' ht he
  | .useAsserts :: ss, Γ, env, log, Γ', ht, he => by
    simp only [Stmt.checks, Stmt.check] at ht
    simp only [evalStmts]
    exact evalStmts_preserves ss Γ env log Γ' ht he
end

end Main

end DW
