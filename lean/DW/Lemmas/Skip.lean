import DW.Spec

/-! # Helper lemmas: skip tables and `iter_fields` -/

namespace DW

theorem SkipGroup.traits_any_eq_covers (g : SkipGroup) (t : Trait) :
    g.traits.any (· == t) = g.covers t := by
  cases g <;> cases t <;> rfl

theorem SkipGroup.traitSupported_eq (t : Trait) :
    SkipGroup.traitSupported t = (t != .clone && t != .copy && t != .default) := by
  cases t <;> rfl

/-- The macro's skip predicate is the documented table. -/
theorem Skip.traitSkipped_eq_covers (s : Skip) (t : Trait) : s.traitSkipped t = s.covers t := by
  cases s with
  | none => rfl
  | all => simp [Skip.traitSkipped, Skip.covers, SkipGroup.traitSupported_eq]
  | traits gs =>
    simp only [Skip.traitSkipped, Skip.covers]
    congr 1
    funext g
    exact SkipGroup.traits_any_eq_covers g t

theorem filter_zipIdx_range {β} (l : List β) (p : β → Bool) (n : Nat) :
    ((l.zipIdx n).filter fun q => p q.1).map (·.2) =
      (List.range' n l.length).filter fun i => (l[i - n]?).any p := by
  induction l generalizing n with
  | nil => simp
  | cons a l ih =>
    simp only [List.zipIdx_cons, List.length_cons, List.range'_succ, List.filter_cons]
    have h0 : (a :: l)[n - n]? = some a := by simp
    rw [h0]
    have hrest : (List.range' (n + 1) l.length).filter (fun i => ((a :: l)[i - n]?).any p) =
        (List.range' (n + 1) l.length).filter (fun i => (l[i - (n + 1)]?).any p) := by
      apply List.filter_congr
      intro i hi
      have : n + 1 ≤ i := by
        simp [List.mem_range'] at hi; omega
      have e : i - n = (i - (n + 1)) + 1 := by omega
      rw [e, List.getElem?_cons_succ]
    rw [hrest, ← ih (n + 1)]
    cases hpa : p a <;> simp [hpa]

/-- `Data::iter_fields` yields exactly the relevant fields, in order. -/
theorem Data.iterFields_eq (d : Data) (t : Trait) :
    d.iterFields t = ((d.fields.zipIdx).filter fun q => d.relevant q.1 t).map fun q => (q.2, q.1) := by
  unfold Data.iterFields Data.skip Data.relevant Field.skipped
  simp only [Skip.traitSkipped_eq_covers]
  by_cases h1 : d.skipInner.covers t = true
  · simp [h1]
  · have h1' : d.skipInner.covers t = false := by simpa using h1
    simp only [h1', Bool.false_or, Bool.not_false, Bool.true_and]
    by_cases h2 : (d.shape != Shape.unit && d.fields.all fun f => f.skip.covers t) = true
    · simp only [h2, if_true]
      have hall : ∀ f ∈ d.fields, f.skip.covers t = true := by
        simp only [Bool.and_eq_true, List.all_eq_true] at h2
        exact h2.2
      symm
      rw [List.map_eq_nil_iff, List.filter_eq_nil_iff]
      intro q hq
      have := hall q.1 (by
        have := List.mem_zipIdx hq
        simpa using this.2.2 ▸ List.getElem_mem _)
      simp [this]
    · simp only [h2]
      simp [List.filter_map, Function.comp_def]

theorem Data.iterFields_fst (d : Data) (t : Trait) :
    (d.iterFields t).map (·.1) = d.relevantIdx t := by
  rw [Data.iterFields_eq, Data.relevantIdx, List.range_eq_range']
  have := filter_zipIdx_range d.fields (fun f => d.relevant f t) 0
  simpa [Function.comp_def] using this

theorem Data.iterFields_mem (d : Data) (t : Trait) (p : Nat × Field) (h : p ∈ d.iterFields t) :
    d.fields[p.1]? = some p.2 := by
  rw [Data.iterFields_eq] at h
  simp only [List.mem_map, List.mem_filter] at h
  obtain ⟨q, ⟨hq, _⟩, rfl⟩ := h
  have := List.mem_zipIdx hq
  simp at this
  obtain ⟨h1, h2⟩ := this
  simp [List.getElem?_eq_getElem h1, h2]

end DW
