import DW.Render

/-!
# The closed vocabulary of an expansion (C14)

`Impl.toks` is the token sequence of a generated impl, tied token-exactly to the real expansion by correspondence A.
This file shows that **every token of every rendered impl** is

* punctuation, a keyword, a name the impl itself declares, or a built-in attribute (`punctToks`, `keywordToks`,
  `declaredToks`) — none of which the caller's scope can redefine;
* a token *of the item* (its names, types, bounds, discriminant expressions, the `crate = ..` path): `Ctx.User`;
* a `__`-prefixed temporary, a number or a string literal;
* a segment of a path behind `::` (the roots of those paths are the subject of `C14_core_paths_rooted`,
  `C14_trait_path`, `C14_crate_option`);
* or one of the words of `scopeToks` — the *only* words the expansion leaves to be looked up where the macro is
  invoked: `bool`, the twelve integer type names (known findings KF-bool, KF-isize), `from` (behind `<*const _>::`,
  KF-from), and the method names `zeroize` / `zeroize_or_on_drop` / `cast` behind a `.`.

No `Option`, `Some`, `Ordering`, `Clone`, `matches`, `unreachable`, `PhantomData`, … can occur bare: the statement is
about the renderer over the whole syntax tree type, hence about every expansion the generators can build.
-/

namespace DW

def punctToks : List String :=
  ["(", ")", "{", "}", "[", "]", "<", ">", ",", ";", ":", "=", "&", "*", "-", "+", "|", "!", "#", ".", "_", "?", "'"]

def keywordToks : List String :=
  ["fn", "self", "Self", "match", "if", "else", "let", "ref", "mut", "unsafe", "as", "impl", "for", "where", "const",
   "return", "true", "false", "struct", "use"]

/-- Names the impl declares (its methods) and built-in attributes. -/
def declaredToks : List String :=
  ["eq", "partial_cmp", "cmp", "clone", "fmt", "default", "assert_receiver_is_total_eq", "hash", "zeroize", "drop",
   "inline", "automatically_derived"]

/-- The words looked up where the macro is invoked. -/
def scopeToks : List String :=
  ["bool", "u8", "u16", "u32", "u64", "u128", "usize", "i8", "i16", "i32", "i64", "i128", "isize",
   "from", "zeroize", "zeroize_or_on_drop", "cast"]

def fixedToks : List String := punctToks ++ keywordToks ++ declaredToks ++ scopeToks

/-- Words of the attribute macro's own output (stage 1: `#[derive(..)]`, `#[derive_where(..)]`), not part of an impl. -/
def stage1Toks : List String := ["derive", "derive_where"]

/-- Identifiers the source quotes on their own and splices behind a `::core::fmt::DebugStruct::` path (the renderer has
them only as path segments: they are not in `fixedToks`, so `C14_vocabulary` would fail otherwise). -/
def fragmentToks : List String := ["finish", "finish_non_exhaustive"]

/-- A token that needs no `::` in front of it. -/
def Free (U : String → Prop) (t : String) : Prop :=
  t ∈ fixedToks ∨ U t ∨ (∃ s, t = "__" ++ s) ∨ (∃ n : Nat, t = toString n) ∨ (∃ s, t = quoteStr s)

/-- Every token is free or sits behind `::`. -/
def Vocab (U : String → Prop) (ts : Toks) : Prop :=
  ∀ pre t post, ts = pre ++ t :: post → Free U t ∨ ∃ pre', pre = pre' ++ [":", ":"]

theorem Free.mono {U V : String → Prop} (h : ∀ t, U t → V t) {t : String} : Free U t → Free V t := by
  rintro (h1 | h1 | h1 | h1 | h1)
  · exact .inl h1
  · exact .inr (.inl (h _ h1))
  · exact .inr (.inr (.inl h1))
  · exact .inr (.inr (.inr (.inl h1)))
  · exact .inr (.inr (.inr (.inr h1)))

theorem Vocab.mono {U V : String → Prop} (h : ∀ t, U t → V t) {ts : Toks} (hv : Vocab U ts) : Vocab V ts := by
  intro pre t post e
  rcases hv pre t post e with h1 | h1
  · exact .inl (h1.mono h)
  · exact .inr h1

variable {U : String → Prop}

theorem Vocab.nil : Vocab U [] := by
  intro pre t post e
  cases pre <;> simp at e

theorem Vocab.append {a b : Toks} (ha : Vocab U a) (hb : Vocab U b) : Vocab U (a ++ b) := by
  intro pre t post e
  rcases List.append_eq_append_iff.mp e with ⟨m, rfl, hm⟩ | ⟨m, rfl, hm⟩
  · -- `pre = a ++ m`, `b = m ++ t :: post`
    rcases hb m t post hm with h | ⟨p, rfl⟩
    · exact .inl h
    · exact .inr ⟨a ++ p, by simp⟩
  · -- `a = pre ++ m`, `t :: post = m ++ b`
    cases m with
    | nil =>
      simp only [List.nil_append] at hm
      rcases hb [] t post (by simpa using hm.symm) with h | ⟨p, hp⟩
      · exact .inl h
      · cases p <;> simp at hp
    | cons x m =>
      simp only [List.cons_append, List.cons.injEq] at hm
      obtain ⟨rfl, rfl⟩ := hm
      exact ha pre t m rfl

theorem Vocab.of_all {ts : Toks} (h : ∀ t ∈ ts, Free U t) : Vocab U ts := by
  intro pre t post e
  exact .inl (h t (by simp [e]))

theorem Vocab.lits {ts : Toks} (h : ∀ t ∈ ts, t ∈ fixedToks) : Vocab U ts :=
  Vocab.of_all fun t ht => .inl (h t ht)

theorem Vocab.single {t : String} (h : Free U t) : Vocab U [t] :=
  Vocab.of_all fun t' ht' => by simp at ht'; subst ht'; exact h

theorem Vocab.cons {t : String} {ts : Toks} (h : Free U t) (hv : Vocab U ts) : Vocab U (t :: ts) :=
  Vocab.append (Vocab.single h) hv

/-- A segment behind `::`. -/
theorem Vocab.colon2_cons (t : String) : Vocab U (colon2 ++ [t]) := by
  intro pre x post e
  match pre, e with
  | [], e => simp [colon2] at e; exact .inl (.inl (by rw [← e.1]; decide))
  | [a], e => simp [colon2] at e; exact .inl (.inl (by rw [← e.2.1]; decide))
  | [a, b], e => simp [colon2] at e; exact .inr ⟨[], by simp [← e.1, ← e.2.1]⟩
  | a :: b :: c :: r, e => simp [colon2] at e

theorem Vocab.colon2 : Vocab U colon2 := Vocab.lits (by decide)

theorem Vocab.flatMap {β} (l : List β) (f : β → Toks) (h : ∀ x ∈ l, Vocab U (f x)) : Vocab U (l.flatMap f) := by
  induction l with
  | nil => exact Vocab.nil
  | cons x l ih =>
    simp only [List.flatMap_cons]
    exact Vocab.append (h x (by simp)) (ih fun y hy => h y (by simp [hy]))

theorem Vocab.sepBy {sep : Toks} (hs : Vocab U sep) (l : List Toks) (h : ∀ x ∈ l, Vocab U x) :
    Vocab U (sepBy sep l) := by
  induction l with
  | nil => exact Vocab.nil
  | cons x l ih =>
    cases l with
    | nil => simpa [DW.sepBy] using h x (by simp)
    | cons y l =>
      simp only [DW.sepBy]
      exact Vocab.append (Vocab.append (h x (by simp)) hs) (ih fun z hz => h z (by simp [hz]))

theorem Vocab.ite {c : Prop} [Decidable c] {a b : Toks} (ha : Vocab U a) (hb : Vocab U b) :
    Vocab U (if c then a else b) := by
  split <;> assumption

theorem free_prefix (s : String) : Free U ("__" ++ s) := .inr (.inr (.inl ⟨s, rfl⟩))

theorem free_fixed {t : String} (h : t ∈ fixedToks) : Free U t := .inl h

theorem free_user {t : String} (h : U t) : Free U t := .inr (.inl h)

theorem free_nat (n : Nat) : Free U (toString n) := .inr (.inr (.inr (.inl ⟨n, rfl⟩)))

theorem free_quote (s : String) : Free U (quoteStr s) := .inr (.inr (.inr (.inr ⟨s, rfl⟩)))

/-! ### Paths -/

/-- The segments of `p` and its generic arguments are the user's. -/
def MPath.UserToks (U : String → Prop) (p : MPath) : Prop :=
  (∀ i ∈ p.segs, U i.tok) ∧ ∀ m a, p.args = some (m, a) → ∀ t ∈ a, U t

theorem argsAt_vocab (p : MPath) (h : ∀ m a, p.args = some (m, a) → ∀ t ∈ a, U t) (n : Nat) :
    Vocab U (match p.args with | some (m, t) => if m = n then t else [] | none => []) := by
  split
  · rename_i m t hm
    split
    · exact Vocab.of_all fun x hx => free_user (h m t hm x hx)
    · exact Vocab.nil
  · exact Vocab.nil

/-- Behind a `::` every segment is fine, whatever it is called. -/
theorem go_vocab (argsAt : Nat → Toks) (h : ∀ n, Vocab U (argsAt n)) :
    ∀ (segs : List Ident) (n : Nat), Vocab U (colon2 ++ MPath.toks.go argsAt n segs)
  | [], n => by simpa [MPath.toks.go] using Vocab.colon2
  | [i], n => by
    simp only [MPath.toks.go]
    have : colon2 ++ i.tok :: argsAt n = (colon2 ++ [i.tok]) ++ argsAt n := by simp
    rw [this]
    exact Vocab.append (Vocab.colon2_cons _) (h n)
  | i :: j :: rest, n => by
    simp only [MPath.toks.go]
    have : colon2 ++ (i.tok :: argsAt n ++ colon2 ++ MPath.toks.go argsAt (n + 1) (j :: rest)) =
        (colon2 ++ [i.tok]) ++ argsAt n ++ (colon2 ++ MPath.toks.go argsAt (n + 1) (j :: rest)) := by simp
    rw [this]
    exact Vocab.append (Vocab.append (Vocab.colon2_cons _) (h n)) (go_vocab argsAt h (j :: rest) (n + 1))

/-- A path is fine when it is `::`-rooted or its first segment is the user's (the `crate = ..` option). -/
theorem MPath.toks_vocab (p : MPath) (hargs : ∀ m a, p.args = some (m, a) → ∀ t ∈ a, U t)
    (h : p.leading = true ∨ ∃ i rest, p.segs = i :: rest ∧ U i.tok) : Vocab U p.toks := by
  unfold MPath.toks
  have ha := argsAt_vocab p hargs
  let argsAt : Nat → Toks := fun n => match p.args with | some (m, t) => if m = n then t else [] | none => []
  have ha : ∀ n, Vocab U (argsAt n) := ha
  show Vocab U ((if p.leading then colon2 else []) ++ MPath.toks.go argsAt 1 p.segs)
  rcases h with h | ⟨i, rest, hs, hi⟩
  · simp only [h, if_true]
    exact go_vocab argsAt ha p.segs 1
  · have hgo : Vocab U (MPath.toks.go argsAt 1 p.segs) := by
      rw [hs]
      cases rest with
      | nil =>
        simp only [MPath.toks.go]
        exact Vocab.cons (free_user hi) (ha 1)
      | cons j rest =>
        simp only [MPath.toks.go]
        have : i.tok :: argsAt 1 ++ colon2 ++ MPath.toks.go argsAt (1 + 1) (j :: rest) =
            ([i.tok] ++ argsAt 1) ++ (colon2 ++ MPath.toks.go argsAt (1 + 1) (j :: rest)) := by simp
        rw [this]
        exact Vocab.append (Vocab.append (Vocab.single (free_user hi)) (ha 1))
          (go_vocab argsAt ha (j :: rest) 2)
    split
    · exact Vocab.append Vocab.colon2 hgo
    · simpa using hgo

theorem corePath_vocab (segs : List String) : Vocab U (corePath segs) := by
  unfold corePath
  exact MPath.toks_vocab _ (by simp) (.inl rfl)

/-! ### The item's own tokens -/

def GParam.allToks : GParam → Toks
  | .lifetime n b _ => n ++ b
  | .type n b _ => n.tok :: b
  | .const_ n ty _ => n.tok :: ty

/-- The tokens the renderer copies from the item and from the `crate = ..` option. (Positions outside the item stand
for `default`; validated generation never mentions them.) -/
def Ctx.User (cx : Ctx) (t : String) : Prop :=
  t = cx.inp.item.ident.tok ∨
  (∃ k, t = (cx.variant k).ident.tok ∨ ∃ d, (cx.variant k).discriminant = some d ∧ t ∈ d.toks) ∨
  (∃ k i, t = (cx.field k i).member.tok ∨ t ∈ (cx.field k i).ty) ∨
  (∃ p ∈ cx.inp.generics.params, t ∈ p.allToks) ∨
  (∃ q ∈ cx.inp.generics.preds, t ∈ q) ∨
  (∃ p, cx.trait.crate_ = some p ∧ ((∃ i ∈ p.segs, t = i.tok) ∨ ∃ m a, p.args = some (m, a) ∧ t ∈ a))

/-- What parsing guarantees of a `crate = ..` path: it is not empty. -/
def Ctx.PathOK (cx : Ctx) : Prop := ∀ p, cx.trait.crate_ = some p → p.leading = true ∨ p.segs ≠ []

end DW

namespace DW

/-- Splits a goal `Vocab U (a ++ b ++ ..)` along its appends and closes the literal pieces. -/
macro "vocab" : tactic => `(tactic| repeat' (first
  | assumption
  | exact Vocab.nil
  | exact Vocab.colon2
  | exact corePath_vocab _
  | (apply Vocab.lits; decide)
  | apply Vocab.append
  | apply Vocab.ite))

section
variable (cx : Ctx) (hp : cx.PathOK)
include hp

theorem crateRoot_ok : (∀ m a, cx.trait.crateRoot.args = some (m, a) → ∀ t ∈ a, cx.User t) ∧
    (cx.trait.crateRoot.leading = true ∨ ∃ i rest, cx.trait.crateRoot.segs = i :: rest ∧ cx.User i.tok) := by
  have key : ∀ p, cx.trait.crate_ = some p → (∀ m a, p.args = some (m, a) → ∀ t ∈ a, cx.User t) ∧
      (p.leading = true ∨ ∃ i rest, p.segs = i :: rest ∧ cx.User i.tok) := by
    intro p hc
    refine ⟨fun m a ha t ht => ?_, ?_⟩
    · exact .inr (.inr (.inr (.inr (.inr ⟨p, hc, .inr ⟨m, a, ha, ht⟩⟩))))
    · rcases hp p hc with h | h
      · exact .inl h
      · cases hs : p.segs with
        | nil => exact absurd hs h
        | cons i rest =>
          exact .inr ⟨i, rest, rfl, .inr (.inr (.inr (.inr (.inr ⟨p, hc, .inl ⟨i, by simp [hs], rfl⟩⟩))))⟩
  have core : (∀ m a, (MPath.mk true [⟨"core", false⟩] none).args = some (m, a) → ∀ t ∈ a, cx.User t) ∧
      ((MPath.mk true [⟨"core", false⟩] none).leading = true ∨
        ∃ i rest, (MPath.mk true [⟨"core", false⟩] none).segs = i :: rest ∧ cx.User i.tok) :=
    ⟨by simp, .inl rfl⟩
  have zr : (∀ m a, zeroizeRoot.args = some (m, a) → ∀ t ∈ a, cx.User t) ∧
      (zeroizeRoot.leading = true ∨ ∃ i rest, zeroizeRoot.segs = i :: rest ∧ cx.User i.tok) :=
    ⟨by simp [zeroizeRoot], .inl rfl⟩
  unfold DeriveTrait.crateRoot
  split
  · cases hc : cx.trait.crate_ with
    | none => simpa using zr
    | some p => simpa using key p hc
  · cases hc : cx.trait.crate_ with
    | none => simpa using zr
    | some p => simpa using key p hc
  · exact core

theorem push_vocab (segs : List String) : Vocab cx.User (cx.trait.crateRoot.push segs).toks := by
  obtain ⟨h1, h2⟩ := crateRoot_ok cx hp
  apply MPath.toks_vocab
  · simpa [MPath.push] using h1
  · rcases h2 with h | ⟨i, rest, hs, hi⟩
    · exact .inl (by simpa [MPath.push] using h)
    · exact .inr ⟨i, rest ++ segs.map fun s => ⟨s, false⟩, by simp [MPath.push, hs], hi⟩

theorem path_vocab : Vocab cx.User cx.trait.path.toks := by
  unfold DeriveTrait.path
  exact push_vocab cx hp _

omit hp

theorem dataPath_vocab (k : Nat) : Vocab cx.User (cx.dataPath k) := by
  unfold Ctx.dataPath
  have h1 : Vocab cx.User [cx.inp.item.ident.tok] := Vocab.single (free_user (.inl rfl))
  have h2 : Vocab cx.User [(cx.variant k).ident.tok] := Vocab.single (free_user (.inr (.inl ⟨k, .inl rfl⟩)))
  simp only []
  vocab

theorem var_free (x : Var) : Free cx.User (x.tok cx) := by
  cases x <;> simp only [Var.tok]
  case self_ => exact free_fixed (by decide)
  case other => exact free_prefix "other"
  case selfField k i =>
    rw [show "__field_" ++ (cx.field k i).member.display = "__" ++ ("field_" ++ (cx.field k i).member.display) by
      rw [← String.append_assoc]; rfl]
    exact free_prefix _
  case otherField k i =>
    rw [show "__other_field_" ++ (cx.field k i).member.display =
        "__" ++ ("other_field_" ++ (cx.field k i).member.display) by rw [← String.append_assoc]; rfl]
    exact free_prefix _
  case cmp => exact free_prefix "cmp"
  case selfDisc => exact free_prefix "self_disc"
  case otherDisc => exact free_prefix "other_disc"
  case this => exact free_prefix "this"
  case f => exact free_prefix "f"
  case state => exact free_prefix "state"
  case builder => exact free_prefix "builder"

theorem mem_fields (k : Nat) (f : Field) (h : f ∈ (cx.variant k).fields) : ∃ i, f = cx.field k i := by
  obtain ⟨i, hi, rfl⟩ := List.mem_iff_getElem.mp h
  exact ⟨i, by simp [Ctx.field, List.getD, hi]⟩

theorem member_free (k : Nat) (f : Field) (h : f ∈ (cx.variant k).fields) : Free cx.User f.member.tok := by
  obtain ⟨i, rfl⟩ := mem_fields cx k f h
  exact free_user (.inr (.inr (.inl ⟨k, i, .inl rfl⟩)))

theorem ctorPat_vocab (k : Nat) (s : Side) (m : Bool) : Vocab cx.User (cx.ctorPat k s m) := by
  have hd := dataPath_vocab cx k
  have hmode : Vocab cx.User (if m then ["ref", "mut"] else ["ref"]) := by vocab
  unfold Ctx.ctorPat
  simp only []
  split
  · exact hd
  · refine Vocab.append (Vocab.append (Vocab.append hd (by vocab)) ?_) (by vocab)
    apply Vocab.sepBy (by vocab)
    intro x hx
    obtain ⟨⟨f, i⟩, _, rfl⟩ := List.mem_map.mp hx
    refine Vocab.append hmode ?_
    cases s <;> exact Vocab.single (var_free cx _)
  · refine Vocab.append (Vocab.append (Vocab.append hd (by vocab)) ?_) (by vocab)
    apply Vocab.sepBy (by vocab)
    intro x hx
    obtain ⟨⟨f, i⟩, hfi, rfl⟩ := List.mem_map.mp hx
    have hf : f ∈ (cx.variant k).fields := (List.mem_zipIdx' hfi).2 ▸ List.getElem_mem _
    refine Vocab.append (Vocab.append ?_ hmode) ?_
    · exact Vocab.cons (member_free cx k f hf) (by vocab)
    · cases s <;> exact Vocab.single (var_free cx _)

end
end DW

namespace DW

section
variable (cx : Ctx)

mutual
theorem Pat.toks_vocab : ∀ p : Pat, Vocab cx.User (p.toks cx)
  | .wild => by simp only [Pat.toks]; vocab
  | .rest => by simp only [Pat.toks]; vocab
  | .bind m x => by
    simp only [Pat.toks]
    exact Vocab.append (by cases m <;> simp only [BindMode.toks] <;> vocab) (Vocab.single (var_free cx x))
  | .ctor k s m => by simp only [Pat.toks]; exact ctorPat_vocab cx k s m
  | .ctorAny k => by
    have hd := dataPath_vocab cx k
    simp only [Pat.toks]
    split <;> vocab
  | .equal => by simp only [Pat.toks, equalToks]; vocab
  | .someEqual => by simp only [Pat.toks, equalToks, someToks]; vocab
  | .tuple ps => by
    have := Pat.listToks_vocab [","] (by vocab) ps
    simp only [Pat.toks]; vocab
  | .or ps => by
    simp only [Pat.toks]
    exact Pat.listToks_vocab ["|"] (by vocab) ps
theorem Pat.listToks_vocab (sep : Toks) (hs : Vocab cx.User sep) : ∀ ps : List Pat, Vocab cx.User (Pat.listToks cx sep ps)
  | [] => by simp only [Pat.listToks]; vocab
  | [p] => by simp only [Pat.listToks]; exact Pat.toks_vocab p
  | p :: q :: ps => by
    have h1 := Pat.toks_vocab p
    have h2 := Pat.listToks_vocab sep hs (q :: ps)
    simp only [Pat.listToks]; vocab
end

variable (hp : cx.PathOK)
include hp

theorem traitFn_vocab (f : TraitFn) : Vocab cx.User (f.toks cx) := by
  have := path_vocab cx hp
  cases f <;> simp only [TraitFn.toks, List.append_assoc] <;>
    exact Vocab.append this (Vocab.colon2_cons _)

theorem traitFn_self_vocab (f : TraitFn) : Vocab cx.User (f.selfToks cx) := by
  cases f <;> simp only [TraitFn.selfToks] <;>
    first | exact corePath_vocab _ | exact push_vocab cx hp _ | exact traitFn_vocab cx hp _

theorem fn_vocab (f : Fn) : Vocab cx.User (f.toks cx) := by
  cases f <;> simp only [Fn.toks, someToks] <;>
    first | exact corePath_vocab _ | exact traitFn_vocab cx hp _ | exact dataPath_vocab cx _

end
end DW

namespace DW

theorem Vocab.user {U : String → Prop} {ts : Toks} (h : ∀ t ∈ ts, U t) : Vocab U ts :=
  Vocab.of_all fun t ht => free_user (h t ht)

theorem commaToks_vocab {U : String → Prop} (b : Bool) : Vocab U (commaToks b) := by
  unfold commaToks; vocab

theorem genericsGo_vocab {U : String → Prop} (full : Bool) :
    ∀ (ps : List GParam) (trailing : Bool), (∀ p ∈ ps, ∀ t ∈ p.allToks, U t) →
      Vocab U (genericsToks.go full trailing ps)
  | [], _, _ => by simp only [genericsToks.go]; vocab
  | p :: rest, trailing, h => by
    have ih := genericsGo_vocab full rest p.comma (fun q hq => h q (by simp [hq]))
    have hc := commaToks_vocab (U := U) p.comma
    have hp := h p (by simp)
    simp only [genericsToks.go]
    refine Vocab.append (Vocab.append (Vocab.append (by vocab) ?_) hc) ih
    cases p with
    | lifetime n b c => vocab
    | type n b c =>
      have h1 : Vocab U [n.tok] := Vocab.user (by simpa using hp n.tok (by simp [GParam.allToks]))
      have h2 : Vocab U b := Vocab.user fun t ht => hp t (by simp [GParam.allToks, ht])
      simp only []; vocab
    | const_ n ty c =>
      have h1 : Vocab U [n.tok] := Vocab.user (by simpa using hp n.tok (by simp [GParam.allToks]))
      have h2 : Vocab U ty := Vocab.user fun t ht => hp t (by simp [GParam.allToks, ht])
      simp only []
      split
      · show Vocab U (["const"] ++ [n.tok] ++ [":"] ++ ty)
        vocab
      · exact h1

theorem genericsToks_vocab {U : String → Prop} (full : Bool) (ps : List GParam)
    (h : ∀ p ∈ ps, ∀ t ∈ p.allToks, U t) : Vocab U (genericsToks full ps) := by
  unfold genericsToks
  split
  · exact Vocab.nil
  · have hgo := genericsGo_vocab (U := U) full (ps.filter (!isLifetime ·))
      (match (ps.filter isLifetime).getLast? with | some p => p.comma | none => true)
      (fun p hp => h p (List.mem_filter.mp hp).1)
    have hlt : Vocab U ((ps.filter isLifetime).flatMap fun p => match p with
        | .lifetime n b c => n ++ (if full && !b.isEmpty then [":"] ++ b else []) ++ commaToks c
        | _ => []) := by
      apply Vocab.flatMap
      intro p hp
      have hp' := h p (List.mem_filter.mp hp).1
      cases p with
      | lifetime n b c =>
        have h1 : Vocab U n := Vocab.user fun t ht => hp' t (by simp [GParam.allToks, ht])
        have h2 : Vocab U b := Vocab.user fun t ht => hp' t (by simp [GParam.allToks, ht])
        have hc := commaToks_vocab (U := U) c
        simp only []; vocab
      | type n b c => exact Vocab.nil
      | const_ n ty c => exact Vocab.nil
    simp only []
    vocab

end DW

namespace DW

def WherePred.userToks : WherePred → Toks
  | .item t => t
  | .custom t => t
  | .bound ty _ => ty

section
variable (cx : Ctx) (hp : cx.PathOK)
include hp

theorem wherePred_vocab {U : String → Prop} (hU : ∀ t, cx.User t → U t) (q : WherePred)
    (hq : ∀ t ∈ q.userToks, U t) : Vocab U (q.toks cx) := by
  have hpath : Vocab U cx.trait.path.toks := (path_vocab cx hp).mono hU
  cases q with
  | item t => exact Vocab.user hq
  | custom t => exact Vocab.user hq
  | bound ty copy =>
    have hty : Vocab U ty := Vocab.user hq
    simp only [WherePred.toks]; vocab

theorem whereToks_vocab {U : String → Prop} (hU : ∀ t, cx.User t → U t) (preds : List WherePred) (tr : Bool)
    (hq : ∀ q ∈ preds, ∀ t ∈ q.userToks, U t) : Vocab U (whereToks cx preds tr) := by
  unfold whereToks
  split
  · exact Vocab.nil
  · have hc := commaToks_vocab (U := U) tr
    have hs : Vocab U (sepBy [","] (preds.map (·.toks cx))) := by
      apply Vocab.sepBy (by vocab)
      intro x hx
      obtain ⟨q, hq', rfl⟩ := List.mem_map.mp hx
      exact wherePred_vocab cx hp hU q (hq q hq')
    vocab

theorem itemWhereToks_vocab : Vocab cx.User (itemWhereToks cx) := by
  unfold itemWhereToks
  apply whereToks_vocab cx hp (fun _ h => h)
  intro q hq t ht
  obtain ⟨p, hp', rfl⟩ := List.mem_map.mp hq
  exact .inr (.inr (.inr (.inr (.inl ⟨p, hp', ht⟩))))

theorem generics_user : ∀ p ∈ cx.inp.generics.params, ∀ t ∈ p.allToks, cx.User t :=
  fun p hp' t ht => .inr (.inr (.inr (.inl ⟨p, hp', ht⟩)))

theorem assertStruct_vocab (name : String) (hn : Free cx.User name) (bound : Toks) (hb : Vocab cx.User bound) :
    Vocab cx.User (assertStruct name bound) := by
  have h1 : Vocab cx.User [name] := Vocab.single hn
  unfold assertStruct
  show Vocab cx.User (["struct"] ++ [name] ++ ["<", "__T", ":"] ++ bound ++ ["+", "?"] ++
    corePath ["core", "marker", "Sized"] ++ [">", "("] ++ corePath ["core", "marker", "PhantomData"] ++
    ["<", "__T", ">", ")", ";"])
  have h2 : Vocab cx.User ["<", "__T", ":"] :=
    Vocab.cons (free_fixed (by decide)) (Vocab.cons (free_prefix "T") (by vocab))
  have h3 : Vocab cx.User ["<", "__T", ">", ")", ";"] :=
    Vocab.cons (free_fixed (by decide)) (Vocab.cons (free_prefix "T") (by vocab))
  vocab

theorem intTy_free (t : IntTy) : Free cx.User t.tok := by
  cases t <;> exact free_fixed (by decide)

theorem field_ty_vocab (k i : Nat) : Vocab cx.User (cx.field k i).ty :=
  Vocab.user fun t ht => .inr (.inr (.inl ⟨k, i, .inr ht⟩))

theorem field_member_free (k i : Nat) : Free cx.User (cx.field k i).member.tok :=
  free_user (.inr (.inr (.inl ⟨k, i, .inl rfl⟩)))

mutual
theorem Expr.toks_vocab : ∀ e : Expr, Vocab cx.User (e.toks cx)
  | .litBool b => by simp only [Expr.toks]; cases b <;> vocab
  | .litInt n => by simp only [Expr.toks]; exact Vocab.single (free_nat n)
  | .litStr s => by simp only [Expr.toks]; exact Vocab.single (free_quote _)
  | .var x => by simp only [Expr.toks]; exact Vocab.single (var_free cx x)
  | .equal => by simp only [Expr.toks, equalToks]; vocab
  | .none_ => by simp only [Expr.toks, noneToks]; vocab
  | .unitCtor k => by simp only [Expr.toks]; exact dataPath_vocab cx k
  | .userDiscr k => by
    simp only [Expr.toks]
    split
    · rename_i d hd
      exact Vocab.user fun t ht => .inr (.inl ⟨k, .inr ⟨d, hd, ht⟩⟩)
    · exact Vocab.nil
  | .defaultCall _ _ => by
    have := path_vocab cx hp
    simp only [Expr.toks]
    exact Vocab.append (Vocab.append this Vocab.colon2) (by vocab)
  | .call f args => by
    have h1 := fn_vocab cx hp f
    have h2 := Expr.listToks_vocab args
    simp only [Expr.toks]; vocab
  | .callT f args => by
    have h1 := fn_vocab cx hp f
    have h2 := Expr.listToks_vocab args
    simp only [Expr.toks]; vocab
  | .selfCall f args => by
    have h1 := traitFn_self_vocab cx hp f
    have h2 := Expr.listToks_vocab args
    simp only [Expr.toks]; vocab
  | .discFnCall _ arg => by
    have h2 := Expr.toks_vocab arg
    simp only [Expr.toks]
    exact Vocab.append (Vocab.append (Vocab.cons (free_prefix "discriminant") (by vocab)) h2) (by vocab)
  | .validateConst k _ => by
    simp only [Expr.toks]
    rw [show "__VALIDATE_ISIZE_" ++ (cx.variant k).ident.name = "__" ++ ("VALIDATE_ISIZE_" ++ (cx.variant k).ident.name) by
      rw [← String.append_assoc]; rfl]
    exact Vocab.single (free_prefix _)
  | .methodCall recv .zeroize => by
    have := Expr.toks_vocab recv
    simp only [Expr.toks]; vocab
  | .methodCall recv .zeroizeOrOnDrop => by
    have := Expr.toks_vocab recv
    simp only [Expr.toks]; vocab
  | .ref e => by have := Expr.toks_vocab e; simp only [Expr.toks]; vocab
  | .refMut e => by have := Expr.toks_vocab e; simp only [Expr.toks]; vocab
  | .deref e => by have := Expr.toks_vocab e; simp only [Expr.toks]; vocab
  | .cast e ty => by
    have := Expr.toks_vocab e
    simp only [Expr.toks]
    exact Vocab.append this (Vocab.cons (free_fixed (by decide)) (Vocab.single (intTy_free cx hp ty)))
  | .binop op a b => by
    have h1 := Expr.toks_vocab a
    have h2 := Expr.toks_vocab b
    have h3 : Vocab cx.User op.toks := by cases op <;> simp only [BinOp.toks] <;> vocab
    simp only [Expr.toks]; vocab
  | .paren e => by have := Expr.toks_vocab e; simp only [Expr.toks]; vocab
  | .tuple es => by have := Expr.listToks_vocab es; simp only [Expr.toks]; vocab
  | .ifElse c t e => by
    have h1 := Expr.toks_vocab c
    have h2 := Expr.bodyToks_vocab t
    have h3 := Expr.bodyToks_vocab e
    simp only [Expr.toks]; vocab
  | .match_ s arms => by
    have h1 := Expr.toks_vocab s
    have h2 := Arm.listToks_vocab arms
    simp only [Expr.toks]; vocab
  | .block stmts tail => by
    have h1 := Stmt.listToks_vocab stmts
    have h2 := Expr.toks_vocab tail
    simp only [Expr.toks]; vocab
  | .unsafe_ e => by have := Expr.bodyToks_vocab e; simp only [Expr.toks]; vocab
  | .ptrRead e ty => by
    have h1 := Expr.toks_vocab e
    have h2 : Vocab cx.User ["<", ty.tok, ">", "(", ")"] :=
      Vocab.cons (free_fixed (by decide)) (Vocab.cons (intTy_free cx hp ty) (by vocab))
    simp only [Expr.toks]; vocab
  | .ret e => by have := Expr.toks_vocab e; simp only [Expr.toks]; vocab
  | .structLit k fields => by
    have h1 := dataPath_vocab cx k
    have h2 := FieldInit.listToks_vocab k fields
    simp only [Expr.toks]; vocab
  | .matches_ e p => by
    have h1 := Expr.toks_vocab e
    have h2 := Pat.toks_vocab cx p
    simp only [Expr.toks]; vocab
  | .unreachable => by
    simp only [Expr.toks]
    refine Vocab.append (corePath_vocab _) ?_
    exact Vocab.cons (free_fixed (by decide)) (Vocab.cons (free_fixed (by decide))
      (Vocab.cons (free_quote _) (by vocab)))
  | .unit => by simp only [Expr.toks]; vocab
  | .seq es => by simp only [Expr.toks]; exact Expr.seqToks_vocab es
theorem Expr.bodyToks_vocab : ∀ e : Expr, Vocab cx.User (e.bodyToks cx)
  | .block stmts tail => by
    have h1 := Stmt.listToks_vocab stmts
    have h2 := Expr.toks_vocab tail
    simp only [Expr.bodyToks]; vocab
  | e => by
    have := Expr.toks_vocab e
    cases e <;> simp only [Expr.bodyToks] <;> first | exact this | skip
    rename_i stmts tail
    exact Vocab.append (Stmt.listToks_vocab stmts) (Expr.toks_vocab tail)
theorem Expr.listToks_vocab : ∀ es : List Expr, Vocab cx.User (Expr.listToks cx es)
  | [] => by simp only [Expr.listToks]; vocab
  | [e] => by simp only [Expr.listToks]; exact Expr.toks_vocab e
  | e :: f :: rest => by
    have h1 := Expr.toks_vocab e
    have h2 := Expr.listToks_vocab (f :: rest)
    simp only [Expr.listToks]; vocab
theorem Expr.seqToks_vocab : ∀ es : List Expr, Vocab cx.User (Expr.seqToks cx es)
  | [] => by simp only [Expr.seqToks]; vocab
  | e :: rest => by
    have h1 := Expr.toks_vocab e
    have h2 := Expr.seqToks_vocab rest
    simp only [Expr.seqToks]; vocab
theorem Arm.listToks_vocab : ∀ arms : List Arm, Vocab cx.User (Arm.listToks cx arms)
  | [] => by simp only [Arm.listToks]; vocab
  | .mk p e comma :: rest => by
    have h1 := Pat.toks_vocab cx p
    have h2 := Expr.toks_vocab e
    have h3 := Arm.listToks_vocab rest
    have h4 := commaToks_vocab (U := cx.User) comma
    simp only [Arm.listToks]; vocab
theorem FieldInit.listToks_vocab (k : Nat) : ∀ fs : List FieldInit, Vocab cx.User (FieldInit.listToks cx k fs)
  | [] => by simp only [FieldInit.listToks]; vocab
  | [.mk i e] => by
    have h1 := Expr.toks_vocab e
    simp only [FieldInit.listToks]
    exact Vocab.append (Vocab.cons (field_member_free cx hp k i) (by vocab)) h1
  | .mk i e :: f :: rest => by
    have h1 := Expr.toks_vocab e
    have h2 := FieldInit.listToks_vocab k (f :: rest)
    simp only [FieldInit.listToks]
    exact Vocab.append (Vocab.append (Vocab.append (Vocab.cons (field_member_free cx hp k i) (by vocab)) h1) (by vocab)) h2
theorem Stmt.toks_vocab : ∀ s : Stmt, Vocab cx.User (s.toks cx)
  | .let_ p e => by
    have h1 := Pat.toks_vocab cx p
    have h2 := Expr.toks_vocab e
    simp only [Stmt.toks]; vocab
  | .semi e => by have := Expr.toks_vocab e; simp only [Stmt.toks]; vocab
  | .ifRet c r => by
    have h1 := Expr.toks_vocab c
    have h2 := Expr.toks_vocab r
    simp only [Stmt.toks]; vocab
  | .assertEq k i => by
    have h1 := field_ty_vocab cx hp k i
    simp only [Stmt.toks]
    refine Vocab.append (Vocab.append ?_ h1) (by vocab)
    exact Vocab.cons (free_fixed (by decide)) (Vocab.cons (free_fixed (by decide)) (Vocab.cons (free_fixed (by decide))
      (Vocab.cons (free_prefix "AssertEq") (by vocab))))
  | .assertCopySelf => by
    simp only [Stmt.toks]
    exact Vocab.cons (free_fixed (by decide)) (Vocab.cons (free_fixed (by decide)) (Vocab.cons (free_fixed (by decide))
      (Vocab.cons (free_prefix "AssertCopy") (by vocab))))
  | .structAssertEq => by
    simp only [Stmt.toks]
    exact assertStruct_vocab cx hp _ (free_prefix "AssertEq") _ (corePath_vocab _)
  | .structAssertCopy => by
    simp only [Stmt.toks]
    exact assertStruct_vocab cx hp _ (free_prefix "AssertCopy") _ (corePath_vocab _)
  | .discFn repr validate body => by
    have h1 := Stmt.listToks_vocab validate
    have h2 := Expr.toks_vocab body
    have g1 := genericsToks_vocab (U := cx.User) true cx.inp.generics.params (generics_user cx hp)
    have g2 := genericsToks_vocab (U := cx.User) false cx.inp.generics.params (generics_user cx hp)
    have hw := itemWhereToks_vocab cx hp
    have a1 : Vocab cx.User ["const", "fn", "__discriminant"] :=
      Vocab.cons (free_fixed (by decide)) (Vocab.cons (free_fixed (by decide)) (Vocab.single (free_prefix "discriminant")))
    have a2 : Vocab cx.User ["(", "__this", ":", "&", cx.inp.item.ident.tok] :=
      Vocab.cons (free_fixed (by decide)) (Vocab.cons (free_prefix "this") (Vocab.cons (free_fixed (by decide))
        (Vocab.cons (free_fixed (by decide)) (Vocab.single (free_user (.inl rfl))))))
    have a3 : Vocab cx.User [")", "-", ">", repr.tok] :=
      Vocab.cons (free_fixed (by decide)) (Vocab.cons (free_fixed (by decide)) (Vocab.cons (free_fixed (by decide))
        (Vocab.single (intTy_free cx hp repr))))
    simp only [Stmt.toks]; vocab
  | .validateDef k e => by
    have h1 := Expr.toks_vocab e
    simp only [Stmt.toks]
    rw [show "__VALIDATE_ISIZE_" ++ (cx.variant k).ident.name = "__" ++ ("VALIDATE_ISIZE_" ++ (cx.variant k).ident.name) by
      rw [← String.append_assoc]; rfl]
    refine Vocab.append (Vocab.append ?_ h1) (by vocab)
    exact Vocab.cons (free_fixed (by decide)) (Vocab.cons (free_prefix _) (by vocab))
  | .useTrait => by
    have := path_vocab cx hp
    simp only [Stmt.toks]; vocab
  | .useAsserts => by
    have h1 := push_vocab cx hp ["__internal", "AssertZeroize"]
    have h2 := push_vocab cx hp ["__internal", "AssertZeroizeOnDrop"]
    simp only [Stmt.toks]; vocab
theorem Stmt.listToks_vocab : ∀ ss : List Stmt, Vocab cx.User (Stmt.listToks cx ss)
  | [] => by simp only [Stmt.listToks]; vocab
  | s :: rest => by
    have h1 := Stmt.toks_vocab s
    have h2 := Stmt.listToks_vocab rest
    simp only [Stmt.listToks]; vocab
end

end
end DW

namespace DW

/-- The temporaries that occur in literal token lists of the renderer. -/
def tempToks : List String := ["__other", "__f", "__H", "__state", "__T", "__this"]

theorem temp_free {U : String → Prop} {t : String} (h : t ∈ tempToks) : Free U t := by
  simp only [tempToks, List.mem_cons, List.not_mem_nil, or_false] at h
  rcases h with rfl | rfl | rfl | rfl | rfl | rfl
  · exact free_prefix "other"
  · exact free_prefix "f"
  · exact free_prefix "H"
  · exact free_prefix "state"
  · exact free_prefix "T"
  · exact free_prefix "this"

theorem Vocab.lits2 {U : String → Prop} {ts : Toks} (h : ∀ t ∈ ts, t ∈ fixedToks ∨ t ∈ tempToks) : Vocab U ts :=
  Vocab.of_all fun t ht => (h t ht).elim free_fixed temp_free

theorem Sig.toks_vocab {U : String → Prop} (s : Sig) : Vocab U s.toks := by
  cases s <;> simp only [Sig.toks, orderingToks] <;>
    repeat' (first
      | exact corePath_vocab _
      | (apply Vocab.lits2; decide)
      | apply Vocab.append)

section
variable (cx : Ctx) (hp : cx.PathOK)
include hp

theorem Method'.toks_vocab (m : Method') : Vocab cx.User (m.toks cx) := by
  have h1 := Expr.bodyToks_vocab cx hp m.body
  have h2 := Sig.toks_vocab (U := cx.User) m.sig
  unfold Method'.toks inlineToks
  vocab

end

/-- The tokens of an impl's where-clause that come from the attribute (`Type: Bound` entries and listed types). -/
def Impl.User (inp : Input) (im : Impl) (t : String) : Prop :=
  Ctx.User ⟨inp, im.trait⟩ t ∨ ∃ q ∈ im.preds, t ∈ q.userToks

theorem Impl.toks_vocab (inp : Input) (im : Impl) (hp : Ctx.PathOK ⟨inp, im.trait⟩) :
    Vocab (im.User inp) (im.toks inp) := by
  have hU : ∀ t, Ctx.User ⟨inp, im.trait⟩ t → im.User inp t := fun t h => .inl h
  have g1 := genericsToks_vocab (U := im.User inp) true inp.generics.params
    (fun p hp' t ht => hU t (generics_user ⟨inp, im.trait⟩ hp p hp' t ht))
  have g2 := genericsToks_vocab (U := im.User inp) false inp.generics.params
    (fun p hp' t ht => hU t (generics_user ⟨inp, im.trait⟩ hp p hp' t ht))
  have hw := whereToks_vocab ⟨inp, im.trait⟩ hp hU im.preds im.whereTrailing (fun q hq t ht => .inr ⟨q, hq, ht⟩)
  have hpath : Vocab (im.User inp) im.trait.path.toks := (path_vocab ⟨inp, im.trait⟩ hp).mono hU
  have hm : Vocab (im.User inp) (im.methods.flatMap (Method'.toks ⟨inp, im.trait⟩)) :=
    Vocab.flatMap _ _ fun m _ => (Method'.toks_vocab ⟨inp, im.trait⟩ hp m).mono hU
  have hname : Vocab (im.User inp) ["for", inp.item.ident.tok] :=
    Vocab.cons (free_fixed (by decide)) (Vocab.single (free_user (hU _ (.inl rfl))))
  unfold Impl.toks
  simp only []
  vocab

end DW
