import DW.Validate
import DW.Lemmas.PartialEq

/-! # Inversion lemmas for the validation layer (`Input::from_input`) -/

namespace DW

theorem bind_ok {α β} {x : R α} {f : α → R β} {b : β} (h : (x >>= f) = .ok b) :
    ∃ a, x = .ok a ∧ f a = .ok b := by
  cases x with
  | error e => simp [bind, Except.bind] at h
  | ok a => exact ⟨a, rfl, h⟩


/-- Some derived trait belongs to group `g`. -/
def GroupDerived (dws : List DeriveWhere) (g : SkipGroup) : Prop :=
  dws.any (fun dw => g.traits.any dw.contains) = true

/-- A skip marker only names groups with a derived trait; a bare marker needs a
skippable derived trait. -/
def SkipOK (dws : List DeriveWhere) : Skip → Prop
  | .none => True
  | .all => dws.any DeriveWhere.anySkip = true
  | .traits gs => ∀ g ∈ gs, GroupDerived dws g

theorem Skip.addGroups_ok (c : Cfg) (dws : List DeriveWhere) (si : Option Skip) (ms : List Meta)
    (acc gs : List SkipGroup) (hacc : ∀ g ∈ acc, GroupDerived dws g)
    (h : Skip.addGroups c dws si ms acc = .ok gs) : ∀ g ∈ gs, GroupDerived dws g := by
  induction ms generalizing acc with
  | nil => simp only [Skip.addGroups, Except.ok.injEq] at h; subst h; exact hacc
  | cons m ms ih =>
    cases m with
    | path p =>
      unfold Skip.addGroups at h
      obtain ⟨g, _, h1⟩ := bind_ok h
      split at h1
      · cases h1
      · split at h1
        · cases h1
        · split at h1
          · rename_i hder
            apply ih _ _ h1
            intro g' hg'
            rcases List.mem_append.mp hg' with h2 | h2
            · exact hacc g' h2
            · simp at h2; subst h2; exact hder
          · cases h1
    | list _ _ _ => simp [Skip.addGroups] at h
    | nameValue _ _ => simp [Skip.addGroups] at h

theorem Skip.addAttribute_ok (c : Cfg) (self s' : Skip) (name : String) (dws : List DeriveWhere)
    (si : Option Skip) (m : Meta) (hs : SkipOK dws self)
    (h : Skip.addAttribute c self name dws si m = .ok s') : SkipOK dws s' := by
  unfold Skip.addAttribute at h
  split at h
  · split at h
    · split at h
      · cases h
      · split at h
        · rename_i hany
          simp only [Except.ok.injEq] at h; subst h
          exact hany
        · cases h
    · cases h
  · obtain ⟨nested, _, h1⟩ := bind_ok h
    split at h1
    · obtain ⟨gs, hgs, h2⟩ := bind_ok h1
      simp only [Except.ok.injEq] at h2; subst h2
      exact Skip.addGroups_ok c dws si nested [] gs (by simp) hgs
    · cases h1
    · rename_i gs0
      obtain ⟨gs, hgs, h2⟩ := bind_ok h1
      simp only [Except.ok.injEq] at h2; subst h2
      exact Skip.addGroups_ok c dws si nested gs0 gs hs hgs
  · cases h

theorem FieldAttr.addMetas_ok (c : Cfg) (dws : List DeriveWhere) (si : Skip) (ms : List Meta)
    (self fa : FieldAttr) (hs : SkipOK dws self.skip)
    (h : FieldAttr.addMetas c dws si ms self = .ok fa) : SkipOK dws fa.skip := by
  induction ms generalizing self with
  | nil => simp only [FieldAttr.addMetas, Except.ok.injEq] at h; subst h; exact hs
  | cons m ms ih =>
    unfold FieldAttr.addMetas at h
    split at h
    · obtain ⟨s, hsk, h2⟩ := bind_ok h
      refine ih _ ?_ h2
      exact Skip.addAttribute_ok c _ _ _ dws _ m hs hsk
    · split at h
      · obtain ⟨f, _, h2⟩ := bind_ok h
        refine ih _ ?_ h2
        exact hs
      · cases h

theorem FieldAttr.fromAttrs_ok (c : Cfg) (dws : List DeriveWhere) (si : Skip) (bs : List DWBody)
    (self fa : FieldAttr) (hs : SkipOK dws self.skip)
    (h : FieldAttr.fromAttrs c dws si bs self = .ok fa) : SkipOK dws fa.skip := by
  induction bs generalizing self with
  | nil => simp only [FieldAttr.fromAttrs, Except.ok.injEq] at h; subst h; exact hs
  | cons b bs ih =>
    unfold FieldAttr.fromAttrs at h
    obtain ⟨s1, h1, h2⟩ := bind_ok h
    apply ih s1 _ h2
    unfold FieldAttr.addMeta at h1
    split at h1
    · cases h1
    · obtain ⟨nested, _, h3⟩ := bind_ok h1
      exact FieldAttr.addMetas_ok c dws si nested self s1 hs h3

theorem Field.fromFields_ok (c : Cfg) (dws : List DeriveWhere) (si : Skip) (fs : List RawField)
    (out : List Field) (h : Field.fromFields c dws si fs = .ok out) : ∀ f ∈ out, SkipOK dws f.skip := by
  induction fs generalizing out with
  | nil => simp only [Field.fromFields, Except.ok.injEq] at h; subst h; simp
  | cons f fs ih =>
    unfold Field.fromFields at h
    obtain ⟨f', hf, h1⟩ := bind_ok h
    obtain ⟨rest, hr, h2⟩ := bind_ok h1
    simp only [Except.ok.injEq] at h2; subst h2
    intro g hg
    rcases List.mem_cons.mp hg with rfl | hm
    · unfold Field.fromField at hf
      obtain ⟨a, ha, h3⟩ := bind_ok hf
      simp only [Except.ok.injEq] at h3; subst h3
      exact FieldAttr.fromAttrs_ok c dws si f.attrs {} a trivial ha
    · exact ih rest hr g hm


/-- No `Eq`/`Ord` among the derived traits. -/
def NoTotal (dws : List DeriveWhere) : Prop :=
  ∀ dw ∈ dws, ∀ t ∈ dw.traits, t.trait ≠ .eq ∧ t.trait ≠ .ord

/-- `PartialEq` or `PartialOrd` is derived. -/
def HasPartial (dws : List DeriveWhere) : Prop :=
  ∃ dw ∈ dws, ∃ t ∈ dw.traits, t.trait = .partialEq ∨ t.trait = .partialOrd

theorem incomparableScan_ok (ts : List DeriveTrait) (seen b : Bool) (h : incomparableScan ts seen = .ok b) :
    (∀ t ∈ ts, t.trait ≠ .eq ∧ t.trait ≠ .ord) ∧
      (b = true → seen = true ∨ ∃ t ∈ ts, t.trait = .partialEq ∨ t.trait = .partialOrd) := by
  induction ts generalizing seen with
  | nil =>
    simp only [incomparableScan, Except.ok.injEq] at h
    subst h
    exact ⟨by simp, fun hb => Or.inl hb⟩
  | cons t ts ih =>
    unfold incomparableScan at h
    split at h
    · cases h
    · cases h
    · rename_i ht
      obtain ⟨h1, h2⟩ := ih true h
      refine ⟨?_, fun hb => Or.inr ⟨t, by simp, Or.inl ht⟩⟩
      intro t' ht'
      rcases List.mem_cons.mp ht' with rfl | hm
      · simp [ht]
      · exact h1 t' hm
    · rename_i ht
      obtain ⟨h1, h2⟩ := ih true h
      refine ⟨?_, fun hb => Or.inr ⟨t, by simp, Or.inr ht⟩⟩
      intro t' ht'
      rcases List.mem_cons.mp ht' with rfl | hm
      · simp [ht]
      · exact h1 t' hm
    · rename_i hne1 hne2 hne3 hne4
      obtain ⟨h1, h2⟩ := ih seen h
      refine ⟨?_, fun hb => ?_⟩
      · intro t' ht'
        rcases List.mem_cons.mp ht' with rfl | hm
        · exact ⟨hne1, hne2⟩
        · exact h1 t' hm
      · rcases h2 hb with hs | ⟨t', hm, ht'⟩
        · exact Or.inl hs
        · exact Or.inr ⟨t', by simp [hm], ht'⟩

theorem mem_flatMap_traits (dws : List DeriveWhere) (t : DeriveTrait) :
    t ∈ dws.flatMap (·.traits) ↔ ∃ dw ∈ dws, t ∈ dw.traits := by
  simp [List.mem_flatMap]

theorem Incomparable.addAttribute_ok (s b : Bool) (m : Meta) (dws : List DeriveWhere)
    (h : Incomparable.addAttribute s m dws = .ok b) : b = true ∧ NoTotal dws ∧ HasPartial dws := by
  unfold Incomparable.addAttribute at h
  split at h
  · split at h
    · cases h
    · obtain ⟨implCmp, hscan, hrest⟩ := bind_ok h
      obtain ⟨h1, h2⟩ := incomparableScan_ok _ _ _ hscan
      split at hrest
      · rename_i hic
        simp only [Except.ok.injEq] at hrest
        refine ⟨hrest.symm, ?_, ?_⟩
        · intro dw hdw t ht
          exact h1 t ((mem_flatMap_traits dws t).mpr ⟨dw, hdw, ht⟩)
        · rcases h2 hic with hf | ⟨t, hm, ht⟩
          · cases hf
          · obtain ⟨dw, hdw, htm⟩ := (mem_flatMap_traits dws t).mp hm
            exact ⟨dw, hdw, t, htm, ht⟩
      · cases hrest
  · cases h

theorem foldIncomparable_ok (dws : List DeriveWhere) (ms : List Meta) (s b : Bool)
    (h : foldIncomparable dws ms s = .ok b) (hb : b = true) : s = true ∨ (NoTotal dws ∧ HasPartial dws) := by
  induction ms generalizing s with
  | nil =>
    simp only [foldIncomparable, Except.ok.injEq] at h
    exact Or.inl (h ▸ hb)
  | cons m ms ih =>
    unfold foldIncomparable at h
    obtain ⟨s', h1, h2⟩ := bind_ok h
    exact Or.inr (Incomparable.addAttribute_ok s s' m dws h1).2

/-- Traits allowed on the item kind. -/
def UnionOK (kind : ItemKind) (t : DeriveTrait) : Prop := kind = .union_ → t.trait.supportsUnion = true

theorem parseZeroizeOptions_trait (isZ : Bool) (name : String) (ms : List Meta) (c0 c1 : Option MPath)
    (h : parseZeroizeOptions isZ name ms c0 = .ok c1) : True := trivial

theorem DeriveTrait.fromMeta_ok (c : Cfg) (kind : ItemKind) (m : Meta) (t : DeriveTrait)
    (h : DeriveTrait.fromMeta c kind m = .ok t) : UnionOK kind t := by
  unfold DeriveTrait.fromMeta at h
  obtain ⟨tr, htr, hrest⟩ := bind_ok h
  intro hk
  subst hk
  split at hrest
  · cases hrest
  · rename_i hsup
    have hs : tr.supportsUnion = true := by simpa using hsup
    have ht : t.trait = tr := by
      split at hrest
      · simp only [Except.ok.injEq] at hrest; rw [← hrest]
      · obtain ⟨nested, _, hp⟩ := bind_ok hrest
        unfold Trait.parseDeriveTrait at hp
        split at hp
        · obtain ⟨_, _, hp'⟩ := bind_ok hp; simp only [Except.ok.injEq] at hp'; rw [← hp']
        · obtain ⟨_, _, hp'⟩ := bind_ok hp; simp only [Except.ok.injEq] at hp'; rw [← hp']
        · cases hp
      · cases hrest
    rw [ht]; exact hs

theorem DeriveWhere.loop_ok (c : Cfg) (kind : ItemKind) (gsOpt : Option (List GElem)) :
    ∀ (n : Nat) (es : List Elem), es.length ≤ n → ∀ (acc : List DeriveTrait) (dw : DeriveWhere),
      (∀ t ∈ acc, UnionOK kind t) → DeriveWhere.loop c kind gsOpt es acc = .ok dw →
      ∀ t ∈ dw.traits, UnionOK kind t := by
  intro n
  induction n with
  | zero =>
    intro es hlen acc dw hacc h
    have : es = [] := by cases es <;> simp_all
    subst this
    unfold DeriveWhere.loop at h
    split at h
    · simp only [Except.ok.injEq] at h; subst h; exact hacc
    · cases h
  | succ n ih =>
    intro es hlen acc dw hacc h
    cases es with
    | nil =>
      unfold DeriveWhere.loop at h
      split at h
      · simp only [Except.ok.injEq] at h; subst h; exact hacc
      · cases h
    | cons e es =>
      cases e with
      | ofMeta m =>
        unfold DeriveWhere.loop at h
        obtain ⟨t, ht, hrest⟩ := bind_ok h
        have hacc' : ∀ t' ∈ acc ++ [t], UnionOK kind t' := by
          intro t' hm
          rcases List.mem_append.mp hm with h1 | h1
          · exact hacc t' h1
          · simp at h1; subst h1; exact DeriveTrait.fromMeta_ok c kind m _ ht
        simp only at hrest
        split at hrest
        · simp only [Except.ok.injEq] at hrest; subst hrest; exact hacc'
        · obtain ⟨g, _, hg⟩ := bind_ok hrest
          simp only [Except.ok.injEq] at hg; subst hg; exact hacc'
        · obtain ⟨g, _, hg⟩ := bind_ok hrest
          simp only [Except.ok.injEq] at hg; subst hg; exact hacc'
        · refine ih _ ?_ _ dw hacc' hrest
          simp only [List.length_cons] at hlen ⊢
          omega
        · cases hrest
      | comma => simp [DeriveWhere.loop] at h
      | junk => simp [DeriveWhere.loop] at h

theorem DeriveWhere.fromAttr_ok (c : Cfg) (kind : ItemKind) (es : List Elem) (gs : Option (List GElem))
    (dw : DeriveWhere) (h : DeriveWhere.fromAttr c kind es gs = .ok dw) : ∀ t ∈ dw.traits, UnionOK kind t := by
  unfold DeriveWhere.fromAttr at h
  split at h
  · cases h
  · exact DeriveWhere.loop_ok c kind gs es.length es (Nat.le_refl _) [] dw (by simp) h

/-- A predicate on traits that holds for all `derive_where`s. -/
def AllTraits (P : DeriveTrait → Prop) (dws : List DeriveWhere) : Prop := ∀ dw ∈ dws, ∀ t ∈ dw.traits, P t

theorem dedupGo_all (P : DeriveTrait → Prop) (cur : DeriveWhere) (l : List DeriveWhere)
    (hc : ∀ t ∈ cur.traits, P t) (hl : AllTraits P l) : AllTraits P (dedupGo cur l) := by
  induction l generalizing cur with
  | nil => intro dw hdw; simp [dedupGo] at hdw; subst hdw; exact hc
  | cons d l ih =>
    unfold dedupGo
    have hd := hl d (by simp)
    have hl' : AllTraits P l := fun dw h => hl dw (by simp [h])
    split
    · apply ih _ _ hl'
      intro t ht
      rcases List.mem_append.mp ht with h | h
      · exact hc t h
      · exact hd t h
    · intro dw hdw
      rcases List.mem_cons.mp hdw with rfl | h
      · exact hc
      · exact ih d hd hl' dw h

theorem dedupMerge_all (P : DeriveTrait → Prop) (l : List DeriveWhere) (hl : AllTraits P l) :
    AllTraits P (dedupMerge l) := by
  cases l with
  | nil => intro dw h; simp [dedupMerge] at h
  | cons d l => exact dedupGo_all P d l (hl d (by simp)) (fun dw h => hl dw (by simp [h]))

theorem ItemAttr.steps_ok (c : Cfg) (kind : ItemKind) (attrs : List RawAttr) (acc acc' : AttrAcc)
    (hacc : AllTraits (UnionOK kind) acc.dws)
    (hsi : kind = .enum_ → acc.skipInners = [])
    (h : ItemAttr.steps c kind attrs acc = .ok acc') :
    AllTraits (UnionOK kind) acc'.dws ∧ (kind = .enum_ → acc'.skipInners = []) := by
  induction attrs generalizing acc with
  | nil => simp only [ItemAttr.steps, Except.ok.injEq] at h; subst h; exact ⟨hacc, hsi⟩
  | cons a attrs ih =>
    unfold ItemAttr.steps at h
    obtain ⟨acc1, h1, h2⟩ := bind_ok h
    have push : ∀ dw, (∀ t ∈ dw.traits, UnionOK kind t) → AllTraits (UnionOK kind) (acc.dws ++ [dw]) := by
      intro dw hdw d hd
      rcases List.mem_append.mp hd with h | h
      · exact hacc d h
      · simp at h; subst h; exact hdw
    have hstep : AllTraits (UnionOK kind) acc1.dws ∧ (kind = .enum_ → acc1.skipInners = []) := by
      unfold ItemAttr.step at h1
      split at h1
      · cases h1
      · split at h1
        · cases h1
        · split at h1
          · split at h1
            · cases h1
            · rename_i hne
              simp only [Except.ok.injEq] at h1; subst h1
              exact ⟨hacc, fun hk => by simp [hk] at hne⟩
          · split at h1
            · simp only [Except.ok.injEq] at h1; subst h1; exact ⟨hacc, hsi⟩
            · split at h1
              · simp only [Except.ok.injEq] at h1; subst h1; exact ⟨hacc, hsi⟩
              · obtain ⟨dw, hdw, hr⟩ := bind_ok h1
                simp only [Except.ok.injEq] at hr; subst hr
                exact ⟨push dw (DeriveWhere.fromAttr_ok c kind _ _ dw hdw), hsi⟩
        · obtain ⟨dw, hdw, hr⟩ := bind_ok h1
          simp only [Except.ok.injEq] at hr; subst hr
          exact ⟨push dw (DeriveWhere.fromAttr_ok c kind _ _ dw hdw), hsi⟩
      · simp only [Except.ok.injEq] at h1; subst h1; exact ⟨hacc, hsi⟩
    exact ih acc1 hstep.1 hstep.2 h2

/-- What `ItemAttr::from_attrs` guarantees. -/
structure ItemAttrOK (kind : ItemKind) (ia : ItemAttr) : Prop where
  nonempty : ia.deriveWheres ≠ []
  noDup : ∀ dw ∈ ia.deriveWheres, hasDup dw.traits = false
  union : AllTraits (UnionOK kind) ia.deriveWheres
  incomparable : ia.incomparable = true → NoTotal ia.deriveWheres ∧ HasPartial ia.deriveWheres
  enumSkip : kind = .enum_ → ia.skipInner = .none
  skipOK : SkipOK ia.deriveWheres ia.skipInner

theorem foldSkipInner_ok (c : Cfg) (dws : List DeriveWhere) (ms : List Meta) (s s' : Skip)
    (hs : SkipOK dws s) (h : foldSkipInner c dws ms s = .ok s') : SkipOK dws s' := by
  induction ms generalizing s with
  | nil => simp only [foldSkipInner, Except.ok.injEq] at h; subst h; exact hs
  | cons m ms ih =>
    unfold foldSkipInner at h
    obtain ⟨s1, h1, h2⟩ := bind_ok h
    exact ih s1 (Skip.addAttribute_ok c _ _ _ dws _ m hs h1) h2

theorem foldSkipInner_nil (c : Cfg) (dws : List DeriveWhere) (s s' : Skip)
    (h : foldSkipInner c dws [] s = .ok s') : s' = s := by
  simp only [foldSkipInner, Except.ok.injEq] at h; exact h.symm

theorem dedupMerge_ne_nil (l : List DeriveWhere) (h : l ≠ []) : dedupMerge l ≠ [] := by
  cases l with
  | nil => exact absurd rfl h
  | cons d l =>
    simp only [dedupMerge]
    generalize d = cur
    induction l generalizing cur with
    | nil => simp [dedupGo]
    | cons x l ih =>
      unfold dedupGo
      split
      · exact ih (by simp) _
      · simp

theorem ItemAttr.fromAttrs_ok (c : Cfg) (kind : ItemKind) (attrs : List RawAttr) (ia : ItemAttr)
    (h : ItemAttr.fromAttrs c kind attrs = .ok ia) : ItemAttrOK kind ia := by
  unfold ItemAttr.fromAttrs at h
  obtain ⟨acc, hacc, hrest⟩ := bind_ok h
  obtain ⟨hall, hsi⟩ := ItemAttr.steps_ok c kind attrs {} acc (by intro dw h; simp at h) (fun _ => rfl) hacc
  split at hrest
  · cases hrest
  · rename_i hne
    simp only at hrest
    split at hrest
    · cases hrest
    · rename_i hdup
      obtain ⟨skipInner, hs, hr2⟩ := bind_ok hrest
      obtain ⟨inc, hi, hr3⟩ := bind_ok hr2
      simp only [Except.ok.injEq] at hr3
      subst hr3
      refine ⟨?_, ?_, dedupMerge_all _ _ hall, ?_, ?_, foldSkipInner_ok c _ acc.skipInners Skip.none _ trivial hs⟩
      · apply dedupMerge_ne_nil
        intro he; simp [he] at hne
      · intro dw hdw
        simp only [Bool.not_eq_true, List.any_eq_false] at hdup
        have := hdup dw hdw
        simpa using this
      · intro hinc
        rcases foldIncomparable_ok _ _ _ _ hi hinc with h | h
        · cases h
        · exact h
      · intro hk
        rw [hsi hk] at hs
        exact foldSkipInner_nil c _ _ _ hs

end DW

namespace DW

def DerivesDefault (dws : List DeriveWhere) : Prop := ∃ dw ∈ dws, dw.contains .default = true

theorem Default.addAttribute_ok (s b : Bool) (m : Meta) (dws : List DeriveWhere)
    (h : Default.addAttribute s m dws = .ok b) : b = true ∧ DerivesDefault dws := by
  unfold Default.addAttribute at h
  split at h
  · split at h
    · cases h
    · split at h
      · rename_i hany
        simp only [Except.ok.injEq] at h
        refine ⟨h.symm, ?_⟩
        simp only [List.any_eq_true] at hany
        exact hany
      · cases h
  · cases h

structure VariantAttrOK (dws : List DeriveWhere) (va : VariantAttr) : Prop where
  incomparable : va.incomparable = true → NoTotal dws ∧ HasPartial dws
  default : va.default = true → DerivesDefault dws
  skip : SkipOK dws va.skipInner

theorem VariantAttr.addMetas_ok (c : Cfg) (dws : List DeriveWhere) (noFields : Bool) (ms : List Meta)
    (self va : VariantAttr) (hs : VariantAttrOK dws self)
    (h : VariantAttr.addMetas c dws noFields ms self = .ok va) : VariantAttrOK dws va := by
  induction ms generalizing self with
  | nil => simp only [VariantAttr.addMetas, Except.ok.injEq] at h; subst h; exact hs
  | cons m ms ih =>
    unfold VariantAttr.addMetas at h
    split at h
    · split at h
      · cases h
      · obtain ⟨s, hsk, h2⟩ := bind_ok h
        refine ih _ ?_ h2
        exact ⟨hs.incomparable, hs.default, Skip.addAttribute_ok c _ _ _ dws _ m hs.skip hsk⟩
    · split at h
      · obtain ⟨d, hd, h2⟩ := bind_ok h
        have := Default.addAttribute_ok _ _ _ _ hd
        refine ih _ ?_ h2
        exact ⟨hs.incomparable, fun _ => this.2, hs.skip⟩
      · split at h
        · obtain ⟨i, hi, h2⟩ := bind_ok h
          have := Incomparable.addAttribute_ok _ _ _ _ hi
          refine ih _ ?_ h2
          exact ⟨fun _ => this.2, hs.default, hs.skip⟩
        · cases h

theorem VariantAttr.fromAttrs_ok (c : Cfg) (dws : List DeriveWhere) (noFields : Bool) (bs : List DWBody)
    (self va : VariantAttr) (hs : VariantAttrOK dws self)
    (h : VariantAttr.fromAttrs c dws noFields bs self = .ok va) : VariantAttrOK dws va := by
  induction bs generalizing self with
  | nil => simp only [VariantAttr.fromAttrs, Except.ok.injEq] at h; subst h; exact hs
  | cons b bs ih =>
    unfold VariantAttr.fromAttrs at h
    obtain ⟨s1, h1, h2⟩ := bind_ok h
    apply ih s1 _ h2
    unfold VariantAttr.addMeta at h1
    split at h1
    · cases h1
    · obtain ⟨nested, _, h3⟩ := bind_ok h1
      exact VariantAttr.addMetas_ok c dws noFields nested self s1 hs h3

/-- What `Data::from_variant` guarantees about one variant. -/
structure VariantOK (dws : List DeriveWhere) (v : RawVariant) (d : Data) : Prop where
  shape : d.shape = v.shape
  isVariant : d.isVariant = true
  unit : d.shape = .unit → d.fields = []
  incomparable : d.incomparable = true → NoTotal dws ∧ HasPartial dws
  default : d.default = true → DerivesDefault dws
  skipInner : SkipOK dws d.skipInner
  fieldSkips : ∀ f ∈ d.fields, SkipOK dws f.skip
  /-- a variant written without fields has none -/
  fieldsEmpty : v.fields = [] → d.fields = []

theorem Data.fromVariant_ok (c : Cfg) (dws : List DeriveWhere) (v : RawVariant) (d : Data)
    (h : Data.fromVariant c dws v = .ok d) : VariantOK dws v d := by
  unfold Data.fromVariant at h
  obtain ⟨a, ha, h1⟩ := bind_ok h
  obtain ⟨fields, hf, h2⟩ := bind_ok h1
  simp only [Except.ok.injEq] at h2
  subst h2
  have hok := VariantAttr.fromAttrs_ok c dws _ v.attrs {} a ⟨by simp, by simp, trivial⟩ ha
  refine ⟨rfl, rfl, ?_, hok.incomparable, hok.default, hok.skip, ?_, ?_⟩
  · intro hs
    simp only at hs
    simp only [Data.variantFields, hs, Except.ok.injEq] at hf
    simp [← hf]
  · unfold Data.variantFields at hf
    split at hf
    · simp only [Except.ok.injEq] at hf; subst hf; simp
    · exact Field.fromFields_ok c dws _ _ _ hf
  · intro hnil
    unfold Data.variantFields at hf
    split at hf
    · simp only [Except.ok.injEq] at hf; subst hf; rfl
    · rw [hnil] at hf
      simp only [Field.fromFields, Except.ok.injEq] at hf
      subst hf; rfl

theorem Data.fromVariants_ok (c : Cfg) (dws : List DeriveWhere) (vs : List RawVariant) (ds : List Data)
    (h : Data.fromVariants c dws vs = .ok ds) :
    ds.length = vs.length ∧ ∀ k (hk : k < ds.length) (hk' : k < vs.length), VariantOK dws vs[k] ds[k] := by
  induction vs generalizing ds with
  | nil => simp only [Data.fromVariants, Except.ok.injEq] at h; subst h; simp
  | cons v vs ih =>
    unfold Data.fromVariants at h
    obtain ⟨d, hd, h1⟩ := bind_ok h
    obtain ⟨ds', hds, h2⟩ := bind_ok h1
    simp only [Except.ok.injEq] at h2
    subst h2
    obtain ⟨hl, hall⟩ := ih ds' hds
    refine ⟨by simp [hl], ?_⟩
    intro k hk hk'
    cases k with
    | zero => exact Data.fromVariant_ok c dws v d hd
    | succ k => exact hall k (by simpa using hk) (by simpa using hk')

theorem scanVariants_ok (itemInc : Bool) (ds : List Data) (fd0 fi0 fd fi : Bool)
    (h : scanVariants itemInc ds fd0 fi0 = .ok (fd, fi)) :
    fd = (fd0 || ds.any (·.default)) ∧ fi = (fi0 || ds.any (·.incomparable)) ∧
    (itemInc = true → ∀ d ∈ ds, d.incomparable = false) ∧
    (ds.filter (·.default)).length + (if fd0 then 1 else 0) ≤ 1 := by
  induction ds generalizing fd0 fi0 with
  | nil =>
    simp only [scanVariants, Except.ok.injEq, Prod.mk.injEq] at h
    obtain ⟨rfl, rfl⟩ := h
    cases fd0 <;> simp
  | cons d ds ih =>
    unfold scanVariants at h
    split at h
    · cases h
    · rename_i hnd
      split at h
      · cases h
      · rename_i hni
        obtain ⟨h1, h2, h3, h4⟩ := ih _ _ h
        refine ⟨?_, ?_, ?_, ?_⟩
        · rw [h1]; simp [Bool.or_assoc]
        · rw [h2]; simp [Bool.or_assoc]
        · intro hi d' hd'
          rcases List.mem_cons.mp hd' with rfl | hm
          · simp only [hi, Bool.true_and, Bool.not_eq_true] at hni; exact hni
          · exact h3 hi d' hm
        · simp only [Bool.and_eq_true, not_and, Bool.not_eq_true] at hnd
          cases hdd : d.default
          · simp only [hdd, Bool.or_false] at h4
            simpa [List.filter_cons, hdd] using h4
          · have hf : fd0 = false := hnd hdd
            subst hf
            simp only [hdd, Bool.or_true, if_true] at h4
            simp only [List.filter_cons, hdd, if_true, List.length_cons, Bool.false_eq_true, if_false]
            omega

end DW

namespace DW

theorem Data.fromStruct_ok (c : Cfg) (dws : List DeriveWhere) (skipInner : Skip) (inc : Bool)
    (v : RawVariant) (d : Data) (h : Data.fromStruct c dws skipInner inc v = .ok d) :
    d.shape = v.shape ∧ d.isVariant = false ∧ d.incomparable = inc ∧ (d.shape = .unit → d.fields = []) ∧
      d.default = false ∧ d.skipInner = skipInner ∧ ∀ f ∈ d.fields, SkipOK dws f.skip := by
  unfold Data.fromStruct at h
  split at h
  · split at h
    · simp only [Except.ok.injEq] at h; subst h
      rename_i hs _
      exact ⟨hs.symm, rfl, rfl, fun _ => rfl, rfl, rfl, by simp⟩
    · cases h
  · rename_i hns
    split at h
    · cases h
    · obtain ⟨fields, hfs, h2⟩ := bind_ok h
      simp only [Except.ok.injEq] at h2; subst h2
      refine ⟨rfl, rfl, rfl, fun hs => ?_, rfl, rfl, Field.fromFields_ok c dws _ _ _ hfs⟩
      simp only at hs
      exact absurd hs hns

/-- Everything `Input::from_input` guarantees about an accepted item. -/
structure InputOK (c : Cfg) (raw : RawItem) (inp : Input) : Prop where
  dwsNonempty : inp.deriveWheres ≠ []
  noDup : ∀ dw ∈ inp.deriveWheres, hasDup dw.traits = false
  union : AllTraits (UnionOK raw.kind) inp.deriveWheres
  wf : inp.item.WF
  shapes : raw.kind ≠ .union_ → (∀ v ∈ raw.variants, v.shape ≠ .union) → ∀ d ∈ inp.item.variants, d.shape ≠ .union
  incomparable : (inp.item.markedIncomparable = true ∨ ∃ d ∈ inp.item.variants, d.incomparable = true) →
    NoTotal inp.deriveWheres ∧ HasPartial inp.deriveWheres
  incNotBoth : inp.item.markedIncomparable = true → inp.item.isEnum = true →
    ∀ d ∈ inp.item.variants, d.incomparable = false
  defaultAtMostOne : inp.item.isEnum = true → (inp.item.variants.filter (·.default)).length ≤ 1
  defaultExists : inp.item.isEnum = true → DerivesDefault inp.deriveWheres →
    (inp.item.variants.filter (·.default)).length = 1
  defaultDerived : ∀ d ∈ inp.item.variants, d.default = true → DerivesDefault inp.deriveWheres
  kindEnum : raw.kind = .enum_ ↔ inp.item.isEnum = true
  generics : inp.generics = raw.generics
  skips : ∀ d ∈ inp.item.variants, SkipOK inp.deriveWheres d.skipInner ∧ ∀ f ∈ d.fields, SkipOK inp.deriveWheres f.skip
  /-- variants of enums are marked as variants, the data of a struct or union is not -/
  isVariant : ∀ d ∈ inp.item.variants, d.isVariant = inp.item.isEnum
  /-- `Discriminant::Unit` / `UnitRepr` are only chosen for enums all of whose variants are field-less -/
  fieldless : ∀ disc id inc vs, inp.item = .enum_ disc id inc vs → (disc = .unit ∨ ∃ r, disc = .unitRepr r) →
    ∀ d ∈ vs, d.fields = []

/-- `Discriminant::parse` answers `Unit` / `UnitRepr` only when no variant has fields. -/
theorem Discriminant.parse_unit (attrs : List RawAttr) (vs : List RawVariant) (disc : Discriminant)
    (h : Discriminant.parse attrs vs = .ok disc) (hd : disc = .unit ∨ ∃ r, disc = .unitRepr r) :
    ∀ v ∈ vs, v.fields = [] := by
  have key : (vs.all (·.fields.isEmpty)) = true → ∀ v ∈ vs, v.fields = [] := by
    intro hall v hv
    have := List.all_eq_true.mp hall v hv
    simpa using this
  unfold Discriminant.parse at h
  split at h
  · cases h; rcases hd with hd | ⟨r, hd⟩ <;> cases hd
  · obtain ⟨r, _, h2⟩ := bind_ok h
    simp only at h2
    split at h2
    · simp only [Except.ok.injEq] at h2
      split at h2
      · rename_i hall; exact key hall
      · subst h2; rcases hd with hd | ⟨r', hd⟩ <;> cases hd
    · split at h2
      · rename_i hall; exact key hall
      · split at h2
        · cases h2
        · cases h2; rcases hd with hd | ⟨r', hd⟩ <;> cases hd

theorem Input.buildItem_ok (c : Cfg) (raw : RawItem) (attr : ItemAttr) (hattr : ItemAttrOK raw.kind attr)
    (item : Item) (fi : Bool) (h : Input.buildItem c raw attr = .ok (item, fi)) :
    InputOK c raw ⟨attr.deriveWheres, raw.generics, item⟩ := by
  unfold Input.buildItem at h
  simp only at h
  split at h
  · -- enum
    rename_i hk
    obtain ⟨disc, hdisc, h1⟩ := bind_ok h
    obtain ⟨variants, hvs, h2⟩ := bind_ok h1
    obtain ⟨found, hscan, h3⟩ := bind_ok h2
    obtain ⟨fd, fi'⟩ := found
    obtain ⟨hfd, hfi, hboth, hcount⟩ := scanVariants_ok _ _ _ _ _ _ hscan
    obtain ⟨hlen, hvok⟩ := Data.fromVariants_ok c _ _ _ hvs
    have hmemv : ∀ d ∈ variants, ∃ v ∈ raw.variants, VariantOK attr.deriveWheres v d := by
      intro d hd
      obtain ⟨k, hk1, hk2⟩ := List.getElem_of_mem hd
      have hk' : k < raw.variants.length := by omega
      exact ⟨raw.variants[k], List.getElem_mem _, hk2 ▸ hvok k hk1 hk'⟩
    split at h3
    · cases h3
    · rename_i hdm
      split at h3
      · cases h3
      · simp only [pure, Except.pure, Except.ok.injEq, Prod.mk.injEq] at h3
        obtain ⟨rfl, rfl⟩ := h3
        simp only [Bool.false_or] at hfd
        refine { dwsNonempty := hattr.nonempty, noDup := hattr.noDup, union := hattr.union,
                 isVariant := ?_, fieldless := ?_,
                 wf := ?_, shapes := ?_, incomparable := ?_, incNotBoth := ?_, defaultAtMostOne := ?_,
                 defaultExists := ?_, defaultDerived := ?_, kindEnum := ?_, generics := rfl, skips := ?_ }
        · intro d hd
          obtain ⟨v, _, hok⟩ := hmemv d hd
          exact ⟨hok.unit⟩
        · intro _ hraw d hd
          obtain ⟨v, hv, hok⟩ := hmemv d hd
          rw [hok.shape]; exact hraw v hv
        · rintro (hm | ⟨d, hd, hi⟩)
          · exact hattr.incomparable hm
          · obtain ⟨v, _, hok⟩ := hmemv d hd
            exact hok.incomparable hi
        · intro hm _ d hd
          exact hboth hm d hd
        · intro _
          simpa [Item.variants] using hcount
        · intro _ hdd
          have hany : (attr.deriveWheres.any fun dw => dw.contains .default) = true := by
            obtain ⟨dw, hdw, hc⟩ := hdd
            exact List.any_eq_true.mpr ⟨dw, hdw, hc⟩
          have hfd1 : fd = true := by
            cases hfdv : fd
            · simp [hfdv, hany] at hdm
            · rfl
          have : (variants.filter (·.default)).length ≤ 1 := by simpa using hcount
          have hex : ∃ d ∈ variants, d.default = true := by
            rw [hfd] at hfd1
            exact List.any_eq_true.mp hfd1
          obtain ⟨d, hd, hdd'⟩ := hex
          have hpos : 0 < (variants.filter (·.default)).length :=
            List.length_pos_of_mem (List.mem_filter.mpr ⟨hd, hdd'⟩)
          simp only [Item.variants]
          omega
        · intro d hd hdd
          obtain ⟨v, _, hok⟩ := hmemv d hd
          exact hok.default hdd
        · simp [Item.isEnum, hk]
        · intro d hd
          obtain ⟨v, _, hok⟩ := hmemv d hd
          exact ⟨hok.skipInner, hok.fieldSkips⟩
        · intro d hd
          obtain ⟨v, _, hok⟩ := hmemv d hd
          simpa [Item.isEnum] using hok.isVariant
        · intro disc' id inc vs hit hdd d hd
          simp only [Item.enum_.injEq] at hit
          obtain ⟨rfl, _, _, rfl⟩ := hit
          have hparse : Discriminant.parse raw.attrs raw.variants = .ok disc := by
            split at hdisc
            · simp only [pure, Except.pure, Except.ok.injEq] at hdisc
              subst hdisc; rcases hdd with hdd | ⟨r, hdd⟩ <;> cases hdd
            · exact hdisc
          obtain ⟨k, hk1, hk2⟩ := List.getElem_of_mem hd
          have hk' : k < raw.variants.length := by omega
          have hraw := Discriminant.parse_unit _ _ _ hparse hdd raw.variants[k] (List.getElem_mem _)
          exact hk2 ▸ (hvok k hk1 hk').fieldsEmpty hraw
  · -- struct / union
    rename_i hk
    split at h
    · rename_i v hv
      obtain ⟨d, hd, h2⟩ := bind_ok h
      simp only [pure, Except.pure, Except.ok.injEq, Prod.mk.injEq] at h2
      obtain ⟨rfl, rfl⟩ := h2
      obtain ⟨hshape, hisv, hinc, hunit, hdef, hski, hfsk⟩ := Data.fromStruct_ok _ _ _ _ _ _ hd
      refine { dwsNonempty := hattr.nonempty, noDup := hattr.noDup, union := hattr.union,
               isVariant := ?_, fieldless := ?_,
               wf := ?_, shapes := ?_, incomparable := ?_, incNotBoth := ?_, defaultAtMostOne := ?_,
               defaultExists := ?_, defaultDerived := ?_, kindEnum := ?_, generics := rfl, skips := ?_ }
      · intro d' hd'
        simp only [Item.variants, List.mem_singleton] at hd'
        subst hd'
        exact ⟨hunit⟩
      · intro hnu hraw d' hd'
        simp only [Item.variants, List.mem_singleton] at hd'
        subst hd'
        rw [hshape]
        have : (raw.kind == ItemKind.union_) = false := by simpa using hnu
        simp only [this, Bool.false_eq_true, if_false]
        exact hraw v (by rw [hv]; simp)
      · rintro (hm | ⟨d', hd', hi⟩)
        · simp only [Item.markedIncomparable] at hm
          rw [hinc] at hm
          exact hattr.incomparable hm
        · simp only [Item.variants, List.mem_singleton] at hd'
          subst hd'
          rw [hinc] at hi
          exact hattr.incomparable hi
      · intro _ he; simp [Item.isEnum] at he
      · intro he; simp [Item.isEnum] at he
      · intro he; simp [Item.isEnum] at he
      · intro d' hd' hdd
        simp only [Item.variants, List.mem_singleton] at hd'
        subst hd'
        rw [hdef] at hdd; cases hdd
      · simp only [Item.isEnum]
        constructor
        · intro he; exact absurd he (by intro hh; exact hk hh)
        · intro hh; cases hh
      · intro d' hd'
        simp only [Item.variants, List.mem_singleton] at hd'
        subst hd'
        exact ⟨hski ▸ hattr.skipOK, hfsk⟩
      · intro d' hd'
        simp only [Item.variants, List.mem_singleton] at hd'
        subst hd'
        simpa [Item.isEnum] using hisv
      · intro disc' id inc vs hit; cases hit
    · cases h

theorem Input.fromInput_ok (c : Cfg) (raw : RawItem) (inp : Input) (h : Input.fromInput c raw = .ok inp) :
    InputOK c raw inp := by
  unfold Input.fromInput at h
  obtain ⟨attr, hattr, h1⟩ := bind_ok h
  obtain ⟨r, hr, h2⟩ := bind_ok h1
  split at h2
  · cases h2
  · simp only [Except.ok.injEq] at h2
    subst h2
    obtain ⟨item, fi⟩ := r
    exact Input.buildItem_ok c raw attr (ItemAttr.fromAttrs_ok c raw.kind raw.attrs attr hattr) item fi hr

end DW

